import FP.Model.NodeExpandModes
import FP.Proofs.NodeExpandKFD
import FP.Model.Enc.KFDCWitness
/-!
# FP.Proofs.NodeExpandModes — node mode = edge mode on the explicit expansion, for `kPathCover`,
`kLeastAbsErrors`, `kMinPathError`

* `nxm_translate_ok`: what `nodeTranslateGen` returns when it accepts (all translations are the element-wise
  ones of the property text);
* `nxm_ignore_mem`, `nxm_flow_agree`: the ignore list built by the code is, as a set, "copies of all original
  edges, of all attribute-less nodes and of the caller's ignored nodes", and on every edge outside it the copied
  attribute is the node's value;
* `nxm_kcoverLP_congr`, `nxm_klaeLP_congr`, `nxm_kmpeLP_congr`: the three generators depend on the ignore list
  only as a set and on the values of non-ignored edges only;
* `nxm_encodePaths_len_congr`: `_encode_paths` reads the length attribute only on the edges of the subpath
  constraints (when `subpath_constraints_coverage_length` is set) and, with `encode_edge_position`, on all edges;
* the three equalities `nxm_kcover_node_eq`, `nxm_klae_node_eq`, `nxm_kmpe_node_eq`.
-/
namespace FP
namespace NX

/-! ## inversion of the translation -/

theorem nxm_expandScaling_ok {g : Graph} {l : List (Node × Rat)} {xs : List (Edge × Rat)}
    (h : expandScaling g l = .ok xs) : xs = l.map fun p => (nodeEdge p.1, p.2) := by
  unfold expandScaling at h
  exact (mapM_ok_map (fun p : Node × Rat => (expandedNode g p.1).map fun x => (x, p.2))
    (fun p => (nodeEdge p.1, p.2)) (fun _ => True) (by
      intro a b hab
      cases hx : expandedNode g a.1 with
      | error e => rw [hx] at hab; exact nomatch hab
      | ok x =>
        rw [hx] at hab
        obtain ⟨_, h2⟩ := expandedNode_ok hx
        refine ⟨trivial, ?_⟩
        have : (x, a.2) = b := Except.ok.inj hab
        rw [← this, h2]) l xs h).1

/-- the record a node branch hands on, with every translation spelled out -/
def nxmTranslated (inp : NodeModeInput) (ng : NodeGraph) (lengths : Option (List (Edge × Rat)))
    (pos : Bool) : ErrInput :=
  { fi := { base := expandGraph ng.g, flow := expandFlow ng,
            ignore := (edgesToIgnore ng ++ inp.nf.ignoreNodes.map nodeEdge).eraseDups,
            starts := inp.starts.map n0, ends := inp.ends.map n1,
            weightInt := inp.nf.weightInt,
            cfg := { k := inp.nf.k, allowEmpty := inp.nf.allowEmpty,
                     constraints := specConstraints inp.nf.constraints,
                     coverage := inp.nf.coverage, coverageLength := inp.nf.coverageLength,
                     lengths := lengths, encodePosition := pos } },
    scaling := inp.scaling.map fun p => (nodeEdge p.1, p.2) }

theorem nxm_translate_ok {inp : NodeModeInput} {ng : NodeGraph} {lengths : Option (List (Edge × Rat))}
    {pos : Bool} {ei : ErrInput} (h : nodeTranslateGen inp ng lengths pos = .ok ei) :
    ei = nxmTranslated inp ng lengths pos := by
  unfold nodeTranslateGen at h
  by_cases hn : ng.g.nodes.isEmpty = true
  · rw [if_pos hn] at h; exact nomatch h
  · rw [if_neg hn] at h
    cases hc : expandConstraints ng.g inp.nf.constraints with
    | error e => rw [hc] at h; exact nomatch h
    | ok cons =>
      rw [hc] at h
      cases hs : expandStarts ng.g inp.starts with
      | error e => rw [hs] at h; exact nomatch h
      | ok xs =>
        rw [hs] at h
        cases he : expandEnds ng.g inp.ends with
        | error e => rw [he] at h; exact nomatch h
        | ok xe =>
          rw [he] at h
          cases hi : inp.nf.ignoreNodes.mapM (expandedNode ng.g) with
          | error e => rw [hi] at h; exact nomatch h
          | ok ign =>
            rw [hi] at h
            cases hsc : expandScaling ng.g inp.scaling with
            | error e => rw [hsc] at h; exact nomatch h
            | ok sc =>
              rw [hsc] at h
              by_cases hem : cons.any (·.isEmpty) = true
              · simp only [hem, if_true] at h; exact nomatch h
              · simp only [hem] at h
                have h1 := expandConstraints_ok hc
                have h2 := (expandStarts_ok hs).1
                have h3 := (expandEnds_ok he).1
                have h4 := (mapM_expandedNode_ok hi).1
                have h5 := nxm_expandScaling_ok hsc
                subst h1 h2 h3 h4 h5
                exact (Except.ok.inj h).symm

/-! ## the ignore list as a set, the copied values -/

/-- the ignore list of the property text -/
def nxmSpecIgnore (ng : NodeGraph) (ignoreNodes : List Node) : List Edge :=
  ng.g.edges.map edgeEdge ++ (ng.g.nodes.filter fun v => !ng.hasFlow v).map nodeEdge
    ++ ignoreNodes.map nodeEdge

theorem nxm_ignore_mem (ng : NodeGraph) (hc : Closed ng.g) (ignoreNodes : List Node) (e : Edge) :
    e ∈ (edgesToIgnore ng ++ ignoreNodes.map nodeEdge).eraseDups ↔ e ∈ nxmSpecIgnore ng ignoreNodes := by
  rw [List.mem_eraseDups, List.mem_append, edgesToIgnore_exact ng hc]
  simp only [nxmSpecIgnore, List.mem_append, List.mem_map, List.mem_filter]
  constructor
  · rintro ((⟨x, hx, rfl⟩ | ⟨v, hv, hf, rfl⟩) | ⟨v, hv, rfl⟩)
    · exact Or.inl (Or.inl ⟨x, hx, rfl⟩)
    · exact Or.inl (Or.inr ⟨v, ⟨hv, by simp [hf]⟩, rfl⟩)
    · exact Or.inr ⟨v, hv, rfl⟩
  · rintro ((⟨x, hx, rfl⟩ | ⟨v, ⟨hv, hf⟩, rfl⟩) | ⟨v, hv, rfl⟩)
    · exact Or.inl (Or.inl ⟨x, hx, rfl⟩)
    · exact Or.inl (Or.inr ⟨v, hv, by simpa using hf, rfl⟩)
    · exact Or.inr ⟨v, hv, rfl⟩

theorem nxm_ignore_contains (ng : NodeGraph) (hc : Closed ng.g) (ignoreNodes : List Node) (e : Edge) :
    (edgesToIgnore ng ++ ignoreNodes.map nodeEdge).eraseDups.contains e
      = (nxmSpecIgnore ng ignoreNodes).contains e := by
  rw [Bool.eq_iff_iff]
  simp only [List.contains_iff_mem]
  exact nxm_ignore_mem ng hc ignoreNodes e

/-- outside the ignore list the attribute copied onto the expansion is the node's value -/
theorem nxm_flow_agree (ng : NodeGraph) (hc : Closed ng.g)
    (hef : ∀ p ∈ ng.edgeFlow, p.1 ∈ ng.g.edges) (ignoreNodes : List Node) (e : Edge)
    (hne : (edgesToIgnore ng ++ ignoreNodes.map nodeEdge).eraseDups.contains e = false) :
    lookupD (expandFlow ng) e 0 = lookupD (ng.nodeFlow.map fun p => (nodeEdge p.1, p.2)) e 0 := by
  have hnot : ∀ p ∈ ng.edgeFlow, edgeEdge p.1 ≠ e := by
    intro p hp hpe
    have hin : e ∈ (edgesToIgnore ng ++ ignoreNodes.map nodeEdge).eraseDups := by
      rw [List.mem_eraseDups, List.mem_append, edgesToIgnore_exact ng hc]
      exact Or.inl (Or.inl ⟨p.1, hef p hp, hpe.symm⟩)
    have h3 := List.contains_iff_mem.2 hin
    exact absurd (h3.symm.trans hne) (by decide)
  unfold lookupD expandFlow
  rw [List.lookup_append, lookup_map_none edgeEdge _ _ hnot]
  simp

/-! ## the generators read the ignore list as a set and values of non-ignored edges only -/

/-- two edge-level inputs that the generators cannot tell apart -/
structure FlowAgree (a b : FlowInput) : Prop where
  base : a.base = b.base
  starts : a.starts = b.starts
  ends : a.ends = b.ends
  wInt : a.weightInt = b.weightInt
  cfg : a.cfg = b.cfg
  ign : ∀ e, a.ignore.contains e = b.ignore.contains e
  f : ∀ e, a.ignored e = false → a.f e = b.f e

namespace FlowAgree
variable {a b : FlowInput} (h : FlowAgree a b)
include h

theorem st : a.st = b.st := by unfold FlowInput.st; rw [h.base, h.starts, h.ends]

theorem ignored : a.ignored = b.ignored := by
  funext e; unfold FlowInput.ignored; rw [h.st, h.ign]

theorem active : a.activeEdges = b.activeEdges := by
  unfold FlowInput.activeEdges; rw [h.st, h.ignored]

end FlowAgree

theorem nxm_flatMap_congr {α β} (l : List α) (f g : α → List β) (h : ∀ x ∈ l, f x = g x) :
    l.flatMap f = l.flatMap g := by
  induction l with
  | nil => rfl
  | cons x xs ih =>
    rw [List.flatMap_cons, List.flatMap_cons, h x (by simp), ih (fun y hy => h y (by simp [hy]))]

theorem nxm_kcoverLP_eq (fi : FlowInput) : kcoverLP fi = (encodePaths fi.st fi.cfg).append
    { rows := (fi.activeEdges.filter fun e => !coverSkipped fi e).map fun e =>
        rowGe (ones (List.range fi.cfg.k) (edgeVar e)) 1 } := rfl

theorem nxm_kcoverLP_congr (a b : FlowInput) (h : FlowAgree a b) : kcoverLP a = kcoverLP b := by
  unfold kcoverLP coverSkipped
  rw [h.st, h.cfg, h.active]

/-- two inputs of the error models that the generators cannot tell apart -/
theorem nxm_err_facts (a b : ErrInput) (h : FlowAgree a.fi b.fi) (hs : a.scaling = b.scaling) :
    a.st = b.st ∧ a.k = b.k ∧ a.ignored = b.ignored ∧ a.basicEdges = b.basicEdges ∧
    (∀ e ∈ a.basicEdges, a.fi.f e = b.fi.f e) ∧ a.wmax none = b.wmax none ∧ a.scale = b.scale := by
  have hst : a.st = b.st := h.st
  have hk : a.k = b.k := by unfold ErrInput.k; rw [h.cfg]
  have hign : a.ignored = b.ignored := by
    funext e; unfold ErrInput.ignored; rw [h.ignored, hs]
  have hbasic : a.basicEdges = b.basicEdges := by
    unfold ErrInput.basicEdges; rw [hst, hign]
  have hf : ∀ e ∈ a.basicEdges, a.fi.f e = b.fi.f e := by
    intro e he
    apply h.f
    have h1 := (List.mem_filter.1 he).2
    have h2 : a.ignored e = false := by simpa using h1
    unfold ErrInput.ignored at h2
    exact (Bool.or_eq_false_iff.1 h2).1
  refine ⟨hst, hk, hign, hbasic, hf, ?_, ?_⟩
  · unfold ErrInput.wmax ErrInput.cast
    rw [hk, h.wInt, ← hbasic, List.map_congr_left hf]
  · funext e; unfold ErrInput.scale; rw [hs]

theorem nxm_klaeLP_congr (a b : ErrInput) (h : FlowAgree a.fi b.fi) (hs : a.scaling = b.scaling) :
    klaeLP a = klaeLP b := by
  obtain ⟨hst, hk, _, hbasic, hf, hwm, hscale⟩ := nxm_err_facts a b h hs
  have hrows : (a.basicEdges.flatMap fun e =>
        [ rowLe (negTerms (ones (List.range a.k) (piVar e)) ++ [(-1, eeVar e)]) (-(a.fi.f e)),
          rowLe (ones (List.range a.k) (piVar e) ++ [(-1, eeVar e)]) (a.fi.f e) ])
      = (b.basicEdges.flatMap fun e =>
        [ rowLe (negTerms (ones (List.range b.k) (piVar e)) ++ [(-1, eeVar e)]) (-(b.fi.f e)),
          rowLe (ones (List.range b.k) (piVar e) ++ [(-1, eeVar e)]) (b.fi.f e) ]) := by
    rw [← hbasic, ← hk]
    exact nxm_flatMap_congr _ _ _ (fun e he => by rw [hf e he])
  unfold klaeLP klaeObj eeCols
  simp only [hrows]
  rw [hst, h.cfg, hk, hwm, h.wInt, hbasic, hscale]

theorem nxm_kmpeLP_congr (a b : MpeInput) (h : FlowAgree a.ei.fi b.ei.fi) (hs : a.ei.scaling = b.ei.scaling)
    (hr : a.ranges = b.ranges) (hfac : a.factors = b.factors) : kmpeLP a = kmpeLP b := by
  obtain ⟨hst, hk, _, hbasic, hf, hwm, hscale⟩ := nxm_err_facts a.ei b.ei h hs
  have hrows : (a.ei.basicEdges.flatMap fun ed =>
        errRows (a.ei.fi.f ed) (a.ei.scale ed) (ones (List.range a.ei.k) (piVar ed))
          (ones (List.range a.ei.k) (gammaVar ed)))
      = (b.ei.basicEdges.flatMap fun ed =>
        errRows (b.ei.fi.f ed) (b.ei.scale ed) (ones (List.range b.ei.k) (piVar ed))
          (ones (List.range b.ei.k) (gammaVar ed))) := by
    rw [← hbasic, ← hk, ← hscale]
    exact nxm_flatMap_congr _ _ _ (fun e he => by rw [hf e he])
  have hfb : ∀ k wm, factorBlock a k wm = factorBlock b k wm := by
    intro k wm
    unfold factorBlock
    rw [hr, hfac]
  have hsl : a.slackFor = b.slackFor := by
    funext i; unfold MpeInput.slackFor; rw [hfac]
  unfold kmpeLP
  simp only [hrows, hfb, hsl]
  rw [hst, h.cfg, hk, hwm, h.wInt, hbasic]

/-! ## where `_encode_paths` reads the length attribute -/

/-- `G[u][v].get(length_attr, 1)` -/
def lenAt (l : Option (List (Edge × Rat))) (e : Edge) : Rat :=
  match l with
  | none => 1
  | some l => lookupD l e 1

theorem nxm_len_eq (c : PathCfg) (e : Edge) : c.len e = lenAt c.lengths e := rfl

/-- without `encode_edge_position`, `_encode_paths` reads the length attribute only when
`subpath_constraints_coverage_length` is set, and then only on the edges of the constraints -/
theorem nxm_encodePaths_len_congr (s : STGraph) (c : PathCfg) (l' : Option (List (Edge × Rat)))
    (hpos : c.encodePosition = false)
    (hlen : c.coverageLength = none ∨
      ∀ con ∈ c.constraints, ∀ e ∈ con, lenAt c.lengths e = lenAt l' e) :
    encodePaths s c = encodePaths s { c with lengths := l' } := by
  have hsub : subpathBlock c = subpathBlock { c with lengths := l' } := by
    unfold subpathBlock
    simp only
    split
    · rfl
    · congr 1
      congr 1
      apply nxm_flatMap_congr
      intro i _
      apply List.map_congr_left
      intro jc hjc
      obtain ⟨j, con⟩ := jc
      have hcon : con ∈ c.constraints := (List.of_mem_zip hjc).2
      have hfun1 : c.len = lenAt c.lengths := rfl
      have hfun2 : PathCfg.len { c with lengths := l' } = lenAt l' := rfl
      simp only [hfun1, hfun2]
      cases hcl : c.coverageLength with
      | none => rfl
      | some cl =>
        have hl : ∀ e ∈ con, lenAt c.lengths e = lenAt l' e := by
          intro e he
          rcases hlen with h0 | h1
          · rw [hcl] at h0; cases h0
          · exact h1 con hcon e he
        simp only
        rw [List.map_congr_left (f := lenAt c.lengths) (g := lenAt l') hl,
          List.map_congr_left (f := fun e => (lenAt c.lengths e, edgeVar e i))
            (g := fun e => (lenAt l' e, edgeVar e i))
            (fun e he => by rw [hl e he])]
  have hposb : positionBlock s c = positionBlock s { c with lengths := l' } := by
    unfold positionBlock
    simp [hpos]
  unfold encodePaths
  rw [hsub, hposb]
  rfl

/-! ## the three equalities -/

/-- the translated record and the explicit expansion cannot be told apart -/
theorem nxm_agree (inp : NodeModeInput) (hc : Closed inp.nf.ng.g)
    (hef : ∀ p ∈ inp.nf.ng.edgeFlow, p.1 ∈ inp.nf.ng.g.edges) (pos : Bool) :
    FlowAgree (nxmTranslated inp inp.nf.ng (expandLengths inp.nf.ng) pos).fi (expandModeInput inp pos).fi where
  base := rfl
  starts := rfl
  ends := rfl
  wInt := rfl
  cfg := rfl
  ign := fun e => nxm_ignore_contains inp.nf.ng hc inp.nf.ignoreNodes e
  f := by
    intro e hne
    unfold FlowInput.ignored at hne
    have h2 := (Bool.or_eq_false_iff.1 hne).2
    exact nxm_flow_agree inp.nf.ng hc hef inp.nf.ignoreNodes e h2

theorem nxm_errEdgeChecks_ok {sc : List (Node × Rat)} {ei ei' : ErrInput}
    (h : errEdgeChecks sc ei = .ok ei') : ei' = ei := by
  unfold errEdgeChecks at h
  split at h
  · exact nomatch h
  · split at h
    · exact nomatch h
    · split at h
      · exact nomatch h
      · exact (Except.ok.inj h).symm

/-- **kLeastAbsErrors** -/
theorem nxm_klae_node_eq (inp : NodeModeInput) (lp : LP) (hc : Closed inp.nf.ng.g)
    (hef : ∀ p ∈ inp.nf.ng.edgeFlow, p.1 ∈ inp.nf.ng.g.edges) (h : klaeNodeLP inp = .ok lp) :
    lp = klaeLP (expandModeInput inp false) := by
  unfold klaeNodeLP at h
  cases hi : klaeNodeInternal inp with
  | error e => rw [hi] at h; exact nomatch h
  | ok ei =>
    rw [hi] at h
    have hlp : klaeLP ei = lp := Except.ok.inj h
    rw [← hlp]
    unfold klaeNodeInternal at hi
    cases ht : nodeTranslateGen inp inp.nf.ng (expandLengths inp.nf.ng) false with
    | error e => rw [ht] at hi; exact nomatch hi
    | ok ei0 =>
      rw [ht] at hi
      have h1 := nxm_errEdgeChecks_ok hi
      have h2 := nxm_translate_ok ht
      subst h1 h2
      exact nxm_klaeLP_congr _ _ (nxm_agree inp hc hef false) rfl

/-- **kMinPathError** -/
theorem nxm_kmpe_node_eq (inp : NodeMpeInput) (lp : LP) (hc : Closed inp.nm.nf.ng.g)
    (hef : ∀ p ∈ inp.nm.nf.ng.edgeFlow, p.1 ∈ inp.nm.nf.ng.g.edges) (h : kmpeNodeLP inp = .ok lp) :
    lp = kmpeLP (expandMpeInput inp) := by
  unfold kmpeNodeLP at h
  cases hi : kmpeNodeInternal inp with
  | error e => rw [hi] at h; exact nomatch h
  | ok mi =>
    rw [hi] at h
    have hlp : kmpeLP mi = lp := Except.ok.inj h
    rw [← hlp]
    unfold kmpeNodeInternal at hi
    cases ht : nodeTranslateGen inp.nm inp.nm.nf.ng (expandLengths inp.nm.nf.ng) true with
    | error e => rw [ht] at hi; exact nomatch hi
    | ok ei0 =>
      rw [ht] at hi
      dsimp only at hi
      cases hck : errEdgeChecks inp.nm.scaling ei0 with
      | error e => rw [hck] at hi; exact nomatch hi
      | ok ei1 =>
        rw [hck] at hi
        dsimp only at hi
        split at hi
        · exact nomatch hi
        · split at hi
          · exact nomatch hi
          · have h0 := (Except.ok.inj hi).symm
            have h1 := nxm_errEdgeChecks_ok hck
            have h2 := nxm_translate_ok ht
            subst h0 h1 h2
            exact nxm_kmpeLP_congr _ (expandMpeInput inp) (nxm_agree inp.nm hc hef true) rfl rfl rfl

/-- the cover input built from `G_with_flow_attr` has no attribute-carrying original edge -/
theorem nxm_cover_agree (inp : NodeModeInput) (hc : Closed inp.nf.ng.g) :
    FlowAgree (nxmTranslated inp (coverNG inp.nf.ng) (expandLengths inp.nf.ng) false).fi
      (expandCoverInput inp) :=
  nxm_agree { inp with nf := { inp.nf with ng := coverNG inp.nf.ng } } hc
    (fun p hp => by simp [coverNG] at hp) false

/-- **kPathCover(cover_type="node")**: equality with the explicit expansion (since fix 65014a7 the class hands
`length_attr` to the node expansion, so the length attribute is read as on the expansion of the property text) -/
theorem nxm_kcover_node_eq (inp : NodeModeInput) (lp : LP) (hc : Closed inp.nf.ng.g)
    (h : kcoverNodeLP inp = .ok lp) : lp = kcoverLP (expandCoverInput inp) := by
  unfold kcoverNodeLP at h
  cases hi : kcoverNodeInternal inp with
  | error e => rw [hi] at h; exact nomatch h
  | ok fi =>
    rw [hi] at h
    have hlp : kcoverLP fi = lp := Except.ok.inj h
    rw [← hlp]
    unfold kcoverNodeInternal at hi
    cases ht : nodeTranslateGen inp (coverNG inp.nf.ng) (expandLengths inp.nf.ng) false with
    | error e => rw [ht] at hi; exact nomatch hi
    | ok ei0 =>
      rw [ht] at hi
      simp only at hi
      split at hi
      · exact nomatch hi
      · have h0 := (Except.ok.inj hi).symm
        have h2 := nxm_translate_ok ht
        subst h0 h2
        exact nxm_kcoverLP_congr _ _ (nxm_cover_agree inp hc)

/-- the LP the class built before fix 65014a7 (length attribute read as `coverLengths`) equals the present one
exactly under the former hypothesis: the two readings agree on the edges of the expanded constraints, or
`subpath_constraints_coverage_length` is not set -/
theorem nxm_kcover_former_eq (inp : NodeModeInput)
    (hlen : inp.nf.coverageLength = none ∨
      ∀ con ∈ specConstraints inp.nf.constraints, ∀ e ∈ con,
        lenAt (coverLengths inp.nf.ng) e = lenAt (expandLengths inp.nf.ng) e) :
    kcoverLP (nxmTranslated inp (coverNG inp.nf.ng) (coverLengths inp.nf.ng) false).fi
      = kcoverLP (nxmTranslated inp (coverNG inp.nf.ng) (expandLengths inp.nf.ng) false).fi := by
  rw [nxm_kcoverLP_eq, nxm_kcoverLP_eq]
  have henc := nxm_encodePaths_len_congr
    (nxmTranslated inp (coverNG inp.nf.ng) (coverLengths inp.nf.ng) false).fi.st
    (nxmTranslated inp (coverNG inp.nf.ng) (coverLengths inp.nf.ng) false).fi.cfg
    (expandLengths inp.nf.ng) rfl hlen
  rw [henc]
  rfl

/-! ### when the present and the former reading of the length attribute agree -/

theorem nxm_lookup_nodeEdge_edgepart (l : List Edge) (f : Edge → Rat) (v : Node) :
    (l.map fun e => (edgeEdge e, f e)).lookup (nodeEdge v) = none := by
  induction l with
  | nil => rfl
  | cons e l ih =>
    simp only [List.map_cons, List.lookup_cons]
    have h2 : (nodeEdge v == edgeEdge e) = false := by
      simp only [beq_eq_false_iff_ne, ne_eq]
      exact nodeEdge_ne_edgeEdge v e
    rw [h2]; exact ih

/-- on the copy of a node the two readings agree -/
theorem nxm_len_nodeEdge (ng : NodeGraph) (v : Node) :
    lenAt (coverLengths ng) (nodeEdge v) = lenAt (expandLengths ng) (nodeEdge v) := by
  unfold coverLengths expandLengths lenAt
  cases ng.nodeLen with
  | none => rfl
  | some nl =>
    simp only [Option.map_some, lookupD, List.lookup_append, nxm_lookup_nodeEdge_edgepart]

/-- constraints given as lists of nodes expand to node copies only -/
theorem nxm_len_agree_nodes (ng : NodeGraph) (l : List (List Node)) :
    ∀ con ∈ specConstraints (.nodes l), ∀ e ∈ con,
      lenAt (coverLengths ng) e = lenAt (expandLengths ng) e := by
  intro con hcon e he
  simp only [specConstraints, List.mem_map] at hcon
  obtain ⟨c, _, rfl⟩ := hcon
  obtain ⟨v, _, rfl⟩ := List.mem_map.1 he
  exact nxm_len_nodeEdge ng v

/-- if every original edge carries the length attribute the two readings are the same list -/
theorem nxm_lengths_eq_of_all (ng : NodeGraph)
    (hall : ∀ e ∈ ng.g.edges, (ng.edgeLen.lookup e).isSome = true) :
    coverLengths ng = expandLengths ng := by
  unfold coverLengths expandLengths
  congr 1
  funext nl
  congr 1
  apply List.map_congr_left
  intro e he
  have := hall e he
  unfold lookupD
  cases hl : ng.edgeLen.lookup e with
  | none => rw [hl] at this; cases this
  | some q => rfl

/-- a satisfying assignment passes the boolean row check (used to show on a concrete LP that an assignment does
*not* satisfy it) -/
theorem nxm_rowOk_of_sat (a : Asg) (lp : LP) (h : Sat a lp) : lp.rows.all (rowOk a) = true := by
  apply List.all_eq_true.2
  intro r hr
  obtain ⟨h1, h2⟩ := h.2 r hr
  unfold rowOk
  rw [Bool.and_eq_true]
  constructor
  · cases hl : r.lo with
    | none => rfl
    | some l => simpa using h1 l hl
  · cases hh : r.hi with
    | none => rfl
    | some u => simpa using h2 u hh

end NX
end FP
