import FP.Proofs.SafetyIdom
/-!
# FP.Proofs.SafetyThread — `find_idom` leaves every neighbour list with the same members

`reversePath` turns the list of `u` into `erase (next u) ++ [prev u]`, `restore` pops the reversed edge and
appends the removed one: the list of `u` ends as `erase (next u) ++ [next u]`.
-/
namespace FP.Safety
open FP.Spec
variable {V : Type} [DecidableEq V]

/-- successor of `u` on the path -/
def nxt : List V → V → Option V
  | x :: y :: r, u => if u = x then some y else nxt (y :: r) u
  | _, _ => none

/-- predecessor of `u` on the path -/
def prv : List V → V → Option V
  | x :: y :: r, u => if u = y then some x else prv (y :: r) u
  | _, _ => none

theorem nxt_not_mem : ∀ (p : List V) (u : V), u ∉ p → nxt p u = none := by
  intro p
  induction p with
  | nil => intro u _; rfl
  | cons x p ih =>
    cases p with
    | nil => intro u _; rfl
    | cons y r =>
      intro u hu
      have h1 : u ≠ x := by intro h; apply hu; simp [h]
      have h2 : u ∉ y :: r := by intro h; apply hu; exact List.mem_cons_of_mem _ h
      simp only [nxt, if_neg h1]; exact ih u h2

theorem prv_not_mem_tail : ∀ (p : List V) (u : V), u ∉ p.tail → prv p u = none := by
  intro p
  induction p with
  | nil => intro u _; rfl
  | cons x p ih =>
    cases p with
    | nil => intro u _; rfl
    | cons y r =>
      intro u hu
      simp only [List.tail_cons] at hu
      have h1 : u ≠ y := by intro h; apply hu; simp [h]
      have h2 : u ∉ (y :: r).tail := by intro h; apply hu; simp only [List.tail_cons] at h; exact List.mem_cons_of_mem _ h
      simp only [prv, if_neg h1]; exact ih u h2

theorem nxt_edge : ∀ (p : List V) (u n : V), nxt p u = some n → (u, n) ∈ walkEdges p := by
  intro p
  induction p with
  | nil => intro u n h; simp [nxt] at h
  | cons x p ih =>
    cases p with
    | nil => intro u n h; simp [nxt] at h
    | cons y r =>
      intro u n h
      simp only [nxt] at h
      rw [we_cons_cons]
      by_cases hx : u = x
      · rw [if_pos hx] at h; injection h with h; subst h; subst hx; simp
      · rw [if_neg hx] at h; exact List.mem_cons_of_mem _ (ih u n h)

theorem prv_of_edge : ∀ (p : List V), p.Nodup → ∀ e ∈ walkEdges p, prv p e.2 = some e.1 := by
  intro p
  induction p with
  | nil => intro _ e he; simp [we_nil] at he
  | cons x p ih =>
    cases p with
    | nil => intro _ e he; simp [we_single] at he
    | cons y r =>
      intro hnd e he
      rw [we_cons_cons] at he
      rw [List.nodup_cons] at hnd
      rcases List.mem_cons.1 he with rfl | he
      · simp [prv]
      · have hne : e.2 ≠ y := by
          intro h
          have h2 := we_snd_mem_tail he
          simp only [List.tail_cons] at h2
          rw [h] at h2
          exact (List.nodup_cons.1 hnd.2).1 h2
        simp only [prv, if_neg hne]
        exact ih hnd.2 e he

theorem out_removeOut_self (g : Adj V) (v x : V) : out (removeOut g v x) v = (out g v).erase x := by
  unfold removeOut; exact out_updOut_self' _ _ _ (by simp)
theorem out_removeOut_ne (g : Adj V) (v x a : V) (h : a ≠ v) : out (removeOut g v x) a = out g a := by
  unfold removeOut; exact out_updOut_ne _ _ _ _ h
theorem out_popOut_self (g : Adj V) (v : V) : out (popOut g v) v = (out g v).dropLast := by
  unfold popOut; exact out_updOut_self' _ _ _ (by simp)
theorem out_popOut_ne (g : Adj V) (v a : V) (h : a ≠ v) : out (popOut g v) a = out g a := by
  unfold popOut; exact out_updOut_ne _ _ _ _ h
theorem out_appendOut_self (g : Adj V) (v x : V) (hk : v ∈ keys g) : out (appendOut g v x) v = out g v ++ [x] := by
  unfold appendOut; exact out_updOut_self _ _ _ hk
theorem out_appendOut_ne (g : Adj V) (v x a : V) (h : a ≠ v) : out (appendOut g v x) a = out g a := by
  unfold appendOut; exact out_updOut_ne _ _ _ _ h

theorem reversePath_cons (g : Adj V) (x y : V) (r : List V) :
    reversePath g (x :: y :: r) = reversePath (appendOut (removeOut g x y) y x) (y :: r) := by
  unfold reversePath; rw [we_cons_cons, List.foldl_cons]

theorem restore_cons (g : Adj V) (x y : V) (r : List V) :
    restore g (x :: y :: r) = restore (appendOut (popOut g y) x y) (y :: r) := by
  unfold restore; rw [we_cons_cons, List.foldl_cons]

/-- the residual lists after `reversePath`, exactly -/
theorem reversePath_out : ∀ (p : List V) (g : Adj V), p.Nodup → (∀ b ∈ p, b ∈ keys g) →
    (∀ e ∈ walkEdges p, e.2 ∈ out g e.1) →
    ∀ u, out (reversePath g p) u =
      (match nxt p u with | some n => (out g u).erase n | none => out g u) ++ (prv p u).toList := by
  intro p
  induction p with
  | nil => intro g _ _ _ u; simp [reversePath, we_nil, nxt, prv]
  | cons x p ih =>
    cases p with
    | nil => intro g _ _ _ u; simp [reversePath, we_single, nxt, prv]
    | cons y r =>
      intro g hnd hk he u
      rw [reversePath_cons]
      have hnd' := (List.nodup_cons.1 hnd).2
      have hxn : x ∉ y :: r := (List.nodup_cons.1 hnd).1
      have hxy : x ≠ y := by intro h; apply hxn; simp [h]
      have hyk : y ∈ keys g := hk y (by simp)
      let g1 := appendOut (removeOut g x y) y x
      have hk1 : ∀ b ∈ y :: r, b ∈ keys g1 := by
        intro b hb; show b ∈ keys (appendOut (removeOut g x y) y x)
        rw [keys_appendOut, keys_removeOut]; exact hk b (List.mem_cons_of_mem _ hb)
      have he1 : ∀ e ∈ walkEdges (y :: r), e.2 ∈ out g1 e.1 := by
        intro e hee
        have h0 : e.2 ∈ out g e.1 := he e (by rw [we_cons_cons]; exact List.mem_cons_of_mem _ hee)
        have hne : e.1 ≠ x := by intro h; apply hxn; rw [← h]; exact we_fst_mem hee
        apply out_appendOut_sub
        rw [out_removeOut_ne _ _ _ _ hne]; exact h0
      have hih := ih g1 hnd' hk1 he1 u
      rw [hih]
      by_cases hux : u = x
      · subst hux
        have h1 : nxt (y :: r) u = none := nxt_not_mem _ _ hxn
        have h2 : prv (y :: r) u = none := prv_not_mem_tail _ _ (fun h => hxn (List.mem_of_mem_tail h))
        have h3 : prv (u :: y :: r) u = none := by simp only [prv, if_neg hxy]; exact h2
        have h4 : nxt (u :: y :: r) u = some y := by simp [nxt]
        rw [h1, h2, h3, h4]
        show out (appendOut (removeOut g u y) y u) u ++ _ = _
        rw [out_appendOut_ne _ _ _ _ hxy, out_removeOut_self]
      · by_cases huy : u = y
        · subst huy
          have h2 : prv (u :: r) u = none :=
            prv_not_mem_tail _ _ (by simp only [List.tail_cons]; exact (List.nodup_cons.1 hnd').1)
          have h3 : prv (x :: u :: r) u = some x := by simp [prv]
          have h4 : nxt (x :: u :: r) u = nxt (u :: r) u := by simp only [nxt, if_neg hux]
          have hg1 : out g1 u = out g u ++ [x] := by
            show out (appendOut (removeOut g x u) u x) u = _
            rw [out_appendOut_self _ _ _ (by rw [keys_removeOut]; exact hyk), out_removeOut_ne _ _ _ _ hux]
          rw [h2, h3, h4, hg1]
          cases hn : nxt (u :: r) u with
          | none => simp
          | some n =>
            have hmem : n ∈ out g u := he (u, n) (by rw [we_cons_cons]; exact List.mem_cons_of_mem _ (nxt_edge _ _ _ hn))
            simp only [Option.toList, List.append_nil]
            exact List.erase_append_left _ hmem
        · have h3 : prv (x :: y :: r) u = prv (y :: r) u := by simp only [prv, if_neg huy]
          have h4 : nxt (x :: y :: r) u = nxt (y :: r) u := by simp only [nxt, if_neg hux]
          have hg1 : out g1 u = out g u := by
            show out (appendOut (removeOut g x y) y x) u = _
            rw [out_appendOut_ne _ _ _ _ huy, out_removeOut_ne _ _ _ _ hux]
          rw [h3, h4, hg1]

/-- the lists after `restore`, exactly -/
theorem restore_out : ∀ (p : List V) (R : Adj V), p.Nodup → (∀ b ∈ p, b ∈ keys R) →
    (∀ e ∈ walkEdges p, (out R e.2).getLast? = some e.1) →
    ∀ u, out (restore R p) u =
      (if (prv p u).isSome then (out R u).dropLast else out R u) ++ (nxt p u).toList := by
  intro p
  induction p with
  | nil => intro R _ _ _ u; simp [restore, we_nil, nxt, prv]
  | cons x p ih =>
    cases p with
    | nil => intro R _ _ _ u; simp [restore, we_single, nxt, prv]
    | cons y r =>
      intro R hnd hk he u
      rw [restore_cons]
      have hnd' := (List.nodup_cons.1 hnd).2
      have hxn : x ∉ y :: r := (List.nodup_cons.1 hnd).1
      have hxy : x ≠ y := by intro h; apply hxn; simp [h]
      have hyx : y ≠ x := fun h => hxy h.symm
      have hyr : y ∉ r := (List.nodup_cons.1 hnd').1
      let R1 := appendOut (popOut R y) x y
      have hk1 : ∀ b ∈ y :: r, b ∈ keys R1 := by
        intro b hb; show b ∈ keys (appendOut (popOut R y) x y)
        rw [keys_appendOut, keys_popOut]; exact hk b (List.mem_cons_of_mem _ hb)
      have he1 : ∀ e ∈ walkEdges (y :: r), (out R1 e.2).getLast? = some e.1 := by
        intro e hee
        have h0 := he e (by rw [we_cons_cons]; exact List.mem_cons_of_mem _ hee)
        have ht : e.2 ∈ r := by have := we_snd_mem_tail hee; simpa using this
        have hne1 : e.2 ≠ x := by intro h; apply hxn; rw [← h]; exact List.mem_cons_of_mem _ ht
        have hne2 : e.2 ≠ y := by intro h; apply hyr; rw [← h]; exact ht
        show (out (appendOut (popOut R y) x y) e.2).getLast? = _
        rw [out_appendOut_ne _ _ _ _ hne1, out_popOut_ne _ _ _ hne2]; exact h0
      rw [ih R1 hnd' hk1 he1 u]
      by_cases hux : u = x
      · subst hux
        have h1 : nxt (y :: r) u = none := nxt_not_mem _ _ hxn
        have h2 : prv (y :: r) u = none := prv_not_mem_tail _ _ (fun h => hxn (List.mem_of_mem_tail h))
        have h3 : prv (u :: y :: r) u = none := by simp only [prv, if_neg hxy]; exact h2
        have h4 : nxt (u :: y :: r) u = some y := by simp [nxt]
        rw [h1, h2, h3, h4]
        show (if (none : Option V).isSome then _ else out (appendOut (popOut R y) u y) u) ++ _ = _
        simp only [Option.isSome_none, Bool.false_eq_true, if_false, Option.toList, List.append_nil]
        rw [out_appendOut_self _ _ _ (by rw [keys_popOut]; exact hk u (by simp)), out_popOut_ne _ _ _ hxy]
      · by_cases huy : u = y
        · subst huy
          have h2 : prv (u :: r) u = none := prv_not_mem_tail _ _ (by simp only [List.tail_cons]; exact hyr)
          have h3 : prv (x :: u :: r) u = some x := by simp [prv]
          have h4 : nxt (x :: u :: r) u = nxt (u :: r) u := by simp only [nxt, if_neg hux]
          rw [h2, h3, h4]
          show (if (none : Option V).isSome then _ else out (appendOut (popOut R u) x u) u) ++ _ = _
          simp only [Option.isSome_none, Bool.false_eq_true, if_false, Option.isSome_some, if_true]
          rw [out_appendOut_ne _ _ _ _ hyx, out_popOut_self]
        · have h3 : prv (x :: y :: r) u = prv (y :: r) u := by simp only [prv, if_neg huy]
          have h4 : nxt (x :: y :: r) u = nxt (y :: r) u := by simp only [nxt, if_neg hux]
          have hR1 : out R1 u = out R u := by
            show out (appendOut (popOut R y) x y) u = _
            rw [out_appendOut_ne _ _ _ _ hux, out_popOut_ne _ _ _ huy]
          rw [h3, h4, hR1]

theorem keys_reversePath (g : Adj V) (p : List V) : keys (reversePath g p) = keys g := by
  unfold reversePath
  generalize walkEdges p = es
  induction es generalizing g with
  | nil => rfl
  | cons e es ih => rw [List.foldl_cons, ih, keys_appendOut, keys_removeOut]

/-- after `find_idom` every neighbour list has the same members as before -/
theorem findIdom_sameOut (g : Adj V) (s t : V) (b : Option (V × V)) (g' : Adj V)
    (h : findIdom g s t = .ok (b, g')) : ∀ u v, v ∈ out g' u ↔ v ∈ out g u := by
  unfold findIdom at h
  by_cases hwf : wfAdj g s t = true
  · rw [hwf] at h
    simp only [Bool.not_true, Bool.false_eq_true, if_false] at h
    obtain ⟨hsk, _, hkeys⟩ := wfAdj_out g s t hwf
    cases hc : idomCore g s t with
    | ok r =>
      obtain ⟨b', R, p⟩ := r
      rw [hc] at h
      injection h with h; injection h with h1 h2; subst h1; subst h2
      -- R and p come from `findPath`
      have hRp : ∃ p', findPath g s t = some p' ∧ R = reversePath g p' ∧ p = p' := by
        unfold idomCore at hc
        split at hc
        · cases hc
        · rename_i p' hfp
          simp only at hc
          split at hc
          · cases hc
          · split at hc
            · injection hc with hc; injection hc with _ hc; injection hc with h1 h2
              exact ⟨p', hfp, h1.symm, h2.symm⟩
            · split at hc
              · cases hc
              · injection hc with hc; injection hc with _ hc; injection hc with h1 h2
                exact ⟨p', hfp, h1.symm, h2.symm⟩
      obtain ⟨p', hfp, rfl, rfl⟩ := hRp
      obtain ⟨hnd, hhd, hedges⟩ := findPath_spec g s t p hfp
      have hpk : ∀ x ∈ p, x ∈ keys g := by
        intro x hx
        cases p with
        | nil => simp at hx
        | cons a l =>
          simp at hhd; subst hhd
          rcases List.mem_cons.1 hx with rfl | hx
          · exact hsk
          · -- x is the head of a path edge
            obtain ⟨l1, l2, hl⟩ := List.append_of_mem hx
            obtain ⟨z, l0, hz⟩ : ∃ z l0, a :: l1 = l0 ++ [z] :=
              ⟨(a :: l1).getLast (by simp), _, (List.dropLast_concat_getLast (by simp)).symm⟩
            have hm : (z, x) ∈ walkEdges (a :: l) := by
              have : a :: l = l0 ++ z :: x :: l2 := by rw [hl, ← List.cons_append, hz]; simp
              rw [this]; exact mem_we_mid _ _ _ _
            exact hkeys _ _ (hedges (z, x) hm)
      have hA := reversePath_out p g hnd hpk hedges
      have hlast : ∀ e ∈ walkEdges p, (out (reversePath g p) e.2).getLast? = some e.1 := by
        intro e he
        rw [hA, prv_of_edge p hnd e he]; simp
      have hkR : ∀ b ∈ p, b ∈ keys (reversePath g p) := by
        intro x hx
        have : keys (reversePath g p) = keys g := keys_reversePath g p
        rw [this]; exact hpk x hx
      have hB := restore_out p (reversePath g p) hnd hkR hlast
      intro u v
      rw [hB u, hA u]
      cases hn : nxt p u with
      | none =>
        cases hp : prv p u with
        | none => simp
        | some q => simp
      | some n =>
        have hmem : n ∈ out g u := hedges (u, n) (nxt_edge _ _ _ hn)
        cases hp : prv p u with
        | none =>
          simp only [Option.toList, List.append_nil, Option.isSome_none, Bool.false_eq_true, if_false,
            List.mem_append, List.mem_singleton]
          constructor
          · rintro (h | h)
            · exact List.mem_of_mem_erase h
            · rw [h]; exact hmem
          · intro h
            by_cases hvn : v = n
            · right; exact hvn
            · left; exact (List.mem_erase_of_ne hvn).2 h
        | some q =>
          simp only [Option.toList, Option.isSome_some, if_true, List.dropLast_concat, List.mem_append,
            List.mem_singleton]
          constructor
          · rintro (h | h)
            · exact List.mem_of_mem_erase h
            · rw [h]; exact hmem
          · intro h
            by_cases hvn : v = n
            · right; exact hvn
            · left; exact (List.mem_erase_of_ne hvn).2 h
    | raises w => rw [hc] at h; cases h
    | fuel => rw [hc] at h; cases h
  · have : wfAdj g s t = false := by simpa using hwf
    rw [this] at h; simp at h

end FP.Safety
