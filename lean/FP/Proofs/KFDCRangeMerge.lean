import FP.Proofs.KFDCRangePeel
/-!
# FP.Proofs.KFDCRangeMerge — closed walks are absorbed by source-to-sink walks

State: source-to-sink walks `A` and closed walks `B` of the augmented graph, with positive integer
weights, adding up to `g` on the edges of the augmented graph. If every positive edge lies on a positive
walk that starts at the source (`hconn`), some closed walk of `B` meets some walk of `A`
(`kfdcr_touch`). That walk (weight `μ`) is split into weight `1` and weight `μ - 1`; the part of weight
`1` runs `ν` times round the closed walk (weight `ν`): one closed walk less, at most one walk more
(`kfdcr_merge`). Starting from the pieces of `kfdcr_peel` (`kfdcr_classify`), the result is a family of at
most `#base edges` walks (`kfdcr_few_walks`).
-/
namespace FP
open FP.Spec FP.Euler

/-! ## running several times round a closed walk -/

def kfdcr_rep (ext b : List Node) : Nat → List Node
  | 0 => b
  | n+1 => ext ++ kfdcr_rep ext b n

theorem kfdcr_rep_append (ext b c : List Node) (n : Nat) :
    kfdcr_rep ext (b ++ c) n = kfdcr_rep ext b n ++ c := by
  induction n with
  | zero => rfl
  | succ n ih => simp [kfdcr_rep, ih]

theorem kfdcr_splice_count (a b ext : List Node) (v : Node) (hne : ext ≠ [])
    (hlast : (v :: ext).getLast? = some v) (n : Nat) (e : Edge) :
    traversals (a ++ v :: kfdcr_rep ext b n) e
      = traversals (a ++ v :: b) e + n * traversals (v :: ext) e := by
  induction n with
  | zero => simp [kfdcr_rep]
  | succ n ih =>
    unfold traversals at ih ⊢
    show List.count e (walkEdges (a ++ v :: (ext ++ kfdcr_rep ext b n))) = _
    rw [(walkEdges_splice_perm a (kfdcr_rep ext b n) ext v hne hlast).count_eq, List.count_append, ih,
      Nat.succ_mul]
    omega

/-! ## walking along a vertex sequence -/

theorem kfdcr_walk_induct (P : Node → Prop) : ∀ (L : List Node) (x0 : Node), L.head? = some x0 → P x0 →
    (∀ u v, (u, v) ∈ walkEdges L → P u → P v) → ∀ v ∈ L, P v := by
  intro L
  induction L with
  | nil => intro x0 h; simp at h
  | cons x rest ih =>
    intro x0 h0 hx0 hstep v hv
    have hx : x = x0 := by simpa using h0
    subst hx
    cases rest with
    | nil =>
      have : v = x := by simpa using hv
      rw [this]; exact hx0
    | cons y ys =>
      rcases List.mem_cons.1 hv with rfl | hv'
      · exact hx0
      · have hy : P y := hstep x y (by rw [walkEdges_cons_cons]; simp) hx0
        exact ih y rfl hy (fun u w huw hu => hstep u w (walkEdges_sub_cons x _ _ huw) hu) v hv'

/-! ## the state of the merging -/

/-- a source-to-sink walk of the augmented graph through a base edge, with a positive weight -/
def kfdcr_AWalk (s : STGraph) (d : List Node × Nat) : Prop :=
  1 ≤ d.2 ∧ (∃ p, d.1 = s.source :: p ++ [s.sink]) ∧ IsWalkIn s.g d.1 ∧
    ∃ e ∈ walkEdges d.1, kfdcr_isBase s e = true

/-- a closed walk of the augmented graph with a positive weight -/
def kfdcr_BCyc (s : STGraph) (d : List Node × Nat) : Prop :=
  1 ≤ d.2 ∧ ∃ x b, d.1 = x :: b ++ [x] ∧ IsWalkIn s.g d.1

structure kfdcr_MInv (s : STGraph) (g : Edge → Nat) (n : Nat) (A B : List (List Node × Nat)) : Prop where
  aWalk : ∀ d ∈ A, kfdcr_AWalk s d
  bCyc : ∀ d ∈ B, kfdcr_BCyc s d
  total : ∀ e ∈ s.g.edges, kfdcr_tot A e + kfdcr_tot B e = g e
  count : A.length + B.length ≤ n

theorem kfdcr_MInv_perm {s : STGraph} {g : Edge → Nat} {n : Nat} {A A' B B' : List (List Node × Nat)}
    (hA : A.Perm A') (hB : B.Perm B') (h : kfdcr_MInv s g n A B) : kfdcr_MInv s g n A' B' where
  aWalk := fun d hd => h.aWalk d (hA.mem_iff.2 hd)
  bCyc := fun d hd => h.bCyc d (hB.mem_iff.2 hd)
  total := fun e he => by rw [← kfdcr_tot_perm hA e, ← kfdcr_tot_perm hB e]; exact h.total e he
  count := by rw [← hA.length_eq, ← hB.length_eq]; exact h.count

section Merge
variable {s : STGraph} (hwf : STWFc s)
include hwf

/-- a closed walk of the augmented graph avoids the synthetic source and sink -/
theorem kfdcr_cyc_avoids (x : Node) (b : List Node) (hW : IsWalkIn s.g (x :: b ++ [x])) (y : Node)
    (hy : y ∈ x :: b ++ [x]) : y ≠ s.source ∧ y ≠ s.sink := by
  obtain ⟨u, hu⟩ := kfdcr_closed_in x b y hy
  obtain ⟨w, hw⟩ := kfdcr_closed_out x b y hy
  exact ⟨hwf.srcNoIn _ (hW _ hu), hwf.snkNoOut _ (hW _ hw)⟩

/-- **some closed walk meets some walk** -/
theorem kfdcr_touch (g : Edge → Nat) (n : Nat) (A B : List (List Node × Nat))
    (hconn : ∀ e ∈ s.g.edges, 0 < g e → ∃ L : List Node, L.head? = some s.source ∧ e ∈ walkEdges L ∧
      ∀ e' ∈ walkEdges L, e' ∈ s.g.edges ∧ 0 < g e')
    (hinv : kfdcr_MInv s g n A B) (dB : List Node × Nat) (hdB : dB ∈ B) :
    ∃ dA ∈ A, ∃ dB' ∈ B, ∃ y, y ∈ dA.1 ∧ y ∈ dB'.1 := by
  obtain ⟨hν, x, b, hxb, hW⟩ := hinv.bCyc dB hdB
  obtain ⟨e, he⟩ := List.exists_mem_of_ne_nil _ (kfdcr_closed_ne_nil x b)
  rw [← hxb] at he
  have heE : e ∈ s.g.edges := hW e he
  have hgpos : 0 < g e := by
    rw [← hinv.total e heE]
    have h1 := kfdcr_le_tot hdB e
    have h2 : 0 < traversals dB.1 e := List.count_pos_iff.2 he
    have : 0 < dB.2 * traversals dB.1 e := Nat.mul_pos hν h2
    omega
  obtain ⟨L, hhead, heL, hLpos⟩ := hconn e heE hgpos
  -- walk along L
  let Touch : Prop := ∃ dA ∈ A, ∃ dB' ∈ B, ∃ y, y ∈ dA.1 ∧ y ∈ dB'.1
  have hP : ∀ v ∈ L, Touch ∨ (∃ dA ∈ A, v ∈ dA.1) ∨ v = s.source := by
    apply kfdcr_walk_induct (fun v => Touch ∨ (∃ dA ∈ A, v ∈ dA.1) ∨ v = s.source) L s.source hhead
      (Or.inr (Or.inr rfl))
    intro u v huv hu
    rcases hu with ht | hu
    · exact Or.inl ht
    obtain ⟨hE, hpos⟩ := hLpos _ huv
    rw [← hinv.total _ hE] at hpos
    by_cases hA : 0 < kfdcr_tot A (u, v)
    · obtain ⟨dA, hdA, _, hmem⟩ := kfdcr_tot_pos hA
      exact Or.inr (Or.inl ⟨dA, hdA, mem_of_mem_walkEdges _ _ hmem⟩)
    · have hB : 0 < kfdcr_tot B (u, v) := by omega
      obtain ⟨dB', hdB', _, hmem⟩ := kfdcr_tot_pos hB
      have huc : u ∈ dB'.1 := List.dropLast_subset _ (fst_mem_of_mem_walkEdges _ _ hmem)
      rcases hu with ⟨dA, hdA, hudA⟩ | hus
      · exact Or.inl ⟨dA, hdA, dB', hdB', u, hudA, huc⟩
      · obtain ⟨_, x', b', hxb', hW'⟩ := hinv.bCyc dB' hdB'
        rw [hxb'] at huc hW'
        exact absurd hus (kfdcr_cyc_avoids hwf x' b' hW' u huc).1
  have hu : e.1 ∈ L := List.dropLast_subset _ (fst_mem_of_mem_walkEdges _ _ heL)
  have huc : e.1 ∈ dB.1 := List.dropLast_subset _ (fst_mem_of_mem_walkEdges _ _ he)
  rcases hP e.1 hu with ht | ⟨dA, hdA, hudA⟩ | hus
  · exact ht
  · exact ⟨dA, hdA, dB, hdB, e.1, hudA, huc⟩
  · rw [hxb] at huc hW
    exact absurd hus (kfdcr_cyc_avoids hwf x b hW e.1 huc).1

/-- **one merging step** -/
theorem kfdcr_merge_step (g : Edge → Nat) (n : Nat) (A0 B0 : List (List Node × Nat))
    (dA dB : List Node × Nat) (y : Node) (hyA : y ∈ dA.1) (hyB : y ∈ dB.1)
    (hinv : kfdcr_MInv s g n (dA :: A0) (dB :: B0)) :
    ∃ A', kfdcr_MInv s g n A' B0 := by
  obtain ⟨hμ, ⟨p, hp⟩, hWA, ebase, hebase, hbase⟩ := hinv.aWalk dA (by simp)
  obtain ⟨hν, x, b, hxb, hWB⟩ := hinv.bCyc dB (by simp)
  obtain ⟨μ1, hμ1⟩ : ∃ μ1, dA.2 = μ1 + 1 := ⟨dA.2 - 1, by omega⟩
  rw [hxb] at hyB hWB
  obtain ⟨hysrc, hysnk⟩ := kfdcr_cyc_avoids hwf x b hWB y hyB
  -- rotate the closed walk to y
  have hyxb : y ∈ x :: b := by
    simp only [List.cons_append, List.mem_cons, List.mem_append, List.mem_nil_iff, or_false] at hyB
    rcases hyB with h | h | h
    · simp [h]
    · simp [h]
    · simp [h]
  obtain ⟨b', hperm, _⟩ := kfdcr_rotate x b y hyxb
  -- split the walk at y
  have hyp : y ∈ p := by
    rw [hp] at hyA
    simp only [List.cons_append, List.mem_cons, List.mem_append, List.mem_nil_iff, or_false] at hyA
    rcases hyA with h | h | h
    · exact absurd h hysrc
    · exact h
    · exact absurd h hysnk
  obtain ⟨a1, a2, ha⟩ := List.append_of_mem hyp
  let ext : List Node := b' ++ [y]
  have hextne : ext ≠ [] := by simp [ext]
  have hextlast : (y :: ext).getLast? = some y := by
    have : y :: ext = (y :: b') ++ [y] := rfl
    rw [this, List.getLast?_concat]
  let p' : List Node := a1 ++ y :: kfdcr_rep ext a2 dB.2
  have hform : dA.1 = (s.source :: a1) ++ y :: (a2 ++ [s.sink]) := by rw [hp, ha]; simp
  have hform' : s.source :: p' ++ [s.sink] = (s.source :: a1) ++ y :: kfdcr_rep ext (a2 ++ [s.sink]) dB.2 := by
    rw [kfdcr_rep_append]; simp [p']
  have hcount : ∀ e, traversals (s.source :: p' ++ [s.sink]) e
      = traversals dA.1 e + dB.2 * traversals dB.1 e := by
    intro e
    rw [hform', kfdcr_splice_count _ _ ext y hextne hextlast, ← hform]
    have : traversals (y :: ext) e = traversals dB.1 e := by
      unfold traversals
      rw [hxb]
      exact hperm.count_eq e
    rw [this]
  let dNew : List Node × Nat := (s.source :: p' ++ [s.sink], 1)
  have hnewWalk : kfdcr_AWalk s dNew := by
    refine ⟨Nat.le_refl 1, ⟨p', rfl⟩, ?_, ebase, ?_, hbase⟩
    · intro e he
      have hpos : 0 < traversals (s.source :: p' ++ [s.sink]) e := List.count_pos_iff.2 he
      rw [hcount e] at hpos
      by_cases h1 : 0 < traversals dA.1 e
      · exact hWA e (List.count_pos_iff.1 h1)
      · have h2 : 0 < dB.2 * traversals dB.1 e := by omega
        have h3 : 0 < traversals dB.1 e := Nat.pos_of_mul_pos_left h2
        rw [hxb] at h3
        exact hWB e (List.count_pos_iff.1 h3)
    · have hpos : 0 < traversals (s.source :: p' ++ [s.sink]) ebase := by
        rw [hcount ebase]
        have : 0 < traversals dA.1 ebase := List.count_pos_iff.2 hebase
        omega
      exact List.count_pos_iff.1 hpos
  by_cases hμ0 : μ1 = 0
  · refine ⟨dNew :: A0, ?_, fun d hd => hinv.bCyc d (by simp [hd]), ?_, ?_⟩
    · intro d hd
      rcases List.mem_cons.1 hd with rfl | hd
      · exact hnewWalk
      · exact hinv.aWalk d (by simp [hd])
    · intro e he
      have := hinv.total e he
      rw [kfdcr_tot_cons, kfdcr_tot_cons] at this
      rw [kfdcr_tot_cons]
      show 1 * traversals (s.source :: p' ++ [s.sink]) e + kfdcr_tot A0 e + kfdcr_tot B0 e = g e
      rw [hcount e, hμ1, hμ0] at *
      omega
    · have := hinv.count
      simp only [List.length_cons] at this ⊢
      omega
  · refine ⟨dNew :: (dA.1, μ1) :: A0, ?_, fun d hd => hinv.bCyc d (by simp [hd]), ?_, ?_⟩
    · intro d hd
      rcases List.mem_cons.1 hd with rfl | hd
      · exact hnewWalk
      · rcases List.mem_cons.1 hd with rfl | hd
        · exact ⟨by show 1 ≤ μ1; omega, ⟨p, hp⟩, hWA, ebase, hebase, hbase⟩
        · exact hinv.aWalk d (by simp [hd])
    · intro e he
      have := hinv.total e he
      rw [kfdcr_tot_cons, kfdcr_tot_cons] at this
      rw [kfdcr_tot_cons, kfdcr_tot_cons]
      show 1 * traversals (s.source :: p' ++ [s.sink]) e + (μ1 * traversals dA.1 e + kfdcr_tot A0 e)
        + kfdcr_tot B0 e = g e
      rw [hcount e]
      rw [hμ1, Nat.add_mul] at this
      omega
    · have := hinv.count
      simp only [List.length_cons] at this ⊢
      omega

/-- **all closed walks are absorbed** -/
theorem kfdcr_merge (g : Edge → Nat) (n : Nat)
    (hconn : ∀ e ∈ s.g.edges, 0 < g e → ∃ L : List Node, L.head? = some s.source ∧ e ∈ walkEdges L ∧
      ∀ e' ∈ walkEdges L, e' ∈ s.g.edges ∧ 0 < g e') :
    ∀ (m : Nat) (A B : List (List Node × Nat)), B.length ≤ m → kfdcr_MInv s g n A B →
      ∃ A', kfdcr_MInv s g n A' [] := by
  intro m
  induction m with
  | zero =>
    intro A B hB hinv
    have : B = [] := List.eq_nil_of_length_eq_zero (by omega)
    subst this
    exact ⟨A, hinv⟩
  | succ m ih =>
    intro A B hB hinv
    cases hBne : B with
    | nil => subst hBne; exact ⟨A, hinv⟩
    | cons d0 B1 =>
      have hd0 : d0 ∈ B := by rw [hBne]; simp
      obtain ⟨dA, hdA, dB, hdB, y, hyA, hyB⟩ := kfdcr_touch hwf g n A B hconn hinv d0 hd0
      have hpA := List.perm_cons_erase hdA
      have hpB := List.perm_cons_erase hdB
      have hinv' := kfdcr_MInv_perm hpA hpB hinv
      obtain ⟨A', hA'⟩ := kfdcr_merge_step hwf g n _ _ dA dB y hyA hyB hinv'
      apply ih A' (B.erase dB) _ hA'
      have := hpB.length_eq
      simp only [List.length_cons] at this
      omega

end Merge

end FP
