import FP.Proofs.MFD
import FP.Proofs.DecompExample
/-!
# FP.Proofs.DecompManyPaths — with subpath constraints the minimum can exceed the number of edges

The complete DAG on `v0 … v5` without `(v0,v5)`, `(v0,v4)`, `(v1,v5)`: 12 edges, 13 source-to-sink paths.
Flow = one unit per path, every path is a subpath constraint. The minimum number of paths is 13, which
lies outside the range `range(lb, |E| + 1)` searched by `MinFlowDecomp.solve`.
(generated once from the path enumeration; checked by the kernel)
-/
namespace FP.DecompManyPaths
open FP FP.Spec FP.Search FP.MFD

def base : Graph :=
  { nodes := ["v0", "v1", "v2", "v3", "v4", "v5"],
    edges := [("v0", "v1"), ("v0", "v2"), ("v0", "v3"), ("v1", "v2"), ("v1", "v3"), ("v1", "v4"), ("v2", "v3"), ("v2", "v4"), ("v2", "v5"), ("v3", "v4"), ("v3", "v5"), ("v4", "v5")] }

theorem base_wf : BaseWF base where
  edgesNodup := by decide
  nodesNodup := by decide
  closed := by decide
  freshSrc := by decide
  freshSnk := by decide

def rank : Node → Nat := fun v =>
  if v = "v0" then 0 else if v = "v1" then 1 else if v = "v2" then 2 else if v = "v3" then 3
  else if v = "v4" then 4 else 5

theorem base_acyclic : Acyclic base := ⟨rank, by decide⟩

def paths : List (List Node) :=
  [["v0", "v1", "v2", "v3", "v4", "v5"], ["v0", "v1", "v2", "v3", "v5"], ["v0", "v1", "v2", "v4", "v5"], ["v0", "v1", "v2", "v5"], ["v0", "v1", "v3", "v4", "v5"], ["v0", "v1", "v3", "v5"], ["v0", "v1", "v4", "v5"], ["v0", "v2", "v3", "v4", "v5"], ["v0", "v2", "v3", "v5"], ["v0", "v2", "v4", "v5"], ["v0", "v2", "v5"], ["v0", "v3", "v4", "v5"], ["v0", "v3", "v5"]]

def inp : FlowInput :=
  { base := base,
    flow := [(("v0", "v1"), 7), (("v0", "v2"), 4), (("v0", "v3"), 2), (("v1", "v2"), 4), (("v1", "v3"), 2), (("v1", "v4"), 1), (("v2", "v3"), 4), (("v2", "v4"), 2), (("v2", "v5"), 2), (("v3", "v4"), 4), (("v3", "v5"), 4), (("v4", "v5"), 7)],
    weightInt := true,
    cfg := { k := 1, constraints := paths.map fun p => p.zip p.tail } }

theorem plain : PlainCfg inp where
  noEmpty := rfl
  coverage := rfl
  noCovLen := rfl
  noPos := rfl
  consEdges := by decide +kernel

def P : Nat → List Node := fun i => paths.getD i []
def w : Nat → Rat := fun _ => 1

theorem isDecomp : IsDecomp inp 13 P w where
  walk := by
    intro i hi
    unfold IsWalkIn
    revert i
    decide +kernel
  wnonneg := fun _ _ => by show (0 : Rat) ≤ 1; decide
  wint := fun _ _ _ => ⟨1, by simp [w]⟩
  explains := by decide +kernel
  constraints := by decide +kernel

theorem wmax_eq : inp.wmax = 7 := by decide +kernel

theorem hasDecomp13 : HasDecomp inp 13 :=
  ⟨P, w, isDecomp, fun _ _ => by rw [wmax_eq]; show (1 : Rat) ≤ 7; decide⟩

/-- two edge sets that leave a common node by different edges -/
def Incompat (c1 c2 : List Edge) : Bool :=
  c1.any fun e1 => c2.any fun e2 => decide (e1.1 = e2.1 ∧ e1 ≠ e2)

/-- **another lower bound:** pairwise incompatible subpath constraints need one path each -/
theorem lb_constraints (inp : FlowInput) (h : BaseWF inp.base) (hac : Acyclic inp.base) (k : Nat)
    (P : Nat → List Node) (w : Nat → Rat) (hd : IsDecomp inp k P w) (C : List (List Edge))
    (hC : ∀ c ∈ C, c ∈ inp.cfg.constraints) (hnd : C.Nodup)
    (hinc : ∀ c1 ∈ C, ∀ c2 ∈ C, c1 ≠ c2 → Incompat c1 c2 = true) : C.length ≤ k := by
  have hwf : STWF inp.st := augment_wf inp.base inp.starts inp.ends h hac
  apply pigeon C k (fun c i => i < k ∧ ∀ e ∈ c, e ∈ walkEdges (inp.st.source :: P i ++ [inp.st.sink])) hnd
  · intro c hc
    obtain ⟨i, hi, hcov⟩ := hd.constraints c (hC c hc)
    exact ⟨i, hi, hi, hcov⟩
  · intro c1 h1 c2 h2 i hc1 hc2
    apply Classical.byContradiction
    intro hne
    have hI := hinc c1 h1 c2 h2 hne
    unfold Incompat at hI
    obtain ⟨e1, he1, hI⟩ := List.any_eq_true.1 hI
    obtain ⟨e2, he2, hI⟩ := List.any_eq_true.1 hI
    have hI' : e1.1 = e2.1 ∧ e1 ≠ e2 := by simpa using hI
    have hnd' := stwalk_nodup_p03 hwf (hd.walk i hc1.1)
    exact hI'.2 (DecompExample.walkEdges_fst_inj _ hnd' e1 e2 (hc1.2 e1 he1) (hc2.2 e2 he2) hI'.1)

theorem no_decomp_below_13 : ∀ j, j < 13 → ¬ HasDecomp inp j := by
  intro j hj ⟨P', w', hd, _⟩
  have := lb_constraints inp base_wf base_acyclic j P' w' hd inp.cfg.constraints (fun _ hc => hc)
    (by decide +kernel) (by decide +kernel)
  have hlen : inp.cfg.constraints.length = 13 := by decide +kernel
  omega

theorem min_is_13 : IsMinDecomp inp 13 := ⟨hasDecomp13, no_decomp_below_13⟩

/-- **negative witness for the range before fix e0ac661.** On this input a decomposition exists
(minimum 13 paths) but `|E| = 12`: whatever the lower bound, a search over `range(lo, |E| + 1)` with a
truthful solver ends without an answer. -/
theorem range_too_small_pre (σ : Nat → Status) (hf : Faithful inp σ) (lo : Nat) :
    base.edges.length = 12 ∧ IsMinDecomp inp 13 ∧
      (stopSearch σ lo (searchHiPre base.edges.length)).solved = none := by
  refine ⟨by decide, min_is_13, ?_⟩
  cases hs : (stopSearch σ lo (searchHiPre base.edges.length)).solved with
  | none => rfl
  | some k =>
    exfalso
    obtain ⟨h1, h2, h3, _⟩ := stopLoop_sound σ _ _ _ _ hs
    have hE : searchHiPre base.edges.length = 13 := by decide
    rw [hE] at h3
    have hk : k < 13 := by omega
    exact no_decomp_below_13 k hk
      ((kfd_feasible_iff_proof inp k base_wf base_acyclic plain).1 ((hf k).1 h1))

/-- **regression (fix e0ac661).** With `range(lo, |E| + #constraints + 1)` the minimum 13 of this input
is inside the range, and a solver that always finishes makes the search return it for every `lo ≤ 13`. -/
theorem range_now_sufficient (σ : Nat → Status) (hd : Decisive inp σ) (lo : Nat) (hlo : lo ≤ 13) :
    searchHi base.edges.length inp.cfg.constraints.length = 26 ∧
      (stopSearch σ lo (searchHi base.edges.length inp.cfg.constraints.length)).solved = some 13 := by
  have hE : searchHi base.edges.length inp.cfg.constraints.length = 26 := by decide +kernel
  refine ⟨hE, ?_⟩
  rw [hE]
  exact mfd_search_finds_proof inp base_wf base_acyclic plain σ hd lo 26 13 min_is_13 hlo (by omega)

end FP.DecompManyPaths
