import FP.Proofs.KMPEGiven
import FP.Proofs.ErrExample
import FP.Proofs.WalkCoreExample
/-!
# FP.Proofs.KMPEGivenExample — a concrete given-weights instance of k-Min-Path-Error, and what the bound
`w_max` on the slack columns cuts off

User DAG `s0 → u`, `s1 → u`, `u → v`, `v → t1`, `v → x`, `s2 → x`, `x → y` with `f = 1` on every edge except
`f(u,v) = f(x,y) = 0`, `k = 3`, `weight_type = int`, `solution_weights_superset = [15, 15, 15]` — so
`w_max = max(3·1, 15) = 15`. Routes `A = s0 u v t1`, `B = s1 u v x y`, `C = s2 x y`, each of weight 15.

* slacks `(15, 15, 15)` satisfy the slack inequality on every edge: a bounded choice of total slack `45`;
* slacks `(14, 16, 14)` satisfy it as well (`B` shares `(u,v)` with `A` and `(x,y)` with `C`, both with
  error `30`): total slack `44` — but `16 > w_max`, so the slack column of `B` cannot take that value;
* every satisfying assignment of the LP the constructor builds has objective at least `45`.
-/
namespace FP.GivenExampleMPE
open FP FP.Spec FP.Spec.MPE

def base : Graph :=
  { nodes := ["s0", "s1", "s2", "u", "v", "t1", "x", "y"],
    edges := [("s0", "u"), ("s1", "u"), ("u", "v"), ("v", "t1"), ("v", "x"), ("s2", "x"), ("x", "y")] }

theorem base_wf : BaseWF base where
  edgesNodup := by decide
  nodesNodup := by decide
  closed := by decide
  freshSrc := by decide
  freshSnk := by decide

def rank : Node → Nat := fun v =>
  if v = "s0" then 0 else if v = "s1" then 0 else if v = "s2" then 0 else if v = "u" then 1
  else if v = "v" then 2 else if v = "t1" then 3 else if v = "x" then 3 else 4
theorem base_acyclic : Acyclic base := ⟨rank, by decide⟩

/-- the user's call: `k = 3`; `kMinPathError` always encodes edge positions -/
def fi0 : FlowInput :=
  { base := base,
    flow := [(("s0", "u"), 1), (("s1", "u"), 1), (("u", "v"), 0), (("v", "t1"), 1), (("v", "x"), 1),
             (("s2", "x"), 1), (("x", "y"), 0)],
    weightInt := true, cfg := { k := 3, encodePosition := true } }

def ws : List Rat := [15, 15, 15]

/-- what the constructor makes of it: `k = len(ws)`, empty paths allowed -/
def inp : MpeInput := { ei := ({ fi := fi0 } : ErrInput).forGiven ws }

def pA : List Node := ["s0", "u", "v", "t1"]
def pB : List Node := ["s1", "u", "v", "x", "y"]
def pC : List Node := ["s2", "x", "y"]
def P : Nat → List Node := fun i => if i = 0 then pA else if i = 1 then pB else pC
/-- the bounded slacks -/
def sl15 : Nat → Rat := fun _ => 15
/-- the better slacks, `16 > w_max` on route `B` -/
def sl44 : Nat → Rat := fun i => if i = 1 then 16 else 14

theorem k3 : inp.ei.k = 3 := rfl
theorem range_k : List.range inp.ei.k = [0, 1, 2] := by decide
theorem aug_edges : inp.ei.st.g.edges
    = [("s0", "u"), ("s1", "u"), ("s2", "x"), ("u", "v"), ("v", "t1"), ("v", "x"), ("t1", "sink"), ("x", "y"),
       ("y", "sink"), ("source", "s0"), ("source", "s1"), ("source", "s2")] := by decide
theorem basic : inp.ei.basicEdges
    = [("s0", "u"), ("s1", "u"), ("s2", "x"), ("u", "v"), ("v", "t1"), ("v", "x"), ("x", "y")] := by decide
theorem f_s0u : inp.ei.fi.f ("s0", "u") = 1 := by decide
theorem f_s1u : inp.ei.fi.f ("s1", "u") = 1 := by decide
theorem f_s2x : inp.ei.fi.f ("s2", "x") = 1 := by decide
theorem f_uv : inp.ei.fi.f ("u", "v") = 0 := by decide
theorem f_vt : inp.ei.fi.f ("v", "t1") = 1 := by decide
theorem f_vx : inp.ei.fi.f ("v", "x") = 1 := by decide
theorem f_xy : inp.ei.fi.f ("x", "y") = 0 := by decide
theorem scale1 (e : Edge) : inp.ei.scale e = 1 := rfl
theorem fmax1 : inp.ei.fmax = 1 := by decide
theorem gw (i : Nat) (hi : i < 3) : givenW ws i = 15 := by
  have : i = 0 ∨ i = 1 ∨ i = 2 := by omega
  rcases this with rfl | rfl | rfl <;> rfl
theorem wmax15 : inp.ei.wmax (some ws) = 15 := by
  have h1 : inp.ei.wmax (some ws) = max ((inp.ei.k : Rat) * inp.ei.fmax) (listMax ws) := rfl
  have h2 : listMax ws = 15 := by decide
  have h3 : ((inp.ei.k : Nat) : Rat) = 3 := by decide
  rw [h1, h2, h3, fmax1, Rat.max_def]
  split <;> grind

theorem mem_basic {e : Edge} (he : e ∈ inp.ei.basicEdges) :
    e = ("s0", "u") ∨ e = ("s1", "u") ∨ e = ("s2", "x") ∨ e = ("u", "v") ∨ e = ("v", "t1") ∨
      e = ("v", "x") ∨ e = ("x", "y") := by
  rw [basic] at he
  simpa using he

theorem valid_pA : ValidRoute base [] [] pA where
  nonempty := by decide
  nodes := by decide
  adjacent := by unfold IsWalkIn; decide
  first := by
    intro v hv
    have : v = "s0" := by simpa [pA] using hv.symm
    subst this; left; decide
  last := by
    intro v hv
    have : v = "t1" := by simpa [pA] using hv.symm
    subst this; left; decide

theorem valid_pB : ValidRoute base [] [] pB where
  nonempty := by decide
  nodes := by decide
  adjacent := by unfold IsWalkIn; decide
  first := by
    intro v hv
    have : v = "s1" := by simpa [pB] using hv.symm
    subst this; left; decide
  last := by
    intro v hv
    have : v = "y" := by simpa [pB] using hv.symm
    subst this; left; decide

theorem valid_pC : ValidRoute base [] [] pC where
  nonempty := by decide
  nodes := by decide
  adjacent := by unfold IsWalkIn; decide
  first := by
    intro v hv
    have : v = "s2" := by simpa [pC] using hv.symm
    subst this; left; decide
  last := by
    intro v hv
    have : v = "y" := by simpa [pC] using hv.symm
    subst this; left; decide

theorem valid_P (i : Nat) (_hi : i < 3) :
    ValidRoute inp.ei.fi.base inp.ei.fi.starts inp.ei.fi.ends (P i) := by
  by_cases h0 : i = 0
  · simp only [P, h0, if_true]; exact valid_pA
  · by_cases h1 : i = 1
    · simp only [P, h1, if_true]; exact valid_pB
    · simp only [P, h0, h1, if_false]; exact valid_pC

theorem routes (i : Nat) : Route inp.ei.st true (P i) := by
  by_cases h0 : i = 0
  · simp only [P, h0, if_true]
    exact route_of_validRoute base [] [] base_wf base_acyclic true _ valid_pA
  · by_cases h1 : i = 1
    · simp only [P, h1, if_true]
      exact route_of_validRoute base [] [] base_wf base_acyclic true _ valid_pB
    · simp only [P, h0, h1, if_false]
      exact route_of_validRoute base [] [] base_wf base_acyclic true _ valid_pC

theorem expl (w : Nat → Rat) (e : Edge) :
    explained inp.ei.st inp.ei.k P w e
      = w 0 * trav inp.ei.st (P 0) e + w 1 * trav inp.ei.st (P 1) e + w 2 * trav inp.ei.st (P 2) e := by
  unfold explained
  rw [range_k]
  simp only [List.map_cons, List.map_nil, List.sum_cons, List.sum_nil]
  grind

theorem tA (e : Edge) (he : e ∈ inp.ei.basicEdges) :
    trav inp.ei.st (P 0) e = if e = ("s0", "u") ∨ e = ("u", "v") ∨ e = ("v", "t1") then 1 else 0 := by
  rcases mem_basic he with rfl | rfl | rfl | rfl | rfl | rfl | rfl <;> decide
theorem tB (e : Edge) (he : e ∈ inp.ei.basicEdges) :
    trav inp.ei.st (P 1) e
      = if e = ("s1", "u") ∨ e = ("u", "v") ∨ e = ("v", "x") ∨ e = ("x", "y") then 1 else 0 := by
  rcases mem_basic he with rfl | rfl | rfl | rfl | rfl | rfl | rfl <;> decide
theorem tC (e : Edge) (he : e ∈ inp.ei.basicEdges) :
    trav inp.ei.st (P 2) e = if e = ("s2", "x") ∨ e = ("x", "y") then 1 else 0 := by
  rcases mem_basic he with rfl | rfl | rfl | rfl | rfl | rfl | rfl <;> decide

theorem slackOK_of (sl : Nat → Rat) (h0 : 14 ≤ sl 0) (h1 : 14 ≤ sl 1) (h2 : 14 ≤ sl 2)
    (h01 : 30 ≤ sl 0 + sl 1) (h12 : 30 ≤ sl 1 + sl 2) :
    ∀ e ∈ inp.ei.basicEdges, SlackOK inp.ei P (givenW ws) sl e := by
  intro e he
  unfold SlackOK
  rw [expl, expl, tA e he, tB e he, tC e he, scale1, gw 0 (by decide), gw 1 (by decide), gw 2 (by decide)]
  rcases mem_basic he with rfl | rfl | rfl | rfl | rfl | rfl | rfl
  · rw [f_s0u]; simp; unfold Rat.abs; split <;> grind
  · rw [f_s1u]; simp; unfold Rat.abs; split <;> grind
  · rw [f_s2x]; simp; unfold Rat.abs; split <;> grind
  · rw [f_uv]; simp; unfold Rat.abs; split <;> grind
  · rw [f_vt]; simp; unfold Rat.abs; split <;> grind
  · rw [f_vx]; simp; unfold Rat.abs; split <;> grind
  · rw [f_xy]; simp; unfold Rat.abs; split <;> grind

theorem isInt15 : IsInt (15 : Rat) := ⟨15, by decide⟩

/-- slacks `(15, 15, 15)`: a bounded choice … -/
theorem bounded45 : GivenBounded inp.ei ws 3 P sl15 where
  routes := fun i _ => routes i
  cap := by decide
  nonneg := fun _ _ => by show (0 : Rat) ≤ 15; decide
  integral := fun _ _ _ => isInt15
  slackOK := slackOK_of sl15 (by show (14:Rat) ≤ 15; decide) (by show (14:Rat) ≤ 15; decide)
    (by show (14:Rat) ≤ 15; decide) (by show (30:Rat) ≤ 15 + 15; grind) (by show (30:Rat) ≤ 15 + 15; grind)
  sle := fun _ _ => by rw [wmax15]; exact Rat.le_refl

/-- … of total slack `45` -/
theorem total45 : totalSlack inp.ei.k sl15 = 45 := by
  unfold totalSlack
  rw [range_k]
  simp only [List.map_cons, List.map_nil, List.sum_cons, List.sum_nil, sl15]
  grind

/-- slacks `(14, 16, 14)` on the same routes: a choice satisfying every slack inequality … -/
theorem solution44 : GivenSolution inp.ei ws 3 P sl44 where
  routes := fun i _ => routes i
  cap := by decide
  nonneg := fun i _ => by unfold sl44; split <;> decide
  integral := fun _ i _ => by
    unfold sl44; split
    · exact ⟨16, by decide⟩
    · exact ⟨14, by decide⟩
  slackOK := slackOK_of sl44 (by show (14:Rat) ≤ 14; decide) (by show (14:Rat) ≤ 16; decide)
    (by show (14:Rat) ≤ 14; decide) (by show (30:Rat) ≤ 14 + 16; grind) (by show (30:Rat) ≤ 16 + 14; grind)

/-- … of total slack `44` … -/
theorem total44 : totalSlack inp.ei.k sl44 = 44 := by
  unfold totalSlack
  rw [range_k]
  simp only [List.map_cons, List.map_nil, List.sum_cons, List.sum_nil, sl44]
  simp
  grind

/-- … but `16 > w_max = 15`: not a bounded choice -/
theorem not_bounded44 : ¬ GivenBounded inp.ei ws 3 P sl44 := by
  intro hb
  have := hb.sle 1 (by decide)
  rw [wmax15] at this
  exact absurd this (by decide)

theorem scale_nonneg : ∀ e ∈ inp.ei.basicEdges, 0 ≤ inp.ei.scale e := by
  intro e _; rw [scale1]; decide

/-- a satisfying assignment of the LP with objective `45` -/
theorem sat45 : ∃ a : Asg, Sat a (kmpeGivenLP inp ws 3) ∧ evalTerms a (kmpeGivenLP inp ws 3).obj = 45 := by
  obtain ⟨a, hsat, _, _, hobj⟩ :=
    kmpe_given_complete inp ws 3 P sl15 base_wf base_acyclic rfl rfl rfl scale_nonneg bounded45
  exact ⟨a, hsat, by rw [hobj, total45]⟩


/-! ### every satisfying assignment has objective at least `45` -/

/-- the possible shapes of one layer (`a, b, c` = the start edges `(s0,u), (s1,u), (s2,x)`): unused,
`A`-like from `s0` or `s1` (leaving at `t1`), `B`-like from `s0` or `s1` (continuing to `x`), or `C` -/
def Shape (a b c vx uv vt xy : Rat) : Prop :=
    (a = 0 ∧ b = 0 ∧ c = 0 ∧ vx = 0 ∧ uv = 0 ∧ vt = 0 ∧ xy = 0) ∨
    (a = 1 ∧ b = 0 ∧ c = 0 ∧ vx = 0 ∧ uv = 1 ∧ vt = 1 ∧ xy = 0) ∨
    (a = 1 ∧ b = 0 ∧ c = 0 ∧ vx = 1 ∧ uv = 1 ∧ vt = 0 ∧ xy = 1) ∨
    (a = 0 ∧ b = 1 ∧ c = 0 ∧ vx = 0 ∧ uv = 1 ∧ vt = 1 ∧ xy = 0) ∨
    (a = 0 ∧ b = 1 ∧ c = 0 ∧ vx = 1 ∧ uv = 1 ∧ vt = 0 ∧ xy = 1) ∨
    (a = 0 ∧ b = 0 ∧ c = 1 ∧ vx = 0 ∧ uv = 0 ∧ vt = 0 ∧ xy = 1)


theorem layer_shape (a b c uv vt vx xy s0 s1 s2 : Rat)
    (ha : a = 0 ∨ a = 1) (hb : b = 0 ∨ b = 1) (hc : c = 0 ∨ c = 1) (hvx : vx = 0 ∨ vx = 1)
    (hvt : vt = 0 ∨ vt = 1)
    (hsrc : s0 + (s1 + s2) ≤ 1) (h0 : s0 = a) (h1 : s1 = b) (h2 : s2 = c)
    (hu : a + b = uv) (hv : uv = vt + vx) (hx : c + vx = xy) : Shape a b c vx uv vt xy := by
  unfold Shape
  subst h0 h1 h2
  rcases ha with rfl | rfl <;> rcases hb with rfl | rfl <;> rcases hc with rfl | rfl <;>
    rcases hvx with rfl | rfl <;> rcases hvt with rfl | rfl <;> grind

/-- the shape of layer `i` of a satisfying assignment (edge columns binary, conservation at
`s0, s1, s2, u, v, x`, at most one unit leaves the source) -/
theorem layer_facts (a : Asg) (henc : Sat a (encodePaths inp.ei.st inp.ei.fi.cfg)) (i : Nat) (hi : i < 3) :
    Shape (a (edgeVar ("s0", "u") i)) (a (edgeVar ("s1", "u") i)) (a (edgeVar ("s2", "x") i))
      (a (edgeVar ("v", "x") i)) (a (edgeVar ("u", "v") i)) (a (edgeVar ("v", "t1") i))
      (a (edgeVar ("x", "y") i)) := by
  have hf := layerFacts_of_sat inp.ei.st inp.ei.fi.cfg a henc i hi
  have hsrc := hf.src
  have hallow : inp.ei.fi.cfg.allowEmpty = true := rfl
  have hs : inp.ei.st.source = "source" := rfl
  rw [hallow] at hsrc
  simp only [if_true] at hsrc
  have c0 := hf.cons "s0" (by decide) (by decide) (by decide)
  have c1 := hf.cons "s1" (by decide) (by decide) (by decide)
  have c2 := hf.cons "s2" (by decide) (by decide) (by decide)
  have cu := hf.cons "u" (by decide) (by decide) (by decide)
  have cv := hf.cons "v" (by decide) (by decide) (by decide)
  have cx := hf.cons "x" (by decide) (by decide) (by decide)
  unfold inflow outflow at c0 c1 c2 cu cv cx
  unfold outflow at hsrc
  rw [aug_edges] at c0 c1 c2 cu cv cx hsrc
  rw [hs] at hsrc
  simp [List.filter] at c0 c1 c2 cu cv cx hsrc
  have mem : ∀ e, e ∈ inp.ei.st.g.edges → a (edgeVar e i) = 0 ∨ a (edgeVar e i) = 1 := fun e he => hf.bin e he
  exact layer_shape _ _ _ _ _ _ _ (a (edgeVar ("source", "s0") i)) (a (edgeVar ("source", "s1") i))
    (a (edgeVar ("source", "s2") i))
    (mem ("s0", "u") (by rw [aug_edges]; simp)) (mem ("s1", "u") (by rw [aug_edges]; simp))
    (mem ("s2", "x") (by rw [aug_edges]; simp)) (mem ("v", "x") (by rw [aug_edges]; simp))
    (mem ("v", "t1") (by rw [aug_edges]; simp)) (by grind) (by grind) (by grind) (by grind) (by grind)
    (by grind) (by grind)

/-- the arithmetic core: three layers of these shapes, slacks in `[0, 15]`, rows 9aa / 9ab of the seven
edges with `gamma = x · slack` substituted -/
theorem arith (a0 b0 c0 vx0 uv0 vt0 xy0 a1 b1 c1 vx1 uv1 vt1 xy1 a2 b2 c2 vx2 uv2 vt2 xy2 z0 z1 z2 : Rat)
    (L0 : Shape a0 b0 c0 vx0 uv0 vt0 xy0)
    (L1 : Shape a1 b1 c1 vx1 uv1 vt1 xy1) (L2 : Shape a2 b2 c2 vx2 uv2 vt2 xy2)
    (_s0 : 0 ≤ z0 ∧ z0 ≤ 15) (_s1 : 0 ≤ z1 ∧ z1 ≤ 15) (_s2 : 0 ≤ z2 ∧ z2 ≤ 15)
    (r1 : -(15 * a0 + 15 * a1 + 15 * a2) - (a0 * z0 + a1 * z1 + a2 * z2) ≤ -1 ∧
          -1 ≤ -(15 * a0 + 15 * a1 + 15 * a2) + (a0 * z0 + a1 * z1 + a2 * z2))
    (r2 : -(15 * b0 + 15 * b1 + 15 * b2) - (b0 * z0 + b1 * z1 + b2 * z2) ≤ -1 ∧
          -1 ≤ -(15 * b0 + 15 * b1 + 15 * b2) + (b0 * z0 + b1 * z1 + b2 * z2))
    (r3 : -(15 * c0 + 15 * c1 + 15 * c2) - (c0 * z0 + c1 * z1 + c2 * z2) ≤ -1 ∧
          -1 ≤ -(15 * c0 + 15 * c1 + 15 * c2) + (c0 * z0 + c1 * z1 + c2 * z2))
    (r4 : -(15 * uv0 + 15 * uv1 + 15 * uv2) - (uv0 * z0 + uv1 * z1 + uv2 * z2) ≤ -0 ∧
          -0 ≤ -(15 * uv0 + 15 * uv1 + 15 * uv2) + (uv0 * z0 + uv1 * z1 + uv2 * z2))
    (r5 : -(15 * vt0 + 15 * vt1 + 15 * vt2) - (vt0 * z0 + vt1 * z1 + vt2 * z2) ≤ -1 ∧
          -1 ≤ -(15 * vt0 + 15 * vt1 + 15 * vt2) + (vt0 * z0 + vt1 * z1 + vt2 * z2))
    (r6 : -(15 * vx0 + 15 * vx1 + 15 * vx2) - (vx0 * z0 + vx1 * z1 + vx2 * z2) ≤ -1 ∧
          -1 ≤ -(15 * vx0 + 15 * vx1 + 15 * vx2) + (vx0 * z0 + vx1 * z1 + vx2 * z2))
    (r7 : -(15 * xy0 + 15 * xy1 + 15 * xy2) - (xy0 * z0 + xy1 * z1 + xy2 * z2) ≤ -0 ∧
          -0 ≤ -(15 * xy0 + 15 * xy1 + 15 * xy2) + (xy0 * z0 + xy1 * z1 + xy2 * z2)) :
    45 ≤ z0 + (z1 + (z2 + 0)) := by
  unfold Shape at L0 L1 L2
  rcases L0 with ⟨rfl, rfl, rfl, rfl, rfl, rfl, rfl⟩ | ⟨rfl, rfl, rfl, rfl, rfl, rfl, rfl⟩ |
      ⟨rfl, rfl, rfl, rfl, rfl, rfl, rfl⟩ | ⟨rfl, rfl, rfl, rfl, rfl, rfl, rfl⟩ |
      ⟨rfl, rfl, rfl, rfl, rfl, rfl, rfl⟩ | ⟨rfl, rfl, rfl, rfl, rfl, rfl, rfl⟩ <;>
    rcases L1 with ⟨rfl, rfl, rfl, rfl, rfl, rfl, rfl⟩ | ⟨rfl, rfl, rfl, rfl, rfl, rfl, rfl⟩ |
      ⟨rfl, rfl, rfl, rfl, rfl, rfl, rfl⟩ | ⟨rfl, rfl, rfl, rfl, rfl, rfl, rfl⟩ |
      ⟨rfl, rfl, rfl, rfl, rfl, rfl, rfl⟩ | ⟨rfl, rfl, rfl, rfl, rfl, rfl, rfl⟩ <;>
    rcases L2 with ⟨rfl, rfl, rfl, rfl, rfl, rfl, rfl⟩ | ⟨rfl, rfl, rfl, rfl, rfl, rfl, rfl⟩ |
      ⟨rfl, rfl, rfl, rfl, rfl, rfl, rfl⟩ | ⟨rfl, rfl, rfl, rfl, rfl, rfl, rfl⟩ |
      ⟨rfl, rfl, rfl, rfl, rfl, rfl, rfl⟩ | ⟨rfl, rfl, rfl, rfl, rfl, rfl, rfl⟩ <;> grind

/-- **every satisfying assignment of the LP has objective at least `45`**: the three start edges force
three used layers, `(u,v)` and `(x,y)` (error `30` each) are each shared by two of them, and no slack may
exceed `w_max = 15` -/
theorem lp_lower_bound (a : Asg) (hsat : Sat a (kmpeGivenLP inp ws 3)) :
    45 ≤ evalTerms a (kmpeGivenLP inp ws 3).obj := by
  obtain ⟨henc, hsc, _, _, hbins, herr, _⟩ := kmpeg_sat_parts inp ws 3 a hsat
  have hfac : inp.factors = [] := rfl
  have hgam : ∀ e ∈ inp.ei.basicEdges, ∀ i, i < 3 →
      a (gammaVar e i) = a (edgeVar e i) * a (slackVar i) := by
    intro e he i hi
    have hb := (layerFacts_of_sat inp.ei.st inp.ei.fi.cfg a henc i hi).bin e (mem_basicEdges inp.ei e he)
    have := hbins e he i hi
    rw [slackFor_nil inp hfac] at this
    exact binProd_sound0 a _ _ _ _ hb this
  have hsl : ∀ i, i < 3 → 0 ≤ a (slackVar i) ∧ a (slackVar i) ≤ 15 := by
    intro i hi
    have := hsc i hi
    refine ⟨this.1, ?_⟩
    have h2 := this.2.1 _ rfl
    rw [wmax15] at h2
    exact h2
  have hs : ∀ e, evalTerms a (klaegSumW inp.ei ws e)
      = 15 * a (edgeVar e 0) + 15 * a (edgeVar e 1) + 15 * a (edgeVar e 2) := by
    intro e
    unfold klaegSumW
    rw [evalTerms_map, range_k]
    have g0 : ws.getD 0 0 = 15 := rfl
    have g1 : ws.getD 1 0 = 15 := rfl
    have g2 : ws.getD 2 0 = 15 := rfl
    simp only [List.map_cons, List.map_nil, List.sum_cons, List.sum_nil, g0, g1, g2]
    grind
  have hrow : ∀ e ∈ inp.ei.basicEdges,
      -(15 * a (edgeVar e 0) + 15 * a (edgeVar e 1) + 15 * a (edgeVar e 2))
          - (a (edgeVar e 0) * a (slackVar 0) + a (edgeVar e 1) * a (slackVar 1)
              + a (edgeVar e 2) * a (slackVar 2)) ≤ -(inp.ei.fi.f e) ∧
      -(inp.ei.fi.f e) ≤ -(15 * a (edgeVar e 0) + 15 * a (edgeVar e 1) + 15 * a (edgeVar e 2))
          + (a (edgeVar e 0) * a (slackVar 0) + a (edgeVar e 1) * a (slackVar 1)
              + a (edgeVar e 2) * a (slackVar 2)) := by
    intro e he
    have hm := herr e he
    unfold errRows at hm
    have h1 := (hm _ List.mem_cons_self).2 _ rfl
    have h2 := (hm _ (List.mem_cons_of_mem _ List.mem_cons_self)).1 _ rfl
    simp only [rowLe, rowGe, evalTerms_append, evalTerms_negTerms, evalTerms_scaled, evalTerms_ones, hs,
      range_k, List.map_cons, List.map_nil, List.sum_cons, List.sum_nil, scale1,
      hgam e he 0 (by decide), hgam e he 1 (by decide), hgam e he 2 (by decide)] at h1 h2
    constructor <;> grind
  have r1 := hrow ("s0", "u") (by rw [basic]; simp)
  have r2 := hrow ("s1", "u") (by rw [basic]; simp)
  have r3 := hrow ("s2", "x") (by rw [basic]; simp)
  have r4 := hrow ("u", "v") (by rw [basic]; simp)
  have r5 := hrow ("v", "t1") (by rw [basic]; simp)
  have r6 := hrow ("v", "x") (by rw [basic]; simp)
  have r7 := hrow ("x", "y") (by rw [basic]; simp)
  rw [f_s0u] at r1
  rw [f_s1u] at r2
  rw [f_s2x] at r3
  rw [f_uv] at r4
  rw [f_vt] at r5
  rw [f_vx] at r6
  rw [f_xy] at r7
  rw [kmpeGivenLP_obj]
  unfold totalSlack
  rw [range_k]
  simp only [List.map_cons, List.map_nil, List.sum_cons, List.sum_nil]
  exact arith _ _ _ _ _ _ _ _ _ _ _ _ _ _ _ _ _ _ _ _ _ _ _ _
    (layer_facts a henc 0 (by decide)) (layer_facts a henc 1 (by decide)) (layer_facts a henc 2 (by decide))
    (hsl 0 (by decide)) (hsl 1 (by decide)) (hsl 2 (by decide)) r1 r2 r3 r4 r5 r6 r7

end FP.GivenExampleMPE

/-! ## a satisfying assignment of the given-weights LP *with* path-length factors

`a → b → c`, `f = (4, 1)`, `weight_type = int`, `solution_weights_superset = [2]` (so `k = 1`,
`w_max = max(1·4, 2) = 4`), `path_length_ranges = [[0, 1000]]`, `path_length_factors = [2]`: the route
`a b c` (4 edges in the augmented graph) with slack `1`, length factor `2`, scaled slack `2`,
`gamma = 2` on both edges (`|4 − 2| ≤ 2`, `|1 − 2| ≤ 2`). All 25 columns (positions, piecewise selector,
bits and components of the integer × continuous product included) are given explicitly and the 45 rows are
checked one by one. -/
namespace FP.GivenExampleMPE.Factors
open FP FP.Spec

def fi0 : FlowInput :=
  { base := ErrExample.base, flow := [(("a", "b"), 4), (("b", "c"), 1)], weightInt := true,
    cfg := { k := 1, encodePosition := true } }
def ws : List Rat := [2]
def inp : MpeInput :=
  { ei := ({ fi := fi0 } : ErrInput).forGiven ws, ranges := [(0, 1000)], factors := [2] }

def asg : Asg := fun v =>
  match v with
  | .uvi pfx u _ _ =>
    if pfx = "edge" then 1
    else if pfx = "position" then (if u = "source" then 0 else if u = "a" then 1 else if u = "b" then 2 else 3)
    else if pfx = "gamma" then (if u = "a" ∨ u = "b" then 2 else 0)
    else 0
  | .ix pfx i =>
    if pfx = "path_length" then 4
    else if pfx = "slack" then 1
    else if pfx = "path_slack_scaled" then 2
    else if pfx = "z_error_scale_0" then 1
    else if pfx = "scaled_slack" then 2
    else if pfx = "binary_scaled_slack_i0" then (if i = 0 then 1 else 0)
    else if pfx = "comp_scaled_slack_i0" then (if i = 0 then 2 else 0)
    else 0
  | _ => 0

theorem sat : Sat asg (kmpeGivenLP inp ws 1) :=
  WalkCoreExample.sat_of_check _ _ (by decide +kernel) (by decide +kernel)

example : (kmpeGivenLP inp ws 1).cols.length = 25 ∧ (kmpeGivenLP inp ws 1).rows.length = 45 := by
  decide +kernel

theorem decode : decodeLayer inp.ei.st (fun e i => asg (edgeVar e i)) 0 = some ["a", "b", "c"] := by
  decide +kernel

theorem hyps : inp.factors ≠ [] ∧ inp.ranges.length = inp.factors.length ∧ (∀ r ∈ inp.ranges, r.1 ≤ r.2) ∧
    0 ≤ listMin inp.factors ∧ listMax inp.factors ≤ inp.ei.wmax (some ws) * listMax inp.factors := by
  decide +kernel

end FP.GivenExampleMPE.Factors
