import FP.Model.Enc.KLAEC
/-!
# FP.Proofs.C10Witness — where the walk error models *falsify* C10 (the model mirrors the code)

Two concrete witnesses on `klaecLP` (`kLeastAbsErrorsCycles`), both replayed on the real code by
the check (`known_findings.json`: `C10-cyclic-cap-uses-ignored-flow`, `C10-walk-product-bits-from-wmax`):

* `klaec_ignored_flow_matters`: two inputs that differ only in the flow value of an *ignored* edge
  have different LPs (the repetition cap of that edge, the floor of `compute_edge_max_reachable_value`,
  reads it: `floor(3/2) = 1` against `floor(7/2) = 3`) —
  the analogue of `ignored_flow_irrelevant` fails for the cyclic encoder.
* `klaec_infeasible_after_ignoring`: after ignoring the only edge of positive flow, `w_max = 0`, the
  integer × continuous product helper gets 0 bits and forces the multiplicity of every non-ignored
  edge to 0: the LP has no satisfying assignment at all, although ignoring should only relax.
-/
namespace FP.C10Witness
open FP

deriving instance DecidableEq for Row

/-! ## the flow of an ignored edge reaches the LP -/

def wbase : Graph :=
  { nodes := ["f", "h", "hc", "g"], edges := [("f", "h"), ("h", "hc"), ("h", "g"), ("hc", "h")] }

/-- `f → h ⇄ hc`, `h → g`; the edge `(h, hc)` is ignored and carries the flow value `q` -/
def winp (q : Rat) : WalkInput :=
  { base := wbase, flow := [(("f", "h"), 1/2), (("h", "hc"), q), (("hc", "h"), 3/2), (("h", "g"), 1/2)],
    ignore := [("h", "hc")], cfg := { k := 1 } }

/-- upper bound of the column `edge(e, 0)` -/
def capOf (lp : LP) (e : Edge) : Option (Option Rat) :=
  (lp.cols.find? (fun c => c.v = edgeVar e 0)).map (·.ub)

/-- `floor(3/2)` (the caps are floored since fix fcfd0b0) -/
theorem cap_small : capOf (klaecLP (winp (3/2))) ("h", "hc") = some (some 1) := by decide +kernel
/-- `floor(7/2)` -/
theorem cap_large : capOf (klaecLP (winp (7/2))) ("h", "hc") = some (some 3) := by decide +kernel

/-- the two inputs agree on every edge that is not ignored -/
theorem agree_off_ignored : ∀ e ∈ (winp (3/2)).activeEdges true,
    (winp (7/2)).flow.lookup e = (winp (3/2)).flow.lookup e := by decide +kernel

theorem klaec_ignored_flow_matters : klaecLP (winp (3/2)) ≠ klaecLP (winp (7/2)) := by
  intro h
  have h1 := cap_small
  rw [h, cap_large] at h1
  exact absurd h1 (by decide +kernel)

/-! ## ignoring the edge of largest flow makes the LP infeasible -/

def zbase : Graph := { nodes := ["s", "d", "u0"], edges := [("s", "s"), ("s", "u0"), ("d", "s")] }

/-- `d → s → u0` with a self-loop at `s`; flows 1, 0, 0 -/
def zinp (ign : List Edge) : WalkInput :=
  { base := zbase, flow := [(("d", "s"), 1), (("s", "s"), 0), (("s", "u0"), 0)], ignore := ign,
    weightInt := true, cfg := { k := 1 } }

theorem zinp_wmax : (zinp [("s", "s"), ("d", "s")]).wmax true = 0 := by decide +kernel

theorem klaec_infeasible_after_ignoring (a : Asg) :
    ¬ Sat a (klaecLP (zinp [("s", "s"), ("d", "s")])) := by
  intro hsat
  -- 17a: the walk leaves the source
  have r1 := hsat.2 (rowEq [(1, edgeVar ("source", "d") 0)] 1) (by decide +kernel)
  -- 17b at d and at s
  have r2 := hsat.2 (rowEq ([(1, edgeVar ("source", "d") 0)] ++ negTerms [(1, edgeVar ("d", "s") 0)]) 0)
    (by decide +kernel)
  have r3 := hsat.2 (rowEq ([(1, edgeVar ("s", "s") 0), (1, edgeVar ("d", "s") 0)]
    ++ negTerms [(1, edgeVar ("s", "s") 0), (1, edgeVar ("s", "u0") 0)]) 0) (by decide +kernel)
  -- the `int_eq` row of the product block of the only non-ignored edge: zero bits
  have r4 := hsat.2 (rowEq [(-1, edgeVar ("s", "u0") 0)] 0) (by decide +kernel)
  have e1 := r1.1 1 rfl
  have e1' := r1.2 1 rfl
  have e2 := r2.1 0 rfl
  have e2' := r2.2 0 rfl
  have e3 := r3.1 0 rfl
  have e3' := r3.2 0 rfl
  have e4 := r4.1 0 rfl
  have e4' := r4.2 0 rfl
  simp only [rowEq, negTerms, evalTerms, List.map_cons, List.map_nil, List.cons_append, List.nil_append,
    List.sum_cons, List.sum_nil] at e1 e1' e2 e2' e3 e3' e4 e4'
  grind

/-! ## … although the LP before ignoring is feasible -/

/-- executable feasibility check (integrality through `floor`) -/
def rowHoldsB (a : Asg) (r : Row) : Bool :=
  (match r.lo with | none => true | some l => decide (l ≤ evalTerms a r.terms)) &&
  (match r.hi with | none => true | some h => decide (evalTerms a r.terms ≤ h))

def colHoldsB (a : Asg) (c : Col) : Bool :=
  decide (c.lb ≤ a c.v) && (match c.ub with | none => true | some u => decide (a c.v ≤ u)) &&
  (!c.isInt || decide (((a c.v).floor : Rat) = a c.v))

def satB (a : Asg) (lp : LP) : Bool := lp.cols.all (colHoldsB a) && lp.rows.all (rowHoldsB a)

theorem c10_sat_of_satB (a : Asg) (lp : LP) (h : satB a lp = true) : Sat a lp := by
  unfold satB at h
  rw [Bool.and_eq_true, List.all_eq_true, List.all_eq_true] at h
  constructor
  · intro c hc
    have := h.1 c hc
    unfold colHoldsB at this
    simp only [Bool.and_eq_true, Bool.or_eq_true, Bool.not_eq_true', decide_eq_true_eq] at this
    refine ⟨this.1.1, ?_, ?_⟩
    · intro u hu
      have h2 := this.1.2
      rw [hu] at h2
      simpa using h2
    · intro hi
      rcases this.2 with h3 | h3
      · rw [hi] at h3; exact absurd h3 (by decide)
      · exact ⟨(a c.v).floor, h3.symm⟩
  · intro r hr
    have := h.2 r hr
    unfold rowHoldsB at this
    simp only [Bool.and_eq_true] at this
    constructor
    · intro l hl
      have h1 := this.1
      rw [hl] at h1
      simpa using h1
    · intro u hu
      have h2 := this.2
      rw [hu] at h2
      simpa using h2

/-- the walk `d, s, u0` with weight 0 (error 1 on `(d, s)`) -/
def zasg : Asg := fun v =>
  if v ∈ [edgeVar ("source", "d") 0, edgeVar ("d", "s") 0, edgeVar ("s", "u0") 0, edgeVar ("u0", "sink") 0,
          selVar ("source", "d") 0, selVar ("d", "s") 0, selVar ("s", "u0") 0, selVar ("u0", "sink") 0,
          distVar "source" 0, eeVar ("d", "s"),
          bitVar (klaecProdName ("s", "u0") 0) 0, bitVar (klaecProdName ("d", "s") 0) 0] then 1
  else if v = distVar "d" 0 then 2 else if v = distVar "s" 0 then 3 else if v = distVar "u0" 0 then 4
  else if v = distVar "sink" 0 then 5 else 0

theorem klaec_feasible_before_ignoring : Sat zasg (klaecLP (zinp [("s", "s")])) :=
  c10_sat_of_satB _ _ (by decide +kernel)

end FP.C10Witness
