import FP.Model.Enc.KMPEC
import FP.Proofs.KLAEC
import FP.Proofs.WalkCoreComplete
import FP.Proofs.FlowLemmas
/-!
# FP.Proofs.KMPEC — soundness of the `kMinPathErrorCycles` LP (`kmpecLP`)

* the LP split into its blocks (`kmpecLP_eq`, by `rfl`): the walk core with the same repetition caps as
  `kLeastAbsErrorsCycles` (`klaecCore`) and the error block `kmpecErr` (weights, `pi`, slack, `gamma`
  columns, per non-ignored edge the `10_` products `pi = edge·weight` and the `12_` products
  `gamma = edge·slack`, the two slack rows per non-ignored edge, the objective `Σ slack_i`);
* `kmpec_sound_proof`: every satisfying assignment decodes to walks, `pi = w · traversals`,
  `gamma = slack · traversals`, the slack inequality on every non-ignored edge, objective `Σ slack_i`.
-/
namespace FP
open FP.Spec FP.Spec.MPE

/-! ## blocks of the LP -/

/-- per non-ignored edge: the `10_` products of all layers, then the `12_` products of all layers -/
def kmpecProds (inp : WalkInput) : List LP :=
  (inp.activeEdges true).flatMap fun e =>
    [ walkProducts [e] inp.k weightsVar piVar (inp.wmax true) (kmpecProdName "10"),
      walkProducts [e] inp.k slackVar gammaVar (inp.wmax true) (kmpecProdName "12") ]

/-- `_encode_minpatherror_decomposition` and `_encode_objective` -/
def kmpecErr (inp : WalkInput) : LP :=
  { cols := ((List.range inp.k).map fun i =>
        { v := weightsVar i, lb := 0, ub := some (inp.wmax true), isInt := inp.weightInt })
      ++ ((List.range inp.k).flatMap fun i => inp.st.g.edges.map fun e =>
        { v := piVar e i, lb := 0, ub := some (inp.wmax true), isInt := inp.weightInt })
      ++ ((List.range inp.k).map fun i =>
        { v := slackVar i, lb := 0, ub := some (inp.wmax true), isInt := inp.weightInt })
      ++ ((List.range inp.k).flatMap fun i => inp.st.g.edges.map fun e =>
        { v := gammaVar e i, lb := 0, ub := some (inp.wmax true), isInt := false })
      ++ (kmpecProds inp).flatMap (·.cols),
    rows := (kmpecProds inp).flatMap (·.rows)
      ++ (inp.activeEdges true).flatMap fun e =>
        [ rowLe (((List.range inp.k).map fun i => (-(inp.scale e), piVar e i))
            ++ negTerms (ones (List.range inp.k) (gammaVar e))) (-(inp.f e * inp.scale e)),
          rowGe (((List.range inp.k).map fun i => (-(inp.scale e), piVar e i))
            ++ ones (List.range inp.k) (gammaVar e)) (-(inp.f e * inp.scale e)) ],
    obj := ones (List.range inp.k) slackVar }

theorem kmpecLP_eq (inp : WalkInput) : kmpecLP inp = (klaecCore inp).append (kmpecErr inp) := rfl

/-- the solver's objective at an assignment: `Σ_i slack_i` -/
theorem kmpecLP_obj (inp : WalkInput) (a : Asg) :
    evalTerms a (kmpecLP inp).obj = totalSlack inp.k (fun i => a (slackVar i)) := by
  show evalTerms a (ones (List.range inp.k) slackVar) = _
  unfold totalSlack
  rw [evalTerms_ones]

/-- columns and rows collected from a list of fragments hold iff every fragment is satisfied -/
theorem kmpec_sat_flatMap_lps (a : Asg) (l : List LP) :
    ((∀ c ∈ l.flatMap (·.cols), c.holds a) ∧ (∀ r ∈ l.flatMap (·.rows), r.holds a)) ↔
      ∀ p ∈ l, Sat a p := by
  constructor
  · intro h p hp
    exact ⟨fun c hc => h.1 c (List.mem_flatMap.2 ⟨p, hp, hc⟩),
           fun r hr => h.2 r (List.mem_flatMap.2 ⟨p, hp, hr⟩)⟩
  · intro h
    constructor
    · intro c hc
      obtain ⟨p, hp, hc⟩ := List.mem_flatMap.1 hc
      exact (h p hp).1 c hc
    · intro r hr
      obtain ⟨p, hp, hr⟩ := List.mem_flatMap.1 hr
      exact (h p hp).2 r hr

/-- every fragment of `kmpecProds` is satisfied iff every single product block is -/
theorem kmpec_sat_prods_iff (a : Asg) (inp : WalkInput) :
    (∀ p ∈ kmpecProds inp, Sat a p) ↔
      ∀ e ∈ inp.activeEdges true, ∀ i, i < inp.k →
        Sat a (intProdQ (edgeVar e i) (weightsVar i) (piVar e i) 0 (inp.wmax true) (kmpecProdName "10" e i)) ∧
        Sat a (intProdQ (edgeVar e i) (slackVar i) (gammaVar e i) 0 (inp.wmax true) (kmpecProdName "12" e i)) := by
  constructor
  · intro h e he i hi
    have h1 := h (walkProducts [e] inp.k weightsVar piVar (inp.wmax true) (kmpecProdName "10"))
      (List.mem_flatMap.2 ⟨e, he, by simp⟩)
    have h2 := h (walkProducts [e] inp.k slackVar gammaVar (inp.wmax true) (kmpecProdName "12"))
      (List.mem_flatMap.2 ⟨e, he, by simp⟩)
    exact ⟨(klaec_sat_walkProducts_iff a _ _ _ _ _ _).1 h1 e (by simp) i hi,
           (klaec_sat_walkProducts_iff a _ _ _ _ _ _).1 h2 e (by simp) i hi⟩
  · intro h p hp
    obtain ⟨e, he, hp⟩ := List.mem_flatMap.1 hp
    simp only [List.mem_cons, List.not_mem_nil, or_false] at hp
    rcases hp with rfl | rfl
    · apply (klaec_sat_walkProducts_iff a _ _ _ _ _ _).2
      intro e' he' i hi
      rw [List.mem_singleton.1 he']
      exact (h e he i hi).1
    · apply (klaec_sat_walkProducts_iff a _ _ _ _ _ _).2
      intro e' he' i hi
      rw [List.mem_singleton.1 he']
      exact (h e he i hi).2

/-- `Σ_i (−s)·pi(e,i)` -/
theorem kmpec_evalTerms_scaledPi (a : Asg) (k : Nat) (sc : Rat) (e : Edge) :
    evalTerms a ((List.range k).map fun i => (-sc, piVar e i))
      = -(sc * ((List.range k).map fun i => a (piVar e i)).sum) := by
  rw [evalTerms_map, sum_map_mul_left_p04]
  grind

/-! ## what a satisfying assignment says -/

section Sound
variable {inp : WalkInput} {a : Asg}

theorem kmpec_sat_enc (h : Sat a (kmpecLP inp)) : Sat a (encodeWalks inp.st inp.cfg (klaecCap inp)) :=
  sat_append_left a _ _ (sat_append_left a _ _ h)

theorem kmpec_weights_col (h : Sat a (kmpecLP inp)) {i : Nat} (hi : i < inp.k) :
    0 ≤ a (weightsVar i) ∧ a (weightsVar i) ≤ inp.wmax true ∧
      (inp.weightInt = true → IsInt (a (weightsVar i))) := by
  have := (sat_append_right a _ _ h).1
    { v := weightsVar i, lb := 0, ub := some (inp.wmax true), isInt := inp.weightInt }
    (List.mem_append_left _ (List.mem_append_left _ (List.mem_append_left _ (List.mem_append_left _
      (List.mem_map.2 ⟨i, List.mem_range.2 hi, rfl⟩)))))
  exact ⟨this.1, this.2.1 _ rfl, this.2.2⟩

theorem kmpec_slack_col (h : Sat a (kmpecLP inp)) {i : Nat} (hi : i < inp.k) :
    0 ≤ a (slackVar i) ∧ a (slackVar i) ≤ inp.wmax true ∧
      (inp.weightInt = true → IsInt (a (slackVar i))) := by
  have := (sat_append_right a _ _ h).1
    { v := slackVar i, lb := 0, ub := some (inp.wmax true), isInt := inp.weightInt }
    (List.mem_append_left _ (List.mem_append_left _ (List.mem_append_right _
      (List.mem_map.2 ⟨i, List.mem_range.2 hi, rfl⟩))))
  exact ⟨this.1, this.2.1 _ rfl, this.2.2⟩

theorem kmpec_pi_col (h : Sat a (kmpecLP inp)) {i : Nat} (hi : i < inp.k) {e : Edge}
    (he : e ∈ inp.st.g.edges) : a (piVar e i) ≤ inp.wmax true := by
  have := (sat_append_right a _ _ h).1
    { v := piVar e i, lb := 0, ub := some (inp.wmax true), isInt := inp.weightInt }
    (List.mem_append_left _ (List.mem_append_left _ (List.mem_append_left _ (List.mem_append_right _
      (List.mem_flatMap.2 ⟨i, List.mem_range.2 hi, List.mem_map.2 ⟨e, he, rfl⟩⟩)))))
  exact this.2.1 _ rfl

theorem kmpec_gamma_col (h : Sat a (kmpecLP inp)) {i : Nat} (hi : i < inp.k) {e : Edge}
    (he : e ∈ inp.st.g.edges) : a (gammaVar e i) ≤ inp.wmax true := by
  have := (sat_append_right a _ _ h).1
    { v := gammaVar e i, lb := 0, ub := some (inp.wmax true), isInt := false }
    (List.mem_append_left _ (List.mem_append_right _
      (List.mem_flatMap.2 ⟨i, List.mem_range.2 hi, List.mem_map.2 ⟨e, he, rfl⟩⟩)))
  exact this.2.1 _ rfl

theorem kmpec_sat_prods (h : Sat a (kmpecLP inp)) : ∀ p ∈ kmpecProds inp, Sat a p := by
  have hf := sat_append_right a _ _ h
  exact (kmpec_sat_flatMap_lps a _).1
    ⟨fun c hc => hf.1 c (List.mem_append_right _ hc), fun r hr => hf.2 r (List.mem_append_left _ hr)⟩

theorem kmpec_prod_eq (h : Sat a (kmpecLP inp)) {i : Nat} (hi : i < inp.k) {e : Edge}
    (he : e ∈ inp.activeEdges true) :
    a (piVar e i) = a (edgeVar e i) * a (weightsVar i) ∧
    a (gammaVar e i) = a (edgeVar e i) * a (slackVar i) := by
  have hw := kmpec_weights_col h hi
  have hs := kmpec_slack_col h hi
  obtain ⟨h1, h2⟩ := (kmpec_sat_prods_iff a inp).1 (kmpec_sat_prods h) e he i hi
  exact ⟨intProdQ_sound a _ _ _ 0 (inp.wmax true) _ ⟨hw.1, hw.2.1⟩ h1,
         intProdQ_sound a _ _ _ 0 (inp.wmax true) _ ⟨hs.1, hs.2.1⟩ h2⟩

theorem kmpec_err_rows (h : Sat a (kmpecLP inp)) {e : Edge} (he : e ∈ inp.activeEdges true) :
    (inp.f e - ((List.range inp.k).map fun i => a (piVar e i)).sum) * inp.scale e
      ≤ ((List.range inp.k).map fun i => a (gammaVar e i)).sum ∧
    -((List.range inp.k).map fun i => a (gammaVar e i)).sum
      ≤ (inp.f e - ((List.range inp.k).map fun i => a (piVar e i)).sum) * inp.scale e := by
  have hrows := (sat_append_right a _ _ h).2
  have h1 := (hrows (rowLe (((List.range inp.k).map fun i => (-(inp.scale e), piVar e i))
      ++ negTerms (ones (List.range inp.k) (gammaVar e))) (-(inp.f e * inp.scale e)))
    (List.mem_append_right _ (List.mem_flatMap.2 ⟨e, he, by simp⟩))).2 _ rfl
  have h2 := (hrows (rowGe (((List.range inp.k).map fun i => (-(inp.scale e), piVar e i))
      ++ ones (List.range inp.k) (gammaVar e)) (-(inp.f e * inp.scale e)))
    (List.mem_append_right _ (List.mem_flatMap.2 ⟨e, he, by simp⟩))).1 _ rfl
  simp only [rowLe, rowGe, evalTerms_append, evalTerms_negTerms, evalTerms_ones, kmpec_evalTerms_scaledPi]
    at h1 h2
  constructor <;> grind

end Sound

/-- **soundness of the `kMinPathErrorCycles` LP.** -/
theorem kmpec_sound_proof (inp : WalkInput) (a : Asg) (h : BaseWF inp.base) (hsat : Sat a (kmpecLP inp)) :
    (∀ i, i < inp.k →
        (0 ≤ a (weightsVar i) ∧ a (weightsVar i) ≤ inp.wmax true ∧
          (inp.weightInt = true → IsInt (a (weightsVar i)))) ∧
        (0 ≤ a (slackVar i) ∧ a (slackVar i) ≤ inp.wmax true ∧
          (inp.weightInt = true → IsInt (a (slackVar i))))) ∧
    (∀ i, i < inp.k →
        (decodeWalkLayer inp.st a i = [] → inp.cfg.allowEmpty = true) ∧
        (decodeWalkLayer inp.st a i ≠ [] →
          ValidRoute inp.base inp.starts inp.ends (decodeWalkLayer inp.st a i))) ∧
    (∀ i, i < inp.k → ∀ e ∈ inp.st.g.edges,
        traversals (inp.st.source :: decodeWalkLayer inp.st a i ++ [inp.st.sink]) e = multOf a i e ∧
        a (edgeVar e i) = (multOf a i e : Rat) ∧ (multOf a i e : Rat) ≤ klaecCap inp e) ∧
    (∀ e ∈ inp.activeEdges true, ∀ i, i < inp.k →
        a (piVar e i) = a (weightsVar i) * (multOf a i e : Rat) ∧
        a (gammaVar e i) = a (slackVar i) * (multOf a i e : Rat) ∧
        a (piVar e i) ≤ inp.wmax true ∧ a (gammaVar e i) ≤ inp.wmax true) ∧
    (∀ e ∈ inp.activeEdges true,
        MPEC.SlackOK inp (decodeWalkLayer inp.st a) (fun i => a (weightsVar i))
          (fun i => a (slackVar i)) e) ∧
    evalTerms a (kmpecLP inp).obj = totalSlack inp.k (fun i => a (slackVar i)) := by
  have henc := kmpec_sat_enc hsat
  obtain ⟨hroutes, hlayer⟩ := klaec_layers inp a h henc
  have hprod : ∀ e ∈ inp.activeEdges true, ∀ i, i < inp.k →
      a (piVar e i) = a (weightsVar i) * (multOf a i e : Rat) ∧
      a (gammaVar e i) = a (slackVar i) * (multOf a i e : Rat) ∧
      a (piVar e i) ≤ inp.wmax true ∧ a (gammaVar e i) ≤ inp.wmax true := by
    intro e he i hi
    have hee : e ∈ inp.st.g.edges := (List.mem_filter.1 he).1
    obtain ⟨h1, h2⟩ := kmpec_prod_eq hsat hi he
    refine ⟨?_, ?_, kmpec_pi_col hsat hi hee, kmpec_gamma_col hsat hi hee⟩
    · rw [h1, (hlayer i hi e hee).2.1]; grind
    · rw [h2, (hlayer i hi e hee).2.1]; grind
  refine ⟨fun i hi => ⟨kmpec_weights_col hsat hi, kmpec_slack_col hsat hi⟩, hroutes, hlayer, hprod, ?_,
    kmpecLP_obj inp a⟩
  intro e he
  have hee : e ∈ inp.st.g.edges := (List.mem_filter.1 he).1
  have hsumW : ((List.range inp.k).map fun i => a (piVar e i)).sum
      = walkExplained inp.st.source inp.st.sink inp.k (decodeWalkLayer inp.st a)
          (fun i => a (weightsVar i)) e := by
    unfold walkExplained
    apply sum_map_congr
    intro i hi
    have hi' := List.mem_range.1 hi
    rw [(hprod e he i hi').1, (hlayer i hi' e hee).1]
  have hsumS : ((List.range inp.k).map fun i => a (gammaVar e i)).sum
      = walkExplained inp.st.source inp.st.sink inp.k (decodeWalkLayer inp.st a)
          (fun i => a (slackVar i)) e := by
    unfold walkExplained
    apply sum_map_congr
    intro i hi
    have hi' := List.mem_range.1 hi
    rw [(hprod e he i hi').2.1, (hlayer i hi' e hee).1]
  obtain ⟨h1, h2⟩ := kmpec_err_rows hsat he
  rw [hsumW, hsumS] at h1 h2
  have hG : 0 ≤ walkExplained inp.st.source inp.st.sink inp.k (decodeWalkLayer inp.st a)
      (fun i => a (slackVar i)) e := by
    unfold walkExplained
    apply sum_map_nonneg
    intro i hi
    exact Rat.mul_nonneg (kmpec_slack_col hsat (List.mem_range.1 hi)).1 Rat.natCast_nonneg
  unfold MPEC.SlackOK
  generalize walkExplained inp.st.source inp.st.sink inp.k (decodeWalkLayer inp.st a)
    (fun i => a (weightsVar i)) e = S at *
  generalize walkExplained inp.st.source inp.st.sink inp.k (decodeWalkLayer inp.st a)
    (fun i => a (slackVar i)) e = G at *
  unfold Rat.abs; split <;> grind

end FP
