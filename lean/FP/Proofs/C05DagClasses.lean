import FP.Proofs.C05DagOpt
import FP.Proofs.KFD
import FP.Proofs.Cover
import FP.Proofs.Wrapper
/-!
# FP.Proofs.C05DagClasses — the generic theorem instantiated for `kPathCover` and `kFlowDecomp`

For both classes "every trusted edge is used by some path of every solution" is derived from the LP itself:
`kPathCover` has the row `Σ_i x(e,i) ≥ 1` for every edge that is not ignored (the trusted set), `kFlowDecomp` has
`Σ_i pi(e,i) = f(e) ≠ 0` with `pi(e,i) = x(e,i)·w_i` for every non-ignored edge of non-zero flow (the trusted set).
-/
namespace FP
open FP.Spec FP.Safety

/-! ## `kPathCover` -/

/-- the class-specific part of `kPathCover`: the cover rows (no objective) -/
def kcoverRest (inp : FlowInput) : LP :=
  { rows := (inp.activeEdges.filter fun e => !coverSkipped inp e).map fun e =>
      rowGe (ones (List.range inp.cfg.k) (edgeVar e)) 1 }

theorem c05d_kcoverLP_form (inp : FlowInput) : kcoverLP inp = (encodePaths inp.st inp.cfg).append (kcoverRest inp) := rfl

theorem c05d_kcoverLPS_form (inp : FlowInput) (fr : PathSafetyFrag) :
    kcoverLPS inp fr = (pathCoreS inp.st inp.cfg fr).append (kcoverRest inp) := rfl

theorem c05d_kcoverRest_noR (inp : FlowInput) : RestNoR (kcoverRest inp) := by
  refine ⟨fun col hc => by simp [kcoverRest] at hc, ?_, fun t ht => by simp [kcoverRest] at ht⟩
  intro r hr
  obtain ⟨e, _, rfl⟩ := List.mem_map.1 hr
  exact c10_terms_ones_noR _ _ (fun _ => rfl)

/-- a binary variable that is not zero is one -/
theorem c05d_bin_one {q : Rat} (h : q = 0 ∨ q = 1) (hne : q ≠ 0) : q = 1 := h.resolve_left hne

/-- every non-ignored edge is used by some layer of every solution of the cover LP -/
theorem c05d_kcover_uses (inp : FlowInput) (a : Asg) (hsat : Sat a (kcoverLP inp)) :
    ∀ x ∈ kcoverTrusted inp, ∃ i, i < inp.cfg.k ∧ a (edgeVar x i) = 1 := by
  intro x hx
  have henc : Sat a (encodePaths inp.st inp.cfg) := sat_append_left a _ _ hsat
  have hsum := cover_rows inp a hsat x hx
  have hne : ((List.range inp.cfg.k).map fun i => a (edgeVar x i)).sum ≠ 0 := by
    intro h0; rw [h0] at hsum; exact absurd hsum (by decide)
  obtain ⟨i, hi, hxi⟩ := exists_ne_zero_of_sum_ne_zero _ _ hne
  have hik := List.mem_range.1 hi
  have hbin := (layerFacts_of_sat inp.st inp.cfg a henc i hik).bin x (mem_activeEdges inp x hx)
  exact ⟨i, hik, c05d_bin_one hbin hxi⟩

theorem c05d_kcover_preserves (inp : FlowInput) (hb : BaseWF inp.base) (hac : Acyclic inp.base)
    (D : ConstraintDomain inp.st inp.cfg) (X : List Edge) (hX : ∀ x ∈ X, x ∈ kcoverTrusted inp)
    (o : PathSafetyOpts) (fr : PathSafetyFrag) (h : pathSafetyPipeline inp.st inp.cfg X none o = .ok fr) :
    ((∃ a, Sat a (kcoverLP inp)) ↔ (∃ a, Sat a (kcoverLPS inp fr))) ∧
    (∀ v, IsMin (fun a => Sat a (kcoverLP inp)) (fun a => evalTerms a (kcoverLP inp).obj) v ↔
      IsMin (fun a => Sat a (kcoverLPS inp fr)) (fun a => evalTerms a (kcoverLPS inp fr).obj) v) := by
  have hwf : STWF inp.st := augment_wf inp.base inp.starts inp.ends hb hac
  rw [c05d_kcoverLP_form, c05d_kcoverLPS_form]
  exact c05d_generic_preserves hwf D (kcoverRest inp) (c05d_kcoverRest_noR inp) X
    (fun x hx => mem_activeEdges inp x (hX x hx))
    (fun a hsat x hx => c05d_kcover_uses inp a hsat x (hX x hx)) none
    (fun _ _ l hl => by cases hl) o fr h

/-! ## `kFlowDecomp` (no given weights) -/

/-- the class-specific part of `kFlowDecomp`: `pi` and `w` columns, McCormick rows, flow rows (no objective) -/
def kfdRest (inp : FlowInput) : LP :=
  let s := inp.st
  let k := inp.cfg.k
  let wm := inp.wmax
  { cols := ((List.range k).flatMap fun i => s.g.edges.map fun e =>
        { v := piVar e i, lb := 0, ub := some wm, isInt := inp.weightInt })
      ++ (List.range k).map fun i => { v := wVar i, lb := 0, ub := some wm, isInt := inp.weightInt },
    rows := coupleBin inp.activeEdges k piVar wVar wm
      ++ inp.activeEdges.map fun e => rowEq (ones (List.range k) (piVar e)) (inp.f e) }

theorem c05d_kfdLP_form (inp : FlowInput) : kfdLP inp = (encodePaths inp.st inp.cfg).append (kfdRest inp) := rfl

theorem c05d_kfdLPS_form (inp : FlowInput) (lists : List (List Edge)) (o : PathSafetyOpts) :
    kfdLPS inp (pathSafetyExtra lists o) =
      (pathCoreS inp.st inp.cfg (pathSafetyExtra lists o)).append (kfdRest inp) := by
  simp only [kfdLPS, kfdRest, (c05d_extra_fields lists o).2.1, (c05d_extra_fields lists o).2.2.1,
    c05d_coupleBinS_nil]

theorem c05d_kfdRest_noR (inp : FlowInput) : RestNoR (kfdRest inp) := by
  refine ⟨?_, ?_, fun t ht => by simp [kfdRest] at ht⟩
  · intro col hc
    simp only [kfdRest] at hc
    rcases List.mem_append.1 hc with h | h
    · obtain ⟨i, _, h⟩ := List.mem_flatMap.1 h
      obtain ⟨e, _, rfl⟩ := List.mem_map.1 h
      rfl
    · obtain ⟨i, _, rfl⟩ := List.mem_map.1 h
      rfl
  · intro r hr
    simp only [kfdRest] at hr
    rcases List.mem_append.1 hr with h | h
    · obtain ⟨e, _, h⟩ := List.mem_flatMap.1 h
      obtain ⟨i, _, h⟩ := List.mem_flatMap.1 h
      simp only [binProd, List.mem_cons, List.not_mem_nil, or_false] at h
      intro t ht
      rcases h with rfl | rfl | rfl | rfl <;>
        (simp only [rowLe, rowGe, List.mem_cons, List.not_mem_nil, or_false] at ht
         rcases ht with rfl | rfl | rfl <;> rfl)
    · obtain ⟨e, _, rfl⟩ := List.mem_map.1 h
      exact c10_terms_ones_noR _ _ (fun _ => rfl)

/-- every non-ignored edge of non-zero flow is used by some layer of every solution of the decomposition LP -/
theorem c05d_kfd_uses (inp : FlowInput) (a : Asg) (hsat : Sat a (kfdLP inp)) :
    ∀ x ∈ kfdTrusted inp, ∃ i, i < inp.cfg.k ∧ a (edgeVar x i) = 1 := by
  intro x hx
  obtain ⟨he, hf⟩ := List.mem_filter.1 hx
  have hf' : inp.f x ≠ 0 := by simpa using hf
  have hee := mem_activeEdges inp x he
  have henc : Sat a (encodePaths inp.st inp.cfg) := sat_append_left a _ _ hsat
  obtain ⟨hcols, hrows⟩ := sat_append_right a _ _ hsat
  simp only at hcols hrows
  have hw : ∀ i, i < inp.cfg.k → 0 ≤ a (wVar i) ∧ a (wVar i) ≤ inp.wmax := by
    intro i hi
    have := hcols { v := wVar i, lb := 0, ub := some inp.wmax, isInt := inp.weightInt }
      (List.mem_append_right _ (List.mem_map.2 ⟨i, List.mem_range.2 hi, rfl⟩))
    exact ⟨this.1, this.2.1 _ rfl⟩
  have hrow := hrows (rowEq (ones (List.range inp.cfg.k) (piVar x)) (inp.f x))
    (List.mem_append_right _ (List.mem_map.2 ⟨x, he, rfl⟩))
  have hlo := hrow.1 _ rfl
  have hhi := hrow.2 _ rfl
  simp only [rowEq, evalTerms_ones] at hlo hhi
  have hsum : ((List.range inp.cfg.k).map fun i => a (piVar x i)).sum = inp.f x := Rat.le_antisymm hhi hlo
  have hne : ((List.range inp.cfg.k).map fun i => a (piVar x i)).sum ≠ 0 := by rw [hsum]; exact hf'
  obtain ⟨i, hi, hpi⟩ := exists_ne_zero_of_sum_ne_zero _ _ hne
  have hik := List.mem_range.1 hi
  have hbin := (layerFacts_of_sat inp.st inp.cfg a henc i hik).bin x hee
  have hprod := (binProd_exact a (edgeVar x i) (wVar i) (piVar x i) 0 inp.wmax hbin (hw i hik)).1
    (fun r hr => hrows r (List.mem_append_left _ (List.mem_flatMap.2 ⟨x, he,
      List.mem_flatMap.2 ⟨i, hi, hr⟩⟩)))
  refine ⟨i, hik, c05d_bin_one hbin ?_⟩
  intro h0
  rw [hprod, h0, Rat.zero_mul] at hpi
  exact hpi rfl

/-- the externally supplied lists (flow-safe paths) lie in some layer of every solution -/
def ExternalInLayers (inp : FlowInput) (external : Option (List (List Edge))) : Prop :=
  ∀ a, Sat a (kfdLP inp) → ∀ l, external = some l → ∀ q ∈ l, SomeLayerHas inp.st a inp.cfg.k q

theorem c05d_kfd_preserves (inp : FlowInput) (hb : BaseWF inp.base) (hac : Acyclic inp.base)
    (D : ConstraintDomain inp.st inp.cfg) (X : List Edge) (hX : ∀ x ∈ X, x ∈ kfdTrusted inp)
    (external : Option (List (List Edge))) (hext : ExternalInLayers inp external)
    (o : PathSafetyOpts) (fr : PathSafetyFrag) (h : pathSafetyPipeline inp.st inp.cfg X external o = .ok fr) :
    (∃ a, Sat a (kfdLP inp)) ↔ (∃ a, Sat a (kfdLPS inp fr)) := by
  have hwf : STWF inp.st := augment_wf inp.base inp.starts inp.ends hb hac
  obtain ⟨lists, hl, hfr⟩ := c05d_pipeline_frag inp.st inp.cfg X external o fr h
  have hg := c05d_generic_preserves hwf D (kfdRest inp) (c05d_kfdRest_noR inp) X
    (fun x hx => mem_activeEdges inp x (List.mem_filter.1 (hX x hx)).1)
    (fun a hsat x hx => c05d_kfd_uses inp a hsat x (hX x hx)) external hext o fr h
  subst hfr
  rw [c05d_kfdLP_form, c05d_kfdLPS_form]
  exact hg.1

end FP
