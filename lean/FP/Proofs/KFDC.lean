import FP.Model.Enc.KFDC
import FP.Model.WalkDecode
import FP.Spec.WalkDecomp
import FP.Proofs.WalkCore
import FP.Proofs.Wrapper
/-!
# FP.Proofs.KFDC — soundness of the `kFlowDecompCycles` LP (`kfdcLP`)

* the LP split into its blocks (`kfdcLP_none`, `kfdcLP_some`, all by `rfl`);
* `prodFrag`: the common shape of `intProd` / `intProdQ` for any number of bits; its soundness
  (`intProdQ_sound`) does not depend on the number of bits nor on the bound being a natural number;
* the repetition caps (`kfdcCap`, `kfdcCap_eq`);
* `kfdc_exact_proof`: every satisfying assignment decodes to walks and weights that explain every
  non-ignored edge exactly.
-/
namespace FP
open FP.Spec

/-! ## blocks of the LP -/

/-- `edge_upper_bounds[e]` as the encoder uses it -/
def kfdcCap (inp : WalkInput) (e : Edge) : Rat := lookupD (kfdcBounds inp) e 1

/-- `create_solver_and_walks` of the class -/
def kfdcCore (inp : WalkInput) : LP := walkCore inp.st inp.cfg (kfdcCap inp)

/-- `_encode_flow_decomposition` -/
def kfdcFlow (inp : WalkInput) : LP :=
  let prods := walkProducts (inp.activeEdges false) inp.k weightsVar piVar (inp.wmax false) kfdcProdName
  { cols := ((List.range inp.k).flatMap fun i => inp.st.g.edges.map fun e =>
        { v := piVar e i, lb := 0, ub := some (inp.wmax false), isInt := inp.weightInt })
      ++ ((List.range inp.k).map fun i =>
        { v := weightsVar i, lb := 0, ub := some (inp.wmax false), isInt := inp.weightInt })
      ++ prods.cols,
    rows := prods.rows
      ++ (inp.activeEdges false).map fun e => rowEq (ones (List.range inp.k) (piVar e)) (inp.f e) }

/-- `_encode_given_weights` -/
def kfdcGiven (inp : WalkInput) (ws : List Rat) : LP :=
  { rows := (List.range ws.length).map fun i => rowEq [(1, weightsVar i)] (ws.getD i 0),
    obj := inp.st.g.edges.flatMap fun e => (List.range inp.k).map fun i => ((1 : Rat), edgeVar e i) }

theorem kfdcLP_none (inp : WalkInput) : kfdcLP inp none = (kfdcCore inp).append (kfdcFlow inp) := rfl

theorem kfdcLP_some (inp : WalkInput) (ws : List Rat) :
    kfdcLP inp (some ws) = ((kfdcCore inp).append (kfdcFlow inp)).append (kfdcGiven inp ws) := rfl

theorem sat_kfdc_base (inp : WalkInput) (given : Option (List Rat)) (a : Asg)
    (h : Sat a (kfdcLP inp given)) : Sat a ((kfdcCore inp).append (kfdcFlow inp)) := by
  cases given with
  | none => exact h
  | some ws => rw [kfdcLP_some] at h; exact sat_append_left a _ _ h

/-! ## the product fragment for any number of bits -/

/-- the shape shared by `intProd` and both branches of `intProdQ` -/
def prodFrag (n c p : Var) (lb ub : Rat) (name : String) (nb : Nat) : LP :=
  let bits := List.range nb
  { cols := bits.map (fun i => { v := bitVar name i, lb := 0, ub := some 1, isInt := true })
         ++ bits.map (fun i => { v := compVar name i, lb := lb, ub := some ub, isInt := false }),
    rows := [rowEq (bits.map (fun i => (((2:Rat)^i), bitVar name i)) ++ [(-1, n)]) 0]
         ++ bits.flatMap (fun i => binProd (bitVar name i) c (compVar name i) lb ub)
         ++ [rowEq (bits.map (fun i => (((2:Rat)^i), compVar name i)) ++ [(-1, p)]) 0] }

theorem intProd_eq_prodFrag (n c p : Var) (lb : Rat) (ubN : Nat) (name : String) :
    intProd n c p lb ubN name = prodFrag n c p lb ubN name (numBits ubN) := rfl

/-- a rational with denominator one and non-negative numerator is the cast of a natural number -/
theorem rat_eq_natCast_of_den_one (q : Rat) (hd : q.den = 1) (hn : 0 ≤ q.num) :
    q = ((q.num.toNat : Nat) : Rat) := by
  apply Rat.ext
  · rw [Rat.num_natCast]; omega
  · rw [Rat.den_natCast]; exact hd

theorem intProdQ_eq_prodFrag (n c p : Var) (lb ub : Rat) (name : String) :
    ∃ nb, intProdQ n c p lb ub name = prodFrag n c p lb ub name nb := by
  unfold intProdQ
  split
  · rename_i h
    refine ⟨numBits ub.num.toNat, ?_⟩
    rw [intProd_eq_prodFrag, ← rat_eq_natCast_of_den_one ub h.1 h.2]
  · exact ⟨_, rfl⟩

/-- soundness of the fragment: whatever the number of bits, `p = n·c` -/
theorem prodFrag_sound (a : Asg) (n c p : Var) (lb ub : Rat) (name : String) (nb : Nat)
    (hc : lb ≤ a c ∧ a c ≤ ub) (h : Sat a (prodFrag n c p lb ub name nb)) : a p = a n * a c := by
  obtain ⟨hcols, hrows⟩ := h
  simp only [prodFrag] at hcols hrows
  have hbit : ∀ i ∈ List.range nb, a (bitVar name i) = 0 ∨ a (bitVar name i) = 1 := by
    intro i hi
    have := hcols { v := bitVar name i, lb := 0, ub := some 1, isInt := true }
      (List.mem_append_left _ (List.mem_map.2 ⟨i, hi, rfl⟩))
    obtain ⟨h0, h1, hz⟩ := this
    exact int01 _ h0 (h1 1 rfl) (hz rfl)
  have hcomp : ∀ i ∈ List.range nb, a (compVar name i) = a (bitVar name i) * a c := by
    intro i hi
    apply (binProd_exact_aux a (bitVar name i) c (compVar name i) lb ub (hbit i hi) hc).1
    intro r hr
    apply hrows
    apply List.mem_append_left
    apply List.mem_append_right
    exact List.mem_flatMap.2 ⟨i, hi, hr⟩
  have hint := hrows _ (List.mem_append_left _ (List.mem_append_left _ (List.mem_singleton.2 rfl)))
  have hprod := hrows _ (List.mem_append_right _ (List.mem_singleton.2 rfl))
  simp only [Row.holds, rowEq, evalTerms_append, evalTerms_map, evalTerms_single] at hint hprod
  have hint1 := hint.1 0 rfl
  have hint2 := hint.2 0 rfl
  have hprod1 := hprod.1 0 rfl
  have hprod2 := hprod.2 0 rfl
  have hs : ((List.range nb).map (fun i => (2:Rat)^i * a (compVar name i))).sum
      = ((List.range nb).map (fun i => (2:Rat)^i * a (bitVar name i))).sum * a c := by
    rw [← sum_map_mul_right]
    apply sum_map_congr
    intro i hi
    rw [hcomp i hi]; grind
  rw [hs] at hprod1 hprod2
  generalize ((List.range nb).map (fun i => (2:Rat)^i * a (bitVar name i))).sum = S at *
  have hS : S = a n := by grind
  subst hS
  grind

/-- **integer × continuous with a rational bound, soundness** (`add_integer_continuous_product_constraint`
as the walk models call it, `ub = w_max` possibly fractional) -/
theorem intProdQ_sound (a : Asg) (n c p : Var) (lb ub : Rat) (name : String)
    (hc : lb ≤ a c ∧ a c ≤ ub) (h : Sat a (intProdQ n c p lb ub name)) : a p = a n * a c := by
  obtain ⟨nb, hnb⟩ := intProdQ_eq_prodFrag n c p lb ub name
  rw [hnb] at h
  exact prodFrag_sound a n c p lb ub name nb hc h

/-! ## repetition caps -/

theorem lookup_map_self {α β} [BEq α] [LawfulBEq α] (l : List α) (h : α → β) (e : α) (he : e ∈ l) :
    (l.map fun x => (x, h x)).lookup e = some (h e) := by
  induction l with
  | nil => simp at he
  | cons x xs ih =>
    simp only [List.map_cons, List.lookup_cons]
    by_cases hx : e = x
    · subst hx; simp
    · have : (e == x) = false := by simpa using hx
      rw [this]
      exact ih (by simpa [hx] using he)

/-- a natural number below a rational is below its floor -/
theorem natCast_le_floor {n : Nat} {q : Rat} (h : (n : Rat) ≤ q) : (n : Rat) ≤ ((q.floor : Int) : Rat) := by
  have h' : (((n : Nat) : Int) : Rat) ≤ q := by rw [Rat.intCast_natCast]; exact h
  have h2 : (((n : Nat) : Int) : Rat) ≤ ((q.floor : Int) : Rat) :=
    Rat.intCast_le_intCast.2 (Rat.le_floor_iff.2 h')
  rw [Rat.intCast_natCast] at h2; exact h2

/-- flooring a natural number changes nothing (`max_edge_repetition = |E|·|V|` of `kPathCoverCycles`) -/
theorem floor_natCast_cast (n : Nat) : ((((n : Rat)).floor : Int) : Rat) = (n : Rat) := by
  rw [← Rat.intCast_natCast, Rat.floor_intCast]

/-- `edge_upper_bounds[e]` after the loop at the end of the bounds part of `__init__` (floored
since fix fcfd0b0): the floor of the raw value inside an SCC, `1` outside -/
theorem lookupD_capBounds (g : Graph) (raw : Edge → Rat) (e : Edge) (he : e ∈ g.edges) :
    lookupD (capBounds g raw) e 1 = if isSccEdge g e then (((raw e).floor : Int) : Rat) else 1 := by
  unfold lookupD capBounds isSccEdge
  rw [lookup_map_self _ _ e he]
  rfl

theorem lookup_map_self_none {α β} [BEq α] [LawfulBEq α] (l : List α) (h : α → β) (e : α) (he : e ∉ l) :
    (l.map fun x => (x, h x)).lookup e = none := by
  induction l with
  | nil => rfl
  | cons x xs ih =>
    simp only [List.map_cons, List.lookup_cons]
    have hx : e ≠ x := fun hh => he (hh ▸ List.mem_cons_self)
    have : (e == x) = false := by simpa using hx
    rw [this]
    exact ih (fun hm => he (List.mem_cons_of_mem _ hm))

/-- **every repetition bound is an integer** (since fix fcfd0b0), on and off the graph -/
theorem lookupD_capBounds_int (g : Graph) (raw : Edge → Rat) (e : Edge) :
    ∃ z : Int, lookupD (capBounds g raw) e 1 = (z : Rat) := by
  by_cases he : e ∈ g.edges
  · rw [lookupD_capBounds g raw e he]
    by_cases hs : isSccEdge g e = true
    · rw [if_pos hs]; exact ⟨_, rfl⟩
    · rw [if_neg hs]; exact ⟨1, rfl⟩
  · refine ⟨1, ?_⟩
    unfold lookupD capBounds
    rw [lookup_map_self_none _ _ e he]
    rfl

/-- the caps of `kFlowDecompCycles` are integers (a hypothesis before fix fcfd0b0) -/
theorem kfdcCap_int (inp : WalkInput) (e : Edge) : ∃ z : Int, kfdcCap inp e = (z : Rat) :=
  lookupD_capBounds_int _ _ e

/-- the cap of an edge of the augmented graph: the floor of the raw value (own flow value, `w_max`
without the attribute) inside an SCC (floored since fix fcfd0b0), `1` outside -/
theorem kfdcCap_eq (inp : WalkInput) (e : Edge) (he : e ∈ inp.st.g.edges) :
    kfdcCap inp e = if isSccEdge inp.st.g e
      then ((((inp.fOpt e).getD (inp.wmax false)).floor : Int) : Rat) else 1 :=
  lookupD_capBounds _ _ e he

/-! ## what a satisfying assignment says -/

section Sound
variable {inp : WalkInput} {a : Asg}

theorem sat_enc_of_base (h : Sat a ((kfdcCore inp).append (kfdcFlow inp))) :
    Sat a (encodeWalks inp.st inp.cfg (kfdcCap inp)) :=
  sat_append_left a _ _ (sat_append_left a _ _ h)

theorem weights_col (h : Sat a ((kfdcCore inp).append (kfdcFlow inp))) {i : Nat} (hi : i < inp.k) :
    0 ≤ a (weightsVar i) ∧ a (weightsVar i) ≤ inp.wmax false ∧
      (inp.weightInt = true → ∃ z : Int, a (weightsVar i) = z) := by
  have := (sat_append_right a _ _ h).1
    { v := weightsVar i, lb := 0, ub := some (inp.wmax false), isInt := inp.weightInt }
    (List.mem_append_left _ (List.mem_append_right _ (List.mem_map.2 ⟨i, List.mem_range.2 hi, rfl⟩)))
  exact ⟨this.1, this.2.1 _ rfl, this.2.2⟩

theorem edge_cap_col (h : Sat a ((kfdcCore inp).append (kfdcFlow inp))) {i : Nat} (hi : i < inp.k)
    {e : Edge} (he : e ∈ inp.st.g.edges) : a (edgeVar e i) ≤ kfdcCap inp e := by
  have := (sat_enc_of_base h).1
    { v := edgeVar e i, lb := 0, ub := some (kfdcCap inp e), isInt := true }
    (List.mem_append_left _ (List.mem_append_left _
      (List.mem_flatMap.2 ⟨i, List.mem_range.2 hi, List.mem_map.2 ⟨e, he, rfl⟩⟩)))
  exact this.2.1 _ rfl

theorem sat_prod (h : Sat a ((kfdcCore inp).append (kfdcFlow inp))) {i : Nat} (hi : i < inp.k)
    {e : Edge} (he : e ∈ inp.activeEdges false) :
    Sat a (intProdQ (edgeVar e i) (weightsVar i) (piVar e i) 0 (inp.wmax false) (kfdcProdName e i)) := by
  have hf := sat_append_right a _ _ h
  have hpart : intProdQ (edgeVar e i) (weightsVar i) (piVar e i) 0 (inp.wmax false) (kfdcProdName e i)
      ∈ (inp.activeEdges false).flatMap fun e => (List.range inp.k).map fun i =>
        intProdQ (edgeVar e i) (weightsVar i) (piVar e i) 0 (inp.wmax false) (kfdcProdName e i) :=
    List.mem_flatMap.2 ⟨e, he, List.mem_map.2 ⟨i, List.mem_range.2 hi, rfl⟩⟩
  constructor
  · intro c hc
    apply hf.1
    exact List.mem_append_right _ (List.mem_flatMap.2 ⟨_, hpart, hc⟩)
  · intro r hr
    apply hf.2
    exact List.mem_append_left _ (List.mem_flatMap.2 ⟨_, hpart, hr⟩)

theorem pi_eq (h : Sat a ((kfdcCore inp).append (kfdcFlow inp))) {i : Nat} (hi : i < inp.k)
    {e : Edge} (he : e ∈ inp.activeEdges false) :
    a (piVar e i) = a (edgeVar e i) * a (weightsVar i) := by
  have hw := weights_col h hi
  exact intProdQ_sound a _ _ _ 0 (inp.wmax false) _ ⟨hw.1, hw.2.1⟩ (sat_prod h hi he)

theorem row10d (h : Sat a ((kfdcCore inp).append (kfdcFlow inp))) {e : Edge}
    (he : e ∈ inp.activeEdges false) :
    ((List.range inp.k).map fun i => a (piVar e i)).sum = inp.f e := by
  have hrow := (sat_append_right a _ _ h).2
    (rowEq (ones (List.range inp.k) (piVar e)) (inp.f e))
    (List.mem_append_right _ (List.mem_map.2 ⟨e, he, rfl⟩))
  have hlo := hrow.1 _ rfl
  have hhi := hrow.2 _ rfl
  simp only [rowEq, evalTerms_ones] at hlo hhi
  exact Rat.le_antisymm hhi hlo

end Sound

/-- the traversal counts of the decoded walk of a layer are the layer's multiplicities on every
edge of the augmented graph — also for an empty layer -/
theorem layer_traversals (s : STGraph) (c : WalkCfg) (ub : Edge → Rat) (a : Asg) (hwf : STWFc s)
    (hsat : Sat a (encodeWalks s c ub)) (i : Nat) (hi : i < c.k) (e : Edge) (he : e ∈ s.g.edges) :
    traversals (s.source :: decodeWalkLayer s a i ++ [s.sink]) e = multOf a i e := by
  obtain ⟨_, hempty, hwalk⟩ := walkcore_sound s c ub a hwf hsat i hi
  by_cases hex : ∃ v ∈ s.g.succ s.source, multOf a i (s.source, v) ≠ 0
  · rw [hwalk hex e, if_pos he]
  · have h0 : ∀ v ∈ s.g.succ s.source, multOf a i (s.source, v) = 0 := by
      intro v hv
      apply Classical.byContradiction
      intro hm
      exact hex ⟨v, hv, hm⟩
    obtain ⟨_, hnil, hall⟩ := hempty h0
    rw [hnil, hall e he]
    unfold traversals
    apply List.count_eq_zero.2
    have : e ≠ (s.source, s.sink) := fun h => hwf.noDirect (h ▸ he)
    simpa [walkEdges] using this

/-- **T1.** Every satisfying assignment of the `kFlowDecompCycles` LP (with or without given
weights) on a well-formed user digraph: weights within `[0, w_max]` (integral for `weight_type=int`),
multiplicities natural and within the caps, and the decoded walks with the weight variables explain
every non-ignored edge's flow exactly. -/
theorem kfdc_exact_proof (inp : WalkInput) (given : Option (List Rat)) (a : Asg)
    (h : BaseWF inp.base) (hsat : Sat a (kfdcLP inp given)) :
    (∀ i, i < inp.k → 0 ≤ a (weightsVar i) ∧ a (weightsVar i) ≤ inp.wmax false ∧
        (inp.weightInt = true → ∃ z : Int, a (weightsVar i) = z)) ∧
    (∀ i, i < inp.k → ∀ e ∈ inp.st.g.edges,
        traversals (inp.st.source :: decodeWalkLayer inp.st a i ++ [inp.st.sink]) e = multOf a i e ∧
        a (edgeVar e i) = (multOf a i e : Rat) ∧ (multOf a i e : Rat) ≤ kfdcCap inp e) ∧
    IsWalkDecomp inp.st.source inp.st.sink (inp.activeEdges false) inp.f inp.k
      (decodeWalkLayer inp.st a) (fun i => a (weightsVar i)) := by
  have hb := sat_kfdc_base inp given a hsat
  have henc := sat_enc_of_base hb
  have hwf : STWFc inp.st := augment_wfc inp.base inp.starts inp.ends h
  have hlayer : ∀ i, i < inp.k → ∀ e ∈ inp.st.g.edges,
      traversals (inp.st.source :: decodeWalkLayer inp.st a i ++ [inp.st.sink]) e = multOf a i e ∧
      a (edgeVar e i) = (multOf a i e : Rat) ∧ (multOf a i e : Rat) ≤ kfdcCap inp e := by
    intro i hi e he
    have hcol := edge_col henc hi he
    refine ⟨layer_traversals inp.st inp.cfg _ a hwf henc i hi e he, hcol, ?_⟩
    rw [← hcol]; exact edge_cap_col hb hi he
  refine ⟨fun i hi => weights_col hb hi, hlayer, ?_⟩
  intro e he
  have hee : e ∈ inp.st.g.edges := (List.mem_filter.1 he).1
  unfold walkExplained
  rw [← row10d hb he]
  apply sum_map_congr
  intro i hi
  have hi' := List.mem_range.1 hi
  rw [pi_eq hb hi' he, (hlayer i hi' e hee).1, (hlayer i hi' e hee).2.1]
  grind

/-- with given weights the first `|ws|` weight variables are the given numbers -/
theorem kfdc_given_weights_proof (inp : WalkInput) (ws : List Rat) (a : Asg)
    (hsat : Sat a (kfdcLP inp (some ws))) (i : Nat) (hi : i < ws.length) :
    a (weightsVar i) = ws.getD i 0 := by
  rw [kfdcLP_some] at hsat
  have hrow := (sat_append_right a _ _ hsat).2 (rowEq [(1, weightsVar i)] (ws.getD i 0))
    (List.mem_map.2 ⟨i, List.mem_range.2 hi, rfl⟩)
  have hlo := hrow.1 _ rfl
  have hhi := hrow.2 _ rfl
  simp only [rowEq, evalTerms_single] at hlo hhi
  grind

end FP
