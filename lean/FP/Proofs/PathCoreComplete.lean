import FP.Proofs.RouteFacts
/-!
# FP.Proofs.PathCoreComplete — completeness of `_encode_paths`

Every family of `k` routes (simple source-to-sink paths of the augmented graph, or unused layers
when empty paths are allowed) is represented by a satisfying assignment of `encodePaths`: the
indicator of the routes on the edge columns and, when positions are encoded, the prefix / total
edge counts on the position and path-length columns.

Scope: no subpath constraints (`constraints = []`) and unit edge lengths (`lengths = none`).
-/
namespace FP
open FP.Spec

theorem sat_append_p07 (a : Asg) (A B : LP) (hA : Sat a A) (hB : Sat a B) : Sat a (A.append B) := by
  refine ⟨fun c hc => ?_, fun r hr => ?_⟩
  · rcases List.mem_append.1 (by simpa [LP.append] using hc) with h | h
    · exact hA.1 c h
    · exact hB.1 c h
  · rcases List.mem_append.1 (by simpa [LP.append] using hr) with h | h
    · exact hA.2 r h
    · exact hB.2 r h

theorem sat_empty_p07 (a : Asg) : Sat a {} :=
  ⟨fun _ hc => absurd hc List.not_mem_nil, fun _ hr => absurd hr List.not_mem_nil⟩

theorem isInt_natCast (n : Nat) : IsInt (n : Rat) := ⟨n, (Rat.intCast_natCast n).symm⟩

theorem walkEdges_length (l : List Node) : (walkEdges l).length = l.length - 1 := by
  unfold walkEdges
  rw [List.length_zip, List.length_tail]; omega

section
variable {s : STGraph} {ae : Bool} {p : List Node}

theorem full_nodes_mem (hwf : STWF s) (hp : p ≠ []) (hwalk : IsWalkIn s.g (full s p)) :
    ∀ v ∈ full s p, v ∈ s.g.nodes := by
  intro v hv
  have hfull : full s p = s.source :: (p ++ [s.sink]) := rfl
  rw [hfull] at hv
  rcases List.mem_cons.1 hv with rfl | hv
  · cases p with
    | nil => exact absurd rfl hp
    | cons x rest =>
      have : (s.source, x) ∈ walkEdges (full s (x :: rest)) := by
        rw [hfull]; simp [walkEdges_cons_cons]
      exact (hwf.closed _ (hwalk _ this)).1
  · obtain ⟨u, hu⟩ := exists_walkEdge_into (full s p) v (by rw [hfull, List.tail_cons]; exact hv)
    exact (hwf.closed _ (hwalk _ hu)).2

/-- the number of edges of a route met on any duplicate-free list of graph edges: a natural number
at most `|V|` -/
theorem route_count (hwf : STWF s) (h : Route s ae p) (l : List Edge) (hl : l.Nodup)
    (hsub : ∀ e ∈ l, e ∈ s.g.edges) :
    0 ≤ (l.map (trav s p)).sum ∧ (l.map (trav s p)).sum ≤ (s.g.nodes.length : Rat) ∧
      IsInt (l.map (trav s p)).sum := by
  have hcast : (l.map (trav s p)).sum
      = (((l.map fun e => traversals (full s p) e).sum : Nat) : Rat) := by
    rw [natCast_sum_p07]; rfl
  refine ⟨sum_map_nonneg _ _ (fun e _ => trav_nonneg s p e), ?_, ?_⟩
  · rcases route_cases h with rfl | ⟨hp, hwalk, hnd⟩
    · rw [sum_map_zero _ _ (fun e he => trav_empty hwf e (hsub e he))]
      exact Rat.natCast_nonneg
    · rw [hcast]
      apply Rat.natCast_le_natCast.2
      have h1 := sum_count_le_length l hl (walkEdges (full s p))
      have h2 := walkEdges_length (full s p)
      have h3 := nodup_subset_length (full s p) s.g.nodes hnd (full_nodes_mem hwf hp hwalk)
      unfold traversals
      omega
  · rw [hcast]; exact isInt_natCast _

end

/-- **completeness of the path encoding** -/
theorem encodePaths_complete (s : STGraph) (c : PathCfg) (a : Asg) (P : Nat → List Node)
    (hwf : STWF s) (hroute : ∀ i, i < c.k → Route s c.allowEmpty (P i))
    (hcons : c.constraints = []) (hlen : c.lengths = none)
    (hedge : ∀ i, i < c.k → ∀ e ∈ s.g.edges, a (edgeVar e i) = trav s (P i) e)
    (hpos : c.encodePosition = true → ∀ i, i < c.k →
      (∀ e ∈ s.g.edges, a (posVar e i) = ((edgesReaching s e.1).map (trav s (P i))).sum) ∧
      a (lenVar i) = (s.g.edges.map (trav s (P i))).sum) :
    Sat a (encodePaths s c) := by
  unfold encodePaths
  refine sat_append_p07 a _ _ (sat_append_p07 a _ _ ?_ ?_) ?_
  · -- the core: edge columns, rows 10a and 10c
    refine ⟨fun col hcol => ?_, fun r hr => ?_⟩
    · obtain ⟨i, hi, hcol⟩ := List.mem_flatMap.1 hcol
      obtain ⟨e, he, rfl⟩ := List.mem_map.1 hcol
      have hi' := List.mem_range.1 hi
      have hv := hedge i hi' e he
      refine ⟨?_, ?_, fun _ => ?_⟩
      · show (0:Rat) ≤ a (edgeVar e i)
        rw [hv]; exact trav_nonneg _ _ _
      · intro u hu
        have : u = 1 := (Option.some.inj hu).symm
        subst this
        show a (edgeVar e i) ≤ 1
        rw [hv]; exact trav_le_one_p07 hwf (hroute i hi') e he
      · show ∃ z : Int, a (edgeVar e i) = z
        rw [hv]; exact isInt_natCast _
    · rcases List.mem_append.1 hr with hr | hr
      · -- 10a
        obtain ⟨i, hi, rfl⟩ := List.mem_map.1 hr
        have hi' := List.mem_range.1 hi
        have hsum : evalTerms a (ones (s.g.succ s.source) (fun v => edgeVar (s.source, v) i))
            = if P i = [] then 0 else 1 := by
          rw [evalTerms_ones, ← route_src hwf (hroute i hi'), ← sum_succ]
          apply sum_map_congr
          intro v hv
          exact hedge i hi' (s.source, v) (mem_succ.1 hv)
        cases hae : c.allowEmpty
        · have hne : P i ≠ [] := by
            intro h0
            rcases hroute i hi' with h | h
            · rw [hae] at h; exact absurd h.2 (by decide)
            · exact h.1 h0
          simp only [Bool.false_eq_true, if_false, rowEq, Row.holds, hsum, hne]
          exact ⟨fun l hl => by rw [← Option.some.inj hl]; exact Rat.le_refl,
                 fun l hl => by rw [← Option.some.inj hl]; exact Rat.le_refl⟩
        · simp only [if_true, rowLe, Row.holds, hsum]
          refine ⟨fun l hl => by simp at hl, fun l hl => ?_⟩
          rw [← Option.some.inj hl]
          split <;> decide
      · -- 10c
        obtain ⟨i, hi, hr⟩ := List.mem_flatMap.1 hr
        obtain ⟨v, hv, rfl⟩ := List.mem_map.1 hr
        have hi' := List.mem_range.1 hi
        have hvv := (List.mem_filter.1 hv).2
        have h1 : v ≠ s.source := by
          intro h; simp [h] at hvv
        have h2 : v ≠ s.sink := by
          intro h; simp [h] at hvv
        have hin : evalTerms a (ones (s.g.pred v) (fun u => edgeVar (u, v) i))
            = inflow s.g (trav s (P i)) v := by
          rw [evalTerms_ones, ← sum_pred]
          apply sum_map_congr
          intro u hu
          exact hedge i hi' (u, v) (mem_pred.1 hu)
        have hout : evalTerms a (ones (s.g.succ v) (fun w => edgeVar (v, w) i))
            = outflow s.g (trav s (P i)) v := by
          rw [evalTerms_ones, ← sum_succ]
          apply sum_map_congr
          intro w hw
          exact hedge i hi' (v, w) (mem_succ.1 hw)
        have hc := route_cons hwf (hroute i hi') v h1 h2
        simp only [rowEq, Row.holds, evalTerms_append, evalTerms_negTerms, hin, hout, hc]
        refine ⟨fun l hl => ?_, fun l hl => ?_⟩ <;> rw [← Option.some.inj hl] <;> grind
  · -- no subpath constraints
    unfold subpathBlock
    simp only [hcons, List.isEmpty_nil, if_true]
    exact sat_empty_p07 a
  · -- positions and path lengths
    unfold positionBlock
    cases hep : c.encodePosition
    · simp only [Bool.not_false, if_true]; exact sat_empty_p07 a
    · simp only [Bool.not_true, Bool.false_eq_true, if_false]
      have hml : maxLength s c = (s.g.nodes.length : Rat) := by unfold maxLength; rw [hlen]
      have hlen1 : ∀ e, c.len e = 1 := by intro e; unfold PathCfg.len; rw [hlen]
      have hER : ∀ u, (edgesReaching s u).Nodup ∧ ∀ e ∈ edgesReaching s u, e ∈ s.g.edges := by
        intro u
        exact ⟨hwf.edgesNodup.sublist List.filter_sublist, fun e he => (List.mem_filter.1 he).1⟩
      have hterms : ∀ i, i < c.k → ∀ l : List Edge, (∀ e ∈ l, e ∈ s.g.edges) →
          evalTerms a (l.map fun e' => (c.len e', edgeVar e' i)) = (l.map (trav s (P i))).sum := by
        intro i hi l hl
        rw [evalTerms_map]
        apply sum_map_congr
        intro e he
        rw [hlen1, hedge i hi e (hl e he)]; grind
      refine ⟨fun col hcol => ?_, fun r hr => ?_⟩
      · rcases List.mem_append.1 hcol with hcol | hcol
        · obtain ⟨i, hi, hcol⟩ := List.mem_flatMap.1 hcol
          obtain ⟨e, he, rfl⟩ := List.mem_map.1 hcol
          have hi' := List.mem_range.1 hi
          have hv := ((hpos hep i hi').1 e he)
          obtain ⟨h0, h1, hz⟩ := route_count hwf (hroute i hi') _ (hER e.1).1 (hER e.1).2
          refine ⟨?_, ?_, fun _ => ?_⟩
          · show (0:Rat) ≤ a (posVar e i)
            rw [hv]; exact h0
          · intro u hu
            rw [← Option.some.inj hu, hml]
            show a (posVar e i) ≤ _
            rw [hv]; exact h1
          · show ∃ z : Int, a (posVar e i) = z
            rw [hv]; exact hz
        · obtain ⟨i, hi, rfl⟩ := List.mem_map.1 hcol
          have hi' := List.mem_range.1 hi
          have hv := (hpos hep i hi').2
          obtain ⟨h0, h1, hz⟩ := route_count hwf (hroute i hi') _ hwf.edgesNodup (fun e he => he)
          refine ⟨?_, ?_, fun _ => ?_⟩
          · show (0:Rat) ≤ a (lenVar i)
            rw [hv]; exact h0
          · intro u hu
            rw [← Option.some.inj hu, hml]
            show a (lenVar i) ≤ _
            rw [hv]; exact h1
          · show ∃ z : Int, a (lenVar i) = z
            rw [hv]; exact hz
      · rcases List.mem_append.1 hr with hr | hr
        · obtain ⟨i, hi, hr⟩ := List.mem_flatMap.1 hr
          obtain ⟨e, he, rfl⟩ := List.mem_map.1 hr
          have hi' := List.mem_range.1 hi
          have hv := ((hpos hep i hi').1 e he)
          simp only [rowEq, Row.holds, evalTerms_append, evalTerms_negTerms, evalTerms_single,
            hterms i hi' _ (hER e.1).2, hv]
          refine ⟨fun l hl => ?_, fun l hl => ?_⟩ <;> rw [← Option.some.inj hl] <;> grind
        · obtain ⟨i, hi, rfl⟩ := List.mem_map.1 hr
          have hi' := List.mem_range.1 hi
          have hv := (hpos hep i hi').2
          simp only [rowEq, Row.holds, evalTerms_append, evalTerms_negTerms, evalTerms_single,
            hterms i hi' _ (fun e he => he), hv]
          refine ⟨fun l hl => ?_, fun l hl => ?_⟩ <;> rw [← Option.some.inj hl] <;> grind

end FP
