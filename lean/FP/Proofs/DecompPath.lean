import FP.Spec.Decomp
import FP.Proofs.KFD
/-!
# FP.Proofs.DecompPath — the indicator of a source-to-sink walk of an s-t DAG is a feasible layer

Converse of `layer_sound`: for a walk `source :: p ++ [sink]` of a well-formed s-t DAG the traversal
counts are 0/1, the synthetic source sends out exactly one unit and every inner node is balanced.
-/
namespace FP
open FP.Spec

theorem cntR_eq_count_p03 (P : List Edge) (e : Edge) : cntR P e = ((P.count e : Nat) : Rat) := by
  induction P with
  | nil => simp [cntR]
  | cons p P ih =>
    rw [cntR_cons, ih, List.count_cons]
    by_cases h : e = p
    · subst h; simp [Rat.natCast_add]; grind
    · have : ¬ (p == e) = true := by simpa using fun h' => h h'.symm
      simp [h, this, Rat.zero_add]

theorem trav_eq_cntR_p03 (l : List Node) (e : Edge) : ((traversals l e : Nat) : Rat) = cntR (walkEdges l) e := by
  rw [cntR_eq_count_p03]; rfl

section Walk
variable {s : STGraph} (hwf : STWF s) {p : List Node}
  (hw : IsWalkIn s.g (s.source :: p ++ [s.sink]))
include hwf hw

theorem stwalk_nodup_p03 : (s.source :: p ++ [s.sink]).Nodup := by
  obtain ⟨rank, hr⟩ := hwf.acyclic
  exact nodup_of_walk rank _ (fun e he => hr e (hw e he))

theorem stwalk_ne_nil : p ≠ [] := by
  intro h
  subst h
  exact hwf.noDirect (hw (s.source, s.sink) (by simp [walkEdges]))

theorem trav_le_one_p03 (e : Edge) : traversals (s.source :: p ++ [s.sink]) e ≤ 1 :=
  List.nodup_iff_count.1 (walkEdges_nodup _ (stwalk_nodup_p03 hwf hw)) e

theorem trav_eq_one_of_mem {e : Edge} (he : e ∈ walkEdges (s.source :: p ++ [s.sink])) :
    traversals (s.source :: p ++ [s.sink]) e = 1 :=
  count_nodup_mem _ (walkEdges_nodup _ (stwalk_nodup_p03 hwf hw)) e he

theorem trav_bin (e : Edge) :
    ((traversals (s.source :: p ++ [s.sink]) e : Nat) : Rat) = 0 ∨
    ((traversals (s.source :: p ++ [s.sink]) e : Nat) : Rat) = 1 := by
  have := trav_le_one_p03 hwf hw e
  have h : traversals (s.source :: p ++ [s.sink]) e = 0 ∨ traversals (s.source :: p ++ [s.sink]) e = 1 := by
    omega
  rcases h with h | h <;> rw [h] <;> simp

/-- the indicator of the walk is a feasible layer of the path encoding (no empty layers needed) -/
theorem layerFacts_of_walk :
    LayerFacts s false (fun e => ((traversals (s.source :: p ++ [s.sink]) e : Nat) : Rat)) := by
  have hnd := stwalk_nodup_p03 hwf hw
  have hfun : (fun e => ((traversals (s.source :: p ++ [s.sink]) e : Nat) : Rat))
      = cntR (walkEdges (s.source :: p ++ [s.sink])) := by
    funext e; exact trav_eq_cntR_p03 _ e
  have hL : s.source :: p ++ [s.sink] = s.source :: (p ++ [s.sink]) := rfl
  have hnd' := List.nodup_cons.1 (by simpa using hnd : (s.source :: (p ++ [s.sink])).Nodup)
  have hsp : s.source ∉ p := fun hm => hnd'.1 (List.mem_append_left _ hm)
  refine ⟨fun e _ => trav_bin hwf hw e, ?_, ?_⟩
  · simp only [Bool.false_eq_true, if_false]
    rw [hfun, outflow_cntR s.g hwf.edgesNodup _ hw, tails_walkEdges]
    exact occR_head p _ _ hsp
  · intro v _ hv1 hv2
    rw [hfun, inflow_cntR s.g hwf.edgesNodup _ hw, outflow_cntR s.g hwf.edgesNodup _ hw,
      heads_walkEdges, tails_walkEdges]
    exact occR_inner p _ _ _ hv1 hv2

end Walk

/-! ## building `Sat` -/

theorem sat_append_p03 (a : Asg) (A B : LP) (hA : Sat a A) (hB : Sat a B) : Sat a (A.append B) := by
  refine ⟨fun c hc => ?_, fun r hr => ?_⟩
  · rcases List.mem_append.1 (by simpa [LP.append] using hc) with h | h
    · exact hA.1 c h
    · exact hB.1 c h
  · rcases List.mem_append.1 (by simpa [LP.append] using hr) with h | h
    · exact hA.2 r h
    · exact hB.2 r h

theorem sat_empty_p03 (a : Asg) : Sat a {} := ⟨fun _ h => (by cases h), fun _ h => (by cases h)⟩

theorem rowEq_holds_p03 (a : Asg) (ts : Terms) (c : Rat) (h : evalTerms a ts = c) : (rowEq ts c).holds a := by
  unfold Row.holds rowEq
  simp only
  refine ⟨fun l hl => ?_, fun u hu => ?_⟩
  · have : c = l := Option.some.inj hl
    rw [← this, h]; exact Rat.le_refl
  · have : c = u := Option.some.inj hu
    rw [← this, h]; exact Rat.le_refl

theorem rowGe_holds_p03 (a : Asg) (ts : Terms) (c : Rat) (h : c ≤ evalTerms a ts) : (rowGe ts c).holds a := by
  unfold Row.holds rowGe
  simp only
  refine ⟨fun l hl => ?_, fun u hu => (by cases hu)⟩
  have : c = l := Option.some.inj hl
  rw [← this]; exact h

theorem rowLe_holds_p03 (a : Asg) (ts : Terms) (c : Rat) (h : evalTerms a ts ≤ c) : (rowLe ts c).holds a := by
  unfold Row.holds rowLe
  simp only
  refine ⟨fun l hl => (by cases hl), fun u hu => ?_⟩
  have : c = u := Option.some.inj hu
  rw [← this]; exact h

/-- a family of feasible layers (no empty layer) satisfies the core block of `_encode_paths` -/
theorem sat_core_of_layerFacts_p03 (s : STGraph) (c : PathCfg) (a : Asg) (hae : c.allowEmpty = false)
    (h : ∀ i, i < c.k → LayerFacts s false (fun e => a (edgeVar e i))) :
    Sat a { cols := (List.range c.k).flatMap fun i => s.g.edges.map fun e =>
              { v := edgeVar e i, lb := 0, ub := some 1, isInt := true },
            rows := rows10a s c ++ rows10c s c } := by
  refine ⟨fun col hc => ?_, fun r hr => ?_⟩
  · obtain ⟨i, hi, hc⟩ := List.mem_flatMap.1 hc
    obtain ⟨e, he, rfl⟩ := List.mem_map.1 hc
    have hb := (h i (List.mem_range.1 hi)).bin e he
    refine ⟨?_, fun u hu => ?_, fun _ => ?_⟩
    · show (0 : Rat) ≤ a (edgeVar e i)
      rcases hb with hb | hb <;> rw [hb] <;> decide
    · have : (1 : Rat) = u := Option.some.inj hu
      show a (edgeVar e i) ≤ u
      rw [← this]
      rcases hb with hb | hb <;> rw [hb] <;> decide
    · show ∃ z : Int, a (edgeVar e i) = z
      rcases hb with hb | hb
      · exact ⟨0, by rw [hb]; simp⟩
      · exact ⟨1, by rw [hb]; simp⟩
  · rcases List.mem_append.1 hr with hr | hr
    · obtain ⟨i, hi, rfl⟩ := List.mem_map.1 hr
      have hs := (h i (List.mem_range.1 hi)).src
      simp only [Bool.false_eq_true, if_false] at hs
      simp only [hae, Bool.false_eq_true, if_false]
      apply rowEq_holds_p03
      rw [evalTerms_ones, sum_succ s.g (fun e => a (edgeVar e i)) s.source]
      exact hs
    · obtain ⟨i, hi, hr⟩ := List.mem_flatMap.1 hr
      obtain ⟨v, hv, rfl⟩ := List.mem_map.1 hr
      have hv' := List.mem_filter.1 hv
      have hne : v ≠ s.source ∧ v ≠ s.sink := by simpa using hv'.2
      have hc := (h i (List.mem_range.1 hi)).cons v hv'.1 hne.1 hne.2
      apply rowEq_holds_p03
      rw [evalTerms_append, evalTerms_negTerms, evalTerms_ones, evalTerms_ones,
        sum_succ s.g (fun e => a (edgeVar e i)) v, sum_pred s.g (fun e => a (edgeVar e i)) v, hc]
      grind

end FP
