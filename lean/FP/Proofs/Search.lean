import FP.Model.Search
namespace FP.Search

theorem stopLoop_sound (σ : Nat → Status) :
    ∀ (n k : Nat) (acc : List (Nat × Status)) (r : Nat), (stopLoop σ n k acc).solved = some r →
      σ r = .optimal ∧ k ≤ r ∧ r < k + n ∧ ∀ j, k ≤ j → j < r → σ j = .infeasible := by
  intro n
  induction n with
  | zero => intro k acc r h; simp [stopLoop] at h
  | succ n ih =>
    intro k acc r h
    unfold stopLoop at h
    split at h
    · rename_i hk
      simp at h; subst h
      exact ⟨hk, Nat.le_refl _, by omega, fun j h1 h2 => by omega⟩
    · rename_i hk
      obtain ⟨h1, h2, h3, h4⟩ := ih (k+1) _ r h
      refine ⟨h1, by omega, by omega, fun j hj1 hj2 => ?_⟩
      by_cases hjk : j = k
      · subst hjk; exact hk
      · exact h4 j (by omega) hj2
    · simp at h

theorem stopLoop_complete (σ : Nat → Status) :
    ∀ (n k : Nat) (acc : List (Nat × Status)) (r : Nat), k ≤ r → r < k + n → σ r = .optimal →
      (∀ j, k ≤ j → j < r → σ j = .infeasible) → (stopLoop σ n k acc).solved = some r := by
  intro n
  induction n with
  | zero => intro k acc r h1 h2; omega
  | succ n ih =>
    intro k acc r h1 h2 h3 h4
    unfold stopLoop
    by_cases hkr : k = r
    · subst hkr; simp [h3]
    · have : σ k = .infeasible := h4 k (Nat.le_refl _) (by omega)
      simp only [this]
      exact ih (k+1) _ r (by omega) (by omega) h3 (fun j hj1 hj2 => h4 j (by omega) hj2)

/-- the trace lists exactly the statuses of consecutive `k` starting at the first one tried -/
theorem stopLoop_trace (σ : Nat → Status) :
    ∀ (n k : Nat) (acc : List (Nat × Status)),
      ∃ m, m ≤ n ∧ (stopLoop σ n k acc).tried = acc ++ (List.range m).map (fun i => (k + i, σ (k + i))) := by
  intro n
  induction n with
  | zero => intro k acc; exact ⟨0, Nat.le_refl _, by simp [stopLoop]⟩
  | succ n ih =>
    intro k acc
    unfold stopLoop
    split
    · rename_i hk; exact ⟨1, by omega, by simp [hk]⟩
    · rename_i hk
      obtain ⟨m, hm, h⟩ := ih (k+1) (acc ++ [(k, .infeasible)])
      refine ⟨m+1, by omega, ?_⟩
      rw [h, List.range_succ_eq_map]
      simp [hk, Function.comp_def, Nat.add_assoc, Nat.add_comm 1]
    · rename_i hk; exact ⟨1, by omega, by simp [hk]⟩

theorem timedLoop_sound (σ : Nat → Status) (late : Nat → Bool) :
    ∀ (n k : Nat) (acc : List (Nat × Status)) (r : Nat), (timedLoop σ late n k acc).solved = some r →
      σ r = .optimal ∧ late r = false ∧ k ≤ r ∧ r < k + n ∧
        ∀ j, k ≤ j → j < r → σ j = .infeasible ∧ late j = false := by
  intro n
  induction n with
  | zero => intro k acc r h; simp [timedLoop] at h
  | succ n ih =>
    intro k acc r h
    unfold timedLoop at h
    split at h
    · simp at h
    · rename_i hl
      have hl' : late k = false := by simpa using hl
      split at h
      · rename_i hk
        simp at h; subst h
        exact ⟨hk, hl', Nat.le_refl _, by omega, fun j h1 h2 => by omega⟩
      · rename_i hk
        obtain ⟨h1, h1', h2, h3, h4⟩ := ih (k+1) _ r h
        refine ⟨h1, h1', by omega, by omega, fun j hj1 hj2 => ?_⟩
        by_cases hjk : j = k
        · subst hjk; exact ⟨hk, hl'⟩
        · exact h4 j (by omega) hj2
      · simp at h

theorem timedLoop_complete (σ : Nat → Status) (late : Nat → Bool) :
    ∀ (n k : Nat) (acc : List (Nat × Status)) (r : Nat), k ≤ r → r < k + n → σ r = .optimal →
      late r = false → (∀ j, k ≤ j → j < r → σ j = .infeasible ∧ late j = false) →
      (timedLoop σ late n k acc).solved = some r := by
  intro n
  induction n with
  | zero => intro k acc r h1 h2; omega
  | succ n ih =>
    intro k acc r h1 h2 h3 hl h4
    unfold timedLoop
    by_cases hkr : k = r
    · subst hkr; simp [h3, hl]
    · have := h4 k (Nat.le_refl _) (by omega)
      simp only [this.1, this.2]
      exact ih (k+1) _ r (by omega) (by omega) h3 hl (fun j hj1 hj2 => h4 j (by omega) hj2)

theorem givenLoop_sound (σ : Nat → Status) (given : Option Nat) :
    ∀ (n k : Nat) (acc : List (Nat × Status)) (r : Nat), (givenLoop σ given n k acc).solved = some r →
      (given = some r ∨ σ r = .optimal) ∧ k ≤ r ∧ r < k + n ∧
        ∀ j, k ≤ j → j < r → σ j = .infeasible ∧ given ≠ some j := by
  intro n
  induction n with
  | zero => intro k acc r h; simp [givenLoop] at h
  | succ n ih =>
    intro k acc r h
    unfold givenLoop at h
    split at h
    · rename_i hg
      simp at h; subst h
      exact ⟨Or.inl hg, Nat.le_refl _, by omega, fun j h1 h2 => by omega⟩
    · rename_i hg
      split at h
      · rename_i hk
        simp at h; subst h
        exact ⟨Or.inr hk, Nat.le_refl _, by omega, fun j h1 h2 => by omega⟩
      · rename_i hk
        obtain ⟨h1, h2, h3, h4⟩ := ih (k+1) _ r h
        refine ⟨h1, by omega, by omega, fun j hj1 hj2 => ?_⟩
        by_cases hjk : j = k
        · subst hjk; exact ⟨hk, hg⟩
        · exact h4 j (by omega) hj2
      · simp at h

theorem npoLoop_answer (cfg : NpoCfg) (σ : Nat → Status) (obj : Nat → Rat) (late : Nat → Bool) :
    ∀ (n k : Nat) (prev : Option Rat) (found : Bool) (acc : List (Nat × Status)) (r : Nat),
      (npoLoop cfg σ obj late n k prev found acc).answer = some r → σ r = .optimal ∧ k ≤ r ∧ r < k + n := by
  intro n
  induction n with
  | zero =>
    intro k prev found acc r h
    simp only [npoLoop, NpoOutcome.answer] at h
    split at h <;> simp_all
  | succ n ih =>
    intro k prev found acc r h
    unfold npoLoop at h
    simp only at h
    split at h
    · rename_i hk
      split at h
      · simp [NpoOutcome.answer] at h
      · simp [NpoOutcome.answer] at h; subst h; exact ⟨hk, Nat.le_refl _, by omega⟩
      · split at h
        · simp [NpoOutcome.answer] at h
        · obtain ⟨h1, h2, h3⟩ := ih _ _ _ _ _ h
          exact ⟨h1, by omega, by omega⟩
    · split at h
      · simp [NpoOutcome.answer] at h
      · obtain ⟨h1, h2, h3⟩ := ih _ _ _ _ _ h
        exact ⟨h1, by omega, by omega⟩

end FP.Search

namespace FP.Search
/-- the answer of the loop does not depend on the accumulated trace -/
theorem stopLoop_solved_acc (σ : Nat → Status) :
    ∀ (n k : Nat) (acc acc' : List (Nat × Status)),
      (stopLoop σ n k acc).solved = (stopLoop σ n k acc').solved := by
  intro n
  induction n with
  | zero => intro k acc acc'; simp [stopLoop]
  | succ n ih =>
    intro k acc acc'
    unfold stopLoop
    split
    · rfl
    · exact ih _ _ _
    · rfl
end FP.Search
