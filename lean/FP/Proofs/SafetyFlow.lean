import FP.Model.SafetyDag
import FP.Proofs.SafetyGraph
/-!
# FP.Proofs.SafetyFlow — the two-pointer scan reports exactly windows of positive excess flow

For a window `W = v₁ v₂ … v_k` of a decomposition path the *excess flow* is
`f(v₁,v₂) − Σ_{1<i<k} (outflow(v_i) − f(v_i,v_{i+1}))` (`excessOf`). The loop invariant of `scanLoop` /
`extendScan`: while `L < R` the variable `inexact_excess` equals the excess flow of `path[L..R]`, and it is
positive whenever `path_not_suffix_of_previous` is set. Hence every reported path is a contiguous piece of
a decomposition path with at least two nodes and positive excess flow.
-/
namespace FP.Safety
open FP FP.Spec

section
variable (f : Edge → Rat) (outflow : Node → Rat)

def leakSum : List Node → Rat
  | b :: c :: rest => (outflow b - f (b, c)) + leakSum (c :: rest)
  | _ => 0

def excessOf : List Node → Rat
  | a :: b :: rest => f (a, b) - leakSum f outflow (b :: rest)
  | _ => 0

theorem leakSum_snoc : ∀ (m : List Node) (x y : Node),
    leakSum f outflow (m ++ [x, y]) = leakSum f outflow (m ++ [x]) + (outflow x - f (x, y)) := by
  intro m
  induction m with
  | nil => intro x y; simp [leakSum]; grind
  | cons b m ih =>
    intro x y
    cases m with
    | nil => simp [leakSum]; grind
    | cons c m =>
      have := ih x y
      simp only [List.cons_append, leakSum] at this ⊢
      rw [this]; grind

theorem excessOf_snoc (a : Node) (m : List Node) (x y : Node) :
    excessOf f outflow (a :: (m ++ [x, y])) = excessOf f outflow (a :: (m ++ [x])) + (f (x, y) - outflow x) := by
  cases m with
  | nil => simp [excessOf, leakSum]; grind
  | cons b m =>
    simp only [List.cons_append, excessOf]
    have := leakSum_snoc f outflow (b :: m) x y
    simp only [List.cons_append] at this
    rw [this]; grind

theorem excessOf_tail (a b c : Node) (rest : List Node) :
    excessOf f outflow (b :: c :: rest) =
      excessOf f outflow (a :: b :: c :: rest) - f (a, b) + (outflow b - f (b, c)) + f (b, c) := by
  simp only [excessOf, leakSum]; grind

end

theorem mem_we_index {V : Type} (path : List V) (i : Nat) (h : i + 1 < path.length) :
    (path[i], path[i + 1]) ∈ walkEdges path := by
  unfold walkEdges
  apply List.mem_iff_getElem.2
  refine ⟨i, by simp; omega, ?_⟩
  simp [List.getElem_zip, List.getElem_tail]

section slices
variable (path : List Node)

def slice (L R : Nat) : List Node := (path.drop L).take (R - L + 1)

theorem nodeAt_eq (i : Nat) (h : i < path.length) : nodeAt path i = path[i] := by
  unfold nodeAt; rw [List.getD_eq_getElem?_getD, List.getElem?_eq_getElem h]; rfl

theorem slice_last (L R : Nat) (hLR : L ≤ R) (hR : R < path.length) :
    slice path L R = (path.drop L).take (R - L) ++ [nodeAt path R] := by
  unfold slice
  rw [List.take_add_one, List.getElem?_drop]
  have : L + (R - L) = R := by omega
  rw [this, List.getElem?_eq_getElem hR, nodeAt_eq path R hR]; rfl

theorem slice_succ (L R : Nat) (hLR : L ≤ R) (hR : R + 1 < path.length) :
    slice path L (R + 1) = slice path L R ++ [nodeAt path (R + 1)] := by
  rw [slice_last path L (R + 1) (by omega) hR]
  unfold slice
  have : R + 1 - L = R - L + 1 := by omega
  rw [this]

theorem slice_first (L R : Nat) (hLR : L < R) (hR : R < path.length) :
    slice path L R = nodeAt path L :: slice path (L + 1) R := by
  unfold slice
  rw [List.drop_eq_getElem_cons (by omega : L < path.length), List.take_succ_cons, nodeAt_eq path L (by omega)]
  have : R - L = R - (L + 1) + 1 := by omega
  rw [this]

theorem slice_self (L : Nat) (hL : L < path.length) : slice path L L = [nodeAt path L] := by
  rw [slice_last path L L (Nat.le_refl _) hL]; simp

theorem slice_infix (L R : Nat) : slice path L R <:+: path :=
  (List.take_prefix _ _).isInfix.trans (List.drop_suffix _ _).isInfix

theorem slice_length (L R : Nat) (hLR : L ≤ R) (hR : R < path.length) : (slice path L R).length = R - L + 1 := by
  unfold slice; rw [List.length_take, List.length_drop]; omega

end slices

section scan
variable (f : Edge → Rat) (outflow : Node → Rat) (path : List Node)

/-- what is reported: a contiguous piece of the decomposition path, at least one edge, positive excess flow -/
def GoodWindow (W : List Node) : Prop := 2 ≤ W.length ∧ W <:+: path ∧ 0 < excessOf f outflow W

structure ScanInv (st : ScanState) : Prop where
  le : st.L ≤ st.R
  lt : st.R < path.length
  exc : st.L < st.R → st.excess = excessOf f outflow (slice path st.L st.R)
  pos : st.fresh = true → st.L < st.R → 0 < st.excess
  acc : ∀ W ∈ st.acc, GoodWindow f outflow path W

theorem excess_extend (L R : Nat) (hLR : L < R) (hR : R + 1 < path.length) :
    excessOf f outflow (slice path L (R + 1)) =
      excessOf f outflow (slice path L R) + (flowAt f path R - outflow (nodeAt path R)) := by
  rw [slice_succ path L R (by omega) hR, slice_first path L R hLR (by omega),
    slice_last path (L + 1) R (by omega) (by omega)]
  unfold flowAt
  have := excessOf_snoc f outflow (nodeAt path L) (List.take (R - (L + 1)) (List.drop (L + 1) path))
    (nodeAt path R) (nodeAt path (R + 1))
  simp only [List.cons_append, List.append_assoc] at this ⊢
  exact this

theorem extendScan_inv : ∀ n st st', extendScan f outflow path n st = some st' →
    ScanInv f outflow path st → st.L < st.R →
    ScanInv f outflow path st' ∧ st'.L = st.L ∧ st.L < st'.R ∧ st'.acc = st.acc ∧
      (st.fresh = true → st'.fresh = true) := by
  intro n
  induction n with
  | zero => intro st st' h; simp [extendScan] at h
  | succ n ih =>
    intro st st' h hinv hLR
    unfold extendScan at h
    by_cases hR : st.R + 1 < path.length
    · rw [if_pos hR] at h
      simp only at h
      by_cases hle : st.excess + (flowAt f path st.R - outflow (nodeAt path st.R)) ≤ 0
      · rw [if_pos hle] at h; injection h with h; subst h
        exact ⟨hinv, rfl, hLR, rfl, fun h => h⟩
      · rw [if_neg hle] at h
        have hpos : 0 < st.excess + (flowAt f path st.R - outflow (nodeAt path st.R)) := by
          exact Rat.not_le.1 hle
        have hinv' : ScanInv f outflow path
            { st with excess := st.excess + (flowAt f path st.R - outflow (nodeAt path st.R)),
                      R := st.R + 1, fresh := true } := by
          refine ⟨by simp only; omega, hR, ?_, fun _ _ => hpos, hinv.acc⟩
          intro _
          simp only
          rw [excess_extend f outflow path st.L st.R hLR hR, hinv.exc hLR]
        obtain ⟨h1, h2, h3, h4, h5⟩ := ih _ _ h hinv' (by simp only; omega)
        exact ⟨h1, h2, by simp only at h3; omega, h4, fun _ => h5 rfl⟩
    · rw [if_neg hR] at h; injection h with h; subst h
      exact ⟨hinv, rfl, hLR, rfl, fun h => h⟩

theorem scanLoop_inv (hf : ∀ i, i + 1 < path.length → 0 < flowAt f path i) :
    ∀ n st st', scanLoop f outflow path n st = some st' →
      ScanInv f outflow path st → ∀ W ∈ st'.acc, GoodWindow f outflow path W := by
  intro n
  induction n with
  | zero => intro st st' h; simp [scanLoop] at h
  | succ n ih =>
    intro st st' h hinv
    unfold scanLoop at h
    by_cases hR : st.R + 1 < path.length
    · rw [if_pos hR] at h
      simp only at h
      -- the state after the `if L == R` block
      have hst1 : ∃ st1 : ScanState, (if st.L = st.R then
            { st with R := st.R + 1, excess := flowAt f path st.L, fresh := true } else st) = st1 ∧
          ScanInv f outflow path st1 ∧ st1.L < st1.R := by
        by_cases hLR : st.L = st.R
        · refine ⟨_, rfl, ?_, ?_⟩
          · rw [if_pos hLR]
            refine ⟨by simp only; omega, hR, ?_, ?_, hinv.acc⟩
            · intro _
              simp only
              rw [hLR, slice_first path st.R (st.R + 1) (by omega) hR, slice_self path (st.R + 1) hR]
              simp [excessOf, leakSum, flowAt]; grind
            · intro _ _; simp only; exact hf st.L (by omega)
          · rw [if_pos hLR]; simp only; omega
        · refine ⟨_, rfl, ?_, ?_⟩
          · rw [if_neg hLR]; exact hinv
          · rw [if_neg hLR]; have := hinv.le; omega
      obtain ⟨st1, hst1, hinv1, hLR1⟩ := hst1
      rw [hst1] at h
      split at h
      · cases h
      · rename_i st2 hext
        obtain ⟨hinv2, hL2, hLR2, hacc2, _⟩ := extendScan_inv f outflow path _ _ _ hext hinv1 hLR1
        have hLR2' : st2.L < st2.R := by omega
        apply ih _ _ h
        have hR2 := hinv2.lt
        refine ⟨by simp only; omega, hR2, ?_, ?_, ?_⟩
        · intro hlt
          simp only at hlt ⊢
          rw [if_pos hlt]
          rw [hinv2.exc hLR2', slice_first path st2.L st2.R hLR2' hR2,
            slice_first path (st2.L + 1) st2.R hlt hR2]
          have hsl : slice path (st2.L + 1 + 1) st2.R = nodeAt path (st2.L + 1 + 1) :: (slice path (st2.L + 1 + 1) st2.R).tail := by
            by_cases h3 : st2.L + 1 + 1 < st2.R
            · rw [slice_first path _ _ h3 hR2]; rfl
            · have : st2.L + 1 + 1 = st2.R := by omega
              rw [this, slice_self path st2.R hR2]; rfl
          rw [hsl]
          have := excessOf_tail f outflow (nodeAt path st2.L) (nodeAt path (st2.L + 1)) (nodeAt path (st2.L + 1 + 1))
            (slice path (st2.L + 1 + 1) st2.R).tail
          unfold flowAt
          rw [this]
        · intro hfr; simp at hfr
        · intro W hW
          simp only at hW
          by_cases hfr : st2.fresh = true
          · rw [if_pos hfr] at hW
            rcases List.mem_append.1 hW with hW | hW
            · exact hinv2.acc W hW
            · simp only [List.mem_singleton] at hW; subst hW
              refine ⟨?_, slice_infix path _ _, ?_⟩
              · have := slice_length path st2.L st2.R (by omega) hR2
                unfold slice at this; rw [this]; omega
              · have := hinv2.pos hfr hLR2'
                rw [hinv2.exc hLR2'] at this
                exact this
          · rw [if_neg hfr] at hW; exact hinv2.acc W hW
    · rw [if_neg hR] at h; injection h with h; subst h; exact hinv.acc

end scan

/-- **T4, scan half.** Every path reported by `compute_inexact_flow_decomp_safe_paths` (with `lb = ub = flow`)
is the edge sequence of a window `W` of one of the given decomposition paths with at least two nodes and
positive excess flow. -/
theorem flowSafePaths_windows (g : Graph) (flow : List (Edge × Rat)) (paths : List (List Node))
    (out : List (List Edge)) (h : flowSafePaths g flow paths = .ok out) :
    ∀ P ∈ out, ∃ path ∈ paths, ∃ W : List Node, P = walkEdges W ∧
      GoodWindow (fun e => lookupD flow e 0) (fun v => ((g.outEdges v).map fun e => lookupD flow e 0).sum) path W := by
  unfold flowSafePaths at h
  simp only at h
  split at h
  · cases h
  · rename_i hbad
    split at h
    · cases h
    · rename_i ls hls
      injection h with h; subst h
      intro P hP
      obtain ⟨W, hW, rfl⟩ := List.mem_map.1 hP
      obtain ⟨l, hl, hWl⟩ := List.mem_flatten.1 hW
      -- l is the result of one path
      have : ∃ path ∈ paths, scanPath (fun e => lookupD flow e 0)
          (fun v => ((g.outEdges v).map fun e => lookupD flow e 0).sum) path = some l := by
        clear hP hW hWl hbad
        induction paths generalizing ls with
        | nil => simp at hls; subst hls; simp at hl
        | cons p ps ih =>
          rw [List.mapM_cons] at hls
          cases h1 : scanPath (fun e => lookupD flow e 0)
              (fun v => ((g.outEdges v).map fun e => lookupD flow e 0).sum) p with
          | none => simp [h1] at hls
          | some r =>
            cases h2 : ps.mapM (scanPath (fun e => lookupD flow e 0)
                (fun v => ((g.outEdges v).map fun e => lookupD flow e 0).sum)) with
            | none => simp [h1, h2] at hls
            | some rs =>
              simp [h1, h2] at hls; subst hls
              rcases List.mem_cons.1 hl with rfl | hl
              · exact ⟨p, by simp, h1⟩
              · obtain ⟨q, hq, hq2⟩ := ih rs h2 hl
                exact ⟨q, List.mem_cons_of_mem _ hq, hq2⟩
      obtain ⟨path, hpath, hscan⟩ := this
      refine ⟨path, hpath, W, rfl, ?_⟩
      unfold scanPath at hscan
      by_cases hlen : path.length ≤ 1
      · rw [if_pos hlen] at hscan; injection hscan with hscan; subst hscan; simp at hWl
      · rw [if_neg hlen] at hscan
        cases hsl : scanLoop (fun e => lookupD flow e 0)
            (fun v => ((g.outEdges v).map fun e => lookupD flow e 0).sum) path (path.length + 1)
            { L := 0, R := 0, excess := 0, fresh := true, acc := [] } with
        | none => rw [hsl] at hscan; simp at hscan
        | some st' =>
          rw [hsl] at hscan; simp at hscan; subst hscan
          apply scanLoop_inv _ _ path ?_ _ _ _ hsl ?_ W hWl
          · -- every edge of a decomposition path has positive flow
            intro i hi
            unfold flowAt
            have hmem : (nodeAt path i, nodeAt path (i + 1)) ∈ walkEdges path := by
              rw [nodeAt_eq path i (by omega), nodeAt_eq path (i + 1) hi]
              exact mem_we_index path i hi
            simp only [Bool.not_eq_true, List.any_eq_false] at hbad
            have := hbad path hpath _ hmem
            unfold lookupD
            cases hq : flow.lookup (nodeAt path i, nodeAt path (i + 1)) with
            | none => rw [hq] at this; simp at this
            | some q =>
              rw [hq] at this
              simp only [decide_eq_false_iff_not, Rat.not_le] at this
              show 0 < (flow.lookup (nodeAt path i, nodeAt path (i + 1))).getD 0
              rw [hq]; exact this
          · exact ⟨Nat.le_refl _, by simp only; omega, fun h => by simp at h, fun _ h => by simp at h,
              fun W hW => by simp at hW⟩

end FP.Safety
