import FP.Proofs.Decomp
/-!
# FP.Proofs.DecompBounds — why the lower bounds of `MinFlowDecomp.get_lowerbound_k` are lower bounds

* `lb_log_valid_proof`: `k` weighted paths produce at most `2^k` distinct edge values
* `lb_antichain_valid_proof`: an edge antichain carrying positive flow needs one path per edge
* `lowerboundK_valid_proof`: the maximum the model computes is below every `m` all ingredients are below
-/
namespace FP
open FP.Spec FP.MFD

/-! ## subset sums -/

theorem length_subsetSums (w : Nat → Rat) (k : Nat) : (subsetSums w k).length = 2 ^ k := by
  induction k with
  | zero => rfl
  | succ k ih => simp [subsetSums, ih]; omega

theorem mem_subsetSums (w : Nat → Rat) (b : Nat → Rat) (k : Nat)
    (hb : ∀ i, i < k → b i = 0 ∨ b i = 1) :
    ((List.range k).map fun i => w i * b i).sum ∈ subsetSums w k := by
  induction k with
  | zero => simp [subsetSums]
  | succ k ih =>
    have ih' := ih (fun i hi => hb i (by omega))
    rw [List.range_succ, List.map_append, List.sum_append]
    unfold subsetSums
    rcases hb k (by omega) with h0 | h1
    · apply List.mem_append_left
      have : (List.map (fun i => w i * b i) [k]).sum = 0 := by simp [h0, Rat.mul_zero, Rat.add_zero]
      rw [this, Rat.add_zero]; exact ih'
    · apply List.mem_append_right
      have : (List.map (fun i => w i * b i) [k]).sum = w k := by simp [h1, Rat.mul_one, Rat.add_zero]
      rw [this]
      exact List.mem_map.2 ⟨_, ih', rfl⟩

/-- **T5a.** Whatever way the flow values are looked at (`g` = identity, or python's `int(·)` as the
code does): the active edges of a flow decomposed into `k` weighted paths show at most `2^k` distinct
values — each is a subset sum of the `k` weights. -/
theorem lb_log_valid_proof {α : Type} (g : Rat → α) (inp : FlowInput) (k : Nat)
    (h : BaseWF inp.base) (hac : Acyclic inp.base) (P : Nat → List Node) (w : Nat → Rat)
    (hd : IsDecomp inp k P w) (vals : List α) (hnd : vals.Nodup)
    (hv : ∀ v ∈ vals, ∃ e ∈ inp.activeEdges, g (inp.f e) = v) : vals.length ≤ 2 ^ k := by
  have hwf : STWF inp.st := augment_wf inp.base inp.starts inp.ends h hac
  have hsub : vals ⊆ (subsetSums w k).map g := by
    intro v hvm
    obtain ⟨e, he, rfl⟩ := hv v hvm
    apply List.mem_map.2
    refine ⟨inp.f e, ?_, rfl⟩
    rw [← hd.explains e he]
    exact mem_subsetSums w (fun i => ((traversals (inp.st.source :: P i ++ [inp.st.sink]) e : Nat) : Rat)) k
      (fun i hi => trav_bin hwf (hd.walk i hi) e)
  have := hnd.length_le_of_subset hsub
  rwa [List.length_map, length_subsetSums] at this

/-- every value is one of the `2^k` subset sums of the weights (multiset formulation) -/
theorem flow_values_subset_sums (inp : FlowInput) (k : Nat)
    (h : BaseWF inp.base) (hac : Acyclic inp.base) (P : Nat → List Node) (w : Nat → Rat)
    (hd : IsDecomp inp k P w) : ∀ e ∈ inp.activeEdges, inp.f e ∈ subsetSums w k := by
  have hwf : STWF inp.st := augment_wf inp.base inp.starts inp.ends h hac
  intro e he
  rw [← hd.explains e he]
  exact mem_subsetSums w (fun i => ((traversals (inp.st.source :: P i ++ [inp.st.sink]) e : Nat) : Rat)) k
    (fun i hi => trav_bin hwf (hd.walk i hi) e)

/-! ## antichains -/

/-- relational pigeonhole: distinct objects that each need one of `k` slots and never share a slot -/
theorem pigeon {α} (A : List α) (k : Nat) (R : α → Nat → Prop) (hnd : A.Nodup)
    (hex : ∀ a ∈ A, ∃ i, i < k ∧ R a i)
    (hinj : ∀ a ∈ A, ∀ b ∈ A, ∀ i, R a i → R b i → a = b) : A.length ≤ k := by
  have key : ∃ l : List Nat, l.Nodup ∧ l.length = A.length ∧ ∀ i ∈ l, i < k ∧ ∃ a ∈ A, R a i := by
    induction A with
    | nil => exact ⟨[], List.nodup_nil, rfl, fun i hi => by cases hi⟩
    | cons a A ih =>
      have hnd' := List.nodup_cons.1 hnd
      obtain ⟨l, hl1, hl2, hl3⟩ := ih hnd'.2 (fun x hx => hex x (by simp [hx]))
        (fun x hx y hy => hinj x (by simp [hx]) y (by simp [hy]))
      obtain ⟨i, hik, hai⟩ := hex a (by simp)
      have hil : i ∉ l := by
        intro hm
        obtain ⟨_, b, hb, hbi⟩ := hl3 i hm
        have := hinj a (by simp) b (by simp [hb]) i hai hbi
        exact hnd'.1 (this ▸ hb)
      refine ⟨i :: l, List.nodup_cons.2 ⟨hil, hl1⟩, by simp [hl2], ?_⟩
      intro j hj
      rcases List.mem_cons.1 hj with rfl | hj
      · exact ⟨hik, a, by simp, hai⟩
      · obtain ⟨h1, b, hb, hbj⟩ := hl3 j hj
        exact ⟨h1, b, by simp [hb], hbj⟩
  obtain ⟨l, hl1, hl2, hl3⟩ := key
  have hsub : l ⊆ List.range k := fun i hi => List.mem_range.2 (hl3 i hi).1
  have := hl1.length_le_of_subset hsub
  rw [List.length_range] at this
  omega

/-- **T5b.** If `A` is a set of distinct active edges, pairwise on no common source-to-sink path, and the
flow is positive on each of them, every decomposition has at least `|A|` paths. -/
theorem lb_antichain_valid_proof (inp : FlowInput) (k : Nat) (P : Nat → List Node) (w : Nat → Rat)
    (hd : IsDecomp inp k P w) (A : List Edge) (hA : IsAntichain inp.st A)
    (hact : ∀ e ∈ A, e ∈ inp.activeEdges) (hpos : ∀ e ∈ A, 0 < inp.f e) : A.length ≤ k := by
  apply pigeon A k (fun e i => e ∈ walkEdges (inp.st.source :: P i ++ [inp.st.sink]) ∧ i < k) hA.1
  · intro e he
    have hne : ((List.range k).map fun i =>
        w i * ((traversals (inp.st.source :: P i ++ [inp.st.sink]) e : Nat) : Rat)).sum ≠ 0 := by
      rw [hd.explains e (hact e he)]
      have := hpos e he
      intro h0; rw [h0] at this; exact absurd this (by decide)
    obtain ⟨i, hi, hterm⟩ := exists_ne_zero_of_sum_ne_zero _ _ hne
    have hi' := List.mem_range.1 hi
    refine ⟨i, hi', ?_, hi'⟩
    apply Classical.byContradiction
    intro hnot
    have : traversals (inp.st.source :: P i ++ [inp.st.sink]) e = 0 := List.count_eq_zero.2 hnot
    apply hterm
    show w i * ((traversals (inp.st.source :: P i ++ [inp.st.sink]) e : Nat) : Rat) = 0
    rw [this]; simp [Rat.mul_zero]
  · intro a ha b hb i hai hbi
    apply Classical.byContradiction
    intro hab
    exact hA.2 a ha b hb hab (P i) (hd.walk i hai.2) ⟨hai.1, hbi.1⟩

/-! ## the model of `get_lowerbound_k` -/

theorem clog2_le (n k : Nat) (hn : 1 ≤ n) (h : n ≤ 2 ^ k) : clog2 n ≤ k := by
  unfold clog2
  exact (numBits_spec (n - 1)).2 k (by omega)

theorem clog2_spec (n : Nat) (hn : 1 ≤ n) : n ≤ 2 ^ clog2 n := by
  unfold clog2
  have := (numBits_spec (n - 1)).1
  omega

/-- the value the model returns is a lower bound of every `m` that all its ingredients bound from below -/
theorem lowerboundN_valid_proof (x : LBIn) (m : Nat) (hopt : x.optLb.getD 1 ≤ m)
    (hlog : distinctInt x.flows ≤ 2 ^ m) (hwidth : x.width ≤ m)
    (hmgs : x.ignoreEmpty = true → x.useMgs = true → ∀ s, x.mgs = some s → s ≤ m)
    (hscan : x.useScan = true → ∀ s, x.scan = some s → s ≤ m) : lowerboundN x ≤ m := by
  unfold lowerboundN
  simp only
  have h1 : (if distinctInt x.flows = 0 then x.optLb.getD 1
      else max (x.optLb.getD 1) (clog2 (distinctInt x.flows))) ≤ m := by
    split
    · exact hopt
    · rename_i hn
      have := clog2_le _ _ (by omega) hlog
      omega
  have h3 : (if (x.ignoreEmpty && x.useMgs) = true then
      max (max (if distinctInt x.flows = 0 then x.optLb.getD 1
        else max (x.optLb.getD 1) (clog2 (distinctInt x.flows))) x.width) (x.mgs.getD 0)
      else max (if distinctInt x.flows = 0 then x.optLb.getD 1
        else max (x.optLb.getD 1) (clog2 (distinctInt x.flows))) x.width) ≤ m := by
    split
    · rename_i hu
      have hu' : x.ignoreEmpty = true ∧ x.useMgs = true := by simpa using hu
      have : x.mgs.getD 0 ≤ m := by
        cases hm : x.mgs with
        | none => simp
        | some s => simpa using hmgs hu'.1 hu'.2 s hm
      omega
    · omega
  split
  · rename_i hu
    split
    · rename_i s hs
      have := hscan hu s hs
      omega
    · exact h3
  · exact h3

theorem lowerboundK_valid_proof (x : LBIn) (m lb : Nat) (hopt : x.optLb.getD 1 ≤ m)
    (hlog : distinctInt x.flows ≤ 2 ^ m) (hwidth : x.width ≤ m)
    (hmgs : x.ignoreEmpty = true → x.useMgs = true → ∀ s, x.mgs = some s → s ≤ m)
    (hscan : x.useScan = true → ∀ s, x.scan = some s → s ≤ m)
    (h : lowerboundK x = .value lb) : lb ≤ m := by
  have hv : lowerboundN x = lb := LBOut.value.inj h
  rw [← hv]
  exact lowerboundN_valid_proof x m hopt hlog hwidth hmgs hscan

end FP
