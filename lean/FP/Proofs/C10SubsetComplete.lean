import FP.Proofs.C05Opt
import FP.Proofs.C10Subset
import FP.Proofs.WalkCoreComplete
import FP.Proofs.WalkCoreExample
/-!
# FP.Proofs.C10SubsetComplete — completeness of `_encode_subset_constraints`

`c10s_subset_complete_proof`: a satisfying assignment of `_encode_walks` in which, for every subset constraint
`j`, some layer (`resp j`) traverses at least `|set(constraint_j)| · coverage` of the constraint's distinct
edges becomes a satisfying assignment of `create_solver_and_walks` (`walkCore`) by giving new values to the
`r` and `used_edge` columns only (`subsetAsg`, C05: `used_edge(e,i)` = indicator of a positive multiplicity,
`r(i,j)` = "layer `i` covers constraint `j` to the required fraction"). No hypothesis on the coverage fraction
is needed, and the row `edge ≤ ub·used_edge` holds because `edge(e,i) ≤ ub e` is a *column bound* of
`_encode_walks`, hence part of the hypothesis `Sat a (encodeWalks s c ub)`.

`c10s_subset_exact_proof`: with `subset_constraint_honoured` the two directions: the feasible set of `walkCore`
projected to the columns other than `r` / `used_edge` is the feasible set of `encodeWalks` intersected with
"every constraint is covered, to the required fraction, by some layer".
-/
namespace FP
open FP.Spec

/-- `subsetAsg` changes only `r` and `used_edge` columns -/
theorem c10s_subsetAsg_other (a : Asg) (cons : List (List Edge)) (cov : Rat) (v : Var)
    (hr : ∀ i j, v ≠ rVar i j) (hu : ∀ e i, v ≠ usedVar e i) : subsetAsg a cons cov v = a v := by
  unfold subsetAsg
  cases v with
  | uvi p x y i =>
    by_cases hp : p = "used_edge"
    · subst hp; exact absurd rfl (hu (x, y) i)
    · simp [hp]
  | ij p i j =>
    by_cases hp : p = "r"
    · subst hp; exact absurd rfl (hr i j)
    · simp [hp]
  | _ => rfl

/-- the count of a constraint's distinct edges with multiplicity `≥ 1`, as `coversB` writes it -/
theorem c10s_coversB_of_count (s : STGraph) (c : WalkCfg) (ub : Edge → Rat) (a : Asg)
    (henc : Sat a (encodeWalks s c ub)) (i : Nat) (hi : i < c.k) (con : List Edge)
    (hed : ∀ e ∈ con, e ∈ s.g.edges) :
    (con.eraseDups.map fun e => if multOf a i e = 0 then (0 : Rat) else 1).sum
      = ((con.eraseDups.countP (fun e => decide (1 ≤ a (edgeVar e i))) : Nat) : Rat) := by
  rw [← c05_sum_ind_eq_countP]
  apply sum_map_congr
  intro e he
  have hee : e ∈ s.g.edges := hed e (List.mem_eraseDups.1 he)
  by_cases hz : multOf a i e = 0
  · have : ¬ 1 ≤ a (edgeVar e i) := fun h => (c05_mult_ne_zero_of_one_le henc hi hee h) hz
    simp [hz, this]
  · have : 1 ≤ a (edgeVar e i) := by
      rw [edge_col henc hi hee]
      have : ((1 : Nat) : Rat) ≤ (multOf a i e : Rat) := Rat.natCast_le_natCast.2 (by omega)
      simpa using this
    simp [hz, this]

/-- **completeness of the subset block** -/
theorem c10s_subset_complete_proof (s : STGraph) (c : WalkCfg) (ub : Edge → Rat) (a : Asg) (resp : Nat → Nat)
    (hsat : Sat a (encodeWalks s c ub))
    (hresp : ∀ j (hj : j < c.constraints.length), resp j < c.k ∧
      (∀ e ∈ c.constraints[j], e ∈ s.g.edges) ∧
      (c.constraints[j].eraseDups.length : Rat) * c.coverage ≤
        ((c.constraints[j].eraseDups.countP (fun e => decide (1 ≤ a (edgeVar e (resp j)))) : Nat) : Rat)) :
    Sat (subsetAsg a c.constraints c.coverage) (walkCore s c ub) ∧
    (∀ e i, subsetAsg a c.constraints c.coverage (edgeVar e i) = a (edgeVar e i)) ∧
    (∀ v, (∀ i j, v ≠ rVar i j) → (∀ e i, v ≠ usedVar e i) →
      subsetAsg a c.constraints c.coverage v = a v) := by
  refine ⟨?_, subsetAsg_edge a _ _, c10s_subsetAsg_other a _ _⟩
  let a' := subsetAsg a c.constraints c.coverage
  have hm : ∀ i, i < c.k → ∀ e ∈ s.g.edges, a (edgeVar e i) = (multOf a i e : Rat) :=
    fun i hi e he => edge_col hsat hi he
  have h1 : Sat a' (encodeWalks s c ub) :=
    c05_encodeWalks_congr s c ub a a' (subsetAsg_edge a _ _) (subsetAsg_sel a _ _) (subsetAsg_dist a _ _) hsat
  have h2 : Sat a' (subsetBlock s c ub) := by
    apply subsetBlock_sat s c ub a' (fun i => multOf a i)
    · intro i hi e he
      rw [← hm i hi e he]
      have := hsat.1 { v := edgeVar e i, lb := 0, ub := some (ub e), isInt := true }
        (List.mem_append_left _ (List.mem_append_left _
          (List.mem_flatMap.2 ⟨i, List.mem_range.2 hi, List.mem_map.2 ⟨e, he, rfl⟩⟩)))
      exact this.2.1 _ rfl
    · intro i hi e he
      show a' (edgeVar e i) = _
      rw [← hm i hi e he]; exact subsetAsg_edge a _ _ e i
    · intro i _ e; exact subsetAsg_used a _ _ e i
    · intro i _ j hj
      show subsetAsg a c.constraints c.coverage (rVar i j) = _
      rw [subsetAsg_r]
      have : c.constraints.getD j [] = c.constraints[j] := by
        rw [List.getD_eq_getElem?_getD, List.getElem?_eq_getElem hj]; rfl
      rw [this]
    · intro j hj
      obtain ⟨hi, hed, hle⟩ := hresp j hj
      refine ⟨resp j, hi, ?_⟩
      unfold coversB
      apply decide_eq_true
      rw [c10s_coversB_of_count s c ub a hsat (resp j) hi _ hed]
      exact hle
  exact ⟨fun col hc => (List.mem_append.1 hc).elim (h1.1 col) (h2.1 col),
         fun r hr => (List.mem_append.1 hr).elim (h1.2 r) (h2.2 r)⟩

/-- **the subset block is exact**: an assignment of the columns other than `r` / `used_edge` extends to a
solution of `walkCore` iff it solves `encodeWalks` and every constraint is covered by some layer -/
theorem c10s_subset_exact_proof (s : STGraph) (c : WalkCfg) (ub : Edge → Rat) (a : Asg)
    (hedges : ∀ con ∈ c.constraints, ∀ e ∈ con, e ∈ s.g.edges) :
    (∃ a', Sat a' (walkCore s c ub) ∧
        ∀ v, (∀ i j, v ≠ rVar i j) → (∀ e i, v ≠ usedVar e i) → a' v = a v) ↔
      (Sat a (encodeWalks s c ub) ∧ ∀ j (hj : j < c.constraints.length), ∃ i, i < c.k ∧
        (c.constraints[j].eraseDups.length : Rat) * c.coverage ≤
          ((c.constraints[j].eraseDups.countP (fun e => decide (1 ≤ a (edgeVar e i))) : Nat) : Rat)) := by
  constructor
  · rintro ⟨a', hsat, hsame⟩
    have hE : ∀ e i, a (edgeVar e i) = a' (edgeVar e i) := fun e i =>
      (hsame _ (fun _ _ h => by simp [edgeVar, rVar] at h)
        (fun _ _ h => by simp [edgeVar, usedVar] at h)).symm
    have hS : ∀ e i, a (selVar e i) = a' (selVar e i) := fun e i =>
      (hsame _ (fun _ _ h => by simp [selVar, rVar] at h)
        (fun _ _ h => by simp [selVar, usedVar] at h)).symm
    have hD : ∀ v i, a (distVar v i) = a' (distVar v i) := fun v i =>
      (hsame _ (fun _ _ h => by simp [distVar, rVar] at h)
        (fun _ _ h => by simp [distVar, usedVar] at h)).symm
    refine ⟨c05_encodeWalks_congr s c ub a' a hE hS hD (sat_append_left a' _ _ hsat), ?_⟩
    intro j hj
    obtain ⟨i, hi, _, hle⟩ := subset_constraint_honoured s c ub a' hsat j hj
      (hedges _ (List.getElem_mem hj))
    refine ⟨i, hi, ?_⟩
    simp only [hE]
    exact hle
  · rintro ⟨hsat, hcov⟩
    let resp : Nat → Nat := fun j =>
      if hj : j < c.constraints.length then Classical.choose (hcov j hj) else 0
    have hresp : ∀ j (hj : j < c.constraints.length), resp j < c.k ∧
        (∀ e ∈ c.constraints[j], e ∈ s.g.edges) ∧
        (c.constraints[j].eraseDups.length : Rat) * c.coverage ≤
          ((c.constraints[j].eraseDups.countP (fun e => decide (1 ≤ a (edgeVar e (resp j)))) : Nat) : Rat) := by
      intro j hj
      have hspec := Classical.choose_spec (hcov j hj)
      have hr : resp j = Classical.choose (hcov j hj) := by simp [resp, hj]
      rw [hr]
      exact ⟨hspec.1, hedges _ (List.getElem_mem hj), hspec.2⟩
    obtain ⟨h1, _, h3⟩ := c10s_subset_complete_proof s c ub a resp hsat hresp
    exact ⟨_, h1, h3⟩

/-! ## a concrete instance: the walk `source, s, a, a, a, t, sink` and the subset constraint `{(a,a), (a,t)}` -/

namespace C10SubsetExample
open FP.WalkCoreExample

def cfgS : WalkCfg := { k := 1, constraints := [[("a", "a"), ("a", "t"), ("a", "a")]] }

/-- `encodeWalks` does not read the constraints -/
theorem sat_enc : Sat asg (encodeWalks st cfgS ub) := sat_example

theorem resp_ok : ∀ j (hj : j < cfgS.constraints.length), (fun _ : Nat => 0) j < cfgS.k ∧
    (∀ e ∈ cfgS.constraints[j], e ∈ st.g.edges) ∧
    (cfgS.constraints[j].eraseDups.length : Rat) * cfgS.coverage ≤
      ((cfgS.constraints[j].eraseDups.countP
        (fun e => decide (1 ≤ asg (edgeVar e ((fun _ : Nat => 0) j)))) : Nat) : Rat) := by
  intro j hj
  have : j = 0 := by simp [cfgS] at hj; omega
  subst this
  have h0 : cfgS.constraints[0]'hj = [("a", "a"), ("a", "t"), ("a", "a")] := rfl
  rw [h0]
  exact ⟨by decide, by decide, by decide +kernel⟩

/-- the values of the extension on this instance: `r(0,0) = 1`, `used_edge((a,a),0) = 1`, `edge((a,a),0) = 2` unchanged -/
theorem ext_values : subsetAsg asg cfgS.constraints cfgS.coverage (rVar 0 0) = 1 ∧
    subsetAsg asg cfgS.constraints cfgS.coverage (usedVar ("a", "a") 0) = 1 ∧
    subsetAsg asg cfgS.constraints cfgS.coverage (edgeVar ("a", "a") 0) = 2 := by
  refine ⟨?_, ?_, ?_⟩ <;> decide +kernel

end C10SubsetExample

end FP
