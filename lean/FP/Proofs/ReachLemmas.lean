import FP.Model.Reach
import FP.Spec.Walk
/-!
# FP.Proofs.ReachLemmas — basic facts about `FP.Spec.Reach`, `succOf`, `lunion`, `swapEdges`
-/
namespace FP
open FP.Spec

section
variable {V : Type}

theorem Reach.single {es : List (V × V)} {x y : V} (h : (x, y) ∈ es) : Reach es x y :=
  Reach.step (Reach.refl x) h

theorem Reach.trans {es : List (V × V)} {x y z : V} (h1 : Reach es x y) (h2 : Reach es y z) : Reach es x z := by
  induction h2 with
  | refl => exact h1
  | step _ he ih => exact Reach.step ih he

/-- prepend an edge -/
theorem Reach.head {es : List (V × V)} {x y z : V} (h : (x, y) ∈ es) (h2 : Reach es y z) : Reach es x z :=
  Reach.trans (Reach.single h) h2

/-- first-edge decomposition -/
theorem reach_head_cases {es : List (V × V)} {x z : V} (h : Reach es x z) :
    x = z ∨ ∃ y, (x, y) ∈ es ∧ Reach es y z := by
  induction h with
  | refl => exact Or.inl rfl
  | step h1 he ih =>
    rename_i y z
    rcases ih with rfl | ⟨y', hy', hr⟩
    · exact Or.inr ⟨z, he, Reach.refl z⟩
    · exact Or.inr ⟨y', hy', Reach.step hr he⟩

/-- last-edge decomposition -/
theorem reach_tail_cases {es : List (V × V)} {x z : V} (h : Reach es x z) :
    x = z ∨ ∃ y, Reach es x y ∧ (y, z) ∈ es := by
  cases h with
  | refl => exact Or.inl rfl
  | step h1 he => exact Or.inr ⟨_, h1, he⟩

theorem mem_swapEdges {es : List (V × V)} {a b : V} : (a, b) ∈ swapEdges es ↔ (b, a) ∈ es := by
  unfold swapEdges
  constructor
  · intro h
    obtain ⟨e, he, heq⟩ := List.mem_map.1 h
    have h1 : e.2 = a := congrArg Prod.fst heq
    have h2 : e.1 = b := congrArg Prod.snd heq
    rw [← h1, ← h2]; exact he
  · intro h
    exact List.mem_map.2 ⟨(b, a), h, rfl⟩

theorem reach_swap {es : List (V × V)} {x y : V} : Reach (swapEdges es) x y ↔ Reach es y x := by
  constructor
  · intro h
    induction h with
    | refl => exact Reach.refl _
    | step _ he ih => exact Reach.head (mem_swapEdges.1 he) ih
  · intro h
    induction h with
    | refl => exact Reach.refl _
    | step _ he ih => exact Reach.head (mem_swapEdges.2 he) ih

/-- reachability stays inside a node set closed under the edges -/
theorem reach_mem_closed {es : List (V × V)} {S : V → Prop} (hcl : ∀ e ∈ es, S e.2) {x y : V} (h : Reach es x y)
    (hx : S x) : S y := by
  cases h with
  | refl => exact hx
  | step _ he => exact hcl _ he

end

section
variable {κ : Type} [DecidableEq κ]

theorem mem_succOf {es : List (κ × κ)} {c s : κ} : s ∈ succOf es c ↔ (c, s) ∈ es := by
  unfold succOf
  constructor
  · intro h
    obtain ⟨e, he, rfl⟩ := List.mem_map.1 h
    have hm := List.mem_filter.1 he
    have : e.1 = c := by simpa using hm.2
    rw [← this]; exact hm.1
  · intro h
    exact List.mem_map.2 ⟨(c, s), List.mem_filter.2 ⟨h, by simp⟩, rfl⟩

theorem mem_lunion {α} [DecidableEq α] {a b : List α} {x : α} : x ∈ lunion a b ↔ x ∈ a ∨ x ∈ b := by
  unfold lunion
  simp only [List.mem_append, List.mem_filter]
  constructor
  · rintro (h | ⟨h, _⟩)
    · exact Or.inl h
    · exact Or.inr h
  · rintro (h | h)
    · exact Or.inl h
    · by_cases ha : x ∈ a
      · exact Or.inl ha
      · exact Or.inr ⟨h, by simp [ha]⟩

@[simp] theorem Tbl.get_set {α} (t : Tbl κ α) (k : κ) (a : α) (x : κ) :
    (t.set k a).get x = if x = k then a else t.get x := rfl

end
end FP
