import FP.Proofs.C05Flow
import FP.Proofs.C05KCoverC
/-!
# FP.Proofs.C05KFDC — `kFlowDecompCycles` (no given weights): the safety options preserve feasibility

* `permLayersK` — the renaming of the columns of `kfdcLP` that belongs to a permutation of the layers: layered
  columns, weight columns, and the bit / component columns of the product blocks (whose names contain the layer);
  `kfdcLP_perm` — T1 for `kfdcLP inp none`;
* `kfdc_cover` — every non-ignored edge with non-zero flow is traversed by some layer;
* `patchBits` — values for the bit / component columns of the product blocks that the simplified rows replaced;
* `kfdc_safety_preserves_proof` — `kfdcLP inp none` is feasible iff `kfdcLPS inp none (safetyExtra … o)` is, for
  every subset `o` of the flags.

As in C04's completeness theorem the model identifies a column with its name, so `NameInj inp` (different product
blocks have different names) is assumed.
-/
namespace FP
open FP.Spec FP.Safety

/-! ## the renaming -/

def permLayersK (inp : WalkInput) (π : Nat → Nat) : Var → Var
  | .ix p j =>
    match (kfdcProds inp).find? (fun q => p = "binary_" ++ kfdcProdName q.1 q.2) with
    | some q => .ix ("binary_" ++ kfdcProdName q.1 (π q.2)) j
    | none =>
      match (kfdcProds inp).find? (fun q => p = "comp_" ++ kfdcProdName q.1 q.2) with
      | some q => .ix ("comp_" ++ kfdcProdName q.1 (π q.2)) j
      | none => if p = "weights" then .ix p (π j) else .ix p j
  | .uvi p u v i => .uvi p u v (π i)
  | .vi p v i => .vi p v (π i)
  | .ij p i j => .ij p (π i) j
  | v => v

theorem permLayersK_isLayerRenaming (inp : WalkInput) (π : Nat → Nat) :
    IsLayerRenaming π (permLayersK inp π) :=
  ⟨fun _ _ _ _ => rfl, fun _ _ _ => rfl, fun _ _ _ => rfl⟩

theorem permLayersK_weights (inp : WalkInput) (π : Nat → Nat) (i : Nat) :
    permLayersK inp π (weightsVar i) = weightsVar (π i) := by
  unfold permLayersK weightsVar
  simp only
  rw [find?_none_of_forall _ _ (fun p _ => by
      have := binary_ne_weights (kfdcProdName p.1 p.2)
      simpa using fun h => this h.symm),
    find?_none_of_forall _ _ (fun p _ => by
      have := comp_ne_weights (kfdcProdName p.1 p.2)
      simpa using fun h => this h.symm)]
  simp

theorem permLayersK_bit (inp : WalkInput) (π : Nat → Nat) (hinj : NameInj inp) (e : Edge) (i : Nat)
    (he : (e, i) ∈ kfdcProds inp) (j : Nat) :
    permLayersK inp π (bitVar (kfdcProdName e i) j) = bitVar (kfdcProdName e (π i)) j := by
  unfold permLayersK bitVar
  simp only
  rw [find?_unique (kfdcProds inp) _ (e, i) he (by simp) (fun q hq hqe => by
    have h1 : "binary_" ++ kfdcProdName e i = "binary_" ++ kfdcProdName q.1 q.2 := by simpa using hqe
    exact hinj q hq (e, i) he ((String.append_right_inj _).1 h1).symm)]

theorem permLayersK_comp (inp : WalkInput) (π : Nat → Nat) (hinj : NameInj inp) (e : Edge) (i : Nat)
    (he : (e, i) ∈ kfdcProds inp) (j : Nat) :
    permLayersK inp π (compVar (kfdcProdName e i) j) = compVar (kfdcProdName e (π i)) j := by
  unfold permLayersK compVar
  simp only
  rw [find?_none_of_forall _ _ (fun p _ => by
      have := binary_ne_comp (kfdcProdName p.1 p.2) (kfdcProdName e i)
      simpa using fun h => this h.symm),
    find?_unique (kfdcProds inp) _ (e, i) he (by simp) (fun q hq hqe => by
      have h1 : "comp_" ++ kfdcProdName e i = "comp_" ++ kfdcProdName q.1 q.2 := by simpa using hqe
      exact hinj q hq (e, i) he ((String.append_right_inj _).1 h1).symm)]

/-- the flow block under the renaming -/
theorem flowParts_perm (inp : WalkInput) (hinj : NameInj inp) (a : Asg) (π : LayerPerm inp.k)
    (h : FlowParts inp [] [] a) : FlowParts inp [] [] (a ∘ permLayersK inp π.fwd) := by
  have hP := permLayersK_isLayerRenaming inp π.fwd
  refine ⟨?_, ?_, ?_, ?_⟩
  · intro i hi e he
    have := h.piCol (π.fwd i) (π.fwd_lt i hi) e he
    simp only [Col.holds, Function.comp] at this ⊢
    have hv : permLayersK inp π.fwd (piVar e i) = piVar e (π.fwd i) := rfl
    rw [hv]; exact this
  · intro i hi
    have := h.wCol (π.fwd i) (π.fwd_lt i hi)
    simp only [Col.holds, Function.comp] at this ⊢
    rw [permLayersK_weights]; exact this
  · intro e he i hi
    rw [prodPart_nil]
    have hm : (e, i) ∈ kfdcProds inp := mem_kfdcProds.2 ⟨he, hi⟩
    apply prodFrag_perm a _ _ _ _ _ _ _ (kfdcProdName e (π.fwd i)) _
      (permLayersK_bit inp π.fwd hinj e i hm) (permLayersK_comp inp π.fwd hinj e i hm)
    have := h.part e he (π.fwd i) (π.fwd_lt i hi)
    rw [prodPart_nil] at this
    rw [permLayersK_weights]
    exact this
  · intro e he
    exact sumRow_perm inp.cfg a π _ (fun i => piVar e i) (fun _ => rfl) _ rfl (h.row10d e he)

/-- **T1 for `kFlowDecompCycles`** (no given weights, safety options off) -/
theorem kfdcLP_perm (inp : WalkInput) (hinj : NameInj inp) (a : Asg) (π : LayerPerm inp.k)
    (h : Sat a (kfdcLP inp none)) : Sat (a ∘ permLayersK inp π.fwd) (kfdcLP inp none) := by
  rw [kfdcLP_none] at h ⊢
  have h1 := walkCore_perm inp.st inp.cfg (kfdcCap inp) a π _ (permLayersK_isLayerRenaming inp π.fwd)
    (sat_append_left a _ _ h)
  have h2 := (sat_kfdcFlowS_iff inp [] [] _).2
    (flowParts_perm inp hinj a π ((sat_kfdcFlowS_iff inp [] [] a).1 (by rw [← kfdcFlow_eq]; exact sat_append_right a _ _ h)))
  rw [← kfdcFlow_eq] at h2
  exact ⟨fun col hc => (List.mem_append.1 hc).elim (h1.1 col) (h2.1 col),
         fun r hr => (List.mem_append.1 hr).elim (h1.2 r) (h2.2 r)⟩

/-! ## the trusted edges are covered -/

theorem kfdc_cover (inp : WalkInput) (a : Asg) (h : Sat a (kfdcLP inp none)) :
    ∀ x ∈ kfdcTrusted inp, ∃ i, i < inp.k ∧ 1 ≤ a (edgeVar x i) := by
  intro x hx
  rw [kfdcLP_none] at h
  obtain ⟨hact, hf⟩ := List.mem_filter.1 hx
  have hxe : x ∈ inp.st.g.edges := (List.mem_filter.1 hact).1
  have hsum := row10d h hact
  have hfne : inp.f x ≠ 0 := by
    unfold WalkInput.f
    simpa using hf
  have hnz : ((List.range inp.k).map fun i => a (piVar x i)).sum ≠ 0 := by rw [hsum]; exact hfne
  obtain ⟨i, hi, hne⟩ := exists_ne_zero_of_sum_ne_zero _ _ hnz
  have hi' : i < inp.k := List.mem_range.1 hi
  refine ⟨i, hi', ?_⟩
  rw [pi_eq h hi' hact] at hne
  have hm := edge_col (sat_enc_of_base h) hi' hxe
  rw [hm] at hne ⊢
  have : multOf a i x ≠ 0 := by
    intro h0; apply hne; rw [h0]; simp [Rat.zero_mul]
  have h2 : ((1 : Nat) : Rat) ≤ (multOf a i x : Rat) := Rat.natCast_le_natCast.2 (by omega)
  simpa using h2

/-! ## frames -/

theorem subsetAsg_pi (a : Asg) (cons : List (List Edge)) (cov : Rat) (e : Edge) (i : Nat) :
    subsetAsg a cons cov (piVar e i) = a (piVar e i) := by simp [subsetAsg, piVar]

theorem subsetAsg_ix (a : Asg) (cons : List (List Edge)) (cov : Rat) (p : String) (j : Nat) :
    subsetAsg a cons cov (.ix p j) = a (.ix p j) := rfl

theorem flowParts_subsetAsg (inp : WalkInput) (b : Asg) (cons : List (List Edge)) (cov : Rat)
    (h : FlowParts inp [] [] b) : FlowParts inp [] [] (subsetAsg b cons cov) := by
  refine ⟨?_, ?_, ?_, ?_⟩
  · intro i hi e he
    have := h.piCol i hi e he
    simp only [Col.holds, subsetAsg_pi] at this ⊢
    exact this
  · intro i hi
    exact h.wCol i hi
  · intro e he i hi
    have := h.part e he i hi
    rw [prodPart_nil] at this ⊢
    exact prodFrag_congr b _ _ _ _ _ _ _ _ (subsetAsg_edge b _ _ e i) rfl (subsetAsg_pi b _ _ e i)
      (fun _ => rfl) (fun _ => rfl) this
  · intro e he
    have := h.row10d e he
    simp only [Row.holds, rowEq, evalTerms_ones, subsetAsg_pi] at this ⊢
    exact this

/-- `_encode_subset_constraints` reads only the edge, used-edge and `r` columns -/
theorem c05_subsetBlock_congr (s : STGraph) (c : WalkCfg) (ub : Edge → Rat) (a a' : Asg)
    (hE : ∀ e i, a' (edgeVar e i) = a (edgeVar e i)) (hU : ∀ e i, a' (usedVar e i) = a (usedVar e i))
    (hR : ∀ i j, a' (rVar i j) = a (rVar i j)) (h : Sat a (subsetBlock s c ub)) :
    Sat a' (subsetBlock s c ub) := by
  by_cases hne : c.constraints.isEmpty = true
  · have : subsetBlock s c ub = {} := by simp [subsetBlock, hne]
    rw [this]
    exact ⟨fun _ hc => by simp at hc, fun _ hr => by simp at hr⟩
  have hne' : c.constraints.isEmpty = false := by simpa using hne
  constructor
  · intro col hcol
    have hh := h.1 col hcol
    obtain ⟨i, _, hm⟩ := (mem_subCols s c ub hne' col).1 hcol
    simp only [subColsAt, List.mem_append, List.mem_map] at hm
    rcases hm with ⟨j, _, rfl⟩ | ⟨e, _, rfl⟩ <;> simp only [Col.holds, hU, hR] at hh ⊢ <;> exact hh
  · intro r hr
    have hh := h.2 r hr
    rcases (mem_subRows s c ub hne' r).1 hr with ⟨i, _, hm⟩ | ⟨j, _, rfl⟩
    · simp only [subRowsAt, List.mem_append, List.mem_map, List.mem_flatMap, List.mem_cons,
        List.not_mem_nil, or_false] at hm
      rcases hm with ⟨e, _, rfl | rfl⟩ | ⟨p, _, rfl⟩
      · simp only [Row.holds, rowLe, evalTerms, List.map_cons, List.map_nil, List.sum_cons, List.sum_nil,
          hE, hU] at hh ⊢
        exact hh
      · simp only [Row.holds, rowLe, evalTerms, List.map_cons, List.map_nil, List.sum_cons, List.sum_nil,
          hE, hU] at hh ⊢
        exact hh
      · simp only [Row.holds, rowGe, evalTerms_append, evalTerms_ones, evalTerms_single, hU, hR] at hh ⊢
        exact hh
    · simp only [Row.holds, rowGe, evalTerms_ones, hR] at hh ⊢
      exact hh

/-! ## the keys of `edges_set_to_zero` / `edges_set_to_one` carry their rows -/

theorem safetyExtra_keys (s : STGraph) (k : Nat) (safe seqs : List (List Edge)) (zs : List (Edge × Nat))
    (o : SafetyOpts) :
    (∀ q ∈ (safetyExtra s k safe seqs zs o).zero,
      rowEq [(1, edgeVar q.1 q.2)] 0 ∈ (safetyExtra s k safe seqs zs o).asRows) ∧
    (∀ q ∈ (safetyExtra s k safe seqs zs o).one,
      rowEq [(1, edgeVar q.1 q.2)] 1 ∈ (safetyExtra s k safe seqs zs o).asRows) := by
  have hz : ∀ l : List (Edge × Nat), ∀ q ∈ l, rowEq [(1, edgeVar q.1 q.2)] 0 ∈ zeroRows l :=
    fun l q hq => List.mem_map.2 ⟨q, hq, rfl⟩
  unfold safetyExtra
  split
  · exact ⟨(fun _ h => nomatch h), (fun _ h => nomatch h)⟩
  split
  · exact ⟨(fun _ h => nomatch h), (fun _ h => nomatch h)⟩
  simp only
  split
  · refine ⟨fun q hq => ?_, fun _ h => nomatch h⟩
    simp only [SafetyFrag.asRows, List.map_nil, List.append_nil]
    exact hz _ q hq
  split
  · refine ⟨fun q hq => ?_, fun q hq => ?_⟩
    · simp only [SafetyFrag.asRows, List.mem_append]
      exact Or.inl (Or.inl (hz _ q hq))
    · simp only [SafetyFrag.asRows, List.mem_append, List.mem_map]
      obtain ⟨p, hp, rfl⟩ := List.mem_map.1 hq
      exact Or.inr ⟨_, ⟨p, hp, rfl⟩, rfl⟩
  · refine ⟨fun q hq => ?_, fun q hq => ?_⟩
    · simp only [SafetyFrag.asRows, List.map_nil, List.append_nil, List.mem_append]
      exact Or.inl (Or.inl (hz _ q hq))
    · simp only [SafetyFrag.asRows, List.map_nil, List.append_nil, List.mem_append]
      obtain ⟨p, hp, rfl⟩ := List.mem_map.1 hq
      exact Or.inr (List.mem_map.2 ⟨p, hp, rfl⟩)

/-! ## forward: from `kfdcLP` to `kfdcLPS` -/

theorem kfdcCap_nonScc (inp : WalkInput) (e : Edge) (he : e ∈ inp.st.g.edges)
    (h : isSccEdge inp.st.g e = false) : kfdcCap inp e = 1 := by
  rw [kfdcCap_eq inp e he, h]; rfl

theorem kfdcLPS_of_kfdcLP (inp : WalkInput) (hb : BaseWF inp.base) (hinj : NameInj inp) (a : Asg)
    (h : Sat a (kfdcLP inp none)) (safe seqs : List (List Edge)) (zs : List (Edge × Nat))
    (D : SafetyData inp.st inp.k (kfdcTrusted inp) safe seqs zs) (o : SafetyOpts)
    (hcons : ∀ con ∈ inp.cfg.constraints, ∀ e ∈ con, e ∈ inp.st.g.edges)
    (hcov1 : inp.cfg.coverage ≤ 1) :
    ∃ a', Sat a' (kfdcLPS inp none (safetyExtra inp.st inp.k safe seqs zs o)) := by
  have hwf : STWFc inp.st := augment_wfc inp.base inp.starts inp.ends hb
  have hub1 : ∀ e ∈ inp.st.g.edges, isSccEdge inp.st.g e = false → 1 ≤ kfdcCap inp e := by
    intro e he hs; rw [kfdcCap_nonScc inp e he hs]; exact Rat.le_refl
  have hcover := kfdc_cover inp a h
  have hbase := h
  rw [kfdcLP_none] at hbase
  obtain ⟨π, _, hall⟩ := walkCoreS_of_walkCore (c := inp.cfg) hwf a (sat_append_left a _ _ hbase)
    (kfdcTrusted inp) (fun x hx => (List.mem_filter.1 (List.mem_filter.1 hx).1).1) hcover safe seqs zs D o
    hcons hcov1 hub1
  obtain ⟨_, hrows, hs'⟩ := hall (permLayersK inp π.fwd) (permLayersK_isLayerRenaming inp π.fwd)
  have fp0 : FlowParts inp [] [] a :=
    (sat_kfdcFlowS_iff inp [] [] a).1 (by rw [← kfdcFlow_eq]; exact sat_append_right a _ _ hbase)
  have fp1 := flowParts_perm inp hinj a π fp0
  have fp2 := flowParts_subsetAsg inp _
    (inp.cfg.constraints ++ (safetyExtra inp.st inp.cfg.k safe seqs zs o).constraints) inp.cfg.coverage fp1
  obtain ⟨hkz, hko⟩ := safetyExtra_keys inp.st inp.k safe seqs zs o
  refine ⟨subsetAsg (a ∘ permLayersK inp π.fwd)
    (inp.cfg.constraints ++ (safetyExtra inp.st inp.cfg.k safe seqs zs o).constraints) inp.cfg.coverage, ?_⟩
  rw [kfdcLPS_none]
  have hflow : Sat (subsetAsg (a ∘ permLayersK inp π.fwd)
      (inp.cfg.constraints ++ (safetyExtra inp.st inp.cfg.k safe seqs zs o).constraints) inp.cfg.coverage)
      (kfdcFlowS inp (safetyExtra inp.st inp.k safe seqs zs o).zero (safetyExtra inp.st inp.k safe seqs zs o).one) := by
    apply (sat_kfdcFlowS_iff inp _ _ _).2
    refine ⟨fp2.piCol, fp2.wCol, ?_, fp2.row10d⟩
    intro e he i hi
    have hw := fp2.wCol i hi
    apply prodPart_simplify inp _ _ _ e i ⟨hw.1, hw.2.1 _ rfl⟩ ?_ ?_ (fp2.part e he i hi)
    · intro hz
      rw [subsetAsg_edge]
      exact (c05_rowEq_single_holds _ _ _).1 (hrows _ (hkz (e, i) hz))
    · intro ho
      rw [subsetAsg_edge]
      exact (c05_rowEq_single_holds _ _ _).1 (hrows _ (hko (e, i) ho))
  exact ⟨fun col hc => (List.mem_append.1 hc).elim (hs'.1 col) (hflow.1 col),
         fun r hr => (List.mem_append.1 hr).elim (hs'.2 r) (hflow.2 r)⟩

/-! ## backward: values for the bit / component columns of the simplified blocks -/

/-- the product blocks whose rows were simplified -/
def patchKeys (inp : WalkInput) (zero one : List (Edge × Nat)) : List (Edge × Nat) :=
  (kfdcProds inp).filter fun q => zero.contains q || one.contains q

/-- give the bit / component columns of the blocks in `K` the binary digits of the block's multiplicity
(times the layer's weight) -/
def patchBits (K : List (Edge × Nat)) (a : Asg) : Asg := fun v =>
  match v with
  | .ix p j =>
    match K.find? (fun q => p = "binary_" ++ kfdcProdName q.1 q.2) with
    | some q => bitOf (multOf a q.2 q.1) j
    | none =>
      match K.find? (fun q => p = "comp_" ++ kfdcProdName q.1 q.2) with
      | some q => bitOf (multOf a q.2 q.1) j * a (weightsVar q.2)
      | none => a v
  | _ => a v

section Patch
variable (inp : WalkInput) (K : List (Edge × Nat)) (a : Asg)

theorem patchBits_weights (i : Nat) : patchBits K a (weightsVar i) = a (weightsVar i) := by
  unfold patchBits weightsVar
  simp only
  rw [find?_none_of_forall _ _ (fun p _ => by
      have := binary_ne_weights (kfdcProdName p.1 p.2)
      simpa using fun h => this h.symm),
    find?_none_of_forall _ _ (fun p _ => by
      have := comp_ne_weights (kfdcProdName p.1 p.2)
      simpa using fun h => this h.symm)]

theorem patchBits_bit_in (hinj : NameInj inp) (hK : ∀ q ∈ K, q ∈ kfdcProds inp) (e : Edge) (i : Nat)
    (he : (e, i) ∈ K) (j : Nat) :
    patchBits K a (bitVar (kfdcProdName e i) j) = bitOf (multOf a i e) j := by
  unfold patchBits bitVar
  simp only
  rw [find?_unique K _ (e, i) he (by simp) (fun q hq hqe => by
    have h1 : "binary_" ++ kfdcProdName e i = "binary_" ++ kfdcProdName q.1 q.2 := by simpa using hqe
    exact hinj q (hK q hq) (e, i) (hK _ he) ((String.append_right_inj _).1 h1).symm)]

theorem patchBits_comp_in (hinj : NameInj inp) (hK : ∀ q ∈ K, q ∈ kfdcProds inp) (e : Edge) (i : Nat)
    (he : (e, i) ∈ K) (j : Nat) :
    patchBits K a (compVar (kfdcProdName e i) j) = bitOf (multOf a i e) j * a (weightsVar i) := by
  unfold patchBits compVar
  simp only
  rw [find?_none_of_forall _ _ (fun p _ => by
      have := binary_ne_comp (kfdcProdName p.1 p.2) (kfdcProdName e i)
      simpa using fun h => this h.symm),
    find?_unique K _ (e, i) he (by simp) (fun q hq hqe => by
      have h1 : "comp_" ++ kfdcProdName e i = "comp_" ++ kfdcProdName q.1 q.2 := by simpa using hqe
      exact hinj q (hK q hq) (e, i) (hK _ he) ((String.append_right_inj _).1 h1).symm)]

theorem patchBits_bit_out (hinj : NameInj inp) (hK : ∀ q ∈ K, q ∈ kfdcProds inp) (e : Edge) (i : Nat)
    (he : (e, i) ∈ kfdcProds inp) (hout : (e, i) ∉ K) (j : Nat) :
    patchBits K a (bitVar (kfdcProdName e i) j) = a (bitVar (kfdcProdName e i) j) := by
  unfold patchBits bitVar
  simp only
  rw [find?_none_of_forall _ _ (fun q hq => by
      have : kfdcProdName e i ≠ kfdcProdName q.1 q.2 := fun hn =>
        hout (by rw [← hinj q (hK q hq) (e, i) he hn.symm]; exact hq)
      simpa using this),
    find?_none_of_forall _ _ (fun q _ => by
      have := binary_ne_comp (kfdcProdName e i) (kfdcProdName q.1 q.2)
      simpa using this)]

theorem patchBits_comp_out (hinj : NameInj inp) (hK : ∀ q ∈ K, q ∈ kfdcProds inp) (e : Edge) (i : Nat)
    (he : (e, i) ∈ kfdcProds inp) (hout : (e, i) ∉ K) (j : Nat) :
    patchBits K a (compVar (kfdcProdName e i) j) = a (compVar (kfdcProdName e i) j) := by
  unfold patchBits compVar
  simp only
  rw [find?_none_of_forall _ _ (fun q _ => by
      have := binary_ne_comp (kfdcProdName q.1 q.2) (kfdcProdName e i)
      simpa using fun h => this h.symm),
    find?_none_of_forall _ _ (fun q hq => by
      have : kfdcProdName e i ≠ kfdcProdName q.1 q.2 := fun hn =>
        hout (by rw [← hinj q (hK q hq) (e, i) he hn.symm]; exact hq)
      simpa using this)]

end Patch

theorem c05_floor_toNat_natCast (n : Nat) : ((n : Rat)).floor.toNat = n := by
  rw [← Rat.intCast_natCast, Rat.floor_intCast]
  simp

theorem c05_multOf_of_eq (a : Asg) (i : Nat) (e : Edge) (n : Nat) (h : a (edgeVar e i) = (n : Rat)) :
    multOf a i e = n := by
  unfold multOf; rw [h, pyRoundCount_natCast]

theorem c05_one_lt_two_pow_qBits (ub : Rat) (h : 0 < ub) : 1 < 2 ^ qBitsOf ub := by
  unfold qBitsOf
  split
  · rename_i hd
    apply lt_two_pow_numBits
    have := rat_eq_natCast_of_den_one ub hd.1 hd.2
    rw [this] at h
    have h0 : ((0 : Nat) : Rat) < ((ub.num.toNat : Nat) : Rat) := by simpa using h
    have := Rat.natCast_lt_natCast.1 h0
    omega
  · apply lt_two_pow_numBits
    have h1 : (0 : Rat) < ((ub.ceil : Int) : Rat) := by
      have := Rat.le_ceil (x := ub)
      grind
    have h2 : ((0 : Int) : Rat) < ((ub.ceil : Int) : Rat) := by simpa using h1
    have := Rat.intCast_lt_intCast.1 h2
    omega

theorem safetyExtra_one_seqs (s : STGraph) (k : Nat) (safe seqs : List (List Edge)) (zs : List (Edge × Nat))
    (o : SafetyOpts) (q : Edge × Nat) (hq : q ∈ (safetyExtra s k safe seqs zs o).one) : seqs ≠ [] := by
  have hone : ∀ p ∈ eqEntries s.g k seqs, seqs ≠ [] := by
    intro p hp
    obtain ⟨hj, _, _⟩ := (mem_seqEntries k seqs p.1 p.2.1 p.2.2).1 (List.mem_filter.1 hp).1
    intro h0; rw [h0] at hj; simp at hj
  unfold safetyExtra at hq
  split at hq
  · cases hq
  split at hq
  · cases hq
  simp only at hq
  split at hq
  · cases hq
  split at hq
  · obtain ⟨p, hp, _⟩ := List.mem_map.1 hq; exact hone p hp
  · obtain ⟨p, hp, _⟩ := List.mem_map.1 hq; exact hone p hp

theorem kfdcLP_of_kfdcLPS (inp : WalkInput) (hinj : NameInj inp) (a : Asg)
    (safe seqs : List (List Edge)) (zs : List (Edge × Nat))
    (D : SafetyData inp.st inp.k (kfdcTrusted inp) safe seqs zs) (o : SafetyOpts)
    (hwm : kfdcTrusted inp ≠ [] → 0 < inp.wmax false)
    (hub1 : ∀ e ∈ inp.st.g.edges, isSccEdge inp.st.g e = false → 1 ≤ kfdcCap inp e)
    (h : Sat a (kfdcLPS inp none (safetyExtra inp.st inp.k safe seqs zs o))) :
    ∃ a', Sat a' (kfdcLP inp none) := by
  let fr := safetyExtra inp.st inp.k safe seqs zs o
  have hok : BoundsOK inp.st inp.cfg.k (kfdcCap inp) (safetyExtra inp.st inp.k safe seqs zs o) :=
    safetyExtra_boundsOK inp.st inp.k (kfdcCap inp) safe seqs zs o D.seqEdges hub1
  rw [kfdcLPS_none] at h
  have h1 := sat_append_left a _ _ h
  have hfl := (sat_kfdcFlowS_iff inp _ _ a).1 (sat_append_right a _ _ h)
  have hcore := walkCore_of_walkCoreS (c := inp.cfg) _ hok a h1
  have hasr := ((sat_walkCoreS_iff inp.st inp.cfg (kfdcCap inp) _ hok a).1 h1).2.1
  obtain ⟨hkz, hko⟩ := safetyExtra_keys inp.st inp.k safe seqs zs o
  have hz : ∀ q ∈ (safetyExtra inp.st inp.k safe seqs zs o).zero, a (edgeVar q.1 q.2) = 0 :=
    fun q hq => (c05_rowEq_single_holds _ _ _).1 (hasr _ (hkz q hq))
  have ho : ∀ q ∈ (safetyExtra inp.st inp.k safe seqs zs o).one, a (edgeVar q.1 q.2) = 1 :=
    fun q hq => (c05_rowEq_single_holds _ _ _).1 (hasr _ (hko q hq))
  let K := patchKeys inp (safetyExtra inp.st inp.k safe seqs zs o).zero (safetyExtra inp.st inp.k safe seqs zs o).one
  have hK : ∀ q ∈ K, q ∈ kfdcProds inp := fun q hq => (List.mem_filter.1 hq).1
  refine ⟨patchBits K a, ?_⟩
  rw [kfdcLP_none]
  have hc1 : Sat (patchBits K a) (kfdcCore inp) := by
    unfold kfdcCore walkCore
    have e1 := c05_encodeWalks_congr inp.st inp.cfg (kfdcCap inp) a (patchBits K a) (fun _ _ => rfl) (fun _ _ => rfl)
      (fun _ _ => rfl) (sat_append_left a _ _ hcore)
    have e2 := c05_subsetBlock_congr inp.st inp.cfg (kfdcCap inp) a (patchBits K a) (fun _ _ => rfl) (fun _ _ => rfl)
      (fun _ _ => rfl) (sat_append_right a _ _ hcore)
    exact ⟨fun col hc => (List.mem_append.1 hc).elim (e1.1 col) (e2.1 col),
           fun r hr => (List.mem_append.1 hr).elim (e1.2 r) (e2.2 r)⟩
  have hc2 : Sat (patchBits K a) (kfdcFlow inp) := by
    rw [kfdcFlow_eq]
    apply (sat_kfdcFlowS_iff inp [] [] _).2
    refine ⟨?_, ?_, ?_, ?_⟩
    · intro i hi e he
      exact hfl.piCol i hi e he
    · intro i hi
      have := hfl.wCol i hi
      simp only [Col.holds, patchBits_weights] at this ⊢
      exact this
    · intro e he i hi
      have hm : (e, i) ∈ kfdcProds inp := mem_kfdcProds.2 ⟨he, hi⟩
      have hw := hfl.wCol i hi
      have hw' : 0 ≤ patchBits K a (weightsVar i) ∧ patchBits K a (weightsVar i) ≤ inp.wmax false := by
        rw [patchBits_weights]; exact ⟨hw.1, hw.2.1 _ rfl⟩
      have hub0 : 0 ≤ inp.wmax false := Rat.le_trans hw.1 (hw.2.1 _ rfl)
      have hpart := hfl.part e he i hi
      rw [prodPart_nil]
      by_cases hcz : (e, i) ∈ (safetyExtra inp.st inp.k safe seqs zs o).zero
      · have hinK : (e, i) ∈ K := List.mem_filter.2 ⟨hm, by simp [hcz]⟩
        have hx : a (edgeVar e i) = ((0 : Nat) : Rat) := by rw [hz _ hcz]; simp
        have hmult := c05_multOf_of_eq a i e 0 hx
        have hpi : a (piVar e i) = 0 := by
          unfold prodPart at hpart
          rw [if_pos (by simpa using hcz)] at hpart
          exact (c05_rowEq_single_holds _ _ _).1 (hpart.2 _ (List.mem_singleton.2 rfl))
        apply prodFrag_sat_of_values (patchBits K a) _ _ _ 0 _ _ _ 0
          (show patchBits K a (edgeVar e i) = _ from hx) (Nat.two_pow_pos _) Rat.le_refl hub0 hw'
        · show a (piVar e i) = a (edgeVar e i) * patchBits K a (weightsVar i)
          rw [hpi, hx]; simp [Rat.zero_mul]
        · intro j; rw [patchBits_bit_in inp K a hinj hK e i hinK, hmult]
        · intro j; rw [patchBits_comp_in inp K a hinj hK e i hinK, hmult, patchBits_weights]
      · by_cases hco : (e, i) ∈ (safetyExtra inp.st inp.k safe seqs zs o).one
        · have hinK : (e, i) ∈ K := List.mem_filter.2 ⟨hm, by simp [hco]⟩
          have hx : a (edgeVar e i) = ((1 : Nat) : Rat) := by rw [ho _ hco]; simp
          have hmult := c05_multOf_of_eq a i e 1 hx
          have hpi : a (piVar e i) = a (weightsVar i) := by
            unfold prodPart at hpart
            rw [if_neg (by simpa using hcz), if_pos (by simpa using hco)] at hpart
            have hr := hpart.2 _ (List.mem_singleton.2 rfl)
            simp only [Row.holds, rowEq, evalTerms, List.map_cons, List.map_nil, List.sum_cons, List.sum_nil] at hr
            have r1 := hr.1 0 rfl
            have r2 := hr.2 0 rfl
            grind
          have hT : kfdcTrusted inp ≠ [] := by
            have hs := safetyExtra_one_seqs inp.st inp.k safe seqs zs o (e, i) hco
            cases hseq : seqs with
            | nil => exact absurd hseq hs
            | cons q qs =>
              intro hnil
              have hsf := D.seqsOK q (by rw [hseq]; exact List.mem_cons_self ..)
              rw [hnil] at hsf
              obtain ⟨w, hw, _⟩ := hsf [] (fun _ h => nomatch h) (fun _ h => nomatch h)
              cases hw
          apply prodFrag_sat_of_values (patchBits K a) _ _ _ 0 _ _ _ 1
            (show patchBits K a (edgeVar e i) = _ from hx) (c05_one_lt_two_pow_qBits _ (hwm hT))
            Rat.le_refl hub0 hw'
          · show a (piVar e i) = a (edgeVar e i) * patchBits K a (weightsVar i)
            rw [hpi, hx, patchBits_weights]; simp [Rat.one_mul]
          · intro j; rw [patchBits_bit_in inp K a hinj hK e i hinK, hmult]
          · intro j; rw [patchBits_comp_in inp K a hinj hK e i hinK, hmult, patchBits_weights]
        · have hout : (e, i) ∉ K := by
            intro hin
            have := (List.mem_filter.1 hin).2
            simp [hcz, hco] at this
          have hp : Sat a (prodFrag (edgeVar e i) (weightsVar i) (piVar e i) 0 (inp.wmax false)
              (kfdcProdName e i) (qBitsOf (inp.wmax false))) := by
            unfold prodPart at hpart
            rw [if_neg (by simpa using hcz), if_neg (by simpa using hco), intProdQ_eq] at hpart
            exact hpart
          exact prodFrag_congr a (patchBits K a) _ _ _ _ _ _ _ rfl (patchBits_weights K a i) rfl
            (patchBits_bit_out inp K a hinj hK e i hm hout) (patchBits_comp_out inp K a hinj hK e i hm hout) hp
    · intro e he
      have := hfl.row10d e he
      simp only [Row.holds, rowEq, evalTerms_ones] at this ⊢
      exact this
  exact ⟨fun col hc => (List.mem_append.1 hc).elim (hc1.1 col) (hc2.1 col),
         fun r hr => (List.mem_append.1 hr).elim (hc1.2 r) (hc2.2 r)⟩

/-- **T3 + T4 for `kFlowDecompCycles`** (no given weights), every subset of the flags: the k-model with the
options is feasible iff the k-model without them is -/
theorem kfdc_safety_preserves_proof (inp : WalkInput) (hb : BaseWF inp.base) (hinj : NameInj inp)
    (safe seqs : List (List Edge)) (zs : List (Edge × Nat))
    (D : SafetyData inp.st inp.k (kfdcTrusted inp) safe seqs zs) (o : SafetyOpts)
    (hcons : ∀ con ∈ inp.cfg.constraints, ∀ e ∈ con, e ∈ inp.st.g.edges)
    (hcov1 : inp.cfg.coverage ≤ 1)
    (hwm : kfdcTrusted inp ≠ [] → 0 < inp.wmax false) :
    (∃ a, Sat a (kfdcLP inp none)) ↔
      (∃ a, Sat a (kfdcLPS inp none (safetyExtra inp.st inp.k safe seqs zs o))) := by
  have hub1 : ∀ e ∈ inp.st.g.edges, isSccEdge inp.st.g e = false → 1 ≤ kfdcCap inp e := by
    intro e he hs; rw [kfdcCap_nonScc inp e he hs]; exact Rat.le_refl
  constructor
  · rintro ⟨a, ha⟩
    exact kfdcLPS_of_kfdcLP inp hb hinj a ha safe seqs zs D o hcons hcov1
  · rintro ⟨a, ha⟩
    exact kfdcLP_of_kfdcLPS inp hinj a safe seqs zs D o hwm hub1 ha

/-- `kFlowDecompCycles`, with the fragment computed by `safetyPipeline` -/
theorem kfdc_pipeline_preserves_proof (inp : WalkInput) (hb : BaseWF inp.base) (hinj : NameInj inp)
    (X : List Edge) (hX : ∀ x ∈ X, x ∈ kfdcTrusted inp) (mapping : List (Node × Nat))
    (anti : List (String × String)) (o : SafetyOpts) (fr : SafetyFrag)
    (h : safetyPipeline inp.st inp.k X mapping anti o = .ok fr)
    (hanti : AntichainHyp ⟨inp.st.g, mapping⟩ inp.st.source inp.st.sink anti)
    (hshare : ∀ safe, maxSafeSeqs inp.st.g inp.st.source inp.st.sink X = .ok safe →
      NoSharedParallel ⟨inp.st.g, mapping⟩ safe anti)
    (hcons : ∀ con ∈ inp.cfg.constraints, ∀ e ∈ con, e ∈ inp.st.g.edges)
    (hcov1 : inp.cfg.coverage ≤ 1)
    (hwm : kfdcTrusted inp ≠ [] → 0 < inp.wmax false) :
    (∃ a, Sat a (kfdcLP inp none)) ↔ (∃ a, Sat a (kfdcLPS inp none fr)) := by
  have hwf : STWFc inp.st := augment_wfc inp.base inp.starts inp.ends hb
  obtain ⟨safe, seqs, zs, rfl, D⟩ := safetyData_of_pipeline inp.st hwf.closed inp.k X (kfdcTrusted inp) hX
    mapping anti o fr h hanti hshare
  exact kfdc_safety_preserves_proof inp hb hinj safe seqs zs D o hcons hcov1 hwm

end FP
