import FP.Proofs.KLAECComplete
import FP.Proofs.KMPECComplete
import FP.Proofs.WalkCoreExample
/-!
# FP.Proofs.KLAECExample — a concrete cyclic instance of the two error models

The instance of the findings C07-laecycles-wmax-cuts-optimum / C08-mpecycles-wmax-cuts-optimum:
`s → a → b → a` (a 2-cycle `a ⇄ b`), additional end `b`, flow values `f(s,a) = 4`, `f(a,b) = 0`,
`f(b,a) = 4`, `error_scaling = {(a,b): 1/4}`, `weight_type = int`, `k = 1`; hence `w_max = 4`, the caps of
the two cycle edges are `4`, and every product block has `3` bits.

* the walk `s a b a b` (once round the cycle) with weight `2` — products `2·2 = 4 ≤ w_max` — is within
  the caps: `laec_within`, `mpec_within` (slack `2`); the completeness theorems turn it into satisfying
  assignments of `klaecLP` / `kmpecLP` with objectives `5` and `2`;
* the same walk with weight `4` has total error `2` (< 5) resp. admits slack `1` (< 2), but its product
  `4·2 = 8` exceeds `w_max = 4`: it is *not* within the caps (`laec_cut_off`, `mpec_cut_off`).
-/
namespace FP.CycleWitness
open FP FP.Spec FP.Spec.MPE

def base : Graph := { nodes := ["s", "a", "b"], edges := [("s", "a"), ("a", "b"), ("b", "a")] }

def inp : WalkInput :=
  { base := base, flow := [(("s", "a"), 4), (("a", "b"), 0), (("b", "a"), 4)], ends := ["b"],
    weightInt := true, scaling := [(("a", "b"), 1/4)], cfg := { k := 1 } }

theorem base_wf : BaseWF inp.base where
  edgesNodup := by decide
  nodesNodup := by decide
  closed := by decide
  freshSrc := by decide
  freshSnk := by decide

def walk : Nat → List Node := fun _ => ["s", "a", "b", "a", "b"]

theorem wmax_val : inp.wmax true = 4 := by decide +kernel
theorem bits_val : klaecBits inp = 3 := by decide +kernel
theorem active_val : inp.activeEdges true = [("s", "a"), ("a", "b"), ("b", "a")] := by decide +kernel
theorem cap_cycle : klaecCap inp ("a", "b") = 4 ∧ klaecCap inp ("b", "a") = 4 ∧ klaecCap inp ("s", "a") = 1 := by
  decide +kernel

theorem laec_names : KlaecNameInj inp := by
  unfold KlaecNameInj
  decide +kernel

theorem mpec_names : KmpecNameInj inp := by
  unfold KmpecNameInj
  decide +kernel

theorem flows_int : inp.weightInt = true → ∀ e ∈ inp.activeEdges true, IsInt (inp.f e) := by
  intro _ e he
  have h : inp.f e = ((inp.f e).floor : Rat) := by
    revert e
    decide +kernel
  exact ⟨_, h⟩

theorem scale_nonneg : ∀ e ∈ inp.activeEdges true, 0 ≤ inp.scale e := by decide +kernel

/-- once round the cycle with weight 2: within the caps of `kLeastAbsErrorsCycles` -/
theorem laec_within : LaecWithinCaps inp walk (fun _ => 2) where
  isWalk := by intro i _; simp only [walk]; unfold IsWalkIn; decide +kernel
  withinCap := by intro i _; simp only [walk]; decide +kernel
  weights := by
    intro i _
    exact ⟨by decide +kernel, by decide +kernel, fun _ => ⟨2, by decide +kernel⟩⟩
  multBits := by intro i _; simp only [walk]; decide +kernel
  prodLe := by intro i _; simp only [walk]; decide +kernel
  errLe := by decide +kernel
  covered := by intro j hj; exact absurd hj (Nat.not_lt_zero j)

theorem laec_totalErr : LAEC.totalErr inp walk (fun _ => 2) = 5 := by decide +kernel

/-- … and with slack 2 within the caps of `kMinPathErrorCycles` -/
theorem mpec_within : MpecWithinCaps inp walk (fun _ => 2) (fun _ => 2) where
  isWalk := by intro i _; simp only [walk]; unfold IsWalkIn; decide +kernel
  withinCap := by intro i _; simp only [walk]; decide +kernel
  weights := by
    intro i _
    exact ⟨by decide +kernel, by decide +kernel, fun _ => ⟨2, by decide +kernel⟩⟩
  slacks := by
    intro i _
    exact ⟨by decide +kernel, by decide +kernel, fun _ => ⟨2, by decide +kernel⟩⟩
  multBits := by intro i _; simp only [walk]; decide +kernel
  prodLe := by intro i _; simp only [walk]; decide +kernel
  slackOK := by unfold MPEC.SlackOK; decide +kernel
  covered := by intro j hj; exact absurd hj (Nat.not_lt_zero j)

/-- satisfying assignments of the two LPs (all columns explicit) -/
theorem laec_sat : Sat (klaecWalkAsg inp walk (fun _ => 2)) (klaecLP inp) :=
  (klaec_complete_within_caps_proof inp walk _ base_wf (by decide) laec_names flows_int laec_within).1

theorem mpec_sat : Sat (kmpecWalkAsg inp walk (fun _ => 2) (fun _ => 2)) (kmpecLP inp) :=
  (kmpec_complete_within_caps_proof inp walk _ _ base_wf (by decide) mpec_names scale_nonneg
    mpec_within).1

/-- the same assignment checked directly, column by column and row by row (independent of the
completeness proof): 42 columns and 71 rows for `klaecLP`, 63 columns and 113 rows for `kmpecLP` -/
theorem laec_sat_checked : Sat (klaecWalkAsg inp walk (fun _ => 2)) (klaecLP inp) :=
  WalkCoreExample.sat_of_check _ _ (by decide +kernel) (by decide +kernel)

theorem mpec_sat_checked : Sat (kmpecWalkAsg inp walk (fun _ => 2) (fun _ => 2)) (kmpecLP inp) :=
  WalkCoreExample.sat_of_check _ _ (by decide +kernel) (by decide +kernel)

example : (klaecLP inp).cols.length = 42 ∧ (klaecLP inp).rows.length = 71 ∧
    (kmpecLP inp).cols.length = 63 ∧ (kmpecLP inp).rows.length = 113 := by decide +kernel

theorem laec_decode : decodeWalkLayer inp.st (klaecWalkAsg inp walk (fun _ => 2)) 0
    = ["s", "a", "b", "a", "b"] := by decide +kernel

theorem mpec_decode : decodeWalkLayer inp.st (kmpecWalkAsg inp walk (fun _ => 2) (fun _ => 2)) 0
    = ["s", "a", "b", "a", "b"] := by decide +kernel

/-! ## what the bound `w_max` cuts off -/

/-- weight 4 on the same walk: total scaled error `2` instead of `5`, weight within `[0, w_max]`, walk
within the repetition caps … -/
theorem laec_better_family :
    LAEC.totalErr inp walk (fun _ => 4) = 2 ∧ (4 : Rat) ≤ inp.wmax true ∧
    (∀ e ∈ inp.st.g.edges, (traversals (inp.st.source :: walk 0 ++ [inp.st.sink]) e : Rat) ≤ klaecCap inp e) := by
  decide +kernel

/-- … but the product `4 · 2 = 8` on `(a, b)` (and the error `8` there) exceeds `w_max = 4`: the family
is not within the caps -/
theorem laec_cut_off : ¬ LaecWithinCaps inp walk (fun _ => 4) := by
  intro h
  have := (h.prodLe 0 (by decide) ("a", "b") (by decide +kernel))
  exact absurd this (by decide +kernel)

/-- weight 4 and slack 1 on the same walk satisfy the slack inequality on every non-ignored edge … -/
theorem mpec_better_family :
    ∀ e ∈ inp.activeEdges true, MPEC.SlackOK inp walk (fun _ => 4) (fun _ => 1) e := by
  unfold MPEC.SlackOK
  decide +kernel

/-- … but are not within the caps either (`pi(a,b) = 8 > w_max`) -/
theorem mpec_cut_off : ¬ MpecWithinCaps inp walk (fun _ => 4) (fun _ => 1) := by
  intro h
  have := (h.prodLe 0 (by decide) ("a", "b") (by decide +kernel)).1
  exact absurd this (by decide +kernel)

/-! ## the optimum of the two LPs on this instance -/

theorem st_edges : inp.st.g.edges = [("s", "a"), ("a", "b"), ("b", "a"), ("b", "sink"), ("source", "s")] := by
  decide +kernel

theorem explained_one (walk' : Nat → List Node) (w' : Nat → Rat) (e : Edge) :
    walkExplained inp.st.source inp.st.sink inp.k walk' w' e
      = w' 0 * (traversals (inp.st.source :: walk' 0 ++ [inp.st.sink]) e : Rat) := by
  show ((List.range 1).map fun i =>
    w' i * (traversals (inp.st.source :: walk' i ++ [inp.st.sink]) e : Rat)).sum = _
  simp [List.range_succ, Rat.add_zero]

/-- every source-to-sink walk of the augmented graph runs through `(s,a)` once and through `(a,b)` once
more than through `(b,a)` -/
theorem walk_shape (p : List Node) (ub : Edge → Rat)
    (hW : IsWalkIn inp.st.g (inp.st.source :: p ++ [inp.st.sink]))
    (hcap : ∀ e ∈ inp.st.g.edges, (traversals (inp.st.source :: p ++ [inp.st.sink]) e : Rat) ≤ ub e) :
    traversals (inp.st.source :: p ++ [inp.st.sink]) ("s", "a") = 1 ∧
    traversals (inp.st.source :: p ++ [inp.st.sink]) ("a", "b")
      = 1 + traversals (inp.st.source :: p ++ [inp.st.sink]) ("b", "a") := by
  have hwf : STWFc inp.st := augment_wfc _ _ _ base_wf
  have hL := walk_layer_witness inp.st hwf inp.cfg.allowEmpty ub p hW hcap
  generalize traversals (inp.st.source :: p ++ [inp.st.sink]) = m at *
  have hsrc := hL.src
  have hs := hL.cons "s" (by decide +kernel) (by decide +kernel) (by decide +kernel)
  have ha := hL.cons "a" (by decide +kernel) (by decide +kernel) (by decide +kernel)
  have hae : inp.cfg.allowEmpty = false := rfl
  have hsn : inp.st.source = "source" := rfl
  rw [hae] at hsrc
  simp [outN, inN, st_edges, hsn] at hsrc hs ha
  omega

/-- **every family within the caps has total scaled error at least `5`** -/
theorem laec_lower_bound (walk' : Nat → List Node) (w' : Nat → Rat) (h : LaecWithinCaps inp walk' w') :
    5 ≤ LAEC.totalErr inp walk' w' := by
  obtain ⟨h1, h2n⟩ := walk_shape (walk' 0) _ (h.isWalk 0 (by decide)) (h.withinCap 0 (by decide))
  have hp := h.prodLe 0 (by decide) ("a", "b") (by decide +kernel)
  have hw := h.weights 0 (by decide)
  unfold LAEC.totalErr LAEC.absErr
  rw [active_val]
  simp only [explained_one, List.map_cons, List.map_nil, List.sum_cons, List.sum_nil]
  generalize traversals (inp.st.source :: walk' 0 ++ [inp.st.sink]) = m at *
  have hsc1 : inp.scale ("s", "a") = 1 := by decide +kernel
  have hsc2 : inp.scale ("a", "b") = 1/4 := by decide +kernel
  have hsc3 : inp.scale ("b", "a") = 1 := by decide +kernel
  have hf1 : inp.f ("s", "a") = 4 := by decide +kernel
  have hf2 : inp.f ("a", "b") = 0 := by decide +kernel
  have hf3 : inp.f ("b", "a") = 4 := by decide +kernel
  rw [wmax_val] at hp
  have h2 : (m ("a", "b") : Rat) = 1 + (m ("b", "a") : Rat) := by
    rw [h2n]; simp [Rat.natCast_add]
  rw [hsc1, hsc2, hsc3, hf1, hf2, hf3, h1, h2]
  rw [h2] at hp
  generalize (m ("b", "a") : Rat) = j at *
  have a1 := le_abs (4 - w' 0 * ((1 : Nat) : Rat))
  have a2 := neg_le_abs (0 - w' 0 * (1 + j))
  have a3 := le_abs (4 - w' 0 * j)
  simp at a1
  grind

/-- **the optimum of `klaecLP` on this instance is `5`**: no satisfying assignment is cheaper … -/
theorem laec_lp_lower_bound (a : Asg) (hsat : Sat a (klaecLP inp)) : 5 ≤ evalTerms a (klaecLP inp).obj :=
  Rat.le_trans (laec_lower_bound _ _ (klaec_decoded_within_caps inp a base_wf rfl rfl hsat))
    (klaec_obj_ge inp a base_wf scale_nonneg hsat)

theorem laec_obj : evalTerms (klaecWalkAsg inp walk (fun _ => 2)) (klaecLP inp).obj = 5 := by
  rw [(klaec_complete_within_caps_proof inp walk _ base_wf (by decide) laec_names flows_int
    laec_within).2.2.2.2]
  exact laec_totalErr

/-- … and `klaecWalkAsg inp walk 2` attains it -/
theorem laec_optimal (a' : Asg) (hsat : Sat a' (klaecLP inp)) :
    evalTerms (klaecWalkAsg inp walk (fun _ => 2)) (klaecLP inp).obj ≤ evalTerms a' (klaecLP inp).obj := by
  rw [laec_obj]; exact laec_lp_lower_bound a' hsat

/-- **every family within the caps of `kMinPathErrorCycles` has total slack at least `2`** -/
theorem mpec_lower_bound (walk' : Nat → List Node) (w' sl' : Nat → Rat)
    (h : MpecWithinCaps inp walk' w' sl') : 2 ≤ totalSlack inp.k sl' := by
  obtain ⟨h1, h2n⟩ := walk_shape (walk' 0) _ (h.isWalk 0 (by decide)) (h.withinCap 0 (by decide))
  have hp := (h.prodLe 0 (by decide) ("a", "b") (by decide +kernel)).1
  have hw := (h.weights 0 (by decide)).1
  have hs := (h.slacks 0 (by decide)).1
  have ok1 := h.slackOK ("s", "a") (by decide +kernel)
  have ok3 := h.slackOK ("b", "a") (by decide +kernel)
  unfold MPEC.SlackOK at ok1 ok3
  simp only [explained_one] at ok1 ok3
  have hts : totalSlack inp.k sl' = sl' 0 := by
    show ((List.range 1).map sl').sum = _
    simp [List.range_succ, Rat.add_zero]
  rw [hts]
  generalize traversals (inp.st.source :: walk' 0 ++ [inp.st.sink]) = m at *
  have hsc1 : inp.scale ("s", "a") = 1 := by decide +kernel
  have hsc3 : inp.scale ("b", "a") = 1 := by decide +kernel
  have hf1 : inp.f ("s", "a") = 4 := by decide +kernel
  have hf3 : inp.f ("b", "a") = 4 := by decide +kernel
  rw [wmax_val] at hp
  have h2 : (m ("a", "b") : Rat) = 1 + (m ("b", "a") : Rat) := by
    rw [h2n]; simp [Rat.natCast_add]
  rw [hsc1, hf1, h1] at ok1
  rw [hsc3, hf3] at ok3
  rw [h2] at hp
  have a1 := le_abs (4 - w' 0 * ((1 : Nat) : Rat))
  have a3 := le_abs (4 - w' 0 * (m ("b", "a") : Rat))
  simp at a1 ok1
  -- the walk must go round the cycle at least once: otherwise `(b,a)` has error 4 and no slack
  have hj : 1 ≤ m ("b", "a") := by
    apply Classical.byContradiction
    intro hne
    have h0 : m ("b", "a") = 0 := by omega
    rw [h0] at ok3 a3
    simp at ok3 a3
    grind
  have hj' : (1 : Rat) ≤ (m ("b", "a") : Rat) := by
    have : ((1 : Nat) : Rat) ≤ (m ("b", "a") : Rat) := Rat.natCast_le_natCast.2 hj
    simpa using this
  generalize (m ("b", "a") : Rat) = j at *
  have hmul := Rat.mul_nonneg hw (show (0 : Rat) ≤ j - 1 by grind)
  grind

/-- **the optimum of `kmpecLP` on this instance is `2`** -/
theorem mpec_lp_lower_bound (a : Asg) (hsat : Sat a (kmpecLP inp)) : 2 ≤ evalTerms a (kmpecLP inp).obj := by
  rw [kmpecLP_obj]
  exact mpec_lower_bound _ _ _ (kmpec_decoded_within_caps inp a base_wf rfl rfl hsat)

theorem mpec_obj : evalTerms (kmpecWalkAsg inp walk (fun _ => 2) (fun _ => 2)) (kmpecLP inp).obj = 2 := by
  rw [(kmpec_complete_within_caps_proof inp walk _ _ base_wf (by decide) mpec_names scale_nonneg
    mpec_within).2.2.2]
  show ((List.range 1).map fun _ => (2 : Rat)).sum = 2
  simp [List.range_succ, Rat.add_zero]

theorem mpec_optimal (a' : Asg) (hsat : Sat a' (kmpecLP inp)) :
    evalTerms (kmpecWalkAsg inp walk (fun _ => 2) (fun _ => 2)) (kmpecLP inp).obj
      ≤ evalTerms a' (kmpecLP inp).obj := by
  rw [mpec_obj]; exact mpec_lp_lower_bound a' hsat

/-- the walk of the better (cut-off) families is a route of the user's graph -/
theorem walk_valid : ValidRoute inp.base inp.starts inp.ends (walk 0) := by
  have := (walk_routes_valid inp.base inp.starts inp.ends inp.cfg (klaecCap inp) _ base_wf
    (klaec_sat_enc laec_sat_checked) 0 (by decide)).2
  rw [show decodeWalkLayer (augment inp.base inp.starts inp.ends) (klaecWalkAsg inp walk fun _ => 2) 0
    = walk 0 from laec_decode] at this
  exact this (by decide)

end FP.CycleWitness
