import FP.Proofs.C05KCoverC
import FP.Proofs.C10Subset
import FP.Proofs.KFDC
import FP.Proofs.WalkCore
import FP.Proofs.WalkCoreExample
import FP.Spec.Cover
/-!
# FP.Proofs.C09WalkCover — every solution of the `kPathCoverCycles` LP decodes to a walk cover

`c09w_walkcover_sound_proof`: from `walkcore_sound` / `walk_routes_valid` (C01: every layer of a satisfying
assignment of `_encode_walks` that leaves the source decodes to ONE source-to-sink walk whose traversal counts
are the layer's edge variables) and the cover rows (`kcoverc_cover`, C05): the `k` decoded walks are routes of
the user's graph, with the synthetic endpoints put back they are source-to-sink walks of the augmented graph,
and every edge that is not ignored lies on one of them.

`c09w_hascover_proof`: the same in the vocabulary of `FP.Spec.Cover` (`HasCover`), including the subset
constraints at coverage fraction 1 (`subset_constraint_honoured`, C10).

`C09WalkExample`: a concrete instance with a cycle, a subset constraint and a satisfying assignment.
-/
namespace FP
open FP.Spec

/-- an edge of `s :: r ++ [t]` that neither starts at `s` nor ends at `t` is an edge of `r` -/
theorem c09w_mem_walkEdges_snoc (l : List Node) (z : Node) (e : Edge) (he : e ∈ walkEdges (l ++ [z])) :
    e ∈ walkEdges l ∨ e.2 = z := by
  induction l with
  | nil => simp [walkEdges] at he
  | cons a l ih =>
    cases l with
    | nil =>
      simp only [List.cons_append, List.nil_append, walkEdges_cons_cons, walkEdges_single,
        List.mem_singleton] at he
      subst he; right; rfl
    | cons b l =>
      rw [List.cons_append, List.cons_append, walkEdges_cons_cons] at he
      rcases List.mem_cons.1 he with rfl | h
      · left; rw [walkEdges_cons_cons]; simp
      · rcases ih (by simpa using h) with h' | h2
        · left; rw [walkEdges_cons_cons]; exact List.mem_cons_of_mem _ h'
        · right; exact h2

theorem c09w_mem_walkEdges_strip (s t : Node) (r : List Node) (e : Edge)
    (he : e ∈ walkEdges (s :: r ++ [t])) (h1 : e.1 ≠ s) (h2 : e.2 ≠ t) : e ∈ walkEdges r := by
  have he' : e ∈ walkEdges ((s :: r) ++ [t]) := he
  rcases c09w_mem_walkEdges_snoc (s :: r) t e he' with h | h
  · cases r with
    | nil => simp [walkEdges] at h
    | cons x r' =>
      rw [walkEdges_cons_cons] at h
      rcases List.mem_cons.1 h with rfl | h
      · exact absurd rfl h1
      · exact h
  · exact absurd h h2

/-- an edge that is not ignored is not one of the synthetic edges -/
theorem c09w_active_inner (inp : WalkInput) (ws : Bool) (e : Edge) (he : e ∈ inp.activeEdges ws) :
    e ∈ inp.st.g.edges ∧ e.1 ≠ inp.st.source ∧ e.2 ≠ inp.st.sink := by
  obtain ⟨hmem, hign⟩ := List.mem_filter.1 he
  refine ⟨hmem, ?_, ?_⟩
  · intro h1
    have : inp.ignored ws e = true := by
      unfold WalkInput.ignored STGraph.sourceSinkEdges STGraph.sourceEdges Graph.outEdges
      have : e ∈ List.filter (fun x => decide (x.1 = inp.st.source)) inp.st.g.edges :=
        List.mem_filter.2 ⟨hmem, by simpa using h1⟩
      simp [this]
    rw [this] at hign; cases hign
  · intro h2
    have : inp.ignored ws e = true := by
      unfold WalkInput.ignored STGraph.sourceSinkEdges STGraph.sinkEdges Graph.inEdges
      have : e ∈ List.filter (fun x => decide (x.2 = inp.st.sink)) inp.st.g.edges :=
        List.mem_filter.2 ⟨hmem, by simpa using h2⟩
      simp [this]
    rw [this] at hign; cases hign

theorem c09w_sat_enc (inp : WalkInput) (a : Asg) (h : Sat a (kcovercLP inp)) :
    Sat a (encodeWalks inp.st inp.cfg (kcovercCap inp)) := by
  rw [kcovercLP_eq] at h
  exact sat_append_left a _ _ (sat_append_left a _ _ h)

theorem c09w_sat_core (inp : WalkInput) (a : Asg) (h : Sat a (kcovercLP inp)) :
    Sat a (walkCore inp.st inp.cfg (kcovercCap inp)) := by
  rw [kcovercLP_eq] at h
  exact sat_append_left a _ _ h

/-- one layer: with empty walks not allowed the decoded walk is a route of the user's graph and, with the
synthetic endpoints put back, a source-to-sink walk of the augmented graph whose traversal counts are the
layer's multiplicities -/
theorem c09w_layer (inp : WalkInput) (a : Asg) (hb : BaseWF inp.base) (hae : inp.cfg.allowEmpty = false)
    (hsat : Sat a (kcovercLP inp)) (i : Nat) (hi : i < inp.k) :
    IsSTWalk inp.st (inp.st.source :: decodeWalkLayer inp.st a i ++ [inp.st.sink]) ∧
    ValidRoute inp.base inp.starts inp.ends (decodeWalkLayer inp.st a i) ∧
    ∀ e ∈ inp.st.g.edges,
      traversals (inp.st.source :: decodeWalkLayer inp.st a i ++ [inp.st.sink]) e = multOf a i e := by
  have hwf : STWFc inp.st := augment_wfc inp.base inp.starts inp.ends hb
  have henc := c09w_sat_enc inp a hsat
  have hi' : i < inp.cfg.k := hi
  obtain ⟨_, hempty, hwalk⟩ := walkcore_sound inp.st inp.cfg (kcovercCap inp) a hwf henc i hi'
  have hex : ∃ v ∈ inp.st.g.succ inp.st.source, multOf a i (inp.st.source, v) ≠ 0 := by
    apply Classical.byContradiction
    intro hex
    have h0 : ∀ v ∈ inp.st.g.succ inp.st.source, multOf a i (inp.st.source, v) = 0 := by
      intro v hv
      apply Classical.byContradiction
      intro hm
      exact hex ⟨v, hv, hm⟩
    have := (hempty h0).1
    rw [hae] at this; cases this
  have htrav := hwalk hex
  refine ⟨⟨rfl, List.getLast?_concat (l := inp.st.source :: decodeWalkLayer inp.st a i), ?_⟩, ?_,
    fun e he => by rw [htrav e, if_pos he]⟩
  · intro e he
    apply Classical.byContradiction
    intro hne
    have h1 := htrav e
    rw [if_neg hne] at h1
    exact (List.count_eq_zero.1 h1) he
  · have hv := walk_routes_valid inp.base inp.starts inp.ends inp.cfg (kcovercCap inp) a hb henc i hi'
    simp only at hv
    apply hv.2
    intro hnil
    have := hv.1 hnil
    rw [hae] at this; cases this

/-- **cyclic T1.** -/
theorem c09w_walkcover_sound_proof (inp : WalkInput) (a : Asg) (hb : BaseWF inp.base)
    (hae : inp.cfg.allowEmpty = false) (hsat : Sat a (kcovercLP inp)) :
    (decodeWalks inp.st a inp.k).length = inp.k ∧
    (∀ r ∈ decodeWalks inp.st a inp.k,
      IsSTWalk inp.st (inp.st.source :: r ++ [inp.st.sink]) ∧ ValidRoute inp.base inp.starts inp.ends r) ∧
    Covers (decodeWalks inp.st a inp.k) (inp.activeEdges false) := by
  refine ⟨by simp [decodeWalks], ?_, ?_⟩
  · intro r hr
    obtain ⟨i, hi, rfl⟩ := List.mem_map.1 hr
    have := c09w_layer inp a hb hae hsat i (List.mem_range.1 hi)
    exact ⟨this.1, this.2.1⟩
  · intro e he
    obtain ⟨i, hi, h1⟩ := kcoverc_cover inp a hsat e he
    obtain ⟨hmem, hs, ht⟩ := c09w_active_inner inp false e he
    have hm : multOf a i e ≠ 0 :=
      c05_mult_ne_zero_of_one_le (c09w_sat_enc inp a hsat) (show i < inp.cfg.k from hi) hmem h1
    have htr := (c09w_layer inp a hb hae hsat i hi).2.2 e hmem
    have hin : e ∈ walkEdges (inp.st.source :: decodeWalkLayer inp.st a i ++ [inp.st.sink]) := by
      apply Classical.byContradiction
      intro hn
      apply hm
      rw [← htr]
      exact List.count_eq_zero.2 hn
    exact ⟨decodeWalkLayer inp.st a i, List.mem_map.2 ⟨i, List.mem_range.2 hi, rfl⟩,
      c09w_mem_walkEdges_strip _ _ _ e hin hs ht⟩

theorem c09w_countP_all {α} (l : List α) (p : α → Bool) (h : l.length ≤ l.countP p) : ∀ x ∈ l, p x = true := by
  have hle : l.countP p ≤ l.length := List.countP_le_length
  have : l.countP p = l.length := by omega
  exact List.countP_eq_length.1 this

/-- **cyclic T1 in the vocabulary of covers.** The decoded walks with the synthetic endpoints put back are `k`
source-to-sink walks of the augmented graph covering every edge that is not ignored; if the coverage fraction
is (at least) 1 and the subset constraints consist of edges of the augmented graph — what
`_check_valid_subset_constraints` enforces — every constraint lies completely on one of them. -/
theorem c09w_hascover_proof (inp : WalkInput) (a : Asg) (hb : BaseWF inp.base)
    (hae : inp.cfg.allowEmpty = false) (hsat : Sat a (kcovercLP inp))
    (hcov : 1 ≤ inp.cfg.coverage)
    (hce : ∀ c ∈ inp.cfg.constraints, ∀ e ∈ c, e ∈ inp.st.g.edges) :
    HasCover inp.st (inp.activeEdges false) inp.cfg.constraints inp.k := by
  obtain ⟨hlen, hwalks, hcover⟩ := c09w_walkcover_sound_proof inp a hb hae hsat
  let full : List Node → List Node := fun r => inp.st.source :: r ++ [inp.st.sink]
  refine ⟨(decodeWalks inp.st a inp.k).map full, by simpa using hlen, ?_, ?_, ?_⟩
  · intro r hr
    obtain ⟨r0, hr0, rfl⟩ := List.mem_map.1 hr
    exact (hwalks r0 hr0).1
  · intro e he
    obtain ⟨r, hr, hin⟩ := hcover e he
    exact ⟨full r, List.mem_map.2 ⟨r, hr, rfl⟩,
      walkEdges_sub_cons _ _ _ (walkEdges_sub_append r [inp.st.sink] e hin)⟩
  · intro c hc
    obtain ⟨j, hj, rfl⟩ := List.getElem_of_mem hc
    have hed : ∀ e ∈ inp.cfg.constraints[j], e ∈ inp.st.g.edges := hce _ hc
    obtain ⟨i, hi, _, hle⟩ := subset_constraint_honoured inp.st inp.cfg (kcovercCap inp) a
      (c09w_sat_core inp a hsat) j hj hed
    have hi' : i < inp.k := hi
    refine ⟨full (decodeWalkLayer inp.st a i),
      List.mem_map.2 ⟨_, List.mem_map.2 ⟨i, List.mem_range.2 hi', rfl⟩, rfl⟩, ?_⟩
    have h0 : (0 : Rat) ≤ ((inp.cfg.constraints[j].eraseDups.length : Nat) : Rat) := Rat.natCast_nonneg
    have h1 := Rat.mul_le_mul_of_nonneg_left hcov h0
    rw [Rat.mul_one] at h1
    have h2 := Rat.natCast_le_natCast.1 (Rat.le_trans h1 hle)
    have hall := c09w_countP_all _ _ h2
    intro e he
    have hee := hed e he
    have hone : 1 ≤ a (edgeVar e i) := by
      have := hall e (List.mem_eraseDups.2 he)
      simpa using this
    have hm : multOf a i e ≠ 0 :=
      c05_mult_ne_zero_of_one_le (c09w_sat_enc inp a hsat) hi hee hone
    have htr := (c09w_layer inp a hb hae hsat i hi').2.2 e hee
    apply Classical.byContradiction
    intro hn
    apply hm
    rw [← htr]
    exact List.count_eq_zero.2 hn

/-! ## a concrete instance: `s → a → t` with a self-loop at `a`, the loop required by a subset constraint -/

namespace C09WalkExample
open FP.WalkCoreExample

/-- the user's graph of `WalkCoreExample`, one walk, the subset constraint `{(a, a)}` -/
def inpC : WalkInput :=
  { base := base, flow := [], cfg := { k := 1, constraints := [[("a", "a")]] } }

theorem inpC_active : inpC.activeEdges false = [("s", "a"), ("a", "a"), ("a", "t")] := by decide

/-- the loop may be repeated `|E|·|V| = 25` times, every other edge once -/
theorem inpC_caps : (inpC.st.g.edges.map fun e => kcovercCap inpC e) = [1, 25, 1, 1, 1] := by decide +kernel

/-- `WalkCoreExample.asg` (the walk `source, s, a, a, a, t, sink`) with `used_edge` = indicator of a positive
multiplicity and `r(0,0) = 1` -/
def asgC : Asg := fun v =>
  if v ∈ [usedVar ("source", "s") 0, usedVar ("s", "a") 0, usedVar ("a", "a") 0, usedVar ("a", "t") 0,
      usedVar ("t", "sink") 0, rVar 0 0] then 1
  else asg v

theorem satC : Sat asgC (kcovercLP inpC) :=
  sat_of_check _ _ (by decide +kernel) (by decide +kernel)

theorem decodeC : decodeWalks inpC.st asgC inpC.k = [["s", "a", "a", "a", "t"]] := by decide +kernel

end C09WalkExample

end FP
