import FP.Model.Wrapper
import FP.Spec.Box
import FP.Proofs.WrapperObj
/-!
# Proofs for the read-back part of the wrapper model: the solve of a box model (`boxOptimum`), `get_values`
as an index lookup, freshness of what is read after the `n`-th `optimize` (helpers `wobj_*`)
-/
namespace FP
open FP.Spec

/-! ### arithmetic -/

theorem wobj_mul_le_nonpos {a b c : Rat} (h : a ≤ b) (hc : c ≤ 0) : c * b ≤ c * a := by
  have := Rat.mul_le_mul_of_nonneg_left h (show 0 ≤ -c by grind)
  grind

theorem wobj_le_of_mul_le_pos {a b c : Rat} (hc : 0 < c) (h : c * a ≤ c * b) : a ≤ b := by
  apply Rat.not_lt.1
  intro hlt
  have := (Rat.mul_lt_mul_left hc).2 hlt
  grind

theorem wobj_le_of_mul_le_neg {a b c : Rat} (hc : c < 0) (h : c * a ≤ c * b) : b ≤ a := by
  apply wobj_le_of_mul_le_pos (c := -c) (by grind)
  grind

/-- one column: the chosen value is within the bounds, at least as good as any other value of the interval,
and any equally good value of a determined column equals it -/
theorem wobj_col (mx : Bool) (c : WCol) (v : Rat) (hlo : c.lb ≤ v) (hhi : v ≤ c.ub) :
    (c.lb ≤ colOpt mx c ∧ colOpt mx c ≤ c.ub) ∧
    AsGood mx (c.cost * colOpt mx c) (c.cost * v) ∧
    (AsGood mx (c.cost * v) (c.cost * colOpt mx c) → colDetermined c = true → v = colOpt mx c) := by
  have hbox : c.lb ≤ c.ub := Rat.le_trans hlo hhi
  cases mx
  · -- minimise
    simp only [colOpt, AsGood, Bool.false_eq_true, if_false]
    by_cases hneg : c.cost < 0
    · simp only [hneg, if_true]
      refine ⟨⟨hbox, Rat.le_refl⟩, wobj_mul_le_nonpos hhi (Rat.le_of_lt hneg), fun h _ => ?_⟩
      exact Rat.le_antisymm hhi (wobj_le_of_mul_le_neg hneg h)
    · simp only [hneg, if_false]
      have hnn : 0 ≤ c.cost := Rat.not_lt.1 hneg
      refine ⟨⟨Rat.le_refl, hbox⟩, Rat.mul_le_mul_of_nonneg_left hlo hnn, fun h hd => ?_⟩
      simp only [colDetermined, Bool.or_eq_true, decide_eq_true_eq] at hd
      rcases hd with hd | hd
      · have hpos : 0 < c.cost := by grind
        exact Rat.le_antisymm (wobj_le_of_mul_le_pos hpos h) hlo
      · exact Rat.le_antisymm (hd ▸ hhi) hlo
  · -- maximise
    simp only [colOpt, AsGood, if_true]
    by_cases hpos : 0 < c.cost
    · simp only [hpos, if_true]
      refine ⟨⟨hbox, Rat.le_refl⟩, Rat.mul_le_mul_of_nonneg_left hhi (Rat.le_of_lt hpos), fun h _ => ?_⟩
      exact Rat.le_antisymm hhi (wobj_le_of_mul_le_pos hpos h)
    · simp only [hpos, if_false]
      have hnp : c.cost ≤ 0 := Rat.not_lt.1 hpos
      refine ⟨⟨Rat.le_refl, hbox⟩, wobj_mul_le_nonpos hlo hnp, fun h hd => ?_⟩
      simp only [colDetermined, Bool.or_eq_true, decide_eq_true_eq] at hd
      rcases hd with hd | hd
      · have hneg : c.cost < 0 := by grind
        exact Rat.le_antisymm (wobj_le_of_mul_le_neg hneg h) hlo
      · exact Rat.le_antisymm (hd ▸ hhi) hlo

/-! ### `InBox` by recursion -/

theorem wobj_inBox_nil (x : List Rat) : InBox [] x ↔ x = [] := by
  constructor
  · intro h; exact List.eq_nil_of_length_eq_zero h.1
  · rintro rfl; exact ⟨rfl, fun i c v h => by simp at h⟩

theorem wobj_inBox_cons (c : WCol) (cs : List WCol) (x : List Rat) :
    InBox (c :: cs) x ↔ ∃ v vs, x = v :: vs ∧ (c.lb ≤ v ∧ v ≤ c.ub) ∧ InBox cs vs := by
  constructor
  · rintro ⟨hl, h⟩
    cases x with
    | nil => simp at hl
    | cons v vs =>
      refine ⟨v, vs, rfl, h 0 c v rfl rfl, by simpa using hl, fun i c' v' hc hv => ?_⟩
      exact h (i+1) c' v' (by simpa using hc) (by simpa using hv)
  · rintro ⟨v, vs, rfl, hv, hl, h⟩
    refine ⟨by simp [hl], fun i c' v' hc hv' => ?_⟩
    cases i with
    | zero => simp at hc hv'; subst hc; subst hv'; exact hv
    | succ j => exact h j c' v' (by simpa using hc) (by simpa using hv')

theorem wobj_feasible_cons (c : WCol) (cs : List WCol) :
    boxFeasible (c :: cs) = true ↔ c.lb ≤ c.ub ∧ boxFeasible cs = true := by
  simp [boxFeasible]

/-- `Σ cost·x` without the constant -/
def wobj_dot (cols : List WCol) (x : List Rat) : Rat := ((cols.zip x).map (fun cx => cx.1.cost * cx.2)).sum

theorem wobj_objValue (cols : List WCol) (off : Rat) (x : List Rat) :
    objValue cols off x = wobj_dot cols x + off := rfl

theorem wobj_dot_cons (c : WCol) (cs : List WCol) (v : Rat) (vs : List Rat) :
    wobj_dot (c :: cs) (v :: vs) = c.cost * v + wobj_dot cs vs := by
  simp [wobj_dot]

theorem wobj_boxOptimum_cons (mx : Bool) (c : WCol) (cs : List WCol) :
    boxOptimum mx (c :: cs) = colOpt mx c :: boxOptimum mx cs := rfl

theorem wobj_opt_inBox (mx : Bool) : ∀ cols : List WCol, boxFeasible cols = true →
    InBox cols (boxOptimum mx cols) := by
  intro cols
  induction cols with
  | nil => intro _; exact (wobj_inBox_nil _).2 rfl
  | cons c cs ih =>
    intro hf
    rw [wobj_feasible_cons] at hf
    refine (wobj_inBox_cons c cs _).2 ⟨colOpt mx c, boxOptimum mx cs, rfl, ?_, ih hf.2⟩
    exact (wobj_col mx c c.lb Rat.le_refl hf.1).1

/-- the list induction: optimality of `boxOptimum`, and agreement of every equally good point on the
determined columns -/
theorem wobj_opt_best (mx : Bool) : ∀ (cols : List WCol) (x : List Rat), InBox cols x →
    AsGood mx (wobj_dot cols (boxOptimum mx cols)) (wobj_dot cols x) ∧
    (AsGood mx (wobj_dot cols x) (wobj_dot cols (boxOptimum mx cols)) →
      ∀ (i : Nat) (c : WCol), cols[i]? = some c → colDetermined c = true → x[i]? = some (colOpt mx c)) := by
  intro cols
  induction cols with
  | nil =>
    intro x hx
    rw [wobj_inBox_nil] at hx; subst hx
    refine ⟨?_, fun _ i c h => by simp at h⟩
    cases mx <;> simp [AsGood, wobj_dot, boxOptimum]
  | cons c cs ih =>
    intro x hx
    obtain ⟨v, vs, rfl, hv, hvs⟩ := (wobj_inBox_cons c cs _).1 hx
    obtain ⟨_, hc1, hc2⟩ := wobj_col mx c v hv.1 hv.2
    obtain ⟨i1, i2⟩ := ih vs hvs
    rw [wobj_boxOptimum_cons, wobj_dot_cons, wobj_dot_cons]
    cases mx
    · simp only [AsGood, Bool.false_eq_true, if_false] at hc1 hc2 i1 i2 ⊢
      refine ⟨by grind, fun hle i c' hc' hd => ?_⟩
      have e1 : c.cost * v ≤ c.cost * colOpt false c := by grind
      have e2 : wobj_dot cs vs ≤ wobj_dot cs (boxOptimum false cs) := by grind
      cases i with
      | zero => simp at hc'; subst hc'; simp [hc2 e1 hd]
      | succ j => simpa using i2 e2 j c' (by simpa using hc') hd
    · simp only [AsGood, if_true] at hc1 hc2 i1 i2 ⊢
      refine ⟨by grind, fun hle i c' hc' hd => ?_⟩
      have e1 : c.cost * colOpt true c ≤ c.cost * v := by grind
      have e2 : wobj_dot cs (boxOptimum true cs) ≤ wobj_dot cs vs := by grind
      cases i with
      | zero => simp at hc'; subst hc'; simp [hc2 e1 hd]
      | succ j => simpa using i2 e2 j c' (by simpa using hc') hd

theorem wobj_asGood_add (mx : Bool) (a b off : Rat) : AsGood mx (a + off) (b + off) ↔ AsGood mx a b := by
  cases mx <;> simp only [AsGood, Bool.false_eq_true, if_false, if_true] <;> constructor <;> intro h <;> grind

theorem wobj_box_optimum_correct (mx : Bool) (cols : List WCol) (off : Rat)
    (hfeas : boxFeasible cols = true) :
    IsBoxOptimum mx cols off (boxOptimum mx cols) ∧
    ∀ x, IsBoxOptimum mx cols off x →
      ∀ (i : Nat) (c : WCol), cols[i]? = some c → colDetermined c = true → x[i]? = some (colOpt mx c) := by
  refine ⟨⟨wobj_opt_inBox mx cols hfeas, fun y hy => ?_⟩, fun x hx i c hc hd => ?_⟩
  · rw [wobj_objValue, wobj_objValue, wobj_asGood_add]
    exact (wobj_opt_best mx cols y hy).1
  · have := hx.2 _ (wobj_opt_inBox mx cols hfeas)
    rw [wobj_objValue, wobj_objValue, wobj_asGood_add] at this
    exact (wobj_opt_best mx cols x hx.1).2 this i c hc hd

theorem wobj_box_infeasible (cols : List WCol) : boxFeasible cols = false ↔ ¬ ∃ x, InBox cols x := by
  induction cols with
  | nil => simp [boxFeasible]; exact ⟨[], (wobj_inBox_nil _).2 rfl⟩
  | cons c cs ih =>
    constructor
    · intro hf ⟨x, hx⟩
      obtain ⟨v, vs, rfl, hv, hvs⟩ := (wobj_inBox_cons c cs _).1 hx
      have h2 : boxFeasible cs = true := by
        cases h : boxFeasible cs
        · exact absurd ⟨vs, hvs⟩ (ih.1 h)
        · rfl
      have : boxFeasible (c :: cs) = true := (wobj_feasible_cons c cs).2 ⟨Rat.le_trans hv.1 hv.2, h2⟩
      rw [hf] at this; cases this
    · intro hno
      cases h : boxFeasible (c :: cs)
      · rfl
      · exact absurd ⟨_, wobj_opt_inBox false _ h⟩ hno

theorem wobj_expectedValues_spec (mx : Bool) (cols : List WCol) (i : Nat) :
    (expectedValues mx cols)[i]? =
      (cols[i]?).map (fun c => if colDetermined c then some (colOpt mx c) else none) := by
  simp [expectedValues]

/-! ### `get_values` -/

theorem wobj_readValues_nil {κ : Type} (x : List Rat) : readValues x ([] : List (κ × Nat)) = some [] := rfl

theorem wobj_readValues_cons {κ : Type} (x : List Rat) (kv : κ × Nat) (rest : List (κ × Nat)) :
    readValues x (kv :: rest) =
      match x[kv.2]?, readValues x rest with
      | some v, some r => some ((kv.1, v) :: r)
      | _, _ => none := by
  simp only [readValues, List.mapM_cons]
  cases x[kv.2]? <;> simp
  cases List.mapM (fun kv => Option.map (fun v => (kv.fst, v)) x[kv.snd]?) rest <;> simp

theorem wobj_get_values_exact {κ : Type} (x : List Rat) :
    ∀ (asked : List (κ × Nat)) (r : List (κ × Rat)),
    readValues x asked = some r ↔
      r.length = asked.length ∧
      ∀ (p : Nat) (kv : κ × Nat) (kr : κ × Rat), asked[p]? = some kv → r[p]? = some kr →
        kr.1 = kv.1 ∧ x[kv.2]? = some kr.2 := by
  intro asked
  induction asked with
  | nil =>
    intro r
    rw [wobj_readValues_nil]
    constructor
    · intro h; cases h; exact ⟨rfl, fun p kv kr h => by simp at h⟩
    · rintro ⟨hl, _⟩; rw [List.eq_nil_of_length_eq_zero hl]
  | cons kv rest ih =>
    intro r
    rw [wobj_readValues_cons]
    constructor
    · intro h
      cases hx : x[kv.2]? with
      | none => simp [hx] at h
      | some v =>
        cases hr : readValues x rest with
        | none => simp [hx, hr] at h
        | some r' =>
          simp only [hx, hr, Option.some.injEq] at h
          subst h
          obtain ⟨hl, hall⟩ := (ih r').1 hr
          refine ⟨by simp [hl], fun p kv' kr' ha hb => ?_⟩
          cases p with
          | zero => simp at ha hb; subst ha; subst hb; exact ⟨rfl, hx⟩
          | succ q => exact hall q kv' kr' (by simpa using ha) (by simpa using hb)
    · rintro ⟨hl, hall⟩
      cases r with
      | nil => simp at hl
      | cons kr r' =>
        obtain ⟨h1, h2⟩ := hall 0 kv kr rfl rfl
        have hr' : readValues x rest = some r' :=
          (ih r').2 ⟨by simpa using hl, fun p a b ha hb => hall (p+1) a b (by simpa using ha) (by simpa using hb)⟩
        rw [h2, hr']
        simp only [Option.some.injEq, List.cons.injEq, and_true]
        rw [← h1]

theorem wobj_get_values_raises {κ : Type} (x : List Rat) (asked : List (κ × Nat)) :
    readValues x asked = none ↔ ∃ kv ∈ asked, x.length ≤ kv.2 := by
  induction asked with
  | nil => simp [wobj_readValues_nil]
  | cons kv rest ih =>
    rw [wobj_readValues_cons]
    by_cases hk : kv.2 < x.length
    · have hx : x[kv.2]? = some x[kv.2] := List.getElem?_eq_getElem hk
      rw [hx]
      cases hr : readValues x rest with
      | none =>
        obtain ⟨kv', hm, hle⟩ := ih.1 hr
        simp only [true_iff]
        exact ⟨kv', List.mem_cons_of_mem _ hm, hle⟩
      | some r =>
        simp only [false_iff, reduceCtorEq]
        rintro ⟨kv', hm, hle⟩
        rcases List.mem_cons.1 hm with rfl | hm
        · omega
        · have : readValues x rest = none := ih.2 ⟨kv', hm, hle⟩
          rw [hr] at this; cases this
    · have hx : x[kv.2]? = none := List.getElem?_eq_none (by omega)
      rw [hx]
      simp only [true_iff]
      exact ⟨kv, List.mem_cons_self .., by omega⟩

/-! ### handles of `add_variables` -/

theorem wobj_add_variables_handles (f : GetColsField) (s : WState) (bs : List (Rat × Rat)) (k : Nat)
    (hk : k < bs.length) :
    (addVarsHandles s bs)[k]? = some (s.cols.length + k) ∧
    (wstep f s (.addVars bs)).cols[s.cols.length + k]? = some { lb := bs[k].1, ub := bs[k].2, cost := 0 } ∧
    ∀ i, i < s.cols.length → (wstep f s (.addVars bs)).cols[i]? = s.cols[i]? := by
  refine ⟨?_, ?_, ?_⟩
  · simp [addVarsHandles, List.getElem?_range' hk]
  · simp [wstep, hk]
  · intro i hi
    simp [wstep, List.getElem?_append_left hi]

/-! ### freshness -/

theorem wobj_snaps_append (f : GetColsField) (a b : List WOp) : ∀ s : WState,
    wsnapsFrom f s (a ++ b) = wsnapsFrom f s a ++ wsnapsFrom f (a.foldl (wstep f) s) b := by
  induction a with
  | nil => intro s; rfl
  | cons o rest ih =>
    intro s
    simp only [List.cons_append, wsnapsFrom, List.foldl_cons]
    by_cases ho : o.isOptimize = true
    · simp [ho, ih]
    · simp [ho, ih]

theorem wobj_snaps_length (f : GetColsField) (a : List WOp) : ∀ s : WState,
    (wsnapsFrom f s a).length = (a.filter (·.isOptimize)).length := by
  induction a with
  | nil => intro s; rfl
  | cons o rest ih =>
    intro s
    simp only [wsnapsFrom, List.filter_cons]
    by_cases ho : o.isOptimize = true
    · simp [ho, ih]
    · simp [ho, ih]

theorem wobj_readback_nth (f : GetColsField) (pre post : List WOp) :
    (wsnaps f (pre ++ WOp.optimize :: post))[(pre.filter (·.isOptimize)).length]?
      = some (wrun f (pre ++ [WOp.optimize])) := by
  simp only [wsnaps, wobj_snaps_append]
  rw [List.getElem?_append_right (by rw [wobj_snaps_length]; exact Nat.le_refl _), wobj_snaps_length,
    Nat.sub_self]
  simp [wsnapsFrom, WOp.isOptimize, wrun, List.foldl_append]

theorem wobj_nSolves (f : GetColsField) (ops : List WOp) : ∀ s : WState,
    (ops.foldl (wstep f) s).nSolves = s.nSolves + (ops.filter (·.isOptimize)).length := by
  induction ops with
  | nil => intro s; rfl
  | cons o rest ih =>
    intro s
    rw [List.foldl_cons, ih]
    cases o <;> simp [wstep, WOp.isOptimize, wobj_flush_offset] <;> omega

theorem wobj_readback_nth_full (f : GetColsField) (pre post : List WOp) :
    ∃ sn, (wsnaps f (pre ++ WOp.optimize :: post))[(pre.filter (·.isOptimize)).length]? = some sn ∧
      sn.cols = (flush f (wrun f pre)).cols ∧ sn.offset = (flush f (wrun f pre)).offset ∧
      sn.maximize = (flush f (wrun f pre)).maximize ∧
      sn.nSolves = (pre.filter (·.isOptimize)).length + 1 ∧
      sn.last = some (solveBox (flush f (wrun f pre)).maximize (flush f (wrun f pre)).cols
        (flush f (wrun f pre)).offset) := by
  refine ⟨_, wobj_readback_nth f pre post, ?_⟩
  have h : wrun f (pre ++ [WOp.optimize]) = wstep f (wrun f pre) .optimize := by
    simp [wrun, List.foldl_append]
  rw [h]
  refine ⟨rfl, rfl, rfl, ?_, rfl⟩
  have := wobj_nSolves f pre {}
  simp only [wstep, wrun] at this ⊢
  rw [this]
  show 0 + _ + 1 = _
  omega

theorem wobj_get_values_fresh {κ : Type} (f : GetColsField) (pre post : List WOp) (asked : List (κ × Nat))
    (sn : WState)
    (hsn : (wsnaps f (pre ++ WOp.optimize :: post))[(pre.filter (·.isOptimize)).length]? = some sn) :
    getValues sn asked =
      (if boxFeasible (flush f (wrun f pre)).cols then
        readValues (boxOptimum (flush f (wrun f pre)).maximize (flush f (wrun f pre)).cols) asked
       else none) ∧
    getObjectiveValue sn =
      (if boxFeasible (flush f (wrun f pre)).cols then
        some (objValue (flush f (wrun f pre)).cols (flush f (wrun f pre)).offset
          (boxOptimum (flush f (wrun f pre)).maximize (flush f (wrun f pre)).cols))
       else none) := by
  obtain ⟨sn', h1, _, _, _, _, h6⟩ := wobj_readback_nth_full f pre post
  rw [hsn] at h1
  cases h1
  simp only [getValues, getObjectiveValue, h6, solveBox]
  cases boxFeasible (flush f (wrun f pre)).cols <;> simp

theorem wobj_wsnaps_length (f : GetColsField) (ops : List WOp) :
    (wsnaps f ops).length = (ops.filter (·.isOptimize)).length := wobj_snaps_length f ops {}

end FP

