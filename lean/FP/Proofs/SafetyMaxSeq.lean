import FP.Proofs.SafetyThread
import FP.Proofs.SafetyDom
/-!
# FP.Proofs.SafetyMaxSeq — T5: the maximal safe sequences computed through the dominator trees are safe
-/
namespace FP.Safety
open FP FP.Spec

theorem lookup_mem {α β : Type} [BEq α] [LawfulBEq α] : ∀ (l : List (α × β)) (k : α) (v : β),
    l.lookup k = some v → (k, v) ∈ l := by
  intro l
  induction l with
  | nil => intro k v h; simp at h
  | cons kv l ih =>
    intro k v h
    obtain ⟨k', v'⟩ := kv
    rw [List.lookup_cons] at h
    cases hk : (k == k') with
    | true =>
      rw [hk] at h; simp at h; subst h
      have : k = k' := by simpa using hk
      subst this; simp
    | false =>
      rw [hk] at h
      exact List.mem_cons_of_mem _ (ih k v h)

def MemSoundS (g : Graph) (s : Node) (si : IdomTable Node) : Prop :=
  ∀ e d, (e, TNode.arc d) ∈ si → Dominates g s e.1 d
def MemSoundT (g : Graph) (t : Node) (ti : IdomTable Node) : Prop :=
  ∀ e d, (e, TNode.arc d) ∈ ti → Dominates g e.2 t d

theorem idomTables_sound (g : Graph) (hg : GraphWF g) (s t : Node) :
    ∀ es adj adjRev si ti si' ti', idomTables s t es adj adjRev si ti = .ok (si', ti') →
      (∀ u v, v ∈ out adj u ↔ v ∈ out (succAdj g) u) →
      (∀ u v, v ∈ out adjRev u ↔ v ∈ out (predAdj g) u) →
      MemSoundS g s si → MemSoundT g t ti → MemSoundS g s si' ∧ MemSoundT g t ti' := by
  intro es
  induction es with
  | nil =>
    intro adj adjRev si ti si' ti' h _ _ hs ht
    simp only [idomTables] at h
    injection h with h; injection h with h1 h2; subst h1; subst h2
    exact ⟨hs, ht⟩
  | cons e es ih =>
    intro adj adjRev si ti si' ti' h hadj hrev hs ht
    obtain ⟨u, v⟩ := e
    simp only [idomTables] at h
    split at h
    · cases h
    · cases h
    · rename_i sb adjRev' hsb
      split at h
      · cases h
      · cases h
      · rename_i tb adj' htb
        have hrev' : ∀ a b, b ∈ out adjRev' a ↔ b ∈ out (predAdj g) a := fun a b =>
          (findIdom_sameOut _ _ _ _ _ hsb a b).trans (hrev a b)
        have hadj' : ∀ a b, b ∈ out adj' a ↔ b ∈ out (succAdj g) a := fun a b =>
          (findIdom_sameOut _ _ _ _ _ htb a b).trans (hadj a b)
        apply ih _ _ _ _ _ _ h hadj' hrev'
        · intro e d hm
          rcases List.mem_append.1 hm with hm | hm
          · exact hs e d hm
          · simp only [List.mem_singleton, Prod.mk.injEq] at hm
            obtain ⟨rfl, hd⟩ := hm
            cases sb with
            | none => cases hd
            | some yz =>
              obtain ⟨y, z⟩ := yz
              simp only [TNode.arc.injEq] at hd; subst hd
              intro w hw
              have hwr := isWalkAdj_pred g hg s u w hw
              have hwr' : IsWalkAdj adjRev u s w.reverse :=
                ⟨fun e he => (hrev _ _).2 (hwr.walk e he), hwr.first, hwr.last⟩
              have := findIdom_sound _ _ _ _ _ hsb _ hwr'
              rw [we_reverse] at this
              simp only [List.mem_reverse, List.mem_map] at this
              obtain ⟨e', he', heq⟩ := this
              injection heq with h1 h2
              have : e' = (z, y) := by ext <;> simp [h1, h2]
              rw [← this]; exact he'
        · intro e d hm
          rcases List.mem_append.1 hm with hm | hm
          · exact ht e d hm
          · simp only [List.mem_singleton, Prod.mk.injEq] at hm
            obtain ⟨rfl, hd⟩ := hm
            cases tb with
            | none => cases hd
            | some b =>
              simp only [TNode.arc.injEq] at hd; subst hd
              intro w hw
              have hwf := isWalkAdj_succ g hg v t w hw
              have hwf' : IsWalkAdj adj v t w :=
                ⟨fun e he => (hadj _ _).2 (hwf.walk e he), hwf.first, hwf.last⟩
              exact findIdom_sound _ _ _ _ _ htb _ hwf'

/-- what `maxSafeSeqs` hands to the dominator machinery: some list of edges and a sublist `X'` of `X` -/
theorem maxSafeSeqs_cases (g : Graph) (s t : Node) (X : List Edge) (seqs : List (List Edge))
    (h : maxSafeSeqs g s t X = .ok seqs) :
    seqs = [] ∨ ∃ es X' si ti, (∀ c ∈ X', c ∈ X) ∧
      idomTables s t es (succAdj g) (predAdj g) [] [] = .ok (si, ti) ∧ maxSeqsFromIdoms si ti X' = .ok seqs := by
  unfold maxSafeSeqs at h
  by_cases hX : X.isEmpty = true
  · rw [if_pos hX] at h; injection h with h; exact Or.inl h.symm
  · rw [if_neg hX] at h
    cases hes : onSomeWalk g s t with
    | raises w => rw [hes] at h; cases h
    | fuel => rw [hes] at h; cases h
    | ok es =>
      rw [hes] at h
      simp only at h
      generalize hX' : (if es.length < g.edges.length then X.filter (fun e => decide (e ∈ es)) else X) = X' at h
      have hsub : ∀ c ∈ X', c ∈ X := by
        intro c hc
        subst hX'
        split at hc
        · exact (List.mem_filter.1 hc).1
        · exact hc
      by_cases hE : X'.isEmpty = true
      · rw [if_pos hE] at h; injection h with h; exact Or.inl h.symm
      · rw [if_neg hE] at h
        split at h
        · rename_i si ti htab
          exact Or.inr ⟨es, X', si, ti, hsub, htab, h⟩
        · cases h
        · cases h

/-- **T5.** -/
theorem maxSafeSeqs_safe (g : Graph) (hg : GraphWF g) (s t : Node) (X : List Edge) (seqs : List (List Edge))
    (h : maxSafeSeqs g s t X = .ok seqs) : ∀ q ∈ seqs, ∃ c ∈ X, ForcedBy g s t [c] q := by
  rcases maxSafeSeqs_cases g s t X seqs h with rfl | ⟨es, X', si, ti, hsub, htab, hm⟩
  · intro q hq; simp at hq
  · obtain ⟨hs, ht⟩ := idomTables_sound g hg s t _ _ _ _ _ _ _ htab (fun _ _ => Iff.rfl) (fun _ _ => Iff.rfl)
      (fun e d hm => by simp at hm) (fun e d hm => by simp at hm)
    intro q hq
    obtain ⟨c, hc, hf⟩ := maxSeqsFromIdoms_forced g s t si ti
      (fun e d hl => hs e d (lookup_mem _ _ _ hl)) (fun e d hl => ht e d (lookup_mem _ _ _ hl)) X' seqs hm q hq
    exact ⟨c, hsub c hc, hf⟩

end FP.Safety
