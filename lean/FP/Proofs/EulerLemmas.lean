import FP.Model.Euler
import FP.Spec.Walk
/-!
# FP.Proofs.EulerLemmas — basic lemmas for the Hierholzer correctness proof

Balance bookkeeping (`bal_*`), the effect of one `popOut` on the edge multiset, and the
invariant of the first phase (`trail`).
-/
namespace FP.Euler
open FP.Spec
variable {V : Type} [DecidableEq V]

def ind' (p : Prop) [Decidable p] : Int := if p then 1 else 0

theorem bal_append (a b : List (V × V)) (x : V) : bal (a ++ b) x = bal a x + bal b x := by
  simp [bal, outdeg, indeg, List.countP_append]; omega

theorem bal_perm {a b : List (V × V)} (h : a.Perm b) (x : V) : bal a x = bal b x := by
  simp [bal, outdeg, indeg, h.countP_eq]

theorem bal_cons (e : V × V) (es : List (V × V)) (x : V) :
    bal (e :: es) x = ind' (e.1 = x) - ind' (e.2 = x) + bal es x := by
  simp only [bal, outdeg, indeg, List.countP_cons, ind']
  by_cases h1 : e.1 = x <;> by_cases h2 : e.2 = x <;> simp [h1, h2] <;> omega

/-- telescoping: the balance of the edge list of a vertex sequence -/
theorem bal_walkEdges (a : V) (l : List V) (x : V) :
    bal (walkEdges (a :: l)) x = ind' (a = x) - ind' ((a :: l).getLast (by simp) = x) := by
  induction l generalizing a with
  | nil => simp [walkEdges, bal, outdeg, indeg, ind']; grind
  | cons b l ih =>
    have : walkEdges (a :: b :: l) = (a, b) :: walkEdges (b :: l) := by simp [walkEdges]
    rw [this, bal_cons, ih b]
    simp only [List.getLast_cons_cons, ind']
    grind

theorem getLast?_eq_some_split {α} (l : List α) (a : α) (h : l.getLast? = some a) :
    l = l.dropLast ++ [a] := by
  induction l with
  | nil => simp at h
  | cons x xs ih =>
    cases xs with
    | nil => simp at h; simp [h]
    | cons y ys =>
      have : (y :: ys).getLast? = some a := by simpa [List.getLast?_cons_cons] using h
      have := ih this
      simp only [List.dropLast_cons_cons, List.cons_append]; rw [← this]
end FP.Euler

namespace FP.Euler
open FP.Spec
variable {V : Type} [DecidableEq V]

theorem keys_popOut (g : Adj V) (v : V) : (popOut g v).map (·.1) = g.map (·.1) := by
  induction g with
  | nil => rfl
  | cons kl g ih => simp only [popOut, List.map_cons] at ih ⊢; split <;> simp_all

theorem out_cons_self (k : V) (l : List V) (g : Adj V) : out ((k, l) :: g) k = l := by
  simp [out, List.lookup]

theorem out_cons_ne (k v : V) (l : List V) (g : Adj V) (h : k ≠ v) : out ((k, l) :: g) v = out g v := by
  have : (v == k) = false := by simp [Ne.symm h]
  simp [out, List.lookup, this]

theorem popOut_of_notMem (g : Adj V) (v : V) (h : v ∉ g.map (·.1)) : popOut g v = g := by
  induction g with
  | nil => rfl
  | cons kl g ih =>
    simp only [List.map_cons, List.mem_cons, not_or] at h
    simp only [popOut, List.map_cons] at ih ⊢
    rw [ih h.2]; simp [Ne.symm h.1]

/-- popping the last out-neighbour `w` of `v` removes exactly one copy of the edge `(v,w)` -/
theorem edges_popOut_perm (g : Adj V) (v w : V) (hk : (g.map (·.1)).Nodup)
    (h : (out g v).getLast? = some w) :
    List.Perm (edges g) ((v, w) :: edges (popOut g v)) := by
  induction g with
  | nil => simp [out] at h
  | cons kl g ih =>
    obtain ⟨k, l⟩ := kl
    simp only [List.map_cons, List.nodup_cons] at hk
    by_cases hkv : k = v
    · subst hkv
      rw [out_cons_self] at h
      have hsplit := getLast?_eq_some_split l w h
      have hp : popOut ((k, l) :: g) k = (k, l.dropLast) :: g := by
        have := popOut_of_notMem g k hk.1
        simp only [popOut, List.map_cons] at this ⊢
        simp [this]
      rw [hp]
      simp only [edges, List.flatMap_cons]
      conv => lhs; rw [hsplit]
      simp only [List.map_append, List.map_cons, List.map_nil, List.append_assoc, List.singleton_append]
      exact List.perm_middle
    · rw [out_cons_ne k v l g hkv] at h
      have := ih hk.2 h
      have hp : popOut ((k, l) :: g) v = (k, l) :: popOut g v := by simp [popOut, hkv]
      rw [hp]
      simp only [edges, List.flatMap_cons] at this ⊢
      exact (List.Perm.append_left _ this).trans List.perm_middle

omit [DecidableEq V] in
theorem walkEdges_concat (l : List V) (a b : V) (h : l.getLast? = some a) :
    walkEdges (l ++ [b]) = walkEdges l ++ [(a, b)] := by
  induction l with
  | nil => simp at h
  | cons x xs ih =>
    cases xs with
    | nil => simp at h; simp [walkEdges, h]
    | cons y ys =>
      have h' : (y :: ys).getLast? = some a := by simpa [List.getLast?_cons_cons] using h
      have := ih h'
      simp only [walkEdges, List.cons_append, List.tail_cons, List.zip_cons_cons] at this ⊢
      rw [this]

structure TrailInv (g0 : Adj V) (start : V) (g : Adj V) (cur : V) (walk : List V) : Prop where
  keys : (g.map (·.1)).Nodup
  head : walk.head? = some start
  last : walk.getLast? = some cur
  perm : (edges g0).Perm (walkEdges walk ++ edges g)

theorem trail_inv (g0 : Adj V) (start : V) :
    ∀ (n : Nat) (g : Adj V) (cur : V) (walk stack : List V), TrailInv g0 start g cur walk →
      let r := trail n g cur walk stack
      TrailInv g0 start r.1 r.2.1 r.2.2.1 := by
  intro n
  induction n with
  | zero => intro g cur walk stack h; simpa [trail] using h
  | succ n ih =>
    intro g cur walk stack h
    simp only [trail]
    split
    · exact h
    · rename_i nxt hn
      apply ih
      refine ⟨by rw [keys_popOut]; exact h.keys, ?_, by simp, ?_⟩
      · cases walk with
        | nil => have := h.head; simp at this
        | cons x xs => simpa using h.head
      · rw [walkEdges_concat walk cur nxt h.last]
        have := edges_popOut_perm g cur nxt h.keys hn
        refine h.perm.trans ?_
        rw [List.append_assoc]
        exact List.Perm.append_left _ (this.trans (by simp))
end FP.Euler

namespace FP.Euler
open FP.Spec
variable {V : Type} [DecidableEq V]

omit [DecidableEq V] in
theorem edges_length (g : Adj V) : (edges g).length = edgeCount g := by
  induction g with
  | nil => rfl
  | cons kl g ih => simp [edges, edgeCount, List.flatMap_cons] at ih ⊢

theorem edgeCount_popOut (g : Adj V) (v w : V) (hk : (g.map (·.1)).Nodup)
    (h : (out g v).getLast? = some w) : edgeCount (popOut g v) + 1 = edgeCount g := by
  have := (edges_popOut_perm g v w hk h).length_eq
  simp [edges_length] at this; omega

/-- with enough fuel the first phase stops only when the current vertex has no unused out-edge;
    and the stack is exactly the walk without its last vertex -/
theorem trail_stuck :
    ∀ (n : Nat) (g : Adj V) (cur : V) (walk stack : List V), (g.map (·.1)).Nodup → edgeCount g < n →
      out (trail n g cur walk stack).1 (trail n g cur walk stack).2.1 = [] := by
  intro n
  induction n with
  | zero => intro g cur walk stack _ h; omega
  | succ n ih =>
    intro g cur walk stack hk hlt
    simp only [trail]
    split
    · rename_i hnone; exact List.getLast?_eq_none_iff.1 hnone
    · rename_i nxt hn
      apply ih
      · rw [keys_popOut]; exact hk
      · have := edgeCount_popOut g cur nxt hk hn; omega

theorem trail_stack :
    ∀ (n : Nat) (g : Adj V) (cur : V) (walk stack : List V), walk = stack ++ [cur] →
      (trail n g cur walk stack).2.2.1 = (trail n g cur walk stack).2.2.2 ++ [(trail n g cur walk stack).2.1] := by
  intro n
  induction n with
  | zero => intro g cur walk stack h; simpa [trail] using h
  | succ n ih =>
    intro g cur walk stack h
    simp only [trail]
    split
    · exact h
    · apply ih; rw [h]

theorem out_of_mem (g : Adj V) (kl : V × List V) (hk : (g.map (·.1)).Nodup) (hm : kl ∈ g) :
    out g kl.1 = kl.2 := by
  induction g with
  | nil => simp at hm
  | cons a g ih =>
    simp only [List.map_cons, List.nodup_cons] at hk
    rcases List.mem_cons.1 hm with rfl | hmem
    · exact out_cons_self _ _ _
    · have hne : a.1 ≠ kl.1 := by
        intro ha; apply hk.1; rw [ha]; exact List.mem_map.2 ⟨kl, hmem, rfl⟩
      rw [show a = (a.1, a.2) from rfl, out_cons_ne _ _ _ _ hne]; exact ih hk.2 hmem

/-- `w` is an out-neighbour of `v` only if `(v,w)` is an edge -/
theorem mem_edges_of_mem_out (g : Adj V) (v w : V) (h : w ∈ out g v) : (v, w) ∈ edges g := by
  induction g with
  | nil => simp [out] at h
  | cons kl g ih =>
    obtain ⟨k, l⟩ := kl
    simp only [edges, List.flatMap_cons, List.mem_append, List.mem_map]
    by_cases hkv : k = v
    · subst hkv; rw [out_cons_self] at h; exact Or.inl ⟨w, h, rfl⟩
    · rw [out_cons_ne k v l g hkv] at h; exact Or.inr (ih h)

theorem mem_out_of_mem_edges (g : Adj V) (v w : V) (hk : (g.map (·.1)).Nodup)
    (h : (v, w) ∈ edges g) : w ∈ out g v := by
  simp only [edges, List.mem_flatMap, List.mem_map] at h
  obtain ⟨kl, hkl, w', hw', heq⟩ := h
  have h1 : kl.1 = v := congrArg Prod.fst heq
  have h2 : w' = w := congrArg Prod.snd heq
  rw [← h1, out_of_mem g kl hk hkl, ← h2]; exact hw'

theorem outdeg_eq_zero_of_out_nil (g : Adj V) (x : V) (hk : (g.map (·.1)).Nodup)
    (hs : out g x = []) : outdeg (edges g) x = 0 := by
  have : List.countP (fun e => decide (e.1 = x)) (edges g) = 0 := by
    rw [List.countP_eq_zero]
    intro e he
    simp only [decide_eq_true_eq]
    intro hc
    have : e.2 ∈ out g x := mem_out_of_mem_edges g x e.2 hk (by rw [← hc]; exact he)
    rw [hs] at this; simp at this
  simp [outdeg, this]

theorem bal_nonpos_of_out_nil (g : Adj V) (x : V) (hk : (g.map (·.1)).Nodup)
    (hs : out g x = []) : bal (edges g) x ≤ 0 := by
  have h1 := outdeg_eq_zero_of_out_nil g x hk hs
  have hi : 0 ≤ indeg (edges g) x := by simp [indeg]
  simp only [bal]; omega

/-- balance of a trail: `bal g0 x = [start = x] - [cur = x] + bal residual x` -/
theorem trail_balance (g0 g : Adj V) (start cur : V) (walk : List V)
    (h : TrailInv g0 start g cur walk) (x : V) :
    bal (edges g0) x = ind' (start = x) - ind' (cur = x) + bal (edges g) x := by
  have hp := bal_perm h.perm x
  rw [bal_append] at hp
  obtain ⟨l, rfl⟩ : ∃ l, walk = start :: l := by
    cases walk with
    | nil => have := h.head; simp at this
    | cons y ys => have := h.head; simp at this; exact ⟨ys, by rw [this]⟩
  have hl : (start :: l).getLast (by simp) = cur := by
    have := h.last; rw [List.getLast?_eq_some_getLast (by simp)] at this; simpa using this
  rw [bal_walkEdges, hl] at hp
  exact hp

/-- the degree argument: if `cur` has no unused out-edge in the residual of a trail from `start`
    that currently stands at `cur`, then `bal g0 cur ≤ [start = cur] - 1` -/
theorem stuck_balance (g0 g : Adj V) (start cur : V) (walk : List V)
    (h : TrailInv g0 start g cur walk) (hs : out g cur = []) :
    bal (edges g0) cur ≤ ind' (start = cur) - 1 := by
  have hp := trail_balance g0 g start cur walk h cur
  have hres := bal_nonpos_of_out_nil g cur h.keys hs
  simp only [ind'] at hp ⊢
  simp at hp
  omega
end FP.Euler
