import FP.Proofs.WalkLemmas
/-!
# FP.Proofs.PathCoreEnc — what a satisfying assignment of `encodePaths` says about one layer
-/
namespace FP
open FP.Spec

theorem sat_append_left (a : Asg) (A B : LP) (h : Sat a (A.append B)) : Sat a A :=
  ⟨fun c hc => h.1 c (by simp [LP.append, hc]), fun r hr => h.2 r (by simp [LP.append, hr])⟩

theorem sat_append_right (a : Asg) (A B : LP) (h : Sat a (A.append B)) : Sat a B :=
  ⟨fun c hc => h.1 c (by simp [LP.append, hc]), fun r hr => h.2 r (by simp [LP.append, hr])⟩

theorem evalTerms_ones {α} (a : Asg) (l : List α) (f : α → Var) :
    evalTerms a (ones l f) = (l.map (fun x => a (f x))).sum := by
  unfold ones
  rw [evalTerms_map]
  congr 1; apply List.map_congr_left; intro x _; grind

theorem evalTerms_negTerms (a : Asg) (ts : Terms) : evalTerms a (negTerms ts) = - evalTerms a ts := by
  induction ts with
  | nil => simp [evalTerms, negTerms]
  | cons t ts ih =>
    simp only [evalTerms, negTerms, List.map_cons, List.sum_cons] at ih ⊢
    rw [ih]; grind

theorem sum_succ (g : Graph) (y : Edge → Rat) (v : Node) :
    ((g.succ v).map (fun w => y (v, w))).sum = outflow g y v := by
  unfold Graph.succ outflow
  rw [List.map_map]
  congr 1; apply List.map_congr_left; intro e he
  have : e.1 = v := by simpa using (List.mem_filter.1 he).2
  simp [← this]

theorem sum_pred (g : Graph) (y : Edge → Rat) (v : Node) :
    ((g.pred v).map (fun u => y (u, v))).sum = inflow g y v := by
  unfold Graph.pred inflow
  rw [List.map_map]
  congr 1; apply List.map_congr_left; intro e he
  have : e.2 = v := by simpa using (List.mem_filter.1 he).2
  simp [← this]

/-- the facts about layer `i` carried by a satisfying assignment -/
structure LayerFacts (s : STGraph) (allowEmpty : Bool) (x : Edge → Rat) : Prop where
  bin : ∀ e ∈ s.g.edges, x e = 0 ∨ x e = 1
  src : if allowEmpty then outflow s.g x s.source ≤ 1 else outflow s.g x s.source = 1
  cons : ∀ v ∈ s.g.nodes, v ≠ s.source → v ≠ s.sink → inflow s.g x v = outflow s.g x v

theorem layerFacts_of_sat (s : STGraph) (c : PathCfg) (a : Asg) (hsat : Sat a (encodePaths s c))
    (i : Nat) (hi : i < c.k) : LayerFacts s c.allowEmpty (fun e => a (edgeVar e i)) := by
  have hcore := sat_append_left a _ _ (sat_append_left a _ _ hsat)
  obtain ⟨hcols, hrows⟩ := hcore
  simp only at hcols hrows
  refine ⟨?_, ?_, ?_⟩
  · intro e he
    have := hcols { v := edgeVar e i, lb := 0, ub := some 1, isInt := true }
      (List.mem_flatMap.2 ⟨i, List.mem_range.2 hi, List.mem_map.2 ⟨e, he, rfl⟩⟩)
    obtain ⟨h0, h1, hz⟩ := this
    exact int01 _ h0 (h1 1 rfl) (hz rfl)
  · have hr := hrows _ (List.mem_append_left _ (List.mem_map.2 ⟨i, List.mem_range.2 hi, rfl⟩))
    have hs := sum_succ s.g (fun e => a (edgeVar e i)) s.source
    clear hrows hcols
    cases hae : c.allowEmpty
    · rw [hae] at hr
      have h1 := hr.1 1 rfl
      have h2 := hr.2 1 rfl
      simp only [Bool.false_eq_true, if_false, rowEq, evalTerms_ones] at h1 h2 ⊢
      rw [hs] at h1 h2
      exact Rat.le_antisymm h2 h1
    · rw [hae] at hr
      have h2 := hr.2 1 rfl
      simp only [if_true, rowLe, evalTerms_ones] at h2 ⊢
      rw [hs] at h2
      exact h2
  · intro v hv h1 h2
    have hr := hrows _ (List.mem_append_right _ (List.mem_flatMap.2 ⟨i, List.mem_range.2 hi,
      List.mem_map.2 ⟨v, List.mem_filter.2 ⟨hv, by simp [h1, h2]⟩, rfl⟩⟩))
    have hs := sum_succ s.g (fun e => a (edgeVar e i)) v
    have hp := sum_pred s.g (fun e => a (edgeVar e i)) v
    have hlo := hr.1 0 rfl
    have hhi := hr.2 0 rfl
    simp only [rowEq, evalTerms_append, evalTerms_negTerms, evalTerms_ones] at hlo hhi
    rw [hs, hp] at hlo hhi
    clear hr hrows hcols hs hp
    grind

end FP
