import FP.Model.Wrapper
/-!
# Proofs for the wrapper state machine (`flush`, `setObjective`)
-/
namespace FP

/-- generic fold of bound updates -/
def applyUps (cs : List WCol) (ups : List (Nat × Rat × Rat)) : List WCol :=
  ups.foldl (fun cs u => setBounds cs u.1 u.2.1 u.2.2) cs

theorem applyUps_length (ups : List (Nat × Rat × Rat)) : ∀ cs, (applyUps cs ups).length = cs.length := by
  induction ups with
  | nil => intro cs; rfl
  | cons u rest ih => intro cs; simp [applyUps, setBounds] at ih ⊢; rw [ih]; simp

theorem applyUps_notin (i : Nat) (ups : List (Nat × Rat × Rat)) : ∀ cs, i ∉ ups.map (·.1) →
    (applyUps cs ups)[i]? = cs[i]? := by
  induction ups with
  | nil => intro cs _; rfl
  | cons u rest ih =>
    intro cs h
    simp only [List.map_cons, List.mem_cons, not_or] at h
    have := ih (setBounds cs u.1 u.2.1 u.2.2) h.2
    simp only [applyUps, List.foldl_cons] at this ⊢
    rw [this, setBounds, List.getElem?_modify_ne _ _ (Ne.symm h.1)]

theorem applyUps_mem (i : Nat) (l u : Rat) (ups : List (Nat × Rat × Rat)) : ∀ cs,
    (ups.map (·.1)).Nodup → (i, l, u) ∈ ups →
    (applyUps cs ups)[i]? = (cs[i]?).map (fun c => { c with lb := l, ub := u }) := by
  induction ups with
  | nil => intro cs _ h; simp at h
  | cons w rest ih =>
    intro cs hnd hmem
    simp only [List.map_cons, List.nodup_cons] at hnd
    rcases List.mem_cons.1 hmem with h | h
    · subst h
      have := applyUps_notin i rest (setBounds cs i l u) hnd.1
      simp only [applyUps, List.foldl_cons] at this ⊢
      rw [this, setBounds, List.getElem?_modify_eq]; rfl
    · have hne : w.1 ≠ i := by
        intro he
        apply hnd.1
        rw [he]
        exact List.mem_map.2 ⟨_, h, rfl⟩
      have := ih (setBounds cs w.1 w.2.1 w.2.2) hnd.2 h
      simp only [applyUps, List.foldl_cons] at this ⊢
      rw [this, setBounds, List.getElem?_modify_ne _ _ hne]

theorem flush_fix_exact_proof (f : GetColsField) (s : WState) (hnolb : s.pendingLb = [])
    (hnd : (s.pendingFix.map (·.1)).Nodup) (i : Nat) (hi : i < s.cols.length) :
    ((flush f s).cols.length = s.cols.length) ∧
    (∀ v, (i, v) ∈ s.pendingFix →
        (flush f s).cols[i]? = some { lb := v, ub := v, cost := (s.cols.getD i default).cost }) ∧
    (i ∉ s.pendingFix.map (·.1) → (flush f s).cols[i]? = s.cols[i]?) := by
  have hcols : (flush f s).cols = applyUps s.cols (s.pendingFix.map (fun iv => (iv.1, iv.2, iv.2))) := by
    simp [flush, hnolb, applyUps, List.foldl_map]
  rw [hcols]
  have hmap : (s.pendingFix.map (fun iv => (iv.1, iv.2, iv.2))).map (·.1) = s.pendingFix.map (·.1) := by
    simp [List.map_map, Function.comp_def]
  refine ⟨applyUps_length _ _, ?_, ?_⟩
  · intro v hv
    rw [applyUps_mem i v v _ _ (by rw [hmap]; exact hnd) (List.mem_map.2 ⟨_, hv, rfl⟩)]
    simp [hi]
  · intro h
    exact applyUps_notin i _ _ (by rw [hmap]; exact h)

theorem flush_lb_exact_proof (s : WState) (hnofix : s.pendingFix = [])
    (hnd : (s.pendingLb.map (·.1)).Nodup) (i : Nat) (hi : i < s.cols.length) :
    (∀ v, (i, v) ∈ s.pendingLb →
        (flush .upper s).cols[i]? = some { (s.cols.getD i default) with lb := v }) ∧
    (i ∉ s.pendingLb.map (·.1) → (flush .upper s).cols[i]? = s.cols[i]?) := by
  have hcols : (flush .upper s).cols =
      applyUps s.cols (s.pendingLb.map (fun iv => (iv.1, iv.2, (s.cols.getD iv.1 default).ub))) := by
    simp only [flush, hnofix, List.foldl_nil, applyUps, List.foldl_map, fieldOf]
    rw [show s.pendingLb.zip (s.pendingLb.map fun iv => (s.cols.getD iv.1 default).ub)
          = s.pendingLb.map (fun iv => (iv, (s.cols.getD iv.1 default).ub)) from by
        conv => lhs; arg 1; rw [← List.map_id s.pendingLb]
        rw [List.zip_map']; rfl]
    rw [List.foldl_map]
  rw [hcols]
  have hmap : (s.pendingLb.map (fun iv => (iv.1, iv.2, (s.cols.getD iv.1 default).ub))).map (·.1)
      = s.pendingLb.map (·.1) := by
    simp [List.map_map, Function.comp_def]
  refine ⟨?_, ?_⟩
  · intro v hv
    rw [applyUps_mem i v _ _ _ (by rw [hmap]; exact hnd) (List.mem_map.2 ⟨_, hv, rfl⟩)]
    simp [hi]
  · intro h
    exact applyUps_notin i _ _ (by rw [hmap]; exact h)

/-! ### setObjective -/

theorem setObjective_getElem? (cols : List WCol) (t : List (Nat × Rat)) (i : Nat) :
    (setObjective cols t)[i]? =
      (cols[i]?).map (fun c => { c with cost := ((t.filter (·.1 = i)).map (·.2)).sum }) := by
  simp only [setObjective, List.getElem?_map, List.zip, List.getElem?_zipWith', List.length_map]
  by_cases hi : i < cols.length
  · simp [hi]
  · simp [hi]

theorem setObjective_replaces_proof (cols : List WCol) (t1 t2 : List (Nat × Rat)) :
    setObjective (setObjective cols t1) t2 = setObjective cols t2 := by
  apply List.ext_getElem?
  intro i
  rw [setObjective_getElem?, setObjective_getElem?, setObjective_getElem?]
  cases cols[i]? <;> simp

theorem setObjective_cost_proof (cols : List WCol) (t : List (Nat × Rat)) (i : Nat) (hi : i < cols.length) :
    ((setObjective cols t)[i]?).map (·.cost) = some ((t.filter (·.1 = i)).map (·.2)).sum := by
  rw [setObjective_getElem?]
  simp [hi]

end FP
