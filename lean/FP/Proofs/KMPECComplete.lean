import FP.Proofs.KMPEC
import FP.Proofs.KLAECComplete
/-!
# FP.Proofs.KMPECComplete — restricted completeness of the `kMinPathErrorCycles` LP and optimum transfer

`kmpecAsg` turns multiplicities `m i e`, weights `w i`, slacks `sl i` and connectivity witnesses into an
assignment of *all* columns of `kmpecLP`. It satisfies the LP (`kmpec_complete_mult`) provided

* every layer has layer witnesses within the repetition caps,
* weights and slacks lie in `[0, w_max]` (integral for `weight_type = int`),
* every multiplicity on a non-ignored edge fits into the `⌈log2(w_max+1)⌉` bits of its product blocks,
* **every product `w_i · m_i(e)` and `slack_i · m_i(e)` on a non-ignored edge is at most `w_max`**
  (the bounds of the `pi` and `gamma` columns),
* the slack inequality holds on every non-ignored edge (scales non-negative).

`kmpec_complete_within_caps_proof` is the same for walks (`MpecWithinCaps`),
`kmpec_opt_within_caps_proof` the optimum transfer: the total slack of an optimum of the LP is minimal
among all such families, and (no empty walks, no subset constraints) its decoded family is one of them.
-/
namespace FP
open FP.Spec FP.Spec.MPE

/-! ## the assignment -/

/-- the product blocks of the LP: per non-ignored edge and layer one `10_` block (`false`, weight) and
one `12_` block (`true`, slack) -/
def kmpecProdIdx (inp : WalkInput) : List (Bool × Edge × Nat) :=
  (inp.activeEdges true).flatMap fun e => (List.range inp.k).flatMap fun i =>
    [(false, e, i), (true, e, i)]

def kmpecBlockName (p : Bool × Edge × Nat) : String :=
  kmpecProdName (if p.1 then "12" else "10") p.2.1 p.2.2

theorem mem_kmpecProdIdx {inp : WalkInput} {b : Bool} {e : Edge} {i : Nat} :
    (b, e, i) ∈ kmpecProdIdx inp ↔ e ∈ inp.activeEdges true ∧ i < inp.k := by
  unfold kmpecProdIdx
  constructor
  · intro h
    obtain ⟨e', he', h⟩ := List.mem_flatMap.1 h
    obtain ⟨i', hi', h⟩ := List.mem_flatMap.1 h
    simp only [List.mem_cons, List.not_mem_nil, or_false] at h
    rcases h with h | h <;> cases h <;> exact ⟨he', List.mem_range.1 hi'⟩
  · rintro ⟨he, hi⟩
    refine List.mem_flatMap.2 ⟨e, he, List.mem_flatMap.2 ⟨i, List.mem_range.2 hi, ?_⟩⟩
    cases b <;> simp

/-- the names of the product blocks are pairwise different (the model identifies a column with its
HiGHS name) -/
def KmpecNameInj (inp : WalkInput) : Prop :=
  ∀ p ∈ kmpecProdIdx inp, ∀ q ∈ kmpecProdIdx inp, kmpecBlockName p = kmpecBlockName q → p = q

/-- all columns of `kmpecLP` -/
def kmpecAsg (inp : WalkInput) (m : Nat → Edge → Nat) (w sl : Nat → Rat)
    (sel : Nat → Edge → Bool) (dist : Nat → Node → Nat) : Asg :=
  klaecProdAsg (kmpecProdIdx inp) kmpecBlockName (fun p => m p.2.2 p.2.1)
    (fun p => if p.1 then sl p.2.2 else w p.2.2)
    (klaecBaseAsg inp m w sl (fun _ => 0) sel dist)

/-- the assignment of a family of weighted walks with slacks (inner vertex sequences) -/
def kmpecWalkAsg (inp : WalkInput) (walk : Nat → List Node) (w sl : Nat → Rat) : Asg :=
  kmpecAsg inp (multsOf inp.st.source inp.st.sink walk) w sl
    (fun i => walkSel (inp.st.source :: walk i ++ [inp.st.sink]))
    (fun i => walkDist inp.st.g.nodes (inp.st.source :: walk i ++ [inp.st.sink]))

section Asg
variable (inp : WalkInput) (m : Nat → Edge → Nat) (w sl : Nat → Rat)
  (sel : Nat → Edge → Bool) (dist : Nat → Node → Nat)

theorem kmpecAsg_edge (e : Edge) (i : Nat) : kmpecAsg inp m w sl sel dist (edgeVar e i) = (m i e : Rat) :=
  klaecBaseAsg_edge inp m w sl (fun _ => 0) sel dist e i

theorem kmpecAsg_sel (e : Edge) (i : Nat) :
    kmpecAsg inp m w sl sel dist (selVar e i) = if sel i e then 1 else 0 :=
  klaecBaseAsg_sel inp m w sl (fun _ => 0) sel dist e i

theorem kmpecAsg_used (e : Edge) (i : Nat) :
    kmpecAsg inp m w sl sel dist (usedVar e i) = if m i e = 0 then 0 else 1 :=
  klaecBaseAsg_used inp m w sl (fun _ => 0) sel dist e i

theorem kmpecAsg_pi (e : Edge) (i : Nat) :
    kmpecAsg inp m w sl sel dist (piVar e i)
      = if e ∈ inp.activeEdges true then w i * (m i e : Rat) else 0 :=
  klaecBaseAsg_pi inp m w sl (fun _ => 0) sel dist e i

theorem kmpecAsg_gamma (e : Edge) (i : Nat) :
    kmpecAsg inp m w sl sel dist (gammaVar e i)
      = if e ∈ inp.activeEdges true then sl i * (m i e : Rat) else 0 :=
  klaecBaseAsg_gamma inp m w sl (fun _ => 0) sel dist e i

theorem kmpecAsg_dist (v : Node) (i : Nat) : kmpecAsg inp m w sl sel dist (distVar v i) = (dist i v : Rat) :=
  klaecBaseAsg_dist inp m w sl (fun _ => 0) sel dist v i

theorem kmpecAsg_r (i j : Nat) :
    kmpecAsg inp m w sl sel dist (rVar i j)
      = if coversB (m i) (inp.cfg.constraints.getD j []) inp.cfg.coverage then 1 else 0 :=
  klaecBaseAsg_r inp m w sl (fun _ => 0) sel dist i j

theorem kmpecAsg_weights (i : Nat) : kmpecAsg inp m w sl sel dist (weightsVar i) = w i :=
  (klaecProdAsg_ix_other _ _ _ _ _ "weights" i binary_ne_weights comp_ne_weights).trans
    (klaecBaseAsg_weights inp m w sl (fun _ => 0) sel dist i)

theorem kmpecAsg_slack (i : Nat) : kmpecAsg inp m w sl sel dist (slackVar i) = sl i :=
  (klaecProdAsg_ix_other _ _ _ _ _ "slack" i binary_ne_slack comp_ne_slack).trans
    (klaecBaseAsg_slack inp m w sl (fun _ => 0) sel dist i)

theorem kmpecAsg_bitW (hinj : KmpecNameInj inp) (e : Edge) (i : Nat)
    (he : e ∈ inp.activeEdges true) (hi : i < inp.k) (j : Nat) :
    kmpecAsg inp m w sl sel dist (bitVar (kmpecProdName "10" e i) j) = bitOf (m i e) j :=
  klaecProdAsg_bit (kmpecProdIdx inp) kmpecBlockName (fun p => m p.2.2 p.2.1)
    (fun p => if p.1 then sl p.2.2 else w p.2.2) _ hinj (false, e, i) (mem_kmpecProdIdx.2 ⟨he, hi⟩) j

theorem kmpecAsg_compW (hinj : KmpecNameInj inp) (e : Edge) (i : Nat)
    (he : e ∈ inp.activeEdges true) (hi : i < inp.k) (j : Nat) :
    kmpecAsg inp m w sl sel dist (compVar (kmpecProdName "10" e i) j) = bitOf (m i e) j * w i :=
  klaecProdAsg_comp (kmpecProdIdx inp) kmpecBlockName (fun p => m p.2.2 p.2.1)
    (fun p => if p.1 then sl p.2.2 else w p.2.2) _ hinj (false, e, i) (mem_kmpecProdIdx.2 ⟨he, hi⟩) j

theorem kmpecAsg_bitS (hinj : KmpecNameInj inp) (e : Edge) (i : Nat)
    (he : e ∈ inp.activeEdges true) (hi : i < inp.k) (j : Nat) :
    kmpecAsg inp m w sl sel dist (bitVar (kmpecProdName "12" e i) j) = bitOf (m i e) j :=
  klaecProdAsg_bit (kmpecProdIdx inp) kmpecBlockName (fun p => m p.2.2 p.2.1)
    (fun p => if p.1 then sl p.2.2 else w p.2.2) _ hinj (true, e, i) (mem_kmpecProdIdx.2 ⟨he, hi⟩) j

theorem kmpecAsg_compS (hinj : KmpecNameInj inp) (e : Edge) (i : Nat)
    (he : e ∈ inp.activeEdges true) (hi : i < inp.k) (j : Nat) :
    kmpecAsg inp m w sl sel dist (compVar (kmpecProdName "12" e i) j) = bitOf (m i e) j * sl i :=
  klaecProdAsg_comp (kmpecProdIdx inp) kmpecBlockName (fun p => m p.2.2 p.2.1)
    (fun p => if p.1 then sl p.2.2 else w p.2.2) _ hinj (true, e, i) (mem_kmpecProdIdx.2 ⟨he, hi⟩) j

end Asg

/-! ## the error block -/

theorem kmpecErr_sat (inp : WalkInput) (a : Asg) (m : Nat → Edge → Nat) (w sl : Nat → Rat)
    (hx : ∀ i e, a (edgeVar e i) = (m i e : Rat))
    (hwv : ∀ i, a (weightsVar i) = w i)
    (hsv : ∀ i, a (slackVar i) = sl i)
    (hpi : ∀ i e, a (piVar e i) = if e ∈ inp.activeEdges true then w i * (m i e : Rat) else 0)
    (hgam : ∀ i e, a (gammaVar e i) = if e ∈ inp.activeEdges true then sl i * (m i e : Rat) else 0)
    (hbitW : ∀ i, i < inp.k → ∀ e ∈ inp.activeEdges true, ∀ j,
      a (bitVar (kmpecProdName "10" e i) j) = bitOf (m i e) j)
    (hcompW : ∀ i, i < inp.k → ∀ e ∈ inp.activeEdges true, ∀ j,
      a (compVar (kmpecProdName "10" e i) j) = bitOf (m i e) j * w i)
    (hbitS : ∀ i, i < inp.k → ∀ e ∈ inp.activeEdges true, ∀ j,
      a (bitVar (kmpecProdName "12" e i) j) = bitOf (m i e) j)
    (hcompS : ∀ i, i < inp.k → ∀ e ∈ inp.activeEdges true, ∀ j,
      a (compVar (kmpecProdName "12" e i) j) = bitOf (m i e) j * sl i)
    (hw : ∀ i, i < inp.k → 0 ≤ w i ∧ w i ≤ inp.wmax true ∧ (inp.weightInt = true → IsInt (w i)))
    (hs : ∀ i, i < inp.k → 0 ≤ sl i ∧ sl i ≤ inp.wmax true ∧ (inp.weightInt = true → IsInt (sl i)))
    (hmb : ∀ i, i < inp.k → ∀ e ∈ inp.activeEdges true, m i e < 2 ^ klaecBits inp)
    (hprod : ∀ i, i < inp.k → ∀ e ∈ inp.activeEdges true,
      w i * (m i e : Rat) ≤ inp.wmax true ∧ sl i * (m i e : Rat) ≤ inp.wmax true)
    (hscale : ∀ e ∈ inp.activeEdges true, 0 ≤ inp.scale e)
    (hok : ∀ e ∈ inp.activeEdges true,
      (inp.f e - explainedM inp.k m w e).abs * inp.scale e ≤ explainedM inp.k m sl e) :
    Sat a (kmpecErr inp) := by
  have hprodS : ∀ e ∈ inp.activeEdges true, ∀ i, i < inp.k →
      Sat a (intProdQ (edgeVar e i) (weightsVar i) (piVar e i) 0 (inp.wmax true) (kmpecProdName "10" e i)) ∧
      Sat a (intProdQ (edgeVar e i) (slackVar i) (gammaVar e i) 0 (inp.wmax true) (kmpecProdName "12" e i)) := by
    intro e he i hi
    constructor
    · apply klaec_intProdQ_sat_of_bits a _ _ _ _ _ (m i e) (hx i e) (hmb i hi e he)
      · rw [hwv i]; exact ⟨(hw i hi).1, (hw i hi).2.1⟩
      · rw [hpi i e, if_pos he, hx i e, hwv i]; grind
      · exact hbitW i hi e he
      · intro j; rw [hcompW i hi e he j, hwv i]
    · apply klaec_intProdQ_sat_of_bits a _ _ _ _ _ (m i e) (hx i e) (hmb i hi e he)
      · rw [hsv i]; exact ⟨(hs i hi).1, (hs i hi).2.1⟩
      · rw [hgam i e, if_pos he, hx i e, hsv i]; grind
      · exact hbitS i hi e he
      · intro j; rw [hcompS i hi e he j, hsv i]
  have hP := (kmpec_sat_flatMap_lps a _).2 ((kmpec_sat_prods_iff a inp).2 hprodS)
  constructor
  · intro col hcol
    simp only [kmpecErr, List.mem_append] at hcol
    rcases hcol with (((h | h) | h) | h) | h
    · -- weight columns
      obtain ⟨i, hi, rfl⟩ := List.mem_map.1 h
      have hi' := List.mem_range.1 hi
      simp only [Col.holds, hwv i]
      exact ⟨(hw i hi').1, fun u hu => by cases hu; exact (hw i hi').2.1, (hw i hi').2.2⟩
    · -- pi columns
      obtain ⟨i, hi, h⟩ := List.mem_flatMap.1 h
      obtain ⟨e, he, rfl⟩ := List.mem_map.1 h
      have hi' := List.mem_range.1 hi
      simp only [Col.holds, hpi i e]
      by_cases hact : e ∈ inp.activeEdges true
      · simp only [hact, if_true]
        refine ⟨Rat.mul_nonneg (hw i hi').1 Rat.natCast_nonneg, ?_, ?_⟩
        · intro u hu; cases hu
          exact (hprod i hi' e hact).1
        · intro hint
          exact isInt_mul ((hw i hi').2.2 hint) (isInt_natCast _)
      · simp only [hact, if_false]
        exact ⟨Rat.le_refl, fun u hu => by cases hu; exact Rat.le_trans (hw i hi').1 (hw i hi').2.1,
          fun _ => ⟨0, by simp⟩⟩
    · -- slack columns
      obtain ⟨i, hi, rfl⟩ := List.mem_map.1 h
      have hi' := List.mem_range.1 hi
      simp only [Col.holds, hsv i]
      exact ⟨(hs i hi').1, fun u hu => by cases hu; exact (hs i hi').2.1, (hs i hi').2.2⟩
    · -- gamma columns
      obtain ⟨i, hi, h⟩ := List.mem_flatMap.1 h
      obtain ⟨e, he, rfl⟩ := List.mem_map.1 h
      have hi' := List.mem_range.1 hi
      simp only [Col.holds, hgam i e]
      by_cases hact : e ∈ inp.activeEdges true
      · simp only [hact, if_true]
        refine ⟨Rat.mul_nonneg (hs i hi').1 Rat.natCast_nonneg, ?_, fun h => by cases h⟩
        intro u hu; cases hu
        exact (hprod i hi' e hact).2
      · simp only [hact, if_false]
        exact ⟨Rat.le_refl, fun u hu => by cases hu; exact Rat.le_trans (hs i hi').1 (hs i hi').2.1,
          fun h => by cases h⟩
    · exact hP.1 col h
  · intro r hr
    simp only [kmpecErr, List.mem_append] at hr
    rcases hr with h | h
    · exact hP.2 r h
    · obtain ⟨e, he, h⟩ := List.mem_flatMap.1 h
      have hsumW : ((List.range inp.k).map fun i => a (piVar e i)).sum = explainedM inp.k m w e := by
        unfold explainedM
        apply sum_map_congr
        intro i _
        rw [hpi i e, if_pos he]
      have hsumS : ((List.range inp.k).map fun i => a (gammaVar e i)).sum = explainedM inp.k m sl e := by
        unfold explainedM
        apply sum_map_congr
        intro i _
        rw [hgam i e, if_pos he]
      have h0 := hok e he
      have hsc := hscale e he
      have ha1 := Rat.mul_nonneg (show 0 ≤ (inp.f e - explainedM inp.k m w e).abs
        - (inp.f e - explainedM inp.k m w e) by have := le_abs (inp.f e - explainedM inp.k m w e); grind) hsc
      have ha2 := Rat.mul_nonneg (show 0 ≤ (inp.f e - explainedM inp.k m w e).abs
        + (inp.f e - explainedM inp.k m w e) by have := neg_le_abs (inp.f e - explainedM inp.k m w e); grind) hsc
      simp only [List.mem_cons, List.not_mem_nil, or_false] at h
      rcases h with rfl | rfl
      · apply rowLe_holds_p04
        simp only [evalTerms_append, evalTerms_negTerms, evalTerms_ones, kmpec_evalTerms_scaledPi,
          hsumW, hsumS]
        grind
      · apply rowGe_holds_p04
        simp only [evalTerms_append, evalTerms_ones, kmpec_evalTerms_scaledPi, hsumW, hsumS]
        grind

/-! ## completeness on the level of multiplicities -/

/-- the hypotheses of completeness, for one instance -/
structure KmpecFamily (inp : WalkInput) (m : Nat → Edge → Nat) (w sl : Nat → Rat)
    (sel : Nat → Edge → Bool) (dist : Nat → Node → Nat) : Prop where
  layer : ∀ i, i < inp.k → LayerWitness inp.st inp.cfg.allowEmpty (klaecCap inp) (m i) (sel i) (dist i)
  weights : ∀ i, i < inp.k → 0 ≤ w i ∧ w i ≤ inp.wmax true ∧ (inp.weightInt = true → IsInt (w i))
  slacks : ∀ i, i < inp.k → 0 ≤ sl i ∧ sl i ≤ inp.wmax true ∧ (inp.weightInt = true → IsInt (sl i))
  multBits : ∀ i, i < inp.k → ∀ e ∈ inp.activeEdges true, m i e < 2 ^ klaecBits inp
  prodLe : ∀ i, i < inp.k → ∀ e ∈ inp.activeEdges true,
    w i * (m i e : Rat) ≤ inp.wmax true ∧ sl i * (m i e : Rat) ≤ inp.wmax true
  slackOK : ∀ e ∈ inp.activeEdges true,
    (inp.f e - explainedM inp.k m w e).abs * inp.scale e ≤ explainedM inp.k m sl e
  covered : ∀ j (hj : j < inp.cfg.constraints.length), ∃ i, i < inp.k ∧
    coversB (m i) inp.cfg.constraints[j] inp.cfg.coverage = true

theorem kmpec_complete_mult (inp : WalkInput) (m : Nat → Edge → Nat) (w sl : Nat → Rat)
    (sel : Nat → Edge → Bool) (dist : Nat → Node → Nat)
    (hwf : STWFc inp.st) (hsrc : inp.st.source ∈ inp.st.g.nodes) (hinj : KmpecNameInj inp)
    (hscale : ∀ e ∈ inp.activeEdges true, 0 ≤ inp.scale e)
    (h : KmpecFamily inp m w sl sel dist) :
    Sat (kmpecAsg inp m w sl sel dist) (kmpecLP inp) := by
  rw [kmpecLP_eq]
  refine sat_append_intro _ _ _ ?_ ?_
  · exact klaec_core_sat inp _ m sel dist hwf hsrc h.layer h.covered
      (fun i e => kmpecAsg_edge inp m w sl sel dist e i)
      (fun i e => kmpecAsg_sel inp m w sl sel dist e i)
      (fun i v => kmpecAsg_dist inp m w sl sel dist v i)
      (fun i e => kmpecAsg_used inp m w sl sel dist e i)
      (fun i j => kmpecAsg_r inp m w sl sel dist i j)
  · exact kmpecErr_sat inp _ m w sl
      (fun i e => kmpecAsg_edge inp m w sl sel dist e i)
      (fun i => kmpecAsg_weights inp m w sl sel dist i)
      (fun i => kmpecAsg_slack inp m w sl sel dist i)
      (fun i e => kmpecAsg_pi inp m w sl sel dist e i)
      (fun i e => kmpecAsg_gamma inp m w sl sel dist e i)
      (fun i hi e he j => kmpecAsg_bitW inp m w sl sel dist hinj e i he hi j)
      (fun i hi e he j => kmpecAsg_compW inp m w sl sel dist hinj e i he hi j)
      (fun i hi e he j => kmpecAsg_bitS inp m w sl sel dist hinj e i he hi j)
      (fun i hi e he j => kmpecAsg_compS inp m w sl sel dist hinj e i he hi j)
      h.weights h.slacks h.multBits h.prodLe hscale h.slackOK

/-! ## completeness for walks -/

/-- a family of `inp.k` weighted walks with slacks that the `kMinPathErrorCycles` model can represent -/
structure MpecWithinCaps (inp : WalkInput) (walk : Nat → List Node) (w sl : Nat → Rat) : Prop where
  /-- walks of the augmented graph from the synthetic source to the synthetic sink -/
  isWalk : ∀ i, i < inp.k → IsWalkIn inp.st.g (inp.st.source :: walk i ++ [inp.st.sink])
  /-- every walk respects the repetition caps (largest reachable flow value inside an SCC, 1 outside) -/
  withinCap : ∀ i, i < inp.k → ∀ e ∈ inp.st.g.edges,
    (traversals (inp.st.source :: walk i ++ [inp.st.sink]) e : Rat) ≤ klaecCap inp e
  /-- weights in `[0, w_max]`, integral for `weight_type = int` -/
  weights : ∀ i, i < inp.k → 0 ≤ w i ∧ w i ≤ inp.wmax true ∧ (inp.weightInt = true → IsInt (w i))
  /-- slacks in `[0, w_max]`, integral for `weight_type = int` -/
  slacks : ∀ i, i < inp.k → 0 ≤ sl i ∧ sl i ≤ inp.wmax true ∧ (inp.weightInt = true → IsInt (sl i))
  /-- the traversal counts fit into the `⌈log2(w_max + 1)⌉` bits of the product blocks -/
  multBits : ∀ i, i < inp.k → ∀ e ∈ inp.activeEdges true,
    traversals (inp.st.source :: walk i ++ [inp.st.sink]) e < 2 ^ klaecBits inp
  /-- **weight × traversals and slack × traversals are at most `w_max`** on every non-ignored edge -/
  prodLe : ∀ i, i < inp.k → ∀ e ∈ inp.activeEdges true,
    w i * (traversals (inp.st.source :: walk i ++ [inp.st.sink]) e : Rat) ≤ inp.wmax true ∧
    sl i * (traversals (inp.st.source :: walk i ++ [inp.st.sink]) e : Rat) ≤ inp.wmax true
  /-- the slack inequality on every non-ignored edge -/
  slackOK : ∀ e ∈ inp.activeEdges true, MPEC.SlackOK inp walk w sl e
  /-- every subset constraint is covered by some walk -/
  covered : ∀ j (hj : j < inp.cfg.constraints.length), ∃ i, i < inp.k ∧
    coversB (multsOf inp.st.source inp.st.sink walk i) inp.cfg.constraints[j] inp.cfg.coverage = true

/-- **restricted completeness for walks.** -/
theorem kmpec_complete_within_caps_proof (inp : WalkInput) (walk : Nat → List Node) (w sl : Nat → Rat)
    (hb : BaseWF inp.base) (hk : 0 < inp.k) (hinj : KmpecNameInj inp)
    (hscale : ∀ e ∈ inp.activeEdges true, 0 ≤ inp.scale e)
    (h : MpecWithinCaps inp walk w sl) :
    Sat (kmpecWalkAsg inp walk w sl) (kmpecLP inp) ∧
      (∀ i e, multOf (kmpecWalkAsg inp walk w sl) i e
        = traversals (inp.st.source :: walk i ++ [inp.st.sink]) e) ∧
      (∀ i, kmpecWalkAsg inp walk w sl (weightsVar i) = w i ∧
        kmpecWalkAsg inp walk w sl (slackVar i) = sl i) ∧
      evalTerms (kmpecWalkAsg inp walk w sl) (kmpecLP inp).obj = totalSlack inp.k sl := by
  have hwf : STWFc inp.st := augment_wfc inp.base inp.starts inp.ends hb
  have hsrc := source_mem_of_walk inp.st hwf (walk 0) (h.isWalk 0 hk)
  have hfam : KmpecFamily inp (multsOf inp.st.source inp.st.sink walk) w sl
      (fun i => walkSel (inp.st.source :: walk i ++ [inp.st.sink]))
      (fun i => walkDist inp.st.g.nodes (inp.st.source :: walk i ++ [inp.st.sink])) :=
    { layer := fun i hi => walk_layer_witness inp.st hwf _ _ (walk i) (h.isWalk i hi) (h.withinCap i hi)
      weights := h.weights
      slacks := h.slacks
      multBits := h.multBits
      prodLe := h.prodLe
      slackOK := h.slackOK
      covered := h.covered }
  have hsat := kmpec_complete_mult inp _ w sl _ _ hwf hsrc hinj hscale hfam
  have hsl : ∀ i, kmpecWalkAsg inp walk w sl (slackVar i) = sl i :=
    fun i => kmpecAsg_slack inp _ w sl _ _ i
  refine ⟨hsat, ?_, fun i => ⟨kmpecAsg_weights inp _ w sl _ _ i, hsl i⟩, ?_⟩
  · intro i e
    unfold multOf kmpecWalkAsg
    rw [kmpecAsg_edge, pyRoundCount_natCast]
    rfl
  · rw [kmpecLP_obj]
    unfold totalSlack
    apply sum_map_congr
    intro i _
    exact hsl i

/-! ## what the decoded family of a satisfying assignment looks like -/

/-- the multiplicities of a satisfying assignment fit into the bits of their product blocks -/
theorem kmpec_mult_bits (inp : WalkInput) (a : Asg) (hsat : Sat a (kmpecLP inp))
    (e : Edge) (he : e ∈ inp.activeEdges true) (i : Nat) (hi : i < inp.k) :
    multOf a i e < 2 ^ klaecBits inp := by
  have hee : e ∈ inp.st.g.edges := (List.mem_filter.1 he).1
  have hcol := edge_col (kmpec_sat_enc hsat) hi hee
  have hp := ((kmpec_sat_prods_iff a inp).1 (kmpec_sat_prods hsat) e he i hi).1
  rw [klaec_intProdQ_bits] at hp
  exact klaec_prodFrag_mult_lt a _ _ _ _ _ _ _ _ hcol hp

/-- **the decoded family is within the caps** (no empty walks, no subset constraints) -/
theorem kmpec_decoded_within_caps (inp : WalkInput) (a : Asg) (hb : BaseWF inp.base)
    (hae : inp.cfg.allowEmpty = false) (hcons : inp.cfg.constraints = [])
    (hsat : Sat a (kmpecLP inp)) :
    MpecWithinCaps inp (decodeWalkLayer inp.st a) (fun i => a (weightsVar i)) (fun i => a (slackVar i)) := by
  have hwf : STWFc inp.st := augment_wfc inp.base inp.starts inp.ends hb
  obtain ⟨hw, _, hlayer, hprod, hok, _⟩ := kmpec_sound_proof inp a hb hsat
  refine { isWalk := fun i hi => klaec_decoded_isWalk inp.st inp.cfg _ a hwf (kmpec_sat_enc hsat) hae i hi
           withinCap := ?_, weights := fun i hi => (hw i hi).1, slacks := fun i hi => (hw i hi).2,
           multBits := ?_, prodLe := ?_, slackOK := hok, covered := ?_ }
  · intro i hi e he
    rw [(hlayer i hi e he).1]; exact (hlayer i hi e he).2.2
  · intro i hi e he
    rw [(hlayer i hi e (List.mem_filter.1 he).1).1]
    exact kmpec_mult_bits inp a hsat e he i hi
  · intro i hi e he
    obtain ⟨h1, h2, h3, h4⟩ := hprod e he i hi
    rw [(hlayer i hi e (List.mem_filter.1 he).1).1, ← h1, ← h2]
    exact ⟨h3, h4⟩
  · intro j hj
    rw [hcons] at hj
    exact absurd hj (Nat.not_lt_zero j)

/-! ## optimum transfer -/

/-- **optimum transfer.** The total slack of an optimum of the LP — which is the LP objective — is at
most the total slack of every family within the caps. -/
theorem kmpec_opt_within_caps_proof (inp : WalkInput) (a : Asg) (hb : BaseWF inp.base) (hk : 0 < inp.k)
    (hinj : KmpecNameInj inp)
    (hscale : ∀ e ∈ inp.activeEdges true, 0 ≤ inp.scale e)
    (hopt : ∀ a', Sat a' (kmpecLP inp) → evalTerms a (kmpecLP inp).obj ≤ evalTerms a' (kmpecLP inp).obj) :
    evalTerms a (kmpecLP inp).obj = totalSlack inp.k (fun i => a (slackVar i)) ∧
    ∀ walk' w' sl', MpecWithinCaps inp walk' w' sl' →
      totalSlack inp.k (fun i => a (slackVar i)) ≤ totalSlack inp.k sl' := by
  refine ⟨kmpecLP_obj inp a, fun walk' w' sl' h' => ?_⟩
  obtain ⟨hsat', _, _, hobj'⟩ := kmpec_complete_within_caps_proof inp walk' w' sl' hb hk hinj hscale h'
  have := hopt _ hsat'
  rw [hobj', kmpecLP_obj] at this
  exact this

end FP
