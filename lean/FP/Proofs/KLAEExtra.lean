import FP.Proofs.KLAE
/-!
# FP.Proofs.KLAEExtra — adequacy of `w_max`, objective consistency of k-Least-Absolute-Errors
-/
namespace FP
open FP.Spec FP.Spec.LAE

/-- `weight_type(max flow over the non-ignored edges)` — `w_max = k · fmax` -/
def ErrInput.fmax (inp : ErrInput) : Rat := inp.cast (listMax (inp.basicEdges.map inp.fi.f))

theorem wmax_eq (inp : ErrInput) : inp.wmax none = max ((inp.k : Rat) * inp.fmax) 0 := rfl

/-- weights clamped to the largest flow value -/
def clampW (inp : ErrInput) (w : Nat → Rat) : Nat → Rat := fun i => min (w i) inp.fmax

theorem fmax_isInt (inp : ErrInput) (hint : inp.fi.weightInt = true) : IsInt inp.fmax := by
  unfold ErrInput.fmax ErrInput.cast
  rw [hint]; exact ⟨_, rfl⟩

theorem fmax_nonneg (inp : ErrInput) (hf : ∀ e ∈ inp.basicEdges, 0 ≤ inp.fi.f e ∧ inp.fi.f e ≤ inp.fmax) :
    0 ≤ inp.fmax := by
  cases hb : inp.basicEdges with
  | nil =>
    unfold ErrInput.fmax ErrInput.cast
    rw [hb]
    have h0 : (0:Rat).floor = 0 := by decide
    split
    · simp [listMax, h0]
    · simp [listMax]
  | cons e es =>
    have := hf e (by rw [hb]; simp)
    exact Rat.le_trans this.1 this.2

theorem fmax_le_wmax (inp : ErrInput) (hk : 1 ≤ inp.k) (h0 : 0 ≤ inp.fmax) : inp.fmax ≤ inp.wmax none := by
  rw [wmax_eq]
  have hk' : (1:Rat) ≤ (inp.k : Rat) := by exact_mod_cast hk
  have := Rat.mul_le_mul_of_nonneg_right hk' h0
  grind

/-- **adequacy of the weight bound (DAG).** Clamping every weight to the largest flow value `fmax`
(≤ `w_max = k·fmax`) does not increase the error of any non-ignored edge, keeps the weight type, and
makes the solution representable (`Bounded`: weights and errors within `w_max`). Hence restricting
weights and errors to `w_max` loses no optimum. Needs `k ≥ 1`, non-negative flow values and
`f(e) ≤ fmax` (automatic for `weight_type = float` and for integral flow values). -/
theorem wmax_adequate (inp : ErrInput) (P : Nat → List Node) (w : Nat → Rat)
    (h : BaseWF inp.fi.base) (hac : Acyclic inp.fi.base) (hk : 1 ≤ inp.k)
    (hf : ∀ e ∈ inp.basicEdges, 0 ≤ inp.fi.f e ∧ inp.fi.f e ≤ inp.fmax)
    (hsol : Solution inp P w) :
    Bounded inp P (clampW inp w) ∧
      ∀ e ∈ inp.basicEdges, absErr inp P (clampW inp w) e ≤ absErr inp P w e := by
  have hwf : STWF inp.st := augment_wf inp.fi.base inp.fi.starts inp.fi.ends h hac
  have hM0 := fmax_nonneg inp hf
  have hw' : ∀ i, i < inp.k → 0 ≤ clampW inp w i ∧ clampW inp w i ≤ w i ∧ clampW inp w i ≤ inp.fmax := by
    intro i hi
    have := hsol.nonneg i hi
    unfold clampW
    rw [Rat.min_def]; split <;> grind
  have h01 : ∀ i, i < inp.k → ∀ e ∈ inp.basicEdges,
      trav inp.st (P i) e = 0 ∨ trav inp.st (P i) e = 1 :=
    fun i hi e he => trav01 hwf (hsol.routes i hi) e (mem_basicEdges inp e he)
  -- the explained value after clamping
  have hS : ∀ e ∈ inp.basicEdges,
      explained inp.st inp.k P (clampW inp w) e ≤ explained inp.st inp.k P w e ∧
      0 ≤ explained inp.st inp.k P (clampW inp w) e ∧
      explained inp.st inp.k P (clampW inp w) e ≤ (inp.k : Rat) * inp.fmax ∧
      (explained inp.st inp.k P (clampW inp w) e = explained inp.st inp.k P w e ∨
        inp.fmax ≤ explained inp.st inp.k P (clampW inp w) e) := by
    intro e he
    have hterm0 : ∀ i ∈ List.range inp.k, 0 ≤ clampW inp w i * trav inp.st (P i) e := by
      intro i hi
      exact Rat.mul_nonneg (hw' i (List.mem_range.1 hi)).1 (trav_nonneg _ _ _)
    refine ⟨?_, sum_map_nonneg _ _ hterm0, ?_, ?_⟩
    · apply sum_map_le_p07
      intro i hi
      exact Rat.mul_le_mul_of_nonneg_right (hw' i (List.mem_range.1 hi)).2.1 (trav_nonneg _ _ _)
    · have hle : explained inp.st inp.k P (clampW inp w) e
          ≤ ((List.range inp.k).map fun _ => inp.fmax).sum := by
        apply sum_map_le_p07
        intro i hi
        have hi' := List.mem_range.1 hi
        have := hw' i hi'
        rcases h01 i hi' e he with h0 | h0 <;> rw [h0] <;> grind
      rw [sum_map_const, List.length_range] at hle
      exact hle
    · by_cases hex : ∃ i, i < inp.k ∧ trav inp.st (P i) e = 1 ∧ inp.fmax < w i
      · obtain ⟨i, hi, ht, hlt⟩ := hex
        right
        have hle := le_sum_of_mem (List.range inp.k) (fun i => clampW inp w i * trav inp.st (P i) e)
          hterm0 i (List.mem_range.2 hi)
        have hc : clampW inp w i = inp.fmax := by
          unfold clampW; rw [Rat.min_def]; split <;> grind
        simp only [hc, ht] at hle
        unfold explained
        grind
      · left
        apply sum_map_congr
        intro i hi
        have hi' := List.mem_range.1 hi
        rcases h01 i hi' e he with h0 | h0
        · rw [h0]; grind
        · have : ¬ inp.fmax < w i := fun hlt => hex ⟨i, hi', h0, hlt⟩
          have hc : clampW inp w i = w i := by
            unfold clampW; rw [Rat.min_def]; split <;> grind
          rw [hc]
  have herr : ∀ e ∈ inp.basicEdges, absErr inp P (clampW inp w) e ≤ absErr inp P w e := by
    intro e he
    obtain ⟨h1, _, _, h4⟩ := hS e he
    have ha1 := le_abs (inp.fi.f e - explained inp.st inp.k P w e)
    have ha2 := neg_le_abs (inp.fi.f e - explained inp.st inp.k P w e)
    have hfe := hf e he
    unfold absErr
    rcases h4 with h4 | h4
    · rw [h4]; exact Rat.le_refl
    · apply abs_le <;> grind
  refine ⟨{ routes := hsol.routes, nonneg := fun i hi => (hw' i hi).1,
            integral := fun hint i hi => isInt_min (hsol.integral hint i hi) (fmax_isInt inp hint),
            wle := fun i hi => Rat.le_trans (hw' i hi).2.2 (fmax_le_wmax inp hk hM0),
            errle := ?_ }, herr⟩
  intro e he
  obtain ⟨_, h2, h3, _⟩ := hS e he
  have hfe := hf e he
  have hmw := fmax_le_wmax inp hk hM0
  rw [wmax_eq] at hmw ⊢
  unfold absErr
  apply abs_le <;> grind

theorem totalErr_mono (inp : ErrInput) (P : Nat → List Node) (w w' : Nat → Rat)
    (hscale : ∀ e ∈ inp.basicEdges, 0 ≤ inp.scale e)
    (h : ∀ e ∈ inp.basicEdges, absErr inp P w' e ≤ absErr inp P w e) :
    totalErr inp P w' ≤ totalErr inp P w :=
  sum_map_le_p07 _ _ _ (fun e he => Rat.mul_le_mul_of_nonneg_left (h e he) (hscale e he))

/-- **the LP optimum is optimal among all k-route solutions** (weights unbounded) -/
theorem klae_opt_unbounded (inp : ErrInput) (a : Asg) (h : BaseWF inp.fi.base) (hac : Acyclic inp.fi.base)
    (hcons : inp.fi.cfg.constraints = []) (hlen : inp.fi.cfg.lengths = none) (hk : 1 ≤ inp.k)
    (hfint : inp.fi.weightInt = true → ∀ e ∈ inp.basicEdges, IsInt (inp.fi.f e))
    (hf : ∀ e ∈ inp.basicEdges, 0 ≤ inp.fi.f e ∧ inp.fi.f e ≤ inp.fmax)
    (hscale : ∀ e ∈ inp.basicEdges, 0 ≤ inp.scale e)
    (hsat : Sat a (klaeLP inp))
    (hopt : ∀ a', Sat a' (klaeLP inp) → evalTerms a (klaeLP inp).obj ≤ evalTerms a' (klaeLP inp).obj) :
    ∃ ps : List (List Node),
      decodePaths inp.st (fun e i => a (edgeVar e i)) inp.k = some ps ∧
      Solution inp (fun i => ps.getD i []) (fun i => a (weightsVar i)) ∧
      ∀ P' w', Solution inp P' w' →
        totalErr inp (fun i => ps.getD i []) (fun i => a (weightsVar i)) ≤ totalErr inp P' w' := by
  obtain ⟨ps, hps, hbd, hmin, _, _⟩ :=
    klae_opt_transfer inp a h hac hcons hlen hfint hscale hsat hopt
  refine ⟨ps, hps, hbd.toSolution, fun P' w' hs' => ?_⟩
  obtain ⟨hb', hle⟩ := wmax_adequate inp P' w' h hac hk hf hs'
  exact Rat.le_trans (hmin P' _ hb') (totalErr_mono inp P' w' _ hscale hle)

/-! ## objective consistency -/

/-- **the reported objective is the solver's objective, for every assignment** -/
theorem objective_consistent (inp : ErrInput) (a : Asg) :
    reportedObjective inp a = evalTerms a (klaeLP inp).obj := by
  rw [klaeLP_obj]; unfold reportedObjective
  apply sum_map_congr; intro e _; grind

/-- the objective clause of `is_valid_solution(tolerance)`:
`abs(get_objective_value() - solver.get_objective_value()) > tolerance * original_k` → reject -/
def objectiveCheckPasses (inp : ErrInput) (a : Asg) (tol : Rat) (originalK : Nat) : Prop :=
  ¬ ((reportedObjective inp a - evalTerms a (klaeLP inp).obj).abs > tol * (originalK : Rat))

theorem objective_check_passes (inp : ErrInput) (a : Asg) (tol : Rat) (htol : 0 ≤ tol) (originalK : Nat) :
    objectiveCheckPasses inp a tol originalK := by
  unfold objectiveCheckPasses
  rw [objective_consistent]
  have h0 : (evalTerms a (klaeLP inp).obj - evalTerms a (klaeLP inp).obj).abs = 0 := by
    unfold Rat.abs; split <;> grind
  rw [h0]
  have : 0 ≤ tol * (originalK : Rat) := Rat.mul_nonneg htol Rat.natCast_nonneg
  grind

/-- why the fix was needed: the unscaled sum agrees with the solver's objective only when every
non-ignored edge has scale 1 or a zero error column (scales ≤ 1) -/
theorem unscaledErrorSum_eq_objective_iff (inp : ErrInput) (a : Asg) (hsat : Sat a (klaeLP inp))
    (hscale : ∀ e ∈ inp.basicEdges, inp.scale e ≤ 1) :
    unscaledErrorSum inp a = evalTerms a (klaeLP inp).obj ↔
      ∀ e ∈ inp.basicEdges, inp.scale e = 1 ∨ a (eeVar e) = 0 := by
  obtain ⟨_, _, heec, _, _⟩ := klae_sat_parts inp a hsat
  have hee0 : ∀ e ∈ inp.basicEdges, 0 ≤ a (eeVar e) := fun e he => (heec e he).1
  have hdiff : unscaledErrorSum inp a - evalTerms a (klaeLP inp).obj
      = (inp.basicEdges.map fun e => (1 - inp.scale e) * a (eeVar e)).sum := by
    rw [klaeLP_obj]; unfold unscaledErrorSum
    rw [← sum_map_sub]
    apply sum_map_congr; intro e _; grind
  have hnn : ∀ e ∈ inp.basicEdges, 0 ≤ (1 - inp.scale e) * a (eeVar e) := by
    intro e he
    have := hscale e he
    exact Rat.mul_nonneg (by grind) (hee0 e he)
  constructor
  · intro heq e he
    have h0 : (inp.basicEdges.map fun e => (1 - inp.scale e) * a (eeVar e)).sum = 0 := by
      rw [← hdiff, heq]; grind
    have := all_zero_of_sum_zero _ _ hnn h0 e he
    rcases Rat.mul_eq_zero.1 this with h1 | h1
    · left; grind
    · right; exact h1
  · intro hall
    have h0 : (inp.basicEdges.map fun e => (1 - inp.scale e) * a (eeVar e)).sum = 0 := by
      apply sum_map_zero
      intro e he
      rcases hall e he with h1 | h1
      · rw [h1]; grind
      · rw [h1]; grind
    rw [h0] at hdiff
    grind

end FP
