import FP.Spec.GraphFile
/-!
# FP.Proofs.ParserHeader — the header loop computes the first-appearance list of distinct `#S` sequences
-/
namespace FP.Parser
open FP.Spec.GraphFile
variable {S : Type} [DecidableEq S]

theorem eraseDups_filter {α : Type} [BEq α] [LawfulBEq α] (p : α → Bool) (l : List α) :
    (l.filter p).eraseDups = l.eraseDups.filter p := by
  generalize hn : l.length = n
  induction n using Nat.strongRecOn generalizing l with
  | _ n ih =>
    cases l with
    | nil => simp
    | cons a t =>
      have hlen : (t.filter fun b => !b == a).length < n := by
        have := List.length_filter_le (fun b => !b == a) t
        simp only [List.length_cons] at hn; omega
      by_cases hp : p a = true
      · rw [List.filter_cons_of_pos hp, List.eraseDups_cons, List.eraseDups_cons,
          List.filter_cons_of_pos hp]
        congr 1
        rw [← ih _ hlen _ rfl, List.filter_filter, List.filter_filter]
        congr 1
        apply List.filter_congr
        intro b _; exact Bool.and_comm _ _
      · rw [List.filter_cons_of_neg hp, List.eraseDups_cons, List.filter_cons_of_neg hp,
          ← ih _ hlen _ rfl, List.filter_filter]
        congr 1
        apply List.filter_congr
        intro b _
        by_cases hb : p b = true
        · have : b ≠ a := by intro h; subst h; exact hp hb
          simp [hb, this]
        · simp [hb]

omit [DecidableEq S] in
theorem zip_tail_eq_nil (t : List S) : t.zip t.tail = [] ↔ ¬ 2 ≤ t.length := by
  match t with
  | [] => simp
  | [a] => simp
  | a :: b :: r => simp

/-- a `#S` sequence that the loop will still look at: not yet seen, not empty -/
def keep (seen : List (List S)) (s : List S) : Bool := decide (s ∉ seen ∧ s ≠ [])

theorem keep_eq_true {seen : List (List S)} {s : List S} : keep seen s = true ↔ s ∉ seen ∧ s ≠ [] := by
  simp [keep]

theorem scan_fold (hs : List (Line S)) (st : Hdr S) :
    (hs.foldl scanLine st).headers = st.headers ++ lineHeaders hs ∧
    (hs.foldl scanLine st).cons =
      st.cons ++ consOfSeqs ((lineSeqs hs).filter (keep st.seen)).eraseDups := by
  induction hs generalizing st with
  | nil => simp [lineHeaders, lineSeqs, consOfSeqs]
  | cons l r ih =>
    rw [List.foldl_cons]
    cases l with
    | header t =>
      obtain ⟨h1, h2⟩ := ih (scanLine st (.header t))
      have e1 : (scanLine st (.header t)).headers = st.headers ++ [t] := rfl
      have e2 : (scanLine st (.header t)).cons = st.cons := rfl
      have e3 : (scanLine st (.header t)).seen = st.seen := rfl
      rw [h1, h2, e1, e2, e3]
      exact ⟨by simp [lineHeaders], rfl⟩
    | blank =>
      obtain ⟨h1, h2⟩ := ih (scanLine st .blank)
      have e : scanLine st .blank = st := rfl
      rw [h1, h2, e]
      exact ⟨rfl, rfl⟩
    | data a b =>
      obtain ⟨h1, h2⟩ := ih (scanLine st (.data a b))
      have e : scanLine st (.data a b) = st := rfl
      rw [h1, h2, e]
      exact ⟨rfl, rfl⟩
    | subpath toks =>
      by_cases hk : keep st.seen toks = true
      · obtain ⟨hseen, he⟩ := keep_eq_true.1 hk
        obtain ⟨h1, h2⟩ := ih (scanLine st (.subpath toks))
        have e1 : (scanLine st (.subpath toks)).headers = st.headers := by
          simp [scanLine, he, hseen]
        have hseen' : (scanLine st (.subpath toks)).seen = st.seen ++ [toks] := by
          simp [scanLine, he, hseen]
        have hcons' : (scanLine st (.subpath toks)).cons = st.cons ++ consOfSeqs [toks] := by
          simp only [scanLine, he, hseen, if_false, consOfSeqs]
          by_cases h2 : 2 ≤ toks.length
          · have : ¬ toks.zip toks.tail = [] := fun hz => (zip_tail_eq_nil toks).1 hz h2
            simp [this, h2]
          · have := (zip_tail_eq_nil toks).2 h2
            simp [this, h2]
        rw [h1, h2, e1, hseen', hcons']
        refine ⟨rfl, ?_⟩
        have hf : (lineSeqs (Line.subpath toks :: r)).filter (keep st.seen) =
            toks :: (lineSeqs r).filter (keep st.seen) := by
          show (toks :: lineSeqs r).filter (keep st.seen) = _
          rw [List.filter_cons_of_pos hk]
        rw [hf, List.eraseDups_cons, List.filter_filter, List.append_assoc]
        congr 1
        have hfe : ∀ s, keep (st.seen ++ [toks]) s = ((!s == toks) && keep st.seen s) := by
          intro s
          by_cases h1 : s = toks <;> by_cases h2 : s ∈ st.seen <;> by_cases h3 : s = [] <;>
            simp [keep, h1, h2, h3]
        have hfe' : keep (st.seen ++ [toks]) = fun s => ((!s == toks) && keep st.seen s) := funext hfe
        rw [hfe']
        by_cases h2 : 2 ≤ toks.length <;> simp [consOfSeqs, h2]
      · have hst : scanLine st (.subpath toks) = st := by
          have : ¬ (toks ∉ st.seen ∧ toks ≠ []) := fun h => hk (keep_eq_true.2 h)
          by_cases he : toks = []
          · simp [scanLine, he]
          · by_cases hs : toks ∈ st.seen
            · simp [scanLine, he, hs]
            · exact absurd ⟨hs, he⟩ this
        rw [hst]
        obtain ⟨h1, h2⟩ := ih st
        rw [h1, h2]
        refine ⟨rfl, ?_⟩
        have hf : (lineSeqs (Line.subpath toks :: r)).filter (keep st.seen) =
            (lineSeqs r).filter (keep st.seen) := by
          show (toks :: lineSeqs r).filter (keep st.seen) = _
          rw [List.filter_cons_of_neg hk]
        rw [hf]

/-- what the header loop leaves: all header texts in order, and the constraints of the distinct
`#S` sequences in order of first appearance -/
theorem scanHeader_spec (hs : List (Line S)) :
    (scanHeader hs).headers = lineHeaders hs ∧
    (scanHeader hs).cons = consOfSeqs (lineSeqs hs).eraseDups := by
  obtain ⟨h1, h2⟩ := scan_fold hs {}
  refine ⟨by simpa [scanHeader] using h1, ?_⟩
  show (hs.foldl scanLine {}).cons = _
  rw [h2]
  have hk : keep ([] : List (List S)) = fun s => decide (s ≠ []) := by
    funext s; simp [keep]
  rw [hk, eraseDups_filter]
  simp only [List.nil_append, consOfSeqs, List.filter_filter]
  congr 1
  apply List.filter_congr
  intro s _
  by_cases h : s = []
  · simp [h]
  · simp [h]

end FP.Parser
