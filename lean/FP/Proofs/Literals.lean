import FP.Model.Literals
/-!
# FP.Proofs.Literals — lemmas about `pyIntLit` / `pyFloatAccepts` of `FP/Model/Literals.lean`
-/
namespace FP.Literals
open FP.Lexer

theorem isDigit_bounds {c : Char} (h : c.isDigit = true) : 48 ≤ c.toNat ∧ c.toNat ≤ 57 := by
  simp only [Char.isDigit, Bool.and_eq_true, decide_eq_true_eq, ge_iff_le, UInt32.le_iff_toNat_le] at h
  exact h

theorem pyDigitVal_of_isDigit {c : Char} (h : c.isDigit = true) : pyDigitVal c = some (c.toNat - 48) := by
  have := isDigit_bounds h
  simp [pyDigitVal, this]

theorem isLitDigit_of_isDigit {c : Char} (h : c.isDigit = true) : isLitDigit c = true := by
  simp [isLitDigit, pyDigitVal_of_isDigit h]

theorem toNat_ne_of_ne {c d : Char} (h : c.toNat ≠ d.toNat) : c ≠ d := fun e => h (e ▸ rfl)

theorem isDigit_ne_us {c : Char} (h : c.isDigit = true) : (c == '_') = false := by
  have := isDigit_bounds h
  have : c ≠ '_' := toNat_ne_of_ne (by simp; omega)
  simpa using this

theorem isDigit_ne_minus {c : Char} (h : c.isDigit = true) : (c == '-') = false := by
  have := isDigit_bounds h
  have : c ≠ '-' := toNat_ne_of_ne (by simp; omega)
  simpa using this

theorem isDigit_ne_plus {c : Char} (h : c.isDigit = true) : (c == '+') = false := by
  have := isDigit_bounds h
  have : c ≠ '+' := toNat_ne_of_ne (by simp; omega)
  simpa using this

theorem isDigit_not_space {c : Char} (h : c.isDigit = true) : isLitSpace c = false := by
  have := isDigit_bounds h
  simp only [isLitSpace, isPySpace, Bool.and_eq_false_iff, Bool.or_eq_false_iff, Bool.and_eq_false_iff,
    decide_eq_false_iff_not, beq_eq_false_iff_ne, Nat.not_le]
  left
  omega

/-! ### stripping -/

theorem lstripL_eq_nil (l : List Char) (h : ∀ c ∈ l, isLitSpace c = true) : lstripL l = [] := by
  induction l with
  | nil => rfl
  | cons c cs ih =>
    simp [lstripL, h c (by simp), ih (fun d hd => h d (by simp [hd]))]

theorem stripL_eq_nil (l : List Char) (h : ∀ c ∈ l, isLitSpace c = true) : stripL l = [] := by
  simp [stripL, lstripL_eq_nil l h, rstripL]

theorem rstripL_clean (t : List Char) (h : ∀ c ∈ t, isLitSpace c = false) : rstripL t = t := by
  induction t with
  | nil => rfl
  | cons c cs ih =>
    have hc : isLitSpace c = false := h c (by simp)
    simp [rstripL, hc, ih (fun d hd => h d (by simp [hd]))]

theorem lstripL_clean (t : List Char) (h : ∀ c ∈ t, isLitSpace c = false) : lstripL t = t := by
  cases t with
  | nil => rfl
  | cons c cs => simp [lstripL, h c (by simp)]

theorem stripL_clean (t : List Char) (h : ∀ c ∈ t, isLitSpace c = false) : stripL t = t := by
  simp [stripL, lstripL_clean t h, rstripL_clean t h]

/-! ### ASCII digit strings -/

theorem usOK_digits (l : List Char) (h : ∀ c ∈ l, c.isDigit = true) (k : Nat) (hk : k ≠ 2) : usOK k l = true := by
  induction l generalizing k with
  | nil => simp [usOK, hk]
  | cons c cs ih =>
    have hc := h c (by simp)
    simp only [usOK, isDigit_ne_us hc, isLitDigit_of_isDigit hc]
    exact ih (fun d hd => h d (by simp [hd])) 1 (by decide)

theorem dropUs_digits (l : List Char) (h : ∀ c ∈ l, c.isDigit = true) : dropUs l = l := by
  unfold dropUs
  rw [List.filter_eq_self]
  intro c hc
  have := isDigit_ne_us (h c hc)
  simp at this
  simp [this]

theorem splitSign_digits (l : List Char) (h : ∀ c ∈ l, c.isDigit = true) : splitSign l = (false, l) := by
  cases l with
  | nil => rfl
  | cons c cs =>
    have hc := h c (by simp)
    simp [splitSign, isDigit_ne_minus hc, isDigit_ne_plus hc]

theorem allDigits_digits (l : List Char) (h : ∀ c ∈ l, c.isDigit = true) :
    allDigits l = some (l.map fun c => c.toNat - 48) := by
  induction l with
  | nil => rfl
  | cons c cs ih =>
    simp [allDigits, pyDigitVal_of_isDigit (h c (by simp)), ih (fun d hd => h d (by simp [hd]))]

theorem ofDigits_map (l : List Char) : ofDigits (l.map fun c => c.toNat - 48) = Nat.ofDigitChars 10 l 0 := by
  simp [ofDigits, Nat.ofDigitChars, List.foldl_map]

/-- a non-empty string of at most 4300 ASCII digits is read as its decimal value -/
theorem pyIntLit_ascii_digits (l : List Char) (hne : l ≠ []) (h : ∀ c ∈ l, c.isDigit = true)
    (hlen : l.length ≤ 4300) : pyIntLit l = some (Nat.ofDigitChars 10 l 0 : Int) := by
  have hs : stripL l = l := stripL_clean l (fun c hc => isDigit_not_space (h c hc))
  have hl : ¬ (4300 < l.length) := by omega
  simp [pyIntLit, hs, usOK_digits l h 0 (by decide), dropUs_digits l h, splitSign_digits l h, allDigits_digits l h,
    ofDigits_map, hne, maxStrDigits, hl]

theorem pyIntLit_render_nat (n : Nat) (h : n < 10 ^ 4300) : pyIntLit (Nat.repr n).toList = some (n : Int) := by
  rw [Nat.toList_repr]
  have := pyIntLit_ascii_digits (Nat.toDigits 10 n) Nat.toDigits_ne_nil
    (fun c hc => Nat.isDigit_of_mem_toDigits (by decide) (by decide) hc)
    ((Nat.length_toDigits_le_iff (by decide) (by decide)).mpr h)
  rw [this, Nat.ofDigitChars_ten_toDigits]

/-! ### rejection -/

theorem allDigits_none_of_mem (t : List Char) (c : Char) (hc : c ∈ t) (hd : pyDigitVal c = none) :
    allDigits t = none := by
  induction t with
  | nil => simp at hc
  | cons a r ih =>
    simp only [List.mem_cons] at hc
    rcases hc with rfl | hc
    · simp [allDigits, hd]
    · simp only [allDigits, ih hc]
      cases pyDigitVal a <;> rfl

theorem mem_dropUs {c : Char} {s : List Char} (hc : c ∈ s) (hu : c ≠ '_') : c ∈ dropUs s := by
  simp [dropUs, hc, hu]

theorem pyIntLit_none_of_allDigits (cs : List Char) (h : allDigits (splitSign (dropUs (stripL cs))).2 = none) :
    pyIntLit cs = none := by
  simp only [pyIntLit, h]
  split <;> rfl

/-- a character of the stripped token that is neither a digit, an underscore nor a sign: ValueError -/
theorem pyIntLit_rejects_nondigit (cs : List Char) (c : Char) (hc : c ∈ stripL cs) (hd : pyDigitVal c = none)
    (hu : c ≠ '_') (hp : c ≠ '+') (hm : c ≠ '-') : pyIntLit cs = none := by
  apply pyIntLit_none_of_allDigits
  apply allDigits_none_of_mem _ c _ hd
  have h1 := mem_dropUs hc hu
  cases hds : dropUs (stripL cs) with
  | nil => rw [hds] at h1; simp at h1
  | cons a r =>
    rw [hds] at h1
    simp only [splitSign]
    split
    · rename_i e
      simp only [List.mem_cons] at h1
      rcases h1 with rfl | h1
      · simp at e; exact absurd e hm
      · exact h1
    · split
      · rename_i e
        simp only [List.mem_cons] at h1
        rcases h1 with rfl | h1
        · simp at e; exact absurd e hp
        · exact h1
      · exact h1

/-- the same after the first character of the stripped token: a sign is only allowed in first position -/
theorem pyIntLit_rejects_nondigit_tail (cs : List Char) (a c : Char) (r : List Char) (hs : stripL cs = a :: r)
    (hc : c ∈ r) (hd : pyDigitVal c = none) (hu : c ≠ '_') : pyIntLit cs = none := by
  by_cases ha : a = '_'
  · subst ha
    simp [pyIntLit, hs, usOK]
  · apply pyIntLit_none_of_allDigits
    apply allDigits_none_of_mem _ c _ hd
    have h1 : c ∈ dropUs r := mem_dropUs hc hu
    have h2 : dropUs (a :: r) = a :: dropUs r := by simp [dropUs, ha]
    rw [hs, h2]
    simp only [splitSign]
    split
    · exact h1
    · split
      · exact h1
      · simp [h1]

/-! ### int literals are float literals -/

theorem spanDigits_allDigits (t : List Char) (ds : List Nat) (h : allDigits t = some ds) :
    spanDigits t = (t.length, []) ∧ ds.length = t.length := by
  induction t generalizing ds with
  | nil => simp [allDigits] at h; simp [spanDigits, ← h]
  | cons c cs ih =>
    simp only [allDigits] at h
    cases hd : pyDigitVal c with
    | none => simp [hd] at h
    | some d =>
      cases ha : allDigits cs with
      | none => simp [hd, ha] at h
      | some ds' =>
        simp [hd, ha] at h
        have := ih ds' ha
        simp [spanDigits, isLitDigit, hd, this.1, ← h, this.2]

theorem floatBody_of_allDigits (t : List Char) (ds : List Nat) (h : allDigits t = some ds) (hne : ds ≠ []) :
    floatBody t = true := by
  have := spanDigits_allDigits t ds h
  have hl : 0 < t.length := by
    rw [← this.2]; exact List.length_pos_iff.mpr hne
  unfold floatBody
  split
  · rfl
  · simp [this.1, hl]

theorem pyFloatAccepts_of_pyIntLit (cs : List Char) (v : Int) (h : pyIntLit cs = some v) :
    pyFloatAccepts cs = true := by
  unfold pyIntLit at h
  simp only at h
  split at h
  · rename_i hus
    split at h
    · rename_i ds hds
      split at h
      · simp at h
      · rename_i hcond
        have hne : ds ≠ [] := by
          intro e; subst e; simp at hcond
        simp [pyFloatAccepts, hus, floatBody_of_allDigits _ ds hds hne]
    · simp at h
  · simp at h

theorem rejects_whitespace_only (cs : List Char) (h : ∀ c ∈ cs, isLitSpace c = true) :
    pyFloatAccepts cs = false ∧ pyIntLit cs = none := by
  have hs := stripL_eq_nil cs h
  constructor
  · simp [pyFloatAccepts, hs, dropUs, splitSign, floatBody, spanDigits, isInfNan]
  · simp [pyIntLit, hs, dropUs, splitSign, allDigits, usOK]

end FP.Literals
