import FP.Proofs.KLAEGiven
/-!
# FP.Proofs.KLAEGivenExample — a concrete given-weights instance of k-Least-Absolute-Errors, and what the
bound `w_max` on the error columns cuts off

User DAG `a → b`, `b → c → c2`, `b → d → d2` with `f(a,b) = 0` and `f = 10` on the four branch edges,
`k = 2`, `weight_type = int`, `solution_weights_superset = [12, 12]` — so `w_max = max(2·10, 12) = 20`.

* one route (`a b c c2`, weight 12) has errors `12, 2, 2, 10, 10`: total `36`, a bounded choice;
* both routes (`a b c c2` and `a b d d2`, weights 12 and 12) have errors `24, 2, 2, 2, 2`: total `32` —
  but `24 > w_max`, so the error column of `(a,b)` cannot take that value: the choice is cut off;
* every satisfying assignment of the LP the constructor builds has objective at least `36`.
-/
namespace FP.GivenExample
open FP FP.Spec FP.Spec.LAE

def base : Graph :=
  { nodes := ["a", "b", "c", "c2", "d", "d2"],
    edges := [("a", "b"), ("b", "c"), ("c", "c2"), ("b", "d"), ("d", "d2")] }

theorem base_wf : BaseWF base where
  edgesNodup := by decide
  nodesNodup := by decide
  closed := by decide
  freshSrc := by decide
  freshSnk := by decide

def rank : Node → Nat := fun v =>
  if v = "a" then 0 else if v = "b" then 1 else if v = "c" then 2 else if v = "d" then 2 else 3
theorem base_acyclic : Acyclic base := ⟨rank, by decide⟩

/-- the user's call: `k = 2`, no empty paths requested -/
def fi0 : FlowInput :=
  { base := base,
    flow := [(("a", "b"), 0), (("b", "c"), 10), (("c", "c2"), 10), (("b", "d"), 10), (("d", "d2"), 10)],
    weightInt := true, cfg := { k := 2 } }

def ws : List Rat := [12, 12]

/-- what the constructor makes of it: `k = len(ws)`, empty paths allowed -/
def inp : ErrInput := ({ fi := fi0 } : ErrInput).forGiven ws

def pc : List Node := ["a", "b", "c", "c2"]
def pd : List Node := ["a", "b", "d", "d2"]
/-- one of the given weights used -/
def P1 : Nat → List Node := fun i => if i = 0 then pc else []
/-- both used -/
def P2 : Nat → List Node := fun i => if i = 0 then pc else pd

theorem k2 : inp.k = 2 := rfl
theorem range_k : List.range inp.k = [0, 1] := by decide
theorem allow : inp.fi.cfg.allowEmpty = true := rfl
theorem aug_edges : inp.st.g.edges
    = [("a", "b"), ("b", "c"), ("b", "d"), ("c", "c2"), ("c2", "sink"), ("d", "d2"), ("d2", "sink"),
       ("source", "a")] := by decide
theorem basic : inp.basicEdges = [("a", "b"), ("b", "c"), ("b", "d"), ("c", "c2"), ("d", "d2")] := by decide
theorem f_ab : inp.fi.f ("a", "b") = 0 := by decide
theorem f_bc : inp.fi.f ("b", "c") = 10 := by decide
theorem f_bd : inp.fi.f ("b", "d") = 10 := by decide
theorem f_cc : inp.fi.f ("c", "c2") = 10 := by decide
theorem f_dd : inp.fi.f ("d", "d2") = 10 := by decide
theorem scale1 (e : Edge) : inp.scale e = 1 := rfl
theorem fmax10 : inp.fmax = 10 := by decide
theorem gw (i : Nat) (hi : i < 2) : givenW ws i = 12 := by
  have : i = 0 ∨ i = 1 := by omega
  rcases this with rfl | rfl <;> rfl
theorem wmax20 : inp.wmax (some ws) = 20 := by
  have h1 : inp.wmax (some ws) = max ((inp.k : Rat) * inp.fmax) (listMax ws) := rfl
  have h2 : listMax ws = 12 := by decide
  have h3 : ((inp.k : Nat) : Rat) = 2 := by decide
  rw [h1, h2, h3, fmax10, Rat.max_def]
  split <;> grind

theorem mem_basic {e : Edge} (he : e ∈ inp.basicEdges) :
    e = ("a", "b") ∨ e = ("b", "c") ∨ e = ("b", "d") ∨ e = ("c", "c2") ∨ e = ("d", "d2") := by
  rw [basic] at he
  simpa using he

theorem valid_pc : ValidRoute base [] [] pc where
  nonempty := by decide
  nodes := by decide
  adjacent := by unfold IsWalkIn; decide
  first := by
    intro v hv
    have : v = "a" := by simpa [pc] using hv.symm
    subst this; left; decide
  last := by
    intro v hv
    have : v = "c2" := by simpa [pc] using hv.symm
    subst this; left; decide

theorem valid_pd : ValidRoute base [] [] pd where
  nonempty := by decide
  nodes := by decide
  adjacent := by unfold IsWalkIn; decide
  first := by
    intro v hv
    have : v = "a" := by simpa [pd] using hv.symm
    subst this; left; decide
  last := by
    intro v hv
    have : v = "d2" := by simpa [pd] using hv.symm
    subst this; left; decide

theorem route_pc : Route inp.st true pc := route_of_validRoute base [] [] base_wf base_acyclic true _ valid_pc
theorem route_pd : Route inp.st true pd := route_of_validRoute base [] [] base_wf base_acyclic true _ valid_pd

theorem choice1 : GivenChoice inp 2 P1 where
  routes := by
    intro i _
    by_cases h : i = 0
    · simp only [P1, h, if_true]; exact route_pc
    · simp only [P1, h, if_false]; exact Or.inl ⟨rfl, rfl⟩
  cap := by decide

theorem choice2 : GivenChoice inp 2 P2 where
  routes := by
    intro i _
    by_cases h : i = 0
    · simp only [P2, h, if_true]; exact route_pc
    · simp only [P2, h, if_false]; exact route_pd
  cap := by decide

/-! ### the explained flow and the errors of the two choices -/

theorem expl (P : Nat → List Node) (e : Edge) :
    explained inp.st inp.k P (givenW ws) e = 12 * trav inp.st (P 0) e + 12 * trav inp.st (P 1) e := by
  unfold explained
  rw [range_k]
  simp only [List.map_cons, List.map_nil, List.sum_cons, List.sum_nil, gw 0 (by decide), gw 1 (by decide)]
  grind

theorem t1_ab : trav inp.st (P1 0) ("a", "b") = 1 := by decide
theorem t1_bc : trav inp.st (P1 0) ("b", "c") = 1 := by decide
theorem t1_bd : trav inp.st (P1 0) ("b", "d") = 0 := by decide
theorem t1_cc : trav inp.st (P1 0) ("c", "c2") = 1 := by decide
theorem t1_dd : trav inp.st (P1 0) ("d", "d2") = 0 := by decide
theorem t1'_ab : trav inp.st (P1 1) ("a", "b") = 0 := by decide
theorem t1'_bc : trav inp.st (P1 1) ("b", "c") = 0 := by decide
theorem t1'_bd : trav inp.st (P1 1) ("b", "d") = 0 := by decide
theorem t1'_cc : trav inp.st (P1 1) ("c", "c2") = 0 := by decide
theorem t1'_dd : trav inp.st (P1 1) ("d", "d2") = 0 := by decide
theorem t2_ab : trav inp.st (P2 1) ("a", "b") = 1 := by decide
theorem t2_bc : trav inp.st (P2 1) ("b", "c") = 0 := by decide
theorem t2_bd : trav inp.st (P2 1) ("b", "d") = 1 := by decide
theorem t2_cc : trav inp.st (P2 1) ("c", "c2") = 0 := by decide
theorem t2_dd : trav inp.st (P2 1) ("d", "d2") = 1 := by decide
theorem P2_0 : P2 0 = P1 0 := rfl

theorem err1_ab : absErr inp P1 (givenW ws) ("a", "b") = 12 := by
  unfold absErr; rw [expl, f_ab, t1_ab, t1'_ab]; unfold Rat.abs; split <;> grind
theorem err1_bc : absErr inp P1 (givenW ws) ("b", "c") = 2 := by
  unfold absErr; rw [expl, f_bc, t1_bc, t1'_bc]; unfold Rat.abs; split <;> grind
theorem err1_bd : absErr inp P1 (givenW ws) ("b", "d") = 10 := by
  unfold absErr; rw [expl, f_bd, t1_bd, t1'_bd]; unfold Rat.abs; split <;> grind
theorem err1_cc : absErr inp P1 (givenW ws) ("c", "c2") = 2 := by
  unfold absErr; rw [expl, f_cc, t1_cc, t1'_cc]; unfold Rat.abs; split <;> grind
theorem err1_dd : absErr inp P1 (givenW ws) ("d", "d2") = 10 := by
  unfold absErr; rw [expl, f_dd, t1_dd, t1'_dd]; unfold Rat.abs; split <;> grind

theorem err2_ab : absErr inp P2 (givenW ws) ("a", "b") = 24 := by
  unfold absErr; rw [expl, f_ab, P2_0, t1_ab, t2_ab]; unfold Rat.abs; split <;> grind
theorem err2_bc : absErr inp P2 (givenW ws) ("b", "c") = 2 := by
  unfold absErr; rw [expl, f_bc, P2_0, t1_bc, t2_bc]; unfold Rat.abs; split <;> grind
theorem err2_bd : absErr inp P2 (givenW ws) ("b", "d") = 2 := by
  unfold absErr; rw [expl, f_bd, P2_0, t1_bd, t2_bd]; unfold Rat.abs; split <;> grind
theorem err2_cc : absErr inp P2 (givenW ws) ("c", "c2") = 2 := by
  unfold absErr; rw [expl, f_cc, P2_0, t1_cc, t2_cc]; unfold Rat.abs; split <;> grind
theorem err2_dd : absErr inp P2 (givenW ws) ("d", "d2") = 2 := by
  unfold absErr; rw [expl, f_dd, P2_0, t1_dd, t2_dd]; unfold Rat.abs; split <;> grind

/-- using one of the two given weights: a bounded choice … -/
theorem bounded1 : GivenBounded inp ws 2 P1 where
  toGivenChoice := choice1
  errle := by
    intro e he
    rw [wmax20]
    rcases mem_basic he with rfl | rfl | rfl | rfl | rfl
    · rw [err1_ab]; decide
    · rw [err1_bc]; decide
    · rw [err1_bd]; decide
    · rw [err1_cc]; decide
    · rw [err1_dd]; decide

/-- … of total error `36` -/
theorem total1 : totalErr inp P1 (givenW ws) = 36 := by
  unfold totalErr
  rw [basic]
  simp only [List.map_cons, List.map_nil, List.sum_cons, List.sum_nil, err1_ab, err1_bc, err1_bd, err1_cc,
    err1_dd, scale1]
  grind

/-- using both: total error `32` … -/
theorem total2 : totalErr inp P2 (givenW ws) = 32 := by
  unfold totalErr
  rw [basic]
  simp only [List.map_cons, List.map_nil, List.sum_cons, List.sum_nil, err2_ab, err2_bc, err2_bd, err2_cc,
    err2_dd, scale1]
  grind

/-- … but the error `24` on `(a,b)` exceeds `w_max = 20`: not a bounded choice -/
theorem not_bounded2 : ¬ GivenBounded inp ws 2 P2 := by
  intro hb
  have := hb.errle ("a", "b") (by rw [basic]; simp)
  rw [err2_ab, wmax20] at this
  exact absurd this (by decide)

theorem flows_int : inp.fi.weightInt = true →
    (∀ e ∈ inp.basicEdges, IsInt (inp.fi.f e)) ∧ ∀ i, i < inp.k → IsInt (givenW ws i) := by
  intro _
  refine ⟨fun e he => ?_, fun i hi => ?_⟩
  · rcases mem_basic he with rfl | rfl | rfl | rfl | rfl
    · exact ⟨0, by decide⟩
    · exact ⟨10, by decide⟩
    · exact ⟨10, by decide⟩
    · exact ⟨10, by decide⟩
    · exact ⟨10, by decide⟩
  · rw [gw i hi]; exact ⟨12, by decide⟩

theorem scale_nonneg : ∀ e ∈ inp.basicEdges, 0 ≤ inp.scale e := by
  intro e _; rw [scale1]; decide

/-- a satisfying assignment of the LP with objective `36` -/
theorem sat36 : ∃ a : Asg, Sat a (klaeGivenLP inp ws 2) ∧ evalTerms a (klaeGivenLP inp ws 2).obj = 36 := by
  obtain ⟨a, hsat, _, _, hobj⟩ :=
    klae_given_complete inp ws 2 P1 base_wf base_acyclic rfl rfl flows_int bounded1
  exact ⟨a, hsat, by rw [hobj, total1]⟩

/-- **every satisfying assignment of the LP has objective at least `36`**: `ee(a,b) ≤ w_max = 20` allows
at most one layer through `(a,b)` -/
theorem lp_lower_bound (a : Asg) (hsat : Sat a (klaeGivenLP inp ws 2)) :
    36 ≤ evalTerms a (klaeGivenLP inp ws 2).obj := by
  obtain ⟨henc, heec, herr, _⟩ := klaeg_sat_parts inp ws 2 a hsat
  have hf0 := layerFacts_of_sat inp.st inp.fi.cfg a henc 0 (by decide)
  have hf1 := layerFacts_of_sat inp.st inp.fi.cfg a henc 1 (by decide)
  have hb0 := hf0.cons "b" (by decide) (by decide) (by decide)
  have hc0 := hf0.cons "c" (by decide) (by decide) (by decide)
  have hd0 := hf0.cons "d" (by decide) (by decide) (by decide)
  have hb1 := hf1.cons "b" (by decide) (by decide) (by decide)
  have hc1 := hf1.cons "c" (by decide) (by decide) (by decide)
  have hd1 := hf1.cons "d" (by decide) (by decide) (by decide)
  unfold inflow outflow at hb0 hc0 hd0 hb1 hc1 hd1
  rw [aug_edges] at hb0 hc0 hd0 hb1 hc1 hd1
  simp [List.filter] at hb0 hc0 hd0 hb1 hc1 hd1
  have mem : ∀ e ∈ inp.basicEdges, e ∈ inp.st.g.edges := fun e he => mem_basicEdges inp e he
  have hab : ("a", "b") ∈ inp.basicEdges := by rw [basic]; simp
  have hbc : ("b", "c") ∈ inp.basicEdges := by rw [basic]; simp
  have hbd : ("b", "d") ∈ inp.basicEdges := by rw [basic]; simp
  have hcc : ("c", "c2") ∈ inp.basicEdges := by rw [basic]; simp
  have hdd : ("d", "d2") ∈ inp.basicEdges := by rw [basic]; simp
  have x0 := hf0.bin _ (mem _ hbc)
  have y0 := hf0.bin _ (mem _ hbd)
  have x1 := hf1.bin _ (mem _ hbc)
  have y1 := hf1.bin _ (mem _ hbd)
  have uab := (heec _ hab).2.1 _ rfl
  rw [wmax20] at uab
  obtain ⟨r1, r2⟩ := herr _ hab
  obtain ⟨r3, r4⟩ := herr _ hbc
  obtain ⟨r5, r6⟩ := herr _ hbd
  obtain ⟨r7, r8⟩ := herr _ hcc
  obtain ⟨r9, r10⟩ := herr _ hdd
  have h1 := r1.2 _ rfl
  have h2 := r2.2 _ rfl
  have h3 := r3.2 _ rfl
  have h4 := r4.2 _ rfl
  have h5 := r5.2 _ rfl
  have h6 := r6.2 _ rfl
  have h7 := r7.2 _ rfl
  have h8 := r8.2 _ rfl
  have h9 := r9.2 _ rfl
  have h10 := r10.2 _ rfl
  have hs : ∀ e, evalTerms a (klaegSumW inp ws e) = 12 * a (edgeVar e 0) + 12 * a (edgeVar e 1) := by
    intro e
    unfold klaegSumW
    rw [evalTerms_map, range_k]
    have g0 : ws.getD 0 0 = 12 := rfl
    have g1 : ws.getD 1 0 = 12 := rfl
    simp only [List.map_cons, List.map_nil, List.sum_cons, List.sum_nil, g0, g1]
    grind
  simp only [rowLe, evalTerms_append, evalTerms_negTerms, evalTerms_single, hs, f_ab, f_bc, f_bd, f_cc, f_dd]
    at h1 h2 h3 h4 h5 h6 h7 h8 h9 h10
  rw [klaeGivenLP_obj, basic]
  simp only [List.map_cons, List.map_nil, List.sum_cons, List.sum_nil, scale1]
  clear hs r1 r2 r3 r4 r5 r6 r7 r8 r9 r10 hab hbc hbd hcc hdd mem hf0 hf1 herr heec henc hsat
  generalize a (eeVar ("a", "b")) = eab at *
  generalize a (eeVar ("b", "c")) = ebc at *
  generalize a (eeVar ("b", "d")) = ebd at *
  generalize a (eeVar ("c", "c2")) = ecc at *
  generalize a (eeVar ("d", "d2")) = edd at *
  generalize a (edgeVar ("a", "b") 0) = ab0 at *
  generalize a (edgeVar ("a", "b") 1) = ab1 at *
  generalize a (edgeVar ("b", "c") 0) = bc0 at *
  generalize a (edgeVar ("b", "c") 1) = bc1 at *
  generalize a (edgeVar ("b", "d") 0) = bd0 at *
  generalize a (edgeVar ("b", "d") 1) = bd1 at *
  generalize a (edgeVar ("c", "c2") 0) = cc0 at *
  generalize a (edgeVar ("c", "c2") 1) = cc1 at *
  generalize a (edgeVar ("d", "d2") 0) = dd0 at *
  generalize a (edgeVar ("d", "d2") 1) = dd1 at *
  rcases x0 with rfl | rfl <;> rcases y0 with rfl | rfl <;> rcases x1 with rfl | rfl <;>
    rcases y1 with rfl | rfl <;> grind

end FP.GivenExample
