import FP.Model.Enc.MGS
import FP.Proofs.GenSetSpec
/-!
# FP.Proofs.MGSPre — `remove_complement_values` (multiplicity 1) does not change which multisets generate
the input: every removed value is `0`, `total`, or the complement `total − v` of a kept/generated value.
-/
namespace FP.GS
open FP.Spec

/-- the values the constructor collects in `elements_to_remove` -/
def mgsToRemove (numbers : List Rat) (total : Rat) : List Rat :=
  numbers.flatMap fun v =>
    (if numbers.contains (total - v) && decide (total - v > v) then [total - v] else [])
    ++ (if v == total || v == 0 then [v] else [])

theorem mgsPreprocess_true (numbers : List Rat) (total : Rat) :
    mgsPreprocess numbers total true
      = numbers.eraseDups.filter fun v => !(mgsToRemove numbers total).contains v := rfl

theorem mem_toRemove (numbers : List Rat) (total a : Rat) (h : a ∈ mgsToRemove numbers total) :
    (∃ v ∈ numbers, a = total - v ∧ v < a) ∨ a = total ∨ a = 0 := by
  obtain ⟨v, hv, hm⟩ := List.mem_flatMap.1 h
  rcases List.mem_append.1 hm with h1 | h2
  · split at h1
    · rename_i hc
      simp only [Bool.and_eq_true, decide_eq_true_eq] at hc
      rw [List.mem_singleton.1 h1]
      exact Or.inl ⟨v, hv, rfl, hc.2⟩
    · simp at h1
  · split at h2
    · rename_i hc
      simp only [Bool.or_eq_true, beq_iff_eq] at hc
      rw [List.mem_singleton.1 h2]
      rcases hc with h | h
      · exact Or.inr (Or.inl h)
      · exact Or.inr (Or.inr h)
    · simp at h2

theorem mem_preprocess (numbers : List Rat) (total a : Rat) :
    a ∈ mgsPreprocess numbers total true ↔ a ∈ numbers ∧ a ∉ mgsToRemove numbers total := by
  rw [mgsPreprocess_true, List.mem_filter, List.mem_eraseDups]
  simp

/-- **complement removal is sound for multiplicity 1**: a multiset with sum `total` generates the
preprocessed list iff it generates the original list -/
theorem preprocess_generates_iff (numbers : List Rat) (total : Rat) (rc : Bool) (g : List Rat)
    (hs : g.sum = total) :
    (∀ a ∈ mgsPreprocess numbers total rc, Generates g 1 a) ↔ (∀ a ∈ numbers, Generates g 1 a) := by
  cases rc with
  | false => simp [mgsPreprocess]
  | true =>
    constructor
    · intro h
      -- values that are kept, or trivially generated
      have hbase : ∀ v ∈ numbers, v ∉ mgsToRemove numbers total ∨ v = total ∨ v = 0 → Generates g 1 v := by
        intro v hv hcase
        rcases hcase with h1 | h1 | h1
        · exact h v ((mem_preprocess numbers total v).2 ⟨hv, h1⟩)
        · rw [h1, ← hs]; exact generates_sum g 1 (Nat.le_refl _)
        · rw [h1]; exact generates_zero g 1
      intro a ha
      by_cases hr : a ∈ mgsToRemove numbers total
      · rcases mem_toRemove numbers total a hr with ⟨v, hv, rfl, hlt⟩ | h1 | h1
        · -- a = total - v with v < a: v itself is kept or trivial
          have hgv : Generates g 1 v := by
            by_cases hrv : v ∈ mgsToRemove numbers total
            · rcases mem_toRemove numbers total v hrv with ⟨u, _, hvu, hult⟩ | h1 | h1
              · exfalso; grind
              · exact hbase v hv (Or.inr (Or.inl h1))
              · exact hbase v hv (Or.inr (Or.inr h1))
            · exact hbase v hv (Or.inl hrv)
          rw [← hs]
          exact generates_complement g v hgv
        · exact hbase a ha (Or.inr (Or.inl h1))
        · exact hbase a ha (Or.inr (Or.inr h1))
      · exact hbase a ha (Or.inl hr)
    · intro h a ha
      exact h a ((mem_preprocess numbers total a).1 ha).1

theorem preprocess_isGenSet_iff (numbers : List Rat) (total : Rat) (rc : Bool) (g : List Rat) :
    IsGenSet g total (mgsPreprocess numbers total rc) 1 ↔ IsGenSet g total numbers 1 := by
  constructor
  · rintro ⟨h1, h2, h3⟩
    exact ⟨h1, h2, (preprocess_generates_iff numbers total rc g h1).1 h3⟩
  · rintro ⟨h1, h2, h3⟩
    exact ⟨h1, h2, (preprocess_generates_iff numbers total rc g h1).2 h3⟩

end FP.GS
