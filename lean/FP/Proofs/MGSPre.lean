import FP.Model.Enc.MGS
import FP.Proofs.GenSetSpec
/-!
# FP.Proofs.MGSPre — `remove_complement_values` does not change which multisets generate the input, for
every multiplicity: a removed value is `0`, `total`, or — only for multiplicity 1 (fix 20bda28) — the
complement `total − v` of a kept/generated value.
-/
namespace FP.GS
open FP.Spec

/-- the values the constructor collects in `elements_to_remove` -/
def mgsToRemove (numbers : List Rat) (total : Rat) (mult : Nat) : List Rat :=
  numbers.flatMap fun v =>
    (if decide (mult = 1) && numbers.contains (total - v) && decide (total - v > v) then [total - v] else [])
    ++ (if v == total || v == 0 then [v] else [])

theorem mgsPreprocess_true (numbers : List Rat) (total : Rat) (mult : Nat) :
    mgsPreprocess numbers total true mult
      = numbers.eraseDups.filter fun v => !(mgsToRemove numbers total mult).contains v := rfl

theorem mem_toRemove (numbers : List Rat) (total a : Rat) (mult : Nat)
    (h : a ∈ mgsToRemove numbers total mult) :
    (mult = 1 ∧ ∃ v ∈ numbers, a = total - v ∧ v < a) ∨ a = total ∨ a = 0 := by
  obtain ⟨v, hv, hm⟩ := List.mem_flatMap.1 h
  rcases List.mem_append.1 hm with h1 | h2
  · split at h1
    · rename_i hc
      simp only [Bool.and_eq_true, decide_eq_true_eq] at hc
      rw [List.mem_singleton.1 h1]
      exact Or.inl ⟨hc.1.1, v, hv, rfl, hc.2⟩
    · simp at h1
  · split at h2
    · rename_i hc
      simp only [Bool.or_eq_true, beq_iff_eq] at hc
      rw [List.mem_singleton.1 h2]
      rcases hc with h | h
      · exact Or.inr (Or.inl h)
      · exact Or.inr (Or.inr h)
    · simp at h2

theorem mem_preprocess (numbers : List Rat) (total a : Rat) (mult : Nat) :
    a ∈ mgsPreprocess numbers total true mult ↔ a ∈ numbers ∧ a ∉ mgsToRemove numbers total mult := by
  rw [mgsPreprocess_true, List.mem_filter, List.mem_eraseDups]
  simp

/-- **the constructor's preprocessing is sound for every multiplicity ≥ 1**: a multiset with sum `total`
generates the preprocessed list iff it generates the original list -/
theorem preprocess_generates_iff (numbers : List Rat) (total : Rat) (rc : Bool) (mult : Nat) (hm : 1 ≤ mult)
    (g : List Rat) (hs : g.sum = total) :
    (∀ a ∈ mgsPreprocess numbers total rc mult, Generates g mult a) ↔ (∀ a ∈ numbers, Generates g mult a) := by
  cases rc with
  | false => simp [mgsPreprocess]
  | true =>
    constructor
    · intro h
      have hbase : ∀ v ∈ numbers, v ∉ mgsToRemove numbers total mult ∨ v = total ∨ v = 0 →
          Generates g mult v := by
        intro v hv hcase
        rcases hcase with h1 | h1 | h1
        · exact h v ((mem_preprocess numbers total v mult).2 ⟨hv, h1⟩)
        · rw [h1, ← hs]; exact generates_sum g mult hm
        · rw [h1]; exact generates_zero g mult
      intro a ha
      by_cases hr : a ∈ mgsToRemove numbers total mult
      · rcases mem_toRemove numbers total a mult hr with ⟨h1m, v, hv, rfl, hlt⟩ | h1 | h1
        · -- multiplicity 1, a = total - v with v < a: v itself is kept or trivial
          subst h1m
          have hgv : Generates g 1 v := by
            by_cases hrv : v ∈ mgsToRemove numbers total 1
            · rcases mem_toRemove numbers total v 1 hrv with ⟨_, u, _, hvu, hult⟩ | h1 | h1
              · exfalso; grind
              · exact hbase v hv (Or.inr (Or.inl h1))
              · exact hbase v hv (Or.inr (Or.inr h1))
            · exact hbase v hv (Or.inl hrv)
          rw [← hs]
          exact generates_complement g v hgv
        · exact hbase a ha (Or.inr (Or.inl h1))
        · exact hbase a ha (Or.inr (Or.inr h1))
      · exact hbase a ha (Or.inl hr)
    · intro h a ha
      exact h a ((mem_preprocess numbers total a mult).1 ha).1

theorem preprocess_isGenSet_iff (numbers : List Rat) (total : Rat) (rc : Bool) (mult : Nat) (hm : 1 ≤ mult)
    (g : List Rat) :
    IsGenSet g total (mgsPreprocess numbers total rc mult) mult ↔ IsGenSet g total numbers mult := by
  constructor
  · rintro ⟨h1, h2, h3⟩
    exact ⟨h1, h2, (preprocess_generates_iff numbers total rc mult hm g h1).1 h3⟩
  · rintro ⟨h1, h2, h3⟩
    exact ⟨h1, h2, (preprocess_generates_iff numbers total rc mult hm g h1).2 h3⟩

end FP.GS
