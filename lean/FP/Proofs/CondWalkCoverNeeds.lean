import FP.Proofs.CondWalkCover
import FP.Proofs.Cover
/-!
# FP.Proofs.CondWalkCoverNeeds — the two added hypotheses of `condensation_flow_to_walkcover` are needed

Each theorem refutes the statement with one hypothesis dropped, on a concrete input:
* `cwc_needs_closed`: an edge whose endpoints are not in the node list is invisible to the condensation;
* `cwc_needs_no_isolated`: an isolated node is a component `source → k → sink` of the min-flow instance.

`cwc_duplicate_ignore_counts_once` is the regression for fix afcb013: an edge listed twice in
`edges_to_ignore` used to decrement the multiplicity of its condensation edge twice (the demand fell
below the number of parallel edges still to be covered and `get_width` came out too small); on the
witness of that defect the demand is now 2, the theorem applies and 2 is the minimum walk cover.
-/
namespace FP
open FP.Spec

/-- pairwise unreachability from a check with the model's `reachFrom` -/
theorem cwc_unreachable_of_reachFrom (g : Graph)
    (hclosed : ∀ e ∈ g.edges, e.1 ∈ g.nodes ∧ e.2 ∈ g.nodes) (A : List Edge)
    (hA : ∀ e ∈ A, e.2 ∈ g.nodes)
    (h : ∀ e1 ∈ A, ∀ e2 ∈ A, e1 ≠ e2 → e2.1 ∉ reachFrom g e1.2) :
    ∀ e1 ∈ A, ∀ e2 ∈ A, e1 ≠ e2 → ¬ Reach g.edges e1.2 e2.1 :=
  fun e1 h1 e2 h2 hne hr => h e1 h1 e2 h2 hne (reachFrom_complete g hclosed _ _ (hA e1 h1) hr)

/-! ## `hclosed` -/

def cwcBad1 : CondInput := { g := { nodes := [], edges := [("source", "sink")] }, scc := [], ignore := [] }

theorem cwc_needs_closed : ¬ ∀ (c : CondInput) (w d : List (Edge × Int)) (f : Edge → Nat) (cost : Nat),
    (∀ u ∈ c.g.nodes, ∀ v ∈ c.g.nodes,
      c.comp u = c.comp v ↔ (Reach c.g.edges u v ∧ Reach c.g.edges v u)) →
    (∀ e ∈ c.g.edges, Reach c.g.edges srcName e.1 ∧ Reach c.g.edges e.2 snkName) →
    (∀ v ∈ c.g.nodes, ∃ e ∈ c.g.edges, e.1 = v ∨ e.2 = v) →
    c.weightFunction = some w → c.demands = some d →
    CoveringFlow c.expandedST (fun e => (lookupD d e 0).toNat) f →
    outN c.expandedST.g f c.expandedST.source = cost →
    HasCover ⟨c.g, srcName, snkName⟩ (c.g.edges.filter fun e => !c.ignore.contains e) [] cost := by
  intro h
  have := h cwcBad1 (cwcBad1.weightFunction.getD []) (cwcBad1.demands.getD []) (fun _ => 0) 0
    (fun u hu => by simp [cwcBad1] at hu)
    (fun e he => by
      have : e = ("source", "sink") := by simpa [cwcBad1] using he
      subst this
      exact ⟨Reach.refl _, Reach.refl _⟩)
    (fun v hv => by simp [cwcBad1] at hv)
    (by decide) (by decide) ⟨by decide, by decide⟩ (by decide)
  obtain ⟨routes, hl, _, hc, _⟩ := this
  have hr : routes = [] := List.eq_nil_of_length_eq_zero hl
  subst hr
  obtain ⟨r, hr, _⟩ := hc ("source", "sink") (by decide)
  simp at hr

/-! ## `hinc` -/

def cwcBad2 : CondInput := { g := { nodes := ["x"], edges := [] }, scc := [("x", 0)], ignore := [] }

theorem cwc_needs_no_isolated : ¬ ∀ (c : CondInput) (w d : List (Edge × Int)) (f : Edge → Nat) (cost : Nat),
    (∀ u ∈ c.g.nodes, ∀ v ∈ c.g.nodes,
      c.comp u = c.comp v ↔ (Reach c.g.edges u v ∧ Reach c.g.edges v u)) →
    (∀ e ∈ c.g.edges, Reach c.g.edges srcName e.1 ∧ Reach c.g.edges e.2 snkName) →
    (∀ e ∈ c.g.edges, e.1 ∈ c.g.nodes ∧ e.2 ∈ c.g.nodes) →
    c.weightFunction = some w → c.demands = some d →
    CoveringFlow c.expandedST (fun e => (lookupD d e 0).toNat) f →
    outN c.expandedST.g f c.expandedST.source = cost →
    HasCover ⟨c.g, srcName, snkName⟩ (c.g.edges.filter fun e => !c.ignore.contains e) [] cost := by
  intro h
  have := h cwcBad2 (cwcBad2.weightFunction.getD []) (cwcBad2.demands.getD []) (fun _ => 1) 1
    (fun u hu v hv => by
      have h1 : u = "x" := by simpa [cwcBad2] using hu
      have h2 : v = "x" := by simpa [cwcBad2] using hv
      subst h1 h2
      exact ⟨fun _ => ⟨Reach.refl _, Reach.refl _⟩, fun _ => rfl⟩)
    (fun e he => by simp [cwcBad2] at he)
    (fun e he => by simp [cwcBad2] at he)
    (by decide) (by decide) ⟨by decide, by decide⟩ (by decide)
  obtain ⟨routes, hl, hrs, _, _⟩ := this
  cases routes with
  | nil => simp at hl
  | cons r rs =>
    have hr := hrs r List.mem_cons_self
    obtain ⟨p, rfl⟩ := stwalk_shape (s := ⟨cwcBad2.g, srcName, snkName⟩) src_ne_snk hr
    have hw := hr.walk
    cases p with
    | nil =>
      have := hw (srcName, snkName) (by simp [walkEdges])
      simp [cwcBad2] at this
    | cons y q =>
      have := hw (srcName, y) (by
        show _ ∈ walkEdges (srcName :: y :: (q ++ [snkName]))
        rw [walkEdges_cons_cons]; exact List.mem_cons_self)
      simp [cwcBad2] at this

/-! ## duplicates in `edges_to_ignore` (regression for fix afcb013) -/

/-- three parallel edges from the source into the cycle `a → b → c → a`; `source → a` ignored twice -/
def cwcDup : CondInput :=
  { g := { nodes := ["source", "a", "b", "c", "sink"],
           edges := [("source", "a"), ("source", "b"), ("source", "c"), ("a", "b"), ("a", "sink"),
                     ("b", "c"), ("c", "a")] },
    scc := [("sink", 0), ("a", 1), ("b", 1), ("c", 1), ("source", 2)],
    ignore := [("source", "a"), ("source", "a")] }

theorem cwcDup_closed : ∀ e ∈ cwcDup.g.edges, e.1 ∈ cwcDup.g.nodes ∧ e.2 ∈ cwcDup.g.nodes := by decide

set_option maxRecDepth 20000 in
theorem cwcDup_scc : ∀ u ∈ cwcDup.g.nodes, ∀ v ∈ cwcDup.g.nodes,
    cwcDup.comp u = cwcDup.comp v ↔ (Reach cwcDup.g.edges u v ∧ Reach cwcDup.g.edges v u) :=
  cwc_scc_of_reachFrom cwcDup cwcDup_closed (by decide)

set_option maxRecDepth 20000 in
theorem cwcDup_live :
    ∀ e ∈ cwcDup.g.edges, Reach cwcDup.g.edges srcName e.1 ∧ Reach cwcDup.g.edges e.2 snkName :=
  cwc_live_of_reachFrom cwcDup.g (by decide)

set_option maxRecDepth 20000 in
/-- one walk does not cover the two parallel edges `source → b`, `source → c` that are not ignored -/
theorem cwcDup_not_one : ¬ HasCover ⟨cwcDup.g, srcName, snkName⟩
    (cwcDup.g.edges.filter fun e => !cwcDup.ignore.contains e) [] 1 := by
  intro hcov
  have := antichain_weak_duality ⟨cwcDup.g, srcName, snkName⟩ _ []
    [("source", "b"), ("source", "c")]
    (antichain_of_unreachable ⟨cwcDup.g, srcName, snkName⟩ _ (by decide)
      (cwc_unreachable_of_reachFrom cwcDup.g cwcDup_closed _ (by decide) (by decide)))
    (by decide) 1 hcov
  simp at this

set_option maxRecDepth 20000 in
/-- **regression (fix afcb013).** with `source → a` listed twice among the ignored edges the demand on
the condensation edge `source-SCC → cycle` is `3 - 1 = 2` (it was `3 - 2 = 1`); two units along
`source 2 1 1_expanded 0 sink` are a covering flow, `condensation_flow_to_walkcover` turns them into
two walks covering every edge that is not ignored; one walk does not suffice, and accordingly no
covering flow has cost 1 any more -/
theorem cwc_duplicate_ignore_counts_once :
    lookupD (cwcDup.demands.getD []) ("2", "1") 0 = 2 ∧
    CoveringFlow cwcDup.expandedST (fun e => (lookupD (cwcDup.demands.getD []) e 0).toNat) (fun _ => 2) ∧
    HasCover ⟨cwcDup.g, srcName, snkName⟩
      (cwcDup.g.edges.filter fun e => !cwcDup.ignore.contains e) [] 2 ∧
    (¬ HasCover ⟨cwcDup.g, srcName, snkName⟩
      (cwcDup.g.edges.filter fun e => !cwcDup.ignore.contains e) [] 1) ∧
    ∀ f : Edge → Nat,
      CoveringFlow cwcDup.expandedST (fun e => (lookupD (cwcDup.demands.getD []) e 0).toNat) f →
      outN cwcDup.expandedST.g f cwcDup.expandedST.source ≠ 1 := by
  have hflow : CoveringFlow cwcDup.expandedST
      (fun e => (lookupD (cwcDup.demands.getD []) e 0).toNat) (fun _ => 2) := ⟨by decide, by decide⟩
  refine ⟨by decide, hflow, ?_, cwcDup_not_one, ?_⟩
  · exact cwc_condensation_flow_to_walkcover cwcDup (cwcDup.weightFunction.getD [])
      (cwcDup.demands.getD []) (fun _ => 2) 2 cwcDup_scc cwcDup_live cwcDup_closed (by decide)
      (by decide) (by decide) hflow (by decide)
  · intro f hf hcost
    exact cwcDup_not_one (cwc_condensation_flow_to_walkcover cwcDup (cwcDup.weightFunction.getD [])
      (cwcDup.demands.getD []) f 1 cwcDup_scc cwcDup_live cwcDup_closed (by decide)
      (by decide) (by decide) hf hcost)

end FP
