import FP.Proofs.ErrExampleOpt
import FP.Proofs.KMPE
/-!
# FP.Proofs.MpeFactors — the path-length-factor block of k-Min-Path-Error

* `factorBlock_parts`: a satisfying assignment of `factorBlock` satisfies, for every layer, the bounds of
  the slack-factor column, the piecewise-constant fragment and the integer × continuous fragment.
* `factors_gt1_infeasible`: the code falsifies feasibility with a factor above 1 — the LP of
  `a → b → c`, `f = (1, 3)`, `k = 1`, `path_length_factors = [4]` has no satisfying assignment although
  weight 2, slack 1 (scaled slack 4) is a solution of the problem.
-/
namespace FP
open FP.Spec

def accumLP (g : Nat → LP) (acc : LP) (i : Nat) : LP :=
  { acc with cols := acc.cols ++ (g i).cols, rows := acc.rows ++ (g i).rows }

theorem foldl_accum_mem (g : Nat → LP) (l : List Nat) : ∀ acc : LP,
    (∀ c ∈ acc.cols, c ∈ (l.foldl (accumLP g) acc).cols) ∧
    (∀ r ∈ acc.rows, r ∈ (l.foldl (accumLP g) acc).rows) ∧
    ∀ i ∈ l, (∀ c ∈ (g i).cols, c ∈ (l.foldl (accumLP g) acc).cols) ∧
             (∀ r ∈ (g i).rows, r ∈ (l.foldl (accumLP g) acc).rows) := by
  induction l with
  | nil => intro acc; exact ⟨fun _ h => h, fun _ h => h, fun i hi => by simp at hi⟩
  | cons x xs ih =>
    intro acc
    obtain ⟨h1, h2, h3⟩ := ih (accumLP g acc x)
    simp only [List.foldl_cons]
    refine ⟨fun c hc => h1 c (by simp [accumLP, hc]), fun r hr => h2 r (by simp [accumLP, hr]), ?_⟩
    intro i hi
    rcases List.mem_cons.1 hi with rfl | hi
    · exact ⟨fun c hc => h1 c (by simp [accumLP, hc]), fun r hr => h2 r (by simp [accumLP, hr])⟩
    · exact h3 i hi

/-- the parts of the factor block for layer `i` -/
theorem factorBlock_parts (inp : MpeInput) (k : Nat) (wm : Rat) (hne : inp.factors ≠ []) (a : Asg)
    (h : Sat a (factorBlock inp k wm)) (i : Nat) (hi : i < k) :
    (listMin inp.factors ≤ a (slackFactorVar i) ∧ a (slackFactorVar i) ≤ listMax inp.factors) ∧
    Sat a (piecewise (lenVar i) (slackFactorVar i) inp.ranges inp.factors ("error_scale_" ++ toString i)) ∧
    Sat a (intProdQ (slackVar i) (slackFactorVar i) (scaledSlackVar i) 0 (wm * listMax inp.factors)
            ("scaled_slack_i" ++ toString i)) := by
  have hne' : inp.factors.isEmpty = false := by
    cases hf : inp.factors with
    | nil => exact absurd hf hne
    | cons _ _ => rfl
  unfold factorBlock at h
  simp only [hne', Bool.false_eq_true, if_false] at h
  obtain ⟨hc, hr⟩ := h
  simp only at hc hr
  have hmem := List.mem_range.2 hi
  have hpw := foldl_accum_mem (fun i => piecewise (lenVar i) (slackFactorVar i) inp.ranges inp.factors
    ("error_scale_" ++ toString i)) (List.range k) {}
  have hip := foldl_accum_mem (fun i => intProdQ (slackVar i) (slackFactorVar i) (scaledSlackVar i) 0
    (wm * listMax inp.factors) ("scaled_slack_i" ++ toString i)) (List.range k) {}
  refine ⟨?_, ⟨fun c hcm => ?_, fun r hrm => ?_⟩, ⟨fun c hcm => ?_, fun r hrm => ?_⟩⟩
  · have := hc { v := slackFactorVar i, lb := listMin inp.factors, ub := some (listMax inp.factors), isInt := false }
      (List.mem_append_left _ (List.mem_append_left _ (List.mem_append_left _
        (List.mem_map.2 ⟨i, hmem, rfl⟩))))
    exact ⟨this.1, this.2.1 _ rfl⟩
  · exact hc c (List.mem_append_left _ (List.mem_append_left _ (List.mem_append_right _
      ((hpw.2.2 i hmem).1 c hcm))))
  · exact hr r (List.mem_append_left _ ((hpw.2.2 i hmem).2 r hrm))
  · exact hc c (List.mem_append_right _ ((hip.2.2 i hmem).1 c hcm))
  · exact hr r (List.mem_append_right _ ((hip.2.2 i hmem).2 r hrm))

/-! ## soundness of the two product fragments without bound hypotheses -/

/-- with `lb = 0` the McCormick rows force `p = b·c` for a binary `b` whatever the value of `c` -/
theorem binProd_sound0 (a : Asg) (b c p : Var) (ub : Rat) (hb : a b = 0 ∨ a b = 1)
    (h : ∀ r ∈ binProd b c p 0 ub, r.holds a) : a p = a b * a c := by
  simp only [binProd, List.mem_cons, List.not_mem_nil, or_false, forall_eq_or_imp, forall_eq,
    Row.holds, rowLe, rowGe, evalTerms, List.map, List.sum_cons, List.sum_nil] at h
  simp at h
  rcases hb with hb | hb <;> rw [hb] at h ⊢ <;> grind

theorem rat_of_den_one (q : Rat) (h1 : q.den = 1) (h0 : 0 ≤ q.num) : ((q.num.toNat : Nat) : Rat) = q := by
  have hz : ((q.num.toNat : Nat) : Int) = q.num := Int.toNat_of_nonneg h0
  rw [← Rat.intCast_natCast, hz]
  apply Rat.ext <;> simp [h1]

/-- soundness of `add_integer_continuous_product_constraint` for an arbitrary (rational) bound -/
theorem intProdQ_sound_p07 (a : Asg) (n c p : Var) (lb ub : Rat) (name : String)
    (hc : lb ≤ a c ∧ a c ≤ ub) (h : Sat a (intProdQ n c p lb ub name)) : a p = a n * a c := by
  unfold intProdQ at h
  by_cases hq : ub.den = 1 ∧ 0 ≤ ub.num
  · rw [if_pos hq] at h
    exact intProd_sound a n c p lb ub.num.toNat name
      (by rw [rat_of_den_one ub hq.1 hq.2]; exact hc) h
  · rw [if_neg hq] at h
    obtain ⟨hcols, hrows⟩ := h
    simp only at hcols hrows
    generalize numBits ub.ceil.toNat = nb at hcols hrows
    have hbit : ∀ i ∈ List.range nb, a (bitVar name i) = 0 ∨ a (bitVar name i) = 1 := by
      intro i hi
      have := hcols { v := bitVar name i, lb := 0, ub := some 1, isInt := true }
        (List.mem_append_left _ (List.mem_map.2 ⟨i, hi, rfl⟩))
      obtain ⟨h0, h1, hz⟩ := this
      exact int01 _ h0 (h1 1 rfl) (hz rfl)
    have hcomp : ∀ i ∈ List.range nb, a (compVar name i) = a (bitVar name i) * a c := by
      intro i hi
      apply (binProd_exact_aux a (bitVar name i) c (compVar name i) lb ub (hbit i hi) hc).1
      intro r hr
      apply hrows
      apply List.mem_append_left
      apply List.mem_append_right
      exact List.mem_flatMap.2 ⟨i, hi, hr⟩
    have hint := hrows _ (List.mem_append_left _ (List.mem_append_left _ (List.mem_singleton.2 rfl)))
    have hprod := hrows _ (List.mem_append_right _ (List.mem_singleton.2 rfl))
    simp only [Row.holds, rowEq, evalTerms_append, evalTerms_map, evalTerms_single] at hint hprod
    have hint1 := hint.1 0 rfl
    have hint2 := hint.2 0 rfl
    have hprod1 := hprod.1 0 rfl
    have hprod2 := hprod.2 0 rfl
    have hs : ((List.range nb).map (fun i => (2:Rat)^i * a (compVar name i))).sum
        = ((List.range nb).map (fun i => (2:Rat)^i * a (bitVar name i))).sum * a c := by
      rw [← sum_map_mul_right]
      apply sum_map_congr
      intro i hi
      rw [hcomp i hi]; grind
    rw [hs] at hprod1 hprod2
    generalize ((List.range nb).map (fun i => (2:Rat)^i * a (bitVar name i))).sum = S at *
    have hS : S = a n := by grind
    subst hS
    grind

/-! ## soundness of the k-Min-Path-Error LP with path-length factors -/

theorem slackFor_cons (inp : MpeInput) (hne : inp.factors ≠ []) (i : Nat) : inp.slackFor i = scaledSlackVar i := by
  unfold MpeInput.slackFor
  cases hf : inp.factors with
  | nil => exact absurd hf hne
  | cons _ _ => simp

theorem kmpe_sat_parts_fac (inp : MpeInput) (a : Asg) (hne : inp.factors ≠ []) (hsat : Sat a (kmpeLP inp)) :
    Sat a (encodePaths inp.ei.st inp.ei.fi.cfg) ∧
    (∀ i, i < inp.ei.k → Col.holds a { v := weightsVar i, lb := 0, ub := some (inp.ei.wmax none), isInt := inp.ei.fi.weightInt }) ∧
    (∀ i, i < inp.ei.k → Col.holds a { v := slackVar i, lb := 0, ub := some (inp.ei.wmax none), isInt := inp.ei.fi.weightInt }) ∧
    (∀ e ∈ inp.ei.st.g.edges, ∀ i, i < inp.ei.k →
      Col.holds a { v := gammaVar e i, lb := 0, ub := some (inp.ei.wmax none), isInt := false }) ∧
    Sat a (factorBlock inp inp.ei.k (inp.ei.wmax none)) ∧
    (∀ e ∈ inp.ei.basicEdges, ∀ i, i < inp.ei.k →
      ∀ r ∈ binProd (edgeVar e i) (weightsVar i) (piVar e i) 0 (inp.ei.wmax none), r.holds a) ∧
    (∀ e ∈ inp.ei.basicEdges, ∀ i, i < inp.ei.k →
      ∀ r ∈ binProd (edgeVar e i) (scaledSlackVar i) (gammaVar e i) 0 (inp.ei.wmax none), r.holds a) ∧
    (∀ e ∈ inp.ei.basicEdges, ∀ r ∈ errRows (inp.ei.fi.f e) (inp.ei.scale e)
        (ones (List.range inp.ei.k) (piVar e)) (ones (List.range inp.ei.k) (gammaVar e)), r.holds a) := by
  have h1 := sat_append_left a _ _ hsat
  have h2 := sat_append_left a _ _ h1
  have henc := sat_append_left a _ _ h2
  have hfb := sat_append_right a _ _ h1
  obtain ⟨hcols, _⟩ := sat_append_right a _ _ h2
  obtain ⟨_, hrows⟩ := sat_append_right a _ _ hsat
  simp only at hcols hrows
  refine ⟨henc, ?_, ?_, ?_, hfb, ?_, ?_, ?_⟩
  · intro i hi
    exact hcols _ (List.mem_append_left _ (List.mem_append_left _ (List.mem_append_left _
      (List.mem_map.2 ⟨i, List.mem_range.2 hi, rfl⟩))))
  · intro i hi
    exact hcols _ (List.mem_append_left _ (List.mem_append_right _
      (List.mem_map.2 ⟨i, List.mem_range.2 hi, rfl⟩)))
  · intro e he i hi
    exact hcols _ (List.mem_append_right _ (List.mem_flatMap.2 ⟨i, List.mem_range.2 hi,
      List.mem_map.2 ⟨e, he, rfl⟩⟩))
  · intro e he i hi r hr
    exact hrows r (List.mem_append_left _ (List.mem_append_left _ (List.mem_flatMap.2 ⟨e, he,
      List.mem_flatMap.2 ⟨i, List.mem_range.2 hi, hr⟩⟩)))
  · intro e he i hi r hr
    refine hrows r (List.mem_append_left _ (List.mem_append_right _ (List.mem_flatMap.2 ⟨e, he,
      List.mem_flatMap.2 ⟨i, List.mem_range.2 hi, ?_⟩⟩)))
    rw [slackFor_cons inp hne]; exact hr
  · intro e he r hr
    exact hrows r (List.mem_append_right _ (List.mem_flatMap.2 ⟨e, he, hr⟩))

/-- **soundness with path-length factors.** For every satisfying assignment: each layer's path length
column lies in some range `j` and `scaled_slack_i = slack_i · factors[j]`; `gamma(e,i) = x(e,i) ·
scaled_slack_i` (and `gamma ≤ w_max`); every non-ignored edge satisfies
`|f(e) − Σ_i w_i[e ∈ p_i]| · scale(e) ≤ Σ_i scaled_slack_i [e ∈ p_i]`; the objective is `Σ_i slack_i`.
Hypothesis `hfb`: the slack-factor column `[min factors, max factors]` lies within the bound
`[0, w_max · max factors]` handed to the integer × continuous product (true when `w_max ≥ 1`). -/
theorem kmpe_factors_sound (inp : MpeInput) (a : Asg) (h : BaseWF inp.ei.fi.base) (hac : Acyclic inp.ei.fi.base)
    (hne : inp.factors ≠ []) (hlen : inp.ranges.length = inp.factors.length)
    (hLU : ∀ r ∈ inp.ranges, r.1 ≤ r.2)
    (hfb : 0 ≤ listMin inp.factors ∧ listMax inp.factors ≤ inp.ei.wmax none * listMax inp.factors)
    (hsat : Sat a (kmpeLP inp)) :
    ∃ ps : List (List Node),
      decodePaths inp.ei.st (fun e i => a (edgeVar e i)) inp.ei.k = some ps ∧ ps.length = inp.ei.k ∧
      (∀ i, i < inp.ei.k → Route inp.ei.st inp.ei.fi.cfg.allowEmpty (ps.getD i [])) ∧
      (∀ i, i < inp.ei.k → ∀ e ∈ inp.ei.st.g.edges, a (edgeVar e i) = trav inp.ei.st (ps.getD i []) e) ∧
      (∀ i, i < inp.ei.k → ∃ j, ∃ hj : j < inp.ranges.length,
        (inp.ranges[j]).1 ≤ a (lenVar i) ∧ a (lenVar i) ≤ (inp.ranges[j]).2 ∧
        a (scaledSlackVar i) = a (slackVar i) * inp.factors[j]'(hlen ▸ hj)) ∧
      (∀ e ∈ inp.ei.basicEdges, ∀ i, i < inp.ei.k →
        a (gammaVar e i) = a (edgeVar e i) * a (scaledSlackVar i) ∧ a (gammaVar e i) ≤ inp.ei.wmax none) ∧
      (∀ e ∈ inp.ei.basicEdges,
        (inp.ei.fi.f e - explained inp.ei.st inp.ei.k (fun i => ps.getD i []) (fun i => a (weightsVar i)) e).abs
            * inp.ei.scale e
          ≤ explained inp.ei.st inp.ei.k (fun i => ps.getD i []) (fun i => a (scaledSlackVar i)) e) ∧
      evalTerms a (kmpeLP inp).obj = MPE.totalSlack inp.ei.k (fun i => a (slackVar i)) := by
  have hwf : STWF inp.ei.st := augment_wf inp.ei.fi.base inp.ei.fi.starts inp.ei.fi.ends h hac
  obtain ⟨henc, hwc, _, hgc, hFB, hbinw, hbins, herr⟩ := kmpe_sat_parts_fac inp a hne hsat
  obtain ⟨ps, hps, hlenps, hroutes, htrav⟩ := decode_routes inp.ei.st inp.ei.fi.cfg a hwf henc
  have hw : ∀ i, i < inp.ei.k → 0 ≤ a (weightsVar i) ∧ a (weightsVar i) ≤ inp.ei.wmax none :=
    fun i hi => ⟨(hwc i hi).1, (hwc i hi).2.1 _ rfl⟩
  have hbin : ∀ e ∈ inp.ei.basicEdges, ∀ i, i < inp.ei.k → a (edgeVar e i) = 0 ∨ a (edgeVar e i) = 1 :=
    fun e he i hi => (layerFacts_of_sat inp.ei.st inp.ei.fi.cfg a henc i hi).bin e (mem_basicEdges inp.ei e he)
  have hpi : ∀ e ∈ inp.ei.basicEdges, ∀ i, i < inp.ei.k → a (piVar e i) = a (edgeVar e i) * a (weightsVar i) :=
    fun e he i hi => (binProd_exact a _ _ _ 0 _ (hbin e he i hi) (hw i hi)).1 (hbinw e he i hi)
  have hgam : ∀ e ∈ inp.ei.basicEdges, ∀ i, i < inp.ei.k →
      a (gammaVar e i) = a (edgeVar e i) * a (scaledSlackVar i) :=
    fun e he i hi => binProd_sound0 a _ _ _ _ (hbin e he i hi) (hbins e he i hi)
  refine ⟨ps, hps, hlenps, hroutes, htrav, ?_, ?_, ?_, kmpeLP_obj inp a⟩
  · intro i hi
    obtain ⟨hsf, hpw, hip⟩ := factorBlock_parts inp inp.ei.k (inp.ei.wmax none) hne a hFB i hi
    obtain ⟨j, hj, hl1, hl2, hy⟩ := piecewise_sound a _ _ inp.ranges inp.factors _ hlen hLU hpw
    refine ⟨j, hj, hl1, hl2, ?_⟩
    rw [intProdQ_sound_p07 a _ _ _ 0 _ _ ⟨Rat.le_trans hfb.1 hsf.1, Rat.le_trans hsf.2 hfb.2⟩ hip, hy]
  · intro e he i hi
    exact ⟨hgam e he i hi, (hgc e (mem_basicEdges inp.ei e he) i hi).2.1 _ rfl⟩
  · intro e he
    have hee := mem_basicEdges inp.ei e he
    have hsumW : ((List.range inp.ei.k).map fun i => a (piVar e i)).sum
        = explained inp.ei.st inp.ei.k (fun i => ps.getD i []) (fun i => a (weightsVar i)) e := by
      apply sum_map_congr
      intro i hi
      have hi' := List.mem_range.1 hi
      rw [hpi e he i hi', htrav i hi' e hee]; grind
    have hsumS : ((List.range inp.ei.k).map fun i => a (gammaVar e i)).sum
        = explained inp.ei.st inp.ei.k (fun i => ps.getD i []) (fun i => a (scaledSlackVar i)) e := by
      apply sum_map_congr
      intro i hi
      have hi' := List.mem_range.1 hi
      rw [hgam e he i hi', htrav i hi' e hee]; grind
    have hmem := herr e he
    unfold errRows at hmem
    have h1 := (hmem _ List.mem_cons_self).2 _ rfl
    have h2 := (hmem _ (List.mem_cons_of_mem _ List.mem_cons_self)).1 _ rfl
    simp only [rowLe, rowGe, evalTerms_append, evalTerms_negTerms, evalTerms_scaled, evalTerms_ones,
      hsumW, hsumS] at h1 h2
    generalize explained inp.ei.st inp.ei.k (fun i => ps.getD i []) (fun i => a (weightsVar i)) e = S at *
    generalize explained inp.ei.st inp.ei.k (fun i => ps.getD i []) (fun i => a (scaledSlackVar i)) e = G at *
    unfold Rat.abs; split <;> grind

/-! ## the code falsifies feasibility with a factor above 1 -/

namespace MpeFactors
open FP.ErrExample

def fi3 : FlowInput :=
  { base := base, flow := [(("a", "b"), 1), (("b", "c"), 3)], weightInt := true,
    cfg := { k := 1, encodePosition := true } }
/-- `a → b → c`, `f = (1, 3)`, `k = 1`, `path_length_ranges = [[0, 1000]]`, `path_length_factors = [4]` -/
def inp3 : MpeInput := { ei := { fi := fi3 }, ranges := [(0, 1000)], factors := [4] }

theorem basic3 : inp3.ei.basicEdges = [("a", "b"), ("b", "c")] := by decide
theorem fmax3 : inp3.ei.fmax = 3 := by decide
theorem wmax3 : inp3.ei.wmax none = 3 := by
  rw [wmax_eq, fmax3]
  have : ((inp3.ei.k : Nat) : Rat) = 1 := by decide
  rw [this]; grind
theorem range_k3 : List.range inp3.ei.k = [0] := by decide
theorem lmin3 : listMin inp3.factors = 4 := by decide
theorem lmax3 : listMax inp3.factors = 4 := by decide
theorem f3_ab : inp3.ei.fi.f ("a", "b") = 1 := by decide
theorem f3_bc : inp3.ei.fi.f ("b", "c") = 3 := by decide
theorem sc3_ab : inp3.ei.scale ("a", "b") = 1 := by decide
theorem sc3_bc : inp3.ei.scale ("b", "c") = 1 := by decide

/-- weight 2 with scaled slack 4 (slack 1 · factor 4) solves the instance in the sense of the
property: `|1 − 2| ≤ 4` and `|3 − 2| ≤ 4` -/
theorem problem_has_solution :
    ∀ e ∈ inp3.ei.basicEdges, MPE.SlackOK inp3.ei P (fun _ => 2) (fun _ => (1 : Rat) * 4) e := by
  intro e he
  have tab : trav inp3.ei.st (P 0) ("a", "b") = 1 := by decide
  have tbc : trav inp3.ei.st (P 0) ("b", "c") = 1 := by decide
  rw [basic3] at he
  simp only [List.mem_cons, List.not_mem_nil, or_false] at he
  unfold MPE.SlackOK explained
  rw [range_k3]
  rcases he with rfl | rfl
  · simp only [List.map_cons, List.map_nil, List.sum_cons, List.sum_nil, tab, f3_ab, sc3_ab]
    unfold Rat.abs; split <;> grind
  · simp only [List.map_cons, List.map_nil, List.sum_cons, List.sum_nil, tbc, f3_bc, sc3_bc]
    unfold Rat.abs; split <;> grind

/-- **… but the LP built by the constructor is infeasible**: `gamma ≤ w_max = 3` forces
`scaled_slack = 4·slack ≤ 3`, hence `slack = 0`, and no weight explains both `1` and `3` exactly. -/
theorem factors_gt1_infeasible : ¬ ∃ a : Asg, Sat a (kmpeLP inp3) := by
  rintro ⟨a, hsat⟩
  have hne : inp3.factors ≠ [] := by decide
  obtain ⟨henc, hwc, hsc, hgc, hFB, hbinw, hbins, herr⟩ := kmpe_sat_parts_fac inp3 a hne hsat
  obtain ⟨hxab, hxbc⟩ := path_forced inp3.ei.fi.cfg rfl a henc 0 (by decide)
  have hab : ("a", "b") ∈ inp3.ei.basicEdges := by rw [basic3]; simp
  have hbc : ("b", "c") ∈ inp3.ei.basicEdges := by rw [basic3]; simp
  have h0 : (0 : Nat) < inp3.ei.k := by decide
  have hw : 0 ≤ a (weightsVar 0) ∧ a (weightsVar 0) ≤ inp3.ei.wmax none :=
    ⟨(hwc 0 h0).1, (hwc 0 h0).2.1 _ rfl⟩
  have hpab := (binProd_exact a _ _ _ 0 _ (Or.inr hxab) hw).1 (hbinw _ hab 0 h0)
  have hpbc := (binProd_exact a _ _ _ 0 _ (Or.inr hxbc) hw).1 (hbinw _ hbc 0 h0)
  have hgab := binProd_sound0 a _ _ _ _ (Or.inr hxab) (hbins _ hab 0 h0)
  have hgbc := binProd_sound0 a _ _ _ _ (Or.inr hxbc) (hbins _ hbc 0 h0)
  rw [hxab] at hpab hgab
  rw [hxbc] at hpbc hgbc
  -- scaled slack = 4 · slack
  obtain ⟨hsf, _, hip⟩ := factorBlock_parts inp3 inp3.ei.k (inp3.ei.wmax none) hne a hFB 0 h0
  rw [lmin3, lmax3] at hsf
  have hsf4 : a (slackFactorVar 0) = 4 := Rat.le_antisymm hsf.2 hsf.1
  have hss := intProdQ_sound_p07 a _ _ _ 0 _ _
    (by rw [hsf4, wmax3, lmax3]; constructor <;> grind) hip
  rw [hsf4] at hss
  -- gamma ≤ w_max
  have hgle := (hgc ("a", "b") (mem_basicEdges inp3.ei _ hab) 0 h0).2.1 _ rfl
  rw [wmax3, hgab] at hgle
  -- the slack is a non-negative integer
  obtain ⟨z, hz⟩ := (hsc 0 h0).2.2 rfl
  have hs0 := (hsc 0 h0).1
  have hz0 : a (slackVar 0) = 0 := by
    change (0 : Rat) ≤ a (slackVar 0) at hs0
    rw [hz] at hs0 hss ⊢
    have hz0 : (0 : Int) ≤ z := Rat.intCast_nonneg.1 hs0
    by_cases hz1 : z ≤ 0
    · have : z = 0 := by omega
      rw [this]; simp
    · have h1 : (1 : Int) ≤ z := by omega
      have h1' : ((1 : Int) : Rat) ≤ (z : Rat) := Rat.intCast_le_intCast.2 h1
      simp at h1'
      grind
  -- the two error rows
  have hm1 := herr _ hab
  have hm2 := herr _ hbc
  unfold errRows at hm1 hm2
  have r1 := (hm1 _ (List.mem_cons_of_mem _ List.mem_cons_self)).1 _ rfl
  have r2 := (hm2 _ List.mem_cons_self).2 _ rfl
  simp only [rowLe, rowGe, evalTerms_append, evalTerms_negTerms, evalTerms_scaled, evalTerms_ones, range_k3,
    List.map_cons, List.map_nil, List.sum_cons, List.sum_nil, hpab, hpbc, hgab, hgbc, f3_ab, f3_bc,
    sc3_ab, sc3_bc, hss, hz0] at r1 r2
  grind

end MpeFactors

/-- number of edges of a route in the augmented graph (the value of its `path_length` column) -/
def pathLenN (s : STGraph) (p : List Node) : Nat := (s.g.edges.map fun e => traversals (full s p) e).sum

/-- **intended completeness with path-length factors** (what "feasible for k ≥ width" needs): every
choice of `k` routes, weights and slacks of the requested type within `w_max`, with a range `j i`
containing the length of route `i`, whose *scaled* slacks `slack_i · factors[j i]` satisfy the slack
inequality, is represented by a satisfying assignment. -/
def kmpe_factors_complete_FullStatement : Prop :=
  ∀ (inp : MpeInput), BaseWF inp.ei.fi.base → Acyclic inp.ei.fi.base → inp.factors ≠ [] →
    inp.ranges.length = inp.factors.length →
    inp.ei.fi.cfg.constraints = [] → inp.ei.fi.cfg.lengths = none →
    ∀ (P : Nat → List Node) (w sl : Nat → Rat) (j : Nat → Nat),
      (∀ i, i < inp.ei.k → Route inp.ei.st inp.ei.fi.cfg.allowEmpty (P i)) →
      (∀ i, i < inp.ei.k → 0 ≤ w i ∧ w i ≤ inp.ei.wmax none ∧ 0 ≤ sl i ∧ sl i ≤ inp.ei.wmax none ∧
        IsInt (w i) ∧ IsInt (sl i)) →
      (∀ i, i < inp.ei.k → ∃ r ∈ inp.ranges[j i]?, r.1 ≤ (pathLenN inp.ei.st (P i) : Rat) ∧
        (pathLenN inp.ei.st (P i) : Rat) ≤ r.2) →
      (∀ e ∈ inp.ei.basicEdges,
        MPE.SlackOK inp.ei P w (fun i => sl i * inp.factors.getD (j i) 0) e) →
      ∃ a : Asg, Sat a (kmpeLP inp)

/-- the code falsifies it (finding C08-factors-gt1-gamma-ub) -/
theorem kmpe_factors_complete_false : ¬ kmpe_factors_complete_FullStatement := by
  intro hfull
  apply MpeFactors.factors_gt1_infeasible
  refine hfull MpeFactors.inp3 ErrExample.base_wf ErrExample.base_acyclic (by decide) rfl rfl rfl
    ErrExample.P (fun _ => 2) (fun _ => 1) (fun _ => 0) (fun _ _ => ErrExample.route _) ?_ ?_ ?_
  · intro i _
    rw [MpeFactors.wmax3]
    exact ⟨by decide, by decide, by decide, by decide, ⟨2, by simp⟩, ⟨1, by simp⟩⟩
  · intro i _
    refine ⟨(0, 1000), rfl, ?_, ?_⟩
    · have : pathLenN MpeFactors.inp3.ei.st (ErrExample.P i) = 4 := by
        show pathLenN MpeFactors.inp3.ei.st ["a", "b", "c"] = 4
        decide
      rw [this]; decide
    · have : pathLenN MpeFactors.inp3.ei.st (ErrExample.P i) = 4 := by
        show pathLenN MpeFactors.inp3.ei.st ["a", "b", "c"] = 4
        decide
      rw [this]; decide
  · have : (fun i : Nat => (1 : Rat) * MpeFactors.inp3.factors.getD ((fun _ => 0) i) 0) = fun _ => (1 : Rat) * 4 := by
      funext i; rfl
    rw [this]
    exact MpeFactors.problem_has_solution

end FP
