import FP.Proofs.KFDC
import FP.Proofs.WalkCoreComplete
/-!
# FP.Proofs.KFDCComplete — completeness of the `kFlowDecompCycles` LP

`kfdcAsg` turns a decomposition on the level of multiplicities (`m i e`), weights `w i` and
connectivity witnesses (`sel`, `dist`) into an assignment of *all* columns of `kfdcLP`: edge,
selected-edge, distance, used-edge, `r`, `pi`, weights, and the bit / component columns of every
product block (binary digits of the multiplicity, digits times weight). `kfdc_complete_proof` shows
that it satisfies every column bound, every integrality requirement and every row, provided the
multiplicities respect the caps and `w_max`, and the weights lie in `[0, w_max]` (`w_max` natural or
fractional).

The model identifies a column with its HiGHS name, so two product blocks with the same name would share
their bit columns; `NameInj` (the names of the product blocks are pairwise different) excludes that — in
the Python code the blocks own their variables whatever the names are.
-/
namespace FP
open FP.Spec

theorem sat_append_intro (a : Asg) (A B : LP) (hA : Sat a A) (hB : Sat a B) : Sat a (A.append B) :=
  ⟨fun c hc => (List.mem_append.1 hc).elim (hA.1 c) (hB.1 c),
   fun r hr => (List.mem_append.1 hr).elim (hA.2 r) (hB.2 r)⟩

/-! ## product fragment from explicit values -/

theorem bitOf01 (k j : Nat) : bitOf k j = 0 ∨ bitOf k j = 1 := natbit01 k j

/-- the product fragment with any number of bits and any (rational) bound, from explicit values of its
columns: `n = k < 2^nb`, `lb ≤ c ≤ ub`, `p = n·c`, bit `j` = `j`-th binary digit of `k`, component `j` =
digit · `c` -/
theorem prodFrag_sat_of_values (a : Asg) (n c p : Var) (lb ub : Rat) (name : String) (nb k : Nat)
    (hk : a n = k) (hknb : k < 2 ^ nb) (hlb : lb ≤ 0) (hub0 : 0 ≤ ub) (hc : lb ≤ a c ∧ a c ≤ ub)
    (hp : a p = a n * a c)
    (hbit : ∀ j, a (bitVar name j) = bitOf k j)
    (hcomp : ∀ j, a (compVar name j) = bitOf k j * a c) :
    Sat a (prodFrag n c p lb ub name nb) := by
  have hkmod : k % 2 ^ nb = k := Nat.mod_eq_of_lt hknb
  have hsum : ((List.range nb).map (fun i => (2:Rat)^i * a (bitVar name i))).sum = (k : Rat) := by
    rw [sum_map_congr _ _ (fun i => (2:Rat)^i * ((k / 2^i % 2 : Nat) : Rat))
      (fun i _ => by rw [hbit]; rfl), binexp, hkmod]
  have hsumc : ((List.range nb).map (fun i => (2:Rat)^i * a (compVar name i))).sum
      = (k : Rat) * a c := by
    rw [← hsum, ← sum_map_mul_right]
    apply sum_map_congr
    intro i _
    rw [hcomp, hbit]; grind
  constructor
  · intro col hcol
    simp only [prodFrag] at hcol
    rcases List.mem_append.1 hcol with h | h
    · obtain ⟨i, _, rfl⟩ := List.mem_map.1 h
      simp only [Col.holds, hbit]
      refine ⟨Rat.natCast_nonneg, ?_, fun _ => ⟨((k / 2^i % 2 : Nat) : Int), (Rat.intCast_natCast _).symm⟩⟩
      intro u hu
      cases hu
      rcases bitOf01 k i with h | h <;> rw [h] <;> grind
    · obtain ⟨i, _, rfl⟩ := List.mem_map.1 h
      simp only [Col.holds, hcomp]
      refine ⟨?_, ?_, fun h => by cases h⟩
      · rcases bitOf01 k i with h | h <;> rw [h] <;> grind
      · intro u hu
        cases hu
        rcases bitOf01 k i with h | h <;> rw [h] <;> grind
  · intro r hr
    simp only [prodFrag] at hr
    rcases List.mem_append.1 hr with h | h
    · rcases List.mem_append.1 h with h | h
      · rw [List.mem_singleton.1 h]
        simp only [Row.holds, rowEq, evalTerms_append, evalTerms_map, evalTerms_single, hsum, hk]
        constructor <;> intro x hx <;> cases hx <;> grind
      · obtain ⟨i, _, hi⟩ := List.mem_flatMap.1 h
        refine (binProd_exact_aux a (bitVar name i) c (compVar name i) lb ub ?_ hc).2 ?_ r hi
        · rw [hbit]; exact bitOf01 k i
        · rw [hcomp, hbit]
    · rw [List.mem_singleton.1 h]
      simp only [Row.holds, rowEq, evalTerms_append, evalTerms_map, evalTerms_single, hsumc, hp, hk]
      constructor <;> intro x hx <;> cases hx <;> grind

theorem lt_two_pow_numBits (k N : Nat) (h : k ≤ N) : k < 2 ^ numBits N := by
  have := (numBits_spec_proof N).1
  omega

/-- **integer × continuous with a rational bound, completeness**: the values above satisfy the fragment
the helper builds for the bound `ub` (natural or not), provided `k ≤ ub` -/
theorem intProdQ_sat_of_values (a : Asg) (n c p : Var) (lb ub : Rat) (name : String) (k : Nat)
    (hk : a n = k) (hkub : (k : Rat) ≤ ub) (hlb : lb ≤ 0) (hc : lb ≤ a c ∧ a c ≤ ub)
    (hp : a p = a n * a c)
    (hbit : ∀ j, a (bitVar name j) = bitOf k j)
    (hcomp : ∀ j, a (compVar name j) = bitOf k j * a c) :
    Sat a (intProdQ n c p lb ub name) := by
  have hub0 : 0 ≤ ub := Rat.le_trans Rat.natCast_nonneg hkub
  unfold intProdQ
  split
  · rename_i h
    have hubN := rat_eq_natCast_of_den_one ub h.1 h.2
    rw [intProd_eq_prodFrag, ← hubN]
    apply prodFrag_sat_of_values a n c p lb ub name _ k hk _ hlb hub0 hc hp hbit hcomp
    apply lt_two_pow_numBits
    rw [hubN] at hkub
    exact Rat.natCast_le_natCast.1 hkub
  · show Sat a (prodFrag n c p lb ub name (numBits ub.ceil.toNat))
    apply prodFrag_sat_of_values a n c p lb ub name _ k hk _ hlb hub0 hc hp hbit hcomp
    apply lt_two_pow_numBits
    have h1 : (k : Rat) ≤ ((ub.ceil : Int) : Rat) := Rat.le_trans hkub Rat.le_ceil
    have h2 : ((k : Int) : Rat) ≤ ((ub.ceil : Int) : Rat) := by rwa [Rat.intCast_natCast]
    have h3 : (k : Int) ≤ ub.ceil := Rat.intCast_le_intCast.1 h2
    omega

/-! ## the flow block -/

theorem sum_explainedM_term_le (k : Nat) (m : Nat → Edge → Nat) (w : Nat → Rat) (e : Edge)
    (hw0 : ∀ j, j < k → 0 ≤ w j) (i : Nat) (hi : i < k) : w i * (m i e : Rat) ≤ explainedM k m w e :=
  le_sum_of_mem (List.range k) (fun j => w j * (m j e : Rat))
    (fun j hj => Rat.mul_nonneg (hw0 j (List.mem_range.1 hj)) Rat.natCast_nonneg) i (List.mem_range.2 hi)

theorem kfdcFlow_sat (inp : WalkInput) (a : Asg)
    (m : Nat → Edge → Nat) (w : Nat → Rat)
    (hx : ∀ i, i < inp.k → ∀ e ∈ inp.st.g.edges, a (edgeVar e i) = (m i e : Rat))
    (hwv : ∀ i, i < inp.k → a (weightsVar i) = w i)
    (hpi : ∀ i, i < inp.k → ∀ e ∈ inp.st.g.edges,
      a (piVar e i) = if e ∈ inp.activeEdges false then w i * (m i e : Rat) else 0)
    (hbit : ∀ i, i < inp.k → ∀ e ∈ inp.activeEdges false, ∀ j,
      a (bitVar (kfdcProdName e i) j) = bitOf (m i e) j)
    (hcomp : ∀ i, i < inp.k → ∀ e ∈ inp.activeEdges false, ∀ j,
      a (compVar (kfdcProdName e i) j) = bitOf (m i e) j * w i)
    (hw : ∀ i, i < inp.k → 0 ≤ w i ∧ w i ≤ inp.wmax false ∧ (inp.weightInt = true → ∃ z : Int, w i = z))
    (hmb : ∀ i, i < inp.k → ∀ e ∈ inp.activeEdges false, (m i e : Rat) ≤ inp.wmax false)
    (hf : ∀ e ∈ inp.activeEdges false, inp.f e ≤ inp.wmax false)
    (hdec : ∀ e ∈ inp.activeEdges false, explainedM inp.k m w e = inp.f e) :
    Sat a (kfdcFlow inp) := by
  have hprod : ∀ e ∈ inp.activeEdges false, ∀ i, i < inp.k →
      Sat a (intProdQ (edgeVar e i) (weightsVar i) (piVar e i) 0 (inp.wmax false) (kfdcProdName e i)) := by
    intro e he i hi
    have hee : e ∈ inp.st.g.edges := (List.mem_filter.1 he).1
    apply intProdQ_sat_of_values a _ _ _ 0 (inp.wmax false) _ (m i e) (hx i hi e hee) (hmb i hi e he)
      Rat.le_refl
    · rw [hwv i hi]; exact ⟨(hw i hi).1, (hw i hi).2.1⟩
    · rw [hpi i hi e hee, if_pos he, hx i hi e hee, hwv i hi]; grind
    · exact hbit i hi e he
    · intro j; rw [hcomp i hi e he j, hwv i hi]
  constructor
  · intro col hcol
    simp only [kfdcFlow, List.mem_append] at hcol
    rcases hcol with (h | h) | h
    · -- pi columns
      obtain ⟨i, hi, h⟩ := List.mem_flatMap.1 h
      obtain ⟨e, he, rfl⟩ := List.mem_map.1 h
      have hi' := List.mem_range.1 hi
      simp only [Col.holds, hpi i hi' e he]
      by_cases hact : e ∈ inp.activeEdges false
      · simp only [hact, if_true]
        have h0 : 0 ≤ w i * (m i e : Rat) := Rat.mul_nonneg (hw i hi').1 Rat.natCast_nonneg
        refine ⟨h0, ?_, ?_⟩
        · intro u hu; cases hu
          have := sum_explainedM_term_le inp.k m w e (fun j hj => (hw j hj).1) i hi'
          rw [hdec e hact] at this
          exact Rat.le_trans this (hf e hact)
        · intro hint
          obtain ⟨z, hz⟩ := (hw i hi').2.2 hint
          refine ⟨z * (m i e : Int), ?_⟩
          rw [hz, Rat.intCast_mul, Rat.intCast_natCast]
      · simp only [hact, if_false]
        exact ⟨Rat.le_refl, fun u hu => by cases hu; exact Rat.le_trans (hw i hi').1 (hw i hi').2.1,
          fun _ => ⟨0, by simp⟩⟩
    · -- weight columns
      obtain ⟨i, hi, rfl⟩ := List.mem_map.1 h
      have hi' := List.mem_range.1 hi
      simp only [Col.holds, hwv i hi']
      exact ⟨(hw i hi').1, fun u hu => by cases hu; exact (hw i hi').2.1, (hw i hi').2.2⟩
    · -- columns of the product blocks
      simp only [walkProducts] at h
      obtain ⟨part, hpart, hc⟩ := List.mem_flatMap.1 h
      obtain ⟨e, he, hpart⟩ := List.mem_flatMap.1 hpart
      obtain ⟨i, hi, rfl⟩ := List.mem_map.1 hpart
      exact (hprod e he i (List.mem_range.1 hi)).1 col hc
  · intro r hr
    simp only [kfdcFlow, List.mem_append] at hr
    rcases hr with h | h
    · simp only [walkProducts] at h
      obtain ⟨part, hpart, hc⟩ := List.mem_flatMap.1 h
      obtain ⟨e, he, hpart⟩ := List.mem_flatMap.1 hpart
      obtain ⟨i, hi, rfl⟩ := List.mem_map.1 hpart
      exact (hprod e he i (List.mem_range.1 hi)).2 r hc
    · -- 10d
      obtain ⟨e, he, rfl⟩ := List.mem_map.1 h
      have hee : e ∈ inp.st.g.edges := (List.mem_filter.1 he).1
      apply rowEq_holds_p04
      rw [evalTerms_ones, ← hdec e he]
      unfold explainedM
      apply sum_map_congr
      intro i hi
      rw [hpi i (List.mem_range.1 hi) e hee, if_pos he]

/-! ## strings: the column-name prefixes are distinguishable -/

theorem str_ne_of_head (a b : String) (x y : Char) (as bs : List Char)
    (ha : a.toList = x :: as) (hb : b.toList = y :: bs) (hxy : x ≠ y) : a ≠ b := by
  intro h
  rw [h, hb] at ha
  exact hxy (List.cons.inj ha).1.symm

theorem binary_ne_comp (s t : String) : "binary_" ++ s ≠ "comp_" ++ t :=
  str_ne_of_head _ _ 'b' 'c' ("inary_".toList ++ s.toList) ("omp_".toList ++ t.toList)
    (by rw [String.toList_append]; rfl) (by rw [String.toList_append]; rfl) (by decide)

theorem binary_ne_weights (s : String) : "binary_" ++ s ≠ "weights" :=
  str_ne_of_head _ _ 'b' 'w' ("inary_".toList ++ s.toList) "eights".toList
    (by rw [String.toList_append]; rfl) rfl (by decide)

theorem comp_ne_weights (s : String) : "comp_" ++ s ≠ "weights" :=
  str_ne_of_head _ _ 'c' 'w' ("omp_".toList ++ s.toList) "eights".toList
    (by rw [String.toList_append]; rfl) rfl (by decide)

/-! ## the assignment -/

theorem mem_kfdcProds {inp : WalkInput} {e : Edge} {i : Nat} :
    (e, i) ∈ kfdcProds inp ↔ e ∈ inp.activeEdges false ∧ i < inp.k := by
  unfold kfdcProds
  constructor
  · intro h
    obtain ⟨e', he', h⟩ := List.mem_flatMap.1 h
    obtain ⟨i', hi', heq⟩ := List.mem_map.1 h
    cases heq
    exact ⟨he', List.mem_range.1 hi'⟩
  · rintro ⟨he, hi⟩
    exact List.mem_flatMap.2 ⟨e, he, List.mem_map.2 ⟨i, List.mem_range.2 hi, rfl⟩⟩

/-- the names of the product blocks are pairwise different -/
def NameInj (inp : WalkInput) : Prop :=
  ∀ p ∈ kfdcProds inp, ∀ q ∈ kfdcProds inp, kfdcProdName p.1 p.2 = kfdcProdName q.1 q.2 → p = q

section Asg
variable (inp : WalkInput) (m : Nat → Edge → Nat) (w : Nat → Rat) (sel : Nat → Edge → Bool)
  (dist : Nat → Node → Nat)

theorem kfdcAsg_edge (e : Edge) (i : Nat) : kfdcAsg inp m w sel dist (edgeVar e i) = (m i e : Rat) := by
  simp [kfdcAsg, kfdcBaseAsg, edgeVar]

theorem kfdcAsg_sel (e : Edge) (i : Nat) :
    kfdcAsg inp m w sel dist (selVar e i) = if sel i e then 1 else 0 := by
  simp [kfdcAsg, kfdcBaseAsg, selVar]

theorem kfdcAsg_used (e : Edge) (i : Nat) :
    kfdcAsg inp m w sel dist (usedVar e i) = if m i e = 0 then 0 else 1 := by
  simp [kfdcAsg, kfdcBaseAsg, usedVar]

theorem kfdcAsg_pi (e : Edge) (i : Nat) :
    kfdcAsg inp m w sel dist (piVar e i)
      = if e ∈ inp.activeEdges false then w i * (m i e : Rat) else 0 := by
  simp [kfdcAsg, kfdcBaseAsg, piVar]

theorem kfdcAsg_dist (v : Node) (i : Nat) : kfdcAsg inp m w sel dist (distVar v i) = (dist i v : Rat) := by
  simp [kfdcAsg, kfdcBaseAsg, distVar]

theorem kfdcAsg_r (i j : Nat) :
    kfdcAsg inp m w sel dist (rVar i j)
      = if coversB (m i) (inp.cfg.constraints.getD j []) inp.cfg.coverage then 1 else 0 := by
  simp [kfdcAsg, kfdcBaseAsg, rVar]

theorem find?_none_of_forall {α} (l : List α) (p : α → Bool) (h : ∀ x ∈ l, p x = false) :
    l.find? p = none := by
  apply List.find?_eq_none.2
  intro x hx
  simp [h x hx]

theorem find?_unique {α} (l : List α) (p : α → Bool) (x : α) (hx : x ∈ l) (hp : p x = true)
    (hu : ∀ y ∈ l, p y = true → y = x) : l.find? p = some x := by
  induction l with
  | nil => simp at hx
  | cons y ys ih =>
    rw [List.find?_cons]
    by_cases hy : p y = true
    · rw [hy]
      have := hu y (by simp) hy
      simp [this]
    · have hy' : p y = false := by simpa using hy
      rw [hy']
      apply ih
      · rcases List.mem_cons.1 hx with h | h
        · subst h; exact absurd hp hy
        · exact h
      · intro z hz; exact hu z (by simp [hz])

theorem kfdcAsg_weights (i : Nat) : kfdcAsg inp m w sel dist (weightsVar i) = w i := by
  unfold kfdcAsg weightsVar
  simp only
  rw [find?_none_of_forall _ _ (fun p _ => by
      have := binary_ne_weights (kfdcProdName p.1 p.2)
      simpa using fun h => this h.symm),
    find?_none_of_forall _ _ (fun p _ => by
      have := comp_ne_weights (kfdcProdName p.1 p.2)
      simpa using fun h => this h.symm)]
  simp [kfdcBaseAsg]

theorem kfdcAsg_bit (hinj : NameInj inp) (e : Edge) (i : Nat) (he : (e, i) ∈ kfdcProds inp) (j : Nat) :
    kfdcAsg inp m w sel dist (bitVar (kfdcProdName e i) j) = bitOf (m i e) j := by
  unfold kfdcAsg bitVar
  simp only
  rw [find?_unique (kfdcProds inp) _ (e, i) he (by simp) (fun q hq hqe => by
    have h1 : "binary_" ++ kfdcProdName e i = "binary_" ++ kfdcProdName q.1 q.2 := by simpa using hqe
    exact hinj q hq (e, i) he ((String.append_right_inj _).1 h1).symm)]

theorem kfdcAsg_comp (hinj : NameInj inp) (e : Edge) (i : Nat) (he : (e, i) ∈ kfdcProds inp) (j : Nat) :
    kfdcAsg inp m w sel dist (compVar (kfdcProdName e i) j) = bitOf (m i e) j * w i := by
  unfold kfdcAsg compVar
  simp only
  rw [find?_none_of_forall _ _ (fun p _ => by
      have := binary_ne_comp (kfdcProdName p.1 p.2) (kfdcProdName e i)
      simpa using fun h => this h.symm),
    find?_unique (kfdcProds inp) _ (e, i) he (by simp) (fun q hq hqe => by
      have h1 : "comp_" ++ kfdcProdName e i = "comp_" ++ kfdcProdName q.1 q.2 := by simpa using hqe
      exact hinj q hq (e, i) he ((String.append_right_inj _).1 h1).symm)]

end Asg

/-! ## the boolean checker is sound -/

theorem satCheck_sound (a : Asg) (lp : LP) (h : satCheck a lp = true) : Sat a lp := by
  unfold satCheck at h
  rw [Bool.and_eq_true] at h
  constructor
  · intro c hm
    have hc := List.all_eq_true.1 h.1 c hm
    unfold colOk at hc
    rw [Bool.and_eq_true, Bool.and_eq_true] at hc
    refine ⟨by simpa using hc.1.1, ?_, ?_⟩
    · intro u hu
      have h2 := hc.1.2
      rw [hu] at h2
      simpa using h2
    · intro hint
      have h3 := hc.2
      rw [hint] at h3
      exact ⟨(a c.v).floor, by simpa using h3⟩
  · intro r hm
    have hr := List.all_eq_true.1 h.2 r hm
    unfold rowOk at hr
    rw [Bool.and_eq_true] at hr
    constructor
    · intro l hl
      have h1 := hr.1
      rw [hl] at h1
      simpa using h1
    · intro u hu
      have h2 := hr.2
      rw [hu] at h2
      simpa using h2

/-! ## the theorem -/

/-- the hypotheses of completeness, for one instance -/
structure KfdcDecomp (inp : WalkInput) (m : Nat → Edge → Nat) (w : Nat → Rat)
    (sel : Nat → Edge → Bool) (dist : Nat → Node → Nat) : Prop where
  /-- per layer: conserved multiplicities leaving the source once, within the caps, with connectivity witnesses -/
  layer : ∀ i, i < inp.k → LayerWitness inp.st inp.cfg.allowEmpty (kfdcCap inp) (m i) (sel i) (dist i)
  /-- weights in `[0, w_max]`, integral for `weight_type = int` -/
  weights : ∀ i, i < inp.k → 0 ≤ w i ∧ w i ≤ inp.wmax false ∧ (inp.weightInt = true → ∃ z : Int, w i = z)
  /-- the multiplicities fit into the bits of the product blocks (`⌈log2(w_max + 1)⌉` bits) -/
  multBits : ∀ i, i < inp.k → ∀ e ∈ inp.activeEdges false, (m i e : Rat) ≤ inp.wmax false
  /-- flow values do not exceed `w_max` (true by definition of `w_max` for `k ≥ 1` and integer flows) -/
  flowLe : ∀ e ∈ inp.activeEdges false, inp.f e ≤ inp.wmax false
  /-- the decomposition itself -/
  explains : ∀ e ∈ inp.activeEdges false, explainedM inp.k m w e = inp.f e
  /-- every subset constraint is covered by some layer -/
  covered : ∀ j (hj : j < inp.cfg.constraints.length), ∃ i, i < inp.k ∧
    coversB (m i) inp.cfg.constraints[j] inp.cfg.coverage = true

theorem kfdc_complete_proof (inp : WalkInput) (m : Nat → Edge → Nat) (w : Nat → Rat)
    (sel : Nat → Edge → Bool) (dist : Nat → Node → Nat)
    (hwf : STWFc inp.st) (hsrc : inp.st.source ∈ inp.st.g.nodes) (hinj : NameInj inp)
    (h : KfdcDecomp inp m w sel dist) :
    Sat (kfdcAsg inp m w sel dist) (kfdcLP inp none) ∧
    (∀ i e, kfdcAsg inp m w sel dist (edgeVar e i) = (m i e : Rat)) ∧
    (∀ i, kfdcAsg inp m w sel dist (weightsVar i) = w i) := by
  refine ⟨?_, fun i e => kfdcAsg_edge inp m w sel dist e i, fun i => kfdcAsg_weights inp m w sel dist i⟩
  rw [kfdcLP_none]
  have hx : ∀ i, i < inp.k → ∀ e ∈ inp.st.g.edges,
      kfdcAsg inp m w sel dist (edgeVar e i) = (m i e : Rat) :=
    fun i _ e _ => kfdcAsg_edge inp m w sel dist e i
  refine sat_append_intro _ _ _ (sat_append_intro _ _ _ ?_ ?_) ?_
  · exact encodeWalks_sat inp.st inp.cfg (kfdcCap inp) _ hwf.edgesNodup hwf.closed hsrc m sel dist
      h.layer hx (fun i _ e _ => kfdcAsg_sel inp m w sel dist e i)
      (fun i _ v _ => kfdcAsg_dist inp m w sel dist v i)
  · apply subsetBlock_sat inp.st inp.cfg (kfdcCap inp) _ m (fun i hi => (h.layer i hi).cap) hx
      (fun i _ e => kfdcAsg_used inp m w sel dist e i)
    · intro i _ j hj
      rw [kfdcAsg_r]
      have : inp.cfg.constraints.getD j [] = inp.cfg.constraints[j] := by
        rw [List.getD_eq_getElem?_getD, List.getElem?_eq_getElem hj]; rfl
      rw [this]
    · exact h.covered
  · exact kfdcFlow_sat inp _ m w hx (fun i _ => kfdcAsg_weights inp m w sel dist i)
      (fun i _ e _ => kfdcAsg_pi inp m w sel dist e i)
      (fun i hi e he j => kfdcAsg_bit inp m w sel dist hinj e i (mem_kfdcProds.2 ⟨he, hi⟩) j)
      (fun i hi e he j => kfdcAsg_comp inp m w sel dist hinj e i (mem_kfdcProds.2 ⟨he, hi⟩) j)
      h.weights h.multBits h.flowLe h.explains

end FP
