import FP.Model.Width
import FP.Proofs.Augment
/-!
# FP.Proofs.CondWalkCoverNames — the node names of the expanded condensation, generic list facts

`str(k)`, `str(k) + "_expanded"`, `"source"`, `"sink"` are pairwise distinct and injective in `k`;
`dictOfWrites` returns the last value written to a key.
-/
namespace FP
open FP.Spec

theorem cwc_toDigits_inj (i j : Nat) (h : Nat.toDigits 10 i = Nat.toDigits 10 j) : i = j := by
  have h1 := @Nat.ofDigitChars_ten_toDigits i
  have h2 := @Nat.ofDigitChars_ten_toDigits j
  rw [h] at h1
  omega

theorem cwc_cname_toList (k : Nat) : (CondInput.cname k).toList = Nat.toDigits 10 k := by
  simp [CondInput.cname, Nat.toString_eq_repr, Nat.toList_repr]

theorem cwc_cexp_toList (k : Nat) :
    (CondInput.cexp k).toList = Nat.toDigits 10 k ++ "_expanded".toList := by
  simp [CondInput.cexp, Nat.toString_eq_repr, Nat.toList_repr, String.toList_append]

theorem cwc_cname_inj {i j : Nat} (h : CondInput.cname i = CondInput.cname j) : i = j := by
  have := congrArg String.toList h
  rw [cwc_cname_toList, cwc_cname_toList] at this
  exact cwc_toDigits_inj i j this

theorem cwc_cexp_inj {i j : Nat} (h : CondInput.cexp i = CondInput.cexp j) : i = j := by
  have := congrArg String.toList h
  rw [cwc_cexp_toList, cwc_cexp_toList] at this
  exact cwc_toDigits_inj i j (List.append_cancel_right this)

theorem cwc_underscore_cexp (k : Nat) : '_' ∈ (CondInput.cexp k).toList := by
  rw [cwc_cexp_toList]
  exact List.mem_append_right _ (by decide)

theorem cwc_cname_ne_cexp (i j : Nat) : CondInput.cname i ≠ CondInput.cexp j := by
  intro h
  have h1 := cwc_underscore_cexp j
  rw [← h, cwc_cname_toList] at h1
  exact Nat.underscore_not_in_toDigits h1

theorem cwc_cname_digit (k : Nat) : ∀ ch ∈ (CondInput.cname k).toList, ch.isDigit = true := by
  intro ch h
  rw [cwc_cname_toList] at h
  exact Nat.isDigit_of_mem_toDigits (by decide) (by decide) h

theorem cwc_cname_ne_src (k : Nat) : CondInput.cname k ≠ srcName := by
  intro h
  have := cwc_cname_digit k 's' (by rw [h]; decide)
  exact absurd this (by decide)

theorem cwc_cname_ne_snk (k : Nat) : CondInput.cname k ≠ snkName := by
  intro h
  have := cwc_cname_digit k 's' (by rw [h]; decide)
  exact absurd this (by decide)

theorem cwc_cexp_ne_src (k : Nat) : CondInput.cexp k ≠ srcName := by
  intro h
  have := cwc_underscore_cexp k
  rw [h] at this
  exact absurd this (by decide)

theorem cwc_cexp_ne_snk (k : Nat) : CondInput.cexp k ≠ snkName := by
  intro h
  have := cwc_underscore_cexp k
  rw [h] at this
  exact absurd this (by decide)

/-! ## generic list facts -/

theorem cwc_nodup_eraseDups {α} [BEq α] [LawfulBEq α] (l : List α) : l.eraseDups.Nodup := by
  suffices h : ∀ n, ∀ l : List α, l.length ≤ n → l.eraseDups.Nodup from h l.length l (Nat.le_refl _)
  intro n
  induction n with
  | zero =>
    intro l hl
    have : l = [] := List.eq_nil_of_length_eq_zero (Nat.le_zero.1 hl)
    subst this; simp
  | succ n ih =>
    intro l hl
    cases l with
    | nil => simp
    | cons a as =>
      rw [List.eraseDups_cons]
      apply List.nodup_cons.2
      constructor
      · intro h
        have := (List.mem_filter.1 (List.mem_eraseDups.1 h)).2
        simp at this
      · apply ih
        have := List.length_filter_le (fun b => !b == a) as
        simp at hl; omega

/-- a duplicate-free list all of whose members lie in `m` is no longer than `m` -/
theorem cwc_nodup_length_le {α} [DecidableEq α] :
    ∀ (l m : List α), l.Nodup → (∀ x ∈ l, x ∈ m) → l.length ≤ m.length := by
  intro l
  induction l with
  | nil => intro m _ _; simp
  | cons a l ih =>
    intro m hnd hsub
    have ha : a ∈ m := hsub a List.mem_cons_self
    have hnd' := List.nodup_cons.1 hnd
    have := ih (m.erase a) hnd'.2 (fun x hx => by
      have hne : x ≠ a := fun h => hnd'.1 (h ▸ hx)
      exact (List.mem_erase_of_ne hne).2 (hsub x (List.mem_cons_of_mem _ hx)))
    rw [List.length_erase_of_mem ha] at this
    have hpos : 0 < m.length := List.length_pos_of_mem ha
    simp only [List.length_cons]; omega

/-- strict monotonicity of `countP` -/
theorem cwc_countP_lt {α} (l : List α) (p q : α → Bool) (hpq : ∀ x ∈ l, p x = true → q x = true)
    (y : α) (hy : y ∈ l) (hq : q y = true) (hp : p y = false) : l.countP p < l.countP q := by
  induction l with
  | nil => simp at hy
  | cons a l ih =>
    have hle : l.countP p ≤ l.countP q := by
      clear ih hy
      induction l with
      | nil => simp
      | cons b l ih2 =>
        have hb := hpq b (by simp)
        have := ih2 (fun x hx => hpq x (by
          rcases List.mem_cons.1 hx with rfl | hx
          · simp
          · simp [hx]))
        simp only [List.countP_cons]
        by_cases h1 : p b = true
        · simp [h1, hb h1]; omega
        · simp [h1]; split <;> omega
    simp only [List.countP_cons]
    rcases List.mem_cons.1 hy with rfl | hy'
    · simp [hq, hp]; omega
    · have := ih (fun x hx => hpq x (List.mem_cons_of_mem _ hx)) hy'
      have ha := hpq a List.mem_cons_self
      by_cases h1 : p a = true
      · simp [h1, ha h1]; omega
      · simp [h1]; split <;> omega

/-! ## `dictOfWrites`: the last write wins -/

section Dict
variable {α β : Type} [BEq α] [LawfulBEq α]

theorem cwc_lookup_dictSet_self (d : List (α × β)) (k : α) (v : β) :
    (dictSet d k v).lookup k = some v := by
  unfold dictSet
  split
  · rename_i h
    induction d with
    | nil => simp at h
    | cons p d ih =>
      obtain ⟨pk, pv⟩ := p
      simp only [List.map_cons]
      by_cases hp : (pk == k) = true
      · simp [hp]
      · have hp' : (pk == k) = false := by simpa using hp
        have hk : (k == pk) = false := by
          simp only [beq_eq_false_iff_ne, ne_eq] at hp' ⊢
          exact fun h => hp' h.symm
        simp only [hp', Bool.false_eq_true, if_false, List.lookup_cons, hk]
        apply ih
        simpa [hp'] using h
  · rename_i h
    induction d with
    | nil => simp
    | cons p d ih =>
      obtain ⟨pk, pv⟩ := p
      have hp' : (pk == k) = false := by
        simp only [List.any_cons, Bool.or_eq_true, not_or] at h
        simpa using h.1
      have hk : (k == pk) = false := by
        simp only [beq_eq_false_iff_ne, ne_eq] at hp' ⊢
        exact fun h => hp' h.symm
      simp only [List.cons_append, List.lookup_cons, hk]
      apply ih
      simp only [List.any_cons, Bool.or_eq_true, not_or] at h
      simpa using h.2

theorem cwc_lookup_dictSet_ne (d : List (α × β)) (k k' : α) (v : β) (hne : k' ≠ k) :
    (dictSet d k' v).lookup k = d.lookup k := by
  have hk : (k == k') = false := by simpa using fun h => hne h.symm
  unfold dictSet
  split
  · rename_i h; clear h
    induction d with
    | nil => simp
    | cons p d ih =>
      obtain ⟨pk, pv⟩ := p
      simp only [List.map_cons]
      by_cases hp : (pk == k') = true
      · have hpk : pk = k' := by simpa using hp
        subst hpk
        simp only [BEq.rfl, if_true, List.lookup_cons, hk, ih]
      · have hp' : (pk == k') = false := by simpa using hp
        simp only [hp', Bool.false_eq_true, if_false, List.lookup_cons, ih]
  · rename_i h; clear h
    induction d with
    | nil => simp [List.lookup_cons, hk]
    | cons p d ih =>
      obtain ⟨pk, pv⟩ := p
      simp only [List.cons_append, List.lookup_cons, ih]

theorem cwc_lookup_foldl_ne (ws : List (α × β)) (d : List (α × β)) (k : α)
    (h : ∀ p ∈ ws, p.1 ≠ k) :
    (ws.foldl (fun d p => dictSet d p.1 p.2) d).lookup k = d.lookup k := by
  induction ws generalizing d with
  | nil => rfl
  | cons p ws ih =>
    simp only [List.foldl_cons]
    rw [ih _ (fun q hq => h q (List.mem_cons_of_mem _ hq)),
      cwc_lookup_dictSet_ne _ _ _ _ (h p List.mem_cons_self)]

/-- the value written last to `k` is what the dictionary holds -/
theorem cwc_dict_lookup_last (pre suf : List (α × β)) (k : α) (v : β) (h : ∀ p ∈ suf, p.1 ≠ k) :
    (dictOfWrites (pre ++ (k, v) :: suf)).lookup k = some v := by
  unfold dictOfWrites
  rw [List.foldl_append, List.foldl_cons, cwc_lookup_foldl_ne _ _ _ h, cwc_lookup_dictSet_self]

theorem cwc_lookup_map_self (l : List α) (g : α → β) (x : α) (hx : x ∈ l) :
    (l.map fun e => (e, g e)).lookup x = some (g x) := by
  induction l with
  | nil => simp at hx
  | cons y ys ih =>
    simp only [List.map_cons, List.lookup_cons]
    by_cases hxy : x = y
    · subst hxy; simp
    · have : (x == y) = false := by simpa using hxy
      simp only [this]
      exact ih (by simpa [hxy] using hx)

end Dict

end FP
