import FP.Proofs.ParserGraph
import FP.Proofs.ParserHeader
/-!
# FP.Proofs.Parser — lemmas behind property C20
-/
namespace FP.Parser
open FP.Spec.GraphFile
variable {S W Wd : Type} [DecidableEq S]

/-! ## the edge loop -/

omit [DecidableEq S] in
@[simp] theorem lineEdge_header (o : Oracles S W Wd) (t : S) : lineEdge o (.header t) = none := rfl
omit [DecidableEq S] in
@[simp] theorem lineEdge_subpath (o : Oracles S W Wd) (t : List S) : lineEdge o (.subpath t) = none := rfl
omit [DecidableEq S] in
@[simp] theorem lineEdge_blank (o : Oracles S W Wd) : lineEdge o (.blank : Line S) = none := rfl
omit [DecidableEq S] in
@[simp] theorem lineEdge_data3 (o : Oracles S W Wd) (t u v ws : S) :
    lineEdge o (.data t [u, v, ws]) = (o.parseFloat ws).map fun w => (u, v, w) := rfl

theorem parseEdges_cons_skip (o : Oracles S W Wd) (l : Line S) (rest : List (Line S)) (g : Gr S W)
    (h : ∀ t toks, l ≠ .data t toks) : parseEdges o (l :: rest) g = parseEdges o rest g := by
  cases l with
  | data t toks => exact absurd rfl (h t toks)
  | header t => simp [parseEdges]
  | subpath t => simp [parseEdges]
  | blank => simp [parseEdges]

theorem parseEdges_good (o : Oracles S W Wd) (body : List (Line S)) (g : Gr S W)
    (h : ∀ l ∈ body, lineBad o l = false) :
    parseEdges o body g = .ok (addEdges g (lineEdges o body)) := by
  induction body generalizing g with
  | nil => simp [parseEdges, lineEdges, addEdges]
  | cons l rest ih =>
    have hrest : ∀ l ∈ rest, lineBad o l = false := fun l hl => h l (List.mem_cons_of_mem _ hl)
    have hl := h l (List.mem_cons_self ..)
    cases l with
    | header t => rw [parseEdges_cons_skip _ _ _ _ (by simp), ih _ hrest]; simp [lineEdges, List.filterMap_cons]
    | subpath t => rw [parseEdges_cons_skip _ _ _ _ (by simp), ih _ hrest]; simp [lineEdges, List.filterMap_cons]
    | blank => rw [parseEdges_cons_skip _ _ _ _ (by simp), ih _ hrest]; simp [lineEdges, List.filterMap_cons]
    | data t toks =>
      match toks, hl with
      | [], hl => simp [lineBad, lineEdge] at hl
      | [_], hl => simp [lineBad, lineEdge] at hl
      | [_, _], hl => simp [lineBad, lineEdge] at hl
      | _ :: _ :: _ :: _ :: _, hl => simp [lineBad, lineEdge] at hl
      | [u, v, ws], hl =>
        simp only [lineBad, lineEdge, Option.isNone_map] at hl
        cases hw : o.parseFloat ws with
        | none => simp [hw] at hl
        | some w =>
          simp only [parseEdges, hw]
          rw [ih _ hrest]
          simp [lineEdges, hw, addEdges]

theorem parseEdges_bad (o : Oracles S W Wd) (body : List (Line S)) (g : Gr S W)
    (h : ∃ l ∈ body, lineBad o l = true) : ∃ e, parseEdges o body g = .error e := by
  induction body generalizing g with
  | nil => obtain ⟨l, hl, _⟩ := h; cases hl
  | cons l rest ih =>
    by_cases hl : lineBad o l = true
    · cases l with
      | header t => simp [lineBad] at hl
      | subpath t => simp [lineBad] at hl
      | blank => simp [lineBad] at hl
      | data t toks =>
        match toks, hl with
        | [], _ => exact ⟨.badEdgeFormat, by simp [parseEdges]⟩
        | [_], _ => exact ⟨.badEdgeFormat, by simp [parseEdges]⟩
        | [_, _], _ => exact ⟨.badEdgeFormat, by simp [parseEdges]⟩
        | _ :: _ :: _ :: _ :: _, _ => exact ⟨.badEdgeFormat, by simp [parseEdges]⟩
        | [u, v, ws], hl =>
          simp only [lineBad, lineEdge, Option.isNone_map] at hl
          cases hw : o.parseFloat ws with
          | none => exact ⟨.badWeight, by simp [parseEdges, hw]⟩
          | some w => simp [hw] at hl
    · have hrest : ∃ l ∈ rest, lineBad o l = true := by
        obtain ⟨l', hl', hb⟩ := h
        rcases List.mem_cons.1 hl' with rfl | hm
        · exact absurd hb hl
        · exact ⟨l', hm, hb⟩
      cases l with
      | header t => rw [parseEdges_cons_skip _ _ _ _ (by simp)]; exact ih _ hrest
      | subpath t => rw [parseEdges_cons_skip _ _ _ _ (by simp)]; exact ih _ hrest
      | blank => rw [parseEdges_cons_skip _ _ _ _ (by simp)]; exact ih _ hrest
      | data t toks =>
        match toks, hl with
        | [], hl => simp [lineBad, lineEdge] at hl
        | [_], hl => simp [lineBad, lineEdge] at hl
        | [_, _], hl => simp [lineBad, lineEdge] at hl
        | _ :: _ :: _ :: _ :: _, hl => simp [lineBad, lineEdge] at hl
        | [u, v, ws], hl =>
          simp only [lineBad, lineEdge, Option.isNone_map] at hl
          cases hw : o.parseFloat ws with
          | none => simp [hw] at hl
          | some w =>
            simp only [parseEdges, hw]
            exact ih _ hrest

/-- the edge loop succeeds exactly when no line is bad, and then it has inserted the listed edges in order -/
theorem parseEdges_ok_iff (o : Oracles S W Wd) (body : List (Line S)) (g g' : Gr S W) :
    parseEdges o body g = .ok g' ↔
      (∀ l ∈ body, lineBad o l = false) ∧ g' = addEdges g (lineEdges o body) := by
  constructor
  · intro h
    have hg : ∀ l ∈ body, lineBad o l = false := by
      intro l hl
      cases hb : lineBad o l with
      | false => rfl
      | true =>
        obtain ⟨e, he⟩ := parseEdges_bad o body g ⟨l, hl, hb⟩
        rw [he] at h; cases h
    refine ⟨hg, ?_⟩
    rw [parseEdges_good o body g hg] at h
    exact (Except.ok.inj h).symm
  · rintro ⟨hg, rfl⟩
    exact parseEdges_good o body g hg

/-! ## `read_graph`, case by case -/

theorem readGraph_missing (o : Oracles S W Wd) (ls : List (Line S)) (h : countPart ls = []) :
    readGraph o ls = .error .missingCount := by
  simp only [readGraph, h]

theorem readGraph_badCount (o : Oracles S W Wd) (ls : List (Line S)) (cl : Line S) (body : List (Line S))
    (h : countPart ls = cl :: body) (hc : cl.countVal o = none) :
    readGraph o ls = .error .badCount := by
  simp only [readGraph, h, hc]

theorem readGraph_zero (o : Oracles S W Wd) (ls : List (Line S)) (cl : Line S) (body : List (Line S))
    (h : countPart ls = cl :: body) (hc : cl.countVal o = some 0) :
    readGraph o ls =
      if !(scanHeader (hashPart ls)).cons.isEmpty then .error .zeroWithConstraints
      else if body.any Line.isData then .error .zeroWithData
      else .ok { nodes := [], edges := [], id := (scanHeader (hashPart ls)).headers.head?,
                 constraints := (scanHeader (hashPart ls)).cons,
                 n := some 0, m := some 0, w := some o.zeroWidth } := by
  simp only [readGraph, h, hc, if_true]

/-- what `read_graph` does after the edge loop -/
def finish (o : Oracles S W Wd) (st : Hdr S) : Except PErr (Gr S W) → Except PErr (PGraph S W Wd)
  | .error e => .error e
  | .ok g =>
    if st.cons.all (fun c => c.all fun e => g.hasEdge e.1 e.2) then
      if g.hasSource && g.hasSink then
        .ok { nodes := g.nodes, edges := g.edges, id := st.headers.head?, constraints := st.cons,
              n := some g.nodes.length, m := some g.edges.length, w := some (o.width g.nodes g.edges) }
      else .error .noSourceOrSink
    else .error .constraintEdgeMissing

theorem readGraph_nonzero (o : Oracles S W Wd) (ls : List (Line S)) (cl : Line S) (body : List (Line S))
    (n : Int) (h : countPart ls = cl :: body) (hc : cl.countVal o = some n) (hn : n ≠ 0) :
    readGraph o ls = finish o (scanHeader (hashPart ls)) (parseEdges o body {}) := by
  simp only [readGraph, h, hc, hn, if_false, finish]
  cases parseEdges o body {} <;> rfl

/-! ## rendered blocks -/

omit [DecidableEq S] in
theorem takeWhile_nil_of_all_neg {α : Type} (p : α → Bool) (l r : List α) (hne : l ≠ [])
    (h : ∀ x ∈ l, p x = false) : (l ++ r).takeWhile p = [] := by
  cases l with
  | nil => exact absurd rfl hne
  | cons a t =>
    have := h a (List.mem_cons_self ..)
    simp [this]

omit [DecidableEq S] in
theorem dropWhile_self_of_all_neg {α : Type} (p : α → Bool) (l r : List α) (hne : l ≠ [])
    (h : ∀ x ∈ l, p x = false) : (l ++ r).dropWhile p = l ++ r := by
  cases l with
  | nil => exact absurd rfl hne
  | cons a t =>
    have := h a (List.mem_cons_self ..)
    simp [this]

/-- a block after its `#` lines -/
def tailPart (b : BlockDesc S) : List (Line S) :=
  List.replicate b.blanks Line.blank ++ (Line.data b.countText b.countTokens :: b.body.map BodyItem.toLine)

omit [DecidableEq S] in
theorem renderBlock_eq (b : BlockDesc S) : renderBlock b = b.hashes.map HashLine.toLine ++ tailPart b := rfl

omit [DecidableEq S] in
theorem toLine_isHash (h : HashLine S) : h.toLine.isHash = true := by cases h <;> rfl

omit [DecidableEq S] in
theorem bodyToLine_notHash (it : BodyItem S) : it.toLine.isHash = false := by cases it <;> rfl

omit [DecidableEq S] in
theorem hashes_all (b : BlockDesc S) : ∀ l ∈ b.hashes.map HashLine.toLine, l.isHash = true := by
  intro l hl
  obtain ⟨h, _, rfl⟩ := List.mem_map.1 hl
  exact toLine_isHash h

omit [DecidableEq S] in
theorem tailPart_all (b : BlockDesc S) : ∀ l ∈ tailPart b, l.isHash = false := by
  intro l hl
  simp only [tailPart, List.mem_append, List.mem_replicate, List.mem_cons, List.mem_map] at hl
  rcases hl with ⟨_, rfl⟩ | rfl | ⟨it, _, rfl⟩
  · rfl
  · rfl
  · exact bodyToLine_notHash it

omit [DecidableEq S] in
theorem tailPart_ne_nil (b : BlockDesc S) : tailPart b ≠ [] := by
  simp [tailPart]

omit [DecidableEq S] in
theorem hashPart_render (b : BlockDesc S) : hashPart (renderBlock b) = b.hashes.map HashLine.toLine := by
  rw [hashPart, renderBlock_eq, List.takeWhile_append_of_pos (hashes_all b)]
  have := takeWhile_nil_of_all_neg Line.isHash (tailPart b) [] (tailPart_ne_nil b) (tailPart_all b)
  rw [List.append_nil] at this
  rw [this, List.append_nil]

omit [DecidableEq S] in
theorem countPart_render (b : BlockDesc S) :
    countPart (renderBlock b) = Line.data b.countText b.countTokens :: b.body.map BodyItem.toLine := by
  rw [countPart, renderBlock_eq, List.dropWhile_append_of_pos (hashes_all b)]
  have := dropWhile_self_of_all_neg Line.isHash (tailPart b) [] (tailPart_ne_nil b) (tailPart_all b)
  rw [List.append_nil] at this
  rw [this, tailPart, List.dropWhile_append_of_pos]
  · rfl
  · intro l hl
    rw [(List.mem_replicate.1 hl).2]; rfl

omit [DecidableEq S] in
theorem lineHeaders_render (hs : List (HashLine S)) :
    lineHeaders (hs.map HashLine.toLine) = hs.filterMap fun
      | .header t => some t
      | .subpath _ => none := by
  induction hs with
  | nil => rfl
  | cons h t ih => cases h <;> simp [lineHeaders, HashLine.toLine, ih]

omit [DecidableEq S] in
theorem lineSeqs_render (hs : List (HashLine S)) :
    lineSeqs (hs.map HashLine.toLine) = hs.filterMap fun
      | .subpath t => some t
      | .header _ => none := by
  induction hs with
  | nil => rfl
  | cons h t ih => cases h <;> simp [lineSeqs, HashLine.toLine, ih]

/-- the header loop on a rendered block yields exactly what the description says -/
theorem scanHeader_render (b : BlockDesc S) :
    (scanHeader (hashPart (renderBlock b))).headers = headerTexts b ∧
    (scanHeader (hashPart (renderBlock b))).cons = constraintsOf b := by
  rw [hashPart_render]
  obtain ⟨h1, h2⟩ := scanHeader_spec (b.hashes.map HashLine.toLine)
  rw [h1, h2, lineHeaders_render, lineSeqs_render]
  exact ⟨rfl, rfl⟩

omit [DecidableEq S] in
theorem body_good (o : Oracles S W Wd) (body : List (BodyItem S)) (h : ∀ it ∈ body, it.weightOk o = true) :
    ∀ l ∈ body.map BodyItem.toLine, lineBad o l = false := by
  intro l hl
  obtain ⟨it, hit, rfl⟩ := List.mem_map.1 hl
  have := h it hit
  cases it with
  | blank => rfl
  | edge t u v wt =>
    simp only [BodyItem.weightOk] at this
    simp only [BodyItem.toLine, lineBad, lineEdge_data3, Option.isNone_map]
    cases hw : o.parseFloat wt with
    | none => simp [hw] at this
    | some w => rfl

omit [DecidableEq S] in
theorem lineEdges_render' (o : Oracles S W Wd) (body : List (BodyItem S)) :
    lineEdges o (body.map BodyItem.toLine) = body.filterMap fun
      | .edge _ u v wt => (o.parseFloat wt).map fun w => (u, v, w)
      | .blank => none := by
  induction body with
  | nil => rfl
  | cons it t ih =>
    simp only [lineEdges] at ih
    cases it with
    | blank =>
      simp only [lineEdges, List.map_cons, BodyItem.toLine, List.filterMap_cons, lineEdge_blank]
      exact ih
    | edge t u v wt =>
      simp only [lineEdges, List.map_cons, BodyItem.toLine, List.filterMap_cons, lineEdge_data3]
      cases o.parseFloat wt with
      | none => exact ih
      | some w => simp only [Option.map_some]; rw [ih]

omit [DecidableEq S] in
theorem lineEdges_render (o : Oracles S W Wd) (b : BlockDesc S) :
    lineEdges o (b.body.map BodyItem.toLine) = listedEdges o b := lineEdges_render' o b.body

/-- `read_graph` on a rendered well-formed block returns the described graph -/
theorem readGraph_render (o : Oracles S W Wd) (b : BlockDesc S) (h : WFBlock o b) :
    readGraph o (renderBlock b) = .ok (graphOf o b) := by
  obtain ⟨_, hcount, hw, hcons, hz⟩ := h
  obtain ⟨hH, hC⟩ := scanHeader_render b
  cases hn : o.parseInt b.countText with
  | none => simp [hn] at hcount
  | some n =>
    have hcv : (Line.data b.countText b.countTokens).countVal o = some n := hn
    by_cases h0 : n = 0
    · subst h0
      have hzero : isZero o b = true := by simp [isZero, hn]
      rw [if_pos hzero] at hz
      obtain ⟨hce, hbl⟩ := hz
      have hl : listedEdges o b = [] := by
        unfold listedEdges
        apply List.filterMap_eq_nil_iff.2
        intro it hit
        have := List.all_eq_true.1 hbl it hit
        cases it with
        | blank => rfl
        | edge t u v w => simp [BodyItem.isBlank] at this
      have hnd : (b.body.map BodyItem.toLine).any Line.isData = false := by
        rw [List.any_eq_false]
        intro l hl'
        obtain ⟨it, hit, rfl⟩ := List.mem_map.1 hl'
        have := List.all_eq_true.1 hbl it hit
        cases it with
        | blank => simp [BodyItem.toLine, Line.isData, Line.isBlank]
        | edge t u v w => simp [BodyItem.isBlank] at this
      rw [readGraph_zero o _ _ _ (countPart_render b) hcv, hC, hH, hnd]
      simp [graphOf, hzero, hl, buildGraph, hce]
    · have hzero : isZero o b = false := by
        simp only [isZero, hn, decide_eq_false_iff_not]
        intro h; exact h0 (Option.some.inj h)
      rw [hzero] at hz
      simp only [Bool.false_eq_true, if_false] at hz
      rw [readGraph_nonzero o _ _ _ n (countPart_render b) hcv h0,
        parseEdges_good o _ _ (body_good o b.body hw), lineEdges_render, ← buildGraph_eq]
      simp only [finish, hH, hC]
      have hall : (constraintsOf b).all (fun c => c.all fun e =>
          (buildGraph (listedEdges o b)).hasEdge e.1 e.2) = true := by
        rw [List.all_eq_true]; intro c hc
        rw [List.all_eq_true]; intro e he
        rw [buildGraph_eq, addEdges_hasEdge]
        exact Or.inr (hcons c hc e he)
      simp only [hall, hz.1, hz.2, if_true, Bool.and_self]
      simp [graphOf, hzero]

/-! ## block splitting -/

/-- `not line.lstrip().startswith('#')` -/
abbrev notHash : Line S → Bool := fun l => !l.isHash

omit [DecidableEq S] in
theorem dropWhile_head_neg {α : Type} (p : α → Bool) (l : List α) (a : α) (t : List α)
    (h : l.dropWhile p = a :: t) : p a = false := by
  induction l with
  | nil => cases h
  | cons x xs ih =>
    by_cases hx : p x = true
    · rw [List.dropWhile_cons_of_pos hx] at h; exact ih h
    · rw [List.dropWhile_cons_of_neg hx] at h
      cases h
      simpa using hx

omit [DecidableEq S] in
theorem dropWhile_idem {α : Type} (p : α → Bool) (l : List α) :
    (l.dropWhile p).dropWhile p = l.dropWhile p := by
  cases h : l.dropWhile p with
  | nil => rfl
  | cons a t =>
    have := dropWhile_head_neg p l a t h
    rw [List.dropWhile_cons_of_neg (by simp [this])]

omit [DecidableEq S] in
theorem length_dropWhile_le {α : Type} (p : α → Bool) (l : List α) : (l.dropWhile p).length ≤ l.length :=
  (List.dropWhile_sublist p).length_le

omit [DecidableEq S] in
theorem splitBlocks_succ_nil (fuel : Nat) (ls : List (Line S)) (h : ls.dropWhile notHash = []) :
    splitBlocks (fuel + 1) ls = [] := by
  simp only [splitBlocks]
  rw [show List.dropWhile (fun l => !l.isHash) ls = [] from h]

omit [DecidableEq S] in
theorem splitBlocks_succ_cons (fuel : Nat) (ls ls' : List (Line S)) (h : ls.dropWhile notHash = ls')
    (hne : ls' ≠ []) :
    splitBlocks (fuel + 1) ls =
      (ls'.takeWhile Line.isHash ++ (ls'.dropWhile Line.isHash).takeWhile notHash)
        :: splitBlocks fuel ((ls'.dropWhile Line.isHash).dropWhile notHash) := by
  cases ls' with
  | nil => exact absurd rfl hne
  | cons a t =>
    simp only [splitBlocks]
    rw [show List.dropWhile (fun l => !l.isHash) ls = a :: t from h]

omit [DecidableEq S] in
/-- splitting loses nothing but the lines before the first `#` line (in particular `length + 1`
units of fuel never run out) -/
theorem splitBlocks_flatten (fuel : Nat) (ls : List (Line S)) (h : ls.length < fuel) :
    (splitBlocks fuel ls).flatten = ls.dropWhile notHash := by
  induction fuel generalizing ls with
  | zero => omega
  | succ fuel ih =>
    cases hd : ls.dropWhile notHash with
    | nil => rw [splitBlocks_succ_nil fuel ls hd]; rfl
    | cons a t =>
      rw [splitBlocks_succ_cons fuel ls (a :: t) hd (by simp), List.flatten_cons]
      have ha : a.isHash = true := by
        have := dropWhile_head_neg notHash ls a t hd
        simpa [notHash] using this
      have hlen : (a :: t).length ≤ ls.length := hd ▸ length_dropWhile_le notHash ls
      have h1 : ((a :: t).dropWhile Line.isHash).length ≤ t.length := by
        rw [List.dropWhile_cons_of_pos ha]; exact length_dropWhile_le _ _
      have h2 := length_dropWhile_le notHash ((a :: t).dropWhile Line.isHash)
      simp only [List.length_cons] at hlen
      rw [ih _ (by omega), dropWhile_idem, List.append_assoc, List.takeWhile_append_dropWhile,
        List.takeWhile_append_dropWhile]

omit [DecidableEq S] in
theorem splitBlocks_fuel (f1 f2 : Nat) (ls : List (Line S)) (h1 : ls.length < f1) (h2 : ls.length < f2) :
    splitBlocks f1 ls = splitBlocks f2 ls := by
  induction f1 generalizing f2 ls with
  | zero => omega
  | succ f1 ih =>
    cases f2 with
    | zero => omega
    | succ f2 =>
      cases hd : ls.dropWhile notHash with
      | nil => rw [splitBlocks_succ_nil f1 ls hd, splitBlocks_succ_nil f2 ls hd]
      | cons a t =>
        rw [splitBlocks_succ_cons f1 ls (a :: t) hd (by simp), splitBlocks_succ_cons f2 ls (a :: t) hd (by simp)]
        have ha : a.isHash = true := by
          have := dropWhile_head_neg notHash ls a t hd
          simpa [notHash] using this
        have hlen : (a :: t).length ≤ ls.length := hd ▸ length_dropWhile_le notHash ls
        have h3 : ((a :: t).dropWhile Line.isHash).length ≤ t.length := by
          rw [List.dropWhile_cons_of_pos ha]; exact length_dropWhile_le _ _
        have h4 := length_dropWhile_le notHash ((a :: t).dropWhile Line.isHash)
        simp only [List.length_cons] at hlen
        rw [ih f2 _ (by omega) (by omega)]

omit [DecidableEq S] in
theorem splitBlocks_leading (fuel : Nat) (junk ls : List (Line S)) (hj : ∀ l ∈ junk, l.isHash = false) :
    splitBlocks (fuel + 1) (junk ++ ls) = splitBlocks (fuel + 1) ls := by
  have hd : (junk ++ ls).dropWhile notHash = ls.dropWhile notHash :=
    List.dropWhile_append_of_pos (fun l hl => by simp [notHash, hj l hl])
  cases h : ls.dropWhile notHash with
  | nil => rw [splitBlocks_succ_nil _ _ (hd.trans h), splitBlocks_succ_nil _ _ h]
  | cons a t =>
    rw [splitBlocks_succ_cons _ _ (a :: t) (hd.trans h) (by simp), splitBlocks_succ_cons _ _ (a :: t) h (by simp)]

omit [DecidableEq S] in
theorem flatMap_render_head (bs : List (BlockDesc S)) (hne : ∀ b ∈ bs, b.hashes ≠ []) :
    (bs.flatMap renderBlock).takeWhile notHash = [] ∧
    (bs.flatMap renderBlock).dropWhile notHash = bs.flatMap renderBlock := by
  cases bs with
  | nil => exact ⟨rfl, rfl⟩
  | cons b bs' =>
    have hb := hne b (List.mem_cons_self ..)
    cases hh : b.hashes with
    | nil => exact absurd hh hb
    | cons h0 H =>
      have : (b :: bs').flatMap renderBlock =
          h0.toLine :: (H.map HashLine.toLine ++ tailPart b ++ bs'.flatMap renderBlock) := by
        simp [List.flatMap_cons, renderBlock_eq, hh]
      rw [this]
      have hn : ¬ notHash h0.toLine = true := by simp [notHash, toLine_isHash]
      exact ⟨List.takeWhile_cons_of_neg hn, List.dropWhile_cons_of_neg hn⟩

omit [DecidableEq S] in
theorem length_flatMap_render (bs : List (BlockDesc S)) : bs.length ≤ (bs.flatMap renderBlock).length := by
  induction bs with
  | nil => simp
  | cons b t ih =>
    have : 1 ≤ (renderBlock b).length := by
      simp only [renderBlock, List.length_append, List.length_cons]; omega
    simp only [List.flatMap_cons, List.length_append, List.length_cons]; omega

omit [DecidableEq S] in
/-- the splitting loop cuts a rendered file exactly at the block boundaries -/
theorem splitBlocks_render (bs : List (BlockDesc S)) (fuel k : Nat) (h : bs.length < fuel)
    (hne : ∀ b ∈ bs, b.hashes ≠ []) :
    splitBlocks fuel (List.replicate k Line.blank ++ bs.flatMap renderBlock) = bs.map renderBlock := by
  induction bs generalizing fuel k with
  | nil =>
    cases fuel with
    | zero => simp at h
    | succ fuel =>
      apply splitBlocks_succ_nil
      simp only [List.flatMap_nil, List.append_nil]
      rw [List.dropWhile_replicate]; simp [notHash, Line.isHash]
  | cons b bs' ih =>
    cases fuel with
    | zero => simp at h
    | succ fuel =>
      have hne' : ∀ b ∈ bs', b.hashes ≠ [] := fun b hb => hne b (List.mem_cons_of_mem _ hb)
      obtain ⟨hY1, hY2⟩ := flatMap_render_head bs' hne'
      have hX := (flatMap_render_head (b :: bs') hne).2
      have hd : (List.replicate k Line.blank ++ (b :: bs').flatMap renderBlock).dropWhile notHash =
          (b :: bs').flatMap renderBlock := by
        rw [List.dropWhile_append_of_pos, hX]
        intro l hl; rw [(List.mem_replicate.1 hl).2]; rfl
      have hne2 : (b :: bs').flatMap renderBlock ≠ [] := by
        have := length_flatMap_render (b :: bs')
        intro h0; rw [h0] at this; simp at this
      rw [splitBlocks_succ_cons fuel _ _ hd hne2]
      have hform : (b :: bs').flatMap renderBlock =
          b.hashes.map HashLine.toLine ++ (tailPart b ++ bs'.flatMap renderBlock) := by
        simp [List.flatMap_cons, renderBlock_eq]
      have htw : ((b :: bs').flatMap renderBlock).takeWhile Line.isHash = b.hashes.map HashLine.toLine := by
        rw [hform, List.takeWhile_append_of_pos (hashes_all b),
          takeWhile_nil_of_all_neg _ _ _ (tailPart_ne_nil b) (tailPart_all b), List.append_nil]
      have hdw : ((b :: bs').flatMap renderBlock).dropWhile Line.isHash =
          tailPart b ++ bs'.flatMap renderBlock := by
        rw [hform, List.dropWhile_append_of_pos (hashes_all b),
          dropWhile_self_of_all_neg _ _ _ (tailPart_ne_nil b) (tailPart_all b)]
      have hnh : ∀ l ∈ tailPart b, notHash l = true := fun l hl => by simp [notHash, tailPart_all b l hl]
      rw [htw, hdw, List.takeWhile_append_of_pos hnh, hY1, List.append_nil,
        List.dropWhile_append_of_pos hnh, hY2]
      have := ih fuel 0 (by simp only [List.length_cons] at h; omega) hne'
      simp only [List.replicate_zero, List.nil_append] at this
      rw [this]
      rfl

/-- `read_graphs` on a rendered file whose blocks are all well-formed -/
theorem readBlocks_render (o : Oracles S W Wd) (bs : List (BlockDesc S)) (h : ∀ b ∈ bs, WFBlock o b) :
    readBlocks o (bs.map renderBlock) = .ok (bs.map (graphOf o)) := by
  induction bs with
  | nil => rfl
  | cons b t ih =>
    simp only [List.map_cons, readBlocks, readGraph_render o b (h b (List.mem_cons_self ..)),
      ih (fun b hb => h b (List.mem_cons_of_mem _ hb))]

theorem readGraphs_render (o : Oracles S W Wd) (d : FileDesc S) (h : ∀ b ∈ d.blocks, WFBlock o b) :
    readGraphs o (render d) = .ok (d.blocks.map (graphOf o)) := by
  unfold readGraphs render
  rw [splitBlocks_render d.blocks _ d.lead ?_ (fun b hb => (h b hb).1)]
  · exact readBlocks_render o d.blocks h
  · have := length_flatMap_render d.blocks
    simp only [List.length_append, List.length_replicate]; omega

theorem readGraphs_leading (o : Oracles S W Wd) (junk ls : List (Line S)) (hj : ∀ l ∈ junk, l.isHash = false) :
    readGraphs o (junk ++ ls) = readGraphs o ls := by
  unfold readGraphs
  rw [splitBlocks_leading _ junk ls hj, splitBlocks_fuel ((junk ++ ls).length + 1) (ls.length + 1) ls]
  · simp only [List.length_append]; omega
  · omega

theorem readGraphs_noHash (o : Oracles S W Wd) (ls : List (Line S)) (h : ∀ l ∈ ls, l.isHash = false) :
    readGraphs o ls = .ok [] := by
  have := readGraphs_leading o ls [] h
  rw [List.append_nil] at this
  rw [this]; rfl

/-! ## malformed blocks -/

omit [DecidableEq S] in
theorem lineBad_of_length (o : Oracles S W Wd) (t : S) (toks : List S) (h : toks.length ≠ 3) :
    lineBad o (.data t toks) = true := by
  match toks, h with
  | [], _ => rfl
  | [_], _ => rfl
  | [_, _], _ => rfl
  | [_, _, _], h => exact absurd rfl h
  | _ :: _ :: _ :: _ :: _, _ => rfl

omit [DecidableEq S] in
theorem lineBad_of_weight (o : Oracles S W Wd) (t u v ws : S) (h : o.parseFloat ws = none) :
    lineBad o (.data t [u, v, ws]) = true := by
  simp [lineBad, h]

omit [DecidableEq S] in
theorem mem_lineSeqs (hs : List (Line S)) (toks : List S) : toks ∈ lineSeqs hs ↔ Line.subpath toks ∈ hs := by
  induction hs with
  | nil => simp [lineSeqs]
  | cons l r ih => cases l <;> simp [lineSeqs, ih]

omit [DecidableEq S] in
theorem mem_lineEdges_key (o : Oracles S W Wd) (body : List (Line S)) (a b : S)
    (h : (a, b) ∈ (lineEdges o body).map key) : ∃ t ws, Line.data t [a, b, ws] ∈ body := by
  obtain ⟨e, he, hk⟩ := List.mem_map.1 h
  obtain ⟨l, hl, hle⟩ := List.mem_filterMap.1 he
  cases l with
  | header t => simp at hle
  | subpath t => simp at hle
  | blank => simp at hle
  | data t toks =>
    match toks, hle with
    | [], hle => simp [lineEdge] at hle
    | [_], hle => simp [lineEdge] at hle
    | [_, _], hle => simp [lineEdge] at hle
    | _ :: _ :: _ :: _ :: _, hle => simp [lineEdge] at hle
    | [u, v, ws], hle =>
      simp only [lineEdge_data3, Option.map_eq_some_iff] at hle
      obtain ⟨w, _, rfl⟩ := hle
      simp only [key] at hk
      have h1 : u = a := (Prod.mk.inj hk).1
      have h2 : v = b := (Prod.mk.inj hk).2
      subst h1; subst h2
      exact ⟨t, ws, hl⟩

/-- a `#S` line of the header with consecutive nodes `a b` yields a constraint containing `(a, b)` -/
theorem mem_cons_of_subpath (hs : List (Line S)) (toks : List S) (a b : S)
    (h : Line.subpath toks ∈ hs) (he : (a, b) ∈ toks.zip toks.tail) :
    ∃ c ∈ (scanHeader hs).cons, (a, b) ∈ c := by
  rw [(scanHeader_spec hs).2]
  refine ⟨toks.zip toks.tail, ?_, he⟩
  simp only [consOfSeqs, List.mem_map, List.mem_filter, List.mem_eraseDups, decide_eq_true_eq]
  refine ⟨toks, ⟨(mem_lineSeqs hs toks).2 h, ?_⟩, rfl⟩
  apply Classical.byContradiction
  intro h2
  rw [(zip_tail_eq_nil toks).2 h2] at he
  cases he

omit [DecidableEq S] in
theorem lineEdges_nil_of_noData (o : Oracles S W Wd) (body : List (Line S))
    (h : body.any Line.isData = false) : lineEdges o body = [] := by
  unfold lineEdges
  apply List.filterMap_eq_nil_iff.2
  intro l hl
  have := List.any_eq_false.1 h l hl
  cases l with
  | header t => rfl
  | subpath t => rfl
  | blank => rfl
  | data t toks => simp [Line.isData, Line.isBlank, Line.isHash] at this

theorem malformed_error (o : Oracles S W Wd) (ls : List (Line S)) (hm : Malformed o ls) :
    ∃ e, readGraph o ls = .error e := by
  cases hcp : countPart ls with
  | nil => exact ⟨_, readGraph_missing o ls hcp⟩
  | cons cl body =>
    cases hcv : cl.countVal o with
    | none => exact ⟨_, readGraph_badCount o ls cl body hcp hcv⟩
    | some n =>
      by_cases hn : n = 0
      · subst hn
        rw [readGraph_zero o ls cl body hcp hcv]
        have dataErr : ∀ t toks, Line.data t toks ∈ body →
            ∃ e, (if !(scanHeader (hashPart ls)).cons.isEmpty then .error .zeroWithConstraints
              else if body.any Line.isData then .error .zeroWithData
              else .ok { nodes := [], edges := [], id := (scanHeader (hashPart ls)).headers.head?,
                         constraints := (scanHeader (hashPart ls)).cons,
                         n := some 0, m := some 0, w := some o.zeroWidth } :
                Except PErr (PGraph S W Wd)) = .error e := by
          intro t toks hmem
          have hany : body.any Line.isData = true :=
            List.any_eq_true.2 ⟨_, hmem, by simp [Line.isData, Line.isBlank, Line.isHash]⟩
          by_cases hc : (!(scanHeader (hashPart ls)).cons.isEmpty) = true
          · exact ⟨.zeroWithConstraints, by rw [if_pos hc]⟩
          · exact ⟨.zeroWithData, by rw [if_neg hc, if_pos hany]⟩
        cases hm with
        | missingCount h => rw [h] at hcp; cases hcp
        | badCount cl' body' h hc =>
          rw [h] at hcp; cases hcp; rw [hc] at hcv; cases hcv
        | badEdgeLine t toks hmem hl => rw [hcp] at hmem; exact dataErr t toks hmem
        | badWeight t u v ws hmem hw => rw [hcp] at hmem; exact dataErr t _ hmem
        | absentEdge toks a b hs he hab =>
          obtain ⟨c, hc, _⟩ := mem_cons_of_subpath (hashPart ls) toks a b hs he
          have hne : (!(scanHeader (hashPart ls)).cons.isEmpty) = true := by
            cases hcons : (scanHeader (hashPart ls)).cons with
            | nil => rw [hcons] at hc; cases hc
            | cons x xs => rfl
          exact ⟨.zeroWithConstraints, by rw [if_pos hne]⟩
      · rw [readGraph_nonzero o ls cl body n hcp hcv hn]
        have bad : ∀ l ∈ body, lineBad o l = true →
            ∃ e, finish o (scanHeader (hashPart ls)) (parseEdges o body ({} : Gr S W)) = .error e := by
          intro l hl hb
          obtain ⟨e, he⟩ := parseEdges_bad o body {} ⟨l, hl, hb⟩
          exact ⟨e, by rw [he]; rfl⟩
        cases hm with
        | missingCount h => rw [h] at hcp; cases hcp
        | badCount cl' body' h hc =>
          rw [h] at hcp; cases hcp; rw [hc] at hcv; cases hcv
        | badEdgeLine t toks hmem hl =>
          rw [hcp] at hmem
          exact bad _ hmem (lineBad_of_length o t toks hl)
        | badWeight t u v ws hmem hw =>
          rw [hcp] at hmem
          exact bad _ hmem (lineBad_of_weight o t u v ws hw)
        | absentEdge toks a b hs he hab =>
          rw [hcp] at hab
          cases hp : parseEdges o body ({} : Gr S W) with
          | error e => exact ⟨e, rfl⟩
          | ok g =>
            obtain ⟨_, rfl⟩ := (parseEdges_ok_iff o body {} g).1 hp
            refine ⟨.constraintEdgeMissing, ?_⟩
            have hfalse : ¬ ((scanHeader (hashPart ls)).cons.all (fun c => c.all fun e =>
                (addEdges ({} : Gr S W) (lineEdges o body)).hasEdge e.1 e.2) = true) := by
              intro hall
              obtain ⟨c, hc, hce⟩ := mem_cons_of_subpath (hashPart ls) toks a b hs he
              have h1 := List.all_eq_true.1 hall c hc
              have h2 := List.all_eq_true.1 h1 (a, b) hce
              rw [addEdges_hasEdge] at h2
              rcases h2 with h2 | h2
              · simp [Gr.hasEdge] at h2
              · obtain ⟨t, ws, hmem⟩ := mem_lineEdges_key o body a b h2
                exact hab t ws hmem
            simp only [finish, hfalse]
            rfl

/-! ## the stored counts -/

theorem readGraph_ok_shape (o : Oracles S W Wd) (ls : List (Line S)) (g : PGraph S W Wd)
    (h : readGraph o ls = .ok g) :
    (Gr.WF ⟨g.nodes, g.edges⟩) ∧
    g.n = some g.nodes.length ∧ g.m = some g.edges.length ∧
    (∀ x y z, (x, y, z) ∈ g.edges ↔ lastWeight (lineEdges o (countPart ls).tail) (x, y) = some z) ∧
    (ZeroCount o ls → g.nodes = [] ∧ g.edges = [] ∧ g.constraints = [] ∧ g.w = some o.zeroWidth) ∧
    (¬ ZeroCount o ls → g.w = some (o.width g.nodes g.edges)) := by
  cases hcp : countPart ls with
  | nil => rw [readGraph_missing o ls hcp] at h; cases h
  | cons cl body =>
    cases hcv : cl.countVal o with
    | none => rw [readGraph_badCount o ls cl body hcp hcv] at h; cases h
    | some n =>
      by_cases hn : n = 0
      · subst hn
        have hz : ZeroCount o ls := ⟨cl, body, hcp, hcv⟩
        rw [readGraph_zero o ls cl body hcp hcv] at h
        split at h
        · cases h
        · rename_i hc
          split at h
          · cases h
          · rename_i hd
            cases h
            have hce : (scanHeader (hashPart ls)).cons = [] := by
              cases hcons : (scanHeader (hashPart ls)).cons with
              | nil => rfl
              | cons x xs => rw [hcons] at hc; simp at hc
            have hle : lineEdges o body = [] :=
              lineEdges_nil_of_noData o body (by simpa using hd)
            refine ⟨Gr.WF.empty, rfl, rfl, ?_, fun _ => ⟨rfl, rfl, hce, rfl⟩, fun h' => absurd hz h'⟩
            intro x y z
            rw [List.tail_cons, hle]
            simp [lastWeight]
      · have hz : ¬ ZeroCount o ls := by
          rintro ⟨cl', body', h1, h2⟩
          rw [hcp] at h1; cases h1; rw [hcv] at h2; exact hn (Option.some.inj h2)
        rw [readGraph_nonzero o ls cl body n hcp hcv hn] at h
        cases hp : parseEdges o body ({} : Gr S W) with
        | error e => rw [hp] at h; cases h
        | ok gr =>
          rw [hp] at h
          obtain ⟨_, rfl⟩ := (parseEdges_ok_iff o body {} gr).1 hp
          simp only [finish] at h
          split at h
          · split at h
            · cases h
              refine ⟨addEdges_WF Gr.WF.empty _, rfl, rfl, ?_, fun h' => absurd h' hz, fun _ => rfl⟩
              intro x y z
              rw [List.tail_cons]
              have := mem_addEdges_edges ({} : Gr S W) (lineEdges o body) x y z
              rw [this]
              cases lastWeight (lineEdges o body) (x, y) with
              | none => simp
              | some w => simp [eq_comm]
            · cases h
          · cases h

end FP.Parser
