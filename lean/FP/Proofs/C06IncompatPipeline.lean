import FP.Proofs.C05KCoverC
import FP.Proofs.C05KFDC
import FP.Proofs.C06Incompat
import FP.Proofs.C06IncompatExample
/-!
# FP.Proofs.C06IncompatPipeline — the safety pipeline of the walk models under the contracts of its two oracles

`safetyData_of_pipeline` and the two `…_pipeline_preserves_proof` theorems of C05 with the hypotheses
`AntichainHyp` / `NoSharedParallel` replaced by: `mapping` numbers the strongly connected components
(`SccLabelling`) and the captured antichain is pairwise unreachable in the expanded condensation
(`CondAntichain`). The sequences handed to `get_longest_incompatible_sequences` are the maximal safe sequences
that the pipeline itself computes, so C06's `incompatible_sound` applies.
-/
namespace FP
open FP.Spec FP.Safety

/-- the computed data satisfies what the optimum theorem needs (C06 T5, T6 in full, T3) -/
theorem c06i_safetyData_of_pipeline (s : STGraph) (hg : GraphWF s.g) (hnd : s.g.edges.Nodup) (k : Nat) (X T : List Edge)
    (hXT : ∀ x ∈ X, x ∈ T) (mapping : List (Node × Nat)) (anti : List (String × String)) (o : SafetyOpts)
    (fr : SafetyFrag) (h : safetyPipeline s k X mapping anti o = .ok fr)
    (hscc : SccLabelling ⟨s.g, mapping⟩) (hanti : CondAntichain ⟨s.g, mapping⟩ anti) :
    ∃ safe seqs zs, fr = safetyExtra s k safe seqs zs o ∧ SafetyData s k T safe seqs zs := by
  have htriv : SafetyData s k T [] [] [] :=
    ⟨(fun _ h => nomatch h), (fun _ h => nomatch h), (fun _ h => nomatch h), List.Pairwise.nil,
     zeroSound_nil _ _ _⟩
  unfold safetyPipeline at h
  split at h
  · rename_i hact
    injection h with h
    refine ⟨[], [], [], ?_, htriv⟩
    rw [safetyExtra_inactive s k [] [] [] o (by simpa using hact)]
    exact h.symm
  split at h
  · cases h
  · cases h
  rename_i safe hsafe
  have hsafeOK : ∀ q ∈ safe, SafeFor s.g s.source s.sink T q := by
    intro q hq
    obtain ⟨c, hc, hf⟩ := maxSafeSeqs_safe s.g hg s.source s.sink X safe hsafe q hq
    exact c05_safeFor_mono hXT (safeFor_of_forcedBy hc hf)
  split at h
  · injection h with h
    exact ⟨safe, [], [], h.symm, ⟨hsafeOK, (fun _ h => nomatch h), (fun _ h => nomatch h), List.Pairwise.nil,
      zeroSound_nil _ _ _⟩⟩
  split at h
  · cases h
  · cases h
  rename_i walks hwalks
  have hW : (∀ q ∈ walks, q ∈ safe) ∧ (∀ q ∈ walks, ∀ e ∈ q, e ∈ s.g.edges) ∧
      walks.Pairwise fun p q => ¬ CoOccur s.g s.source s.sink p q := by
    split at hwalks
    · injection hwalks with hw; subst hw
      exact ⟨(fun _ h => nomatch h), (fun _ h => nomatch h), List.Pairwise.nil⟩
    · obtain ⟨h1, h2⟩ := c05_longestIncompatible_sub ⟨s.g, mapping⟩ safe anti walks hwalks
      refine ⟨h2, fun q hq e he => h1 q (h2 q hq) e he, ?_⟩
      exact c06i_incompatible_sound ⟨s.g, mapping⟩ s.source s.sink X safe anti walks hg hnd hscc hsafe hanti hwalks
  split at h
  · cases h
  · cases h
  rename_i zs hzs
  split at h
  · cases h
  injection h with h
  have hzero : ZeroSound s.g walks k zs := by
    split at hzs
    · exact zeroSound_of_zeroFix s.g hg walks k zs hzs
    · injection hzs with hz; subst hz; exact zeroSound_nil _ _ _
  exact ⟨safe, walks, zs, h.symm, ⟨hsafeOK, fun q hq => hsafeOK q (hW.1 q hq), hW.2.1, hW.2.2, hzero⟩⟩


/-- `kPathCoverCycles`, with the fragment computed by `safetyPipeline` -/
theorem c06i_kcoverc_pipeline_preserves (inp : WalkInput) (hb : BaseWF inp.base) (X : List Edge)
    (hX : ∀ x ∈ X, x ∈ kcovercTrusted inp) (mapping : List (Node × Nat)) (anti : List (String × String))
    (o : SafetyOpts) (fr : SafetyFrag) (h : safetyPipeline inp.st inp.k X mapping anti o = .ok fr)
    (hscc : SccLabelling ⟨inp.st.g, mapping⟩) (hanti : CondAntichain ⟨inp.st.g, mapping⟩ anti)
    (hcons : ∀ con ∈ inp.cfg.constraints, ∀ e ∈ con, e ∈ inp.st.g.edges)
    (hcov1 : inp.cfg.coverage ≤ 1) :
    ((∃ a, Sat a (kcovercLP inp)) ↔ (∃ a, Sat a (kcovercLPS inp fr))) ∧
    (∀ v, IsMin (fun a => Sat a (kcovercLP inp)) (fun a => evalTerms a (kcovercLP inp).obj) v ↔
      IsMin (fun a => Sat a (kcovercLPS inp fr)) (fun a => evalTerms a (kcovercLPS inp fr).obj) v) := by
  have hwf : STWFc inp.st := augment_wfc inp.base inp.starts inp.ends hb
  obtain ⟨safe, seqs, zs, rfl, D⟩ := c06i_safetyData_of_pipeline inp.st hwf.closed hwf.edgesNodup inp.k X
    (kcovercTrusted inp) hX mapping anti o fr h hscc hanti
  exact kcoverc_safety_preserves_proof inp hb safe seqs zs D o hcons hcov1

/-- `kFlowDecompCycles`, with the fragment computed by `safetyPipeline` -/
theorem c06i_kfdc_pipeline_preserves (inp : WalkInput) (hb : BaseWF inp.base) (hinj : NameInj inp)
    (X : List Edge) (hX : ∀ x ∈ X, x ∈ kfdcTrusted inp) (mapping : List (Node × Nat))
    (anti : List (String × String)) (o : SafetyOpts) (fr : SafetyFrag)
    (h : safetyPipeline inp.st inp.k X mapping anti o = .ok fr)
    (hscc : SccLabelling ⟨inp.st.g, mapping⟩) (hanti : CondAntichain ⟨inp.st.g, mapping⟩ anti)
    (hcons : ∀ con ∈ inp.cfg.constraints, ∀ e ∈ con, e ∈ inp.st.g.edges)
    (hcov1 : inp.cfg.coverage ≤ 1)
    (hwm : kfdcTrusted inp ≠ [] → 0 < inp.wmax false) :
    (∃ a, Sat a (kfdcLP inp none)) ↔ (∃ a, Sat a (kfdcLPS inp none fr)) := by
  have hwf : STWFc inp.st := augment_wfc inp.base inp.starts inp.ends hb
  obtain ⟨safe, seqs, zs, rfl, D⟩ := c06i_safetyData_of_pipeline inp.st hwf.closed hwf.edgesNodup inp.k X
    (kfdcTrusted inp) hX mapping anti o fr h hscc hanti
  exact kfdc_safety_preserves_proof inp hb hinj safe seqs zs D o hcons hcov1 hwm

/-! ## the pipeline on the instance `exP` (cycle, two parallel inter-SCC edges, second branch) -/

def exPst : STGraph := ⟨exP, "source", "sink"⟩
/-- all row-producing flags on -/
def exPopts : SafetyOpts := { safeSequences := true, allowGeq := true, fixZero := true }
def exPzero : List (Edge × Nat) :=
  [(("a", "b"), 0), (("a", "c"), 0), (("b", "a"), 0), (("b", "c"), 0), (("c", "sink"), 0), (("source", "a"), 0),
   (("a", "c"), 1), (("d", "sink"), 1), (("source", "d"), 1), (("b", "c"), 2), (("d", "sink"), 2), (("source", "d"), 2)]

set_option maxRecDepth 100000 in
theorem exP_zeroFix : zeroFix exP exPchosen 3 = .ok exPzero := by decide +kernel

theorem exP_pipeline : safetyPipeline exPst 3 exP.edges exPc.mapping exPanti exPopts =
    .ok (safetyExtra exPst 3 exPseqs exPchosen exPzero exPopts) := by
  unfold safetyPipeline
  have h1 : maxSafeSeqs exPst.g exPst.source exPst.sink exP.edges = .ok exPseqs := exP_maxSafeSeqs
  have h2 : longestIncompatible ⟨exPst.g, exPc.mapping⟩ exPseqs exPanti = .ok exPchosen := exP_longest
  have h3 : exPopts.active = true := rfl
  have h4 : exPopts.asSubset = false := rfl
  have h5 : exPseqs.isEmpty = false := rfl
  have h6 : exPopts.fixZero = true := rfl
  have h7 : zeroFix exPst.g exPchosen 3 = .ok exPzero := exP_zeroFix
  have h8 : safetyRaises exPst.g 3 exPchosen = false := by decide +kernel
  simp only [h1, h2, h3, h4, h5, h6, h7, h8, Bool.not_true, Bool.false_eq_true, if_false, if_true, Bool.and_false]

end FP
