import FP.Proofs.DecompBounds
import FP.Proofs.Search
/-!
# FP.Proofs.MFD — the minimum search of `MinFlowDecomp` returns the minimum number of paths
-/
namespace FP
open FP.Spec FP.Search FP.MFD

/-- the k-model of iteration `j` has a feasible assignment -/
def KFeasible (inp : FlowInput) (j : Nat) : Prop := ∃ a, Sat a (kfdLP (inp.withK j))

/-- the status script tells the truth about the k-models: `optimal` exactly for the feasible ones,
`infeasible` exactly for the infeasible ones (any other status may appear anywhere) -/
def Faithful (inp : FlowInput) (σ : Nat → Status) : Prop :=
  ∀ j, (σ j = .optimal → KFeasible inp j) ∧ (σ j = .infeasible → ¬ KFeasible inp j)

/-- a solver that always finishes: every status is the truth -/
def Decisive (inp : FlowInput) (σ : Nat → Status) : Prop :=
  ∀ j, (KFeasible inp j → σ j = .optimal) ∧ (¬ KFeasible inp j → σ j = .infeasible)

theorem mfd_search_minimal_proof (inp : FlowInput) (h : BaseWF inp.base) (hac : Acyclic inp.base)
    (hcfg : PlainCfg inp) (σ : Nat → Status) (hf : Faithful inp σ) (lo hi k : Nat)
    (hlo : ∀ j, j < lo → ¬ HasDecomp inp j)
    (hs : (stopSearch σ lo hi).solved = some k) :
    HasDecomp inp k ∧ (∀ j, j < k → ¬ HasDecomp inp j) ∧ lo ≤ k ∧ k < hi := by
  obtain ⟨h1, h2, h3, h4⟩ := stopLoop_sound σ _ _ _ _ hs
  refine ⟨(kfd_feasible_iff_proof inp k h hac hcfg).1 ((hf k).1 h1), ?_, h2, by omega⟩
  intro j hj hd
  by_cases hjl : j < lo
  · exact hlo j hjl hd
  · exact (hf j).2 (h4 j (by omega) hj) ((kfd_feasible_iff_proof inp j h hac hcfg).2 hd)

theorem mfd_search_finds_proof (inp : FlowInput) (h : BaseWF inp.base) (hac : Acyclic inp.base)
    (hcfg : PlainCfg inp) (σ : Nat → Status) (hd : Decisive inp σ) (lo hi k : Nat)
    (hmin : IsMinDecomp inp k) (h1 : lo ≤ k) (h2 : k < hi) :
    (stopSearch σ lo hi).solved = some k := by
  apply stopLoop_complete σ _ _ _ _ h1 (by omega)
  · exact (hd k).1 ((kfd_feasible_iff_proof inp k h hac hcfg).2 hmin.1)
  · intro j _ hj
    exact (hd j).2 (fun hfe => hmin.2 j hj ((kfd_feasible_iff_proof inp j h hac hcfg).1 hfe))

/-- end-to-end over the model of `MinFlowDecomp.solve`: with a lower bound whose ingredients are valid
for the true minimum `m` and `m ≤ |E| + #constraints`, a decisive solver makes the search return `m` -/
theorem mfd_solve_returns_min_proof (inp : FlowInput) (h : BaseWF inp.base) (hac : Acyclic inp.base)
    (hcfg : PlainCfg inp) (σ : Nat → Status) (hd : Decisive inp σ) (x : LBIn) (numEdges numCons m : Nat)
    (hmin : IsMinDecomp inp m) (hm : m ≤ numEdges + numCons)
    (hopt : x.optLb.getD 1 ≤ m) (hlog : distinctInt x.flows ≤ 2 ^ m) (hwidth : x.width ≤ m)
    (hmgs : x.ignoreEmpty = true → x.useMgs = true → ∀ s, x.mgs = some s → s ≤ m)
    (hscan : x.useScan = true → ∀ s, x.scan = some s → s ≤ m) :
    (MFD.solve x numEdges numCons σ).solved = some m := by
  unfold MFD.solve
  have hlo : lowerboundN x ≤ m := lowerboundN_valid_proof x m hopt hlog hwidth hmgs hscan
  exact mfd_search_finds_proof inp h hac hcfg σ hd _ _ m hmin hlo (by unfold searchHi; omega)

end FP
