import FP.Spec.Walk
/-!
# FP.Proofs.SafetyWalk — generic lemmas on `walkEdges` (splitting, cuts)
-/
namespace FP.Safety
open FP.Spec
variable {V : Type}

theorem we_nil : walkEdges ([] : List V) = [] := rfl
theorem we_single (a : V) : walkEdges [a] = [] := rfl
theorem we_cons_cons (a b : V) (l : List V) : walkEdges (a :: b :: l) = (a, b) :: walkEdges (b :: l) := rfl

theorem we_append_cons (a : List V) (x : V) (m : List V) :
    walkEdges (a ++ x :: m) = walkEdges (a ++ [x]) ++ walkEdges (x :: m) := by
  induction a with
  | nil => simp [we_single]
  | cons y a ih =>
    cases a with
    | nil => simp [we_cons_cons, we_single]
    | cons z a =>
      simp only [List.cons_append, we_cons_cons] at ih ⊢
      rw [ih]

theorem we_concat (l : List V) (a b : V) (h : l.getLast? = some a) :
    walkEdges (l ++ [b]) = walkEdges l ++ [(a, b)] := by
  obtain ⟨l', rfl⟩ := List.getLast?_eq_some_iff.1 h
  rw [List.append_assoc]
  show walkEdges (l' ++ a :: [b]) = _
  rw [we_append_cons l' a [b]]
  simp [we_cons_cons, we_single]

theorem mem_we_split {e : V × V} {w : List V} (h : e ∈ walkEdges w) :
    ∃ w1 w2, w = w1 ++ e.1 :: e.2 :: w2 := by
  induction w with
  | nil => simp [we_nil] at h
  | cons x w ih =>
    cases w with
    | nil => simp [we_single] at h
    | cons y w =>
      rw [we_cons_cons] at h
      rcases List.mem_cons.1 h with rfl | h
      · exact ⟨[], w, rfl⟩
      · obtain ⟨w1, w2, hw⟩ := ih h
        exact ⟨x :: w1, w2, by rw [hw]; rfl⟩

theorem mem_we_mid (w1 w2 : List V) (a b : V) : (a, b) ∈ walkEdges (w1 ++ a :: b :: w2) := by
  rw [we_append_cons, we_cons_cons]; simp

theorem we_fst_mem {e : V × V} {w : List V} (h : e ∈ walkEdges w) : e.1 ∈ w := by
  obtain ⟨w1, w2, rfl⟩ := mem_we_split h; simp

theorem we_snd_mem {e : V × V} {w : List V} (h : e ∈ walkEdges w) : e.2 ∈ w := by
  obtain ⟨w1, w2, rfl⟩ := mem_we_split h; simp

theorem we_snd_mem_tail {e : V × V} {w : List V} (h : e ∈ walkEdges w) : e.2 ∈ w.tail := by
  obtain ⟨w1, w2, rfl⟩ := mem_we_split h
  cases w1 <;> simp

theorem we_sub_append_left (a m : List V) : ∀ e ∈ walkEdges m, e ∈ walkEdges (a ++ m) := by
  intro e he
  obtain ⟨w1, w2, rfl⟩ := mem_we_split he
  rw [← List.append_assoc]; exact mem_we_mid _ _ _ _

theorem we_sub_append_right (a m : List V) : ∀ e ∈ walkEdges a, e ∈ walkEdges (a ++ m) := by
  intro e he
  obtain ⟨w1, w2, rfl⟩ := mem_we_split he
  simp only [List.append_assoc, List.cons_append]; exact mem_we_mid _ _ _ _

/-- the edge list of a middle piece is a contiguous piece of the edge list -/
theorem we_infix (a m b : List V) : walkEdges m <:+: walkEdges (a ++ m ++ b) := by
  cases m with
  | nil => simp [we_nil]
  | cons x m =>
    have h1 : a ++ (x :: m) ++ b = a ++ x :: (m ++ b) := by simp
    rw [h1, we_append_cons a x (m ++ b)]
    have h2 : walkEdges (x :: m) <+: walkEdges (x :: (m ++ b)) := by
      cases b with
      | nil => simp
      | cons y b =>
        obtain ⟨z, l', hl⟩ : ∃ z l', x :: m = l' ++ [z] :=
          ⟨(x :: m).getLast (by simp), _, (List.dropLast_concat_getLast (by simp)).symm⟩
        have h5 : x :: (m ++ y :: b) = l' ++ z :: y :: b := by
          rw [← List.cons_append, hl]; simp
        rw [h5, we_append_cons l' _ (y :: b), ← hl]
        exact List.prefix_append _ _
    obtain ⟨r, hr⟩ := h2
    rw [← hr]
    exact ⟨walkEdges (a ++ [x]), r, by simp⟩

/-- a walk from inside a set to outside of it crosses the boundary -/
theorem cut_edge (C : V → Prop) (w : List V) (s t : V) (hs : w.head? = some s) (ht : w.getLast? = some t)
    (hsC : C s) (htC : ¬ C t) : ∃ e ∈ walkEdges w, C e.1 ∧ ¬ C e.2 := by
  induction w generalizing s with
  | nil => simp at hs
  | cons x w ih =>
    simp at hs; subst hs
    cases w with
    | nil => simp at ht; subst ht; exact absurd hsC htC
    | cons y w =>
      by_cases hy : C y
      · have ht' : (y :: w).getLast? = some t := by simpa [List.getLast?_cons_cons] using ht
        obtain ⟨e, he, h1, h2⟩ := ih y rfl ht' hy
        exact ⟨e, by rw [we_cons_cons]; exact List.mem_cons_of_mem _ he, h1, h2⟩
      · exact ⟨(x, y), by rw [we_cons_cons]; simp, hsC, hy⟩

end FP.Safety
