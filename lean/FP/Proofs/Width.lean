import FP.Model.Width
import FP.Model.Enc.KFD
/-!
# FP.Proofs.Width — the demands `stDAG.get_width` builds are the indicator of the active edges
-/
namespace FP

theorem dag_width_demands (inp : FlowInput) (e : Edge) (he : e ∈ inp.st.g.edges) :
    lookupD (dagWidthDemands inp.st (inp.st.sourceSinkEdges ++ inp.ignore)) e 0
      = if e ∈ inp.activeEdges then 1 else 0 := by
  have hwf : dagWeightFunction inp.st.g (inp.st.sourceSinkEdges ++ inp.ignore)
      = inp.activeEdges.map fun e => (e, (1 : Int)) := by
    unfold dagWeightFunction FlowInput.activeEdges FlowInput.ignored
    congr 1
    apply List.filter_congr
    intro x _
    simp [List.contains_eq_mem]
  unfold dagWidthDemands antichainDemands
  simp only []
  unfold lookupD
  rw [hwf]
  have hl : ∀ (l : List Edge) (x : Edge),
      ((l.map fun e => (e, (1 : Int))).lookup x).getD 0 = if x ∈ l then 1 else 0 := by
    intro l x
    induction l with
    | nil => simp
    | cons y ys ih =>
      simp only [List.map_cons, List.lookup_cons, List.mem_cons]
      by_cases hxy : x = y
      · subst hxy; simp
      · have : (x == y) = false := by simpa using hxy
        simp only [this, ih, hxy, false_or]
  have hlook : ∀ (es : List Edge), e ∈ es →
      ((es.map fun e' => (e', ((inp.activeEdges.map fun e => (e, (1 : Int))).lookup e').getD 0)).lookup e).getD 0
        = ((inp.activeEdges.map fun e => (e, (1 : Int))).lookup e).getD 0 := by
    intro es hes
    induction es with
    | nil => simp at hes
    | cons y ys ih =>
      simp only [List.map_cons, List.lookup_cons]
      by_cases hxy : e = y
      · subst hxy; simp
      · have : (e == y) = false := by simpa using hxy
        simp only [this]
        exact ih (by simpa [hxy] using hes)
  rw [hlook _ he, hl]

end FP
