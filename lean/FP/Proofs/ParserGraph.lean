import FP.Spec.GraphFile
/-!
# FP.Proofs.ParserGraph — what inserting edges one after the other (`add_edge`) builds
-/
namespace FP.Parser
open FP.Spec.GraphFile
variable {S W Wd : Type} [DecidableEq S]

/-- well-formed networkx graph: no node twice, no edge key twice, nodes = endpoints of edges -/
structure Gr.WF (g : Gr S W) : Prop where
  nodesNodup : g.nodes.Nodup
  keysNodup : (g.edges.map key).Nodup
  nodesEq : ∀ x, x ∈ g.nodes ↔ ∃ e ∈ g.edges, x = e.1 ∨ x = e.2.1

theorem hasEdge_iff (g : Gr S W) (u v : S) : g.hasEdge u v = true ↔ (u, v) ∈ g.edges.map key := by
  simp only [Gr.hasEdge, List.any_eq_true, decide_eq_true_eq, List.mem_map, key]
  constructor
  · rintro ⟨e, he, h1, h2⟩; exact ⟨e, he, by rw [h1, h2]⟩
  · rintro ⟨e, he, h⟩
    exact ⟨e, he, (Prod.mk.inj h).1, (Prod.mk.inj h).2⟩

theorem mem_addNode (ns : List S) (v x : S) : x ∈ addNode ns v ↔ x ∈ ns ∨ x = v := by
  unfold addNode
  split
  · constructor
    · exact Or.inl
    · rintro (h | h)
      · exact h
      · subst h; assumption
  · simp

theorem nodup_addNode (ns : List S) (v : S) (h : ns.Nodup) : (addNode ns v).Nodup := by
  unfold addNode
  split
  · exact h
  · rename_i hv
    rw [List.nodup_append]
    refine ⟨h, by simp, ?_⟩
    intro a ha b hb
    simp only [List.mem_singleton] at hb
    subst hb
    intro hab; subst hab; exact hv ha

theorem addEdge_keys (g : Gr S W) (u v : S) (w : W) :
    (g.addEdge u v w).edges.map key =
      if g.hasEdge u v then g.edges.map key else g.edges.map key ++ [(u, v)] := by
  unfold Gr.addEdge
  by_cases h : g.hasEdge u v = true
  · simp only [h, if_true, List.map_map]
    apply List.map_congr_left
    intro e _
    simp only [Function.comp, key]
    split
    · rename_i h'; rw [h'.1, h'.2]
    · rfl
  · simp [h, key]

theorem mem_addEdge_edges (g : Gr S W) (u v : S) (w : W) (x y : S) (z : W) :
    (x, y, z) ∈ (g.addEdge u v w).edges ↔
      if x = u ∧ y = v then z = w else (x, y, z) ∈ g.edges := by
  unfold Gr.addEdge
  by_cases h : g.hasEdge u v = true
  · simp only [h, if_true, List.mem_map]
    have h' := h
    simp only [Gr.hasEdge, List.any_eq_true, decide_eq_true_eq] at h'
    obtain ⟨e0, he0, h01, h02⟩ := h'
    by_cases hk : x = u ∧ y = v
    · simp only [hk, and_self, if_true]
      obtain ⟨rfl, rfl⟩ := hk
      constructor
      · rintro ⟨e, _, hfe⟩
        by_cases hke : e.1 = x ∧ e.2.1 = y
        · rw [if_pos hke] at hfe
          exact ((Prod.mk.inj (Prod.mk.inj hfe).2).2).symm
        · rw [if_neg hke] at hfe
          subst hfe; exact absurd ⟨rfl, rfl⟩ hke
      · rintro rfl
        exact ⟨e0, he0, by rw [if_pos ⟨h01, h02⟩]⟩
    · rw [if_neg hk]
      constructor
      · rintro ⟨e, he, hfe⟩
        by_cases hke : e.1 = u ∧ e.2.1 = v
        · rw [if_pos hke] at hfe
          have h1 := (Prod.mk.inj hfe).1
          have h2 := (Prod.mk.inj (Prod.mk.inj hfe).2).1
          exact absurd ⟨h1.symm, h2.symm⟩ hk
        · rw [if_neg hke] at hfe
          subst hfe; exact he
      · intro hm
        refine ⟨(x, y, z), hm, ?_⟩
        rw [if_neg]
        exact hk
  · have hne : ∀ z', (u, v, z') ∉ g.edges := by
      intro z' hm
      apply h
      simp only [Gr.hasEdge, List.any_eq_true, decide_eq_true_eq]
      exact ⟨_, hm, rfl, rfl⟩
    rw [if_neg h, List.mem_append, List.mem_singleton]
    by_cases hk : x = u ∧ y = v
    · obtain ⟨rfl, rfl⟩ := hk
      simp only [and_self, if_true]
      constructor
      · rintro (hm | hm)
        · exact absurd hm (hne z)
        · exact (Prod.mk.inj (Prod.mk.inj hm).2).2
      · rintro rfl; exact Or.inr rfl
    · rw [if_neg hk]
      constructor
      · rintro (hm | hm)
        · exact hm
        · exact absurd ⟨(Prod.mk.inj hm).1, (Prod.mk.inj (Prod.mk.inj hm).2).1⟩ hk
      · exact Or.inl

theorem addEdge_nodes (g : Gr S W) (u v : S) (w : W) (x : S) :
    x ∈ (g.addEdge u v w).nodes ↔ x ∈ g.nodes ∨ x = u ∨ x = v := by
  simp only [Gr.addEdge, mem_addNode, or_assoc]

theorem Gr.WF.addEdge {g : Gr S W} (h : g.WF) (u v : S) (w : W) : (g.addEdge u v w).WF := by
  refine ⟨?_, ?_, ?_⟩
  · exact nodup_addNode _ _ (nodup_addNode _ _ h.nodesNodup)
  · rw [addEdge_keys]
    split
    · exact h.keysNodup
    · rename_i hh
      rw [List.nodup_append]
      refine ⟨h.keysNodup, by simp, ?_⟩
      intro a ha b hb
      simp only [List.mem_singleton] at hb
      subst hb
      intro hab; subst hab
      exact hh ((hasEdge_iff g u v).2 ha)
  · intro x
    rw [addEdge_nodes, h.nodesEq]
    constructor
    · rintro (⟨e, he, hx⟩ | hx)
      · obtain ⟨a, b, c⟩ := e
        by_cases hk : a = u ∧ b = v
        · refine ⟨(a, b, w), (mem_addEdge_edges g u v w a b w).2 (by rw [if_pos hk]), hx⟩
        · refine ⟨(a, b, c), (mem_addEdge_edges g u v w a b c).2 (by rw [if_neg hk]; exact he), hx⟩
      · refine ⟨(u, v, w), (mem_addEdge_edges g u v w u v w).2 (by simp), hx⟩
    · rintro ⟨⟨a, b, c⟩, he, hx⟩
      rw [mem_addEdge_edges] at he
      by_cases hk : a = u ∧ b = v
      · obtain ⟨rfl, rfl⟩ := hk
        exact Or.inr hx
      · rw [if_neg hk] at he
        exact Or.inl ⟨_, he, hx⟩

omit [DecidableEq S] in
theorem Gr.WF.empty : ({} : Gr S W).WF := ⟨by simp, by simp, by simp⟩

/-- inserting a list of edges -/
def addEdges (g : Gr S W) (es : List (S × S × W)) : Gr S W :=
  es.foldl (fun g e => g.addEdge e.1 e.2.1 e.2.2) g

theorem buildGraph_eq (es : List (S × S × W)) : buildGraph es = addEdges {} es := rfl

theorem addEdges_WF {g : Gr S W} (h : g.WF) (es : List (S × S × W)) : (addEdges g es).WF := by
  induction es generalizing g with
  | nil => exact h
  | cons e es ih => exact ih (h.addEdge _ _ _)

theorem addEdges_hasEdge (g : Gr S W) (es : List (S × S × W)) (u v : S) :
    (addEdges g es).hasEdge u v = true ↔ g.hasEdge u v = true ∨ (u, v) ∈ es.map key := by
  induction es generalizing g with
  | nil => simp [addEdges]
  | cons e es ih =>
    show (addEdges (g.addEdge e.1 e.2.1 e.2.2) es).hasEdge u v = true ↔ _
    rw [ih, hasEdge_iff (g.addEdge e.1 e.2.1 e.2.2), addEdge_keys]
    by_cases hh : g.hasEdge e.1 e.2.1 = true
    · rw [if_pos hh, ← hasEdge_iff]
      simp only [List.map_cons, List.mem_cons]
      constructor
      · rintro (h | h)
        · exact Or.inl h
        · exact Or.inr (Or.inr h)
      · rintro (h | h | h)
        · exact Or.inl h
        · left
          have h1 : u = e.1 := (Prod.mk.inj h).1
          have h2 : v = e.2.1 := (Prod.mk.inj h).2
          rw [h1, h2]; exact hh
        · exact Or.inr h
    · rw [if_neg hh, List.mem_append, ← hasEdge_iff]
      simp only [List.map_cons, List.mem_cons, List.not_mem_nil, or_false, key]
      constructor
      · rintro ((h | h) | h)
        · exact Or.inl h
        · exact Or.inr (Or.inl h)
        · exact Or.inr (Or.inr h)
      · rintro (h | h | h)
        · exact Or.inl (Or.inl h)
        · exact Or.inl (Or.inr h)
        · exact Or.inr h

theorem mem_addEdges_edges (g : Gr S W) (es : List (S × S × W)) (x y : S) (z : W) :
    (x, y, z) ∈ (addEdges g es).edges ↔
      match lastWeight es (x, y) with
      | some w => z = w
      | none => (x, y, z) ∈ g.edges := by
  induction es generalizing g with
  | nil => simp [addEdges, lastWeight]
  | cons e es ih =>
    show (x, y, z) ∈ (addEdges (g.addEdge e.1 e.2.1 e.2.2) es).edges ↔ _
    rw [ih]
    simp only [lastWeight]
    cases hl : lastWeight es (x, y) with
    | some w => simp
    | none =>
      simp only [mem_addEdge_edges, key]
      by_cases hk : x = e.1 ∧ y = e.2.1
      · rw [if_pos hk]
        obtain ⟨h1, h2⟩ := hk
        simp [h1, h2]
      · rw [if_neg hk]
        have : ¬ ((e.1, e.2.1) = (x, y)) := by
          intro h; exact hk ⟨(Prod.mk.inj h).1.symm, (Prod.mk.inj h).2.symm⟩
        simp [this]

theorem addEdges_of_distinct (g : Gr S W) (es : List (S × S × W))
    (h : (g.edges.map key ++ es.map key).Nodup) : (addEdges g es).edges = g.edges ++ es := by
  induction es generalizing g with
  | nil => simp [addEdges]
  | cons e es ih =>
    show (addEdges (g.addEdge e.1 e.2.1 e.2.2) es).edges = _
    have hno : ¬ g.hasEdge e.1 e.2.1 = true := by
      rw [hasEdge_iff]
      intro hm
      rw [List.nodup_append] at h
      exact h.2.2 _ hm _ (by simp [key]) rfl
    have hed : (g.addEdge e.1 e.2.1 e.2.2).edges = g.edges ++ [e] := by
      simp [Gr.addEdge, hno]
    rw [ih, hed]
    · simp
    · rw [hed]; simpa using h

theorem buildGraph_exact (es : List (S × S × W)) :
    (∀ x y z, (x, y, z) ∈ (buildGraph es).edges ↔ lastWeight es (x, y) = some z) ∧
    (buildGraph es).nodes.Nodup ∧ ((buildGraph es).edges.map key).Nodup ∧
    (∀ x, x ∈ (buildGraph es).nodes ↔ ∃ e ∈ es, x = e.1 ∨ x = e.2.1) := by
  have hwf := addEdges_WF (g := ({} : Gr S W)) Gr.WF.empty es
  have hmem : ∀ x y z, (x, y, z) ∈ (buildGraph es).edges ↔ lastWeight es (x, y) = some z := by
    intro x y z
    have := mem_addEdges_edges ({} : Gr S W) es x y z
    rw [buildGraph_eq, this]
    cases lastWeight es (x, y) with
    | none => simp
    | some w => simp [eq_comm]
  refine ⟨hmem, hwf.nodesNodup, hwf.keysNodup, ?_⟩
  intro x
  rw [buildGraph_eq, hwf.nodesEq]
  constructor
  · rintro ⟨⟨a, b, c⟩, he, hx⟩
    have hk := (addEdges_hasEdge ({} : Gr S W) es a b).1
      ((hasEdge_iff _ a b).2 (List.mem_map.2 ⟨(a, b, c), he, rfl⟩))
    rcases hk with hk | hk
    · simp [Gr.hasEdge] at hk
    · obtain ⟨e, he', hke⟩ := List.mem_map.1 hk
      refine ⟨e, he', ?_⟩
      have h1 : e.1 = a := (Prod.mk.inj hke).1
      have h2 : e.2.1 = b := (Prod.mk.inj hke).2
      rw [h1, h2]; exact hx
  · rintro ⟨e, he, hx⟩
    have hk : (addEdges ({} : Gr S W) es).hasEdge e.1 e.2.1 = true :=
      (addEdges_hasEdge _ es e.1 e.2.1).2 (Or.inr (List.mem_map.2 ⟨e, he, rfl⟩))
    obtain ⟨e', he', hke⟩ := List.mem_map.1 ((hasEdge_iff _ _ _).1 hk)
    refine ⟨e', he', ?_⟩
    have h1 : e'.1 = e.1 := (Prod.mk.inj hke).1
    have h2 : e'.2.1 = e.2.1 := (Prod.mk.inj hke).2
    rw [h1, h2]; exact hx

theorem buildGraph_distinct (es : List (S × S × W)) (h : (es.map key).Nodup) :
    (buildGraph es).edges = es := by
  have := addEdges_of_distinct ({} : Gr S W) es (by simpa using h)
  simpa [buildGraph_eq] using this

end FP.Parser
