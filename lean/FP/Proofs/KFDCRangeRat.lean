import FP.Proofs.KFDCRangeCara
import FP.Proofs.KFDCRangeInt
/-!
# FP.Proofs.KFDCRangeRat — the search range `k ≤ |E|` is adequate for float instances without subset
constraints

`weight_type = float` (rational weights `≥ 0`), every edge of the user's graph carries the flow
attribute (so the repetition caps — own flow value inside an SCC, `1` outside — do not depend on `k`),
no subset constraints, and some non-ignored flow value is at least `1` (then `w_max ≥ 1` for every
`k ≥ 1`, which the product blocks need to represent a multiplicity `1`). Additional starts/ends and
ignored edges are allowed. If the k-model is satisfiable for some `k`, it is satisfiable for some
`j ≤ #non-ignored edges ≤ |E(G)|` (`kfdcr_range_rat`): keep the decoded walks, apply Carathéodory's
theorem (`kfdcr_caratheodory`) to their traversal-count vectors on the non-ignored edges; the selected
walks are within the same caps, their new weights are at most a flow value.
-/
namespace FP
open FP.Spec FP.Euler FP.Search

theorem kfdcr_sum_filter_zero_rat {α} (l : List α) (p : α → Bool) (f : α → Rat)
    (h : ∀ x ∈ l, p x = false → f x = 0) : ((l.filter p).map f).sum = (l.map f).sum := by
  induction l with
  | nil => rfl
  | cons x xs ih =>
    have ih' := ih (fun y hy => h y (by simp [hy]))
    by_cases hp : p x = true
    · simp only [List.filter_cons, hp, if_true, List.map_cons, List.sum_cons, ih']
    · have hp' : p x = false := by simpa using hp
      simp only [List.filter_cons, hp', Bool.false_eq_true, if_false, List.map_cons, List.sum_cons, ih',
        h x (by simp) hp']
      grind

section Rat
variable (inp : WalkInput) (hb : BaseWF inp.base)
include hb

/-- a non-ignored edge is an edge of the user's graph -/
theorem kfdcr_active_base (e : Edge) (he : e ∈ inp.activeEdges false) :
    e ∈ inp.st.g.edges ∧ e ∈ inp.base.edges := by
  obtain ⟨hE, hn⟩ := List.mem_filter.1 he
  refine ⟨hE, ?_⟩
  simp only [WalkInput.ignored, STGraph.sourceSinkEdges, STGraph.sourceEdges, STGraph.sinkEdges,
    Graph.outEdges, Graph.inEdges, Bool.false_and, Bool.or_false, Bool.not_eq_true', Bool.or_eq_false_iff,
    List.contains_eq_mem, List.mem_append, List.mem_filter, decide_eq_false_iff_not, decide_eq_true_eq,
    not_or, not_and] at hn
  rcases (aug_mem_edges' (st := inp.starts) (en := inp.ends) hb.closed (e := e)).1 hE with h | h | h
  · exact h
  · exact absurd h.1 (hn.1.1 hE)
  · exact absurd h.1 (hn.1.2 hE)

theorem kfdcr_active_le : (inp.activeEdges false).length ≤ inp.base.edges.length := by
  have hwf : STWFc inp.st := augment_wfc inp.base inp.starts inp.ends hb
  have hnd : (inp.activeEdges false).Nodup := hwf.edgesNodup.filter _
  exact hnd.length_le_of_subset (fun e he => (kfdcr_active_base inp hb e he).2)

/-- with the flow attribute on every edge of the user's graph the caps do not depend on `k` -/
theorem kfdcr_cap_attr (hattr : ∀ e ∈ inp.base.edges, ∃ q, inp.fOpt e = some q) (k : Nat) (e : Edge)
    (he : e ∈ inp.st.g.edges) :
    kfdcCap (inp.withK k) e = if isSccEdge inp.st.g e then (((inp.f e).floor : Int) : Rat) else 1 := by
  have hwf : STWFc inp.st := augment_wfc inp.base inp.starts inp.ends hb
  rw [kfdcCap_eq (inp.withK k) e he]
  show (if isSccEdge inp.st.g e then ((((inp.fOpt e).getD ((inp.withK k).wmax false)).floor : Int) : Rat) else 1) = _
  cases hscc : isSccEdge inp.st.g e with
  | false => rfl
  | true =>
    have h1 : e.1 ≠ inp.st.source := by
      intro h
      have := not_scc_of_terminal inp.st.g hwf.closed e he
        (Or.inl (fun e' he' => by rw [h]; exact hwf.srcNoIn e' he'))
      rw [hscc] at this; cases this
    have h2 : e.2 ≠ inp.st.sink := by
      intro h
      have := not_scc_of_terminal inp.st.g hwf.closed e he
        (Or.inr (fun e' he' => by rw [h]; exact hwf.snkNoOut e' he'))
      rw [hscc] at this; cases this
    have hbase : e ∈ inp.base.edges := by
      rcases (aug_mem_edges' (st := inp.starts) (en := inp.ends) hb.closed (e := e)).1 he with h | h | h
      · exact h
      · exact absurd h.1 h1
      · exact absurd h.1 h2
    obtain ⟨q, hq⟩ := hattr e hbase
    simp [WalkInput.f, hq]

/-- **the range theorem for float instances without subset constraints** -/
theorem kfdcr_range_rat (hfloat : inp.weightInt = false) (hcons : inp.cfg.constraints = [])
    (hattr : ∀ e ∈ inp.base.edges, ∃ q, inp.fOpt e = some q)
    (hM : ∃ e ∈ inp.activeEdges false, 1 ≤ inp.f e)
    (hinj : ∀ j, j ≤ inp.base.edges.length → NameInj (inp.withK j)) (k : Nat) (hf : KfdcFeasible inp k) :
    ∃ j, j ≤ inp.base.edges.length ∧ KfdcFeasible inp j := by
  have hwf : STWFc inp.st := augment_wfc inp.base inp.starts inp.ends hb
  obtain ⟨a, ha⟩ := hf
  obtain ⟨hw, hlayer, hdec⟩ := kfdc_exact_proof (inp.withK k) none a hb ha
  have henc : Sat a (encodeWalks inp.st (inp.withK k).cfg (kfdcCap (inp.withK k))) :=
    sat_enc_of_base (sat_kfdc_base (inp.withK k) none a ha)
  let Ea := inp.activeEdges false
  let L : Nat → List Node := fun i => inp.st.source :: decodeWalkLayer inp.st a i ++ [inp.st.sink]
  let vec : Nat → Edge → Rat := fun i e => ((traversals (L i) e : Nat) : Rat)
  let wt : Nat → Rat := fun i => a (weightsVar i)
  let keep : Nat → Bool := fun i =>
    (walkEdges (L i)).all (fun e => decide (e ∈ inp.st.g.edges)) && (walkEdges (L i)).any (fun e => decide (e ∈ Ea))
  let I0 := (List.range k).filter keep
  -- the maximum flow value
  generalize hMdef : listMax (Ea.map inp.f) = M
  have hfM : ∀ e ∈ Ea, inp.f e ≤ M := fun e he => hMdef ▸ le_listMax _ _ (List.mem_map.2 ⟨e, he, rfl⟩)
  have hM1 : 1 ≤ M := by
    obtain ⟨e1, he1, h1⟩ := hM
    exact Rat.le_trans h1 (hfM e1 he1)
  have hwmax : ∀ j, (inp.withK j).wmax false = (j : Rat) * M := by
    intro j
    show ((inp.withK j).k : Rat) * (if (inp.withK j).weightInt then
      ((listMax (((inp.withK j).activeEdges false).map (inp.withK j).f)).floor : Rat)
      else listMax (((inp.withK j).activeEdges false).map (inp.withK j).f)) = _
    have h1 : (inp.withK j).weightInt = false := hfloat
    have h2 : listMax (((inp.withK j).activeEdges false).map (inp.withK j).f) = M := hMdef
    rw [h1, h2]; rfl
  have hleW : ∀ (j : Nat) (x : Rat), 1 ≤ j → x ≤ M → x ≤ (inp.withK j).wmax false := by
    intro j x hj hx
    rw [hwmax j]
    have h1 : (1 : Rat) ≤ (j : Rat) := by
      have : ((1 : Nat) : Rat) ≤ (j : Rat) := Rat.natCast_le_natCast.2 hj
      simpa using this
    have h2 := Rat.mul_le_mul_of_nonneg_right h1 (show (0 : Rat) ≤ M by grind)
    grind
  -- the kept layers explain the flow
  have hflow0 : ∀ e ∈ Ea, kfdcr_comb I0 wt vec e = inp.f e := by
    intro e he
    have hd : walkExplained inp.st.source inp.st.sink k (decodeWalkLayer inp.st a) wt e = inp.f e := hdec e he
    rw [← hd]
    unfold kfdcr_comb walkExplained
    apply kfdcr_sum_filter_zero_rat
    intro i hi hk
    have hi' : i < k := List.mem_range.1 hi
    have : traversals (L i) e = 0 := by
      rcases kfdcr_layer_walk inp.st (inp.withK k).cfg _ a hwf henc i hi' with hW | hz
      · apply List.count_eq_zero.2
        intro hmem
        have : keep i = true := by
          simp only [keep, Bool.and_eq_true, List.all_eq_true, List.any_eq_true, decide_eq_true_eq]
          exact ⟨fun e' he' => hW e' he', e, hmem, he⟩
        rw [this] at hk; cases hk
      · exact hz e (kfdcr_active_base inp hb e he).1
    show wt i * ((traversals (L i) e : Nat) : Rat) = 0
    rw [this]; simp [Rat.mul_zero]
  have hI0nd : I0.Nodup := List.nodup_range.filter _
  have hw0 : ∀ i ∈ I0, 0 ≤ wt i := fun i hi => (hw i (List.mem_range.1 (List.mem_filter.1 hi).1)).1
  obtain ⟨I', w', hnd', hsub, hlen', hw', heq⟩ := kfdcr_caratheodory Ea vec I0.length I0 wt (Nat.le_refl _) hI0nd hw0
  have hflow' : ∀ e ∈ Ea, kfdcr_comb I' w' vec e = inp.f e := fun e he => by rw [heq e he, hflow0 e he]
  have hjle : I'.length ≤ inp.base.edges.length := Nat.le_trans hlen' (kfdcr_active_le inp hb)
  have hj1 : 1 ≤ I'.length := by
    obtain ⟨e1, he1, h1⟩ := hM
    apply Classical.byContradiction
    intro h
    have : I' = [] := List.eq_nil_of_length_eq_zero (by omega)
    have h0 := hflow' e1 he1
    rw [this] at h0
    have : inp.f e1 = 0 := by rw [← h0]; rfl
    rw [this] at h1
    exact absurd h1 (by decide)
  refine ⟨I'.length, hjle, ?_⟩
  let idx : Nat → Nat := fun i => I'.getD i 0
  have hidx : ∀ i, i < I'.length → idx i ∈ I' := by
    intro i hi
    show I'.getD i 0 ∈ I'
    rw [List.getD_eq_getElem?_getD, List.getElem?_eq_getElem hi]
    exact List.getElem_mem hi
  have hkeep : ∀ i ∈ I', i < k ∧ keep i = true := by
    intro i hi
    have := List.mem_filter.1 (hsub i hi)
    exact ⟨List.mem_range.1 this.1, this.2⟩
  let walk : Nat → List Node := fun i => decodeWalkLayer inp.st a (idx i)
  let w : Nat → Rat := fun i => w' (idx i)
  have hterm : ∀ i ∈ I', ∀ e ∈ Ea, w' i * vec i e ≤ inp.f e := by
    intro i hi e he
    rw [← hflow' e he]
    unfold kfdcr_comb
    exact le_sum_of_mem I' (fun i => w' i * vec i e)
      (fun i' hi' => Rat.mul_nonneg (hw' i' hi') Rat.natCast_nonneg) i hi
  have hcapM : ∀ e ∈ Ea, kfdcCap (inp.withK k) e ≤ M := by
    intro e he
    rw [kfdcr_cap_attr inp hb hattr k e (kfdcr_active_base inp hb e he).1]
    split
    · exact Rat.le_trans (Rat.floor_le _) (hfM e he)
    · exact hM1
  have hwd : WalkDecompWithin (inp.withK I'.length) walk w := by
    refine ⟨?_, ?_, ?_, ?_, ?_, ?_, ?_⟩
    · intro i hi
      have hi' : i < I'.length := hi
      have hk := (hkeep _ (hidx i hi')).2
      simp only [keep, Bool.and_eq_true, List.all_eq_true, decide_eq_true_eq] at hk
      exact fun e he => hk.1 e he
    · intro i hi e he
      have hi' : i < I'.length := hi
      have hik := (hkeep _ (hidx i hi')).1
      obtain ⟨h1, _, h3⟩ := hlayer (idx i) hik e he
      have hcap : kfdcCap (inp.withK I'.length) e = kfdcCap (inp.withK k) e := by
        rw [kfdcr_cap_attr inp hb hattr _ e he, kfdcr_cap_attr inp hb hattr _ e he]
      show ((traversals (L (idx i)) e : Nat) : Rat) ≤ kfdcCap (inp.withK I'.length) e
      rw [hcap]
      have h1' : traversals (L (idx i)) e = multOf a (idx i) e := h1
      rw [h1']; exact h3
    · intro i hi
      have hi' : i < I'.length := hi
      have hmem := hidx i hi'
      refine ⟨hw' _ hmem, ?_, fun h => ?_⟩
      · have hk := (hkeep _ hmem).2
        simp only [keep, Bool.and_eq_true, List.any_eq_true, decide_eq_true_eq] at hk
        obtain ⟨e, hmemE, heA⟩ := hk.2
        apply hleW _ _ hj1
        have h1 : 1 ≤ traversals (L (idx i)) e := List.count_pos_iff.2 hmemE
        have h2 : (1 : Rat) ≤ vec (idx i) e := by
          have : ((1 : Nat) : Rat) ≤ ((traversals (L (idx i)) e : Nat) : Rat) := Rat.natCast_le_natCast.2 h1
          simpa using this
        have h3 := Rat.mul_le_mul_of_nonneg_left h2 (hw' _ hmem)
        have h4 := hterm _ hmem e heA
        have h5 := hfM e heA
        show w' (idx i) ≤ M
        grind
      · have : (inp.withK I'.length).weightInt = false := hfloat
        rw [this] at h; cases h
    · intro i hi e he
      have hi' : i < I'.length := hi
      have hik := (hkeep _ (hidx i hi')).1
      have heE := (kfdcr_active_base inp hb e he).1
      obtain ⟨h1, _, h3⟩ := hlayer (idx i) hik e heE
      apply hleW _ _ hj1
      have h1' : traversals (L (idx i)) e = multOf a (idx i) e := h1
      show ((traversals (L (idx i)) e : Nat) : Rat) ≤ M
      rw [h1']
      exact Rat.le_trans h3 (hcapM e he)
    · intro e he
      exact hleW _ _ hj1 (hfM e he)
    · intro e he
      have : kfdcr_comb I' w' vec e = inp.f e := hflow' e he
      show walkExplained inp.st.source inp.st.sink I'.length walk w e = inp.f e
      rw [← this]
      unfold walkExplained kfdcr_comb
      exact congrArg List.sum (map_range_getD I' 0 (fun i => w' i * vec i e))
    · intro cidx hcidx
      have : (inp.withK I'.length).cfg.constraints.length = 0 := by
        show inp.cfg.constraints.length = 0
        rw [hcons]; rfl
      omega
  exact feasible_of_walks inp I'.length walk w hb hj1 (hinj I'.length hjle) hwd

end Rat

end FP
