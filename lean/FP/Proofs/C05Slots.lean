import FP.Proofs.C05Perm
import FP.Model.WalkDecode
import FP.Model.WalkSafetyRows
import FP.Proofs.WalkCore
import FP.Proofs.Reach
import FP.Spec.Safety
import FP.Proofs.SafetyFix
/-!
# FP.Proofs.C05Slots — every solution can be re-indexed so that it satisfies the safety rows

`a` satisfies `_encode_walks` and uses every trusted edge in some layer. The sequences handed to the slots are
safe for the trusted edges (C06 T5) and pairwise incompatible (C06 T6). Then the layers can be permuted so that
slot `j`'s decoded walk contains `seqs[j]` (`slots_perm`): a safe sequence is contained in the walk of some
layer, two different slots never get the same layer because one walk cannot contain two incompatible sequences,
and an injection of the slots into the layers extends to a permutation (exchange step by step).
Hence (`slotsFit_exists`) the permuted assignment has `x(e,j) ≥ multiplicity` on the edges of slot `j`'s
sequence, `x(e,j) = 1` on those outside the SCCs (`nonScc_once`), and `x(e,j) = 0` on every edge that
`_apply_safety_optimizations_fix_zero_edges` fixes in slot `j` (C06 T3): all rows of `safetyExtra` hold
(`safetyRows_hold`).
-/
namespace FP
open FP.Spec FP.Safety

/-- the walk of layer `i` handed to the user, with the synthetic endpoints put back -/
def layerWalk (s : STGraph) (a : Asg) (i : Nat) : List Node := s.source :: decodeWalkLayer s a i ++ [s.sink]

/-- layer `i` uses some edge -/
def layerUsed (s : STGraph) (a : Asg) (i : Nat) : Bool := s.g.edges.any fun e => multOf a i e != 0

section Layer
variable {s : STGraph} {c : WalkCfg} {ub : Edge → Rat} {a : Asg}

theorem c05_layer_facts (hwf : STWFc s) (hsat : Sat a (encodeWalks s c ub)) {i : Nat} (hi : i < c.k)
    (hu : layerUsed s a i = true) :
    IsSTWalkG s.g s.source s.sink (layerWalk s a i) ∧
    ∀ e : Edge, traversals (layerWalk s a i) e = if e ∈ s.g.edges then multOf a i e else 0 := by
  obtain ⟨_, hempty, hwalk⟩ := walkcore_sound s c ub a hwf hsat i hi
  have hex : ∃ v ∈ s.g.succ s.source, multOf a i (s.source, v) ≠ 0 := by
    apply Classical.byContradiction
    intro hno
    have h0 : ∀ v ∈ s.g.succ s.source, multOf a i (s.source, v) = 0 := by
      intro v hv
      apply Classical.byContradiction
      intro hm
      exact hno ⟨v, hv, hm⟩
    obtain ⟨_, _, hall⟩ := hempty h0
    unfold layerUsed at hu
    obtain ⟨e, he, hne⟩ := List.any_eq_true.1 hu
    have := hall e he
    simp [this] at hne
  have htr := hwalk hex
  refine ⟨⟨?_, ?_, ?_⟩, htr⟩
  · intro e he
    have hpos : 0 < traversals (layerWalk s a i) e := List.count_pos_iff.2 he
    have := htr e
    unfold layerWalk at hpos
    by_cases hm : e ∈ s.g.edges
    · exact hm
    · rw [this, if_neg hm] at hpos; omega
  · rfl
  · show (s.source :: (decodeWalkLayer s a i ++ [s.sink])).getLast? = some s.sink
    rw [← List.cons_append]
    exact List.getLast?_concat

theorem c05_mult_ne_zero_of_one_le (hsat : Sat a (encodeWalks s c ub)) {i : Nat} (hi : i < c.k) {e : Edge}
    (he : e ∈ s.g.edges) (h1 : 1 ≤ a (edgeVar e i)) : multOf a i e ≠ 0 := by
  intro h0
  have := edge_col hsat hi he
  rw [h0] at this
  rw [this] at h1
  have h2 : ((0 : Nat) : Rat) = 0 := by simp
  rw [h2] at h1
  exact absurd h1 (by decide)

theorem c05_layerUsed_of_one_le (hsat : Sat a (encodeWalks s c ub)) {i : Nat} (hi : i < c.k) {e : Edge}
    (he : e ∈ s.g.edges) (h1 : 1 ≤ a (edgeVar e i)) : layerUsed s a i = true := by
  unfold layerUsed
  apply List.any_eq_true.2
  exact ⟨e, he, by simpa using c05_mult_ne_zero_of_one_le hsat hi he h1⟩

/-- slot data: layer `i` is used and its walk contains `q` -/
structure SlotOK (s : STGraph) (a : Asg) (q : List Edge) (i : Nat) : Prop where
  used : layerUsed s a i = true
  occ : Occurs q (layerWalk s a i)

/-- a sequence that is safe for the trusted edges is contained in the walk of some layer -/
theorem exists_layer_of_safe (hwf : STWFc s) (hsat : Sat a (encodeWalks s c ub)) (X : List Edge)
    (hX : ∀ x ∈ X, x ∈ s.g.edges) (hcover : ∀ x ∈ X, ∃ i, i < c.k ∧ 1 ≤ a (edgeVar x i))
    (q : List Edge) (hq : SafeFor s.g s.source s.sink X q) : ∃ i, i < c.k ∧ SlotOK s a q i := by
  let ws := ((List.range c.k).filter (layerUsed s a)).map (layerWalk s a)
  have hws : ∀ w ∈ ws, IsSTWalkG s.g s.source s.sink w := by
    intro w hw
    obtain ⟨i, hi, rfl⟩ := List.mem_map.1 hw
    obtain ⟨hi1, hi2⟩ := List.mem_filter.1 hi
    exact (c05_layer_facts hwf hsat (List.mem_range.1 hi1) hi2).1
  have hcov : CoversX ws X := by
    intro x hx
    obtain ⟨i, hi, h1⟩ := hcover x hx
    have hu := c05_layerUsed_of_one_le hsat hi (hX x hx) h1
    refine ⟨layerWalk s a i, List.mem_map.2 ⟨i, List.mem_filter.2 ⟨List.mem_range.2 hi, hu⟩, rfl⟩, ?_⟩
    have htr := (c05_layer_facts hwf hsat hi hu).2 x
    rw [if_pos (hX x hx)] at htr
    apply List.count_pos_iff.1
    have := c05_mult_ne_zero_of_one_le hsat hi (hX x hx) h1
    unfold traversals at htr
    omega
  obtain ⟨w, hw, ho⟩ := hq ws hws hcov
  obtain ⟨i, hi, rfl⟩ := List.mem_map.1 hw
  obtain ⟨hi1, hi2⟩ := List.mem_filter.1 hi
  exact ⟨i, List.mem_range.1 hi1, hi2, ho⟩

theorem c05_getD_mem {α} (l : List α) (j : Nat) (d : α) (hj : j < l.length) : l.getD j d ∈ l := by
  rw [List.getD_eq_getElem?_getD, List.getElem?_eq_getElem hj]
  exact List.getElem_mem hj

theorem c05_pairwise_getD {α} {R : α → α → Prop} (l : List α) (h : l.Pairwise R) (d : α) (i j : Nat)
    (hij : i < j) (hj : j < l.length) : R (l.getD i d) (l.getD j d) := by
  have hi : i < l.length := by omega
  have := List.pairwise_iff_getElem.1 h i j hi hj hij
  rw [List.getD_eq_getElem?_getD, List.getD_eq_getElem?_getD, List.getElem?_eq_getElem hi,
    List.getElem?_eq_getElem hj]
  exact this

/-- **the slots can be served by distinct layers**: a permutation of the layers puts, for every slot
`j < n`, a walk containing `seqs[j]` at index `j` -/
theorem slots_perm (hwf : STWFc s) (hsat : Sat a (encodeWalks s c ub)) (X : List Edge)
    (hX : ∀ x ∈ X, x ∈ s.g.edges) (hcover : ∀ x ∈ X, ∃ i, i < c.k ∧ 1 ≤ a (edgeVar x i))
    (seqs : List (List Edge)) (hsafe : ∀ q ∈ seqs, SafeFor s.g s.source s.sink X q)
    (hinc : seqs.Pairwise fun p q => ¬ CoOccur s.g s.source s.sink p q) :
    ∀ n, n ≤ seqs.length → n ≤ c.k →
      ∃ π : LayerPerm c.k, ∀ j, j < n → SlotOK s a (seqs.getD j []) (π.fwd j) := by
  intro n
  induction n with
  | zero => intro _ _; exact ⟨LayerPerm.id c.k, fun j hj => by omega⟩
  | succ n ih =>
    intro hlen hk
    obtain ⟨π, hπ⟩ := ih (by omega) (by omega)
    have hn : n < seqs.length := by omega
    obtain ⟨i0, hi0, hok⟩ := exists_layer_of_safe hwf hsat X hX hcover (seqs.getD n [])
      (hsafe _ (c05_getD_mem seqs n [] hn))
    have hp : π.bwd i0 < c.k := π.bwd_lt i0 hi0
    have hfp : π.fwd (π.bwd i0) = i0 := π.fwd_bwd i0 hi0
    have hge : ¬ π.bwd i0 < n := by
      intro hlt
      have h1 := hπ (π.bwd i0) hlt
      rw [hfp] at h1
      have hw := (c05_layer_facts hwf hsat hi0 hok.used).1
      exact c05_pairwise_getD seqs hinc [] (π.bwd i0) n hlt hn ⟨layerWalk s a i0, hw, h1.occ, hok.occ⟩
    refine ⟨π.swapRight n (π.bwd i0) (by omega) hp, ?_⟩
    intro j hj
    show SlotOK s a (seqs.getD j []) (π.fwd (LayerPerm.swapNat n (π.bwd i0) j))
    by_cases hjn : j = n
    · subst hjn
      have : LayerPerm.swapNat j (π.bwd i0) j = π.bwd i0 := by simp [LayerPerm.swapNat]
      rw [this, hfp]; exact hok
    · have hjlt : j < n := by omega
      have : LayerPerm.swapNat n (π.bwd i0) j = j := by
        unfold LayerPerm.swapNat
        rw [if_neg hjn, if_neg (by omega)]
      rw [this]; exact hπ j hjlt

/-- the values of the edge variables of a layer whose walk contains `q` -/
theorem slot_values (hwf : STWFc s) (hsat : Sat a (encodeWalks s c ub)) {i : Nat} (hi : i < c.k)
    {q : List Edge} (hok : SlotOK s a q i) :
    (∀ e ∈ q, ((q.count e : Nat) : Rat) ≤ a (edgeVar e i)) ∧
    (∀ e ∈ q, isSccEdge s.g e = false → a (edgeVar e i) = 1) ∧
    (∀ e ∈ s.g.edges, (∀ w, IsWalkIn s.g w → Occurs q w → e ∉ walkEdges w) → a (edgeVar e i) = 0) := by
  obtain ⟨hw, htr⟩ := c05_layer_facts hwf hsat hi hok.used
  have hsub : q.Sublist (walkEdges (layerWalk s a i)) := hok.occ
  have hmem : ∀ e ∈ q, e ∈ s.g.edges := fun e he => hw.walk e (hsub.subset he)
  have hcnt : ∀ e ∈ q, q.count e ≤ multOf a i e := by
    intro e he
    have h1 := hsub.count_le e
    have h2 := htr e
    rw [if_pos (hmem e he)] at h2
    unfold traversals at h2
    omega
  refine ⟨?_, ?_, ?_⟩
  · intro e he
    rw [edge_col hsat hi (hmem e he)]
    exact Rat.natCast_le_natCast.2 (hcnt e he)
  · intro e he hscc
    have h1 := nonScc_once_proof s.g hwf.closed _ hw.walk e (hmem e he) hscc
    have h2 := htr e
    rw [if_pos (hmem e he)] at h2
    have h3 : 0 < q.count e := List.count_pos_iff.2 he
    have h4 := hcnt e he
    have : multOf a i e = 1 := by omega
    rw [edge_col hsat hi (hmem e he), this]; simp
  · intro e he hno
    have h2 := htr e
    rw [if_pos he] at h2
    have : traversals (layerWalk s a i) e = 0 := List.count_eq_zero.2 (hno _ hw.walk hok.occ)
    rw [edge_col hsat hi he, ← h2, this]; simp

end Layer

/-! ## the zero-fixed keys -/

theorem c05_zeroFix_mem (g : Graph) (walks : List (List Edge)) (k : Nat) (zs : List (Edge × Nat))
    (h : zeroFix g walks k = .ok zs) (e : Edge) (j : Nat) (hz : (e, j) ∈ zs) :
    e ∈ g.edges ∧ j < walks.length ∧ j < k := by
  unfold zeroFix at h
  simp only at h
  split at h
  · cases h
  · injection h with h; subst h
    obtain ⟨⟨i', walk⟩, hmem, hin⟩ := List.mem_flatMap.1 hz
    simp only at hin
    split at hin
    · simp at hin
    · obtain ⟨e', he', heq⟩ := List.mem_map.1 hin
      injection heq with h1 h2; subst h1; subst h2
      obtain ⟨n, hn, hget⟩ := List.mem_iff_getElem.1 hmem
      rw [List.getElem_zip] at hget
      injection hget with hg1 hg2
      simp only [List.getElem_range] at hg1
      subst hg1
      have hlen : n < (walks.take k).length := by simpa using hn
      rw [List.length_take] at hlen
      exact ⟨(List.mem_filter.1 he').1, by omega, by omega⟩

/-- **C06 T3 as a property of the zero-fixed keys**: a key `(e, j)` names an edge of the graph and a slot, and no
walk of the graph that contains slot `j`'s sequence uses `e` -/
def ZeroSound (g : Graph) (seqs : List (List Edge)) (k : Nat) (zs : List (Edge × Nat)) : Prop :=
  ∀ e j, (e, j) ∈ zs → e ∈ g.edges ∧ j < seqs.length ∧ j < k ∧
    ∀ w, IsWalkIn g w → Occurs (seqs.getD j []) w → e ∉ walkEdges w

theorem zeroSound_of_zeroFix (g : Graph) (hg : GraphWF g) (seqs : List (List Edge)) (k : Nat)
    (zs : List (Edge × Nat)) (h : zeroFix g seqs k = .ok zs) : ZeroSound g seqs k zs := by
  intro e j hz
  obtain ⟨he, h1, h2⟩ := c05_zeroFix_mem g seqs k zs h e j hz
  exact ⟨he, h1, h2, zeroFix_sound g hg seqs k zs h e j hz⟩

theorem zeroSound_nil (g : Graph) (seqs : List (List Edge)) (k : Nat) : ZeroSound g seqs k [] :=
  fun _ _ h => by cases h

/-- what the permuted assignment satisfies, slot by slot -/
structure SlotsFit (s : STGraph) (a : Asg) (k : Nat) (seqs : List (List Edge)) (zs : List (Edge × Nat))
    (π : LayerPerm k) : Prop where
  geq : ∀ j, j < min seqs.length k → ∀ e ∈ seqs.getD j [],
    (((seqs.getD j []).count e : Nat) : Rat) ≤ a (edgeVar e (π.fwd j))
  one : ∀ j, j < min seqs.length k → ∀ e ∈ seqs.getD j [], isSccEdge s.g e = false →
    a (edgeVar e (π.fwd j)) = 1
  zero : ∀ e j, (e, j) ∈ zs → a (edgeVar e (π.fwd j)) = 0

/-- **T2 (`safety_rows_satisfiable_after_perm`), semantic form** -/
theorem slotsFit_exists {s : STGraph} {c : WalkCfg} {ub : Edge → Rat} {a : Asg}
    (hwf : STWFc s) (hsat : Sat a (encodeWalks s c ub)) (X : List Edge)
    (hX : ∀ x ∈ X, x ∈ s.g.edges) (hcover : ∀ x ∈ X, ∃ i, i < c.k ∧ 1 ≤ a (edgeVar x i))
    (seqs : List (List Edge)) (hsafe : ∀ q ∈ seqs, SafeFor s.g s.source s.sink X q)
    (hinc : seqs.Pairwise fun p q => ¬ CoOccur s.g s.source s.sink p q)
    (zs : List (Edge × Nat)) (hzs : ZeroSound s.g seqs c.k zs) :
    ∃ π : LayerPerm c.k, SlotsFit s a c.k seqs zs π := by
  obtain ⟨π, hπ⟩ := slots_perm hwf hsat X hX hcover seqs hsafe hinc (min seqs.length c.k)
    (Nat.min_le_left _ _) (Nat.min_le_right _ _)
  refine ⟨π, ⟨?_, ?_, ?_⟩⟩
  · intro j hj e he
    exact (slot_values hwf hsat (π.fwd_lt j (by omega)) (hπ j hj)).1 e he
  · intro j hj e he hscc
    exact (slot_values hwf hsat (π.fwd_lt j (by omega)) (hπ j hj)).2.1 e he hscc
  · intro e j hz
    obtain ⟨he, hj1, hj2, hno⟩ := hzs e j hz
    have hj : j < min seqs.length c.k := by omega
    exact (slot_values hwf hsat (π.fwd_lt j hj2) (hπ j hj)).2.2 e he hno

/-! ## the rows of `safetyExtra` -/

theorem mem_seqEntries (k : Nat) (walks : List (List Edge)) (e : Edge) (j m : Nat) :
    (e, j, m) ∈ seqEntries k walks ↔
      j < min walks.length k ∧ e ∈ walks.getD j [] ∧ m = (walks.getD j []).count e := by
  simp only [seqEntries, counterOf, List.mem_flatMap, List.mem_range, List.mem_map, List.mem_eraseDups]
  constructor
  · rintro ⟨i, hi, p, ⟨e', he', rfl⟩, heq⟩
    injection heq with h1 h2
    injection h2 with h2 h3
    subst h1; subst h2; subst h3
    exact ⟨hi, he', rfl⟩
  · rintro ⟨hj, he, rfl⟩
    exact ⟨j, hj, _, ⟨e, he, rfl⟩, rfl⟩

theorem c05_single_holds_comp (a : Asg) (P : Var → Var) (v : Var) :
    evalTerms (a ∘ P) [(1, v)] = a (P v) := by
  rw [evalTerms_single]; simp

/-- **T2, row form**: every row of the fragment (in its row variant) holds for the permuted assignment -/
theorem safetyRows_hold {s : STGraph} {a : Asg} {k : Nat} {seqs : List (List Edge)} {zs : List (Edge × Nat)}
    {π : LayerPerm k} (hfit : SlotsFit s a k seqs zs π) (P : Var → Var) (hP : IsLayerRenaming π.fwd P)
    (safe : List (List Edge)) (o : SafetyOpts) :
    ∀ r ∈ (safetyExtra s k safe seqs zs o).asRows, r.holds (a ∘ P) := by
  have hPe : ∀ e i, P (edgeVar e i) = edgeVar e (π.fwd i) := fun e i => hP.uvi _ _ _ _
  have hzero : ∀ r ∈ zeroRows zs, r.holds (a ∘ P) := by
    intro r hr
    obtain ⟨p, hp, rfl⟩ := List.mem_map.1 hr
    have := hfit.zero p.1 p.2 hp
    simp only [Row.holds, rowEq, c05_single_holds_comp, hPe]
    rw [this]
    constructor <;> intro x hx <;> cases hx <;> exact Rat.le_refl
  have hgeq : ∀ p ∈ geqEntries s.g k seqs,
      (rowGe [(1, edgeVar p.1 p.2.1)] (p.2.2 : Rat)).holds (a ∘ P) := by
    intro p hp
    obtain ⟨hj, he, hm⟩ := (mem_seqEntries k seqs p.1 p.2.1 p.2.2).1 (List.mem_filter.1 hp).1
    have := hfit.geq p.2.1 hj p.1 he
    simp only [Row.holds, rowGe, c05_single_holds_comp, hPe]
    constructor
    · intro x hx; cases hx; rw [hm]; exact this
    · intro x hx; cases hx
  have heq : ∀ p ∈ eqEntries s.g k seqs,
      (rowEq [(1, edgeVar p.1 p.2.1)] 1).holds (a ∘ P) := by
    intro p hp
    obtain ⟨hp1, hp2⟩ := List.mem_filter.1 hp
    obtain ⟨hj, he, _⟩ := (mem_seqEntries k seqs p.1 p.2.1 p.2.2).1 hp1
    have := hfit.one p.2.1 hj p.1 he (by simpa using hp2)
    simp only [Row.holds, rowEq, c05_single_holds_comp, hPe]
    rw [this]
    constructor <;> intro x hx <;> cases hx <;> exact Rat.le_refl
  intro r hr
  unfold safetyExtra at hr
  split at hr
  · simp [SafetyFrag.asRows] at hr
  split at hr
  · simp [SafetyFrag.asRows] at hr
  have hz' : ∀ r ∈ zeroRows (if o.fixZero = true then zs else []), r.holds (a ∘ P) := by
    intro r hr
    split at hr
    · exact hzero r hr
    · simp [zeroRows] at hr
  simp only at hr
  split at hr
  · simp only [SafetyFrag.asRows, List.map_nil, List.append_nil] at hr
    exact hz' r hr
  split at hr
  · simp only [SafetyFrag.asRows, List.mem_append, List.mem_map] at hr
    rcases hr with (hr | ⟨q, ⟨p, hp, rfl⟩, rfl⟩) | ⟨q, ⟨p, hp, rfl⟩, rfl⟩
    · exact hz' r hr
    · split at hp
      · exact hgeq p hp
      · simp at hp
    · exact heq p hp
  · simp only [SafetyFrag.asRows, List.map_nil, List.append_nil, List.mem_append] at hr
    rcases hr with (hr | hr) | hr
    · exact hz' r hr
    · split at hr
      · obtain ⟨p, hp, rfl⟩ := List.mem_map.1 hr
        exact hgeq p hp
      · simp at hr
    · obtain ⟨p, hp, rfl⟩ := List.mem_map.1 hr
      exact heq p hp

end FP
