import FP.Proofs.BottleneckPath
/-!
# FP.Proofs.Greedy — loop invariant of `decompose_using_max_bottleneck`
-/
namespace FP
open FP.Spec

/-- `Σ_i w_i · (number of traversals of e by p_i)` -/
def peeledSum (ps : List (List Node × Rat)) (e : Edge) : Rat :=
  (ps.map fun pw => pw.2 * (((walkEdges pw.1).count e : Nat) : Rat)).sum

theorem peeledSum_snoc (ps : List (List Node × Rat)) (p : List Node) (b : Rat) (e : Edge) :
    peeledSum (ps ++ [(p, b)]) e = peeledSum ps e + b * (((walkEdges p).count e : Nat) : Rat) := by
  unfold peeledSum
  rw [List.map_append, List.sum_append]
  simp only [List.map_cons, List.map_nil, List.sum_cons, List.sum_nil]
  grind

/-- **loop invariant.** Whatever the input, when the loop stops the flow handed in plus what had
been peeled before equals the residual plus everything peeled; the result extends the accumulator;
the loop stopped because `max_bottleneck_path` returned `(None, None)` on the residual. -/
theorem peel_invariant (g : Graph) (topo : List Node) (n : Nat) :
    ∀ (f : Edge → Rat) (acc : List (List Node × Rat)) (r : Peeled), peelLoop g topo n f acc = .done r →
      (∃ new, r.paths = acc ++ new ∧
        ∀ pw ∈ new, ∃ f', maxBottleneckPath g f' topo = .path pw.2 pw.1) ∧
      (∀ e, f e + peeledSum acc e = r.residual e + peeledSum r.paths e) ∧
      maxBottleneckPath g r.residual topo = .none := by
  induction n with
  | zero => intro f acc r h; simp [peelLoop] at h
  | succ n ih =>
    intro f acc r h
    unfold peelLoop at h
    cases hm : maxBottleneckPath g f topo with
    | none =>
      rw [hm] at h
      simp only [PeelResult.done.injEq] at h
      subst h
      exact ⟨⟨[], by simp, by simp⟩, fun e => rfl, hm⟩
    | path b p =>
      rw [hm] at h
      simp only at h
      obtain ⟨⟨new, h1, h1'⟩, h2, h3⟩ := ih _ _ r h
      refine ⟨⟨(p, b) :: new, by rw [h1]; simp, ?_⟩, ?_, h3⟩
      · intro pw hpw
        rcases List.mem_cons.1 hpw with rfl | hpw
        · exact ⟨f, hm⟩
        · exact h1' pw hpw
      · intro e
        have := h2 e
        rw [peeledSum_snoc] at this
        unfold subtractPath at this
        grind
    | stuck => rw [hm] at h; simp at h

theorem decompose_invariant (g : Graph) (f : Edge → Rat) (topo : List Node) (htopo : IsTopo g.edges topo)
    (r : Peeled) (h : decompose g f topo = .done r) :
    (∀ e, f e = r.residual e + peeledSum r.paths e) ∧
    (∀ pw ∈ r.paths, IsSTPath g pw.1 ∧ pw.2 ≠ 0) ∧
    (∀ p, IsSTPath g p → ∃ e ∈ walkEdges p, r.residual e ≤ 0) := by
  obtain ⟨⟨new, h1, h1'⟩, h2, h3⟩ := peel_invariant g topo _ f [] r h
  refine ⟨?_, ?_, ?_⟩
  · intro e
    have := h2 e
    have h0 : peeledSum [] e = 0 := by simp [peeledSum]
    rw [h0] at this
    grind
  · intro pw hpw
    rw [h1] at hpw
    obtain ⟨f', hf'⟩ := h1' pw (by simpa using hpw)
    have := maxBottleneckPath_spec g f' topo htopo
    rw [hf'] at this
    exact ⟨this.2.1, this.1⟩
  · have := maxBottleneckPath_spec g r.residual topo htopo
    rw [h3] at this
    exact this.none_le

end FP
