import FP.Proofs.FlowLemmas
/-!
# FP.Proofs.WalkLemmas — consecutive-pair lists of vertex sequences, edge multiplicities
-/
namespace FP
open FP.Spec

theorem walkEdges_cons_cons (a b : Node) (l : List Node) :
    walkEdges (a :: b :: l) = (a, b) :: walkEdges (b :: l) := by simp [walkEdges]

theorem walkEdges_single (a : Node) : walkEdges [a] = [] := by simp [walkEdges]

theorem walkEdges_map_snd (l : List Node) : (walkEdges l).map (·.2) = l.tail := by
  unfold walkEdges
  exact List.map_snd_zip (by simp)

theorem walkEdges_map_fst (l : List Node) : (walkEdges l).map (·.1) = l.dropLast := by
  induction l with
  | nil => simp [walkEdges]
  | cons a l ih =>
    cases l with
    | nil => simp [walkEdges]
    | cons b l => rw [walkEdges_cons_cons]; simp only [List.map_cons, ih, List.dropLast_cons_cons]

theorem walkEdges_sub_cons (a : Node) (l : List Node) : ∀ e ∈ walkEdges l, e ∈ walkEdges (a :: l) := by
  intro e he
  cases l with
  | nil => simp [walkEdges] at he
  | cons b l => rw [walkEdges_cons_cons]; exact List.mem_cons_of_mem _ he

theorem walkEdges_sub_append (l m : List Node) : ∀ e ∈ walkEdges l, e ∈ walkEdges (l ++ m) := by
  induction l with
  | nil => intro e he; simp [walkEdges] at he
  | cons a l ih =>
    intro e he
    cases l with
    | nil => simp [walkEdges] at he
    | cons b l =>
      rw [walkEdges_cons_cons] at he
      rw [List.cons_append, List.cons_append, walkEdges_cons_cons]
      rcases List.mem_cons.1 he with rfl | h
      · simp
      · exact List.mem_cons_of_mem _ (ih e h)

theorem mem_walkEdges_mid (l1 l2 : List Node) (a b : Node) :
    (a, b) ∈ walkEdges (l1 ++ a :: b :: l2) := by
  induction l1 with
  | nil => simp [walkEdges_cons_cons]
  | cons x l1 ih => exact walkEdges_sub_cons x _ _ ih

theorem fst_mem_of_mem_walkEdges (l : List Node) (e : Edge) (he : e ∈ walkEdges l) :
    e.1 ∈ l.dropLast := by
  rw [← walkEdges_map_fst]; exact List.mem_map.2 ⟨e, he, rfl⟩

theorem snd_mem_of_mem_walkEdges (l : List Node) (e : Edge) (he : e ∈ walkEdges l) :
    e.2 ∈ l.tail := by
  rw [← walkEdges_map_snd]; exact List.mem_map.2 ⟨e, he, rfl⟩

theorem exists_walkEdge_into (l : List Node) (v : Node) (hv : v ∈ l.tail) :
    ∃ u, (u, v) ∈ walkEdges l := by
  rw [← walkEdges_map_snd] at hv
  obtain ⟨e, he, rfl⟩ := List.mem_map.1 hv
  exact ⟨e.1, he⟩

theorem nodup_of_map {α β} (f : α → β) (l : List α) (h : (l.map f).Nodup) : l.Nodup := by
  have h' := List.pairwise_map.1 h
  exact h'.imp (fun hab heq => hab (by rw [heq]))

theorem walkEdges_nodup (l : List Node) (h : l.Nodup) : (walkEdges l).Nodup := by
  apply nodup_of_map (·.2)
  rw [walkEdges_map_snd]
  exact h.sublist (List.tail_sublist l)

/-- a vertex sequence whose consecutive pairs increase in rank is strictly increasing in rank -/
theorem pairwise_rank_of_walk (rank : Node → Nat) (l : List Node)
    (h : ∀ e ∈ walkEdges l, rank e.1 < rank e.2) : l.Pairwise (fun a b => rank a < rank b) := by
  induction l with
  | nil => simp
  | cons a l ih =>
    cases l with
    | nil => simp
    | cons b l =>
      rw [walkEdges_cons_cons] at h
      have hab : rank a < rank b := h (a, b) (by simp)
      have ih' := ih (fun e he => h e (by simp [he]))
      refine List.pairwise_cons.2 ⟨?_, ih'⟩
      intro c hc
      rcases List.mem_cons.1 hc with rfl | hc
      · exact hab
      · have := (List.pairwise_cons.1 ih').1 c hc
        omega

theorem nodup_of_walk (rank : Node → Nat) (l : List Node)
    (h : ∀ e ∈ walkEdges l, rank e.1 < rank e.2) : l.Nodup :=
  (pairwise_rank_of_walk rank l h).imp (fun hab heq => by rw [heq] at hab; omega)

/-! ## multiplicity of an edge in an edge list, as a rational -/

def cntR (P : List Edge) (e : Edge) : Rat := (P.map (fun p => if e = p then (1 : Rat) else 0)).sum

theorem cntR_mem (P : List Edge) (h : P.Nodup) (e : Edge) (he : e ∈ P) : cntR P e = 1 :=
  sum_single_mem P h e he

theorem cntR_not_mem (P : List Edge) (e : Edge) (he : e ∉ P) : cntR P e = 0 :=
  sum_single_not_mem P e he

theorem cntR_cons (p : Edge) (P : List Edge) (e : Edge) :
    cntR (p :: P) e = (if e = p then 1 else 0) + cntR P e := by simp [cntR]

theorem sum_filter_cntR (l : List Edge) (hnd : l.Nodup) (P : List Edge) (q : Edge → Bool)
    (hP : ∀ p ∈ P, p ∈ l) :
    ((l.filter q).map (cntR P)).sum = (P.map (fun p => if q p then (1 : Rat) else 0)).sum := by
  induction P with
  | nil => simp; exact sum_map_zero _ _ (fun _ _ => by simp [cntR])
  | cons p P ih =>
    have ih' := ih (fun p' hp' => hP p' (by simp [hp']))
    have hfun : cntR (p :: P) = fun e => (if e = p then (1 : Rat) else 0) + cntR P e := by
      funext e; exact cntR_cons p P e
    rw [hfun, sum_map_add, ih']
    have hp := hP p (by simp)
    have hflip : (fun e : Edge => if e = p then (1 : Rat) else 0) = fun e => if p = e then 1 else 0 := by
      funext e
      by_cases h : e = p
      · simp [h]
      · have : ¬ p = e := fun h' => h h'.symm
        simp [h, this]
    rw [hflip]
    simp only [List.map_cons, List.sum_cons]
    by_cases hq : q p = true
    · rw [sum_single_mem _ (hnd.sublist List.filter_sublist) p (List.mem_filter.2 ⟨hp, hq⟩)]
      simp [hq]
    · rw [sum_single_not_mem _ p (fun h => hq (List.mem_filter.1 h).2)]
      simp [hq]

theorem inflow_cntR (g : Graph) (hnd : g.edges.Nodup) (P : List Edge) (hP : ∀ p ∈ P, p ∈ g.edges)
    (v : Node) : inflow g (cntR P) v = (P.map (fun p => if p.2 = v then (1 : Rat) else 0)).sum := by
  unfold inflow
  rw [sum_filter_cntR g.edges hnd P _ hP]
  congr 1; apply List.map_congr_left; intro e _; simp

theorem outflow_cntR (g : Graph) (hnd : g.edges.Nodup) (P : List Edge) (hP : ∀ p ∈ P, p ∈ g.edges)
    (v : Node) : outflow g (cntR P) v = (P.map (fun p => if p.1 = v then (1 : Rat) else 0)).sum := by
  unfold outflow
  rw [sum_filter_cntR g.edges hnd P _ hP]
  congr 1; apply List.map_congr_left; intro e _; simp

/-- number of occurrences of `v` in a vertex list, as a rational -/
def occR (l : List Node) (v : Node) : Rat := (l.map (fun w => if w = v then (1 : Rat) else 0)).sum

theorem heads_walkEdges (l : List Node) (v : Node) :
    ((walkEdges l).map (fun p => if p.2 = v then (1 : Rat) else 0)).sum = occR l.tail v := by
  rw [← walkEdges_map_snd, occR, List.map_map]; rfl

theorem tails_walkEdges (l : List Node) (v : Node) :
    ((walkEdges l).map (fun p => if p.1 = v then (1 : Rat) else 0)).sum = occR l.dropLast v := by
  rw [← walkEdges_map_fst, occR, List.map_map]; rfl

theorem occR_not_mem (l : List Node) (v : Node) (h : v ∉ l) : occR l v = 0 := by
  apply sum_map_zero
  intro w hw
  have : w ≠ v := fun h' => h (h' ▸ hw)
  simp [this]

end FP
