import FP.Proofs.MGSPartitionRangeCut
/-!
# FP.Proofs.MGSPartitionRange — the search range of `MinGenSet.solve` contains the optimum, with partition
constraints

`upper = #distinct numbers + 1 + Σ (len(con) − 1)`, loop `range(lowerbound, max(lowerbound, upper) + 1)`.

* `mgsp_feasible_iff`: the LP of size `k` is feasible iff a solution of size `k` exists, for partition
  constraints of *any* lengths, as long as they are non-empty and sum to `total` (the LP pads every constraint to
  `t = max len` parts; what it sends to a part without a sum row is zero-valued and is re-assigned);
* `mgsp_solvable_upper`: cut `[total]` at every distinct number and at every inner prefix sum of every constraint:
  exactly `upper` pieces, every number and every part is a run of consecutive pieces;
* `mgsp_solvable_mono`: padding with zeros;
* `mgsp_range_proof`: the search returns the least solution size `≥ lowerbound`;
* why the two extra hypotheses are there: `mgsp_empty_constraint_unsolvable`, `mgsp_fractional_constraint_unsolvable`.
-/
namespace FP.GS
open FP FP.Spec FP.Search

/-- what the constructor checks (`sum(con) == total`) and what the docstring asks of partition constraints
(number partitions of `total`: at least one part, non-negative parts; integral parts for `weight_type=int`) -/
def MgsPartData (inp : MGSInput) : Prop :=
  ∀ cons, inp.partition = some cons → ∀ con ∈ cons,
    con ≠ [] ∧ con.sum = inp.total ∧ (∀ x ∈ con, 0 ≤ x) ∧ (inp.weightInt = true → AllInt con)

/-- `Σ (len(con) − 1)` -/
def mgsParts (inp : MGSInput) : Nat :=
  match inp.partition with
  | none => 0
  | some cons => (cons.map fun c => c.length - 1).sum

/-- `upper` of `solve()` -/
def mgsUpper (inp : MGSInput) : Nat := distinctCount inp.numbers + 1 + mgsParts inp

theorem mgsHi_eq (inp : MGSInput) (lb : Nat) : mgsHi inp lb = max lb (mgsUpper inp) + 1 := rfl

/-! ### LP feasibility = solvability, constraints of unequal lengths -/

theorem mgsp_feasible_iff (inp : MGSInput) (k : Nat)
    (hside : inp.maxMult = 1 ∨ ∀ x ∈ inp.numbers, x ≤ inp.total)
    (hcons : ∀ cons, inp.partition = some cons → ∀ con ∈ cons, con ≠ [] ∧ con.sum = inp.total) :
    (∃ a, Sat a (mgsLP inp k)) ↔ SolvableAt inp k := by
  constructor
  · rintro ⟨a, h⟩
    obtain ⟨h1, h2⟩ := mgs_sound_proof inp k a h
    refine ⟨mgsGen a k, by simp [mgsGen], h1, h2, ?_⟩
    intro cons hp con hcon
    obtain ⟨c, hc, rfl⟩ := List.mem_iff_getElem.1 hcon
    obtain ⟨asg, ha1, _, ha3⟩ := mgs_partition_sound_proof inp k a h cons hp c hc
    obtain ⟨hne, hs⟩ := hcons cons hp _ hcon
    exact mgsp_reassign _ _ asg hne h1.2.1 (by rw [h1.1, hs]) (by simp [mgsGen, ha1]) ha3
  · rintro ⟨g, rfl, hg⟩
    obtain ⟨a, ha, _⟩ := mgs_complete_multiset_proof inp g hg.1 hg.2.1 hside (Or.inr (namesOK_all _ _)) hg.2.2
    exact ⟨a, ha⟩

/-! ### a solution with `upper` elements -/

/-- the inner prefix sums `c₀, c₀+c₁, …` of a constraint (without `0` and `Σ con`) -/
def mgsp_inner (con : List Rat) : List Rat :=
  (List.range (con.length - 1)).map fun m => (con.take (m + 1)).sum

/-- all break points: the distinct numbers and the inner prefix sums of every constraint -/
def mgsp_breaks (inp : MGSInput) : List Rat :=
  inp.numbers.eraseDups ++
    (match inp.partition with
     | none => []
     | some cons => cons.flatMap mgsp_inner)

/-- `[total]` cut at every break point -/
def mgsp_pieces (inp : MGSInput) : List Rat := mgsp_cuts [inp.total] (mgsp_breaks inp)

theorem mgsp_breaks_length (inp : MGSInput) : (mgsp_breaks inp).length + 1 = mgsUpper inp := by
  unfold mgsp_breaks mgsUpper mgsParts distinctCount
  cases inp.partition with
  | none => simp
  | some cons =>
    simp only [List.length_append, List.length_flatMap]
    have : (cons.map fun c => (mgsp_inner c).length) = cons.map fun c => c.length - 1 := by
      apply List.map_congr_left
      intro c _
      simp [mgsp_inner]
    rw [this]; omega

theorem mgsp_sum_int (l : List Rat) (h : AllInt l) : ∃ z : Int, l.sum = z := by
  induction l with
  | nil => exact ⟨0, rfl⟩
  | cons a rest ih =>
    obtain ⟨za, hza⟩ := h a (List.mem_cons_self ..)
    obtain ⟨zr, hzr⟩ := ih (fun y hy => h y (List.mem_cons_of_mem _ hy))
    exact ⟨za + zr, by rw [List.sum_cons, hza, hzr, Rat.intCast_add]⟩

theorem mgsp_effMult_one (inp : MGSInput) (hm : inp.maxMult = 1) : mgsEffMult inp = 1 := by
  unfold mgsEffMult; rw [if_pos hm]

theorem mgsp_pieces_solution (inp : MGSInput) (hd : MgsData inp) (hm : inp.maxMult = 1)
    (hpd : MgsPartData inp) : (mgsp_pieces inp).length = mgsUpper inp ∧ MgsSolution inp (mgsp_pieces inp) := by
  have hsum1 : ([inp.total] : List Rat).sum = inp.total := by simp; grind
  have hbounds : ∀ b ∈ mgsp_breaks inp, 0 ≤ b ∧ b ≤ ([inp.total] : List Rat).sum := by
    intro b hb
    rw [hsum1]
    rcases List.mem_append.1 hb with h | h
    · exact hd.bounded b (List.mem_eraseDups.1 h)
    · cases hp : inp.partition with
      | none => rw [hp] at h; simp at h
      | some cons =>
        rw [hp] at h
        obtain ⟨con, hcon, hb'⟩ := List.mem_flatMap.1 h
        obtain ⟨m, _, rfl⟩ := List.mem_map.1 hb'
        obtain ⟨_, hs, hnn, _⟩ := hpd cons hp con hcon
        rw [← hs]
        exact mgsp_take_sum_le con hnn (m + 1)
  obtain ⟨h1, h2, h3, h4, h5, h6⟩ := mgsp_cuts_spec (mgsp_breaks inp) [inp.total]
    (by intro y hy; rw [List.mem_singleton.1 hy]; exact hd.total_nonneg) hbounds
  rw [hsum1] at h2
  refine ⟨?_, ⟨?_, h3, ?_⟩, ?_, ?_⟩
  · unfold mgsp_pieces
    rw [h1, ← mgsp_breaks_length]; simp; omega
  · exact h2
  · intro a ha
    rw [mgsp_effMult_one inp hm]
    apply mgsp_prefix_generates
    exact h5 a (List.mem_append_left _ (List.mem_eraseDups.2 ha))
  · intro hw
    obtain ⟨hnum, ztot, hztot⟩ := hd.integral hw
    apply h6
    · intro y hy; rw [List.mem_singleton.1 hy]; exact ⟨ztot, hztot⟩
    · intro b hb
      rcases List.mem_append.1 hb with h | h
      · exact hnum b (List.mem_eraseDups.1 h)
      · cases hp : inp.partition with
        | none => rw [hp] at h; simp at h
        | some cons =>
          rw [hp] at h
          obtain ⟨con, hcon, hb'⟩ := List.mem_flatMap.1 h
          obtain ⟨m, _, rfl⟩ := List.mem_map.1 hb'
          obtain ⟨_, _, _, hint⟩ := hpd cons hp con hcon
          exact mgsp_sum_int _ (fun y hy => hint hw y (List.mem_of_mem_take hy))
  · intro cons hp con hcon
    obtain ⟨hne, hs, hnn, _⟩ := hpd cons hp con hcon
    apply mgsp_respects_of_prefix con _ hne h3 hnn (by rw [hs]; exact h2)
    intro m
    cases m with
    | zero => simp only [List.take_zero, List.sum_nil]; exact mgsp_prefix_zero _
    | succ m =>
      by_cases hlt : m < con.length - 1
      · apply h5
        apply List.mem_append_right
        rw [hp]
        exact List.mem_flatMap.2 ⟨con, hcon, List.mem_map.2 ⟨m, List.mem_range.2 hlt, rfl⟩⟩
      · have hfull := mgsp_prefix_sum (mgsp_cuts [inp.total] (mgsp_breaks inp))
        rw [h2] at hfull
        rw [List.take_of_length_le (by omega), hs]
        exact hfull

theorem mgsp_solvable_upper (inp : MGSInput) (hd : MgsData inp) (hm : inp.maxMult = 1)
    (hpd : MgsPartData inp) : SolvableAt inp (mgsUpper inp) :=
  ⟨mgsp_pieces inp, (mgsp_pieces_solution inp hd hm hpd).1, (mgsp_pieces_solution inp hd hm hpd).2⟩

/-! ### solution sizes are upward closed (non-empty constraints) -/

theorem mgsp_solvable_succ (inp : MGSInput)
    (hne : ∀ cons, inp.partition = some cons → ∀ con ∈ cons, con ≠ []) (k : Nat) (h : SolvableAt inp k) :
    SolvableAt inp (k + 1) := by
  obtain ⟨g, hlen, hg, hint, hpart⟩ := h
  refine ⟨0 :: g, by simp [hlen], isGenSet_cons_zero g _ _ _ hg, ?_, ?_⟩
  · intro hw x hx
    rcases List.mem_cons.1 hx with rfl | hm
    · exact ⟨0, rfl⟩
    · exact hint hw x hm
  · intro cons hc con hcon
    exact mgsp_respects_cons_zero g con (hne cons hc con hcon) (hpart cons hc con hcon)

theorem mgsp_solvable_mono (inp : MGSInput)
    (hne : ∀ cons, inp.partition = some cons → ∀ con ∈ cons, con ≠ []) (k k' : Nat) (hk : k ≤ k')
    (h : SolvableAt inp k) : SolvableAt inp k' := by
  induction k' with
  | zero => have : k = 0 := by omega
            subst this; exact h
  | succ n ih =>
    by_cases hkn : k = n + 1
    · subst hkn; exact h
    · exact mgsp_solvable_succ inp hne n (ih (by omega))

/-! ### the search -/

/-- `Faithful` of `FP/Props/C15.lean`, spelled out -/
def FaithfulStatuses (inp : MGSInput) (σ : Nat → Status) : Prop :=
  ∀ k, (σ k = .optimal ↔ ∃ a, Sat a (mgsLP inp k)) ∧ (σ k = .infeasible ↔ ¬ ∃ a, Sat a (mgsLP inp k))

theorem mgsp_range_proof (inp : MGSInput) (σ : Nat → Status) (hσ : FaithfulStatuses inp σ)
    (hd : MgsData inp) (hm : inp.maxMult = 1) (hpd : MgsPartData inp) (lb : Nat) :
    ∃ m, (stopSearch σ lb (mgsHi inp lb)).solved = some m ∧ SolvableAt inp m ∧ lb ≤ m ∧
      ∀ j, lb ≤ j → j < m → ¬ SolvableAt inp j := by
  have hne : ∀ cons, inp.partition = some cons → ∀ con ∈ cons, con ≠ [] :=
    fun cons hc con hcon => (hpd cons hc con hcon).1
  have hiff : ∀ k, (∃ a, Sat a (mgsLP inp k)) ↔ SolvableAt inp k := fun k =>
    mgsp_feasible_iff inp k (Or.inl hm)
      (fun cons hc con hcon => ⟨(hpd cons hc con hcon).1, (hpd cons hc con hcon).2.1⟩)
  have htop : SolvableAt inp (max lb (mgsUpper inp)) :=
    mgsp_solvable_mono inp hne _ _ (Nat.le_max_right _ _) (mgsp_solvable_upper inp hd hm hpd)
  obtain ⟨m, hm1, hm2, hm3, hm4⟩ := least_from (SolvableAt inp) lb
    (max lb (mgsUpper inp) - lb) ⟨_, Nat.le_max_left _ _, by omega, htop⟩
  refine ⟨m, ?_, hm3, hm1, hm4⟩
  unfold stopSearch
  apply stopLoop_complete σ _ _ _ m hm1
  · rw [mgsHi_eq]; omega
  · exact (hσ m).1.2 ((hiff m).2 hm3)
  · intro j hj1 hj2
    exact (hσ j).2.2 (fun hf => hm4 j hj1 hj2 ((hiff j).1 hf))

/-! ### the two extra hypotheses cannot be dropped -/

/-- a faithful status script exists for every input (classically) -/
theorem mgsp_faithful_exists (inp : MGSInput) : ∃ σ : Nat → Status, FaithfulStatuses inp σ := by
  classical
  refine ⟨fun k => if ∃ a, Sat a (mgsLP inp k) then .optimal else .infeasible, fun k => ?_⟩
  by_cases h : ∃ a, Sat a (mgsLP inp k)
  · simp [h]
  · simp [h]

/-- an empty constraint `[]` (accepted by the constructor when `total = 0`) is respected by the empty multiset
only: no solution of size `≥ 1` -/
theorem mgsp_empty_constraint_unsolvable (inp : MGSInput) (cons : List (List Rat))
    (hp : inp.partition = some cons) (h : [] ∈ cons) (m : Nat) (hm : 1 ≤ m) : ¬ SolvableAt inp m := by
  rintro ⟨g, hlen, _, _, hpart⟩
  obtain ⟨asg, h1, h2, _⟩ := hpart cons hp [] h
  cases asg with
  | nil => simp at h1; omega
  | cons p ps => exact absurd (h2 p (List.mem_cons_self ..)) (by simp)

/-- `total = 0`: the empty multiset is a solution (also with empty constraints) and `lowerbound = 0` finds it -/
theorem mgsp_range_zero (inp : MGSInput) (σ : Nat → Status) (hσ : FaithfulStatuses inp σ)
    (hd : MgsData inp) (hm : inp.maxMult = 1)
    (hpd : ∀ cons, inp.partition = some cons → ∀ con ∈ cons, con.sum = inp.total ∧ ∀ x ∈ con, 0 ≤ x)
    (hz : inp.total = 0) :
    (stopSearch σ 0 (mgsHi inp 0)).solved = some 0 ∧ SolvableAt inp 0 := by
  have hsol : MgsSolution inp [] := by
    refine ⟨⟨by rw [hz]; rfl, fun x hx => by simp at hx, ?_⟩, fun _ x hx => by simp at hx, ?_⟩
    · intro a ha
      have := hd.bounded a ha
      rw [hz] at this
      have e : a = 0 := by grind
      rw [e]; exact generates_zero _ _
    · intro cons hp con hcon
      obtain ⟨hs, hnn⟩ := hpd cons hp con hcon
      refine ⟨[], rfl, fun p hp' => by simp at hp', fun j hj => ?_⟩
      rw [mgsp_partSum_nil]
      exact (mgsp_sum_zero_all con hnn (by rw [hs, hz]) _ (getD_mem_or con j 0 hj)).symm
  refine ⟨?_, [], rfl, hsol⟩
  unfold stopSearch
  apply stopLoop_complete σ _ _ _ 0 (Nat.le_refl _)
  · rw [mgsHi_eq]; omega
  · obtain ⟨a, ha, _⟩ := mgs_complete_multiset_proof inp [] hsol.1 hsol.2.1 (Or.inl hm)
      (Or.inr (namesOK_all _ _)) hsol.2.2
    exact (hσ 0).1.2 ⟨a, ha⟩
  · intro j hj1 hj2; omega


theorem mgsp_partSum_int (assign : List Nat) : ∀ (g : List Rat) (j : Nat), AllInt g →
    ∃ z : Int, partSum assign g j = z := by
  induction assign with
  | nil => intro g j _; exact ⟨0, by rw [mgsp_partSum_nil]; rfl⟩
  | cons p ps ih =>
    intro g j hg
    cases g with
    | nil => exact ⟨0, by simp [partSum]⟩
    | cons x xs =>
      obtain ⟨zx, hzx⟩ := hg x (List.mem_cons_self ..)
      obtain ⟨zr, hzr⟩ := ih xs j (fun y hy => hg y (List.mem_cons_of_mem _ hy))
      rw [partSum_cons, hzr]
      split
      · exact ⟨zx + zr, by rw [hzx, Rat.intCast_add]⟩
      · exact ⟨zr, by grind⟩

/-- `weight_type=int` with a non-integral part: no solution of any size -/
theorem mgsp_fractional_constraint_unsolvable :
    let inp : MGSInput := { numbers := [], total := 1, weightInt := true, partition := some [[1/2, 1/2]] }
    ∀ m, ¬ SolvableAt inp m := by
  rintro inp m ⟨g, _, _, hint, hpart⟩
  obtain ⟨asg, _, _, h3⟩ := hpart [[1/2, 1/2]] rfl [1/2, 1/2] (by simp)
  obtain ⟨z, hz⟩ := mgsp_partSum_int asg g 0 (hint rfl)
  have h0 := h3 0 (by simp)
  rw [hz] at h0
  have hden := congrArg Rat.den h0
  simp at hden
  revert hden
  decide +kernel

end FP.GS
