import FP.Model.WalkDecodeRound
import FP.Proofs.Euler
import FP.Proofs.Round
import FP.Proofs.WalkResidual
/-!
# FP.Proofs.WalkDecodeMult — from multiplicities to the residual adjacency structure and the walk
-/
namespace FP.WDM
open FP FP.Euler FP.Spec

theorem count_flatMap_replicate (es : List Edge) (m : Edge → Nat) (e : Edge) :
    (es.flatMap fun e' => List.replicate (m e') e').count e = m e * es.count e := by
  induction es with
  | nil => simp
  | cons a es ih =>
    rw [List.flatMap_cons, List.count_append, ih, List.count_cons, List.count_replicate]
    by_cases h : a = e
    · subst h; simp [Nat.mul_add, Nat.add_comm]
    · have : (a == e) = false := by simpa using h
      simp [this]

theorem flatMap_congr' {α β} (l : List α) (f g : α → List β) (h : ∀ a ∈ l, f a = g a) :
    l.flatMap f = l.flatMap g := by
  induction l with
  | nil => rfl
  | cons a l ih =>
    rw [List.flatMap_cons, List.flatMap_cons, h a (by simp), ih (fun b hb => h b (by simp [hb]))]

theorem count_multEdges (g : Graph) (m : Edge → Nat) (hE : g.edges.Nodup) (e : Edge) :
    (multEdges g m).count e = if e ∈ g.edges then m e else 0 := by
  unfold multEdges
  rw [count_flatMap_replicate, hE.count]
  split <;> simp

theorem edges_buildResidual_eq (g : Graph) (m : Edge → Nat) :
    Euler.edges (buildResidual g m) =
      g.nodes.flatMap fun v => (g.outEdges v).flatMap fun e => List.replicate (m e) e := by
  unfold Euler.edges buildResidual
  rw [List.flatMap_map]
  apply flatMap_congr'
  intro v _
  simp only [List.map_flatMap, List.map_replicate]
  apply flatMap_congr'
  intro e he
  have : e.1 = v := by simpa using (List.mem_filter.1 he).2
  rw [← this]

theorem count_nodes_flatMap (ns : List Node) (es : List Edge) (m : Edge → Nat) (e : Edge) :
    (ns.flatMap fun v => (es.filter (·.1 = v)).flatMap fun e' => List.replicate (m e') e').count e
      = m e * es.count e * ns.count e.1 := by
  induction ns with
  | nil => simp
  | cons v ns ih =>
    rw [List.flatMap_cons, List.count_append, ih, count_flatMap_replicate, List.count_cons]
    by_cases h : v = e.1
    · subst h
      rw [List.count_filter (by simp)]
      simp [Nat.mul_add, Nat.add_comm]
    · have h1 : (v == e.1) = false := by simpa using h
      have h2 : (es.filter (·.1 = v)).count e = 0 := by
        apply List.count_eq_zero_of_not_mem
        intro hm
        have := (List.mem_filter.1 hm).2
        have h3 : e.1 = v := by simpa using this
        exact h h3.symm
      simp [h1, h2]

/-- `_build_residual_graph_for_layer` puts every graph edge `e` exactly `m e` times into the
adjacency structure, and nothing else -/
theorem edges_buildResidual (g : Graph) (m : Edge → Nat) (hN : g.nodes.Nodup) (hE : g.edges.Nodup)
    (hEnd : ∀ e ∈ g.edges, e.1 ∈ g.nodes) (e : Edge) :
    (Euler.edges (buildResidual g m)).count e = if e ∈ g.edges then m e else 0 := by
  rw [edges_buildResidual_eq]
  unfold Graph.outEdges
  rw [count_nodes_flatMap, hE.count, hN.count]
  by_cases h : e ∈ g.edges
  · simp [h, hEnd e h]
  · simp [h]

theorem edges_buildResidual_perm (g : Graph) (m : Edge → Nat) (hN : g.nodes.Nodup)
    (hE : g.edges.Nodup) (hEnd : ∀ e ∈ g.edges, e.1 ∈ g.nodes) :
    (Euler.edges (buildResidual g m)).Perm (multEdges g m) := by
  rw [List.perm_iff_count]
  intro e
  rw [edges_buildResidual g m hN hE hEnd, count_multEdges g m hE]

theorem mem_multEdges (g : Graph) (m : Edge → Nat) (e : Edge) :
    e ∈ multEdges g m ↔ e ∈ g.edges ∧ 0 < m e := by
  unfold multEdges
  simp only [List.mem_flatMap, List.mem_replicate]
  constructor
  · rintro ⟨a, ha, hn, rfl⟩; exact ⟨ha, by omega⟩
  · rintro ⟨h1, h2⟩; exact ⟨e, h1, by omega, rfl⟩

theorem Reach.mono {V : Type} {es es' : List (V × V)} (h : ∀ e ∈ es, e ∈ es') {x y : V}
    (r : Reach es x y) : Reach es' x y := by
  induction r with
  | refl => exact .refl _
  | step _ hm ih => exact .step ih (h _ hm)

/-- Hypotheses of C14 on the graph and the per-walk multiplicities: what the code relies on
structurally (distinct nodes and edges as in a `DiGraph`, endpoints are nodes, `s ≠ t`), balance
of the multiplicities at inner nodes, the source is left once more than entered, the sink
symmetric, every edge with positive multiplicity is reachable from the source along edges of
positive multiplicity. `multEdges g m` lists every graph edge `e` exactly `m e` times, so
`bal (multEdges g m) x` is `Σ_out m − Σ_in m` at `x`. -/
structure MultST (g : Graph) (m : Edge → Nat) (s t : Node) : Prop where
  nodesNodup : g.nodes.Nodup
  edgesNodup : g.edges.Nodup
  endpoints : ∀ e ∈ g.edges, e.1 ∈ g.nodes ∧ e.2 ∈ g.nodes
  smem : s ∈ g.nodes
  st : s ≠ t
  inner : ∀ x, x ≠ s → x ≠ t → bal (multEdges g m) x = 0
  src : bal (multEdges g m) s = 1
  snk : bal (multEdges g m) t = -1
  conn : ∀ e ∈ g.edges, 0 < m e → Reach (multEdges g m) s e.1

theorem walkOfMult_count (g : Graph) (m : Edge → Nat) (s t : Node) (h : MultST g m s t) (e : Edge) :
    (walkEdges (s :: walkOfMult g m s t ++ [t])).count e = if e ∈ g.edges then m e else 0 := by
  have hp := edges_buildResidual_perm g m h.nodesNodup h.edgesNodup (fun e he => (h.endpoints e he).1)
  have hkeys : (buildResidual g m).map (·.1) = g.nodes := by
    unfold buildResidual; rw [List.map_map]; simp [Function.comp_def]
  have hmain := reconstruct_euler_main (buildResidual g m) s t
    (by rw [hkeys]; exact h.nodesNodup) (by rw [hkeys]; exact h.smem)
    (by
      intro e he; rw [hkeys]
      exact (h.endpoints e ((mem_multEdges g m e).1 (hp.mem_iff.1 he)).1).2)
    h.st
    (by intro x h1 h2; rw [bal_perm hp]; exact h.inner x h1 h2)
    (by rw [bal_perm hp]; exact h.src)
    (by rw [bal_perm hp]; exact h.snk)
    (by
      intro e he
      have hm := (mem_multEdges g m e).1 (hp.mem_iff.1 he)
      exact Reach.mono (fun a ha => hp.mem_iff.2 ha) (h.conn e hm.1 hm.2))
  unfold walkOfMult
  rw [hmain.1.count_eq, edges_buildResidual g m h.nodesNodup h.edgesNodup
    (fun e he => (h.endpoints e he).1)]

theorem roundMult_eq (vals : Edge → Rat) (m : Edge → Nat)
    (hv : ∀ e, (m e : Rat) - 1/2 < vals e ∧ vals e < (m e : Rat) + 1/2) : roundMult vals = m := by
  funext e
  exact pyRound_near_toNat (vals e) (m e) (hv e).1 (hv e).2

theorem walkOfValues_count (g : Graph) (vals : Edge → Rat) (m : Edge → Nat) (s t : Node)
    (h : MultST g m s t)
    (hv : ∀ e, (m e : Rat) - 1/2 < vals e ∧ vals e < (m e : Rat) + 1/2) (e : Edge) :
    (walkEdges (s :: walkOfValues g vals s t ++ [t])).count e = if e ∈ g.edges then m e else 0 := by
  unfold walkOfValues
  rw [roundMult_eq vals m hv]
  exact walkOfMult_count g m s t h e

/-- `bal (multEdges g m) x` is the sum of the multiplicities of the out-edges of `x` minus the sum
over its in-edges -/
theorem bal_multEdges (g : Graph) (m : Edge → Nat) (x : Node) :
    bal (multEdges g m) x = (outN g m x : Int) - (inN g m x : Int) := by
  show bal (expand g.edges m) x = _
  unfold bal outdeg indeg outN inN
  rw [countP_expand, countP_expand]

end FP.WDM
