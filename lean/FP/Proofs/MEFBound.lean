import FP.Proofs.MEF
import FP.Proofs.WalkLemmas
/-!
# FP.Proofs.MEFBound — the a-priori bound `ub = w_max · |E|` of `MinErrorFlow` loses no optimum

`cap_flow`: every non-negative flow `x` on a graph with duplicate-free edge list can be lowered, on the
edges where it exceeds `M ≥ 0` only and never below `M` there, to a flow with all values `≤ M · |E|`.

Proof: induction on the number of *heavy* edges (`x e > M`). If some edge `e0 = (u, v)` exceeds
`M · |E|`, the heavy edges contain a closed walk through `e0`, or a simple path between two nodes at
which conservation is not demanded — otherwise the set of nodes reachable from `v` (or reaching `u`)
along heavy edges is a cut crossed by `e0` in one direction and only by light edges in the other,
which bounds `x e0` by `M · |E|`. Lowering the flow along that walk by the least excess makes one heavy
edge light and keeps everything else.
-/
namespace FP
open FP.Spec

/-! ## lists -/

theorem exists_nodup_filter {α} (N : List α) (P : α → Prop) :
    ∃ S : List α, S.Nodup ∧ ∀ w, w ∈ S ↔ (w ∈ N ∧ P w) := by
  induction N with
  | nil => exact ⟨[], List.nodup_nil, by simp⟩
  | cons a N ih =>
    obtain ⟨S, hnd, hS⟩ := ih
    by_cases h : P a ∧ a ∉ S
    · refine ⟨a :: S, List.nodup_cons.2 ⟨h.2, hnd⟩, ?_⟩
      intro w; simp only [List.mem_cons, hS]
      constructor
      · rintro (rfl | ⟨h1, h2⟩)
        · exact ⟨Or.inl rfl, h.1⟩
        · exact ⟨Or.inr h1, h2⟩
      · rintro ⟨rfl | h1, h2⟩
        · exact Or.inl rfl
        · exact Or.inr ⟨h1, h2⟩
    · refine ⟨S, hnd, ?_⟩
      intro w; simp only [List.mem_cons, hS]
      constructor
      · rintro ⟨h1, h2⟩; exact ⟨Or.inr h1, h2⟩
      · rintro ⟨rfl | h1, h2⟩
        · have : w ∈ S := Classical.byContradiction (fun hn => h ⟨h2, hn⟩)
          exact (hS w).1 this
        · exact ⟨h1, h2⟩

theorem length_filter_lt {α} (l : List α) (p p' : α → Bool) (himp : ∀ e ∈ l, p' e = true → p e = true)
    (a : α) (ha : a ∈ l) (hpa : p a = true) (hpa' : p' a = false) :
    (l.filter p').length < (l.filter p).length := by
  induction l with
  | nil => simp at ha
  | cons b l ih =>
    have hle : (l.filter p').length ≤ (l.filter p).length := by
      clear ih ha
      induction l with
      | nil => simp
      | cons c l ih2 =>
        have h1 := himp c (by simp)
        have h2 := ih2 (fun e he => himp e (by
          rcases List.mem_cons.1 he with rfl | h
          · simp
          · simp [h]))
        simp only [List.filter_cons]
        cases hc' : p' c <;> cases hc : p c <;> simp_all <;> omega
    simp only [List.filter_cons]
    rcases List.mem_cons.1 ha with rfl | hm
    · simp only [hpa, hpa', if_true, List.length_cons]
      simp; omega
    · have := ih (fun e he => himp e (by simp [he])) hm
      have hb := himp b (by simp)
      cases hb' : p' b <;> cases hbb : p b <;> simp_all <;> omega

theorem sum_ite_eq_mem (S : List Node) (hS : S.Nodup) (a : Node) (c : Rat) :
    (S.map fun w => if a = w then c else 0).sum = if a ∈ S then c else 0 := by
  induction S with
  | nil => simp
  | cons b S ih =>
    have hb := List.nodup_cons.1 hS
    simp only [List.map_cons, List.sum_cons, ih hb.2, List.mem_cons]
    by_cases h1 : a = b
    · subst h1; simp [hb.1, Rat.add_zero]
    · simp [h1, Rat.zero_add]

/-- double counting: summing fibre sums over a duplicate-free list of fibres -/
theorem sum_sum_fiber (L : List Edge) (S : List Node) (hS : S.Nodup) (π : Edge → Node)
    (x : Edge → Rat) :
    (S.map fun w => ((L.filter (fun e => π e = w)).map x).sum).sum
      = ((L.filter (fun e => decide (π e ∈ S))).map x).sum := by
  induction L with
  | nil => simp; exact sum_map_zero _ _ (fun _ _ => rfl)
  | cons e L ih =>
    have hfun : (fun w => ((List.filter (fun e => π e = w) (e :: L)).map x).sum)
        = fun w => (if π e = w then x e else 0) + ((L.filter (fun e => π e = w)).map x).sum := by
      funext w
      simp only [List.filter_cons]
      by_cases h : π e = w <;> simp [h, Rat.zero_add]
    rw [hfun, sum_map_add, ih, sum_ite_eq_mem S hS]
    simp only [List.filter_cons]
    by_cases h : π e ∈ S <;> simp [h, Rat.zero_add]

theorem sum_filter_split_p16 (L : List Edge) (p q : Edge → Bool) (x : Edge → Rat) :
    ((L.filter p).map x).sum
      = ((L.filter (fun e => p e && q e)).map x).sum + ((L.filter (fun e => p e && !q e)).map x).sum := by
  induction L with
  | nil => simp [Rat.add_zero]
  | cons e L ih =>
    simp only [List.filter_cons]
    cases hp : p e <;> cases hq : q e <;> simp [ih] <;> grind

theorem sum_le_mul_length {α} (L : List α) (x : α → Rat) (M : Rat) (h : ∀ e ∈ L, x e ≤ M) :
    (L.map x).sum ≤ M * (L.length : Rat) := by
  induction L with
  | nil => simp
  | cons e L ih =>
    have h1 := h e (by simp)
    have h2 := ih (fun e he => h e (by simp [he]))
    simp only [List.map_cons, List.sum_cons, List.length_cons]
    have : ((L.length + 1 : Nat) : Rat) = (L.length : Rat) + 1 := by simp
    rw [this]; grind

/-! ## the cut identity -/

/-- `w` is a node at which conservation is demanded -/
def Constrained (g : Graph) (w : Node) : Prop :=
  w ∈ g.nodes ∧ g.inEdges w ≠ [] ∧ g.outEdges w ≠ []

/-- for a duplicate-free set `S` of constrained nodes the flow entering `S` equals the flow leaving it -/
theorem cut_balance (g : Graph) (x : Edge → Rat) (hx : IsFlow g x) (S : List Node) (hS : S.Nodup)
    (hcon : ∀ w ∈ S, Constrained g w) :
    ((g.edges.filter (fun e => decide (e.2 ∈ S) && !decide (e.1 ∈ S))).map x).sum
      = ((g.edges.filter (fun e => decide (e.1 ∈ S) && !decide (e.2 ∈ S))).map x).sum := by
  have hbal : (S.map fun w => ((g.edges.filter (fun e => e.2 = w)).map x).sum).sum
      = (S.map fun w => ((g.edges.filter (fun e => e.1 = w)).map x).sum).sum := by
    apply sum_map_congr
    intro w hw
    obtain ⟨h1, h2, h3⟩ := hcon w hw
    exact hx.cons w h1 h2 h3
  rw [sum_sum_fiber g.edges S hS (·.2) x, sum_sum_fiber g.edges S hS (·.1) x] at hbal
  rw [sum_filter_split_p16 g.edges (fun e => decide (e.2 ∈ S)) (fun e => decide (e.1 ∈ S)) x,
      sum_filter_split_p16 g.edges (fun e => decide (e.1 ∈ S)) (fun e => decide (e.2 ∈ S)) x] at hbal
  have hcomm : (g.edges.filter (fun e => decide (e.2 ∈ S) && decide (e.1 ∈ S)))
      = (g.edges.filter (fun e => decide (e.1 ∈ S) && decide (e.2 ∈ S))) := by
    apply List.filter_congr; intro e _; exact Bool.and_comm _ _
  rw [hcomm] at hbal
  grind

/-- an edge crossing the cut is bounded by `M · |E|` when all edges crossing it the other way are `≤ M` -/
theorem cut_bound_in (g : Graph) (x : Edge → Rat) (hx : IsFlow g x) (M : Rat) (hM : 0 ≤ M)
    (S : List Node) (hS : S.Nodup) (hcon : ∀ w ∈ S, Constrained g w) (e0 : Edge) (he0 : e0 ∈ g.edges)
    (h2 : e0.2 ∈ S) (h1 : e0.1 ∉ S)
    (hlight : ∀ e ∈ g.edges, e.1 ∈ S → e.2 ∉ S → x e ≤ M) :
    x e0 ≤ M * (g.edges.length : Rat) := by
  have hb := cut_balance g x hx S hS hcon
  have hle : x e0 ≤ ((g.edges.filter (fun e => decide (e.2 ∈ S) && !decide (e.1 ∈ S))).map x).sum :=
    le_sum_of_mem _ x (fun e he => hx.nonneg e (List.mem_filter.1 he).1) e0
      (List.mem_filter.2 ⟨he0, by simp [h1, h2]⟩)
  have hub := sum_le_mul_length (g.edges.filter (fun e => decide (e.1 ∈ S) && !decide (e.2 ∈ S))) x M
    (fun e he => by
      have hm := List.mem_filter.1 he
      have hc : e.1 ∈ S ∧ e.2 ∉ S := by simpa using hm.2
      exact hlight e hm.1 hc.1 hc.2)
  have hlen : ((g.edges.filter (fun e => decide (e.1 ∈ S) && !decide (e.2 ∈ S))).length : Rat)
      ≤ (g.edges.length : Rat) := by
    exact_mod_cast List.length_filter_le _ _
  have := Rat.mul_le_mul_of_nonneg_left hlen hM
  grind

theorem cut_bound_out (g : Graph) (x : Edge → Rat) (hx : IsFlow g x) (M : Rat) (hM : 0 ≤ M)
    (S : List Node) (hS : S.Nodup) (hcon : ∀ w ∈ S, Constrained g w) (e0 : Edge) (he0 : e0 ∈ g.edges)
    (h1 : e0.1 ∈ S) (h2 : e0.2 ∉ S)
    (hlight : ∀ e ∈ g.edges, e.2 ∈ S → e.1 ∉ S → x e ≤ M) :
    x e0 ≤ M * (g.edges.length : Rat) := by
  have hb := cut_balance g x hx S hS hcon
  have hle : x e0 ≤ ((g.edges.filter (fun e => decide (e.1 ∈ S) && !decide (e.2 ∈ S))).map x).sum :=
    le_sum_of_mem _ x (fun e he => hx.nonneg e (List.mem_filter.1 he).1) e0
      (List.mem_filter.2 ⟨he0, by simp [h1, h2]⟩)
  have hub := sum_le_mul_length (g.edges.filter (fun e => decide (e.2 ∈ S) && !decide (e.1 ∈ S))) x M
    (fun e he => by
      have hm := List.mem_filter.1 he
      have hc : e.2 ∈ S ∧ e.1 ∉ S := by simpa using hm.2
      exact hlight e hm.1 hc.1 hc.2)
  have hlen : ((g.edges.filter (fun e => decide (e.2 ∈ S) && !decide (e.1 ∈ S))).length : Rat)
      ≤ (g.edges.length : Rat) := by
    exact_mod_cast List.length_filter_le _ _
  have := Rat.mul_le_mul_of_nonneg_left hlen hM
  grind

/-! ## reachability and simple paths -/

theorem reach_trans {es : List Edge} {a b c : Node} (h1 : Reach es a b) (h2 : Reach es b c) :
    Reach es a c := by
  induction h2 with
  | refl => exact h1
  | step _ he ih => exact Reach.step ih he

theorem reach_edge {es : List Edge} (e : Edge) (he : e ∈ es) : Reach es e.1 e.2 :=
  Reach.step (Reach.refl e.1) he

theorem reach_mem {es : List Edge} {a b : Node} (h : Reach es a b) : b = a ∨ b ∈ es.map (·.2) := by
  cases h with
  | refl => exact Or.inl rfl
  | step _ he => exact Or.inr (List.mem_map.2 ⟨_, he, rfl⟩)

theorem reach_mem_src {es : List Edge} {a b : Node} (h : Reach es a b) : a = b ∨ a ∈ es.map (·.1) := by
  induction h with
  | refl => exact Or.inl rfl
  | step hxy he ih =>
    rcases ih with rfl | h
    · exact Or.inr (List.mem_map.2 ⟨_, he, rfl⟩)
    · exact Or.inr h

theorem mem_walkEdges_snoc (l : List Node) (z : Node) (e : Edge) (he : e ∈ walkEdges (l ++ [z])) :
    e ∈ walkEdges l ∨ (l.getLast? = some e.1 ∧ e.2 = z) := by
  induction l with
  | nil => simp [walkEdges] at he
  | cons a l ih =>
    cases l with
    | nil =>
      simp only [List.cons_append, List.nil_append, walkEdges_cons_cons, walkEdges_single,
        List.mem_singleton] at he
      subst he; right; simp
    | cons b l =>
      rw [List.cons_append, List.cons_append, walkEdges_cons_cons] at he
      rcases List.mem_cons.1 he with rfl | h
      · left; rw [walkEdges_cons_cons]; simp
      · rcases ih (by simpa using h) with h' | ⟨h1, h2⟩
        · left; rw [walkEdges_cons_cons]; exact List.mem_cons_of_mem _ h'
        · right; exact ⟨by simpa using h1, h2⟩

/-- a node reachable along `H` is reached by a simple path of `H` -/
theorem simple_path_of_reach (H : List Edge) (a b : Node) (h : Reach H a b) :
    ∃ l : List Node, l.head? = some a ∧ l.getLast? = some b ∧ l.Nodup ∧
      ∀ e ∈ walkEdges l, e ∈ H := by
  induction h with
  | refl => exact ⟨[a], rfl, rfl, by simp, by simp [walkEdges]⟩
  | @step y z hxy hyz ih =>
    obtain ⟨l, hh, hl, hnd, hw⟩ := ih
    by_cases hz : z ∈ l
    · obtain ⟨l1, l2, rfl⟩ := List.append_of_mem hz
      refine ⟨l1 ++ [z], ?_, by simp, ?_, ?_⟩
      · cases l1 with
        | nil => simpa using hh
        | cons c l1 => simpa using hh
      · have : (l1 ++ [z]).Sublist (l1 ++ z :: l2) :=
          List.Sublist.append_left (by simp) l1
        exact hnd.sublist this
      · intro e he
        apply hw
        have := walkEdges_sub_append (l1 ++ [z]) l2 e he
        simpa using this
    · refine ⟨l ++ [z], ?_, by simp, ?_, ?_⟩
      · cases l with
        | nil => simp at hh
        | cons c l => simpa using hh
      · apply List.nodup_append.2
        refine ⟨hnd, by simp, ?_⟩
        intro x hx w hw' hxw
        have : w = z := by simpa using hw'
        subst this; subst hxw; exact hz hx
      · intro e he
        rcases mem_walkEdges_snoc l z e he with h' | ⟨h1, h2⟩
        · exact hw e h'
        · have : e.1 = y := by
            rw [hl] at h1; exact (Option.some.inj h1).symm
          have he' : e = (y, z) := Prod.ext this h2
          rw [he']; exact hyz

/-! ## occurrence counts -/

theorem dropLast_append_of_getLast? (l : List Node) (a : Node) (h : l.getLast? = some a) :
    l.dropLast ++ [a] = l := by
  obtain ⟨ys, rfl⟩ := List.getLast?_eq_some_iff.1 h
  simp

theorem occR_cons (a : Node) (l : List Node) (v : Node) :
    occR (a :: l) v = (if a = v then 1 else 0) + occR l v := by simp [occR]

theorem occR_append (l m : List Node) (v : Node) : occR (l ++ m) v = occR l v + occR m v := by
  simp [occR, List.sum_append]

theorem occR_single (a v : Node) : occR [a] v = if a = v then 1 else 0 := by
  simp [occR, Rat.add_zero]

/-! ## lowering a flow along a heavy closed walk / path between free nodes -/

theorem exists_min_on {α} (l : List α) (hne : l ≠ []) (f : α → Rat) :
    ∃ a ∈ l, ∀ b ∈ l, f a ≤ f b := by
  induction l with
  | nil => exact absurd rfl hne
  | cons a l ih =>
    by_cases hl : l = []
    · subst hl; exact ⟨a, by simp, by simp⟩
    · obtain ⟨m, hm, hmin⟩ := ih hl
      rcases (Rat.le_total : f a ≤ f m ∨ f m ≤ f a) with h | h
      · refine ⟨a, by simp, ?_⟩
        intro b hb
        rcases List.mem_cons.1 hb with rfl | hb'
        · exact Rat.le_refl
        · exact Rat.le_trans h (hmin b hb')
      · refine ⟨m, by simp [hm], ?_⟩
        intro b hb
        rcases List.mem_cons.1 hb with rfl | hb'
        · exact h
        · exact hmin b hb'

theorem reduce_along (g : Graph) (hnd : g.edges.Nodup) (x : Edge → Rat) (hx : IsFlow g x) (M : Rat)
    (hM : 0 ≤ M) (l : List Node) (hlen : walkEdges l ≠ []) (hPnd : (walkEdges l).Nodup)
    (hP : ∀ e ∈ walkEdges l, e ∈ g.edges ∧ M < x e)
    (hbal : ∀ w, Constrained g w → occR l.tail w = occR l.dropLast w) :
    ∃ x'' : Edge → Rat, IsFlow g x'' ∧
      (∀ e, x'' e ≤ x e) ∧ (∀ e, x e ≤ M → x'' e = x e) ∧ (∀ e, M < x e → M ≤ x'' e) ∧
      (∃ e ∈ g.edges, M < x e ∧ x'' e = M) ∧
      ((∃ z : Int, M = z) → (∀ e ∈ g.edges, ∃ z : Int, x e = z) →
        ∀ e ∈ g.edges, ∃ z : Int, x'' e = z) := by
  obtain ⟨em, hem, hmin⟩ := exists_min_on (walkEdges l) hlen x
  have hδ : 0 < x em - M := by have := (hP em hem).2; grind
  have hc1 : ∀ e ∈ walkEdges l, cntR (walkEdges l) e = 1 := fun e he => cntR_mem _ hPnd e he
  have hc0 : ∀ e, e ∉ walkEdges l → cntR (walkEdges l) e = 0 := fun e he => cntR_not_mem _ e he
  have hval : ∀ e, (e ∈ walkEdges l ∧ x e - (x em - M) * cntR (walkEdges l) e = x e - (x em - M))
      ∨ (e ∉ walkEdges l ∧ x e - (x em - M) * cntR (walkEdges l) e = x e) := by
    intro e
    by_cases he : e ∈ walkEdges l
    · left; refine ⟨he, ?_⟩; rw [hc1 e he]; grind
    · right; refine ⟨he, ?_⟩; rw [hc0 e he]; grind
  refine ⟨fun e => x e - (x em - M) * cntR (walkEdges l) e, ⟨?_, ?_⟩, ?_, ?_, ?_, ?_, ?_⟩
  · intro e he
    show 0 ≤ x e - (x em - M) * cntR (walkEdges l) e
    rcases hval e with ⟨hin, hv⟩ | ⟨_, hv⟩
    · rw [hv]; have := hmin e hin; grind
    · rw [hv]; exact hx.nonneg e he
  · intro v hv hin hout
    have hc := hx.cons v hv hin hout
    have hin' : inSum g (fun e => x e - (x em - M) * cntR (walkEdges l) e) v
        = inSum g x v - (x em - M) * occR l.tail v := by
      unfold inSum
      rw [sum_map_sub, sum_map_mul_left_p16]
      have : ((g.inEdges v).map (cntR (walkEdges l))).sum = inflow g (cntR (walkEdges l)) v := rfl
      rw [this, inflow_cntR g hnd _ (fun p hp => (hP p hp).1), heads_walkEdges]
    have hout' : outSum g (fun e => x e - (x em - M) * cntR (walkEdges l) e) v
        = outSum g x v - (x em - M) * occR l.dropLast v := by
      unfold outSum
      rw [sum_map_sub, sum_map_mul_left_p16]
      have : ((g.outEdges v).map (cntR (walkEdges l))).sum = outflow g (cntR (walkEdges l)) v := rfl
      rw [this, outflow_cntR g hnd _ (fun p hp => (hP p hp).1), tails_walkEdges]
    rw [hin', hout', hbal v ⟨hv, hin, hout⟩, hc]
  · intro e
    show x e - (x em - M) * cntR (walkEdges l) e ≤ x e
    rcases hval e with ⟨_, hv⟩ | ⟨_, hv⟩ <;> rw [hv] <;> grind
  · intro e hle
    show x e - (x em - M) * cntR (walkEdges l) e = x e
    rcases hval e with ⟨hin, _⟩ | ⟨_, hv⟩
    · have := (hP e hin).2; grind
    · exact hv
  · intro e hlt
    show M ≤ x e - (x em - M) * cntR (walkEdges l) e
    rcases hval e with ⟨hin, hv⟩ | ⟨_, hv⟩
    · rw [hv]; have := hmin e hin; grind
    · rw [hv]; grind
  · refine ⟨em, (hP em hem).1, (hP em hem).2, ?_⟩
    show x em - (x em - M) * cntR (walkEdges l) em = M
    rw [hc1 em hem]; grind
  · rintro ⟨zM, hzM⟩ hint e he
    show ∃ z : Int, x e - (x em - M) * cntR (walkEdges l) e = z
    obtain ⟨ze, hze⟩ := hint e he
    obtain ⟨zm, hzm⟩ := hint em (hP em hem).1
    rcases hval e with ⟨_, hv⟩ | ⟨_, hv⟩
    · rw [hv]; exact ⟨ze - (zm - zM), by rw [hze, hzm, hzM]; simp [Rat.intCast_sub]⟩
    · rw [hv]; exact ⟨ze, hze⟩

/-! ## a heavy edge above `M · |E|` lies on a heavy closed walk or between two free nodes -/

theorem exists_heavy_structure (g : Graph) (x : Edge → Rat) (hx : IsFlow g x) (M : Rat) (hM : 0 ≤ M)
    (e0 : Edge) (he0 : e0 ∈ g.edges) (hbig : M * (g.edges.length : Rat) < x e0) :
    ∃ l : List Node, walkEdges l ≠ [] ∧ (walkEdges l).Nodup ∧
      (∀ e ∈ walkEdges l, e ∈ g.edges ∧ M < x e) ∧
      (∀ w, Constrained g w → occR l.tail w = occR l.dropLast w) := by
  have hlen : (1 : Rat) ≤ (g.edges.length : Rat) := by
    exact_mod_cast (List.length_pos_of_mem he0 : 1 ≤ g.edges.length)
  have hheavy0 : M < x e0 := by
    have := Rat.mul_le_mul_of_nonneg_left hlen hM
    grind
  -- the heavy edges
  have hH : ∀ e, e ∈ g.edges.filter (fun e => decide (M < x e)) ↔ (e ∈ g.edges ∧ M < x e) := by
    intro e; simp [List.mem_filter]
  generalize hHdef : g.edges.filter (fun e => decide (M < x e)) = H at hH
  have he0H : e0 ∈ H := (hH e0).2 ⟨he0, hheavy0⟩
  by_cases h1 : Reach H e0.2 e0.1
  · -- a simple heavy path from the head of `e0` back to its tail closes a cycle
    obtain ⟨p, hh, hl, hnd, hw⟩ := simple_path_of_reach H _ _ h1
    cases p with
    | nil => simp at hh
    | cons c p' =>
      have hc : c = e0.2 := by simpa using hh
      subst hc
      refine ⟨e0.1 :: e0.2 :: p', ?_, ?_, ?_, ?_⟩
      · rw [walkEdges_cons_cons]; simp
      · rw [walkEdges_cons_cons]
        refine List.nodup_cons.2 ⟨?_, walkEdges_nodup _ hnd⟩
        intro hmem
        have := snd_mem_of_mem_walkEdges _ _ hmem
        exact (List.nodup_cons.1 hnd).1 (by simpa using this)
      · intro e he
        rw [walkEdges_cons_cons] at he
        rcases List.mem_cons.1 he with rfl | h
        · exact ⟨he0, hheavy0⟩
        · exact (hH e).1 (hw e h)
      · intro w _
        have hsplit := dropLast_append_of_getLast? _ e0.1 hl
        have h1' : occR (e0.2 :: p') w = occR (e0.2 :: p').dropLast w + occR [e0.1] w := by
          rw [← occR_append, hsplit]
        have h2' : (e0.1 :: e0.2 :: p').dropLast = e0.1 :: (e0.2 :: p').dropLast := by simp
        rw [occR_single] at h1'
        have h3' := occR_cons e0.1 (e0.2 :: p').dropLast w
        rw [List.tail_cons, h2', h1', h3']
        grind
  · by_cases h2 : ∃ t, Reach H e0.2 t ∧ ¬ Constrained g t
    · by_cases h3 : ∃ s, Reach H s e0.1 ∧ ¬ Constrained g s
      · -- a simple heavy path between two free nodes
        obtain ⟨t, ht, hut⟩ := h2
        obtain ⟨s, hs, hus⟩ := h3
        have hst : Reach H s t := reach_trans hs (reach_trans (reach_edge e0 he0H) ht)
        have hne : s ≠ t := by
          intro h; subst h
          exact h1 (reach_trans ht hs)
        obtain ⟨l, hh, hl, hnd, hw⟩ := simple_path_of_reach H s t hst
        refine ⟨l, ?_, walkEdges_nodup l hnd, fun e he => (hH e).1 (hw e he), ?_⟩
        · cases l with
          | nil => simp at hh
          | cons a l' =>
            cases l' with
            | nil =>
              have ha : a = s := by simpa using hh
              have hb : a = t := by simpa using hl
              exact absurd (ha.symm.trans hb) hne
            | cons b l'' => rw [walkEdges_cons_cons]; simp
        · intro w hw'
          have hws : s ≠ w := fun h => hus (h ▸ hw')
          have hwt : t ≠ w := fun h => hut (h ▸ hw')
          have hsplit := dropLast_append_of_getLast? _ t hl
          have h1' : occR l w = occR l.dropLast w + occR [t] w := by
            rw [← occR_append, hsplit]
          cases l with
          | nil => simp at hh
          | cons a l' =>
            have ha : a = s := by simpa using hh
            subst ha
            have h2' : occR (a :: l') w = (if a = w then 1 else 0) + occR l' w := occR_cons a l' w
            rw [List.tail_cons]
            rw [occR_single] at h1'
            simp only [hws, hwt, if_false] at h1' h2'
            grind
      · -- every node reaching the tail of `e0` along heavy edges is constrained: cut argument
        exfalso
        have hall : ∀ s, Reach H s e0.1 → Constrained g s := fun s hs =>
          Classical.byContradiction (fun hn => h3 ⟨s, hs, hn⟩)
        obtain ⟨B, hBnd, hB⟩ := exists_nodup_filter (e0.1 :: H.map (·.1)) (fun w => Reach H w e0.1)
        have hB' : ∀ w, w ∈ B ↔ Reach H w e0.1 := by
          intro w
          rw [hB]
          constructor
          · exact fun h => h.2
          · intro h
            refine ⟨?_, h⟩
            rcases reach_mem_src h with rfl | h'
            · simp
            · exact List.mem_cons_of_mem _ h'
        have := cut_bound_out g x hx M hM B hBnd (fun w hw => hall w ((hB' w).1 hw)) e0 he0
          ((hB' _).2 (Reach.refl _)) (fun h => h1 ((hB' _).1 h))
          (fun e he h2' h1' => by
            apply Classical.byContradiction
            intro hn
            have hlt : M < x e := by grind
            have heH : e ∈ H := (hH e).2 ⟨he, hlt⟩
            exact h1' ((hB' _).2 (reach_trans (reach_edge e heH) ((hB' _).1 h2'))))
        grind
    · -- every node reachable from the head of `e0` along heavy edges is constrained: cut argument
      exfalso
      have hall : ∀ t, Reach H e0.2 t → Constrained g t := fun t ht =>
        Classical.byContradiction (fun hn => h2 ⟨t, ht, hn⟩)
      obtain ⟨F, hFnd, hF⟩ := exists_nodup_filter (e0.2 :: H.map (·.2)) (fun w => Reach H e0.2 w)
      have hF' : ∀ w, w ∈ F ↔ Reach H e0.2 w := by
        intro w
        rw [hF]
        constructor
        · exact fun h => h.2
        · intro h
          refine ⟨?_, h⟩
          rcases reach_mem h with rfl | h'
          · simp
          · exact List.mem_cons_of_mem _ h'
      have := cut_bound_in g x hx M hM F hFnd (fun w hw => hall w ((hF' w).1 hw)) e0 he0
        ((hF' _).2 (Reach.refl _)) (fun h => h1 ((hF' _).1 h))
        (fun e he h1' h2' => by
          apply Classical.byContradiction
          intro hn
          have hlt : M < x e := by grind
          have heH : e ∈ H := (hH e).2 ⟨he, hlt⟩
          exact h2' ((hF' _).2 (Reach.step ((hF' _).1 h1') heH)))
      grind

/-! ## the cap -/

/-- every flow can be lowered — only where it exceeds `M`, and there not below `M` — to a flow with all
values at most `M · |E|` -/
theorem cap_flow (g : Graph) (hnd : g.edges.Nodup) (M : Rat) (hM : 0 ≤ M) :
    ∀ n, ∀ x : Edge → Rat, IsFlow g x → (g.edges.filter (fun e => decide (M < x e))).length = n →
      ∃ x' : Edge → Rat, IsFlow g x' ∧
        (∀ e, x' e ≤ x e ∧ (x e ≤ M → x' e = x e) ∧ (M < x e → M ≤ x' e)) ∧
        (∀ e ∈ g.edges, x' e ≤ M * (g.edges.length : Rat)) ∧
        ((∃ z : Int, M = z) → (∀ e ∈ g.edges, ∃ z : Int, x e = z) →
          ∀ e ∈ g.edges, ∃ z : Int, x' e = z) := by
  intro n
  induction n using Nat.strongRecOn with
  | _ n ih =>
    intro x hx hn
    by_cases hall : ∀ e ∈ g.edges, x e ≤ M * (g.edges.length : Rat)
    · exact ⟨x, hx, fun e => ⟨Rat.le_refl, fun _ => rfl, fun h => Rat.le_of_lt h⟩, hall, fun _ h => h⟩
    · have hex : ∃ e0 ∈ g.edges, M * (g.edges.length : Rat) < x e0 := by
        apply Classical.byContradiction
        intro hn'
        apply hall
        intro e he
        apply Classical.byContradiction
        intro hle
        exact hn' ⟨e, he, by grind⟩
      obtain ⟨e0, he0, hbig⟩ := hex
      obtain ⟨l, hne, hPnd, hP, hbal⟩ := exists_heavy_structure g x hx M hM e0 he0 hbig
      obtain ⟨x2, hx2, hle2, heq2, hge2, ⟨em, hem, hemh, hemM⟩, hint2⟩ :=
        reduce_along g hnd x hx M hM l hne hPnd hP hbal
      have hlt : (g.edges.filter (fun e => decide (M < x2 e))).length < n := by
        rw [← hn]
        apply length_filter_lt g.edges _ _ ?_ em hem (by simpa using hemh) (by simp [hemM])
        intro e _ h
        have h' : M < x2 e := by simpa using h
        have := hle2 e
        have : M < x e := by grind
        simpa using this
      obtain ⟨x', hx', hinv, hbound, hint'⟩ := ih _ hlt x2 hx2 rfl
      refine ⟨x', hx', ?_, ?_, ?_⟩
      · intro e
        obtain ⟨a1, a2, a3⟩ := hinv e
        have b1 := hle2 e
        refine ⟨Rat.le_trans a1 b1, ?_, ?_⟩
        · intro hle
          have := heq2 e hle
          rw [a2 (by rw [this]; exact hle), this]
        · intro hlt'
          have hge := hge2 e hlt'
          by_cases hc : x2 e ≤ M
          · rw [a2 hc]; exact hge
          · exact a3 (by grind)
      · intro e he
        have := hbound e he
        exact this
      · intro hMz hxz
        exact hint' hMz (hint2 hMz hxz)

/-! ## `MinErrorFlow`: the bound `ub = w_max · |E|` loses no optimum -/

theorem foldl_max_mem (l : List Rat) : ∀ acc, l.foldl max acc = acc ∨ l.foldl max acc ∈ l := by
  induction l with
  | nil => intro acc; simp
  | cons y ys ih =>
    intro acc
    simp only [List.foldl_cons, List.mem_cons]
    rcases ih (max acc y) with h | h
    · rw [h]
      rcases (Rat.le_total : acc ≤ y ∨ y ≤ acc) with h' | h'
      · right; left; grind
      · left; grind
    · right; right; exact h

theorem listMax_mem (l : List Rat) (h : l ≠ []) : listMax l ∈ l := by
  unfold listMax
  cases l with
  | nil => exact absurd rfl h
  | cons a l =>
    simp only [List.headD_cons]
    rcases foldl_max_mem (a :: l) a with h' | h'
    · rw [h']; simp
    · exact h'

theorem MEFInput.graph_edges_nodup (inp : MEFInput) (hwf : BaseWF inp.base) :
    inp.graph.edges.Nodup := by
  cases hac : inp.acyclic with
  | false => rw [inp.graph_cyclic hac]; exact hwf.edgesNodup
  | true =>
    rw [inp.graph_acyclic hac]
    exact aug_edges_nodup hwf.closed hwf.freshSrc hwf.freshSnk hwf.nodesNodup hwf.edgesNodup

theorem qabs_mono_cap (f x x' M : Rat) (hf : f ≤ M) (h1 : x' ≤ x) (h2 : x ≤ M → x' = x)
    (h3 : M < x → M ≤ x') : qabs (f - x') ≤ qabs (f - x) := by
  by_cases h : x ≤ M
  · rw [h2 h]; exact Rat.le_refl
  · have := h3 (by grind)
    unfold qabs
    split <;> split <;> grind

theorem mef_ub_adequate (inp : MEFInput) (hd : inp.DataOK) (hnd : inp.graph.edges.Nodup)
    (hfi : inp.weightInt = true → ∀ e ∈ inp.graph.edges, ∃ z : Int, inp.f e = z)
    (x : Edge → Rat) (hx : IsFlow inp.graph x)
    (hxi : inp.weightInt = true → ∀ e ∈ inp.graph.edges, ∃ z : Int, x e = z) :
    ∃ x', inp.Candidate x' ∧ inp.cost x' ≤ inp.cost x := by
  by_cases hE : inp.graph.edges = []
  · refine ⟨x, ⟨hx, ?_, hxi⟩, Rat.le_refl⟩
    intro e he; rw [hE] at he; simp at he
  · obtain ⟨e1, he1⟩ := List.exists_mem_of_ne_nil _ hE
    have hfle : ∀ e ∈ inp.graph.edges, inp.f e ≤ inp.wmax := fun e he =>
      le_listMax _ _ (List.mem_map.2 ⟨e, he, rfl⟩)
    have hM : 0 ≤ inp.wmax := Rat.le_trans (hd.fNonneg e1 he1) (hfle e1 he1)
    obtain ⟨x', hx', hinv, hbound, hint⟩ := cap_flow inp.graph hnd inp.wmax hM _ x hx rfl
    have hwz : inp.weightInt = true → ∃ z : Int, inp.wmax = z := by
      intro hi
      have hmem := listMax_mem (inp.graph.edges.map fun e => lookupD inp.flow e 0) (by
        intro h; exact hE (List.map_eq_nil_iff.1 h))
      obtain ⟨e, he, heq⟩ := List.mem_map.1 hmem
      obtain ⟨z, hz⟩ := hfi hi e he
      exact ⟨z, by unfold MEFInput.wmax; rw [← heq]; exact hz⟩
    refine ⟨x', ⟨hx', hbound, fun hi => hint (hwz hi) (hxi hi)⟩, ?_⟩
    unfold MEFInput.cost
    have herr : absErr inp.active inp.scale inp.f x' ≤ absErr inp.active inp.scale inp.f x := by
      unfold absErr
      apply sum_map_le_p16
      intro e he
      have hm := List.mem_filter.1 he
      obtain ⟨a1, a2, a3⟩ := hinv e
      exact Rat.mul_le_mul_of_nonneg_left (qabs_mono_cap _ _ _ _ (hfle e hm.1) a1 a2 a3)
        (inp.scale_nonneg hd.scaleNonneg e)
    have hsp : inp.sparsity x' ≤ inp.sparsity x := by
      unfold MEFInput.sparsity
      split
      · rename_i hl
        apply Rat.mul_le_mul_of_nonneg_left _ (Rat.le_of_lt hl)
        unfold outSum
        exact sum_map_le_p16 _ _ _ (fun e _ => (hinv e).1)
      · exact Rat.le_refl
    grind

/-! ## user-level flows of an acyclic input extend to the s-t augmentation -/

/-- positive part -/
def posPart (q : Rat) : Rat := if 0 ≤ q then q else 0

theorem posPart_nonneg (q : Rat) : 0 ≤ posPart q := by unfold posPart; split <;> grind

theorem posPart_int (q : Rat) (h : ∃ z : Int, q = z) : ∃ z : Int, posPart q = z := by
  unfold posPart; split
  · exact h
  · exact ⟨0, by simp⟩

/-- values of the synthetic edges: the excess a node emits comes from the source, the excess it absorbs
goes to the sink -/
def extendUser (b : Graph) (y : Edge → Rat) : Edge → Rat := fun e =>
  if e.1 = srcName then posPart (outSum b y e.2 - inSum b y e.2)
  else if e.2 = snkName then posPart (inSum b y e.1 - outSum b y e.1)
  else y e

theorem sum_int_p16 {α} (l : List α) (f : α → Rat) (h : ∀ e ∈ l, ∃ z : Int, f e = z) :
    ∃ z : Int, (l.map f).sum = z := by
  induction l with
  | nil => exact ⟨0, by simp⟩
  | cons a l ih =>
    obtain ⟨z1, h1⟩ := h a (by simp)
    obtain ⟨z2, h2⟩ := ih (fun e he => h e (by simp [he]))
    exact ⟨z1 + z2, by simp only [List.map_cons, List.sum_cons, h1, h2]; simp [Rat.intCast_add]⟩

theorem mef_user_acyclic_extend (inp : MEFInput) (y : Edge → Rat) (hwf : BaseWF inp.base)
    (hac : inp.acyclic = true) (hnn : ∀ e ∈ inp.base.edges, 0 ≤ y e)
    (h1 : ∀ v ∈ inp.base.nodes, inp.base.outEdges v ≠ [] → v ∉ inp.ends →
      inSum inp.base y v ≤ outSum inp.base y v)
    (h2 : ∀ v ∈ inp.base.nodes, inp.base.inEdges v ≠ [] → v ∉ inp.starts →
      outSum inp.base y v ≤ inSum inp.base y v) :
    IsFlow inp.graph (extendUser inp.base y) ∧ (∀ e ∈ inp.base.edges, extendUser inp.base y e = y e) ∧
    ((∀ e ∈ inp.base.edges, ∃ z : Int, y e = z) →
      ∀ e ∈ inp.graph.edges, ∃ z : Int, extendUser inp.base y e = z) := by
  have hbase : ∀ e ∈ inp.base.edges, extendUser inp.base y e = y e := by
    intro e he
    have hc := hwf.closed e he
    have n1 : e.1 ≠ srcName := fun h => hwf.freshSrc (h ▸ hc.1)
    have n2 : e.2 ≠ snkName := fun h => hwf.freshSnk (h ▸ hc.2)
    simp [extendUser, n1, n2]
  have hin : ∀ v, inSum inp.base (extendUser inp.base y) v = inSum inp.base y v := fun v =>
    sum_map_congr _ _ _ (fun e he => hbase e (List.mem_filter.1 he).1)
  have hout : ∀ v, outSum inp.base (extendUser inp.base y) v = outSum inp.base y v := fun v =>
    sum_map_congr _ _ _ (fun e he => hbase e (List.mem_filter.1 he).1)
  have hedge := fun e => aug_mem_edges (st := inp.starts) (en := inp.ends) hwf.closed (e := e)
  have hsrcv : ∀ v, v ∈ inp.base.nodes →
      extendUser inp.base y (srcName, v) = posPart (outSum inp.base y v - inSum inp.base y v) := by
    intro v _; simp [extendUser]
  have hsnkv : ∀ v, v ∈ inp.base.nodes →
      extendUser inp.base y (v, snkName) = posPart (inSum inp.base y v - outSum inp.base y v) := by
    intro v hv
    have : v ≠ srcName := fun h => hwf.freshSrc (h ▸ hv)
    simp [extendUser, this]
  refine ⟨?_, hbase, ?_⟩
  · rw [inp.graph_acyclic hac]
    constructor
    · intro e he
      rcases (hedge e).1 he with h | h | h
      · rw [hbase e h]; exact hnn e h
      · obtain ⟨h1', h2', _⟩ := mem_snkEdges.1 h
        have : e = (e.1, snkName) := Prod.ext rfl h1'
        rw [this, hsnkv _ h2']; exact posPart_nonneg _
      · obtain ⟨h1', h2', _⟩ := mem_srcEdges.1 h
        have : e = (srcName, e.2) := Prod.ext h1' rfl
        rw [this, hsrcv _ h2']; exact posPart_nonneg _
    · intro v hv hi ho
      rcases aug_mem_nodes.1 hv with hb | ⟨rfl, _⟩ | ⟨rfl, _⟩
      · rw [aug_inSum hwf _ v hb, aug_outSum hwf _ v hb, hin, hout, hsrcv v hb, hsnkv v hb]
        have c1 : isEnd inp.base inp.ends v = false → inSum inp.base y v ≤ outSum inp.base y v := by
          intro hf
          apply h1 v hb
          · intro hnil
            have : isEnd inp.base inp.ends v = true := isEnd_iff.2 (Or.inl ((succ_nil_iff _ _).2 hnil))
            rw [hf] at this; exact absurd this (by decide)
          · intro hm
            have : isEnd inp.base inp.ends v = true := isEnd_iff.2 (Or.inr hm)
            rw [hf] at this; exact absurd this (by decide)
        have c2 : isStart inp.base inp.starts v = false → outSum inp.base y v ≤ inSum inp.base y v := by
          intro hf
          apply h2 v hb
          · intro hnil
            have : isStart inp.base inp.starts v = true :=
              isStart_iff.2 (Or.inl ((pred_nil_iff _ _).2 hnil))
            rw [hf] at this; exact absurd this (by decide)
          · intro hm
            have : isStart inp.base inp.starts v = true := isStart_iff.2 (Or.inr hm)
            rw [hf] at this; exact absurd this (by decide)
        cases hs : isStart inp.base inp.starts v <;> cases he : isEnd inp.base inp.ends v <;>
          simp only [Bool.false_eq_true, if_false, if_true]
        · have := c1 he; have := c2 hs; grind
        · have := c2 hs; unfold posPart; split <;> grind
        · have := c1 he; unfold posPart; split <;> grind
        · unfold posPart; split <;> split <;> grind
      · exfalso
        obtain ⟨e, he⟩ := List.exists_mem_of_ne_nil _ hi
        have hm := List.mem_filter.1 he
        exact aug_srcNoIn hwf.closed hwf.freshSrc e hm.1 (by simpa using hm.2)
      · exfalso
        obtain ⟨e, he⟩ := List.exists_mem_of_ne_nil _ ho
        have hm := List.mem_filter.1 he
        exact aug_snkNoOut hwf.closed hwf.freshSnk e hm.1 (by simpa using hm.2)
  · intro hint e he
    rw [inp.graph_acyclic hac] at he
    have hsumi : ∀ v, ∃ z : Int, inSum inp.base y v = z := fun v =>
      sum_int_p16 _ _ (fun e he => hint e (List.mem_filter.1 he).1)
    have hsumo : ∀ v, ∃ z : Int, outSum inp.base y v = z := fun v =>
      sum_int_p16 _ _ (fun e he => hint e (List.mem_filter.1 he).1)
    rcases (hedge e).1 he with h | h | h
    · rw [hbase e h]; exact hint e h
    · obtain ⟨h1', h2', _⟩ := mem_snkEdges.1 h
      have : e = (e.1, snkName) := Prod.ext rfl h1'
      rw [this, hsnkv _ h2']
      apply posPart_int
      obtain ⟨z1, hz1⟩ := hsumi e.1
      obtain ⟨z2, hz2⟩ := hsumo e.1
      exact ⟨z1 - z2, by rw [hz1, hz2]; simp [Rat.intCast_sub]⟩
    · obtain ⟨h1', h2', _⟩ := mem_srcEdges.1 h
      have : e = (srcName, e.2) := Prod.ext h1' rfl
      rw [this, hsrcv _ h2']
      apply posPart_int
      obtain ⟨z1, hz1⟩ := hsumi e.2
      obtain ⟨z2, hz2⟩ := hsumo e.2
      exact ⟨z2 - z1, by rw [hz1, hz2]; simp [Rat.intCast_sub]⟩

/-- the non-ignored edges of an acyclic input are edges of the input graph -/
theorem MEFInput.active_sub_base (inp : MEFInput) (hwf : BaseWF inp.base) (hac : inp.acyclic = true) :
    ∀ e ∈ inp.active, e ∈ inp.base.edges := by
  intro e he
  have hm := List.mem_filter.1 he
  have hign : inp.ignored e = false := by simpa using hm.2
  have hmem := hm.1
  rw [inp.graph_acyclic hac] at hmem
  rcases (aug_mem_edges (st := inp.starts) (en := inp.ends) hwf.closed).1 hmem with h | h | h
  · exact h
  · exfalso
    have h2' := (mem_snkEdges.1 h).1
    have : e ∈ (augment inp.base inp.starts inp.ends).sourceSinkEdges := by
      unfold STGraph.sourceSinkEdges STGraph.sinkEdges Graph.inEdges
      have hs : (augment inp.base inp.starts inp.ends).sink = snkName := rfl
      exact List.mem_append_right _ (List.mem_filter.2 ⟨hmem, by rw [hs]; simpa using h2'⟩)
    have hc : inp.ignored e = true := by
      unfold MEFInput.ignored
      simp [hac, this]
    rw [hign] at hc; exact absurd hc (by decide)
  · exfalso
    have h1' := (mem_srcEdges.1 h).1
    have : e ∈ (augment inp.base inp.starts inp.ends).sourceSinkEdges := by
      unfold STGraph.sourceSinkEdges STGraph.sourceEdges Graph.outEdges
      have hs : (augment inp.base inp.starts inp.ends).source = srcName := rfl
      exact List.mem_append_left _ (List.mem_filter.2 ⟨hmem, by rw [hs]; simpa using h1'⟩)
    have hc : inp.ignored e = true := by
      unfold MEFInput.ignored
      simp [hac, this]
    rw [hign] at hc; exact absurd hc (by decide)

/-! ## the property on the user's graph -/

theorem MEFInput.cost_of_lambda (inp : MEFInput) (hlam : ¬ inp.lambda > 0) (x : Edge → Rat) :
    inp.cost x = absErr inp.active inp.scale inp.f x := by
  unfold MEFInput.cost MEFInput.sparsity
  simp only [hlam, if_false]; grind

theorem mef_opt_all (inp : MEFInput) (a : Asg) (hnd : inp.graph.edges.Nodup) (hd : inp.DataOK)
    (hfi : inp.weightInt = true → ∀ e ∈ inp.graph.edges, ∃ z : Int, inp.f e = z)
    (hsat : Sat a (mefStage1 inp))
    (hopt : ∀ a', Sat a' (mefStage1 inp) →
      evalTerms a (mefStage1 inp).obj ≤ evalTerms a' (mefStage1 inp).obj)
    (x : Edge → Rat) (hx : IsFlow inp.graph x)
    (hxi : inp.weightInt = true → ∀ e ∈ inp.graph.edges, ∃ z : Int, x e = z) :
    inp.cost (fun e => a (evVar e)) ≤ inp.cost x := by
  obtain ⟨x', hc, hle⟩ := mef_ub_adequate inp hd hnd hfi x hx hxi
  exact Rat.le_trans ((mef_opt_transfer inp a hd hsat hopt).2.1 x' hc) hle

theorem mef_closest_user_acyclic (inp : MEFInput) (a : Asg) (hwf : BaseWF inp.base)
    (hac : inp.acyclic = true) (hlam : ¬ inp.lambda > 0) (hd : inp.DataOK)
    (hfi : inp.weightInt = true → ∀ e ∈ inp.graph.edges, ∃ z : Int, inp.f e = z)
    (hsat : Sat a (mefStage1 inp))
    (hopt : ∀ a', Sat a' (mefStage1 inp) →
      evalTerms a (mefStage1 inp).obj ≤ evalTerms a' (mefStage1 inp).obj)
    (y : Edge → Rat) (hnn : ∀ e ∈ inp.base.edges, 0 ≤ y e)
    (h1 : ∀ v ∈ inp.base.nodes, inp.base.outEdges v ≠ [] → v ∉ inp.ends →
      inSum inp.base y v ≤ outSum inp.base y v)
    (h2 : ∀ v ∈ inp.base.nodes, inp.base.inEdges v ≠ [] → v ∉ inp.starts →
      outSum inp.base y v ≤ inSum inp.base y v)
    (hyi : inp.weightInt = true → ∀ e ∈ inp.base.edges, ∃ z : Int, y e = z) :
    absErr inp.active inp.scale inp.f (fun e => a (evVar e))
      ≤ absErr inp.active inp.scale inp.f y := by
  obtain ⟨hflow, hbase, hint⟩ := mef_user_acyclic_extend inp y hwf hac hnn h1 h2
  have h := mef_opt_all inp a (inp.graph_edges_nodup hwf) hd hfi hsat hopt _ hflow
    (fun hi => hint (hyi hi))
  rw [inp.cost_of_lambda hlam, inp.cost_of_lambda hlam] at h
  have heq : absErr inp.active inp.scale inp.f (extendUser inp.base y)
      = absErr inp.active inp.scale inp.f y := by
    unfold absErr
    apply sum_map_congr
    intro e he
    rw [hbase e (inp.active_sub_base hwf hac e he)]
  rw [heq] at h; exact h

theorem mef_closest_user_cyclic (inp : MEFInput) (a : Asg) (hnd : inp.base.edges.Nodup)
    (hac : inp.acyclic = false) (hlam : ¬ inp.lambda > 0) (hd : inp.DataOK)
    (hfi : inp.weightInt = true → ∀ e ∈ inp.graph.edges, ∃ z : Int, inp.f e = z)
    (hsat : Sat a (mefStage1 inp))
    (hopt : ∀ a', Sat a' (mefStage1 inp) →
      evalTerms a (mefStage1 inp).obj ≤ evalTerms a' (mefStage1 inp).obj)
    (y : Edge → Rat) (hy : IsFlow inp.base y)
    (hyi : inp.weightInt = true → ∀ e ∈ inp.base.edges, ∃ z : Int, y e = z) :
    absErr inp.active inp.scale inp.f (fun e => a (evVar e))
      ≤ absErr inp.active inp.scale inp.f y := by
  have hg := inp.graph_cyclic hac
  have h := mef_opt_all inp a (by rw [hg]; exact hnd) hd hfi hsat hopt y (by rw [hg]; exact hy)
    (by rw [hg]; exact hyi)
  rw [inp.cost_of_lambda hlam, inp.cost_of_lambda hlam] at h
  exact h

end FP
