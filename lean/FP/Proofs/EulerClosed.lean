import FP.Proofs.EulerLemmas
/-!
# FP.Proofs.EulerClosed — the closed-walk builder and list splicing

* `closed_spec`: what `closed` returns in general (extension `ext` of the walk, the departed
  vertices pushed on the stack, one residual edge consumed per step);
* `closed_balanced`: in a balanced residual, started at a vertex with an unused out-edge and with
  enough fuel, `closed` returns a non-trivial closed walk `v … v` and leaves the residual balanced;
* `insertAfterFirst_*`: splicing a closed walk into a walk.
-/
namespace FP.Euler
open FP.Spec
variable {V : Type} [DecidableEq V]

theorem closed_spec (start : V) :
    ∀ (n : Nat) (g : Adj V) (cur : V) (cw stack : List V),
      (g.map (·.1)).Nodup → edgeCount g < n →
      ∃ ext z, (closed n g start cur cw stack).2.1 = cw ++ ext ∧
        (closed n g start cur cw stack).2.2 = stack ++ (cur :: ext).dropLast ∧
        (edges g).Perm (walkEdges (cur :: ext) ++ edges (closed n g start cur cw stack).1) ∧
        (closed n g start cur cw stack).1.map (·.1) = g.map (·.1) ∧
        (cur :: ext).getLast? = some z ∧
        ((ext ≠ [] ∧ z = start) ∨ out (closed n g start cur cw stack).1 z = []) := by
  intro n
  induction n with
  | zero => intro g cur cw stack _ h; omega
  | succ n ih =>
    intro g cur cw stack hk hlt
    simp only [closed]
    split
    · rename_i hnone
      refine ⟨[], cur, by simp, by simp, by simp [walkEdges], rfl, by simp, Or.inr ?_⟩
      exact List.getLast?_eq_none_iff.1 hnone
    · rename_i nxt hn
      have hperm := edges_popOut_perm g cur nxt hk hn
      split
      · rename_i hst
        refine ⟨[nxt], nxt, rfl, by simp, ?_, keys_popOut g cur, by simp, Or.inl ⟨by simp, hst⟩⟩
        simpa [walkEdges] using hperm
      · have hk' : ((popOut g cur).map (·.1)).Nodup := by rw [keys_popOut]; exact hk
        have hlt' : edgeCount (popOut g cur) < n := by
          have := edgeCount_popOut g cur nxt hk hn; omega
        obtain ⟨ext, z, h1, h2, h3, h4, h5, h6⟩ :=
          ih (popOut g cur) nxt (cw ++ [nxt]) (stack ++ [cur]) hk' hlt'
        refine ⟨nxt :: ext, z, by simp [h1], by simp [h2], ?_, by rw [h4, keys_popOut], ?_, ?_⟩
        · refine hperm.trans ?_
          have : walkEdges (cur :: nxt :: ext) = (cur, nxt) :: walkEdges (nxt :: ext) := by
            simp [walkEdges]
          rw [this]
          exact List.Perm.cons _ h3
        · simpa [List.getLast?_cons_cons] using h5
        · rcases h6 with ⟨_, hz⟩ | hz
          · exact Or.inl ⟨by simp, hz⟩
          · exact Or.inr hz

omit [DecidableEq V] in
theorem walkEdges_length (a : V) (l : List V) : (walkEdges (a :: l)).length = l.length := by
  simp [walkEdges]

/-- In a balanced residual, from a vertex `v` with an unused out-edge, and with fuel exceeding the
number of residual edges, `closed` returns a closed walk `v :: ext` (`ext ≠ []`, last vertex `v`),
pushes exactly the departed vertices, and leaves a balanced residual. -/
theorem closed_balanced (n : Nat) (g : Adj V) (v : V) (stack : List V)
    (hk : (g.map (·.1)).Nodup) (hlt : edgeCount g < n)
    (hbal : ∀ x, bal (edges g) x = 0) (hv : out g v ≠ []) :
    ∃ ext, ext ≠ [] ∧ (v :: ext).getLast? = some v ∧
      (closed n g v v [v] stack).2.1 = v :: ext ∧
      (closed n g v v [v] stack).2.2 = stack ++ (v :: ext).dropLast ∧
      (edges g).Perm (walkEdges (v :: ext) ++ edges (closed n g v v [v] stack).1) ∧
      ((closed n g v v [v] stack).1.map (·.1)).Nodup ∧
      (∀ x, bal (edges (closed n g v v [v] stack).1) x = 0) ∧
      edgeCount (closed n g v v [v] stack).1 + ext.length = edgeCount g := by
  obtain ⟨ext, z, h1, h2, h3, h4, h5, h6⟩ := closed_spec v n g v [v] stack hk hlt
  have hk' : ((closed n g v v [v] stack).1.map (·.1)).Nodup := by rw [h4]; exact hk
  -- balance of the residual in terms of the end vertex `z`
  have hb : ∀ x, 0 = ind' (v = x) - ind' (z = x) + bal (edges (closed n g v v [v] stack).1) x := by
    intro x
    have := bal_perm h3 x
    rw [bal_append, hbal x, bal_walkEdges] at this
    have hl : (v :: ext).getLast (by simp) = z := by
      have := h5; rw [List.getLast?_eq_some_getLast (by simp)] at this; simpa using this
    rw [hl] at this; exact this
  have hzv : z = v ∧ ext ≠ [] := by
    rcases h6 with ⟨hne, hz⟩ | hz
    · exact ⟨hz, hne⟩
    · have hnp := bal_nonpos_of_out_nil _ z hk' hz
      have hbz := hb z
      have hzv : z = v := by
        simp only [ind'] at hbz
        by_cases hvz : v = z
        · exact hvz.symm
        · simp [hvz] at hbz; omega
      refine ⟨hzv, ?_⟩
      intro hnil
      subst hnil
      obtain ⟨w, hw⟩ := List.exists_mem_of_ne_nil _ hv
      have h3' : (edges g).Perm (edges (closed n g v v [v] stack).1) := by
        simpa [walkEdges] using h3
      have := mem_out_of_mem_edges _ v w hk' (h3'.subset (mem_edges_of_mem_out g v w hw))
      rw [hzv] at hz; rw [hz] at this; simp at this
  obtain ⟨rfl, hne⟩ := hzv
  refine ⟨ext, hne, h5, by simpa using h1, h2, h3, hk', ?_, ?_⟩
  · intro x; have := hb x; omega
  · have := h3.length_eq
    rw [List.length_append, walkEdges_length, edges_length, edges_length] at this
    omega

/-! ## splicing -/

theorem insertAfterFirst_split (walk : List V) (v : V) (ins : List V) (h : v ∈ walk) :
    ∃ a b, walk = a ++ v :: b ∧ insertAfterFirst walk v ins = a ++ v :: (ins ++ b) := by
  induction walk with
  | nil => simp at h
  | cons x xs ih =>
    by_cases hx : x = v
    · subst hx; exact ⟨[], xs, rfl, by simp [insertAfterFirst]⟩
    · have hv : v ∈ xs := by
        rcases List.mem_cons.1 h with h | h
        · exact absurd h.symm hx
        · exact h
      obtain ⟨a, b, h1, h2⟩ := ih hv
      exact ⟨x :: a, b, by rw [h1]; rfl, by simp [insertAfterFirst, hx, h2]⟩

omit [DecidableEq V] in
theorem walkEdges_append_cons (l1 : List V) (x : V) (l2 : List V) :
    walkEdges (l1 ++ x :: l2) = walkEdges (l1 ++ [x]) ++ walkEdges (x :: l2) := by
  induction l1 with
  | nil => simp [walkEdges]
  | cons y ys ih =>
    cases ys with
    | nil => simp [walkEdges]
    | cons w ws =>
      have e1 : walkEdges (y :: w :: ws ++ x :: l2) = (y, w) :: walkEdges (w :: ws ++ x :: l2) := by
        simp [walkEdges]
      have e2 : walkEdges (y :: w :: ws ++ [x]) = (y, w) :: walkEdges (w :: ws ++ [x]) := by
        simp [walkEdges]
      rw [e1, e2, ih]; rfl

omit [DecidableEq V] in
/-- inserting a closed walk `v :: ext` (ending in `v`) after an occurrence of `v` adds exactly its
edges -/
theorem walkEdges_splice_perm (a b ext : List V) (v : V) (hne : ext ≠ [])
    (hlast : (v :: ext).getLast? = some v) :
    (walkEdges (a ++ v :: (ext ++ b))).Perm (walkEdges (a ++ v :: b) ++ walkEdges (v :: ext)) := by
  have hl : ext.getLast? = some v := by
    cases ext with
    | nil => exact absurd rfl hne
    | cons e es => simpa [List.getLast?_cons_cons] using hlast
  have hs := getLast?_eq_some_split ext v hl
  generalize ext.dropLast = e' at hs
  subst hs
  have e1 : a ++ v :: (e' ++ [v] ++ b) = (a ++ v :: e') ++ v :: b := by simp
  rw [e1, walkEdges_append_cons (a ++ v :: e') v b]
  have e2 : a ++ v :: e' ++ [v] = a ++ v :: (e' ++ [v]) := by simp
  rw [e2, walkEdges_append_cons a v (e' ++ [v]), walkEdges_append_cons a v b]
  rw [List.append_assoc, List.append_assoc]
  exact List.Perm.append_left _ List.perm_append_comm

omit [DecidableEq V] in
theorem splice_head? (a b ins : List V) (v : V) :
    (a ++ v :: (ins ++ b)).head? = (a ++ v :: b).head? := by
  cases a <;> simp

omit [DecidableEq V] in
theorem splice_getLast? (a b ext : List V) (v : V) (hlast : (v :: ext).getLast? = some v) :
    (a ++ v :: (ext ++ b)).getLast? = (a ++ v :: b).getLast? := by
  have e1 : a ++ v :: (ext ++ b) = a ++ ((v :: ext) ++ b) := by simp
  rw [e1, List.getLast?_append, List.getLast?_append, List.getLast?_append, hlast]
  cases b with
  | nil => simp
  | cons y ys =>
    have hz : (y :: ys).getLast? = some ((y :: ys).getLast (List.cons_ne_nil y ys)) :=
      List.getLast?_eq_some_getLast _
    generalize (y :: ys).getLast (List.cons_ne_nil y ys) = z at hz
    simp [hz]

omit [DecidableEq V] in
/-- every vertex of a non-trivial closed walk is departed from -/
theorem mem_dropLast_of_closed (v : V) (ext : List V) (hne : ext ≠ [])
    (hlast : (v :: ext).getLast? = some v) (x : V) (hx : x ∈ v :: ext) :
    x ∈ (v :: ext).dropLast := by
  have hs := getLast?_eq_some_split (v :: ext) v hlast
  have hv : v ∈ (v :: ext).dropLast := by
    cases ext with
    | nil => exact absurd rfl hne
    | cons e es => simp
  rw [hs] at hx
  rcases List.mem_append.1 hx with h | h
  · exact h
  · simp at h; rw [h]; exact hv

omit [DecidableEq V] in
theorem mem_of_mem_walkEdges (l : List V) (e : V × V) (h : e ∈ walkEdges l) : e.2 ∈ l := by
  obtain ⟨x, y⟩ := e
  have := (List.of_mem_zip h).2
  exact List.mem_of_mem_tail this
end FP.Euler
