import FP.Proofs.KFDCRangeRat
import FP.Proofs.C10Subset
import FP.Proofs.DecompConstraints
/-!
# FP.Proofs.KFDCRangeCons — with subset constraints the range `k ≤ |E| + #constraints` is adequate

The loop of `MinFlowDecompCycles.solve` since fix 26b11a1 runs over
`range(lower bound, |E(G)| + len(subset_constraints) + 1)`. If some k-model is satisfiable, one with at
most `|E| + #constraints` layers is:

* every constraint has a layer of the given solution that covers it (`kfdcr_covering`,
  from `subset_constraint_honoured`); without empty layers it is a walk (`kfdcr_layer_is_walk`), within
  the caps, and stays admissible with weight `0`;
* the flow itself is explained by at most `|E|` walks — re-decomposed (`kfdcr_decomp_few`, integer
  weights) or re-weighted (`kfdcr_caratheodory`, float weights);
* the two families together (`kfdcr_range_int_cons`, `kfdcr_range_rat_cons`).
-/
namespace FP
open FP.Spec FP.Euler FP.Search

/-- without empty layers every layer of a satisfying assignment is a walk of the augmented graph -/
theorem kfdcr_layer_is_walk (s : STGraph) (c : WalkCfg) (ub : Edge → Rat) (a : Asg) (hwf : STWFc s)
    (hae : c.allowEmpty = false) (hsat : Sat a (encodeWalks s c ub)) (i : Nat) (hi : i < c.k) :
    IsWalkIn s.g (s.source :: decodeWalkLayer s a i ++ [s.sink]) := by
  obtain ⟨_, hempty, hwalk⟩ := walkcore_sound s c ub a hwf hsat i hi
  by_cases hex : ∃ v ∈ s.g.succ s.source, multOf a i (s.source, v) ≠ 0
  · intro e he
    have h1 := hwalk hex e
    have h2 : 0 < traversals (s.source :: decodeWalkLayer s a i ++ [s.sink]) e := List.count_pos_iff.2 he
    by_cases hm : e ∈ s.g.edges
    · exact hm
    · rw [if_neg hm] at h1; omega
  · exfalso
    have h0 : ∀ v ∈ s.g.succ s.source, multOf a i (s.source, v) = 0 := by
      intro v hv
      apply Classical.byContradiction
      intro hm
      exact hex ⟨v, hv, hm⟩
    have := (hempty h0).1
    rw [hae] at this; cases this

/-- **every subset constraint has a layer that covers it**, in the form `kfdc_complete` asks for -/
theorem kfdcr_covering (inp : WalkInput) (hb : BaseWF inp.base) (a : Asg)
    (hedges : ∀ con ∈ inp.cfg.constraints, ∀ e ∈ con, e ∈ inp.st.g.edges)
    (hsat : Sat a (kfdcLP inp none)) (cI : Nat) (hc : cI < inp.cfg.constraints.length) :
    ∃ i, i < inp.k ∧
      coversB (fun e => traversals (inp.st.source :: decodeWalkLayer inp.st a i ++ [inp.st.sink]) e)
        inp.cfg.constraints[cI] inp.cfg.coverage = true := by
  have hbase := sat_kfdc_base inp none a hsat
  have hcore : Sat a (walkCore inp.st inp.cfg (kfdcCap inp)) := sat_append_left a _ _ hbase
  have henc := sat_enc_of_base hbase
  have hwf : STWFc inp.st := augment_wfc inp.base inp.starts inp.ends hb
  have hed : ∀ e ∈ inp.cfg.constraints[cI], e ∈ inp.st.g.edges :=
    hedges _ (List.getElem_mem hc)
  obtain ⟨i, hi, _, hcnt⟩ := subset_constraint_honoured inp.st inp.cfg (kfdcCap inp) a hcore cI hc hed
  refine ⟨i, hi, ?_⟩
  unfold coversB
  apply decide_eq_true
  have heq : (inp.cfg.constraints[cI].eraseDups.map fun e =>
        if traversals (inp.st.source :: decodeWalkLayer inp.st a i ++ [inp.st.sink]) e = 0 then (0 : Rat) else 1).sum
      = ((inp.cfg.constraints[cI].eraseDups.countP (fun e => decide (1 ≤ a (edgeVar e i))) : Nat) : Rat) := by
    rw [← c10_sum_indicator_countP]
    apply sum_map_congr
    intro e he
    have heE : e ∈ inp.st.g.edges := hed e (List.mem_eraseDups.1 he)
    have h1 := layer_traversals inp.st inp.cfg _ a hwf henc i hi e heE
    have h2 := edge_col henc hi heE
    rw [h1, h2]
    by_cases hm : multOf a i e = 0
    · have h10 : ¬ ((1 : Rat) ≤ 0) := by decide
      simp [hm, h10]
    · have : (1 : Rat) ≤ (multOf a i e : Rat) := by
        have : ((1 : Nat) : Rat) ≤ (multOf a i e : Rat) := Rat.natCast_le_natCast.2 (by omega)
        simpa using this
      simp [hm, this]
  rw [heq]
  exact hcnt

/-- a multiplicity within the caps is at most `w_max` when some non-ignored flow value is at least `1`
(integer weights) -/
theorem kfdcr_cap_le_wmax_int (inp : WalkInput) (hb : BaseWF inp.base) (hint : inp.weightInt = true)
    (hattr : ∀ e ∈ inp.base.edges, ∃ q, inp.fOpt e = some q)
    (hM : ∃ e ∈ inp.activeEdges false, 1 ≤ inp.f e) (j : Nat) (hj : 1 ≤ j) (n : Nat) (e : Edge)
    (he : e ∈ inp.activeEdges false) (hn : (n : Rat) ≤ kfdcCap (inp.withK j) e) :
    (n : Rat) ≤ (inp.withK j).wmax false := by
  rw [kfdcr_cap_attr inp hb hattr j e (kfdcr_active_base inp hb e he).1] at hn
  split at hn
  · exact kfdcr_le_wmax inp hint j hj n e he (Rat.le_trans hn (Rat.floor_le _))
  · obtain ⟨e1, he1, h1⟩ := hM
    exact kfdcr_le_wmax inp hint j hj n e1 he1 (Rat.le_trans hn h1)

section Cons
variable (inp : WalkInput) (hb : BaseWF inp.base)
include hb

/-- **integer weights, subset constraints allowed: `|E| + #constraints` layers suffice** -/
theorem kfdcr_range_int_cons (hst : inp.starts = []) (hen : inp.ends = []) (hign : inp.ignore = [])
    (hint : inp.weightInt = true) (hae : inp.cfg.allowEmpty = false)
    (hedges : ∀ con ∈ inp.cfg.constraints, ∀ e ∈ con, e ∈ inp.st.g.edges)
    (hattr : ∀ e ∈ inp.base.edges, ∃ q, inp.fOpt e = some q)
    (hM : ∃ e ∈ inp.activeEdges false, 1 ≤ inp.f e)
    (hinj : ∀ j, j ≤ inp.base.edges.length + inp.cfg.constraints.length → NameInj (inp.withK j))
    (k : Nat) (hf : KfdcFeasible inp k) :
    ∃ j, j ≤ inp.base.edges.length + inp.cfg.constraints.length ∧ KfdcFeasible inp j := by
  have hwf : STWFc inp.st := augment_wfc inp.base inp.starts inp.ends hb
  obtain ⟨a, ha⟩ := hf
  obtain ⟨hw, hlayer, hdec⟩ := kfdc_exact_proof (inp.withK k) none a hb ha
  have henc : Sat a (encodeWalks inp.st (inp.withK k).cfg (kfdcCap (inp.withK k))) :=
    sat_enc_of_base (sat_kfdc_base (inp.withK k) none a ha)
  let c : Nat → Nat := fun i => (a (weightsVar i)).floor.toNat
  have hc : ∀ i, i < k → a (weightsVar i) = (c i : Rat) :=
    fun i hi => nat_of_int_nonneg _ (hw i hi).1 ((hw i hi).2.2 hint)
  have hdec' : IsWalkDecomp inp.st.source inp.st.sink (inp.activeEdges false) inp.f k
      (decodeWalkLayer inp.st a) (fun i => (c i : Rat)) := by
    intro e he
    have hd : walkExplained inp.st.source inp.st.sink k (decodeWalkLayer inp.st a) (fun i => a (weightsVar i)) e
        = inp.f e := hdec e he
    rw [← hd]
    unfold walkExplained
    apply sum_map_congr
    intro i hi
    show (c i : Rat) * _ = a (weightsVar i) * _
    rw [hc i (List.mem_range.1 hi)]
  have hlw : ∀ i, i < k → IsWalkIn inp.st.g (inp.st.source :: decodeWalkLayer inp.st a i ++ [inp.st.sink]) :=
    fun i hi => kfdcr_layer_is_walk inp.st (inp.withK k).cfg _ a hwf hae henc i hi
  obtain ⟨A, hAle, hA, hflowA⟩ := kfdcr_decomp_few inp hb hst hen hign k (decodeWalkLayer inp.st a) c
    (fun i hi => Or.inl (hlw i hi)) hdec'
  obtain ⟨walkA, n, hfam, hdecA⟩ := kfdcr_family_decomp inp A hA hflowA
  -- one covering layer per constraint
  let m := inp.cfg.constraints.length
  have hcovex : ∀ cI, ∃ i, cI < m → i < k ∧
      coversB (fun e => traversals (inp.st.source :: decodeWalkLayer inp.st a i ++ [inp.st.sink]) e)
        (inp.cfg.constraints.getD cI []) inp.cfg.coverage = true := by
    intro cI
    by_cases hcI : cI < m
    · obtain ⟨i, hi, hcv⟩ := kfdcr_covering (inp.withK k) hb a hedges ha cI hcI
      refine ⟨i, fun _ => ⟨hi, ?_⟩⟩
      have hg : inp.cfg.constraints.getD cI [] = inp.cfg.constraints[cI] := by
        rw [List.getD_eq_getElem?_getD, List.getElem?_eq_getElem hcI]; rfl
      rw [hg]; exact hcv
    · exact ⟨0, fun h => absurd h hcI⟩
  obtain ⟨icov, hicov⟩ := Classical.axiomOfChoice hcovex
  let nA := A.length
  let walk : Nat → List Node := fun i => if i < nA then walkA i else decodeWalkLayer inp.st a (icov (i - nA))
  let w : Nat → Rat := fun i => if i < nA then (n i : Rat) else 0
  refine ⟨nA + m, by omega, ?_⟩
  by_cases hj0 : nA + m = 0
  · have hA0 : A = [] := List.eq_nil_of_length_eq_zero (by omega)
    have hm0 : inp.cfg.constraints = [] := List.eq_nil_of_length_eq_zero (by omega)
    rw [hj0]
    apply kfdcr_feasible_zero inp hm0
    intro e he
    rw [hflowA e he, hA0]; rfl
  have hj1 : 1 ≤ nA + m := by omega
  have hwalk : ∀ i, i < nA + m → IsWalkIn inp.st.g (inp.st.source :: walk i ++ [inp.st.sink]) := by
    intro i hi
    show IsWalkIn inp.st.g (inp.st.source :: (if i < nA then walkA i else _) ++ [inp.st.sink])
    by_cases h : i < nA
    · rw [if_pos h]; exact (hfam i h).2.1
    · rw [if_neg h]; exact hlw _ (hicov (i - nA) (by omega)).1
  have hw0 : ∀ i, i < nA + m → 0 ≤ w i := by
    intro i _
    show (0 : Rat) ≤ if i < nA then (n i : Rat) else 0
    split
    · exact Rat.natCast_nonneg
    · exact Rat.le_refl
  have hdecJ : IsWalkDecomp inp.st.source inp.st.sink (inp.activeEdges false) inp.f (nA + m) walk w := by
    intro e he
    rw [← hdecA e he]
    unfold walkExplained
    rw [sum_range_add_zero _ nA m]
    · apply sum_map_congr
      intro i hi
      have h : i < nA := List.mem_range.1 hi
      show (if i < nA then (n i : Rat) else 0) * ((traversals (inp.st.source ::
        (if i < nA then walkA i else _) ++ [inp.st.sink]) e : Nat) : Rat) = _
      rw [if_pos h, if_pos h]
    · intro i hi
      show (if i < nA then (n i : Rat) else 0) * _ = 0
      rw [if_neg (by omega)]
      simp [Rat.zero_mul]
  have hcapsJ := caps_are_flows (inp.withK (nA + m)) hb hign hattr
  have hwithin : ∀ i, i < nA + m → ∀ e ∈ inp.st.g.edges,
      (traversals (inp.st.source :: walk i ++ [inp.st.sink]) e : Rat) ≤ kfdcCap (inp.withK (nA + m)) e := by
    intro i hi e he
    by_cases h : i < nA
    · cases hs : isSccEdge inp.st.g e with
      | true =>
        obtain ⟨hact, hcap⟩ := hcapsJ e he hs
        rw [hcap]
        have h1 : (1 : Rat) ≤ w i := by
          show (1 : Rat) ≤ if i < nA then (n i : Rat) else 0
          rw [if_pos h]
          have : ((1 : Nat) : Rat) ≤ ((n i : Nat) : Rat) := Rat.natCast_le_natCast.2 (hfam i h).1
          simpa using this
        exact cap_adequate_floor_proof (nA + m) (multsOf inp.st.source inp.st.sink walk) w (inp.f e) e hw0
          (hdecJ e hact) i hi h1
      | false =>
        rw [kfdcCap_eq (inp.withK (nA + m)) e he]
        show _ ≤ (if isSccEdge inp.st.g e then _ else (1 : Rat))
        rw [hs]
        have := nonScc_once_proof inp.st.g hwf.closed _ (hwalk i hi) e he hs
        have h1 : ((traversals (inp.st.source :: walk i ++ [inp.st.sink]) e : Nat) : Rat) ≤ ((1 : Nat) : Rat) :=
          Rat.natCast_le_natCast.2 this
        simpa using h1
    · have hik := (hicov (i - nA) (by omega)).1
      obtain ⟨h1, _, h3⟩ := hlayer (icov (i - nA)) hik e he
      have hwi : walk i = decodeWalkLayer inp.st a (icov (i - nA)) := by
        show (if i < nA then walkA i else _) = _
        rw [if_neg h]
      rw [hwi, kfdcr_cap_attr inp hb hattr _ e he, ← kfdcr_cap_attr inp hb hattr k e he]
      have h1' : traversals (inp.st.source :: decodeWalkLayer inp.st a (icov (i - nA)) ++ [inp.st.sink]) e
          = multOf a (icov (i - nA)) e := h1
      rw [h1']; exact h3
  have hwd : WalkDecompWithin (inp.withK (nA + m)) walk w := by
    refine ⟨hwalk, hwithin, ?_, ?_, ?_, hdecJ, ?_⟩
    · intro i hi
      have hi' : i < nA + m := hi
      refine ⟨hw0 i hi', ?_, fun _ => ?_⟩
      · show (if i < nA then (n i : Rat) else 0) ≤ _
        by_cases h : i < nA
        · rw [if_pos h]
          obtain ⟨h1, _, d, hdA, hdeq⟩ := hfam i h
          obtain ⟨_, _, hW, eb, heb, hbase⟩ := hA d hdA
          have hact : eb ∈ inp.activeEdges false :=
            (kfdcr_active_iff inp hb hign eb).2 ⟨hW eb heb, hbase⟩
          apply kfdcr_le_wmax inp hint (nA + m) hj1 _ eb hact
          rw [hflowA eb hact]
          apply Rat.natCast_le_natCast.2
          have h2 := kfdcr_le_tot hdA eb
          have h3 : 0 < traversals d.1 eb := List.count_pos_iff.2 heb
          have h4 : d.2 * 1 ≤ d.2 * traversals d.1 eb := Nat.mul_le_mul_left _ h3
          have h5 : d.2 = n i := by rw [hdeq]
          omega
        · rw [if_neg h]
          obtain ⟨e1, he1, h1⟩ := hM
          have := kfdcr_le_wmax inp hint (nA + m) hj1 0 e1 he1 (Rat.le_trans (by decide) h1)
          simpa using this
      · show ∃ z : Int, (if i < nA then (n i : Rat) else 0) = z
        by_cases h : i < nA
        · rw [if_pos h]; exact ⟨(n i : Int), (Rat.intCast_natCast _).symm⟩
        · rw [if_neg h]; exact ⟨0, by simp⟩
    · intro i hi e he
      exact kfdcr_cap_le_wmax_int inp hb hint hattr hM (nA + m) hj1 _ e he
        (hwithin i hi e (kfdcr_active_base inp hb e he).1)
    · intro e he
      have : (inp.withK (nA + m)).f e = inp.f e := rfl
      rw [this, hflowA e he]
      exact kfdcr_le_wmax inp hint (nA + m) hj1 _ e he (by rw [hflowA e he]; exact Rat.le_refl)
    · intro cI hcI
      have hcI' : cI < m := hcI
      refine ⟨nA + cI, by show nA + cI < nA + m; omega, ?_⟩
      have hcv := (hicov cI hcI').2
      have hg : inp.cfg.constraints.getD cI [] = inp.cfg.constraints[cI] := by
        rw [List.getD_eq_getElem?_getD, List.getElem?_eq_getElem hcI']; rfl
      rw [hg] at hcv
      have hwi : walk (nA + cI) = decodeWalkLayer inp.st a (icov cI) := by
        show (if nA + cI < nA then walkA (nA + cI) else decodeWalkLayer inp.st a (icov (nA + cI - nA))) = _
        rw [if_neg (by omega), Nat.add_sub_cancel_left]
      show coversB (fun e => traversals (inp.st.source :: walk (nA + cI) ++ [inp.st.sink]) e)
        inp.cfg.constraints[cI] inp.cfg.coverage = true
      rw [hwi]; exact hcv
  exact feasible_of_walks inp (nA + m) walk w hb hj1 (hinj (nA + m) (by omega)) hwd

/-- **float weights, subset constraints allowed: `|E| + #constraints` layers suffice** -/
theorem kfdcr_range_rat_cons (hfloat : inp.weightInt = false) (hae : inp.cfg.allowEmpty = false)
    (hedges : ∀ con ∈ inp.cfg.constraints, ∀ e ∈ con, e ∈ inp.st.g.edges)
    (hattr : ∀ e ∈ inp.base.edges, ∃ q, inp.fOpt e = some q)
    (hM : ∃ e ∈ inp.activeEdges false, 1 ≤ inp.f e)
    (hinj : ∀ j, j ≤ inp.base.edges.length + inp.cfg.constraints.length → NameInj (inp.withK j))
    (k : Nat) (hf : KfdcFeasible inp k) :
    ∃ j, j ≤ inp.base.edges.length + inp.cfg.constraints.length ∧ KfdcFeasible inp j := by
  have hwf : STWFc inp.st := augment_wfc inp.base inp.starts inp.ends hb
  obtain ⟨a, ha⟩ := hf
  obtain ⟨hw, hlayer, hdec⟩ := kfdc_exact_proof (inp.withK k) none a hb ha
  have henc : Sat a (encodeWalks inp.st (inp.withK k).cfg (kfdcCap (inp.withK k))) :=
    sat_enc_of_base (sat_kfdc_base (inp.withK k) none a ha)
  let Ea := inp.activeEdges false
  let L : Nat → List Node := fun i => inp.st.source :: decodeWalkLayer inp.st a i ++ [inp.st.sink]
  let vec : Nat → Edge → Rat := fun i e => ((traversals (L i) e : Nat) : Rat)
  let wt : Nat → Rat := fun i => a (weightsVar i)
  let keep : Nat → Bool := fun i =>
    (walkEdges (L i)).all (fun e => decide (e ∈ inp.st.g.edges)) && (walkEdges (L i)).any (fun e => decide (e ∈ Ea))
  let I0 := (List.range k).filter keep
  -- the maximum flow value
  generalize hMdef : listMax (Ea.map inp.f) = M
  have hfM : ∀ e ∈ Ea, inp.f e ≤ M := fun e he => hMdef ▸ le_listMax _ _ (List.mem_map.2 ⟨e, he, rfl⟩)
  have hM1 : 1 ≤ M := by
    obtain ⟨e1, he1, h1⟩ := hM
    exact Rat.le_trans h1 (hfM e1 he1)
  have hwmax : ∀ j, (inp.withK j).wmax false = (j : Rat) * M := by
    intro j
    show ((inp.withK j).k : Rat) * (if (inp.withK j).weightInt then
      ((listMax (((inp.withK j).activeEdges false).map (inp.withK j).f)).floor : Rat)
      else listMax (((inp.withK j).activeEdges false).map (inp.withK j).f)) = _
    have h1 : (inp.withK j).weightInt = false := hfloat
    have h2 : listMax (((inp.withK j).activeEdges false).map (inp.withK j).f) = M := hMdef
    rw [h1, h2]; rfl
  have hleW : ∀ (j : Nat) (x : Rat), 1 ≤ j → x ≤ M → x ≤ (inp.withK j).wmax false := by
    intro j x hj hx
    rw [hwmax j]
    have h1 : (1 : Rat) ≤ (j : Rat) := by
      have : ((1 : Nat) : Rat) ≤ (j : Rat) := Rat.natCast_le_natCast.2 hj
      simpa using this
    have h2 := Rat.mul_le_mul_of_nonneg_right h1 (show (0 : Rat) ≤ M by grind)
    grind
  -- the kept layers explain the flow
  have hflow0 : ∀ e ∈ Ea, kfdcr_comb I0 wt vec e = inp.f e := by
    intro e he
    have hd : walkExplained inp.st.source inp.st.sink k (decodeWalkLayer inp.st a) wt e = inp.f e := hdec e he
    rw [← hd]
    unfold kfdcr_comb walkExplained
    apply kfdcr_sum_filter_zero_rat
    intro i hi hk
    have hi' : i < k := List.mem_range.1 hi
    have : traversals (L i) e = 0 := by
      rcases kfdcr_layer_walk inp.st (inp.withK k).cfg _ a hwf henc i hi' with hW | hz
      · apply List.count_eq_zero.2
        intro hmem
        have : keep i = true := by
          simp only [keep, Bool.and_eq_true, List.all_eq_true, List.any_eq_true, decide_eq_true_eq]
          exact ⟨fun e' he' => hW e' he', e, hmem, he⟩
        rw [this] at hk; cases hk
      · exact hz e (kfdcr_active_base inp hb e he).1
    show wt i * ((traversals (L i) e : Nat) : Rat) = 0
    rw [this]; simp [Rat.mul_zero]
  have hI0nd : I0.Nodup := List.nodup_range.filter _
  have hw0 : ∀ i ∈ I0, 0 ≤ wt i := fun i hi => (hw i (List.mem_range.1 (List.mem_filter.1 hi).1)).1
  obtain ⟨I', w', hnd', hsub, hlen', hw', heq⟩ := kfdcr_caratheodory Ea vec I0.length I0 wt (Nat.le_refl _) hI0nd hw0
  have hflow' : ∀ e ∈ Ea, kfdcr_comb I' w' vec e = inp.f e := fun e he => by rw [heq e he, hflow0 e he]
  have hjle : I'.length ≤ inp.base.edges.length := Nat.le_trans hlen' (kfdcr_active_le inp hb)
  have hj1 : 1 ≤ I'.length := by
    obtain ⟨e1, he1, h1⟩ := hM
    apply Classical.byContradiction
    intro h
    have : I' = [] := List.eq_nil_of_length_eq_zero (by omega)
    have h0 := hflow' e1 he1
    rw [this] at h0
    have : inp.f e1 = 0 := by rw [← h0]; rfl
    rw [this] at h1
    exact absurd h1 (by decide)
  -- one covering layer per constraint
  let m := inp.cfg.constraints.length
  have hcovex : ∀ cI, ∃ i, cI < m → i < k ∧
      coversB (fun e => traversals (inp.st.source :: decodeWalkLayer inp.st a i ++ [inp.st.sink]) e)
        (inp.cfg.constraints.getD cI []) inp.cfg.coverage = true := by
    intro cI
    by_cases hcI : cI < m
    · obtain ⟨i, hi, hcv⟩ := kfdcr_covering (inp.withK k) hb a hedges ha cI hcI
      refine ⟨i, fun _ => ⟨hi, ?_⟩⟩
      have hg : inp.cfg.constraints.getD cI [] = inp.cfg.constraints[cI] := by
        rw [List.getD_eq_getElem?_getD, List.getElem?_eq_getElem hcI]; rfl
      rw [hg]; exact hcv
    · exact ⟨0, fun h => absurd h hcI⟩
  obtain ⟨icov, hicov⟩ := Classical.axiomOfChoice hcovex
  have hlw : ∀ i, i < k → IsWalkIn inp.st.g (L i) :=
    fun i hi => kfdcr_layer_is_walk inp.st (inp.withK k).cfg _ a hwf hae henc i hi
  let nA := I'.length
  have hget : ∀ i, i < nA → I'.getD i 0 ∈ I' := by
    intro i hi
    rw [List.getD_eq_getElem?_getD, List.getElem?_eq_getElem hi]
    exact List.getElem_mem hi
  have hkeep : ∀ i ∈ I', i < k ∧ keep i = true := by
    intro i hi
    have := List.mem_filter.1 (hsub i hi)
    exact ⟨List.mem_range.1 this.1, this.2⟩
  let idx : Nat → Nat := fun i => if i < nA then I'.getD i 0 else icov (i - nA)
  have hidxk : ∀ i, i < nA + m → idx i < k := by
    intro i hi
    show (if i < nA then I'.getD i 0 else icov (i - nA)) < k
    by_cases h : i < nA
    · rw [if_pos h]; exact (hkeep _ (hget i h)).1
    · rw [if_neg h]; exact (hicov (i - nA) (by omega)).1
  let walk : Nat → List Node := fun i => decodeWalkLayer inp.st a (idx i)
  let w : Nat → Rat := fun i => if i < nA then w' (I'.getD i 0) else 0
  have hterm : ∀ i ∈ I', ∀ e ∈ Ea, w' i * vec i e ≤ inp.f e := by
    intro i hi e he
    rw [← hflow' e he]
    unfold kfdcr_comb
    exact le_sum_of_mem I' (fun i => w' i * vec i e)
      (fun i' hi' => Rat.mul_nonneg (hw' i' hi') Rat.natCast_nonneg) i hi
  have hcapM : ∀ e ∈ Ea, kfdcCap (inp.withK k) e ≤ M := by
    intro e he
    rw [kfdcr_cap_attr inp hb hattr k e (kfdcr_active_base inp hb e he).1]
    split
    · exact Rat.le_trans (Rat.floor_le _) (hfM e he)
    · exact hM1
  have hjm1 : 1 ≤ nA + m := by omega
  refine ⟨nA + m, by omega, ?_⟩
  have hwd : WalkDecompWithin (inp.withK (nA + m)) walk w := by
    refine ⟨?_, ?_, ?_, ?_, ?_, ?_, ?_⟩
    · intro i hi
      exact hlw (idx i) (hidxk i hi)
    · intro i hi e he
      obtain ⟨h1, _, h3⟩ := hlayer (idx i) (hidxk i hi) e he
      have hcap : kfdcCap (inp.withK (nA + m)) e = kfdcCap (inp.withK k) e := by
        rw [kfdcr_cap_attr inp hb hattr _ e he, kfdcr_cap_attr inp hb hattr _ e he]
      show ((traversals (L (idx i)) e : Nat) : Rat) ≤ kfdcCap (inp.withK (nA + m)) e
      rw [hcap]
      have h1' : traversals (L (idx i)) e = multOf a (idx i) e := h1
      rw [h1']; exact h3
    · intro i hi
      by_cases h : i < nA
      · have hmem := hget i h
        have hwi : w i = w' (I'.getD i 0) := by
          show (if i < nA then w' (I'.getD i 0) else 0) = _
          rw [if_pos h]
        rw [hwi]
        refine ⟨hw' _ hmem, ?_, fun h' => ?_⟩
        · have hk := (hkeep _ hmem).2
          simp only [keep, Bool.and_eq_true, List.any_eq_true, decide_eq_true_eq] at hk
          obtain ⟨e, hmemE, heA⟩ := hk.2
          apply hleW _ _ hjm1
          have h1 : 1 ≤ traversals (L (I'.getD i 0)) e := List.count_pos_iff.2 hmemE
          have h2 : (1 : Rat) ≤ vec (I'.getD i 0) e := by
            have : ((1 : Nat) : Rat) ≤ ((traversals (L (I'.getD i 0)) e : Nat) : Rat) :=
              Rat.natCast_le_natCast.2 h1
            simpa using this
          have h3 := Rat.mul_le_mul_of_nonneg_left h2 (hw' _ hmem)
          have h4 := hterm _ hmem e heA
          have h5 := hfM e heA
          show w' (I'.getD i 0) ≤ M
          grind
        · have : (inp.withK (nA + m)).weightInt = false := hfloat
          rw [this] at h'; cases h'
      · have hwi : w i = 0 := by
          show (if i < nA then w' (I'.getD i 0) else 0) = _
          rw [if_neg h]
        rw [hwi]
        refine ⟨Rat.le_refl, hleW _ _ hjm1 (by grind), fun h' => ?_⟩
        have : (inp.withK (nA + m)).weightInt = false := hfloat
        rw [this] at h'; cases h'
    · intro i hi e he
      have heE := (kfdcr_active_base inp hb e he).1
      obtain ⟨h1, _, h3⟩ := hlayer (idx i) (hidxk i hi) e heE
      apply hleW _ _ hjm1
      have h1' : traversals (L (idx i)) e = multOf a (idx i) e := h1
      show ((traversals (L (idx i)) e : Nat) : Rat) ≤ M
      rw [h1']
      exact Rat.le_trans h3 (hcapM e he)
    · intro e he
      exact hleW _ _ hjm1 (hfM e he)
    · intro e he
      have hthis : kfdcr_comb I' w' vec e = inp.f e := hflow' e he
      show walkExplained inp.st.source inp.st.sink (nA + m) walk w e = inp.f e
      rw [← hthis]
      unfold walkExplained kfdcr_comb
      rw [sum_range_add_zero _ nA m]
      · rw [← congrArg List.sum (map_range_getD I' 0 (fun i => w' i * vec i e))]
        apply sum_map_congr
        intro i hi
        have h : i < nA := List.mem_range.1 hi
        show (if i < nA then w' (I'.getD i 0) else 0) * ((traversals (L (if i < nA then I'.getD i 0 else _)) e : Nat) : Rat) = _
        rw [if_pos h, if_pos h]
      · intro i hi
        show (if i < nA then w' (I'.getD i 0) else 0) * _ = 0
        rw [if_neg (by omega)]
        simp [Rat.zero_mul]
    · intro cI hcI
      have hcI' : cI < m := hcI
      refine ⟨nA + cI, by show nA + cI < nA + m; omega, ?_⟩
      have hcv := (hicov cI hcI').2
      have hg : inp.cfg.constraints.getD cI [] = inp.cfg.constraints[cI] := by
        rw [List.getD_eq_getElem?_getD, List.getElem?_eq_getElem hcI']; rfl
      rw [hg] at hcv
      have hwi : walk (nA + cI) = decodeWalkLayer inp.st a (icov cI) := by
        show decodeWalkLayer inp.st a (if nA + cI < nA then I'.getD (nA + cI) 0 else icov (nA + cI - nA)) = _
        rw [if_neg (by omega), Nat.add_sub_cancel_left]
      show coversB (fun e => traversals (inp.st.source :: walk (nA + cI) ++ [inp.st.sink]) e)
        inp.cfg.constraints[cI] inp.cfg.coverage = true
      rw [hwi]; exact hcv
  exact feasible_of_walks inp (nA + m) walk w hb hjm1 (hinj (nA + m) (by omega)) hwd

end Cons

end FP
