import FP.Model.PathCore
import FP.Spec.Routes
import FP.Proofs.PathCoreEnc
import FP.Proofs.Augment
namespace FP
open FP.Spec

/-- well-formed s-t DAG: what `stDAG` guarantees about the augmented graph -/
structure STWF (s : STGraph) : Prop where
  acyclic : Acyclic s.g
  edgesNodup : s.g.edges.Nodup
  nodesNodup : s.g.nodes.Nodup
  closed : ∀ e ∈ s.g.edges, e.1 ∈ s.g.nodes ∧ e.2 ∈ s.g.nodes
  srcNoIn : ∀ e ∈ s.g.edges, e.2 ≠ s.source
  snkNoOut : ∀ e ∈ s.g.edges, e.1 ≠ s.sink
  ne : s.source ≠ s.sink
  noDirect : (s.source, s.sink) ∉ s.g.edges
  /-- every node other than the synthetic ones has an in-edge and an out-edge -/
  inner : ∀ v ∈ s.g.nodes, v ≠ s.source → v ≠ s.sink → s.g.pred v ≠ [] ∧ s.g.succ v ≠ []

/-- well-formed user graph: distinct nodes and edges, edges join nodes of the graph, and the
synthetic names are not used (python: `source_<id>`/`sink_<id>` are fresh) -/
structure BaseWF (b : Graph) : Prop where
  edgesNodup : b.edges.Nodup
  nodesNodup : b.nodes.Nodup
  closed : ∀ e ∈ b.edges, e.1 ∈ b.nodes ∧ e.2 ∈ b.nodes
  freshSrc : srcName ∉ b.nodes
  freshSnk : snkName ∉ b.nodes

/-! ## the successor-following decoder on one layer -/

section Layer
variable {s : STGraph} {X : Edge → Nat → Rat} {i : Nat} {ae : Bool}

theorem nextOn_some {v w : Node} (h : nextOn s X i v = some w) :
    (v, w) ∈ s.g.edges ∧ X (v, w) i = 1 := by
  unfold nextOn at h
  exact ⟨mem_succ.1 (List.mem_of_find?_eq_some h), by simpa using List.find?_some h⟩

theorem outflow_zero_of_nextOn_none (hf : LayerFacts s ae (fun e => X e i)) {v : Node}
    (h : nextOn s X i v = none) : outflow s.g (fun e => X e i) v = 0 := by
  unfold nextOn at h
  rw [List.find?_eq_none] at h
  apply sum_map_zero
  intro e he
  have hm := List.mem_filter.1 he
  have h1 : e.1 = v := by simpa using hm.2
  have h2 : e.2 ∈ s.g.succ v := mem_succ.2 (by rw [← h1]; exact hm.1)
  have h3 := h e.2 h2
  rw [← h1] at h3
  rcases hf.bin e hm.1 with h0 | h0
  · exact h0
  · exact absurd (by simpa using h0) h3

theorem nextOn_exists (hf : LayerFacts s ae (fun e => X e i)) {v : Node}
    (h : outflow s.g (fun e => X e i) v ≠ 0) : ∃ w, nextOn s X i v = some w := by
  cases hn : nextOn s X i v with
  | none => exact absurd (outflow_zero_of_nextOn_none hf hn) h
  | some w => exact ⟨w, rfl⟩

theorem nonneg_of_bin (hf : LayerFacts s ae (fun e => X e i)) : ∀ e ∈ s.g.edges, 0 ≤ X e i := by
  intro e he
  rcases hf.bin e he with h | h
  · have h' : X e i = 0 := h
    rw [h']; decide
  · have h' : X e i = 1 := h
    rw [h']; decide

theorem step_ok (hwf : STWF s) (hf : LayerFacts s ae (fun e => X e i)) {v w : Node}
    (h : nextOn s X i v = some w) : w = s.sink ∨ ∃ w', nextOn s X i w = some w' := by
  obtain ⟨he, hx⟩ := nextOn_some h
  by_cases hs : w = s.sink
  · exact Or.inl hs
  · right
    apply nextOn_exists hf
    have hsrc : w ≠ s.source := hwf.srcNoIn _ he
    have hw : w ∈ s.g.nodes := (hwf.closed _ he).2
    rw [← hf.cons w hw hsrc hs]
    have hle := le_sum_of_mem (s.g.edges.filter (fun e : Edge => e.2 = w)) (fun e => X e i)
      (fun e he' => nonneg_of_bin hf e (List.mem_filter.1 he').1) (v, w)
      (List.mem_filter.2 ⟨he, by simp⟩)
    simp only [hx] at hle
    unfold inflow
    intro h0
    rw [h0] at hle
    exact absurd hle (by decide)

theorem follow_acc (n : Nat) (v : Node) (acc : List Node) :
    follow s X i n v acc = (follow s X i n v []).map (acc ++ ·) := by
  induction n generalizing v acc with
  | zero => simp [follow]
  | succ n ih =>
    unfold follow
    by_cases hv : v = s.sink
    · simp [hv]
    · simp only [hv, if_false]
      cases hn : nextOn s X i v with
      | none => simp
      | some w =>
        simp only
        rw [ih w (acc ++ [w]), ih w ([] ++ [w])]
        cases follow s X i n w [] <;> simp

theorem countP_lt {α} (l : List α) (p q : α → Bool) (himp : ∀ u ∈ l, p u = true → q u = true)
    (w : α) (hw : w ∈ l) (hq : q w = true) (hp : ¬ p w = true) : l.countP p < l.countP q := by
  induction l with
  | nil => simp at hw
  | cons x xs ih =>
    have hle : xs.countP p ≤ xs.countP q :=
      List.countP_mono_left (fun u hu => himp u (by simp [hu]))
    rcases List.mem_cons.1 hw with rfl | hm
    · have hp' : p w = false := by simpa using hp
      simp only [List.countP_cons, hq, hp', if_true, Bool.false_eq_true, if_false]; omega
    · have := ih (fun u hu => himp u (by simp [hu])) hm
      have hx := himp x (by simp)
      simp only [List.countP_cons]
      by_cases hpx : p x = true
      · simp only [hpx, hx hpx, if_true]; omega
      · have hpx' : p x = false := by simpa using hpx
        simp only [hpx', Bool.false_eq_true, if_false]; split <;> omega

/-- number of nodes of rank above that of `v`: the fuel needed from `v` -/
def above (s : STGraph) (rank : Node → Nat) (v : Node) : Nat :=
  s.g.nodes.countP (fun u => rank v < rank u)

theorem above_lt (hwf : STWF s) (rank : Node → Nat) (hr : ∀ e ∈ s.g.edges, rank e.1 < rank e.2)
    {v w : Node} (he : (v, w) ∈ s.g.edges) : above s rank w < above s rank v := by
  have hvw : rank v < rank w := hr _ he
  apply countP_lt _ _ _ _ w (hwf.closed _ he).2
  · simpa using hvw
  · simp
  · intro u _ hu
    have : rank w < rank u := by simpa using hu
    simp; omega

theorem follow_exists (hwf : STWF s) (hf : LayerFacts s ae (fun e => X e i)) (rank : Node → Nat)
    (hr : ∀ e ∈ s.g.edges, rank e.1 < rank e.2) (n : Nat) :
    ∀ v, (v = s.sink ∨ ∃ w, nextOn s X i v = some w) → above s rank v < n →
      ∃ t, follow s X i n v [] = some t ∧
        (∀ e ∈ walkEdges (v :: t), e ∈ s.g.edges ∧ X e i = 1) ∧ (v :: t).getLast? = some s.sink := by
  induction n with
  | zero => intro v _ h; omega
  | succ n ih =>
    intro v hv hlt
    unfold follow
    by_cases hvs : v = s.sink
    · exact ⟨[], by simp [hvs], by simp [walkEdges_single], by simp [hvs]⟩
    · obtain ⟨w, hw⟩ := hv.resolve_left hvs
      obtain ⟨he, hx⟩ := nextOn_some hw
      have hlt' := above_lt hwf rank hr he
      obtain ⟨t, ht, hch, hlast⟩ := ih w (step_ok hwf hf hw) (by omega)
      refine ⟨w :: t, ?_, ?_, ?_⟩
      · simp only [hvs, if_false, hw]
        rw [follow_acc, ht]; simp
      · intro e hmem
        rw [walkEdges_cons_cons] at hmem
        rcases List.mem_cons.1 hmem with rfl | hmem
        · exact ⟨he, hx⟩
        · exact hch e hmem
      · rw [List.getLast?_cons_cons]; exact hlast

theorem split_last (t : List Node) (a : Node) (h : t.getLast? = some a) : t = t.dropLast ++ [a] := by
  induction t with
  | nil => simp at h
  | cons x xs ih =>
    cases xs with
    | nil => simp at h; simp [h]
    | cons y ys =>
      have : (y :: ys).getLast? = some a := by simpa [List.getLast?_cons_cons] using h
      have := ih this
      simp only [List.dropLast_cons_cons, List.cons_append]; rw [← this]

theorem occR_inner (p : List Node) (a b v : Node) (ha : v ≠ a) (hb : v ≠ b) :
    occR ((a :: p ++ [b]).tail) v = occR ((a :: p ++ [b]).dropLast) v := by
  have h1 : (a :: p ++ [b]).tail = p ++ [b] := rfl
  have h2 : (a :: p ++ [b]).dropLast = a :: p := List.dropLast_concat
  rw [h1, h2]
  have ha' : ¬ a = v := fun h => ha h.symm
  have hb' : ¬ b = v := fun h => hb h.symm
  simp only [occR, List.map_append, List.sum_append, List.map_cons, List.sum_cons, List.map_nil,
    List.sum_nil, ha', hb', if_false]
  grind

theorem occR_head (p : List Node) (a b : Node) (ha : a ∉ p) :
    occR ((a :: p ++ [b]).dropLast) a = 1 := by
  have h2 : (a :: p ++ [b]).dropLast = a :: p := List.dropLast_concat
  rw [h2]
  have := occR_not_mem p a ha
  simp only [occR, List.map_cons, List.sum_cons, if_true] at this ⊢
  rw [this]; grind

/-- the combinatorial heart of `pathcore_sound` -/
theorem layer_sound (hwf : STWF s) (hf : LayerFacts s ae (fun e => X e i)) :
    ∃ p, decodeLayer s X i = some p ∧
      (p = [] → ae = true ∧ ∀ e ∈ s.g.edges, X e i = 0) ∧
      (p ≠ [] → IsWalkIn s.g (s.source :: p ++ [s.sink]) ∧ (s.source :: p ++ [s.sink]).Nodup ∧
        ∀ e ∈ s.g.edges, X e i = if e ∈ walkEdges (s.source :: p ++ [s.sink]) then 1 else 0) := by
  obtain ⟨rank, hr⟩ := hwf.acyclic
  have hcons : ∀ e ∈ s.g.edges, e.1 ≠ s.source →
      inflow s.g (fun e => X e i) e.1 = outflow s.g (fun e => X e i) e.1 :=
    fun e he hs => hf.cons e.1 (hwf.closed e he).1 hs (hwf.snkNoOut e he)
  unfold decodeLayer
  cases hn : nextOn s X i s.source with
  | none =>
    refine ⟨[], rfl, fun _ => ?_, fun h => absurd rfl h⟩
    have h0 := outflow_zero_of_nextOn_none hf hn
    constructor
    · have := hf.src
      cases hae : ae
      · rw [hae, h0] at this
        simp only [Bool.false_eq_true, if_false] at this
        exact absurd this (by decide)
      · rfl
    · exact flow_zero s.g rank hr s.source _ (nonneg_of_bin hf) hcons h0
  | some w0 =>
    have hfuel : above s rank s.source < s.g.nodes.length + 1 := by
      have : above s rank s.source ≤ s.g.nodes.length := List.countP_le_length
      omega
    obtain ⟨t, ht, hch, hlast⟩ :=
      follow_exists hwf hf rank hr (s.g.nodes.length + 1) s.source (Or.inr ⟨w0, hn⟩) hfuel
    have htne : t ≠ [] := by
      intro h; rw [h] at hlast
      simp at hlast; exact hwf.ne hlast
    have hlast' : t.getLast? = some s.sink := by
      cases t with
      | nil => exact absurd rfl htne
      | cons b t' => rwa [List.getLast?_cons_cons] at hlast
    have hsplit := split_last t s.sink hlast'
    refine ⟨t.dropLast, ?_, ?_, ?_⟩
    · simp only
      rw [follow_acc, ht]; simp
    · intro hp
      rw [hp] at hsplit
      rw [hsplit] at hch
      have := (hch (s.source, s.sink) (by simp [walkEdges])).1
      exact absurd this hwf.noDirect
    · intro _
      have hL : s.source :: t.dropLast ++ [s.sink] = s.source :: t := by
        rw [List.cons_append, ← hsplit]
      generalize t.dropLast = p at hL
      rw [hL]
      have hwalk : IsWalkIn s.g (s.source :: t) := fun e he => (hch e he).1
      have hnd : (s.source :: t).Nodup :=
        nodup_of_walk rank _ (fun e he => hr e (hch e he).1)
      refine ⟨hwalk, hnd, ?_⟩
      have hPnd := walkEdges_nodup _ hnd
      -- out-flow of the source is exactly one
      have hw0 := nextOn_some hn
      have hsrc1 : outflow s.g (fun e => X e i) s.source = 1 := by
        have hle := le_sum_of_mem (s.g.edges.filter (fun e : Edge => e.1 = s.source))
          (fun e => X e i) (fun e he' => nonneg_of_bin hf e (List.mem_filter.1 he').1)
          (s.source, w0) (List.mem_filter.2 ⟨hw0.1, by simp⟩)
        simp only [hw0.2] at hle
        have := hf.src
        cases hae : ae
        · rw [hae] at this; simpa using this
        · rw [hae] at this
          simp only [if_true] at this
          exact Rat.le_antisymm this hle
      have hsp : s.source ∉ p := by
        rw [← hL, List.cons_append] at hnd
        intro h
        exact (List.nodup_cons.1 hnd).1 (List.mem_append_left _ h)
      -- the difference to the indicator of the path is a zero flow
      have hzero := flow_zero s.g rank hr s.source
        (fun e => X e i - cntR (walkEdges (s.source :: t)) e) ?_ ?_ ?_
      · intro e he
        have h0 : X e i - cntR (walkEdges (s.source :: t)) e = 0 := hzero e he
        by_cases hm : e ∈ walkEdges (s.source :: t)
        · rw [cntR_mem _ hPnd e hm] at h0
          simp only [hm, if_true]; grind
        · rw [cntR_not_mem _ e hm] at h0
          simp only [hm, if_false]; grind
      · intro e he
        show 0 ≤ X e i - cntR (walkEdges (s.source :: t)) e
        by_cases hm : e ∈ walkEdges (s.source :: t)
        · rw [cntR_mem _ hPnd e hm, (hch e hm).2]; grind
        · rw [cntR_not_mem _ e hm]
          have := nonneg_of_bin hf e he
          grind
      · intro e he hs
        have hsnk : e.1 ≠ s.sink := hwf.snkNoOut e he
        unfold inflow outflow
        rw [sum_map_sub, sum_map_sub]
        have h1 := hcons e he hs
        unfold inflow outflow at h1
        rw [h1]
        have h2 := inflow_cntR s.g hwf.edgesNodup _ hwalk e.1
        have h3 := outflow_cntR s.g hwf.edgesNodup _ hwalk e.1
        unfold inflow at h2
        unfold outflow at h3
        rw [h2, h3, heads_walkEdges, tails_walkEdges, ← hL, occR_inner p _ _ _ hs hsnk]
      · unfold outflow
        rw [sum_map_sub]
        have h3 := outflow_cntR s.g hwf.edgesNodup _ hwalk s.source
        unfold outflow at hsrc1 h3
        rw [hsrc1, h3, tails_walkEdges, ← hL, occR_head p _ _ hsp]
        grind

end Layer

theorem pathcore_sound (s : STGraph) (c : PathCfg) (a : Asg) (hwf : STWF s)
    (hsat : Sat a (encodePaths s c)) (i : Nat) (hi : i < c.k) :
    ∃ p, decodeLayer s (fun e i => a (edgeVar e i)) i = some p ∧
      (p = [] → c.allowEmpty = true ∧ ∀ e ∈ s.g.edges, a (edgeVar e i) = 0) ∧
      (p ≠ [] → IsWalkIn s.g (s.source :: p ++ [s.sink]) ∧ (s.source :: p ++ [s.sink]).Nodup ∧
        ∀ e ∈ s.g.edges, a (edgeVar e i) = if e ∈ walkEdges (s.source :: p ++ [s.sink]) then 1 else 0) :=
  layer_sound (X := fun e i => a (edgeVar e i)) hwf (layerFacts_of_sat s c a hsat i hi)

theorem augment_wf (base : Graph) (starts ends : List Node) (h : BaseWF base) (hac : Acyclic base) :
    STWF (augment base starts ends) where
  acyclic := aug_acyclic h.closed h.freshSrc h.freshSnk hac
  edgesNodup := aug_edges_nodup h.closed h.freshSrc h.freshSnk h.nodesNodup h.edgesNodup
  nodesNodup := aug_nodes_nodup h.freshSrc h.freshSnk h.nodesNodup
  closed := aug_closed h.closed
  srcNoIn := aug_srcNoIn h.closed h.freshSrc
  snkNoOut := aug_snkNoOut h.closed h.freshSnk
  ne := src_ne_snk
  noDirect := aug_noDirect h.closed h.freshSrc h.freshSnk
  inner := aug_inner h.closed

theorem dag_routes_valid (base : Graph) (starts ends : List Node) (c : PathCfg) (a : Asg)
    (h : BaseWF base) (hac : Acyclic base)
    (hsat : Sat a (encodePaths (augment base starts ends) c)) (i : Nat) (hi : i < c.k) :
    ∃ p, decodeLayer (augment base starts ends) (fun e i => a (edgeVar e i)) i = some p ∧
      (p = [] → c.allowEmpty = true) ∧
      (p ≠ [] → ValidRoute base starts ends p ∧ p.Nodup) := by
  obtain ⟨p, hdec, hempty, hne⟩ :=
    pathcore_sound (augment base starts ends) c a (augment_wf base starts ends h hac) hsat i hi
  refine ⟨p, hdec, fun hp => (hempty hp).1, fun hp => ?_⟩
  obtain ⟨hwalk, hnd, _⟩ := hne hp
  have hs : (augment base starts ends).source = srcName := rfl
  have ht : (augment base starts ends).sink = snkName := rfl
  rw [hs, ht] at hwalk hnd
  have hedge := fun e => aug_mem_edges' (st := starts) (en := ends) h.closed (e := e)
  have hnd' := List.nodup_cons.1 (by simpa using hnd : (srcName :: (p ++ [snkName])).Nodup)
  have hsp : srcName ∉ p := fun hm => hnd'.1 (List.mem_append_left _ hm)
  have happ := List.nodup_append.1 hnd'.2
  have htp : snkName ∉ p := fun hm => happ.2.2 _ hm snkName (by simp) rfl
  have hL : srcName :: p ++ [snkName] = srcName :: (p ++ [snkName]) := rfl
  have hnodes : ∀ v ∈ p, v ∈ base.nodes := by
    intro v hv
    obtain ⟨u, hu⟩ := exists_walkEdge_into (srcName :: p ++ [snkName]) v
      (by rw [hL, List.tail_cons]; exact List.mem_append_left _ hv)
    rcases (hedge _).1 (hwalk _ hu) with hb | ⟨_, hb, _⟩ | ⟨hb, _, _⟩
    · exact (h.closed _ hb).2
    · exact hb
    · exact absurd (hb ▸ hv) htp
  refine ⟨⟨hp, hnodes, ?_, ?_, ?_⟩, happ.1⟩
  · intro e he
    have he' : e ∈ walkEdges (srcName :: p ++ [snkName]) :=
      walkEdges_sub_cons _ _ _ (walkEdges_sub_append p [snkName] e he)
    have h1 : e.1 ∈ p := List.dropLast_subset _ (fst_mem_of_mem_walkEdges p e he)
    have h2 : e.2 ∈ p := List.mem_of_mem_tail (snd_mem_of_mem_walkEdges p e he)
    rcases (hedge _).1 (hwalk _ he') with hb | ⟨hb, _, _⟩ | ⟨hb, _, _⟩
    · exact hb
    · exact absurd (hb ▸ h1) hsp
    · exact absurd (hb ▸ h2) htp
  · intro v hv
    cases p with
    | nil => simp at hv
    | cons w p' =>
      have : w = v := by simpa using hv
      subst this
      have hmem : (srcName, w) ∈ walkEdges (srcName :: (w :: p') ++ [snkName]) := by
        simp [walkEdges_cons_cons]
      rcases (hedge _).1 (hwalk _ hmem) with hb | ⟨_, _, hb⟩ | ⟨_, hb, _⟩
      · exact absurd (h.closed _ hb).1 h.freshSrc
      · exact hb
      · exact absurd hb h.freshSrc
  · intro v hv
    have hsplit := split_last p v hv
    have hmem : (v, snkName) ∈ walkEdges (srcName :: p ++ [snkName]) := by
      rw [hsplit]
      have := mem_walkEdges_mid (srcName :: p.dropLast) [] v snkName
      simpa using this
    rcases (hedge _).1 (hwalk _ hmem) with hb | ⟨hb, _, _⟩ | ⟨_, _, hb⟩
    · exact absurd (h.closed _ hb).2 h.freshSnk
    · exact absurd (hb ▸ List.mem_of_getLast? hv) hsp
    · exact hb

theorem decodePaths_length (s : STGraph) (x : Edge → Nat → Rat) (k : Nat) (ps : List (List Node))
    (h : decodePaths s x k = some ps) : ps.length = k :=
  (mapM_range_get (decodeLayer s x) k ps [] h).1

end FP
