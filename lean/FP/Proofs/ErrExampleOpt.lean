import FP.Proofs.ErrExample
import FP.Proofs.KLAEExtra
/-!
# FP.Proofs.ErrExampleOpt — what *every* optimum of the scaled instance looks like

On `a → b → c`, `f = (4, 1)`, `error_scaling = {(a,b): 1/2}`, `k = 1`: every satisfying assignment routes
its layer through `a, b, c`; every optimal one has weight 1, error columns `3` and `0`, solver
objective `3/2` and reported objective `3/2` (regression example for fix 1c464ac).
-/
namespace FP.ErrExample
open FP FP.Spec

theorem aug_edges : (augment base [] []).g.edges
    = [("a", "b"), ("b", "c"), ("c", "sink"), ("source", "a")] := by decide

/-- in `a → b → c` with no empty paths every layer is forced onto the only route -/
theorem path_forced (c : PathCfg) (hae : c.allowEmpty = false) (a : Asg)
    (hsat : Sat a (encodePaths (augment base [] []) c)) (i : Nat) (hi : i < c.k) :
    a (edgeVar ("a", "b") i) = 1 ∧ a (edgeVar ("b", "c") i) = 1 := by
  have hf := layerFacts_of_sat (augment base [] []) c a hsat i hi
  have hsrc := hf.src
  have hca := hf.cons "a" (by decide) (by decide) (by decide)
  have hcb := hf.cons "b" (by decide) (by decide) (by decide)
  rw [hae] at hsrc
  simp only [Bool.false_eq_true, if_false] at hsrc
  have hs : (augment base [] []).source = "source" := rfl
  unfold outflow at hsrc hca hcb
  unfold inflow at hca hcb
  rw [aug_edges] at hsrc hca hcb
  rw [hs] at hsrc
  simp [List.filter] at hsrc hca hcb
  grind

theorem range_k : List.range inp.k = [0] := by decide

/-- **regression example for fix 1c464ac**: every optimum of the scaled instance has error columns
`3` and `0`, solver objective `3/2` and reported objective `3/2` (the pre-fix formula, the unscaled
sum, gave `3` and `is_valid_solution()` rejected the optimum) -/
theorem every_optimum_consistent (a : Asg) (hsat : Sat a (klaeLP inp))
    (hopt : ∀ a', Sat a' (klaeLP inp) → evalTerms a (klaeLP inp).obj ≤ evalTerms a' (klaeLP inp).obj) :
    a (eeVar ("a", "b")) = 3 ∧ a (eeVar ("b", "c")) = 0 ∧
      evalTerms a (klaeLP inp).obj = 3/2 ∧ reportedObjective inp a = 3/2 ∧ unscaledErrorSum inp a = 3 := by
  obtain ⟨henc, hwc, heec, hbin, herr⟩ := klae_sat_parts inp a hsat
  obtain ⟨hxab, hxbc⟩ := path_forced inp.fi.cfg rfl a henc 0 (by decide)
  have hab : ("a", "b") ∈ inp.basicEdges := by rw [basic]; simp
  have hbc : ("b", "c") ∈ inp.basicEdges := by rw [basic]; simp
  have hw : 0 ≤ a (weightsVar 0) ∧ a (weightsVar 0) ≤ inp.wmax none :=
    ⟨(hwc 0 (by decide)).1, (hwc 0 (by decide)).2.1 _ rfl⟩
  have hpab := (binProd_exact a _ _ _ 0 _ (Or.inr hxab) hw).1 (hbin _ hab 0 (by decide))
  have hpbc := (binProd_exact a _ _ _ 0 _ (Or.inr hxbc) hw).1 (hbin _ hbc 0 (by decide))
  rw [hxab] at hpab
  rw [hxbc] at hpbc
  obtain ⟨r1, r2⟩ := herr _ hab
  obtain ⟨r3, r4⟩ := herr _ hbc
  have h1 := r1.2 _ rfl
  have h2 := r2.2 _ rfl
  have h3 := r3.2 _ rfl
  have h4 := r4.2 _ rfl
  simp only [rowLe, evalTerms_append, evalTerms_negTerms, evalTerms_ones, evalTerms_single, range_k,
    List.map_cons, List.map_nil, List.sum_cons, List.sum_nil, hpab, hpbc, f_ab, f_bc] at h1 h2 h3 h4
  -- a witness of value 3/2
  obtain ⟨a0, hsat0, _, _, _, hobj0⟩ := klae_complete inp P w base_wf base_acyclic rfl rfl flows_int bounded
  have hle := hopt a0 hsat0
  rw [hobj0, totalErr_val, klaeLP_obj] at hle
  have hobj := klaeLP_obj inp a
  rw [objective_consistent]
  unfold unscaledErrorSum
  rw [hobj]
  rw [basic] at hle ⊢
  simp only [List.map_cons, List.map_nil, List.sum_cons, List.sum_nil, sc_ab, sc_bc] at hle ⊢
  generalize a (eeVar ("a", "b")) = e1 at *
  generalize a (eeVar ("b", "c")) = e2 at *
  generalize a (weightsVar 0) = x at *
  refine ⟨?_, ?_, ?_, ?_, ?_⟩ <;> grind

end FP.ErrExample
