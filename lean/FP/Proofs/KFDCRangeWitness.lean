import FP.Proofs.KFDCWalks
import FP.Proofs.C10Subset
import FP.Proofs.DecompBounds
/-!
# FP.Proofs.KFDCRangeWitness — the search range `k ≤ |E|` of `MinFlowDecompCycles.solve` is too small
when subset constraints are given

Witness (`RangeWitness.inp`): two sources `s0, s1`, a hub `m`, three sinks `t0, t1, t2`; five edges
`s_a → m` (flow 3) and `m → t_b` (flow 2); the six subset constraints `{(s_a, m), (m, t_b)}`.
A source-to-sink walk is one of the six paths `s_a, m, t_b` and covers exactly one constraint, so six
walks are needed; six walks of weight 1 decompose the flow. The k-model is satisfiable for `k = 6` and
for no `k ≤ 5 = |E|`: `solve()` (whose loop ends at `|E|`) answers `False`.
-/
namespace FP
open FP.Spec

namespace RangeWitness

def inp : WalkInput :=
  { base := { nodes := ["s0", "m", "s1", "t0", "t1", "t2"],
              edges := [("s0", "m"), ("m", "t0"), ("m", "t1"), ("m", "t2"), ("s1", "m")] },
    flow := [(("s0", "m"), 3), (("m", "t0"), 2), (("m", "t1"), 2), (("m", "t2"), 2), (("s1", "m"), 3)],
    weightInt := true,
    cfg := { k := 6,
             constraints := [[("s0", "m"), ("m", "t0")], [("s0", "m"), ("m", "t1")], [("s0", "m"), ("m", "t2")],
                             [("s1", "m"), ("m", "t0")], [("s1", "m"), ("m", "t1")], [("s1", "m"), ("m", "t2")]] } }

theorem base_wf : BaseWF inp.base where
  edgesNodup := by decide
  nodesNodup := by decide
  closed := by decide
  freshSrc := by decide
  freshSnk := by decide

/-- the six paths -/
def walk (i : Nat) : List Node :=
  [if i / 3 = 0 then "s0" else "s1", "m", if i % 3 = 0 then "t0" else if i % 3 = 1 then "t1" else "t2"]

theorem withK6 : inp.withK 6 = inp := rfl

theorem within6 : WalkDecompWithin inp walk (fun _ => 1) where
  isWalk := by
    intro i hi
    have hi' : i < 6 := hi
    unfold IsWalkIn
    have : ∀ i, i < 6 → ∀ e ∈ walkEdges (inp.st.source :: walk i ++ [inp.st.sink]), e ∈ inp.st.g.edges := by
      decide +kernel
    exact this i hi'
  withinCap := by
    intro i hi
    have hi' : i < 6 := hi
    have : ∀ i, i < 6 → ∀ e ∈ inp.st.g.edges,
        (traversals (inp.st.source :: walk i ++ [inp.st.sink]) e : Rat) ≤ kfdcCap inp e := by
      decide +kernel
    exact this i hi'
  weights := by
    intro i _
    exact ⟨by decide +kernel, by decide +kernel, fun _ => ⟨1, by decide +kernel⟩⟩
  multBits := by
    intro i hi
    have hi' : i < 6 := hi
    have : ∀ i, i < 6 → ∀ e ∈ inp.activeEdges false,
        (traversals (inp.st.source :: walk i ++ [inp.st.sink]) e : Rat) ≤ inp.wmax false := by
      decide +kernel
    exact this i hi'
  flowLe := by decide +kernel
  decomposes := by unfold IsWalkDecomp; decide +kernel
  covered := by
    have : ∀ j, j < 6 → ∃ i, i < 6 ∧
        coversB (multsOf inp.st.source inp.st.sink walk i) (inp.cfg.constraints.getD j []) inp.cfg.coverage = true := by
      decide +kernel
    intro j hj
    have hj' : j < 6 := hj
    obtain ⟨i, hi, hc⟩ := this j hj'
    refine ⟨i, hi, ?_⟩
    have hg : inp.cfg.constraints.getD j [] = inp.cfg.constraints[j] := by
      rw [List.getD_eq_getElem?_getD, List.getElem?_eq_getElem hj]; rfl
    rw [hg] at hc
    exact hc

theorem names6 : NameInj inp := by
  unfold NameInj
  decide +kernel

theorem feasible6 : KfdcFeasible inp 6 :=
  feasible_of_walks inp 6 walk (fun _ => 1) base_wf (by decide) names6 within6

/-! ## no k-model with at most five layers is satisfiable -/

theorem st_edges : inp.st.g.edges = [("s0", "m"), ("m", "t0"), ("m", "t1"), ("m", "t2"), ("s1", "m"),
    ("t0", "sink"), ("t1", "sink"), ("t2", "sink"), ("source", "s0"), ("source", "s1")] := by decide +kernel

/-- what conservation says about one layer of the witness: exactly one of the two entry edges and
exactly one of the three exit edges is used, once -/
theorem layer_once (m : Edge → Nat) (hf : WalkFacts inp.st false m) :
    m ("s0", "m") + m ("s1", "m") = 1 ∧ m ("m", "t0") + m ("m", "t1") + m ("m", "t2") = 1 := by
  have hsrc := hf.src
  have h0 := hf.cons "s0" (by decide +kernel) (by decide +kernel) (by decide +kernel)
  have h1 := hf.cons "s1" (by decide +kernel) (by decide +kernel) (by decide +kernel)
  have hm := hf.cons "m" (by decide +kernel) (by decide +kernel) (by decide +kernel)
  have hs : inp.st.source = "source" := rfl
  simp only [Bool.false_eq_true, if_false, hs] at hsrc
  unfold outN at hsrc h0 h1 hm
  unfold inN at h0 h1 hm
  rw [st_edges] at hsrc h0 h1 hm
  simp [List.filter] at hsrc h0 h1 hm
  omega

/-- the entry edge and the exit edge of constraint `c` -/
def inEdge (c : Nat) : Edge := (if c / 3 = 0 then "s0" else "s1", "m")
def outEdge (c : Nat) : Edge := ("m", if c % 3 = 0 then "t0" else if c % 3 = 1 then "t1" else "t2")

theorem constraint_eq (c : Nat) (hc : c < 6) : inp.cfg.constraints.getD c [] = [inEdge c, outEdge c] := by
  revert c
  decide +kernel

theorem constraint_edges : ∀ c, c < 6 →
    inEdge c ∈ inp.st.g.edges ∧ outEdge c ∈ inp.st.g.edges ∧ inEdge c ≠ outEdge c := by
  decide +kernel

/-- which of the six paths a layer runs along -/
def code (m : Edge → Nat) : Nat := 3 * m ("s1", "m") + m ("m", "t1") + 2 * m ("m", "t2")

theorem code_of_covered (m : Edge → Nat) (hf : WalkFacts inp.st false m) (c : Nat) (hc : c < 6)
    (h1 : 1 ≤ m (inEdge c)) (h2 : 1 ≤ m (outEdge c)) : code m = c := by
  obtain ⟨ha, hb⟩ := layer_once m hf
  unfold code
  match c, hc with
  | 0, _ => simp [inEdge, outEdge] at h1 h2; omega
  | 1, _ => simp [inEdge, outEdge] at h1 h2; omega
  | 2, _ => simp [inEdge, outEdge] at h1 h2; omega
  | 3, _ => simp [inEdge, outEdge] at h1 h2; omega
  | 4, _ => simp [inEdge, outEdge] at h1 h2; omega
  | 5, _ => simp [inEdge, outEdge] at h1 h2; omega

theorem infeasible_le5 (j : Nat) (hj : j ≤ 5) : ¬ KfdcFeasible inp j := by
  rintro ⟨a, ha⟩
  have hcore : Sat a (walkCore inp.st (inp.withK j).cfg (kfdcCap (inp.withK j))) := sat_append_left a _ _ ha
  have henc : Sat a (encodeWalks inp.st (inp.withK j).cfg (kfdcCap (inp.withK j))) := sat_append_left a _ _ hcore
  have hwf : STWFc inp.st := augment_wfc inp.base inp.starts inp.ends base_wf
  have hfacts : ∀ i, i < j → WalkFacts inp.st false (multOf a i) := fun i hi => walkFacts_of_sat hwf.closed henc i hi
  -- every constraint has its layer
  have hex : ∀ c ∈ List.range 6, ∃ i, i < j ∧ code (multOf a i) = c := by
    intro c hc
    have hc' : c < 6 := List.mem_range.1 hc
    have hlen : c < (inp.withK j).cfg.constraints.length := hc'
    have hcon : (inp.withK j).cfg.constraints[c] = [inEdge c, outEdge c] := by
      have := constraint_eq c hc'
      rw [List.getD_eq_getElem?_getD, List.getElem?_eq_getElem hc'] at this
      exact this
    obtain ⟨hin, hout, hne⟩ := constraint_edges c hc'
    obtain ⟨i, hi, _, hcnt⟩ := subset_constraint_honoured inp.st (inp.withK j).cfg _ a hcore c hlen (by
      intro e he
      rw [hcon] at he
      rcases List.mem_cons.1 he with rfl | he
      · exact hin
      · rcases List.mem_cons.1 he with rfl | he
        · exact hout
        · cases he)
    rw [hcon] at hcnt
    have hdup : [inEdge c, outEdge c].eraseDups = [inEdge c, outEdge c] := by
      simp [List.eraseDups_cons, Ne.symm hne]
    have hcov : (inp.withK j).cfg.coverage = 1 := rfl
    rw [hdup, hcov] at hcnt
    have hi' : i < j := hi
    have e1 := edge_col henc hi hin
    have e2 := edge_col henc hi hout
    simp only [List.countP_cons, List.countP_nil, e1, e2] at hcnt
    have hboth : 1 ≤ multOf a i (inEdge c) ∧ 1 ≤ multOf a i (outEdge c) := by
      by_cases h1 : (1 : Rat) ≤ (multOf a i (inEdge c) : Rat)
      · by_cases h2 : (1 : Rat) ≤ (multOf a i (outEdge c) : Rat)
        · exact ⟨by exact_mod_cast h1, by exact_mod_cast h2⟩
        · simp [h1, h2] at hcnt
          exact absurd hcnt (by decide +kernel)
      · by_cases h2 : (1 : Rat) ≤ (multOf a i (outEdge c) : Rat)
        · simp [h1, h2] at hcnt
          exact absurd hcnt (by decide +kernel)
        · simp [h1, h2] at hcnt
          exact absurd hcnt (by decide +kernel)
    exact ⟨i, hi', code_of_covered _ (hfacts i hi') c hc' hboth.1 hboth.2⟩
  have := pigeon (List.range 6) j (fun c i => code (multOf a i) = c) List.nodup_range hex
    (fun c _ c' _ i h1 h2 => h1.symm.trans h2)
  rw [List.length_range] at this
  omega

end RangeWitness

end FP
