import FP.Proofs.WalkResidual
import FP.Proofs.Round
/-!
# FP.Proofs.WalkCoreEnc — what a satisfying assignment of `encodeWalks` says about one layer

Integrality of the edge and distance columns (`nat_of_col`), and the facts `WalkFacts` about the
natural-number multiplicities `multOf a i` of layer `i`: rows 17a (source), 17b (conservation),
and 21 + 22a + 19c (every node with positive in-flow has a selected in-edge of positive
multiplicity whose tail is strictly closer to the source).
-/
namespace FP
open FP.Spec

/-- a non-negative integer-valued rational is the cast of its `floor.toNat` -/
theorem nat_of_int_nonneg (q : Rat) (h0 : 0 ≤ q) (hz : ∃ z : Int, q = z) :
    q = ((q.floor.toNat : Nat) : Rat) := by
  obtain ⟨z, rfl⟩ := hz
  have hz0 : (0 : Int) ≤ z := Rat.intCast_nonneg.1 h0
  rw [Rat.floor_intCast, ← Rat.intCast_natCast, Int.toNat_of_nonneg hz0]

theorem natCast_sum {α} (l : List α) (f : α → Nat) :
    (((l.map f).sum : Nat) : Rat) = (l.map fun x => (f x : Rat)).sum := by
  induction l with
  | nil => simp
  | cons x xs ih => simp only [List.map_cons, List.sum_cons, Rat.natCast_add, ih]

/-- the facts about layer `i` carried by a satisfying assignment, in terms of natural multiplicities -/
structure WalkFacts (s : STGraph) (allowEmpty : Bool) (m : Edge → Nat) : Prop where
  src : if allowEmpty then outN s.g m s.source ≤ 1 else outN s.g m s.source = 1
  cons : ∀ v ∈ s.g.nodes, v ≠ s.source → v ≠ s.sink → inN s.g m v = outN s.g m v
  conn : ∃ dist : Node → Nat, ∀ v ∈ s.g.nodes, v ≠ s.source → inN s.g m v ≠ 0 →
    ∃ u, (u, v) ∈ s.g.edges ∧ m (u, v) ≠ 0 ∧ dist u < dist v

section Enc
variable {s : STGraph} {c : WalkCfg} {ub : Edge → Rat} {a : Asg}

theorem edge_col (hsat : Sat a (encodeWalks s c ub)) {i : Nat} (hi : i < c.k) {e : Edge}
    (he : e ∈ s.g.edges) : a (edgeVar e i) = (multOf a i e : Rat) := by
  have := hsat.1 { v := edgeVar e i, lb := 0, ub := some (ub e), isInt := true }
    (List.mem_append_left _ (List.mem_append_left _
      (List.mem_flatMap.2 ⟨i, List.mem_range.2 hi, List.mem_map.2 ⟨e, he, rfl⟩⟩)))
  exact nat_of_int_nonneg_round _ this.1 (this.2.2 rfl)

/-- `round()` leaves a value that is a natural number alone -/
theorem multOf_of_eq (a : Asg) (i : Nat) (e : Edge) (n : Nat) (h : a (edgeVar e i) = (n : Rat)) :
    multOf a i e = n := by
  unfold multOf; rw [h, pyRoundCount_natCast]

/-- a solver value strictly within `1/2` of `n` is read as `n` -/
theorem multOf_of_near (a : Asg) (i : Nat) (e : Edge) (n : Nat)
    (h1 : (n : Rat) - 1/2 < a (edgeVar e i)) (h2 : a (edgeVar e i) < (n : Rat) + 1/2) :
    multOf a i e = n := by
  unfold multOf; exact pyRoundCount_near _ n h1 h2

/-- the distance value of a node as a natural number -/
def distOf (a : Asg) (i : Nat) (v : Node) : Nat := (a (distVar v i)).floor.toNat

theorem dist_col (hsat : Sat a (encodeWalks s c ub)) {i : Nat} (hi : i < c.k) {v : Node}
    (hv : v ∈ s.g.nodes) : a (distVar v i) = (distOf a i v : Rat) := by
  have := hsat.1 { v := distVar v i, lb := 0, ub := some (s.g.nodes.length : Rat), isInt := true }
    (List.mem_append_left _ (List.mem_append_right _
      (List.mem_flatMap.2 ⟨i, List.mem_range.2 hi, List.mem_map.2 ⟨v, hv, rfl⟩⟩)))
  exact nat_of_int_nonneg _ this.1 (this.2.2 rfl)

theorem sel_col (hsat : Sat a (encodeWalks s c ub)) {i : Nat} (hi : i < c.k) {e : Edge}
    (he : e ∈ s.g.edges) : a (selVar e i) = 0 ∨ a (selVar e i) = 1 := by
  have := hsat.1 { v := selVar e i, lb := 0, ub := some 1, isInt := true }
    (List.mem_append_right _
      (List.mem_flatMap.2 ⟨i, List.mem_range.2 hi, List.mem_map.2 ⟨e, he, rfl⟩⟩))
  exact int01 _ this.1 (this.2.1 1 rfl) (this.2.2 rfl)

/-- Σ of the edge variables over the in-edges of `v` is the natural in-flow -/
theorem sum_pred_edge (hsat : Sat a (encodeWalks s c ub)) {i : Nat} (hi : i < c.k) (v : Node) :
    ((s.g.pred v).map (fun u => a (edgeVar (u, v) i))).sum = (inN s.g (multOf a i) v : Rat) := by
  rw [sum_pred s.g (fun e => a (edgeVar e i)) v]
  unfold inflow inN
  rw [natCast_sum]
  apply sum_map_congr
  intro e he
  exact edge_col hsat hi (List.mem_filter.1 he).1

theorem sum_succ_edge (hsat : Sat a (encodeWalks s c ub)) {i : Nat} (hi : i < c.k) (v : Node) :
    ((s.g.succ v).map (fun w => a (edgeVar (v, w) i))).sum = (outN s.g (multOf a i) v : Rat) := by
  rw [sum_succ s.g (fun e => a (edgeVar e i)) v]
  unfold outflow outN
  rw [natCast_sum]
  apply sum_map_congr
  intro e he
  exact edge_col hsat hi (List.mem_filter.1 he).1

theorem row17a (hsat : Sat a (encodeWalks s c ub)) {i : Nat} (hi : i < c.k) :
    if c.allowEmpty then outN s.g (multOf a i) s.source ≤ 1
    else outN s.g (multOf a i) s.source = 1 := by
  have hr := hsat.2 _ (List.mem_append_left _ (List.mem_append_left _ (List.mem_append_left _
    (List.mem_append_left _ (List.mem_append_left _
      (List.mem_map.2 ⟨i, List.mem_range.2 hi, rfl⟩))))))
  have hs := sum_succ_edge hsat hi s.source
  cases hae : c.allowEmpty
  · rw [hae] at hr
    have h1 := hr.1 1 rfl
    have h2 := hr.2 1 rfl
    simp only [Bool.false_eq_true, if_false, rowEq, evalTerms_ones] at h1 h2 ⊢
    rw [hs] at h1 h2
    have h1' : 1 ≤ outN s.g (multOf a i) s.source := Rat.natCast_le_natCast.1 (by simpa using h1)
    have h2' : outN s.g (multOf a i) s.source ≤ 1 := Rat.natCast_le_natCast.1 (by simpa using h2)
    omega
  · rw [hae] at hr
    have h2 := hr.2 1 rfl
    simp only [if_true, rowLe, evalTerms_ones] at h2 ⊢
    rw [hs] at h2
    exact Rat.natCast_le_natCast.1 (by simpa using h2)

theorem row17b (hsat : Sat a (encodeWalks s c ub)) {i : Nat} (hi : i < c.k) {v : Node}
    (hv : v ∈ s.g.nodes) (h1 : v ≠ s.source) (h2 : v ≠ s.sink) :
    inN s.g (multOf a i) v = outN s.g (multOf a i) v := by
  have hr := hsat.2 _ (List.mem_append_left _ (List.mem_append_left _ (List.mem_append_left _
    (List.mem_append_left _ (List.mem_append_right _
      (List.mem_flatMap.2 ⟨i, List.mem_range.2 hi,
        List.mem_map.2 ⟨v, List.mem_filter.2 ⟨hv, by simp [h1, h2]⟩, rfl⟩⟩))))))
  have hlo := hr.1 0 rfl
  have hhi := hr.2 0 rfl
  simp only [rowEq, evalTerms_append, evalTerms_negTerms, evalTerms_ones] at hlo hhi
  rw [sum_succ_edge hsat hi v, sum_pred_edge hsat hi v] at hlo hhi
  clear hr
  have : (inN s.g (multOf a i) v : Rat) = (outN s.g (multOf a i) v : Rat) := by grind
  exact Rat.natCast_inj.1 this

theorem row21 (hsat : Sat a (encodeWalks s c ub)) {i : Nat} (hi : i < c.k) {e : Edge}
    (he : e ∈ s.g.edges) : a (selVar e i) ≤ a (edgeVar e i) := by
  have hr := hsat.2 _ (List.mem_append_left _ (List.mem_append_left _ (List.mem_append_left _
    (List.mem_append_right _
      (List.mem_flatMap.2 ⟨i, List.mem_range.2 hi, List.mem_map.2 ⟨e, he, rfl⟩⟩)))))
  have hlo := hr.1 0 rfl
  simp only [rowGe, evalTerms, List.map_cons, List.map_nil, List.sum_cons, List.sum_nil] at hlo
  grind

theorem row22a (hsat : Sat a (encodeWalks s c ub)) {i : Nat} (hi : i < c.k) {v : Node}
    (hv : v ∈ s.g.nodes) (h1 : v ≠ s.source) (hin : inN s.g (multOf a i) v ≠ 0) :
    ∃ u ∈ s.g.pred v, a (selVar (u, v) i) ≠ 0 := by
  apply Classical.byContradiction
  intro hn
  have hall : ∀ u ∈ s.g.pred v, a (selVar (u, v) i) = 0 := by
    intro u hu
    apply Classical.byContradiction
    intro h0
    exact hn ⟨u, hu, h0⟩
  have hr := hsat.2 _ (List.mem_append_left _ (List.mem_append_left _
    (List.mem_append_right _
      (List.mem_flatMap.2 ⟨i, List.mem_range.2 hi,
        List.mem_flatMap.2 ⟨v, List.mem_filter.2 ⟨hv, by simp [h1]⟩, List.mem_cons_self⟩⟩))))
  have hhi := hr.2 0 rfl
  simp only [rowLe, evalTerms_append, evalTerms_ones, evalTerms_map] at hhi
  rw [sum_pred_edge hsat hi v, sum_map_zero _ _ (fun u hu => by rw [hall u hu]; grind)] at hhi
  have : (inN s.g (multOf a i) v : Rat) ≤ ((0 : Nat) : Rat) := by simpa [Rat.add_zero] using hhi
  have := Rat.natCast_le_natCast.1 this
  omega

theorem row19c (hsat : Sat a (encodeWalks s c ub)) {i : Nat} (hi : i < c.k) {e : Edge}
    (he : e ∈ s.g.edges) (hsel : a (selVar e i) = 1) :
    a (distVar e.1 i) + 1 ≤ a (distVar e.2 i) := by
  have hr := hsat.2 _ (List.mem_append_right _
      (List.mem_flatMap.2 ⟨i, List.mem_range.2 hi, List.mem_map.2 ⟨e, he, rfl⟩⟩))
  have hlo := hr.1 _ rfl
  simp only [rowGe, evalTerms, List.map_cons, List.map_nil, List.sum_cons, List.sum_nil, hsel] at hlo
  grind

/-- the facts about one layer -/
theorem walkFacts_of_sat (hcl : ∀ e ∈ s.g.edges, e.1 ∈ s.g.nodes ∧ e.2 ∈ s.g.nodes)
    (hsat : Sat a (encodeWalks s c ub)) (i : Nat) (hi : i < c.k) :
    WalkFacts s c.allowEmpty (multOf a i) where
  src := row17a hsat hi
  cons := fun _ hv h1 h2 => row17b hsat hi hv h1 h2
  conn := by
    refine ⟨distOf a i, fun v hv h1 hin => ?_⟩
    obtain ⟨u, hu, hsel⟩ := row22a hsat hi hv h1 hin
    have he : (u, v) ∈ s.g.edges := mem_pred.1 hu
    have hsel1 : a (selVar (u, v) i) = 1 := (sel_col hsat hi he).resolve_left hsel
    refine ⟨u, he, ?_, ?_⟩
    · have h21 := row21 hsat hi he
      rw [hsel1, edge_col hsat hi he] at h21
      have : ((1 : Nat) : Rat) ≤ (multOf a i (u, v) : Rat) := by simpa using h21
      have := Rat.natCast_le_natCast.1 this
      omega
    · have h19 := row19c hsat hi he hsel1
      rw [dist_col hsat hi (hcl _ he).1, dist_col hsat hi (hcl _ he).2] at h19
      have : ((distOf a i u + 1 : Nat) : Rat) ≤ (distOf a i v : Rat) := by
        simpa [Rat.natCast_add] using h19
      have := Rat.natCast_le_natCast.1 this
      omega

end Enc

end FP
