import FP.Spec.ErrGiven
import FP.Proofs.KLAE
import FP.Proofs.KLAEExtra
import FP.Proofs.RouteUser
/-!
# FP.Proofs.KLAEGiven — k-Least-Absolute-Errors with `solution_weights_superset` (DAG):
soundness, completeness, optimum transfer, adequacy of `w_max` when the given weights sum to at most `w_max`

`klaeGivenLP inp ws originalK` is the LP of `_encode_leastabserrors_decomposition_with_given_weights`
followed by `_encode_objective`. There are no weight or `pi` columns: the edge columns are multiplied by
the given numbers directly in rows 9aa / 9ab, and the row `max_paths_original_k_paths` caps the number of
used layers.
-/
namespace FP
open FP.Spec FP.Spec.LAE

/-! ## shared with `kMinPathError`: used layers and the cap row, decoding to routes of the user's graph -/

theorem klaeg_evalTerms_flatMap {α} (a : Asg) (l : List α) (f : α → Terms) :
    evalTerms a (l.flatMap f) = (l.map fun x => evalTerms a (f x)).sum := by
  induction l with
  | nil => simp [evalTerms]
  | cons x xs ih => rw [List.flatMap_cons, evalTerms_append, ih]; simp

theorem klaeg_sum_used (P : Nat → List Node) (l : List Nat) :
    (l.map fun i => if P i = [] then (0:Rat) else 1).sum
      = ((l.filter fun i => decide (P i ≠ [])).length : Nat) := by
  induction l with
  | nil => simp
  | cons x xs ih =>
    simp only [List.map_cons, List.sum_cons, ih, List.filter_cons]
    by_cases h : P x = []
    · simp [h, Rat.zero_add]
    · simp [h, Rat.natCast_add]; grind

/-- the left-hand side of the row `max_paths_original_k_paths` counts the used layers -/
theorem klaeg_srcTerms_eval (s : STGraph) (ae : Bool) (k : Nat) (a : Asg) (P : Nat → List Node)
    (hwf : STWF s) (hroute : ∀ i, i < k → Route s ae (P i))
    (hedge : ∀ i, i < k → ∀ e ∈ s.g.edges, a (edgeVar e i) = trav s (P i) e) :
    evalTerms a ((List.range k).flatMap fun i =>
        ones (s.g.succ s.source) (fun v => edgeVar (s.source, v) i))
      = (usedCount k P : Rat) := by
  rw [klaeg_evalTerms_flatMap]
  unfold usedCount
  rw [← klaeg_sum_used]
  apply sum_map_congr
  intro i hi
  have hi' := List.mem_range.1 hi
  rw [evalTerms_ones, ← route_src hwf (hroute i hi'), ← sum_succ]
  apply sum_map_congr
  intro v hv
  exact hedge i hi' (s.source, v) (mem_succ.1 hv)

/-- every layer of a satisfying assignment of the path encoding on a well-formed user DAG decodes to
the empty path or a route of the *user's* graph, and the edge columns are the route indicators -/
theorem klaeg_decode (fi : FlowInput) (a : Asg) (h : BaseWF fi.base) (hac : Acyclic fi.base)
    (henc : Sat a (encodePaths fi.st fi.cfg)) :
    ∃ ps : List (List Node),
      decodePaths fi.st (fun e i => a (edgeVar e i)) fi.cfg.k = some ps ∧ ps.length = fi.cfg.k ∧
      (∀ i, i < fi.cfg.k → Route fi.st fi.cfg.allowEmpty (ps.getD i [])) ∧
      (∀ i, i < fi.cfg.k → ps.getD i [] ≠ [] →
        ValidRoute fi.base fi.starts fi.ends (ps.getD i []) ∧ (ps.getD i []).Nodup) ∧
      (∀ i, i < fi.cfg.k → ∀ e ∈ fi.st.g.edges, a (edgeVar e i) = trav fi.st (ps.getD i []) e) := by
  have hwf : STWF fi.st := augment_wf fi.base fi.starts fi.ends h hac
  obtain ⟨ps, hps, hlen, hroutes, htrav⟩ := decode_routes fi.st fi.cfg a hwf henc
  have hget := mapM_range_get _ fi.cfg.k ps [] hps
  refine ⟨ps, hps, hlen, hroutes, ?_, htrav⟩
  intro i hi hne
  obtain ⟨p, hp, _, hv⟩ := dag_routes_valid fi.base fi.starts fi.ends fi.cfg a h hac henc i hi
  have hpe : p = ps.getD i [] := by
    have := hget.2 i hi
    rw [show decodeLayer fi.st (fun e i => a (edgeVar e i)) i = some p from hp] at this
    exact Option.some.inj this
  rw [← hpe] at hne ⊢
  exact hv hne

/-! ## the LP -/

/-- the solver's objective at an assignment: `_encode_objective` -/
theorem klaeGivenLP_obj (inp : ErrInput) (ws : List Rat) (ok : Nat) (a : Asg) :
    evalTerms a (klaeGivenLP inp ws ok).obj
      = (inp.basicEdges.map fun e => inp.scale e * a (eeVar e)).sum := by
  show evalTerms a (klaeObj inp) = _
  unfold klaeObj
  rw [evalTerms_map]

/-- the terms `Σ_i ws[i]·x(e,i)` of rows 9aa / 9ab -/
def klaegSumW (inp : ErrInput) (ws : List Rat) (e : Edge) : Terms :=
  (List.range inp.k).map fun i => (ws.getD i 0, edgeVar e i)

theorem klaeg_sumW_eval (inp : ErrInput) (ws : List Rat) (a : Asg) (P : Nat → List Node) (e : Edge)
    (he : e ∈ inp.st.g.edges)
    (hedge : ∀ i, i < inp.k → ∀ e ∈ inp.st.g.edges, a (edgeVar e i) = trav inp.st (P i) e) :
    evalTerms a (klaegSumW inp ws e) = explained inp.st inp.k P (givenW ws) e := by
  unfold klaegSumW explained
  rw [evalTerms_map]
  apply sum_map_congr
  intro i hi
  rw [hedge i (List.mem_range.1 hi) e he]
  rfl

theorem klaeg_sat_parts (inp : ErrInput) (ws : List Rat) (ok : Nat) (a : Asg)
    (hsat : Sat a (klaeGivenLP inp ws ok)) :
    Sat a (encodePaths inp.st inp.fi.cfg) ∧
    (∀ e ∈ inp.basicEdges, Col.holds a
      { v := eeVar e, lb := 0, ub := some (inp.wmax (some ws)), isInt := inp.fi.weightInt }) ∧
    (∀ e ∈ inp.basicEdges,
      (rowLe (negTerms (klaegSumW inp ws e) ++ [(-1, eeVar e)]) (-(inp.fi.f e))).holds a ∧
      (rowLe (klaegSumW inp ws e ++ [(-1, eeVar e)]) (inp.fi.f e)).holds a) ∧
    (rowLe ((List.range inp.k).flatMap fun i =>
        ones (inp.st.g.succ inp.st.source) (fun v => edgeVar (inp.st.source, v) i)) ok).holds a := by
  have henc : Sat a (encodePaths inp.st inp.fi.cfg) := sat_append_left a _ _ hsat
  obtain ⟨hcols, hrows⟩ := sat_append_right a _ _ hsat
  simp only at hcols hrows
  refine ⟨henc, ?_, ?_, ?_⟩
  · intro e he
    exact hcols _ (List.mem_map.2 ⟨e, he, rfl⟩)
  · intro e he
    constructor
    · exact hrows _ (List.mem_append_left _ (List.mem_flatMap.2 ⟨e, he, by simp [klaegSumW]⟩))
    · exact hrows _ (List.mem_append_left _ (List.mem_flatMap.2 ⟨e, he, by simp [klaegSumW]⟩))
  · exact hrows _ (List.mem_append_right _ (List.mem_singleton.2 rfl))

/-- **soundness of the given-weights k-Least-Absolute-Errors LP** -/
theorem klae_given_sound (inp : ErrInput) (ws : List Rat) (ok : Nat) (a : Asg)
    (h : BaseWF inp.fi.base) (hac : Acyclic inp.fi.base) (hsat : Sat a (klaeGivenLP inp ws ok)) :
    ∃ ps : List (List Node),
      decodePaths inp.st (fun e i => a (edgeVar e i)) inp.k = some ps ∧ ps.length = inp.k ∧
      GivenChoice inp ok (fun i => ps.getD i []) ∧
      (∀ i, i < inp.k → ps.getD i [] ≠ [] →
        ValidRoute inp.fi.base inp.fi.starts inp.fi.ends (ps.getD i []) ∧ (ps.getD i []).Nodup) ∧
      (∀ i, i < inp.k → ∀ e ∈ inp.st.g.edges, a (edgeVar e i) = trav inp.st (ps.getD i []) e) ∧
      (∀ e ∈ inp.basicEdges,
        absErr inp (fun i => ps.getD i []) (givenW ws) e ≤ a (eeVar e) ∧
        a (eeVar e) ≤ inp.wmax (some ws) ∧ (inp.fi.weightInt = true → IsInt (a (eeVar e)))) ∧
      evalTerms a (klaeGivenLP inp ws ok).obj
        = (inp.basicEdges.map fun e => inp.scale e * a (eeVar e)).sum := by
  have hwf : STWF inp.st := augment_wf inp.fi.base inp.fi.starts inp.fi.ends h hac
  obtain ⟨henc, heec, herr, hcap⟩ := klaeg_sat_parts inp ws ok a hsat
  obtain ⟨ps, hps, hlen, hroutes, hvalid, htrav⟩ := klaeg_decode inp.fi a h hac henc
  refine ⟨ps, hps, hlen, ⟨hroutes, ?_⟩, hvalid, htrav, ?_, klaeGivenLP_obj inp ws ok a⟩
  · have hc := hcap.2 _ rfl
    simp only [rowLe] at hc
    rw [klaeg_srcTerms_eval inp.st inp.fi.cfg.allowEmpty inp.k a (fun i => ps.getD i []) hwf hroutes htrav] at hc
    exact Rat.natCast_le_natCast.1 hc
  · intro e he
    have hee := mem_basicEdges inp e he
    have hsum := klaeg_sumW_eval inp ws a (fun i => ps.getD i []) e hee htrav
    obtain ⟨h1, h2⟩ := herr e he
    have h1' := h1.2 _ rfl
    have h2' := h2.2 _ rfl
    simp only [rowLe, evalTerms_append, evalTerms_negTerms, evalTerms_single, hsum] at h1' h2'
    refine ⟨?_, (heec e he).2.1 _ rfl, (heec e he).2.2⟩
    unfold absErr
    apply abs_le <;> grind

/-! ## completeness -/

/-- **completeness** (general error values): a choice of at most `originalK` of the given weights with
routes, together with any admissible values `ee(e) ∈ [|f(e) − Σ…|, w_max]` of the error columns, is
represented by a satisfying assignment -/
theorem klae_given_complete_ee (inp : ErrInput) (ws : List Rat) (ok : Nat) (P : Nat → List Node)
    (ee : Edge → Rat) (h : BaseWF inp.fi.base) (hac : Acyclic inp.fi.base)
    (hcons : inp.fi.cfg.constraints = []) (hlen : inp.fi.cfg.lengths = none)
    (hch : GivenChoice inp ok P)
    (hee : ∀ e ∈ inp.basicEdges, absErr inp P (givenW ws) e ≤ ee e ∧ ee e ≤ inp.wmax (some ws) ∧
      (inp.fi.weightInt = true → IsInt (ee e))) :
    ∃ a : Asg, Sat a (klaeGivenLP inp ws ok) ∧
      (∀ i, i < inp.k → ∀ e ∈ inp.st.g.edges, a (edgeVar e i) = trav inp.st (P i) e) ∧
      (∀ e ∈ inp.basicEdges, a (eeVar e) = ee e) := by
  have hwf : STWF inp.st := augment_wf inp.fi.base inp.fi.starts inp.fi.ends h hac
  let σ : ErrSol := { P := P, w := givenW ws, ee := ee }
  have hedge : ∀ i, i < inp.k → ∀ e ∈ inp.st.g.edges,
      solAsg inp.st σ (edgeVar e i) = trav inp.st (P i) e := fun i _ e _ => solAsg_edge inp.st σ e i
  refine ⟨solAsg inp.st σ, ?_, hedge, fun e _ => solAsg_ee inp.st σ e⟩
  unfold klaeGivenLP
  refine sat_append_p07 _ _ _ (solAsg_sat_paths inp.st inp.fi.cfg σ hwf hch.routes hcons hlen) ?_
  refine ⟨fun col hcol => ?_, fun r hr => ?_⟩
  · -- error columns
    simp only at hcol
    obtain ⟨e, he, rfl⟩ := List.mem_map.1 hcol
    have hv : solAsg inp.st σ (eeVar e) = ee e := solAsg_ee inp.st σ e
    obtain ⟨h1, h2, h3⟩ := hee e he
    refine ⟨?_, ?_, fun hint => ?_⟩
    · show (0:Rat) ≤ solAsg inp.st σ (eeVar e)
      rw [hv]; exact Rat.le_trans (abs_nonneg _) h1
    · intro u hu
      rw [← Option.some.inj hu]
      show solAsg inp.st σ (eeVar e) ≤ _
      rw [hv]; exact h2
    · show IsInt (solAsg inp.st σ (eeVar e))
      rw [hv]; exact h3 hint
  · simp only at hr
    rcases List.mem_append.1 hr with hr | hr
    · -- error rows
      obtain ⟨e, he, hr⟩ := List.mem_flatMap.1 hr
      have hsum : evalTerms (solAsg inp.st σ) ((List.range inp.k).map fun i => (ws.getD i 0, edgeVar e i))
          = explained inp.st inp.k P (givenW ws) e :=
        klaeg_sumW_eval inp ws (solAsg inp.st σ) P e (mem_basicEdges inp e he) hedge
      obtain ⟨h1, _, _⟩ := hee e he
      have ha1 := le_abs (inp.fi.f e - explained inp.st inp.k P (givenW ws) e)
      have ha2 := neg_le_abs (inp.fi.f e - explained inp.st inp.k P (givenW ws) e)
      unfold absErr at h1
      simp only [List.mem_cons, List.not_mem_nil, or_false] at hr
      rcases hr with rfl | rfl
      · refine ⟨fun l hl => by simp [rowLe] at hl, fun u hu => ?_⟩
        rw [← Option.some.inj hu]
        simp only [rowLe, evalTerms_append, evalTerms_negTerms, evalTerms_single, hsum, solAsg_ee]
        grind
      · refine ⟨fun l hl => by simp [rowLe] at hl, fun u hu => ?_⟩
        rw [← Option.some.inj hu]
        simp only [rowLe, evalTerms_append, evalTerms_single, hsum, solAsg_ee]
        grind
    · -- the cap row
      rw [List.mem_singleton.1 hr]
      refine ⟨fun l hl => by simp [rowLe] at hl, fun u hu => ?_⟩
      rw [← Option.some.inj hu]
      simp only [rowLe]
      rw [klaeg_srcTerms_eval inp.st inp.fi.cfg.allowEmpty inp.k (solAsg inp.st σ) P hwf hch.routes hedge]
      exact Rat.natCast_le_natCast.2 hch.cap

/-- **completeness**: every bounded choice is represented, with `ee(e) = |f(e) − Σ…|` and the LP
objective equal to the total scaled absolute error. `hfint`: with `weight_type = int` the error columns
are integer columns, so the flow values and the given numbers have to be integers. -/
theorem klae_given_complete (inp : ErrInput) (ws : List Rat) (ok : Nat) (P : Nat → List Node)
    (h : BaseWF inp.fi.base) (hac : Acyclic inp.fi.base)
    (hcons : inp.fi.cfg.constraints = []) (hlen : inp.fi.cfg.lengths = none)
    (hfint : inp.fi.weightInt = true →
      (∀ e ∈ inp.basicEdges, IsInt (inp.fi.f e)) ∧ ∀ i, i < inp.k → IsInt (givenW ws i))
    (hb : GivenBounded inp ws ok P) :
    ∃ a : Asg, Sat a (klaeGivenLP inp ws ok) ∧
      (∀ i, i < inp.k → ∀ e ∈ inp.st.g.edges, a (edgeVar e i) = trav inp.st (P i) e) ∧
      (∀ e ∈ inp.basicEdges, a (eeVar e) = absErr inp P (givenW ws) e) ∧
      evalTerms a (klaeGivenLP inp ws ok).obj = totalErr inp P (givenW ws) := by
  obtain ⟨a, hsat, h1, h3⟩ := klae_given_complete_ee inp ws ok P (absErr inp P (givenW ws)) h hac
    hcons hlen hb.toGivenChoice (fun e he => ⟨Rat.le_refl, hb.errle e he,
      fun hint => absErr_isInt inp P (givenW ws) (hfint hint).2 e ((hfint hint).1 e he)⟩)
  refine ⟨a, hsat, h1, h3, ?_⟩
  rw [klaeGivenLP_obj]
  apply sum_map_congr
  intro e he
  rw [h3 e he]

/-! ## optimum transfer -/

/-- **optimum transfer**: an assignment that is optimal for the LP decodes to a choice minimising the
total scaled absolute error among all bounded choices of at most `originalK` of the given weights; the
error columns are tight on every edge of positive scale and the solver's objective is the total scaled
error of the returned choice -/
theorem klae_given_opt_transfer (inp : ErrInput) (ws : List Rat) (ok : Nat) (a : Asg)
    (h : BaseWF inp.fi.base) (hac : Acyclic inp.fi.base)
    (hcons : inp.fi.cfg.constraints = []) (hlen : inp.fi.cfg.lengths = none)
    (hfint : inp.fi.weightInt = true →
      (∀ e ∈ inp.basicEdges, IsInt (inp.fi.f e)) ∧ ∀ i, i < inp.k → IsInt (givenW ws i))
    (hscale : ∀ e ∈ inp.basicEdges, 0 ≤ inp.scale e)
    (hsat : Sat a (klaeGivenLP inp ws ok))
    (hopt : ∀ a', Sat a' (klaeGivenLP inp ws ok) →
      evalTerms a (klaeGivenLP inp ws ok).obj ≤ evalTerms a' (klaeGivenLP inp ws ok).obj) :
    ∃ ps : List (List Node),
      decodePaths inp.st (fun e i => a (edgeVar e i)) inp.k = some ps ∧
      GivenBounded inp ws ok (fun i => ps.getD i []) ∧
      (∀ P', GivenBounded inp ws ok P' →
        totalErr inp (fun i => ps.getD i []) (givenW ws) ≤ totalErr inp P' (givenW ws)) ∧
      (∀ e ∈ inp.basicEdges, 0 < inp.scale e →
        a (eeVar e) = absErr inp (fun i => ps.getD i []) (givenW ws) e) ∧
      evalTerms a (klaeGivenLP inp ws ok).obj = totalErr inp (fun i => ps.getD i []) (givenW ws) := by
  obtain ⟨ps, hps, _, hch, _, _, herr, hobjv⟩ := klae_given_sound inp ws ok a h hac hsat
  have hbd : GivenBounded inp ws ok (fun i => ps.getD i []) :=
    { toGivenChoice := hch, errle := fun e he => Rat.le_trans (herr e he).1 (herr e he).2.1 }
  have hge : totalErr inp (fun i => ps.getD i []) (givenW ws) ≤ evalTerms a (klaeGivenLP inp ws ok).obj := by
    rw [hobjv]
    apply sum_map_le_p07
    intro e he
    exact Rat.mul_le_mul_of_nonneg_left (herr e he).1 (hscale e he)
  obtain ⟨a0, hsat0, _, _, hobj0⟩ := klae_given_complete inp ws ok _ h hac hcons hlen hfint hbd
  have hle0 := hopt a0 hsat0
  rw [hobj0] at hle0
  have heq : evalTerms a (klaeGivenLP inp ws ok).obj
      = totalErr inp (fun i => ps.getD i []) (givenW ws) := Rat.le_antisymm hle0 hge
  refine ⟨ps, hps, hbd, ?_, ?_, heq⟩
  · intro P' hb'
    obtain ⟨a', hsat', _, _, hobj'⟩ := klae_given_complete inp ws ok P' h hac hcons hlen hfint hb'
    have := hopt a' hsat'
    rw [hobj', heq] at this
    exact this
  · intro e he hpos
    apply Classical.byContradiction
    intro hne
    have hlt : absErr inp (fun i => ps.getD i []) (givenW ws) e < a (eeVar e) := by
      have := (herr e he).1
      grind
    have hstrict : totalErr inp (fun i => ps.getD i []) (givenW ws)
        < evalTerms a (klaeGivenLP inp ws ok).obj := by
      rw [hobjv]
      refine sum_map_lt _ _ _ (fun e' he' =>
        Rat.mul_le_mul_of_nonneg_left (herr e' he').1 (hscale e' he')) e he ?_
      exact Rat.mul_lt_mul_of_pos_left hlt hpos
    rw [heq] at hstrict
    exact absurd hstrict (Rat.lt_irrefl)

/-! ## when the bound `w_max` loses nothing -/

/-- if the given weights are non-negative and **sum to at most `w_max`** (e.g. `len(ws)` weights none of
which exceeds the largest flow value) and the flow values lie in `[0, w_max]`, every choice is bounded:
no per-edge error exceeds `w_max` -/
theorem klae_given_adequate (inp : ErrInput) (ws : List Rat) (ok : Nat) (P : Nat → List Node)
    (h : BaseWF inp.fi.base) (hac : Acyclic inp.fi.base)
    (hw0 : ∀ i, i < inp.k → 0 ≤ givenW ws i)
    (hsum : ((List.range inp.k).map (givenW ws)).sum ≤ inp.wmax (some ws))
    (hf : ∀ e ∈ inp.basicEdges, 0 ≤ inp.fi.f e ∧ inp.fi.f e ≤ inp.wmax (some ws))
    (hch : GivenChoice inp ok P) : GivenBounded inp ws ok P := by
  have hwf : STWF inp.st := augment_wf inp.fi.base inp.fi.starts inp.fi.ends h hac
  refine { toGivenChoice := hch, errle := fun e he => ?_ }
  have hee := mem_basicEdges inp e he
  have hS0 : 0 ≤ explained inp.st inp.k P (givenW ws) e :=
    sum_map_nonneg _ _ (fun i hi => Rat.mul_nonneg (hw0 i (List.mem_range.1 hi)) (trav_nonneg _ _ _))
  have hS1 : explained inp.st inp.k P (givenW ws) e ≤ ((List.range inp.k).map (givenW ws)).sum := by
    apply sum_map_le_p07
    intro i hi
    have hi' := List.mem_range.1 hi
    have h0 := hw0 i hi'
    rcases trav01 hwf (hch.routes i hi') e hee with ht | ht <;> rw [ht] <;> grind
  obtain ⟨hf0, hf1⟩ := hf e he
  unfold absErr
  apply abs_le <;> grind

/-- **under that hypothesis the LP optimum is optimal among *all* choices** of at most `originalK` of
the given weights (by index) with routes of the user's graph -/
theorem klae_given_optimal (inp : ErrInput) (ws : List Rat) (ok : Nat) (a : Asg)
    (h : BaseWF inp.fi.base) (hac : Acyclic inp.fi.base)
    (hcons : inp.fi.cfg.constraints = []) (hlen : inp.fi.cfg.lengths = none)
    (hfint : inp.fi.weightInt = true →
      (∀ e ∈ inp.basicEdges, IsInt (inp.fi.f e)) ∧ ∀ i, i < inp.k → IsInt (givenW ws i))
    (hscale : ∀ e ∈ inp.basicEdges, 0 ≤ inp.scale e)
    (hw0 : ∀ i, i < inp.k → 0 ≤ givenW ws i)
    (hsum : ((List.range inp.k).map (givenW ws)).sum ≤ inp.wmax (some ws))
    (hf : ∀ e ∈ inp.basicEdges, 0 ≤ inp.fi.f e ∧ inp.fi.f e ≤ inp.wmax (some ws))
    (hsat : Sat a (klaeGivenLP inp ws ok))
    (hopt : ∀ a', Sat a' (klaeGivenLP inp ws ok) →
      evalTerms a (klaeGivenLP inp ws ok).obj ≤ evalTerms a' (klaeGivenLP inp ws ok).obj) :
    ∃ ps : List (List Node),
      decodePaths inp.st (fun e i => a (edgeVar e i)) inp.k = some ps ∧
      usedCount inp.k (fun i => ps.getD i []) ≤ ok ∧
      ∀ P' : Nat → List Node,
        (∀ i, i < inp.k → P' i = [] ∨ ValidRoute inp.fi.base inp.fi.starts inp.fi.ends (P' i)) →
        usedCount inp.k P' ≤ ok → inp.fi.cfg.allowEmpty = true →
        totalErr inp (fun i => ps.getD i []) (givenW ws) ≤ totalErr inp P' (givenW ws) := by
  obtain ⟨ps, hps, hbd, hmin, _, _⟩ :=
    klae_given_opt_transfer inp ws ok a h hac hcons hlen hfint hscale hsat hopt
  refine ⟨ps, hps, hbd.cap, fun P' hr hcap hae => hmin P' ?_⟩
  refine klae_given_adequate inp ws ok P' h hac hw0 hsum hf ⟨fun i hi => ?_, hcap⟩
  rcases hr i hi with h0 | hv
  · exact Or.inl ⟨h0, hae⟩
  · exact route_of_validRoute inp.fi.base inp.fi.starts inp.fi.ends h hac _ _ hv

end FP
