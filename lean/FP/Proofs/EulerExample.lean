import FP.Proofs.Euler
/-!
# FP.Proofs.EulerExample — non-vacuity of `reconstruct_euler_main`

A concrete residual graph with nested cycles (a self-loop inside a cycle inside the s-t trail).
All hypotheses of the theorem are discharged, and the conclusion is also checked by evaluation.
-/
namespace FP.Euler.Example
open FP.Euler FP.Spec

def g : Adj Nat := [(0, [1]), (1, [3, 2, 4]), (2, [1]), (4, [4, 1]), (3, [])]

example : reconstruct g 0 3 = [1, 4, 4, 1, 2, 1] := by decide
example : (walkEdges (0 :: reconstruct g 0 3 ++ [3])).Perm (edges g) := by decide
example : remaining g 0 = 0 := by decide

theorem reach_of_mem : ∀ x ∈ [0, 1, 2, 4, 3], Reach (edges g) 0 x := by
  have r0 : Reach (edges g) 0 0 := .refl 0
  have r1 : Reach (edges g) 0 1 := .step r0 (by decide)
  have r2 : Reach (edges g) 0 2 := .step r1 (by decide)
  have r4 : Reach (edges g) 0 4 := .step r1 (by decide)
  have r3 : Reach (edges g) 0 3 := .step r1 (by decide)
  intro x hx
  simp only [List.mem_cons, List.not_mem_nil, or_false] at hx
  rcases hx with rfl | rfl | rfl | rfl | rfl <;> assumption

theorem bal_zero_of_notMem (x : Nat) (hx : x ∉ [0, 1, 2, 4, 3]) : bal (edges g) x = 0 := by
  have h1 : (edges g).countP (·.1 = x) = 0 := by
    rw [List.countP_eq_zero]; intro e he
    have : e.1 ∈ [0, 1, 2, 4, 3] := by revert e; decide
    simp only [decide_eq_true_eq]; intro h; exact hx (h ▸ this)
  have h2 : (edges g).countP (·.2 = x) = 0 := by
    rw [List.countP_eq_zero]; intro e he
    have : e.2 ∈ [0, 1, 2, 4, 3] := by revert e; decide
    simp only [decide_eq_true_eq]; intro h; exact hx (h ▸ this)
  simp [bal, outdeg, indeg, h1, h2]

/-- the hypotheses of `reconstruct_euler_main` are jointly satisfiable on a graph with nested
cycles, so the theorem is not vacuous -/
example : (walkEdges (0 :: reconstruct g 0 3 ++ [3])).Perm (edges g) ∧ remaining g 0 = 0 := by
  refine reconstruct_euler_main g 0 3 (by decide) (by decide) (by decide) (by decide) ?_
    (by decide) (by decide) ?_
  · intro x h0 h3
    by_cases hx : x ∈ [0, 1, 2, 4, 3]
    · simp only [List.mem_cons, List.not_mem_nil, or_false] at hx
      rcases hx with rfl | rfl | rfl | rfl | rfl <;> first | decide | contradiction
    · exact bal_zero_of_notMem x hx
  · intro e he
    exact reach_of_mem e.1 (by revert e; decide)

end FP.Euler.Example
