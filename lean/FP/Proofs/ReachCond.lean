import FP.Proofs.Sweep
/-!
# FP.Proofs.ReachCond — `stDiGraph` answers through the condensation = plain reachability;
the memo dictionaries are transparent; the `stDAG` tables are the reachability sets
-/
namespace FP
open FP.Spec

/-- **Contract of the oracle parameters** (`nx.condensation`, `nx.descendants`, `nx.ancestors`,
`nx.topological_sort` as documented by networkx), relative to the graph `g`. -/
structure CondContract (g : Graph) (o : CondOracle) : Prop where
  /-- the graph is closed: edges join nodes of the graph -/
  wf : ∀ e ∈ g.edges, e.1 ∈ g.nodes ∧ e.2 ∈ g.nodes
  /-- `mapping`: two nodes carry the same component id iff they are mutually reachable -/
  scc : ∀ u ∈ g.nodes, ∀ v ∈ g.nodes, (o.lab u = o.lab v ↔ Reach g.edges u v ∧ Reach g.edges v u)
  /-- condensation edges: between different components joined by an edge of `g` -/
  cedges : ∀ a b, (a, b) ∈ o.cedges ↔ a ≠ b ∧ ∃ e ∈ g.edges, o.lab e.1 = a ∧ o.lab e.2 = b
  /-- `nx.descendants(C, c)`: everything reachable from `c` in `C`, without `c` -/
  desc : ∀ c d, d ∈ o.desc c ↔ d ≠ c ∧ Reach o.cedges c d
  /-- `nx.ancestors(C, c)` -/
  anc : ∀ c d, d ∈ o.anc c ↔ d ≠ c ∧ Reach o.cedges d c
  /-- `nx.topological_sort(C)` -/
  topo : IsTopo o.cedges o.topo
  /-- every component id is a node of `C`, hence listed by the topological sort -/
  topoNodes : ∀ v ∈ g.nodes, o.lab v ∈ o.topo

namespace CondContract
variable {g : Graph} {o : CondOracle}

theorem reach_nodes (h : CondContract g o) {v w : Node} (hv : v ∈ g.nodes) (hr : Reach g.edges v w) :
    w ∈ g.nodes :=
  reach_mem_closed (S := fun x => x ∈ g.nodes) (fun e he => (h.wf e he).2) hr hv

/-- reachability in `g` projects to the condensation -/
theorem reach_proj (h : CondContract g o) {v w : Node} (hr : Reach g.edges v w) :
    Reach o.cedges (o.lab v) (o.lab w) := by
  induction hr with
  | refl => exact Reach.refl _
  | step _ he ih =>
    rename_i y z _
    by_cases hl : o.lab y = o.lab z
    · rw [← hl]; exact ih
    · exact Reach.step ih ((h.cedges _ _).2 ⟨hl, (y, z), he, rfl, rfl⟩)

/-- reachability in the condensation lifts to every pair of representatives -/
theorem reach_lift (h : CondContract g o) {c d : Nat} (hr : Reach o.cedges c d) :
    ∀ w ∈ g.nodes, ∀ v ∈ g.nodes, o.lab w = c → o.lab v = d → Reach g.edges w v := by
  induction hr with
  | refl =>
    intro w hw v hv h1 h2
    exact ((h.scc w hw v hv).1 (h1.trans h2.symm)).1
  | step _ he ih =>
    rename_i y z _
    intro w hw v hv h1 h2
    obtain ⟨_, e, hee, he1, he2⟩ := (h.cedges _ _).1 he
    have hwf := h.wf e hee
    have r1 := ih w hw e.1 hwf.1 h1 he1
    have r2 : Reach g.edges e.1 e.2 := Reach.single (by simpa using hee)
    have r3 := ((h.scc e.2 hwf.2 v hv).1 (he2.trans h2.symm)).1
    exact Reach.trans (Reach.trans r1 r2) r3

theorem reach_iff (h : CondContract g o) {v w : Node} (hv : v ∈ g.nodes) (hw : w ∈ g.nodes) :
    Reach o.cedges (o.lab v) (o.lab w) ↔ Reach g.edges v w :=
  ⟨fun hr => h.reach_lift hr v hv w hw rfl rfl, fun hr => h.reach_proj hr⟩

end CondContract

theorem mem_nodesByScc {g : Graph} {o : CondOracle} {c : Nat} {w : Node} :
    w ∈ nodesByScc g o c ↔ w ∈ g.nodes ∧ o.lab w = c := by
  unfold nodesByScc; simp [List.mem_filter]

theorem nodesReachable_correct (g : Graph) (o : CondOracle) (h : CondContract g o) (v : Node) (hv : v ∈ g.nodes)
    (w : Node) : w ∈ nodesReachableFn g o v ↔ Reach g.edges v w := by
  unfold nodesReachableFn
  simp only [List.mem_flatMap, mem_lunion, mem_nodesByScc, h.desc, List.mem_singleton]
  constructor
  · rintro ⟨c, (⟨_, hc⟩ | hc), hw, hl⟩
    · exact h.reach_lift hc v hv w hw rfl hl
    · exact h.reach_lift (Reach.refl _) v hv w hw rfl (hl.trans hc)
  · intro hr
    have hw := h.reach_nodes hv hr
    refine ⟨o.lab w, ?_, hw, rfl⟩
    by_cases hl : o.lab w = o.lab v
    · exact Or.inr hl
    · exact Or.inl ⟨hl, h.reach_proj hr⟩

theorem nodesReaching_correct (g : Graph) (o : CondOracle) (h : CondContract g o) (v : Node) (hv : v ∈ g.nodes)
    (w : Node) : w ∈ nodesReachingFn g o v ↔ (w ∈ g.nodes ∧ Reach g.edges w v) := by
  unfold nodesReachingFn
  simp only [List.mem_flatMap, mem_lunion, mem_nodesByScc, h.anc, List.mem_singleton]
  constructor
  · rintro ⟨c, (⟨_, hc⟩ | hc), hw, hl⟩
    · exact ⟨hw, h.reach_lift hc w hw v hv hl rfl⟩
    · exact ⟨hw, h.reach_lift (Reach.refl _) w hw v hv (hl.trans hc) rfl⟩
  · rintro ⟨hw, hr⟩
    refine ⟨o.lab w, ?_, hw, rfl⟩
    by_cases hl : o.lab w = o.lab v
    · exact Or.inr hl
    · exact Or.inl ⟨hl, h.reach_proj hr⟩

theorem isSccEdge_correct (g : Graph) (o : CondOracle) (h : CondContract g o) (u v : Node) (he : (u, v) ∈ g.edges) :
    isSccEdgeFn o u v = true ↔ Reach g.edges v u := by
  have hwf := h.wf (u, v) he
  unfold isSccEdgeFn
  simp only [decide_eq_true_eq]
  rw [h.scc u hwf.1 v hwf.2]
  exact ⟨fun hh => hh.2, fun hh => ⟨Reach.single he, hh⟩⟩

/-! ## the memo dictionaries -/

/-- every cached entry is the value of the pure function -/
def CacheOK (g : Graph) (o : CondOracle) (s : QState) : Prop :=
  (∀ v r, s.fwd.lookup v = some r → r = nodesReachableFn g o v) ∧
  (∀ v r, s.bwd.lookup v = some r → r = nodesReachingFn g o v)

theorem lookup_cons_some {β} (k v : Node) (a : β) (l : List (Node × β)) (r : β)
    (h : ((k, a) :: l).lookup v = some r) : (v = k ∧ r = a) ∨ l.lookup v = some r := by
  rw [List.lookup_cons] at h
  by_cases hk : v = k
  · subst hk; simp at h; exact Or.inl ⟨rfl, h.symm⟩
  · have : (v == k) = false := by simp [hk]
    rw [this] at h; exact Or.inr h

theorem qstep_ok (g : Graph) (o : CondOracle) (s : QState) (q : Query) (hs : CacheOK g o s) :
    CacheOK g o (qstep g o s q).1 ∧ (qstep g o s q).2 = pureAnswer g o q := by
  cases q with
  | reachable v =>
    unfold qstep pureAnswer
    by_cases hv : g.nodes.contains v = true
    · simp only [hv, if_true]
      cases hl : s.fwd.lookup v with
      | some r => exact ⟨hs, by rw [hs.1 v r hl]⟩
      | none =>
        refine ⟨⟨?_, hs.2⟩, rfl⟩
        intro v' r hr
        rcases lookup_cons_some _ _ _ _ _ hr with ⟨rfl, rfl⟩ | h
        · rfl
        · exact hs.1 v' r h
    · simp only [hv]; exact ⟨hs, rfl⟩
  | reaching v =>
    unfold qstep pureAnswer
    by_cases hv : g.nodes.contains v = true
    · simp only [hv, if_true]
      cases hl : s.bwd.lookup v with
      | some r => exact ⟨hs, by rw [hs.2 v r hl]⟩
      | none =>
        refine ⟨⟨hs.1, ?_⟩, rfl⟩
        intro v' r hr
        rcases lookup_cons_some _ _ _ _ _ hr with ⟨rfl, rfl⟩ | h
        · rfl
        · exact hs.2 v' r h
    · simp only [hv]; exact ⟨hs, rfl⟩
  | sccEdge u v => exact ⟨hs, rfl⟩
  | edgeMax w => exact ⟨hs, rfl⟩

theorem qrun_ok (g : Graph) (o : CondOracle) (qs : List Query) :
    ∀ s, CacheOK g o s → CacheOK g o (qrun g o s qs).1 ∧ (qrun g o s qs).2 = qs.map (pureAnswer g o) := by
  induction qs with
  | nil => intro s hs; exact ⟨hs, rfl⟩
  | cons q qs ih =>
    intro s hs
    obtain ⟨h1, h2⟩ := qstep_ok g o s q hs
    obtain ⟨h3, h4⟩ := ih _ h1
    unfold qrun
    simp only [List.map_cons]
    exact ⟨h3, by rw [h2, h4]⟩

theorem cacheOK_empty (g : Graph) (o : CondOracle) : CacheOK g o {} := by
  constructor <;> intro v r h <;> simp at h

end FP
