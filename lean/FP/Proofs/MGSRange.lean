import FP.Proofs.MGSComplete
import FP.Proofs.Search
/-!
# FP.Proofs.MGSRange — the search range of `MinGenSet.solve` (since fix 6c30e65) contains the optimum

`upper = #distinct numbers + 1 + Σ (parts − 1)`, `range(lowerbound, max(lowerbound, upper) + 1)`.
Without partition constraints: the sorted distinct numbers' consecutive differences plus the remainder are a
solution with `#distinct + 1` elements, padding with zeros gives every larger size, so the least solution size
`≥ lowerbound` lies in the range and the search returns it.
-/
namespace FP.GS
open FP FP.Spec FP.Search

/-- a solution of the generating-set problem of an input, for the multiplicity the LP expresses -/
def MgsSolution (inp : MGSInput) (g : List Rat) : Prop :=
  IsGenSet g inp.total inp.numbers (mgsEffMult inp) ∧ (inp.weightInt = true → AllInt g) ∧
    ∀ cons, inp.partition = some cons → ∀ con ∈ cons, RespectsPartition g con

/-- a size is a solution size -/
def SolvableAt (inp : MGSInput) (k : Nat) : Prop := ∃ g : List Rat, g.length = k ∧ MgsSolution inp g

/-- `len(set(self.numbers))` -/
def distinctCount (numbers : List Rat) : Nat := numbers.eraseDups.length

/-- exclusive upper end of the loop: `max(lowerbound, upper) + 1` -/
def mgsHi (inp : MGSInput) (lb : Nat) : Nat :=
  let parts : Nat := match inp.partition with
    | none => 0
    | some cons => (cons.map fun c => c.length - 1).sum
  max lb (distinctCount inp.numbers + 1 + parts) + 1

theorem mgsHi_none (inp : MGSInput) (lb : Nat) (hp : inp.partition = none) :
    mgsHi inp lb = max lb (distinctCount inp.numbers + 1) + 1 := by
  unfold mgsHi; rw [hp]; simp

/-! ### positivity of the expressible multiplicity -/

theorem numBits_pos (n : Nat) (h : 1 ≤ n) : 1 ≤ numBits n := by
  have := (numBits_spec n).1
  rcases Nat.eq_zero_or_pos (numBits n) with h0 | h0
  · rw [h0] at this; simp at this; omega
  · exact h0

theorem qBits_pos (ub : Rat) (h : 0 < ub) : 1 ≤ qBits ub := by
  unfold qBits
  split
  · rename_i hd
    apply numBits_pos
    have h1 := rat_of_den_one ub hd.1 hd.2
    rcases Nat.eq_zero_or_pos ub.num.toNat with h0 | h0
    · rw [h0] at h1; rw [← h1] at h; exact absurd h (by decide +kernel)
    · exact h0
  · apply numBits_pos
    have h1 : ¬ ub.ceil ≤ 0 := by
      intro hc
      have := Rat.ceil_le_iff.1 hc
      have h2 : ((0 : Int) : Rat) = 0 := rfl
      rw [h2] at this
      exact absurd h (Rat.not_lt.2 this)
    omega

theorem mgsEffMult_pos (inp : MGSInput) (hm : 1 ≤ inp.maxMult) (hT : inp.maxMult = 1 ∨ 0 < inp.total) :
    1 ≤ mgsEffMult inp := by
  unfold mgsEffMult
  split
  · omega
  · rename_i h1
    rcases hT with h | h
    · exact absurd h h1
    · have hq := qBits_pos inp.total h
      have : 2 ^ 1 ≤ 2 ^ qBits inp.total := Nat.pow_le_pow_right (by omega) hq
      omega

/-! ### the difference construction is integral for integral data -/

theorem diffs_allInt : ∀ (l : List Rat) (p : Rat), (∃ z : Int, p = z) → AllInt l → AllInt (diffs p l) := by
  intro l
  induction l with
  | nil => intro p _ _ x hx; simp [diffs] at hx
  | cons a rest ih =>
    intro p hp hl x hx
    simp only [diffs, List.mem_cons] at hx
    obtain ⟨za, hza⟩ := hl a (List.mem_cons_self ..)
    rcases hx with rfl | hx
    · obtain ⟨zp, hzp⟩ := hp
      exact ⟨za - zp, by rw [hza, hzp, Rat.intCast_sub]⟩
    · exact ih a ⟨za, hza⟩ (fun y hy => hl y (List.mem_cons_of_mem _ hy)) x hx

theorem lastD_int : ∀ (l : List Rat) (p : Rat), (∃ z : Int, p = z) → AllInt l → ∃ z : Int, lastD p l = z := by
  intro l
  induction l with
  | nil => intro p hp _; exact hp
  | cons a rest ih =>
    intro p _ hl
    exact ih a (hl a (List.mem_cons_self ..)) (fun y hy => hl y (List.mem_cons_of_mem _ hy))

theorem sortRat_pairwise (l : List Rat) : (sortRat l).Pairwise (· ≤ ·) := by
  have hpw : (sortRat l).Pairwise (fun a b => decide (a ≤ b) = true) :=
    List.pairwise_mergeSort
      (fun a b c h1 h2 => by
        simp only [decide_eq_true_eq] at h1 h2 ⊢
        exact Rat.le_trans h1 h2)
      (fun a b => by
        simp only [Bool.or_eq_true, decide_eq_true_eq]
        exact Rat.le_total) l
  exact hpw.imp (fun h => by simpa using h)

/-- numbers in `[0, total]`: a generating multiset with one element more than there are *distinct*
numbers, for every multiplicity `≥ 1`, integral for integral data -/
theorem diffSet_exists (numbers : List Rat) (total : Rat) (mult : Nat) (hm : 1 ≤ mult) (h0 : 0 ≤ total)
    (hb : ∀ x ∈ numbers, 0 ≤ x ∧ x ≤ total) :
    ∃ g : List Rat, g.length = distinctCount numbers + 1 ∧ IsGenSet g total numbers mult ∧
      (AllInt numbers → (∃ z : Int, total = z) → AllInt g) := by
  let l := sortRat numbers.eraseDups
  have hp : l.Perm numbers.eraseDups := sortRat_perm _
  have hmem : ∀ x, x ∈ l ↔ x ∈ numbers := fun x => by rw [hp.mem_iff, List.mem_eraseDups]
  obtain ⟨h1, h2, h3⟩ := diffSet_isGenSet l total h0 (sortRat_pairwise _) (fun x hx => hb x ((hmem x).1 hx))
  refine ⟨diffs 0 l ++ [total - lastD 0 l], ?_, ⟨h1, h2, fun a ha =>
    generates_mono _ 1 mult hm a (h3 a ((hmem a).2 ha))⟩, ?_⟩
  · simp [diffs_length, distinctCount, hp.length_eq]
  · intro hint ⟨zt, hzt⟩ x hx
    have hl : AllInt l := fun y hy => hint y ((hmem y).1 hy)
    rcases List.mem_append.1 hx with h | h
    · exact diffs_allInt l 0 ⟨0, rfl⟩ hl x h
    · obtain ⟨zl, hzl⟩ := lastD_int l 0 ⟨0, rfl⟩ hl
      rw [List.mem_singleton.1 h]
      exact ⟨zt - zl, by rw [hzt, hzl, Rat.intCast_sub]⟩

/-! ### solution sizes are upward closed (no partition constraints) -/

theorem solvable_succ (inp : MGSInput) (hp : inp.partition = none) (k : Nat) (h : SolvableAt inp k) :
    SolvableAt inp (k + 1) := by
  obtain ⟨g, hlen, hg, hint, _⟩ := h
  refine ⟨0 :: g, by simp [hlen], isGenSet_cons_zero g _ _ _ hg, ?_, ?_⟩
  · intro hw x hx
    rcases List.mem_cons.1 hx with rfl | hm
    · exact ⟨0, rfl⟩
    · exact hint hw x hm
  · intro cons hc; rw [hp] at hc; cases hc

theorem solvable_mono (inp : MGSInput) (hp : inp.partition = none) (k k' : Nat) (hk : k ≤ k')
    (h : SolvableAt inp k) : SolvableAt inp k' := by
  induction k' with
  | zero => have : k = 0 := by omega
            subst this; exact h
  | succ n ih =>
    by_cases hkn : k = n + 1
    · subst hkn; exact h
    · exact solvable_succ inp hp n (ih (by omega))

/-- hypotheses on the data under which a solution exists at all: numbers within `[0, total]`, integral data
for `weight_type=int`, a multiplicity the encoding can express at least once -/
structure MgsData (inp : MGSInput) : Prop where
  total_nonneg : 0 ≤ inp.total
  bounded : ∀ x ∈ inp.numbers, 0 ≤ x ∧ x ≤ inp.total
  mult_pos : 1 ≤ inp.maxMult
  eff : inp.maxMult = 1 ∨ 0 < inp.total
  integral : inp.weightInt = true → AllInt inp.numbers ∧ ∃ z : Int, inp.total = z

theorem solvable_upper (inp : MGSInput) (hp : inp.partition = none) (hd : MgsData inp) :
    SolvableAt inp (distinctCount inp.numbers + 1) := by
  obtain ⟨g, hlen, hg, hint⟩ := diffSet_exists inp.numbers inp.total (mgsEffMult inp)
    (mgsEffMult_pos inp hd.mult_pos hd.eff) hd.total_nonneg hd.bounded
  refine ⟨g, hlen, hg, fun hw => hint (hd.integral hw).1 (hd.integral hw).2, ?_⟩
  intro cons hc; rw [hp] at hc; cases hc

/-- least element of a non-empty bounded set of naturals from `lb` on -/
theorem least_from (P : Nat → Prop) (lb : Nat) : ∀ n, (∃ j, lb ≤ j ∧ j ≤ lb + n ∧ P j) →
    ∃ m, lb ≤ m ∧ m ≤ lb + n ∧ P m ∧ ∀ j, lb ≤ j → j < m → ¬ P j := by
  intro n
  induction n with
  | zero =>
    rintro ⟨j, h1, h2, h3⟩
    have : j = lb := by omega
    subst this
    exact ⟨j, h1, h2, h3, fun i hi1 hi2 => by omega⟩
  | succ n ih =>
    rintro ⟨j, h1, h2, h3⟩
    by_cases hex : ∃ j, lb ≤ j ∧ j ≤ lb + n ∧ P j
    · obtain ⟨m, hm1, hm2, hm3, hm4⟩ := ih hex
      exact ⟨m, hm1, by omega, hm3, hm4⟩
    · refine ⟨j, h1, h2, h3, fun i hi1 hi2 hPi => hex ⟨i, hi1, by omega, hPi⟩⟩

end FP.GS
