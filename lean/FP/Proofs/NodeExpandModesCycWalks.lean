import FP.Proofs.NodeExpandModesCyc
import FP.Proofs.WalkCore
import FP.Proofs.KFDC
import FP.Proofs.KLAEC
import FP.Proofs.KMPEC
import FP.Proofs.C09WalkCover
/-!
# FP.Proofs.NodeExpandModesCycWalks — the walks of the cyclic node branches condense to walks of the caller's graph

Composition of the walk core's soundness (`walk_routes_valid`: every layer of a satisfying assignment of
`_encode_walks` decodes to an admissible route of the base graph — here the expansion) with
`expanded_route_condenses`: an admissible route of the expansion with starts `v.0` / ends `v.1` is
`v₁.0 v₁.1 … vₙ.0 vₙ.1` for an admissible route `v₁ … vₙ` of the caller's graph (cycles allowed: the same node may
occur many times), and `get_condensed_paths` returns it. None of this reads the repetition caps, so it holds for the
node branches as they are (no hypothesis on copied edge attributes).
-/
namespace FP
namespace NX
open FP.Spec

/-- the walk core on the augmented expansion: every decoded layer is empty (allowed only with `allow_empty_walks`) or
condenses to an admissible route of the caller's graph -/
theorem nxc_walks_condense (g : Graph) (hc : Closed g) (starts ends : List Node) (c : WalkCfg) (ub : Edge → Rat)
    (a : Asg) (hsat : Sat a (encodeWalks (augment (expandGraph g) (starts.map n0) (ends.map n1)) c ub))
    (i : Nat) (hi : i < c.k) :
    (decodeWalkLayer (augment (expandGraph g) (starts.map n0) (ends.map n1)) a i = [] → c.allowEmpty = true) ∧
    (decodeWalkLayer (augment (expandGraph g) (starts.map n0) (ends.map n1)) a i ≠ [] →
      ∃ p, condensePath g.nodes [] (decodeWalkLayer (augment (expandGraph g) (starts.map n0) (ends.map n1)) a i) = .ok p ∧
        ValidRoute g starts ends p ∧
        decodeWalkLayer (augment (expandGraph g) (starts.map n0) (ends.map n1)) a i = expandPath p) := by
  obtain ⟨h1, h2⟩ := walk_routes_valid (expandGraph g) (starts.map n0) (ends.map n1) c ub a
    (expansion_wf g hc) hsat i hi
  refine ⟨h1, fun hne => ?_⟩
  obtain ⟨p, hp1, hp2, hp3⟩ := expanded_route_condenses g hc starts ends _ (h2 hne)
  exact ⟨p, hp3, hp2, hp1⟩

/-- what the four corollaries conclude about layer `i` of an assignment -/
def WalksCondense (inp : NodeModeInput) (a : Asg) (i : Nat) : Prop :=
  (decodeWalkLayer (expandWalkInput inp).st a i = [] → inp.nf.allowEmpty = true) ∧
  (decodeWalkLayer (expandWalkInput inp).st a i ≠ [] →
    ∃ p, condensePath inp.nf.ng.g.nodes [] (decodeWalkLayer (expandWalkInput inp).st a i) = .ok p ∧
      ValidRoute inp.nf.ng.g inp.starts inp.ends p ∧
      decodeWalkLayer (expandWalkInput inp).st a i = expandPath p)

theorem nxc_condense_of_enc (inp : NodeModeInput) (ng : NodeGraph) (hg : ng.g = inp.nf.ng.g) (hc : Closed inp.nf.ng.g)
    (ub : Edge → Rat) (a : Asg)
    (hsat : Sat a (encodeWalks (nxcTranslated inp ng).st (nxcTranslated inp ng).cfg ub))
    (i : Nat) (hi : i < inp.nf.k) : WalksCondense inp a i := by
  have hst : (nxcTranslated inp ng).st
      = augment (expandGraph inp.nf.ng.g) (inp.starts.map n0) (inp.ends.map n1) := by
    unfold WalkInput.st nxcTranslated; rw [hg]
  rw [hst] at hsat
  exact nxc_walks_condense inp.nf.ng.g hc inp.starts inp.ends _ ub a hsat i hi

theorem nxc_kfdc_walks_condense (inp : NodeModeInput) (given : Option (List Rat)) (lp : LP)
    (hc : Closed inp.nf.ng.g) (h : kfdcNodeLP inp given = .ok lp) (a : Asg) (hsat : Sat a lp)
    (i : Nat) (hi : i < inp.nf.k) : WalksCondense inp a i := by
  unfold kfdcNodeLP at h
  cases hi' : kfdcNodeInternal inp with
  | error e => rw [hi'] at h; exact nomatch h
  | ok wi =>
    rw [hi'] at h
    dsimp only at h
    have hwi := nxc_kfdcNodeInternal_ok hi'
    subst hwi
    have hlp : ∃ g', lp = kfdcLP (nxcTranslated inp inp.nf.ng) g' := by
      cases given with
      | none => exact ⟨none, (Except.ok.inj h).symm⟩
      | some ws =>
        dsimp only at h
        split at h
        · exact nomatch h
        · exact ⟨some ws, (Except.ok.inj h).symm⟩
    obtain ⟨g', rfl⟩ := hlp
    exact nxc_condense_of_enc inp inp.nf.ng rfl hc _ a (sat_enc_of_base (sat_kfdc_base _ g' a hsat)) i hi

theorem nxc_kcoverc_walks_condense (inp : NodeModeInput) (lp : LP)
    (hc : Closed inp.nf.ng.g) (h : kcovercNodeLP inp = .ok lp) (a : Asg) (hsat : Sat a lp)
    (i : Nat) (hi : i < inp.nf.k) : WalksCondense inp a i := by
  unfold kcovercNodeLP at h
  cases hi' : kcovercNodeInternal inp with
  | error e => rw [hi'] at h; exact nomatch h
  | ok wi =>
    rw [hi'] at h
    have hlp : kcovercLP wi = lp := Except.ok.inj h
    rw [← hlp, nxc_kcovercNodeInternal_ok hi'] at hsat
    exact nxc_condense_of_enc inp (coverNG inp.nf.ng) rfl hc _ a (c09w_sat_enc _ a hsat) i hi

theorem nxc_klaec_walks_condense (inp : NodeModeInput) (lp : LP)
    (hc : Closed inp.nf.ng.g) (h : klaecNodeLP inp = .ok lp) (a : Asg) (hsat : Sat a lp)
    (i : Nat) (hi : i < inp.nf.k) : WalksCondense inp a i := by
  unfold klaecNodeLP at h
  cases hi' : errcNodeInternal inp with
  | error e => rw [hi'] at h; exact nomatch h
  | ok wi =>
    rw [hi'] at h
    have hlp : klaecLP wi = lp := Except.ok.inj h
    rw [← hlp, nxc_errcNodeInternal_ok hi'] at hsat
    exact nxc_condense_of_enc inp inp.nf.ng rfl hc _ a (klaec_sat_enc hsat) i hi

theorem nxc_kmpec_walks_condense (inp : NodeModeInput) (lp : LP)
    (hc : Closed inp.nf.ng.g) (h : kmpecNodeLP inp = .ok lp) (a : Asg) (hsat : Sat a lp)
    (i : Nat) (hi : i < inp.nf.k) : WalksCondense inp a i := by
  unfold kmpecNodeLP at h
  cases hi' : errcNodeInternal inp with
  | error e => rw [hi'] at h; exact nomatch h
  | ok wi =>
    rw [hi'] at h
    have hlp : kmpecLP wi = lp := Except.ok.inj h
    rw [← hlp, nxc_errcNodeInternal_ok hi'] at hsat
    exact nxc_condense_of_enc inp inp.nf.ng rfl hc _ a (kmpec_sat_enc hsat) i hi

end NX
end FP
