import FP.Proofs.SafetyMaxSeq
/-!
# FP.Proofs.C06IncompatCores — the maximal safe sequences form a family with pairwise different cores

`maximal_safe_sequences_via_dominators` assembles one sequence `s_doms[::-1] + t_doms[1:]` per *core*; the cores
are distinct members of `X` (a sub-list of the de-duplicated `X`), each sequence contains its core and is forced by
it (`CoreFamily`).
-/
namespace FP.Safety
open FP FP.Spec

/-- **the structural property of the input of `get_longest_incompatible_sequences`**: the sequences come with
pairwise different edges (their cores), each sequence contains its core and occurs in every source-to-sink walk
through its core -/
def CoreFamily (g : Graph) (s t : Node) (seqs : List (List Edge)) : Prop :=
  ∃ core : Nat → Edge,
    (∀ i j, i < seqs.length → j < seqs.length → i ≠ j → core i ≠ core j) ∧
    ∀ i, i < seqs.length → core i ∈ seqs.getD i [] ∧ ForcedBy g s t [core i] (seqs.getD i [])

/-- two lists related position by position -/
inductive c06i_Aligned {α β : Type} (R : α → β → Prop) : List α → List β → Prop
  | nil : c06i_Aligned R [] []
  | cons {a b l1 l2} : R a b → c06i_Aligned R l1 l2 → c06i_Aligned R (a :: l1) (b :: l2)

theorem c06i_aligned_length {α β : Type} {R : α → β → Prop} {l1 : List α} {l2 : List β}
    (h : c06i_Aligned R l1 l2) : l1.length = l2.length := by
  induction h with
  | nil => rfl
  | cons _ _ ih => simp [ih]

theorem c06i_aligned_getD {α β : Type} {R : α → β → Prop} (da : α) (db : β) {l1 : List α} {l2 : List β}
    (h : c06i_Aligned R l1 l2) : ∀ i, i < l2.length → R (l1.getD i da) (l2.getD i db) := by
  induction h with
  | nil => intro i hi; simp at hi
  | cons hab _ ih =>
    intro i hi
    cases i with
    | zero => simpa using hab
    | succ i => simpa using ih i (by simpa using hi)

theorem c06i_coreFamily_of_aligned (g : Graph) (s t : Node) (cores : List Edge) (seqs : List (List Edge))
    (hnd : cores.Nodup) (h : c06i_Aligned (fun c q => c ∈ q ∧ ForcedBy g s t [c] q) cores seqs) :
    CoreFamily g s t seqs := by
  have hlen := c06i_aligned_length h
  refine ⟨fun i => cores.getD i ("", ""), ?_, c06i_aligned_getD ("", "") [] h⟩
  intro i j hi hj hij heq
  apply hij
  have hi' : i < cores.length := by omega
  have hj' : j < cores.length := by omega
  simp only [List.getD_eq_getElem?_getD, List.getElem?_eq_getElem hi', List.getElem?_eq_getElem hj',
    Option.getD_some] at heq
  exact (List.getElem?_inj hi' hnd).1 (by rw [List.getElem?_eq_getElem hi', List.getElem?_eq_getElem hj', heq])

theorem c06i_nodup_eraseDups {α} [BEq α] [LawfulBEq α] (l : List α) : l.eraseDups.Nodup := by
  suffices h : ∀ n, ∀ l : List α, l.length ≤ n → l.eraseDups.Nodup from h l.length l (Nat.le_refl _)
  intro n
  induction n with
  | zero =>
    intro l hl
    have : l = [] := List.eq_nil_of_length_eq_zero (Nat.le_zero.1 hl)
    subst this; simp
  | succ n ih =>
    intro l hl
    cases l with
    | nil => simp
    | cons a as =>
      rw [List.eraseDups_cons]
      apply List.nodup_cons.2
      constructor
      · intro h
        have := (List.mem_filter.1 (List.mem_eraseDups.1 h)).2
        simp at this
      · apply ih
        have := List.length_filter_le (fun b => !b == a) as
        simp at hl; omega

/-- the cores are a sub-list of the leaves -/
theorem c06i_filterCores_sublist (T : Trees Node) (X : List Edge) (fuel : Nat) : ∀ ls cs,
    filterCores T X fuel ls = .ok cs → (cs.map TNode.arc).Sublist ls := by
  intro ls
  induction ls with
  | nil => intro cs h; simp [filterCores] at h; cases h; simp
  | cons l ls ih =>
    intro cs h
    unfold filterCores at h
    cases h1 : isCore T X fuel l with
    | ok b =>
      cases h2 : filterCores T X fuel ls with
      | ok rest =>
        simp only [h1, h2, bind, pure] at h
        have hrest := ih rest h2
        cases l with
        | root =>
          simp only at h; injection h with h; subst h
          exact hrest.cons _
        | arc a =>
          simp only at h; injection h with h; subst h
          by_cases hb : b = true
          · simp only [hb, if_true, List.map_cons]
            exact hrest.cons_cons _
          · simp only [hb]
            exact hrest.cons _
      | raises w => simp only [h1, h2, bind] at h; cases h
      | fuel => simp only [h1, h2, bind] at h; cases h
    | raises w => simp only [h1, bind] at h; cases h
    | fuel => simp only [h1, bind] at h; cases h

/-- one sequence per core, in the order of the cores -/
theorem c06i_sequencesOf_forall2 (T : Trees Node) (fuel : Nat) : ∀ cs seqs, sequencesOf T fuel cs = .ok seqs →
    c06i_Aligned (fun c q => ∃ sd td, getDominators T.sIdom fuel c [] = .ok sd ∧
      getDominators T.tIdom fuel c [] = .ok td ∧ q = sd.reverse ++ td.drop 1) cs seqs := by
  intro cs
  induction cs with
  | nil => intro seqs h; simp [sequencesOf] at h; cases h; exact c06i_Aligned.nil
  | cons c cs ih =>
    intro seqs h
    unfold sequencesOf at h
    cases h1 : getDominators T.sIdom fuel c [] with
    | ok sd =>
      cases h2 : getDominators T.tIdom fuel c [] with
      | ok td =>
        cases h3 : sequencesOf T fuel cs with
        | ok rest =>
          simp only [h1, h2, h3, bind, pure] at h
          injection h with h; subst h
          exact c06i_Aligned.cons ⟨sd, td, h1, h2, rfl⟩ (ih rest h3)
        | raises w => simp only [h1, h2, h3, bind] at h; cases h
        | fuel => simp only [h1, h2, h3, bind] at h; cases h
      | raises w => simp only [h1, h2, bind] at h; cases h
      | fuel => simp only [h1, h2, bind] at h; cases h
    | raises w => simp only [h1, bind] at h; cases h
    | fuel => simp only [h1, bind] at h; cases h

theorem c06i_forall2_imp {α β : Type} {R S : α → β → Prop} (h : ∀ a b, R a b → S a b) :
    ∀ {l1 : List α} {l2 : List β}, c06i_Aligned R l1 l2 → c06i_Aligned S l1 l2 := by
  intro l1 l2 hf
  induction hf with
  | nil => exact c06i_Aligned.nil
  | cons hab _ ih => exact c06i_Aligned.cons (h _ _ hab) ih

theorem c06i_maxSeqsFromIdoms_coreFamily (g : Graph) (s t : Node) (si ti : IdomTable Node)
    (hs : SIdomSound g s si) (ht : TIdomSound g t ti) (X : List Edge) (seqs : List (List Edge))
    (h : maxSeqsFromIdoms si ti X = .ok seqs) : CoreFamily g s t seqs := by
  unfold maxSeqsFromIdoms at h
  simp only at h
  split at h
  · rename_i sp tp _ _
    cases h1 : filterCores ⟨si, ti, sp, tp⟩ X.eraseDups (si.length + 2)
        ((X.eraseDups.map TNode.arc ++ [TNode.root]).filter fun x => (childrenX sp x).isEmpty) with
    | ok cores =>
      simp only [h1, bind] at h
      refine c06i_coreFamily_of_aligned g s t cores seqs ?_ ?_
      · -- the cores are distinct
        have hsub := (c06i_filterCores_sublist _ _ _ _ _ h1).trans List.filter_sublist
        have hnd : (X.eraseDups.map TNode.arc ++ [TNode.root]).Nodup := by
          apply List.nodup_append.2
          refine ⟨?_, by simp, ?_⟩
          · show List.Pairwise _ _
            rw [List.pairwise_map]
            exact (c06i_nodup_eraseDups X).imp (fun hab h => hab (by injection h))
          · intro a ha b hb
            obtain ⟨e, _, rfl⟩ := List.mem_map.1 ha
            simp only [List.mem_singleton] at hb
            subst hb
            intro h; cases h
        have hmap : List.Pairwise (fun a b => a ≠ b) (cores.map TNode.arc) := hsub.nodup hnd
        rw [List.pairwise_map] at hmap
        exact hmap.imp (fun hab h => hab (by rw [h]))
      · refine c06i_forall2_imp ?_ (c06i_sequencesOf_forall2 _ _ _ _ h)
        rintro c q ⟨sd, td, hsd, htd, rfl⟩
        obtain ⟨chs, hrs, hchs⟩ := getDominators_s g s si hs _ c [] sd hsd
        obtain ⟨cht, hrt, hcht⟩ := getDominators_t g t ti ht _ c [] td htd
        refine ⟨by rw [hrs]; simp, ?_⟩
        intro w hw ho
        have hcw : c ∈ walkEdges w := by
          have : [c].Sublist (walkEdges w) := ho
          exact this.subset (by simp)
        obtain ⟨w1, w2, rfl⟩ := mem_we_split hcw
        unfold Occurs
        rw [hrs, hrt, we_append_cons, we_cons_cons]
        simp only [List.nil_append, List.reverse_cons, List.drop_succ_cons, List.drop_zero, List.append_assoc,
          List.singleton_append]
        exact (hchs _ (prefix_walk hw)).append (List.Sublist.cons_cons _ (hcht _ (suffix_walk hw)))
    | raises w => simp only [h1, bind] at h; cases h
    | fuel => simp only [h1, bind] at h; cases h
  · cases h

/-- **the maximal safe sequences are a `CoreFamily`** -/
theorem c06i_maxSafeSeqs_coreFamily (g : Graph) (hg : GraphWF g) (s t : Node) (X : List Edge)
    (seqs : List (List Edge)) (h : maxSafeSeqs g s t X = .ok seqs) : CoreFamily g s t seqs := by
  rcases maxSafeSeqs_cases g s t X seqs h with rfl | ⟨es, X', si, ti, _, htab, hm⟩
  · exact c06i_coreFamily_of_aligned g s t [] [] List.nodup_nil c06i_Aligned.nil
  · obtain ⟨hs, ht⟩ := idomTables_sound g hg s t _ _ _ _ _ _ _ htab (fun _ _ => Iff.rfl) (fun _ _ => Iff.rfl)
      (fun e d hm => by simp at hm) (fun e d hm => by simp at hm)
    exact c06i_maxSeqsFromIdoms_coreFamily g s t si ti
      (fun e d hl => hs e d (lookup_mem _ _ _ hl)) (fun e d hl => ht e d (lookup_mem _ _ _ hl)) X' seqs hm

end FP.Safety
