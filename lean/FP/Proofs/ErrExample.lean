import FP.Proofs.KMPE
import FP.Proofs.RouteUser
/-!
# FP.Proofs.ErrExample — a concrete instance of the two error models

User DAG `a → b → c` with values `f(a,b) = 4`, `f(b,c) = 1`, `error_scaling = {(a,b): 1/2}`, `k = 1`,
`weight_type = int`. The only route is `a, b, c`; with weight 1 the errors are `3` on `(a,b)` and `0`
on `(b,c)`: scaled total `3/2`, unscaled total `3`. Used for the non-vacuity examples of C07 / C08
and for the objective-inconsistency witness.

(`Rat` arithmetic does not reduce in the kernel, so the structural parts are evaluated by `decide`
and the arithmetic by `grind`; `half` is the normal form of `1/2`.)
-/
namespace FP.ErrExample
open FP FP.Spec

def half : Rat := ⟨1, 2, by decide, by decide⟩
theorem half_eq : half = 1/2 := by
  have t : half = mkRat 1 2 := by rfl
  rw [t, Rat.mkRat_eq_div]; simp

def base : Graph := { nodes := ["a", "b", "c"], edges := [("a", "b"), ("b", "c")] }

theorem base_wf : BaseWF base where
  edgesNodup := by decide
  nodesNodup := by decide
  closed := by decide
  freshSrc := by decide
  freshSnk := by decide

def rank : Node → Nat := fun v => if v = "a" then 0 else if v = "b" then 1 else 2
theorem base_acyclic : Acyclic base := ⟨rank, by decide⟩

/-- `encodePosition` is on (as `kMinPathError` forces it; harmless for `kLeastAbsErrors`) -/
def fi : FlowInput :=
  { base := base, flow := [(("a", "b"), 4), (("b", "c"), 1)], weightInt := true,
    cfg := { k := 1, encodePosition := true } }

def inp : ErrInput := { fi := fi, scaling := [(("a", "b"), half)] }
def mpe : MpeInput := { ei := inp }

def P : Nat → List Node := fun _ => ["a", "b", "c"]
def w : Nat → Rat := fun _ => 1
/-- slack 2 covers `|4 − 1| · 1/2 = 3/2` (integral slacks) -/
def sl : Nat → Rat := fun _ => 2

theorem w0 (i : Nat) : 0 ≤ w i := by show (0:Rat) ≤ 1; decide
theorem w4 (i : Nat) : w i ≤ 4 := by show (1:Rat) ≤ 4; decide
theorem wint (i : Nat) : IsInt (w i) := ⟨1, by show (1:Rat) = ((1:Int):Rat); simp⟩
theorem sl0 (i : Nat) : 0 ≤ sl i := by show (0:Rat) ≤ 2; decide
theorem sl4 (i : Nat) : sl i ≤ 4 := by show (2:Rat) ≤ 4; decide
theorem slint (i : Nat) : IsInt (sl i) := ⟨2, by show (2:Rat) = ((2:Int):Rat); simp⟩
theorem k1 : inp.k = 1 := rfl
theorem basic : inp.basicEdges = [("a", "b"), ("b", "c")] := by decide
theorem f_ab : inp.fi.f ("a", "b") = 4 := by decide
theorem f_bc : inp.fi.f ("b", "c") = 1 := by decide
theorem sc_ab : inp.scale ("a", "b") = 1/2 := by rw [← half_eq]; decide
theorem sc_bc : inp.scale ("b", "c") = 1 := by decide
theorem fmax4 : inp.fmax = 4 := by decide
theorem wmax4 : inp.wmax none = 4 := by
  rw [wmax_eq, fmax4]
  have : ((inp.k : Nat) : Rat) = 1 := by decide
  rw [this]; grind
theorem tr_ab : trav inp.st (P 0) ("a", "b") = 1 := by decide
theorem tr_bc : trav inp.st (P 0) ("b", "c") = 1 := by decide

theorem ex_w_ab : explained inp.st inp.k P w ("a", "b") = 1 := by
  unfold explained; rw [k1]; simp [tr_ab, w]; grind
theorem ex_w_bc : explained inp.st inp.k P w ("b", "c") = 1 := by
  unfold explained; rw [k1]; simp [tr_bc, w]; grind
theorem ex_sl_ab : explained inp.st inp.k P sl ("a", "b") = 2 := by
  unfold explained; rw [k1]; simp [tr_ab, sl]; grind
theorem ex_sl_bc : explained inp.st inp.k P sl ("b", "c") = 2 := by
  unfold explained; rw [k1]; simp [tr_bc, sl]; grind

theorem err_ab : LAE.absErr inp P w ("a", "b") = 3 := by
  unfold LAE.absErr; rw [ex_w_ab, f_ab]; unfold Rat.abs; split <;> grind
theorem err_bc : LAE.absErr inp P w ("b", "c") = 0 := by
  unfold LAE.absErr; rw [ex_w_bc, f_bc]; unfold Rat.abs; split <;> grind

theorem valid : ValidRoute base [] [] ["a", "b", "c"] where
  nonempty := by decide
  nodes := by decide
  adjacent := by unfold IsWalkIn; decide
  first := by
    intro v hv
    have : v = "a" := by simpa using hv.symm
    subst this; left; decide
  last := by
    intro v hv
    have : v = "c" := by simpa using hv.symm
    subst this; left; decide

theorem route (ae : Bool) : Route inp.st ae ["a", "b", "c"] :=
  route_of_validRoute base [] [] base_wf base_acyclic ae _ valid

theorem mem_basic {e : Edge} (he : e ∈ inp.basicEdges) : e = ("a", "b") ∨ e = ("b", "c") := by
  rw [basic] at he
  simpa using he

theorem solution : LAE.Solution inp P w where
  routes := fun _ _ => route _
  nonneg := fun i _ => w0 i
  integral := fun _ i _ => wint i

theorem bounded : LAE.Bounded inp P w where
  toSolution := solution
  wle := fun i _ => by rw [wmax4]; exact w4 i
  errle := by
    intro e he
    rw [wmax4]
    rcases mem_basic he with rfl | rfl
    · rw [err_ab]; decide
    · rw [err_bc]; decide

theorem flows_int : inp.fi.weightInt = true → ∀ e ∈ inp.basicEdges, IsInt (inp.fi.f e) := by
  intro _ e he
  rcases mem_basic he with rfl | rfl
  · exact ⟨4, by decide⟩
  · exact ⟨1, by decide⟩

theorem scale_nonneg : ∀ e ∈ inp.basicEdges, 0 ≤ inp.scale e ∧ inp.scale e ≤ 1 := by
  intro e he
  rcases mem_basic he with rfl | rfl
  · rw [sc_ab]; constructor <;> grind
  · rw [sc_bc]; constructor <;> decide

theorem flows_ok : ∀ e ∈ inp.basicEdges, 0 ≤ inp.fi.f e ∧ inp.fi.f e ≤ inp.fmax := by
  intro e he
  rw [fmax4]
  rcases mem_basic he with rfl | rfl
  · rw [f_ab]; constructor <;> decide
  · rw [f_bc]; constructor <;> decide

theorem totalErr_val : LAE.totalErr inp P w = 3/2 := by
  unfold LAE.totalErr
  rw [basic]
  simp only [List.map_cons, List.map_nil, List.sum_cons, List.sum_nil, err_ab, err_bc, sc_ab, sc_bc]
  grind

theorem sumErr_val : (inp.basicEdges.map fun e => LAE.absErr inp P w e).sum = 3 := by
  rw [basic]
  simp only [List.map_cons, List.map_nil, List.sum_cons, List.sum_nil, err_ab, err_bc]
  grind

/-- the k-Min-Path-Error solution: weight 1, slack 2 -/
theorem mpe_bounded : MPE.Bounded mpe.ei P w sl where
  routes := fun _ _ => route _
  nonneg := fun i _ => ⟨w0 i, sl0 i⟩
  integral := fun _ i _ => ⟨wint i, slint i⟩
  slackOK := by
    intro e he
    unfold MPE.SlackOK
    show (inp.fi.f e - explained inp.st inp.k P w e).abs * inp.scale e ≤ explained inp.st inp.k P sl e
    rcases mem_basic he with rfl | rfl
    · rw [f_ab, ex_w_ab, ex_sl_ab, sc_ab]; unfold Rat.abs; split <;> grind
    · rw [f_bc, ex_w_bc, ex_sl_bc, sc_bc]; unfold Rat.abs; split <;> grind
  wle := fun i _ => by
    show w i ≤ inp.wmax none ∧ sl i ≤ inp.wmax none
    rw [wmax4]; exact ⟨w4 i, sl4 i⟩

theorem covers : MPE.Covers mpe.ei P := by
  intro e he
  refine ⟨0, by decide, ?_⟩
  rcases mem_basic he with rfl | rfl
  · exact tr_ab
  · exact tr_bc

end FP.ErrExample
