import FP.Proofs.Bottleneck
/-!
# FP.Proofs.BottleneckPath — what `max_bottleneck_path` returns: the best bottleneck over all
source-to-sink paths and a path that realises it
-/
namespace FP
open FP.Spec

/-- walks from a node without in-edges, with the list of edges used -/
inductive SrcWalk (g : Graph) : Node → List Edge → Prop
  | start (s : Node) : g.pred s = [] → SrcWalk g s []
  | snoc {u v : Node} {E : List Edge} : SrcWalk g u E → (u, v) ∈ g.edges → SrcWalk g v ((u, v) :: E)

theorem SrcWalk.has_pred {g : Graph} {v : Node} {E : List Edge} (h : SrcWalk g v E) (hE : E ≠ []) :
    ∃ u, (u, v) ∈ g.edges := by
  cases h with
  | start => exact absurd rfl hE
  | snoc _ he => exact ⟨_, he⟩

theorem srcWalk_of_walk (g : Graph) (p : List Node) :
    ∀ (u : Node) (E : List Edge), SrcWalk g u E → IsWalkIn g (u :: p) →
      ∀ t, (u :: p).getLast? = some t → ∃ E', SrcWalk g t E' ∧ ∀ e, e ∈ E' ↔ e ∈ E ∨ e ∈ walkEdges (u :: p) := by
  induction p with
  | nil =>
    intro u E hs _ t ht
    have : t = u := by simpa using ht.symm
    subst this
    exact ⟨E, hs, by simp [walkEdges]⟩
  | cons w p ih =>
    intro u E hs hw t ht
    have huw : (u, w) ∈ g.edges := hw (u, w) (by rw [walkEdges_cons_cons]; simp)
    have hw' : IsWalkIn g (w :: p) := fun e he => hw e (walkEdges_sub_cons u _ e he)
    rw [List.getLast?_cons_cons] at ht
    obtain ⟨E', h1, h2⟩ := ih w ((u, w) :: E) (SrcWalk.snoc hs huw) hw' t ht
    refine ⟨E', h1, ?_⟩
    intro e
    rw [h2 e, walkEdges_cons_cons]
    simp only [List.mem_cons]
    constructor
    · rintro ((h | h) | h)
      · exact Or.inr (Or.inl h)
      · exact Or.inl h
      · exact Or.inr (Or.inr h)
    · rintro (h | h | h)
      · exact Or.inl (Or.inr h)
      · exact Or.inl (Or.inl h)
      · exact Or.inr h

/-- every walk from a source into `v` has an edge whose flow is at most `B[v]` -/
theorem srcWalk_ub (g : Graph) (f : Edge → Rat) (st : BState) (topo : List Node) (htopo : IsTopo g.edges topo)
    (hloc : ∀ v ∈ topo, BLoc g f st v) {v : Node} {E : List Edge} (h : SrcWalk g v E) :
    (E = [] ∧ g.pred v = []) ∨ (∃ q, st.B v = some q ∧ ∃ e ∈ E, f e ≤ q) := by
  induction h with
  | start s hs => exact Or.inl ⟨rfl, hs⟩
  | snoc hu he ih =>
    rename_i u v E
    right
    have hv : v ∈ topo := (htopo.cover _ he).2
    have hu' : u ∈ topo := (htopo.cover _ he).1
    have hpv : g.pred v ≠ [] := by
      intro h0
      have := mem_pred.2 he
      rw [h0] at this; simp at this
    obtain ⟨q, hq, _, _, hall⟩ := (hloc v hv).2 hpv
    refine ⟨q, hq, ?_⟩
    have hle := hall u he
    rcases ih with ⟨_, hpu⟩ | ⟨qu, hqu, e, heE, hfe⟩
    · rw [(hloc u hu').1 hpu] at hle
      exact ⟨(u, v), by simp, hle⟩
    · rw [hqu] at hle
      unfold bmin at hle
      by_cases hlt : f (u, v) < qu
      · simp only [hlt, if_true] at hle
        exact ⟨(u, v), by simp, hle⟩
      · simp only [hlt, if_false] at hle
        exact ⟨e, by simp [heE], Rat.le_trans hfe hle⟩

theorem stpath_ub (g : Graph) (f : Edge → Rat) (st : BState) (topo : List Node) (htopo : IsTopo g.edges topo)
    (hloc : ∀ v ∈ topo, BLoc g f st v) (p : List Node) (hp : IsSTPath g p) :
    ∃ t q, p.getLast? = some t ∧ t ∈ topo ∧ g.pred t ≠ [] ∧ g.succ t = [] ∧ st.B t = some q ∧
      ∃ e ∈ walkEdges p, f e ≤ q := by
  cases p with
  | nil => have := hp.len; simp at this
  | cons s rest =>
    cases rest with
    | nil => have := hp.len; simp at this
    | cons w rest =>
      have hs := hp.first s rfl
      obtain ⟨t, ht⟩ : ∃ t, (s :: w :: rest).getLast? = some t := by
        cases h : (s :: w :: rest).getLast? with
        | none => simp at h
        | some t => exact ⟨t, rfl⟩
      obtain ⟨E', hw, hE⟩ := srcWalk_of_walk g (w :: rest) s [] (SrcWalk.start s hs) hp.walk t ht
      have hne : E' ≠ [] := by
        intro h0
        have : (s, w) ∈ E' := (hE _).2 (Or.inr (by rw [walkEdges_cons_cons]; simp))
        rw [h0] at this; simp at this
      obtain ⟨u, hu⟩ := hw.has_pred hne
      have hpt : g.pred t ≠ [] := by
        intro h0
        have := mem_pred.2 hu
        rw [h0] at this; simp at this
      rcases srcWalk_ub g f st topo htopo hloc hw with ⟨h0, _⟩ | ⟨q, hq, e, he, hfe⟩
      · exact absurd h0 hne
      · refine ⟨t, q, ht, (htopo.cover _ hu).2, hpt, hp.last t ht, hq, e, ?_, hfe⟩
        rcases (hE e).1 he with h | h
        · simp at h
        · exact h

theorem head?_append_ne_nil {α} (l m : List α) (h : l ≠ []) : (l ++ m).head? = l.head? := by
  cases l with
  | nil => exact absurd rfl h
  | cons a l => simp

theorem walkEdges_snoc (l : List Node) (a v : Node) :
    walkEdges (l ++ [a] ++ [v]) = walkEdges (l ++ [a]) ++ [(a, v)] := by
  induction l with
  | nil => simp [walkEdges]
  | cons x l ih =>
    cases l with
    | nil => simp [walkEdges]
    | cons y l =>
      have h1 : x :: y :: l ++ [a] ++ [v] = x :: y :: (l ++ [a] ++ [v]) := by simp
      have h2 : x :: y :: l ++ [a] = x :: y :: (l ++ [a]) := by simp
      rw [h1, h2, walkEdges_cons_cons, walkEdges_cons_cons]
      have h3 : y :: (l ++ [a] ++ [v]) = y :: l ++ [a] ++ [v] := by simp
      have h4 : y :: (l ++ [a]) = y :: l ++ [a] := by simp
      rw [h3, h4, ih]; simp

/-- the back-pointer walk from `v` reaches a source within `index of v` steps and realises `B[v]` -/
theorem recover_spec (g : Graph) (f : Edge → Rat) (st : BState) (topo : List Node) (htopo : IsTopo g.edges topo)
    (hloc : ∀ v ∈ topo, BLoc g f st v) (n : Nat) :
    ∀ (l1 : List Node) (v : Node) (l2 rest : List Node), topo = l1 ++ v :: l2 → l1.length < n →
      ∃ pre, recover g st.arg n v rest = some (pre ++ v :: rest) ∧ IsWalkIn g (pre ++ [v]) ∧
        (∀ s, (pre ++ [v]).head? = some s → g.pred s = []) ∧ (g.pred v = [] → pre = []) ∧
        (∀ q, st.B v = some q → (∀ e ∈ walkEdges (pre ++ [v]), q ≤ f e) ∧ ∃ e ∈ walkEdges (pre ++ [v]), f e = q) := by
  induction n with
  | zero => intro l1 v l2 rest _ h; omega
  | succ n ih =>
    intro l1 v l2 rest htp hlen
    have hv : v ∈ topo := by rw [htp]; simp
    unfold recover
    by_cases hp : g.pred v = []
    · have hB := (hloc v hv).1 hp
      refine ⟨[], by simp [hp], by intro e he; simp [walkEdges] at he, by intro s hs; simp at hs; rw [← hs]; exact hp,
        fun _ => rfl, ?_⟩
      intro q hq; rw [hB] at hq; simp at hq
    · have hpe : ¬ (g.pred v).isEmpty = true := fun h' => hp ((isEmpty_iff _).1 h')
      simp only [hpe]
      obtain ⟨q, hq, hav, hqeq, _⟩ := (hloc v hv).2 hp
      -- the back pointer lies strictly before `v`
      have ha : st.arg v ∈ l1 := by
        have hmem : st.arg v ∈ l1 ++ v :: l2 := htp ▸ (htopo.cover _ hav).1
        rcases List.mem_append.1 hmem with h | h
        · exact h
        · rcases List.mem_cons.1 h with h | h
          · rw [h] at hav; exact absurd hav (htopo.noloop _)
          · have hq' := (List.pairwise_append.1 (htp ▸ htopo.fwd)).2.1
            exact absurd hav ((List.pairwise_cons.1 hq').1 _ h)
      obtain ⟨s, t', hst⟩ := List.append_of_mem ha
      have htp' : topo = s ++ st.arg v :: (t' ++ v :: l2) := by rw [htp, hst]; simp
      have hlen' : s.length < n := by
        have : l1.length = s.length + (t'.length + 1) := by rw [hst]; simp
        omega
      obtain ⟨pre', r1, r2, r3, r4, r5⟩ := ih s (st.arg v) (t' ++ v :: l2) (v :: rest) htp' hlen'
      refine ⟨pre' ++ [st.arg v], by rw [r1]; simp, ?_, ?_, fun h => absurd h hp, ?_⟩
      · intro e he
        rw [walkEdges_snoc] at he
        rcases List.mem_append.1 he with h | h
        · exact r2 e h
        · have : e = (st.arg v, v) := by simpa using h
          rw [this]; exact hav
      · intro s' hs'
        apply r3 s'
        rw [head?_append_ne_nil _ _ (by simp)] at hs'
        exact hs'
      · intro q' hq'
        have hqq : q' = q := by rw [hq] at hq'; exact (Option.some.inj hq').symm
        subst hqq
        rw [walkEdges_snoc]
        cases hBa : st.B (st.arg v) with
        | none =>
          have hpa : g.pred (st.arg v) = [] := by
            by_cases h0 : g.pred (st.arg v) = []
            · exact h0
            · obtain ⟨qa, hqa, _⟩ := (hloc _ (htopo.cover _ hav).1).2 h0
              rw [hBa] at hqa; simp at hqa
          have hpre : pre' = [] := r4 hpa
          subst hpre
          rw [hBa] at hqeq
          simp only [bmin] at hqeq
          simp only [List.nil_append, walkEdges_single, List.mem_singleton]
          exact ⟨fun e he => by rw [he, hqeq]; exact Rat.le_refl, (st.arg v, v), rfl, hqeq.symm⟩
        | some qa =>
          obtain ⟨i1, e0, he0, hfe0⟩ := r5 qa hBa
          rw [hBa] at hqeq
          simp only [bmin] at hqeq
          by_cases hlt : f (st.arg v, v) < qa
          · simp only [hlt, if_true] at hqeq
            constructor
            · intro e he
              rcases List.mem_append.1 he with h | h
              · rw [hqeq]; exact Rat.le_trans (Rat.le_of_lt hlt) (i1 e h)
              · have : e = (st.arg v, v) := by simpa using h
                rw [this, hqeq]; exact Rat.le_refl
            · exact ⟨(st.arg v, v), by simp, hqeq.symm⟩
          · simp only [hlt, if_false] at hqeq
            constructor
            · intro e he
              rcases List.mem_append.1 he with h | h
              · rw [hqeq]; exact i1 e h
              · have : e = (st.arg v, v) := by simpa using h
                rw [this, hqeq]; exact Rat.not_lt.1 hlt
            · exact ⟨e0, by simp [he0], by rw [hfe0, hqeq]⟩

/-- what the outcomes of `max_bottleneck_path` mean. `(None, None)` covers two situations: there is
no source-to-sink path at all (`maxBottleneckSink is None`, e.g. a graph without edges), or the best
bottleneck over all source-to-sink paths is exactly `0`. -/
def BottleneckSpec (g : Graph) (f : Edge → Rat) : BResult → Prop
  | .none => (∀ p, ¬ IsSTPath g p) ∨
      ((∀ p, IsSTPath g p → ∃ e ∈ walkEdges p, f e ≤ 0) ∧
        ∃ p, IsSTPath g p ∧ (∀ e ∈ walkEdges p, 0 ≤ f e) ∧ ∃ e ∈ walkEdges p, f e = 0)
  | .path q p => q ≠ 0 ∧ IsSTPath g p ∧ (∀ e ∈ walkEdges p, q ≤ f e) ∧ (∃ e ∈ walkEdges p, f e = q) ∧
      ∀ p', IsSTPath g p' → ∃ e ∈ walkEdges p', f e ≤ q
  | .stuck => False

/-- in both situations of `(None, None)` no source-to-sink path has a positive bottleneck -/
theorem BottleneckSpec.none_le {g : Graph} {f : Edge → Rat} (h : BottleneckSpec g f .none) :
    ∀ p, IsSTPath g p → ∃ e ∈ walkEdges p, f e ≤ 0 := by
  intro p hp
  rcases h with h | h
  · exact absurd hp (h p)
  · exact h.1 p hp

theorem mbp_noSink (g : Graph) (f : Edge → Rat) (topo : List Node) (h : (bTable g f topo).best = none) :
    maxBottleneckPath g f topo = BResult.none := by
  unfold maxBottleneckPath; simp [h]

theorem mbp_some (g : Graph) (f : Edge → Rat) (topo : List Node) (m : Node) (q : Rat)
    (h : (bTable g f topo).best = some m) (hq : (bTable g f topo).B m = some q) :
    maxBottleneckPath g f topo = (if q = 0 then BResult.none else
      match recover g (bTable g f topo).arg (topo.length + 1) m [] with
      | some p => BResult.path q p
      | none => BResult.stuck) := by
  unfold maxBottleneckPath; simp only [h, hq]
  by_cases hq0 : q = 0
  · simp [hq0]
  · simp only [hq0, if_false]
    generalize recover g (bTable g f topo).arg (topo.length + 1) m [] = r
    cases r <;> rfl

theorem maxBottleneckPath_spec (g : Graph) (f : Edge → Rat) (topo : List Node) (htopo : IsTopo g.edges topo) :
    BottleneckSpec g f (maxBottleneckPath g f topo) := by
  obtain ⟨hloc, hbest⟩ := bTable_spec g f topo htopo
  unfold BBest at hbest
  cases hb : (bTable g f topo).best with
  | none =>
    rw [hb] at hbest
    rw [mbp_noSink g f topo hb]
    refine Or.inl ?_
    intro p hp
    obtain ⟨t, q, _, ht, hpt, hst, _⟩ := stpath_ub g f _ topo htopo hloc p hp
    exact hbest t ht ⟨hpt, hst⟩
  | some m =>
    rw [hb] at hbest
    obtain ⟨m1, m2, m3, m4⟩ := hbest
    obtain ⟨q, hq, _⟩ := (hloc m m1).2 m2
    rw [mbp_some g f topo m q hb hq]
    obtain ⟨l1, l2, hsplit⟩ := List.append_of_mem m1
    have hlen : l1.length < topo.length + 1 := by rw [hsplit]; simp; omega
    obtain ⟨pre, r1, r2, r3, r4, r5⟩ := recover_spec g f _ topo htopo hloc (topo.length + 1) l1 m l2 [] hsplit hlen
    obtain ⟨v1, v2⟩ := r5 q hq
    have hpre : pre ≠ [] := by
      intro h0
      subst h0
      exact m2 (r3 m (by simp))
    have hst : IsSTPath g (pre ++ [m]) := by
      refine ⟨?_, r2, r3, ?_⟩
      · cases pre with
        | nil => exact absurd rfl hpre
        | cons x pre => simp
      · intro v hv
        have : v = m := by simpa using hv.symm
        rw [this]; exact m3
    have hub : ∀ p', IsSTPath g p' → ∃ e ∈ walkEdges p', f e ≤ q := by
      intro p' hp'
      obtain ⟨t, qt, _, ht, hpt, hstt, hqt, e, he, hfe⟩ := stpath_ub g f _ topo htopo hloc p' hp'
      have := m4 t ht hpt hstt
      rw [hqt, hq] at this
      exact ⟨e, he, Rat.le_trans hfe ((bgt_some qt q).1 this)⟩
    by_cases hq0 : q = 0
    · simp only [hq0, if_true]
      subst hq0
      exact Or.inr ⟨hub, pre ++ [m], hst, v1, v2⟩
    · simp only [hq0, if_false, r1]
      exact ⟨hq0, hst, v1, v2, hub⟩

/-- **when `(None, None)` is returned, any edge values**: exactly when no source-to-sink path has a
positive bottleneck and — unless there is no source-to-sink path at all — some path has a
non-negative one (a best bottleneck `< 0` is returned as a path with that negative value) -/
theorem maxBottleneckPath_none_iff (g : Graph) (f : Edge → Rat) (topo : List Node) (htopo : IsTopo g.edges topo) :
    maxBottleneckPath g f topo = .none ↔
      (∀ p, IsSTPath g p → ∃ e ∈ walkEdges p, f e ≤ 0) ∧
      ((∃ p, IsSTPath g p) → ∃ p, IsSTPath g p ∧ ∀ e ∈ walkEdges p, 0 ≤ f e) := by
  have hs := maxBottleneckPath_spec g f topo htopo
  constructor
  · intro h
    rw [h] at hs
    refine ⟨hs.none_le, ?_⟩
    rintro ⟨p, hp⟩
    rcases hs with h0 | ⟨_, p', hp', hnn, _⟩
    · exact absurd hp (h0 p)
    · exact ⟨p', hp', hnn⟩
  · rintro ⟨h1, h2⟩
    cases hm : maxBottleneckPath g f topo with
    | none => rfl
    | path q p =>
      rw [hm] at hs
      obtain ⟨hq0, hp, hmin, _, hub⟩ := hs
      obtain ⟨e, he, hfe⟩ := h1 p hp
      have hq : q ≤ 0 := Rat.le_trans (hmin e he) hfe
      obtain ⟨p', hp', hnn⟩ := h2 ⟨p, hp⟩
      obtain ⟨e', he', hfe'⟩ := hub p' hp'
      have : 0 ≤ q := Rat.le_trans (hnn e' he') hfe'
      exact absurd (Rat.le_antisymm hq this) hq0
    | stuck => rw [hm] at hs; exact hs.elim

/-- **when `(None, None)` is returned, non-negative edge values**: exactly when no source-to-sink path
has a positive bottleneck — which includes the graphs without any source-to-sink path -/
theorem maxBottleneckPath_none_iff_nonneg (g : Graph) (f : Edge → Rat) (topo : List Node)
    (htopo : IsTopo g.edges topo) (hnn : ∀ e ∈ g.edges, 0 ≤ f e) :
    maxBottleneckPath g f topo = .none ↔ ∀ p, IsSTPath g p → ∃ e ∈ walkEdges p, f e ≤ 0 := by
  rw [maxBottleneckPath_none_iff g f topo htopo]
  constructor
  · exact fun h => h.1
  · intro h
    refine ⟨h, ?_⟩
    rintro ⟨p, hp⟩
    exact ⟨p, hp, fun e he => hnn e (hp.walk e he)⟩

end FP
