import FP.Model.NodeExpandModesCyc
import FP.Proofs.NodeExpandModes
import FP.Proofs.Augment
/-!
# FP.Proofs.NodeExpandModesCyc — node mode = edge mode on the explicit expansion, cyclic k-classes

* `nxc_translate_ok`: what `nxcTranslate` returns when it accepts;
* `WalkAgree`: two edge-level inputs of the walk models that agree on graph, starts / ends, configuration, scaling,
  on the ignore list *as a set* and on the values of the non-ignored edges; then the augmented graph, the ignored
  set, the active edges and `w_max` coincide (`WalkAgree.st`, `.ignored`, `.active`, `.wmax`);
* the four generators read nothing else **except for the repetition caps**: `nxc_kcovercLP_congr` (no caps from
  values), `nxc_kfdcLP_congr` (needs `kfdcBounds` equal), `nxc_klaecLP_congr`, `nxc_kmpecLP_congr` (need
  `reachBounds` equal);
* `nxc_kfdcBounds_congr`, `nxc_reachBounds_congr`: the caps are read off `data.get(flow_attr)` of **every** edge of
  the augmented graph — ignored ones included — so they coincide when the attribute coincides there
  (kFlowDecompCycles: on the SCC edges, up to the default `w_max` and up to the floor — the caps are floored since
  fix fcfd0b0; error classes: everywhere, up to the default `0`);
* `nxc_fOpt_agree`: on the expansion the copied attribute differs from the node values only on copies of original
  edges that carry an attribute of the same name;
* the four equalities `nxc_kfdc_node_eq`, `nxc_kcoverc_node_eq`, `nxc_klaec_node_eq`, `nxc_kmpec_node_eq`.
-/
namespace FP
namespace NX

/-! ## inversion of the translation and of the checks -/

/-- the record a cyclic node branch hands on, with every translation spelled out -/
def nxcTranslated (inp : NodeModeInput) (ng : NodeGraph) : WalkInput :=
  { base := expandGraph ng.g, flow := expandFlow ng,
    ignore := (edgesToIgnore ng ++ inp.nf.ignoreNodes.map nodeEdge).eraseDups,
    starts := inp.starts.map n0, ends := inp.ends.map n1,
    weightInt := inp.nf.weightInt,
    scaling := inp.scaling.map fun p => (nodeEdge p.1, p.2),
    cfg := { k := inp.nf.k, allowEmpty := inp.nf.allowEmpty,
             constraints := specConstraints inp.nf.constraints, coverage := inp.nf.coverage } }

theorem nxc_translate_ok {inp : NodeModeInput} {ng : NodeGraph} {wi : WalkInput}
    (h : nxcTranslate inp ng = .ok wi) : wi = nxcTranslated inp ng := by
  unfold nxcTranslate at h
  by_cases hn : ng.g.nodes.isEmpty = true
  · rw [if_pos hn] at h; exact nomatch h
  · rw [if_neg hn] at h
    cases hc : expandConstraints ng.g inp.nf.constraints with
    | error e => rw [hc] at h; exact nomatch h
    | ok cons =>
      rw [hc] at h
      cases hs : expandStarts ng.g inp.starts with
      | error e => rw [hs] at h; exact nomatch h
      | ok xs =>
        rw [hs] at h
        cases he : expandEnds ng.g inp.ends with
        | error e => rw [he] at h; exact nomatch h
        | ok xe =>
          rw [he] at h
          cases hi : inp.nf.ignoreNodes.mapM (expandedNode ng.g) with
          | error e => rw [hi] at h; exact nomatch h
          | ok ign =>
            rw [hi] at h
            cases hsc : expandScaling ng.g inp.scaling with
            | error e => rw [hsc] at h; exact nomatch h
            | ok sc =>
              rw [hsc] at h
              have h1 := expandConstraints_ok hc
              have h2 := (expandStarts_ok hs).1
              have h3 := (expandEnds_ok he).1
              have h4 := (mapM_expandedNode_ok hi).1
              have h5 := nxm_expandScaling_ok hsc
              subst h1 h2 h3 h4 h5
              exact (Except.ok.inj h).symm

theorem nxc_walkChecks_ok {wi wi' : WalkInput} (h : nxcWalkChecks wi = .ok wi') : wi' = wi := by
  unfold nxcWalkChecks at h
  split at h
  · exact nomatch h
  · split at h
    · exact nomatch h
    · split at h
      · exact nomatch h
      · split at h
        · exact nomatch h
        · split at h
          · exact nomatch h
          · exact (Except.ok.inj h).symm

theorem nxc_flowChecks_ok {ws : Bool} {wi wi' : WalkInput} (h : nxcFlowChecks ws wi = .ok wi') : wi' = wi := by
  unfold nxcFlowChecks at h
  split at h
  · exact nomatch h
  · split at h
    · exact nomatch h
    · exact (Except.ok.inj h).symm

theorem nxc_scalingCheck_ok {sc : List (Node × Rat)} {wi wi' : WalkInput}
    (h : nxcScalingCheck sc wi = .ok wi') : wi' = wi := by
  unfold nxcScalingCheck at h
  split at h
  · exact nomatch h
  · exact (Except.ok.inj h).symm

theorem nxc_kfdcNodeInternal_ok {inp : NodeModeInput} {wi : WalkInput} (h : kfdcNodeInternal inp = .ok wi) :
    wi = nxcTranslated inp inp.nf.ng := by
  unfold kfdcNodeInternal at h
  cases ht : nxcTranslate inp inp.nf.ng with
  | error e => rw [ht] at h; exact nomatch h
  | ok w0 =>
    rw [ht] at h
    dsimp only at h
    cases hck : nxcWalkChecks w0 with
    | error e => rw [hck] at h; exact nomatch h
    | ok w1 =>
      rw [hck] at h
      dsimp only at h
      have h0 := nxc_flowChecks_ok h
      have h1 := nxc_walkChecks_ok hck
      have h2 := nxc_translate_ok ht
      subst h0 h1 h2
      rfl

theorem nxc_kcovercNodeInternal_ok {inp : NodeModeInput} {wi : WalkInput} (h : kcovercNodeInternal inp = .ok wi) :
    wi = nxcTranslated inp (coverNG inp.nf.ng) := by
  unfold kcovercNodeInternal at h
  cases ht : nxcTranslate inp (coverNG inp.nf.ng) with
  | error e => rw [ht] at h; exact nomatch h
  | ok w0 =>
    rw [ht] at h
    dsimp only at h
    have h1 := nxc_walkChecks_ok h
    have h2 := nxc_translate_ok ht
    subst h1 h2
    rfl

theorem nxc_errcNodeInternal_ok {inp : NodeModeInput} {wi : WalkInput} (h : errcNodeInternal inp = .ok wi) :
    wi = nxcTranslated inp inp.nf.ng := by
  unfold errcNodeInternal at h
  cases ht : nxcTranslate inp inp.nf.ng with
  | error e => rw [ht] at h; exact nomatch h
  | ok w0 =>
    rw [ht] at h
    dsimp only at h
    cases hck : nxcWalkChecks w0 with
    | error e => rw [hck] at h; exact nomatch h
    | ok w1 =>
      rw [hck] at h
      dsimp only at h
      cases hsc : nxcScalingCheck inp.scaling w1 with
      | error e => rw [hsc] at h; exact nomatch h
      | ok w2 =>
        rw [hsc] at h
        dsimp only at h
        have h0 := nxc_flowChecks_ok h
        have h1 := nxc_scalingCheck_ok hsc
        have h2 := nxc_walkChecks_ok hck
        have h3 := nxc_translate_ok ht
        subst h0 h1 h2 h3
        rfl

/-! ## inputs the walk generators cannot tell apart (caps aside) -/

structure WalkAgree (a b : WalkInput) : Prop where
  base : a.base = b.base
  starts : a.starts = b.starts
  ends : a.ends = b.ends
  wInt : a.weightInt = b.weightInt
  cfg : a.cfg = b.cfg
  scaling : a.scaling = b.scaling
  ign : ∀ e, a.ignore.contains e = b.ignore.contains e
  f : ∀ e, a.ignored false e = false → a.f e = b.f e

namespace WalkAgree
variable {a b : WalkInput} (h : WalkAgree a b)
include h

theorem st : a.st = b.st := by unfold WalkInput.st; rw [h.base, h.starts, h.ends]

theorem k : a.k = b.k := by unfold WalkInput.k; rw [h.cfg]

theorem ignored (ws : Bool) : a.ignored ws = b.ignored ws := by
  funext e; unfold WalkInput.ignored; rw [h.st, h.ign, h.scaling]

theorem active (ws : Bool) : a.activeEdges ws = b.activeEdges ws := by
  unfold WalkInput.activeEdges; rw [h.st, h.ignored]

theorem f_active (ws : Bool) : ∀ e ∈ a.activeEdges ws, a.f e = b.f e := by
  intro e he
  apply h.f
  have h1 := (List.mem_filter.1 he).2
  have h2 : a.ignored ws e = false := by simpa using h1
  unfold WalkInput.ignored at h2 ⊢
  have h3 := (Bool.or_eq_false_iff.1 h2).1
  simpa using h3

theorem wmax (ws : Bool) : a.wmax ws = b.wmax ws := by
  unfold WalkInput.wmax
  rw [h.k, h.wInt, ← h.active ws, List.map_congr_left (h.f_active ws)]

theorem scale : a.scale = b.scale := by
  funext e; unfold WalkInput.scale; rw [h.scaling]

end WalkAgree

/-! ## the repetition caps -/

/-- `kFlowDecompCycles`: the caps coincide when the floor (since fix fcfd0b0) of `data.get(flow_attr, w_max)`
coincides on the SCC edges of the augmented graph -/
theorem nxc_kfdcBounds_congr (a b : WalkInput) (h : WalkAgree a b)
    (hcap : ∀ e ∈ a.st.g.edges, isSccEdge a.st.g e = true →
      ((a.fOpt e).getD (a.wmax false)).floor = ((b.fOpt e).getD (a.wmax false)).floor) :
    kfdcBounds a = kfdcBounds b := by
  unfold kfdcBounds capBounds
  simp only
  rw [← h.wmax false, ← h.st]
  apply List.map_congr_left
  intro e he
  by_cases hs : sameScc (reachTable a.st.g) e.1 e.2 = true
  · rw [if_pos hs, if_pos hs, hcap e he hs]
  · rw [if_neg hs, if_neg hs]

/-- the error classes: the caps coincide when `data.get(flow_attr, 0)` coincides on every edge of the augmented
graph -/
theorem nxc_reachBounds_congr (a b : WalkInput) (h : WalkAgree a b)
    (hcap : ∀ e ∈ a.st.g.edges, (a.fOpt e).getD 0 = (b.fOpt e).getD 0) :
    reachBounds a = reachBounds b := by
  have hmr : edgeMaxReachable a.st.g (fun e => (a.fOpt e).getD 0)
      = edgeMaxReachable a.st.g (fun e => (b.fOpt e).getD 0) := by
    unfold edgeMaxReachable
    simp only
    apply List.map_congr_left
    intro e he
    have h1 : ∀ (p : Edge → Bool), (a.st.g.edges.filter p).map (fun e => (a.fOpt e).getD 0)
        = (a.st.g.edges.filter p).map (fun e => (b.fOpt e).getD 0) := by
      intro p
      apply List.map_congr_left
      intro e' he'
      exact hcap e' (List.mem_filter.1 he').1
    rw [h1, h1, hcap e he]
  unfold reachBounds
  simp only
  rw [← h.st, hmr]

/-! ## the generators -/

theorem nxc_kcovercLP_congr (a b : WalkInput) (h : WalkAgree a b) : kcovercLP a = kcovercLP b := by
  unfold kcovercLP
  simp only
  rw [h.st, h.cfg, h.active false, h.k]

theorem nxc_kfdcLP_congr (a b : WalkInput) (h : WalkAgree a b) (hb : kfdcBounds a = kfdcBounds b)
    (given : Option (List Rat)) : kfdcLP a given = kfdcLP b given := by
  have hrows : ((a.activeEdges false).map fun e => rowEq (ones (List.range a.k) (piVar e)) (a.f e))
      = ((b.activeEdges false).map fun e => rowEq (ones (List.range b.k) (piVar e)) (b.f e)) := by
    rw [← h.active false, ← h.k]
    apply List.map_congr_left
    intro e he
    rw [h.f_active false e he]
  unfold kfdcLP
  simp only [hrows]
  rw [h.st, h.cfg, h.k, h.wmax false, h.wInt, h.active false, hb]

theorem nxc_klaecLP_congr (a b : WalkInput) (h : WalkAgree a b) (hb : reachBounds a = reachBounds b) :
    klaecLP a = klaecLP b := by
  have hrows : ((a.activeEdges true).flatMap fun e =>
        [ rowLe (negTerms (ones (List.range a.k) (piVar e)) ++ [(-1, eeVar e)]) (-(a.f e)),
          rowLe (ones (List.range a.k) (piVar e) ++ [(-1, eeVar e)]) (a.f e) ])
      = ((b.activeEdges true).flatMap fun e =>
        [ rowLe (negTerms (ones (List.range b.k) (piVar e)) ++ [(-1, eeVar e)]) (-(b.f e)),
          rowLe (ones (List.range b.k) (piVar e) ++ [(-1, eeVar e)]) (b.f e) ]) := by
    rw [← h.active true, ← h.k]
    exact nxm_flatMap_congr _ _ _ (fun e he => by rw [h.f_active true e he])
  unfold klaecLP
  simp only [hrows]
  rw [h.st, h.cfg, h.k, h.wmax true, h.wInt, h.active true, hb, h.scale]

theorem nxc_kmpecLP_congr (a b : WalkInput) (h : WalkAgree a b) (hb : reachBounds a = reachBounds b) :
    kmpecLP a = kmpecLP b := by
  have hrows : ((a.activeEdges true).flatMap fun e =>
        [ rowLe (((List.range a.k).map fun i => (-(a.scale e), piVar e i))
                  ++ negTerms (ones (List.range a.k) (gammaVar e))) (-(a.f e * a.scale e)),
          rowGe (((List.range a.k).map fun i => (-(a.scale e), piVar e i))
                  ++ ones (List.range a.k) (gammaVar e)) (-(a.f e * a.scale e)) ])
      = ((b.activeEdges true).flatMap fun e =>
        [ rowLe (((List.range b.k).map fun i => (-(b.scale e), piVar e i))
                  ++ negTerms (ones (List.range b.k) (gammaVar e))) (-(b.f e * b.scale e)),
          rowGe (((List.range b.k).map fun i => (-(b.scale e), piVar e i))
                  ++ ones (List.range b.k) (gammaVar e)) (-(b.f e * b.scale e)) ]) := by
    rw [← h.active true, ← h.k, ← h.scale]
    exact nxm_flatMap_congr _ _ _ (fun e he => by rw [h.f_active true e he])
  unfold kmpecLP
  simp only [hrows]
  rw [h.st, h.cfg, h.k, h.wmax true, h.wInt, h.active true, hb]

/-! ## the translated record against the explicit expansion -/

theorem nxc_agree (inp : NodeModeInput) (hc : Closed inp.nf.ng.g)
    (hef : ∀ p ∈ inp.nf.ng.edgeFlow, p.1 ∈ inp.nf.ng.g.edges) :
    WalkAgree (nxcTranslated inp inp.nf.ng) (expandWalkInput inp) where
  base := rfl
  starts := rfl
  ends := rfl
  wInt := rfl
  cfg := rfl
  scaling := rfl
  ign := fun e => nxm_ignore_contains inp.nf.ng hc inp.nf.ignoreNodes e
  f := by
    intro e hne
    unfold WalkInput.ignored at hne
    have h1 := (Bool.or_eq_false_iff.1 hne).1
    have h2 := (Bool.or_eq_false_iff.1 h1).2
    exact nxm_flow_agree inp.nf.ng hc hef inp.nf.ignoreNodes e h2

/-- the cover input built from `G_with_flow_attr` has no attribute-carrying original edge -/
theorem nxc_cover_agree (inp : NodeModeInput) (hc : Closed inp.nf.ng.g) :
    WalkAgree (nxcTranslated inp (coverNG inp.nf.ng)) (expandWalkCoverInput inp) :=
  nxc_agree { inp with nf := { inp.nf with ng := coverNG inp.nf.ng } } hc
    (fun p hp => by simp [coverNG] at hp)

theorem nxc_lookup_mem {α β} [BEq α] [LawfulBEq α] (l : List (α × β)) (x : α) (q : β)
    (h : l.lookup x = some q) : (x, q) ∈ l := by
  induction l with
  | nil => exact nomatch h
  | cons p l ih =>
    obtain ⟨y, r⟩ := p
    simp only [List.lookup_cons] at h
    by_cases hxy : x = y
    · subst hxy
      simp only [beq_self_eq_true] at h
      have : r = q := Option.some.inj h
      subst this
      exact List.mem_cons_self ..
    · have h1 : (x == y) = false := by simpa using hxy
      rw [h1] at h
      exact List.mem_cons_of_mem _ (ih h)

/-- a key found in the copied edge attributes is the copy of an original edge that carries the attribute -/
theorem nxc_lookup_edgePart (l : List (Edge × Rat)) (e : Edge) (q : Rat)
    (h : (l.map fun p => (edgeEdge p.1, p.2)).lookup e = some q) :
    ∃ x, e = edgeEdge x ∧ l.lookup x = some q := by
  induction l with
  | nil => exact nomatch h
  | cons p l ih =>
    obtain ⟨x, r⟩ := p
    simp only [List.map_cons, List.lookup_cons] at h
    by_cases hk : e = edgeEdge x
    · subst hk
      simp only [beq_self_eq_true] at h
      exact ⟨x, rfl, by simp only [List.lookup_cons, beq_self_eq_true]; exact h⟩
    · have h1 : (e == edgeEdge x) = false := by simpa using hk
      rw [h1] at h
      obtain ⟨y, hy, hl⟩ := ih h
      refine ⟨y, hy, ?_⟩
      have hne : (y == x) = false := by
        simp only [beq_eq_false_iff_ne, ne_eq]
        intro hyx; subst hyx; exact hk hy
      simp only [List.lookup_cons, hne]
      exact hl

/-- **where the attribute on the expansion can differ from the node values**: reading `data.get(flow_attr, d)` on an
edge `e` gives the same on the node branch's graph and on the explicit expansion unless `e` is the copy of an original
edge that carries an attribute of the same name with a value other than `d` -/
theorem nxc_fOpt_agree (inp : NodeModeInput) (e : Edge) (d : Rat)
    (hd : ∀ x q, inp.nf.ng.edgeFlow.lookup x = some q → e = edgeEdge x → q = d) :
    ((nxcTranslated inp inp.nf.ng).fOpt e).getD d = ((expandWalkInput inp).fOpt e).getD d := by
  unfold WalkInput.fOpt nxcTranslated expandWalkInput expandFlow
  simp only
  rw [List.lookup_append]
  cases hn : (inp.nf.ng.nodeFlow.map fun p => (nodeEdge p.1, p.2)).lookup e with
  | some q => rfl
  | none =>
    simp only [Option.none_or, Option.getD_none]
    cases he : (inp.nf.ng.edgeFlow.map fun p => (edgeEdge p.1, p.2)).lookup e with
    | none => rfl
    | some q =>
      obtain ⟨x, hx, hl⟩ := nxc_lookup_edgePart _ _ _ he
      simp only [Option.getD_some]
      exact hd x q hl hx

/-- … and the *floors* agree unless the copied value has another floor than `d` (the repetition caps are floored since
fix fcfd0b0) -/
theorem nxc_fOpt_agree_floor (inp : NodeModeInput) (e : Edge) (d : Rat)
    (hd : ∀ x q, inp.nf.ng.edgeFlow.lookup x = some q → e = edgeEdge x → q.floor = d.floor) :
    (((nxcTranslated inp inp.nf.ng).fOpt e).getD d).floor = (((expandWalkInput inp).fOpt e).getD d).floor := by
  unfold WalkInput.fOpt nxcTranslated expandWalkInput expandFlow
  simp only
  rw [List.lookup_append]
  cases hn : (inp.nf.ng.nodeFlow.map fun p => (nodeEdge p.1, p.2)).lookup e with
  | some q => rfl
  | none =>
    simp only [Option.none_or, Option.getD_none]
    cases he : (inp.nf.ng.edgeFlow.map fun p => (edgeEdge p.1, p.2)).lookup e with
    | none => rfl
    | some q =>
      obtain ⟨x, hx, hl⟩ := nxc_lookup_edgePart _ _ _ he
      simp only [Option.getD_some]
      exact hd x q hl hx

/-! ## the four equalities -/

/-- **kPathCoverCycles(cover_type="node")**: unconditional (the caps are `|E|·|V|` of the augmented expansion) -/
theorem nxc_kcoverc_node_eq (inp : NodeModeInput) (lp : LP) (hc : Closed inp.nf.ng.g)
    (h : kcovercNodeLP inp = .ok lp) : lp = kcovercLP (expandWalkCoverInput inp) := by
  unfold kcovercNodeLP at h
  cases hi : kcovercNodeInternal inp with
  | error e => rw [hi] at h; exact nomatch h
  | ok wi =>
    rw [hi] at h
    have hlp : kcovercLP wi = lp := Except.ok.inj h
    rw [← hlp, nxc_kcovercNodeInternal_ok hi]
    exact nxc_kcovercLP_congr _ _ (nxc_cover_agree inp hc)

/-- **kFlowDecompCycles**: `hcap` — an original edge `x` that carries an attribute named like the flow attribute and
whose copy `(x.1.1, x.2.0)` lies inside an SCC of the augmented expansion carries a value with the floor of `w_max`
(the caps are floored since fix fcfd0b0; in particular `w_max` itself) -/
theorem nxc_kfdc_node_eq (inp : NodeModeInput) (given : Option (List Rat)) (lp : LP) (hc : Closed inp.nf.ng.g)
    (hef : ∀ p ∈ inp.nf.ng.edgeFlow, p.1 ∈ inp.nf.ng.g.edges)
    (hcap : ∀ x q, inp.nf.ng.edgeFlow.lookup x = some q →
      isSccEdge (expandWalkInput inp).st.g (edgeEdge x) = true →
        q.floor = ((expandWalkInput inp).wmax false).floor)
    (h : kfdcNodeLP inp given = .ok lp) : lp = kfdcLP (expandWalkInput inp) given := by
  have hag := nxc_agree inp hc hef
  have hb : kfdcBounds (nxcTranslated inp inp.nf.ng) = kfdcBounds (expandWalkInput inp) := by
    apply nxc_kfdcBounds_congr _ _ hag
    intro e _ hs
    apply nxc_fOpt_agree_floor
    intro x q hl hx
    rw [hag.wmax false]
    apply hcap x q hl
    rw [← hx, ← hag.st]
    exact hs
  unfold kfdcNodeLP at h
  cases hi : kfdcNodeInternal inp with
  | error e => rw [hi] at h; exact nomatch h
  | ok wi =>
    rw [hi] at h
    dsimp only at h
    have hwi := nxc_kfdcNodeInternal_ok hi
    subst hwi
    cases given with
    | none =>
      have hlp := Except.ok.inj h
      rw [← hlp]
      exact nxc_kfdcLP_congr _ _ hag hb none
    | some ws =>
      dsimp only at h
      split at h
      · exact nomatch h
      · have hlp := Except.ok.inj h
        rw [← hlp]
        exact nxc_kfdcLP_congr _ _ hag hb (some ws)

/-- `hzero` — an original edge that carries an attribute named like the flow attribute carries the value `0` (what
`compute_edge_max_reachable_value` reads on an edge without the attribute) -/
theorem nxc_errc_bounds (inp : NodeModeInput) (hc : Closed inp.nf.ng.g)
    (hef : ∀ p ∈ inp.nf.ng.edgeFlow, p.1 ∈ inp.nf.ng.g.edges)
    (hzero : ∀ x q, inp.nf.ng.edgeFlow.lookup x = some q → q = 0) :
    reachBounds (nxcTranslated inp inp.nf.ng) = reachBounds (expandWalkInput inp) := by
  apply nxc_reachBounds_congr _ _ (nxc_agree inp hc hef)
  intro e _
  apply nxc_fOpt_agree
  intro x q hl _
  exact hzero x q hl

/-- **kLeastAbsErrorsCycles** -/
theorem nxc_klaec_node_eq (inp : NodeModeInput) (lp : LP) (hc : Closed inp.nf.ng.g)
    (hef : ∀ p ∈ inp.nf.ng.edgeFlow, p.1 ∈ inp.nf.ng.g.edges)
    (hzero : ∀ x q, inp.nf.ng.edgeFlow.lookup x = some q → q = 0)
    (h : klaecNodeLP inp = .ok lp) : lp = klaecLP (expandWalkInput inp) := by
  unfold klaecNodeLP at h
  cases hi : errcNodeInternal inp with
  | error e => rw [hi] at h; exact nomatch h
  | ok wi =>
    rw [hi] at h
    have hlp : klaecLP wi = lp := Except.ok.inj h
    rw [← hlp, nxc_errcNodeInternal_ok hi]
    exact nxc_klaecLP_congr _ _ (nxc_agree inp hc hef) (nxc_errc_bounds inp hc hef hzero)

/-- **kMinPathErrorCycles** -/
theorem nxc_kmpec_node_eq (inp : NodeModeInput) (lp : LP) (hc : Closed inp.nf.ng.g)
    (hef : ∀ p ∈ inp.nf.ng.edgeFlow, p.1 ∈ inp.nf.ng.g.edges)
    (hzero : ∀ x q, inp.nf.ng.edgeFlow.lookup x = some q → q = 0)
    (h : kmpecNodeLP inp = .ok lp) : lp = kmpecLP (expandWalkInput inp) := by
  unfold kmpecNodeLP at h
  cases hi : errcNodeInternal inp with
  | error e => rw [hi] at h; exact nomatch h
  | ok wi =>
    rw [hi] at h
    have hlp : kmpecLP wi = lp := Except.ok.inj h
    rw [← hlp, nxc_errcNodeInternal_ok hi]
    exact nxc_kmpecLP_congr _ _ (nxc_agree inp hc hef) (nxc_errc_bounds inp hc hef hzero)

/-! ## exactly when the caps of `kFlowDecompCycles` coincide -/

/-- converse of `nxc_kfdcBounds_congr` -/
theorem nxc_kfdcBounds_inv (a b : WalkInput) (h : WalkAgree a b) (hb : kfdcBounds a = kfdcBounds b) :
    ∀ e ∈ a.st.g.edges, isSccEdge a.st.g e = true →
      ((a.fOpt e).getD (a.wmax false)).floor = ((b.fOpt e).getD (a.wmax false)).floor := by
  intro e he hs
  unfold kfdcBounds capBounds at hb
  simp only at hb
  rw [← h.wmax false, ← h.st] at hb
  have h1 := List.map_inj_left.1 hb e he
  have hs' : sameScc (reachTable a.st.g) e.1 e.2 = true := hs
  rw [if_pos hs', if_pos hs'] at h1
  exact Rat.intCast_inj.1 (Prod.mk.inj h1).2

/-- on the copy of an original edge that carries an attribute of the same name the node branch's graph has that value,
the explicit expansion has none -/
theorem nxc_fOpt_edgeCopy (inp : NodeModeInput) (x : Edge) (q : Rat)
    (hl : inp.nf.ng.edgeFlow.lookup x = some q) :
    (nxcTranslated inp inp.nf.ng).fOpt (edgeEdge x) = some q ∧ (expandWalkInput inp).fOpt (edgeEdge x) = none := by
  have hnone : (inp.nf.ng.nodeFlow.map fun p => (nodeEdge p.1, p.2)).lookup (edgeEdge x) = none :=
    lookup_map_none nodeEdge _ _ (fun p _ => nodeEdge_ne_edgeEdge p.1 x)
  constructor
  · unfold WalkInput.fOpt nxcTranslated expandFlow
    simp only
    rw [List.lookup_append, hnone, lookup_map_key edgeEdge (fun _ _ => edgeEdge_inj)]
    simp [hl]
  · exact hnone

/-- **the repetition caps of the node branch of `kFlowDecompCycles` equal those of the explicit expansion exactly when**
every original edge that carries an attribute named like the flow attribute and whose copy lies inside an SCC of the
augmented expansion carries a value whose floor is that of `w_max` — the caps are floored since fix fcfd0b0 —
(`w_max` itself is always the same on both sides) -/
theorem nxc_kfdc_caps_iff (inp : NodeModeInput) (hc : Closed inp.nf.ng.g)
    (hef : ∀ p ∈ inp.nf.ng.edgeFlow, p.1 ∈ inp.nf.ng.g.edges) :
    (nxcTranslated inp inp.nf.ng).wmax false = (expandWalkInput inp).wmax false ∧
    (kfdcBounds (nxcTranslated inp inp.nf.ng) = kfdcBounds (expandWalkInput inp) ↔
      ∀ x q, inp.nf.ng.edgeFlow.lookup x = some q →
        isSccEdge (expandWalkInput inp).st.g (edgeEdge x) = true →
        q.floor = ((expandWalkInput inp).wmax false).floor) := by
  have hag := nxc_agree inp hc hef
  refine ⟨hag.wmax false, ?_, ?_⟩
  · intro hb x q hl hs
    have hx : x ∈ inp.nf.ng.g.edges := hef (x, q) (nxc_lookup_mem _ _ _ hl)
    have hmem : edgeEdge x ∈ (nxcTranslated inp inp.nf.ng).st.g.edges :=
      (aug_mem_edges' (expansion_wf inp.nf.ng.g hc).closed).2 (Or.inl (edgeEdge_mem_expand hx hc))
    have h1 := nxc_kfdcBounds_inv _ _ hag hb (edgeEdge x) hmem (by rw [hag.st]; exact hs)
    obtain ⟨h2, h3⟩ := nxc_fOpt_edgeCopy inp x q hl
    rw [h2, h3, hag.wmax false] at h1
    exact h1
  · intro hcap
    apply nxc_kfdcBounds_congr _ _ hag
    intro e _ hs
    apply nxc_fOpt_agree_floor
    intro x q hl hx
    rw [hag.wmax false]
    apply hcap x q hl
    rw [← hx, ← hag.st]
    exact hs

end NX
end FP
