import FP.Proofs.C05Bounds
import FP.Proofs.C05Slots
import FP.Proofs.C10Subset
import FP.Proofs.WalkCoreComplete
import FP.Model.Enc.KFDCWitness
/-!
# FP.Proofs.C05Opt — the safety options change neither feasibility nor the optimum (walk core, kPathCoverCycles)

* `safetyExtra_boundsOK` — the queued bound changes of every `safetyExtra` are consistent (`BoundsOK`);
* `c05_encodeWalks_congr` — `_encode_walks` only reads the edge, selected-edge and distance columns;
* `subset_extend` (T4) — appending constraints each of which is traversed completely by some layer keeps the
  LP satisfiable: new values for the `r` / `used_edge` columns (`subsetAsg`), all other columns unchanged;
* `subsetBlock_drop` — dropping appended constraints keeps an assignment feasible;
* `walkCoreS_of_walkCore` / `walkCore_of_walkCoreS` — the two directions for `create_solver_and_walks`;
* `kcoverc_safety_preserves_proof` — `kPathCoverCycles`: feasibility and minimum with and without the options.
-/
namespace FP
open FP.Spec FP.Safety

/-! ## the requests of `safetyExtra` are consistent -/

theorem safetyExtra_boundsOK (s : STGraph) (k : Nat) (ub : Edge → Rat) (safe seqs : List (List Edge))
    (zs : List (Edge × Nat)) (o : SafetyOpts)
    (hE : ∀ q ∈ seqs, ∀ e ∈ q, e ∈ s.g.edges)
    (hub1 : ∀ e ∈ s.g.edges, isSccEdge s.g e = false → 1 ≤ ub e) :
    BoundsOK s k ub (safetyExtra s k safe seqs zs o) := by
  have hent : ∀ p ∈ seqEntries k seqs, p.1 ∈ s.g.edges ∧ p.2.1 < k ∧
      p.2.2 = (seqs.getD p.2.1 []).count p.1 := by
    intro p hp
    obtain ⟨hj, he, hm⟩ := (mem_seqEntries k seqs p.1 p.2.1 p.2.2).1 hp
    exact ⟨hE _ (c05_getD_mem seqs p.2.1 [] (by omega)) _ he, by omega, hm⟩
  have htriv : ∀ fr : SafetyFrag, fr.lower = [] → fr.fixed = [] → BoundsOK s k ub fr := by
    intro fr h1 h2
    exact ⟨fun _ _ h => (by rw [h1] at h; cases h), fun _ _ h => (by rw [h2] at h; cases h),
      fun _ _ _ h => (by rw [h1] at h; cases h), fun _ _ _ h => (by rw [h2] at h; cases h),
      fun _ _ _ h => (by rw [h1] at h; cases h)⟩
  unfold safetyExtra
  split
  · exact htriv _ rfl rfl
  split
  · exact htriv _ rfl rfl
  simp only
  split
  · exact htriv _ rfl rfl
  split
  · -- via bounds
    have hgeqsub : ∀ p ∈ (if o.allowGeq = true then geqEntries s.g k seqs else []),
        p ∈ seqEntries k seqs ∧ isSccEdge s.g p.1 = true := by
      intro p hp
      split at hp
      · exact ⟨(List.mem_filter.1 hp).1, (List.mem_filter.1 hp).2⟩
      · cases hp
    have heqsub : ∀ p ∈ eqEntries s.g k seqs, p ∈ seqEntries k seqs ∧ isSccEdge s.g p.1 = false := by
      intro p hp
      exact ⟨(List.mem_filter.1 hp).1, by simpa using (List.mem_filter.1 hp).2⟩
    constructor
    · intro v q h
      obtain ⟨p, hp, heq⟩ := List.mem_map.1 h
      injection heq with h1 h2
      obtain ⟨he, hj, _⟩ := hent p (hgeqsub p hp).1
      exact ⟨p.1, p.2.1, he, hj, h1.symm, by rw [← h2]; exact Rat.natCast_nonneg⟩
    · intro v q h
      obtain ⟨p, hp, heq⟩ := List.mem_map.1 h
      injection heq with h1 h2
      obtain ⟨he, hj, _⟩ := hent p (heqsub p hp).1
      refine ⟨p.1, p.2.1, he, hj, h1.symm, by rw [← h2]; decide, ?_⟩
      rw [← h2]; exact hub1 _ he (heqsub p hp).2
    · intro v q q' h h'
      obtain ⟨p, hp, heq⟩ := List.mem_map.1 h
      obtain ⟨p', hp', heq'⟩ := List.mem_map.1 h'
      injection heq with h1 h2
      injection heq' with h1' h2'
      obtain ⟨rfl', rfl''⟩ := c05_edgeVar_inj (h1.trans h1'.symm)
      obtain ⟨_, _, hm⟩ := hent p (hgeqsub p hp).1
      obtain ⟨_, _, hm'⟩ := hent p' (hgeqsub p' hp').1
      rw [← h2, ← h2', hm, hm', rfl', rfl'']
    · intro v q q' h h'
      obtain ⟨p, hp, heq⟩ := List.mem_map.1 h
      obtain ⟨p', hp', heq'⟩ := List.mem_map.1 h'
      injection heq with h1 h2
      injection heq' with h1' h2'
      rw [← h2, ← h2']
    · intro v q q' h h'
      obtain ⟨p, hp, heq⟩ := List.mem_map.1 h
      obtain ⟨p', hp', heq'⟩ := List.mem_map.1 h'
      injection heq with h1 h2
      injection heq' with h1' h2'
      obtain ⟨he, _⟩ := c05_edgeVar_inj (h1.trans h1'.symm)
      have t1 := (hgeqsub p hp).2
      have t2 := (heqsub p' hp').2
      rw [he] at t1; rw [t1] at t2; cases t2
  · exact htriv _ rfl rfl

/-! ## `_encode_walks` reads only the edge, selected-edge and distance columns -/

theorem c05_encodeWalks_congr (s : STGraph) (c : WalkCfg) (ub : Edge → Rat) (a a' : Asg)
    (hE : ∀ e i, a' (edgeVar e i) = a (edgeVar e i)) (hS : ∀ e i, a' (selVar e i) = a (selVar e i))
    (hD : ∀ v i, a' (distVar v i) = a (distVar v i)) (h : Sat a (encodeWalks s c ub)) :
    Sat a' (encodeWalks s c ub) := by
  constructor
  · intro col hcol
    have hc := h.1 col hcol
    obtain ⟨i, _, hm⟩ := (mem_encCols s c ub col).1 hcol
    simp only [encColsAt, List.mem_append, List.mem_map] at hm
    rcases hm with (⟨e, _, rfl⟩ | ⟨v, _, rfl⟩) | ⟨e, _, rfl⟩ <;>
      simp only [Col.holds, hE, hS, hD] at hc ⊢ <;> exact hc
  · intro r hr
    have hc := h.2 r hr
    obtain ⟨i, _, hm⟩ := (mem_encRows s c ub r).1 hr
    simp only [encRowsAt, List.mem_append, List.mem_map, List.mem_flatMap,
      List.mem_cons, List.not_mem_nil, or_false] at hm
    rcases hm with ((((rfl | ⟨v, _, rfl⟩) | ⟨e, _, rfl⟩) | ⟨v, _, rfl | rfl⟩) | rfl) | ⟨e, _, rfl⟩
    · by_cases hae : c.allowEmpty = true <;>
        simp only [hae, Row.holds, rowEq, rowLe, evalTerms_ones, hE, if_true, if_false,
          Bool.false_eq_true] at hc ⊢ <;> exact hc
    · simp only [Row.holds, rowEq, evalTerms_append, evalTerms_negTerms, evalTerms_ones, hE] at hc ⊢
      exact hc
    · simp only [Row.holds, rowGe, evalTerms, List.map_cons, List.map_nil, List.sum_cons, List.sum_nil,
        hE, hS] at hc ⊢
      exact hc
    · simp only [Row.holds, rowLe, evalTerms_append, evalTerms_ones, evalTerms_map, hE, hS] at hc ⊢
      exact hc
    · simp only [Row.holds, rowLe, evalTerms_ones, hS] at hc ⊢
      exact hc
    · simp only [Row.holds, rowEq, evalTerms_single, hD] at hc ⊢
      exact hc
    · simp only [Row.holds, rowGe, evalTerms, List.map_cons, List.map_nil, List.sum_cons, List.sum_nil,
        hD, hS] at hc ⊢
      exact hc

/-! ## T4: appended subset constraints -/

/-- new values for the `used_edge` and `r` columns: the indicator of a positive multiplicity, and "layer
`i` covers constraint `j` to the required fraction"; every other column keeps its value -/
def subsetAsg (a : Asg) (cons : List (List Edge)) (cov : Rat) : Asg := fun v =>
  match v with
  | .uvi p x y i => if p = "used_edge" then (if multOf a i (x, y) = 0 then 0 else 1) else a v
  | .ij p i j => if p = "r" then (if coversB (multOf a i) (cons.getD j []) cov then 1 else 0) else a v
  | _ => a v

theorem subsetAsg_edge (a : Asg) (cons : List (List Edge)) (cov : Rat) (e : Edge) (i : Nat) :
    subsetAsg a cons cov (edgeVar e i) = a (edgeVar e i) := by simp [subsetAsg, edgeVar]
theorem subsetAsg_sel (a : Asg) (cons : List (List Edge)) (cov : Rat) (e : Edge) (i : Nat) :
    subsetAsg a cons cov (selVar e i) = a (selVar e i) := by simp [subsetAsg, selVar]
theorem subsetAsg_dist (a : Asg) (cons : List (List Edge)) (cov : Rat) (v : Node) (i : Nat) :
    subsetAsg a cons cov (distVar v i) = a (distVar v i) := by simp [subsetAsg, distVar]
theorem subsetAsg_used (a : Asg) (cons : List (List Edge)) (cov : Rat) (e : Edge) (i : Nat) :
    subsetAsg a cons cov (usedVar e i) = if multOf a i e = 0 then 0 else 1 := by simp [subsetAsg, usedVar]
theorem subsetAsg_r (a : Asg) (cons : List (List Edge)) (cov : Rat) (i j : Nat) :
    subsetAsg a cons cov (rVar i j) = if coversB (multOf a i) (cons.getD j []) cov then 1 else 0 := by
  simp [subsetAsg, rVar]

theorem c05_sum_ind_eq_countP {α} (l : List α) (p : α → Bool) :
    (l.map fun x => if p x then (1 : Rat) else 0).sum = ((l.countP p : Nat) : Rat) := by
  induction l with
  | nil => simp
  | cons x xs ih =>
    simp only [List.map_cons, List.sum_cons, ih, List.countP_cons]
    by_cases h : p x = true
    · simp only [h, if_true]; rw [Rat.natCast_add]; simp; grind
    · simp only [h]; simp [Rat.zero_add]

theorem c05_ind_sum_all {α} (l : List α) (f : α → Rat) (h : ∀ x ∈ l, f x = 1) : (l.map f).sum = (l.length : Rat) := by
  induction l with
  | nil => simp
  | cons x xs ih =>
    simp only [List.map_cons, List.sum_cons, List.length_cons, h x (by simp),
      ih (fun y hy => h y (by simp [hy]))]
    rw [Rat.natCast_add]; simp; grind

/-- **T4.** A satisfying assignment of `create_solver_and_walks` stays one — with new values on the `r` and
`used_edge` columns only — when subset constraints are appended each of which is traversed completely by
some layer. -/
theorem subset_extend (s : STGraph) (c : WalkCfg) (ub : Edge → Rat) (a : Asg) (E : List (List Edge))
    (hsat : Sat a (walkCore s c ub))
    (hcons : ∀ con ∈ c.constraints, ∀ e ∈ con, e ∈ s.g.edges)
    (hcov1 : c.coverage ≤ 1)
    (hE : ∀ q ∈ E, ∃ i, i < c.k ∧ ∀ e ∈ q, e ∈ s.g.edges ∧ 1 ≤ a (edgeVar e i)) :
    Sat (subsetAsg a (c.constraints ++ E) c.coverage)
      (walkCore s { c with constraints := c.constraints ++ E } ub) := by
  have henc : Sat a (encodeWalks s c ub) := sat_append_left a _ _ hsat
  let c' : WalkCfg := { c with constraints := c.constraints ++ E }
  let a' := subsetAsg a (c.constraints ++ E) c.coverage
  have hm : ∀ i, i < c.k → ∀ e ∈ s.g.edges, a (edgeVar e i) = (multOf a i e : Rat) :=
    fun i hi e he => edge_col henc hi he
  have hpos : ∀ i, i < c.k → ∀ e ∈ s.g.edges, (1 ≤ a (edgeVar e i) ↔ multOf a i e ≠ 0) := by
    intro i hi e he
    constructor
    · exact c05_mult_ne_zero_of_one_le henc hi he
    · intro hne
      rw [hm i hi e he]
      have : ((1 : Nat) : Rat) ≤ (multOf a i e : Rat) := Rat.natCast_le_natCast.2 (by omega)
      simpa using this
  have h1 : Sat a' (encodeWalks s c' ub) :=
    c05_encodeWalks_congr s c ub a a' (subsetAsg_edge a _ _) (subsetAsg_sel a _ _) (subsetAsg_dist a _ _) henc
  have h2 : Sat a' (subsetBlock s c' ub) := by
    apply subsetBlock_sat s c' ub a' (fun i => multOf a i)
    · intro i hi e he
      rw [← hm i hi e he]
      exact (walk_edge_nonneg s c ub a hsat e he i hi).2.1
    · intro i hi e he
      show a' (edgeVar e i) = _
      rw [← hm i hi e he]; exact subsetAsg_edge a _ _ e i
    · intro i _ e; exact subsetAsg_used a _ _ e i
    · intro i _ j hj
      show subsetAsg a (c.constraints ++ E) c.coverage (rVar i j) = _
      rw [subsetAsg_r]
      have : (c.constraints ++ E).getD j [] = (c.constraints ++ E)[j] := by
        rw [List.getD_eq_getElem?_getD, List.getElem?_eq_getElem hj]; rfl
      rw [this]
    · intro j hj
      have hj' : j < (c.constraints ++ E).length := hj
      show ∃ i, i < c.k ∧ coversB (multOf a i) ((c.constraints ++ E)[j]) c.coverage = true
      by_cases hjC : j < c.constraints.length
      · rw [List.getElem_append_left hjC]
        have hed : ∀ e ∈ c.constraints[j], e ∈ s.g.edges := hcons _ (List.getElem_mem hjC)
        obtain ⟨i, hi, _, hle⟩ := subset_constraint_honoured s c ub a hsat j hjC hed
        refine ⟨i, hi, ?_⟩
        unfold coversB
        apply decide_eq_true
        have hcp : (c.constraints[j].eraseDups.map fun e => if multOf a i e = 0 then (0 : Rat) else 1).sum
            = ((c.constraints[j].eraseDups.countP (fun e => decide (1 ≤ a (edgeVar e i))) : Nat) : Rat) := by
          rw [← c05_sum_ind_eq_countP]
          apply sum_map_congr
          intro e he
          have hee : e ∈ s.g.edges := hed e (List.mem_eraseDups.1 he)
          by_cases hz : multOf a i e = 0
          · have : ¬ 1 ≤ a (edgeVar e i) := fun h => ((hpos i hi e hee).1 h) hz
            simp [hz, this]
          · have : 1 ≤ a (edgeVar e i) := (hpos i hi e hee).2 hz
            simp [hz, this]
        rw [hcp]; exact hle
      · have hjE : j - c.constraints.length < E.length := by
          rw [List.length_append] at hj'; omega
        rw [List.getElem_append_right (by omega)]
        obtain ⟨i, hi, hall⟩ := hE _ (List.getElem_mem hjE)
        refine ⟨i, hi, ?_⟩
        unfold coversB
        apply decide_eq_true
        rw [c05_ind_sum_all _ _ (fun e he => by
          have := hall e (List.mem_eraseDups.1 he)
          have hz := (hpos i hi e this.1).1 this.2
          simp [hz])]
        have h0 : (0 : Rat) ≤ ((E[j - c.constraints.length].eraseDups.length : Nat) : Rat) := Rat.natCast_nonneg
        have := Rat.mul_le_mul_of_nonneg_left hcov1 h0
        rwa [Rat.mul_one] at this
  exact ⟨fun col hc => (List.mem_append.1 hc).elim (h1.1 col) (h2.1 col),
         fun r hr => (List.mem_append.1 hr).elim (h1.2 r) (h2.2 r)⟩

/-! ## dropping appended constraints -/

theorem c05_zip_range_prefix {α} (C E : List α) (p : Nat × α)
    (h : p ∈ (List.range C.length).zip C) : p ∈ (List.range (C ++ E).length).zip (C ++ E) := by
  obtain ⟨hj, hp⟩ := mem_zip_range_p04 C p.1 p.2 h
  have hj' : p.1 < (C ++ E).length := by rw [List.length_append]; omega
  have := c10_mem_zip_range (C ++ E) p.1 hj'
  rw [List.getElem_append_left hj, ← hp] at this
  exact this

theorem subsetBlock_drop (s : STGraph) (c : WalkCfg) (ub : Edge → Rat) (a : Asg) (E : List (List Edge))
    (h : Sat a (subsetBlock s { c with constraints := c.constraints ++ E } ub)) :
    Sat a (subsetBlock s c ub) := by
  by_cases hne : c.constraints.isEmpty = true
  · have : subsetBlock s c ub = {} := by simp [subsetBlock, hne]
    rw [this]
    exact ⟨fun _ hc => by simp at hc, fun _ hr => by simp at hr⟩
  have hne' : c.constraints.isEmpty = false := by simpa using hne
  let c' : WalkCfg := { c with constraints := c.constraints ++ E }
  have hne2 : c'.constraints.isEmpty = false := by
    show (c.constraints ++ E).isEmpty = false
    cases hc : c.constraints with
    | nil => rw [hc] at hne'; simp at hne'
    | cons x xs => rfl
  have hlen : c.constraints.length ≤ c'.constraints.length := by
    show _ ≤ (c.constraints ++ E).length
    rw [List.length_append]; omega
  constructor
  · intro col hcol
    obtain ⟨i, hi, hc⟩ := (mem_subCols s c ub hne' col).1 hcol
    apply h.1
    apply (mem_subCols s c' ub hne2 col).2
    refine ⟨i, hi, ?_⟩
    simp only [subColsAt, List.mem_append, List.mem_map, List.mem_range] at hc ⊢
    rcases hc with ⟨j, hj, rfl⟩ | hc
    · exact Or.inl ⟨j, by omega, rfl⟩
    · exact Or.inr hc
  · intro r hr
    apply h.2
    apply (mem_subRows s c' ub hne2 r).2
    rcases (mem_subRows s c ub hne' r).1 hr with ⟨i, hi, hc⟩ | ⟨j, hj, rfl⟩
    · refine Or.inl ⟨i, hi, ?_⟩
      simp only [subRowsAt, List.mem_append, List.mem_map] at hc ⊢
      rcases hc with hc | ⟨p, hp, rfl⟩
      · exact Or.inl hc
      · exact Or.inr ⟨p, c05_zip_range_prefix c.constraints E p hp, rfl⟩
    · exact Or.inr ⟨j, by omega, rfl⟩

/-! ## `create_solver_and_walks` with and without the safety step -/

/-- the data computed by the safety step, with what C06 proves about it -/
structure SafetyData (s : STGraph) (k : Nat) (X : List Edge) (safe seqs : List (List Edge))
    (zs : List (Edge × Nat)) : Prop where
  /-- C06 T5 for the maximal safe sequences -/
  safeOK : ∀ q ∈ safe, SafeFor s.g s.source s.sink X q
  /-- C06 T5 for the sequences handed to the slots (they are among the maximal safe sequences) -/
  seqsOK : ∀ q ∈ seqs, SafeFor s.g s.source s.sink X q
  /-- the sequences consist of edges of the graph (`get_longest_incompatible_sequences` raises otherwise) -/
  seqEdges : ∀ q ∈ seqs, ∀ e ∈ q, e ∈ s.g.edges
  /-- C06 T6 -/
  incompatible : seqs.Pairwise fun p q => ¬ CoOccur s.g s.source s.sink p q
  /-- C06 T3 for the keys fixed to zero (`zeroSound_of_zeroFix` for the result of
  `_apply_safety_optimizations_fix_zero_edges`) -/
  zero : ZeroSound s.g seqs k zs

/-- the constraints appended by `safetyExtra` are safe sequences -/
theorem safetyExtra_constraints (s : STGraph) (k : Nat) (X : List Edge) (safe seqs : List (List Edge))
    (zs : List (Edge × Nat)) (D : SafetyData s k X safe seqs zs) (o : SafetyOpts) :
    ∀ q ∈ (safetyExtra s k safe seqs zs o).constraints, SafeFor s.g s.source s.sink X q := by
  intro q hq
  unfold safetyExtra at hq
  split at hq
  · cases hq
  split at hq
  · exact D.safeOK q hq
  simp only at hq
  split at hq
  · exact D.seqsOK q hq
  split at hq <;> cases hq

/-- every row of the fragment (row variant) reads a single edge column -/
theorem safetyExtra_row_form (s : STGraph) (k : Nat) (safe seqs : List (List Edge)) (zs : List (Edge × Nat))
    (o : SafetyOpts) (r : Row) (hr : r ∈ (safetyExtra s k safe seqs zs o).asRows) :
    (∃ e i q, r = rowEq [(1, edgeVar e i)] q) ∨ (∃ e i q, r = rowGe [(1, edgeVar e i)] q) := by
  have hr' := hr
  unfold safetyExtra at hr'
  split at hr'
  · simp [SafetyFrag.asRows] at hr'
  split at hr'
  · simp [SafetyFrag.asRows] at hr'
  simp only at hr'
  have hzr : ∀ l : List (Edge × Nat), ∀ r ∈ zeroRows l, ∃ e i q, r = rowEq [(1, edgeVar e i)] q := by
    intro l r hr
    obtain ⟨p, _, rfl⟩ := List.mem_map.1 hr
    exact ⟨p.1, p.2, 0, rfl⟩
  split at hr'
  · simp only [SafetyFrag.asRows, List.map_nil, List.append_nil] at hr'
    exact Or.inl (hzr _ r hr')
  split at hr'
  · simp only [SafetyFrag.asRows, List.mem_append, List.mem_map] at hr'
    rcases hr' with (hr' | ⟨q, ⟨p, _, rfl⟩, rfl⟩) | ⟨q, ⟨p, _, rfl⟩, rfl⟩
    · exact Or.inl (hzr _ r hr')
    · exact Or.inr ⟨p.1, p.2.1, _, rfl⟩
    · exact Or.inl ⟨p.1, p.2.1, _, rfl⟩
  · simp only [SafetyFrag.asRows, List.map_nil, List.append_nil, List.mem_append] at hr'
    rcases hr' with (hr' | hr') | hr'
    · exact Or.inl (hzr _ r hr')
    · split at hr'
      · obtain ⟨p, _, rfl⟩ := List.mem_map.1 hr'
        exact Or.inr ⟨p.1, p.2.1, _, rfl⟩
      · cases hr'
    · obtain ⟨p, _, rfl⟩ := List.mem_map.1 hr'
      exact Or.inl ⟨p.1, p.2.1, _, rfl⟩

section Core
variable {s : STGraph} {c : WalkCfg} {ub : Edge → Rat}

/-- **forward direction**: from a solution without the options to one with them — permute the layers (T1, T2),
then give the `r` / `used_edge` columns of the appended constraints their values (T4). The permutation is
chosen from the slots alone; `P` is any renaming of the columns that acts as `π` on the layered ones. -/
theorem walkCoreS_of_walkCore (hwf : STWFc s) (a : Asg) (hsat : Sat a (walkCore s c ub))
    (X : List Edge) (hX : ∀ x ∈ X, x ∈ s.g.edges) (hcover : ∀ x ∈ X, ∃ i, i < c.k ∧ 1 ≤ a (edgeVar x i))
    (safe seqs : List (List Edge)) (zs : List (Edge × Nat)) (D : SafetyData s c.k X safe seqs zs)
    (o : SafetyOpts)
    (hcons : ∀ con ∈ c.constraints, ∀ e ∈ con, e ∈ s.g.edges) (hcov1 : c.coverage ≤ 1)
    (hub1 : ∀ e ∈ s.g.edges, isSccEdge s.g e = false → 1 ≤ ub e) :
    ∃ π : LayerPerm c.k, SlotsFit s a c.k seqs zs π ∧ ∀ P : Var → Var, IsLayerRenaming π.fwd P →
      Sat (a ∘ P) (walkCore s c ub) ∧
      (∀ r ∈ (safetyExtra s c.k safe seqs zs o).asRows, r.holds (a ∘ P)) ∧
      Sat (subsetAsg (a ∘ P) (c.constraints ++ (safetyExtra s c.k safe seqs zs o).constraints) c.coverage)
        (walkCoreS s c ub (safetyExtra s c.k safe seqs zs o)) := by
  have henc : Sat a (encodeWalks s c ub) := sat_append_left a _ _ hsat
  obtain ⟨π, hfit⟩ := slotsFit_exists hwf henc X hX hcover seqs D.seqsOK D.incompatible zs D.zero
  refine ⟨π, hfit, fun P hP => ?_⟩
  have hPe : ∀ e i, P (edgeVar e i) = edgeVar e (π.fwd i) := fun e i => hP.uvi _ _ _ _
  let b : Asg := a ∘ P
  have hb : Sat b (walkCore s c ub) := walkCore_perm s c ub a π P hP hsat
  have hbenc : Sat b (encodeWalks s c ub) := sat_append_left b _ _ hb
  have hrows := safetyRows_hold hfit P hP safe o
  refine ⟨hb, hrows, ?_⟩
  -- the appended constraints are traversed completely by some layer
  have hE : ∀ q ∈ (safetyExtra s c.k safe seqs zs o).constraints,
      ∃ i, i < c.k ∧ ∀ e ∈ q, e ∈ s.g.edges ∧ 1 ≤ b (edgeVar e i) := by
    intro q hq
    have hbcover : ∀ x ∈ X, ∃ i, i < c.k ∧ 1 ≤ b (edgeVar x i) := by
      intro x hx
      obtain ⟨i, hi, h1⟩ := hcover x hx
      refine ⟨π.bwd i, π.bwd_lt i hi, ?_⟩
      show 1 ≤ a (P (edgeVar x (π.bwd i)))
      rw [hPe, π.fwd_bwd i hi]
      exact h1
    obtain ⟨i, hi, hok⟩ := exists_layer_of_safe hwf hbenc X hX hbcover q
      (safetyExtra_constraints s c.k X safe seqs zs D o q hq)
    refine ⟨i, hi, fun e he => ?_⟩
    obtain ⟨hw, _⟩ := c05_layer_facts hwf hbenc hi hok.used
    have hsub : q.Sublist (walkEdges (layerWalk s b i)) := hok.occ
    refine ⟨hw.walk e (hsub.subset he), ?_⟩
    have h1 := (slot_values hwf hbenc hi hok).1 e he
    have h2 : ((1 : Nat) : Rat) ≤ ((q.count e : Nat) : Rat) :=
      Rat.natCast_le_natCast.2 (List.count_pos_iff.2 he)
    have h3 : ((1 : Nat) : Rat) = 1 := by simp
    rw [h3] at h2
    exact Rat.le_trans h2 h1
  have hext := subset_extend s c ub b (safetyExtra s c.k safe seqs zs o).constraints hb hcons hcov1 hE
  have hok := safetyExtra_boundsOK s c.k ub safe seqs zs o D.seqEdges hub1
  apply (sat_walkCoreS_iff s c ub _ hok _).2
  refine ⟨?_, ?_, ?_⟩
  · exact c05_encodeWalks_congr s c ub b _ (subsetAsg_edge b _ _) (subsetAsg_sel b _ _) (subsetAsg_dist b _ _) hbenc
  · intro r hr
    have hrb := hrows r hr
    have hform := safetyExtra_row_form s c.k safe seqs zs o r hr
    rcases hform with ⟨e, i, q, rfl⟩ | ⟨e, i, q, rfl⟩
    · rw [c05_rowEq_single_holds] at hrb ⊢
      rw [subsetAsg_edge]; exact hrb
    · rw [c05_rowGe_single_holds] at hrb ⊢
      rw [subsetAsg_edge]; exact hrb
  · exact sat_append_right _ _ _ hext

/-- **backward direction**: a solution with the options is a solution without them -/
theorem walkCore_of_walkCoreS (fr : SafetyFrag) (hok : BoundsOK s c.k ub fr) (a : Asg)
    (h : Sat a (walkCoreS s c ub fr)) : Sat a (walkCore s c ub) := by
  obtain ⟨h1, _, h3⟩ := (sat_walkCoreS_iff s c ub fr hok a).1 h
  have h4 := subsetBlock_drop s c ub a fr.constraints h3
  exact ⟨fun col hc => (List.mem_append.1 hc).elim (h1.1 col) (h4.1 col),
         fun r hr => (List.mem_append.1 hr).elim (h1.2 r) (h4.2 r)⟩

end Core

end FP
