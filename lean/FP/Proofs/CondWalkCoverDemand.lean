import FP.Proofs.CondWalkCoverGraph
/-!
# FP.Proofs.CondWalkCoverDemand — the demands `stDiGraph.get_width` puts on the expanded condensation

* `cwc_weight_cond`: the weight of a condensation edge is its `multiplicity`;
* `cwc_weight_scc`: the weight of the edge of an SCC with a member edge that is not ignored is 1;
* `cwc_demand_eq`: on the edges of the instance the demand is the weight;
* `cwc_live_le_mult`: with an ignore list of edges of the graph (duplicates allowed: they count once
  since fix afcb013), the multiplicity is at least the number of distinct parallel edges that are not
  ignored.
-/
namespace FP
open FP.Spec CondInput

theorem cwc_weight_some {c : CondInput} {w : List (Edge × Int)} (h : c.weightFunction = some w) :
    (∀ e ∈ c.ignore, e ∈ c.g.edges) ∧
    w = dictOfWrites
      ((c.expandedST.g.edges.map fun e => (e, (0 : Int)))
        ++ (c.condEdges.map fun ab => ((c.tailName ab.1, cname ab.2), c.multiplicity ab))
        ++ (c.condNodes.map fun k =>
            ((cname k, cexp k),
              if (c.membersLeft k).isEmpty && !(c.members k).isEmpty then (0 : Int) else 1))) := by
  unfold weightFunction at h
  split at h
  · exact absurd h (by simp)
  · rename_i hany
    refine ⟨?_, (Option.some.inj h).symm⟩
    intro e he
    have : ¬ (!c.g.edges.contains e) = true := fun hc => hany (List.any_eq_true.2 ⟨e, he, hc⟩)
    simpa using this

theorem cwc_weight_cond {c : CondInput} {w : List (Edge × Int)} (h : c.weightFunction = some w)
    {ab : Nat × Nat} (hab : ab ∈ c.condEdges) :
    lookupD w (c.tailName ab.1, cname ab.2) 0 = c.multiplicity ab := by
  obtain ⟨_, rfl⟩ := cwc_weight_some h
  obtain ⟨l1, l2, hl⟩ := List.append_of_mem hab
  have hnd : (l1 ++ ab :: l2).Nodup := hl ▸ cwc_condEdges_nodup (c := c)
  have hab2 : ab ∉ l2 := by
    have := (List.nodup_append.1 hnd).2.1
    exact (List.nodup_cons.1 this).1
  unfold lookupD
  rw [hl]
  simp only [List.map_append, List.map_cons, List.append_assoc, List.cons_append]
  rw [← List.append_assoc, cwc_dict_lookup_last]
  · rfl
  · intro p hp hkey
    rcases List.mem_append.1 hp with hp | hp
    · obtain ⟨ab', hab', rfl⟩ := List.mem_map.1 hp
      simp only at hkey
      have h1 := cwc_tailName_inj (congrArg Prod.fst hkey)
      have h2 := cwc_cname_inj (congrArg Prod.snd hkey)
      exact hab2 ((Prod.ext h1 h2 : ab' = ab) ▸ hab')
    · obtain ⟨k, _, rfl⟩ := List.mem_map.1 hp
      simp only at hkey
      exact cwc_cname_ne_cexp _ _ (congrArg Prod.snd hkey).symm

theorem cwc_weight_scc {c : CondInput} {w : List (Edge × Int)} (h : c.weightFunction = some w)
    {k : Nat} (hk : k ∈ c.condNodes) :
    lookupD w (cname k, cexp k) 0
      = if (c.membersLeft k).isEmpty && !(c.members k).isEmpty then (0 : Int) else 1 := by
  obtain ⟨_, rfl⟩ := cwc_weight_some h
  obtain ⟨l1, l2, hl⟩ := List.append_of_mem hk
  have hnd : (l1 ++ k :: l2).Nodup := hl ▸ cwc_condNodes_nodup (c := c)
  have hk2 : k ∉ l2 := by
    have := (List.nodup_append.1 hnd).2.1
    exact (List.nodup_cons.1 this).1
  unfold lookupD
  rw [hl]
  simp only [List.map_append, List.map_cons]
  rw [← List.append_assoc, cwc_dict_lookup_last]
  · rfl
  · intro p hp hkey
    obtain ⟨k', hk', rfl⟩ := List.mem_map.1 hp
    simp only at hkey
    exact hk2 (cwc_cname_inj (congrArg Prod.fst hkey) ▸ hk')

theorem cwc_demand_eq {c : CondInput} {w d : List (Edge × Int)} (hw : c.weightFunction = some w)
    (hd : c.demands = some d) {e : Edge} (he : e ∈ c.expandedST.g.edges) :
    lookupD d e 0 = lookupD w e 0 := by
  unfold demands at hd
  rw [hw] at hd
  simp only [Option.map_some, Option.some.injEq] at hd
  subst hd
  unfold antichainDemands
  simp only
  unfold lookupD
  rw [cwc_lookup_map_self _ (fun e => (w.lookup e).getD 0) e he]
  rfl

/-! ## multiplicity versus the parallel edges that are not ignored -/

/-- the edges of the digraph between the components `ab.1` and `ab.2` -/
def cwcPar (c : CondInput) (ab : Nat × Nat) : List Edge :=
  c.interEdges.filter fun e => (c.comp e.1, c.comp e.2) == ab

/-- the distinct ones among them that are not ignored -/
def cwcLive (c : CondInput) (ab : Nat × Nat) : List Edge :=
  (cwcPar c ab).eraseDups.filter fun e => !c.ignore.contains e

theorem cwc_mem_par {c : CondInput} {ab : Nat × Nat} {e : Edge} :
    e ∈ cwcPar c ab ↔ e ∈ c.g.edges ∧ c.comp e.1 ≠ c.comp e.2 ∧ (c.comp e.1, c.comp e.2) = ab := by
  unfold cwcPar
  rw [List.mem_filter, cwc_mem_interEdges]
  simp [and_assoc]

theorem cwc_mem_live {c : CondInput} {ab : Nat × Nat} {e : Edge} :
    e ∈ cwcLive c ab ↔ (e ∈ c.g.edges ∧ c.comp e.1 ≠ c.comp e.2 ∧ (c.comp e.1, c.comp e.2) = ab)
      ∧ e ∉ c.ignore := by
  unfold cwcLive
  rw [List.mem_filter, List.mem_eraseDups, cwc_mem_par]
  simp

theorem cwc_live_nodup (c : CondInput) (ab : Nat × Nat) : (cwcLive c ab).Nodup :=
  List.Pairwise.filter _ (cwc_nodup_eraseDups _)

theorem cwc_live_le_mult {c : CondInput} (hsub : ∀ e ∈ c.ignore, e ∈ c.g.edges)
    (ab : Nat × Nat) : ((cwcLive c ab).length : Int) ≤ c.multiplicity ab := by
  let ign := c.ignore.eraseDups.filter fun e =>
    c.comp e.1 != c.comp e.2 && (c.comp e.1, c.comp e.2) == ab
  have hign : ign.Nodup := List.Pairwise.filter _ (cwc_nodup_eraseDups _)
  have hle : (cwcLive c ab ++ ign).length ≤ (cwcPar c ab).length := by
    apply cwc_nodup_length_le
    · apply List.nodup_append.2
      refine ⟨cwc_live_nodup c ab, hign, ?_⟩
      intro x hx y hy hxy
      subst hxy
      exact (cwc_mem_live.1 hx).2 (List.mem_eraseDups.1 (List.mem_filter.1 hy).1)
    · intro x hx
      rcases List.mem_append.1 hx with hx | hx
      · exact cwc_mem_par.2 (cwc_mem_live.1 hx).1
      · have := List.mem_filter.1 hx
        have h2 := this.2
        simp only [Bool.and_eq_true, bne_iff_ne, ne_eq, beq_iff_eq] at h2
        exact cwc_mem_par.2 ⟨hsub x (List.mem_eraseDups.1 this.1), h2.1, h2.2⟩
  rw [List.length_append] at hle
  unfold multiplicity
  show _ ≤ ((cwcPar c ab).length : Int) - (ign.length : Int)
  omega

end FP
