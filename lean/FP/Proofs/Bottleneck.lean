import FP.Model.Bottleneck
import FP.Spec.Substrate
import FP.Proofs.Sweep
import FP.Proofs.WalkLemmas
import FP.Proofs.FlowLemmas
/-!
# FP.Proofs.Bottleneck — the DP of `max_bottleneck_path` computes the best bottleneck and a path realising it
-/
namespace FP
open FP.Spec

/-! ## the inner loop over the predecessors -/

theorem bmin_le_right (b : Option Rat) (x : Rat) : bmin b x ≤ x := by
  unfold bmin
  cases b with
  | none => exact Rat.le_refl
  | some q =>
    by_cases h : x < q
    · simp [h]
    · simp [h]; exact Rat.not_lt.1 h

theorem bestPred_some (B : Node → Option Rat) (f : Edge → Rat) (v : Node) (l : List Node) :
    ∀ (q0 : Rat) (a0 : Node),
      ∃ q, (bestPred B f v l (some q0, a0)).1 = some q ∧ q0 ≤ q ∧
        ((q = q0 ∧ (bestPred B f v l (some q0, a0)).2 = a0) ∨
          ((bestPred B f v l (some q0, a0)).2 ∈ l ∧
            q = bmin (B (bestPred B f v l (some q0, a0)).2) (f ((bestPred B f v l (some q0, a0)).2, v)))) ∧
        ∀ u ∈ l, bmin (B u) (f (u, v)) ≤ q := by
  induction l with
  | nil => intro q0 a0; exact ⟨q0, rfl, Rat.le_refl, Or.inl ⟨rfl, rfl⟩, by simp⟩
  | cons u l ih =>
    intro q0 a0
    unfold bestPred
    simp only [List.foldl_cons]
    by_cases hgt : bmin (B u) (f (u, v)) > q0
    · simp only [hgt, if_true]
      obtain ⟨q, h1, h2, h3, h4⟩ := ih (bmin (B u) (f (u, v))) u
      unfold bestPred at h1 h3
      refine ⟨q, h1, Rat.le_trans (Rat.le_of_lt hgt) h2, ?_, ?_⟩
      · rcases h3 with ⟨h3a, h3b⟩ | ⟨h3a, h3b⟩
        · right; rw [h3b]; exact ⟨by simp, h3a⟩
        · right; exact ⟨List.mem_cons_of_mem _ h3a, h3b⟩
      · intro u' hu'
        rcases List.mem_cons.1 hu' with rfl | hu'
        · exact h2
        · exact h4 u' hu'
    · simp only [hgt, if_false]
      obtain ⟨q, h1, h2, h3, h4⟩ := ih q0 a0
      unfold bestPred at h1 h3
      refine ⟨q, h1, h2, ?_, ?_⟩
      · rcases h3 with h3 | ⟨h3a, h3b⟩
        · exact Or.inl h3
        · right; exact ⟨List.mem_cons_of_mem _ h3a, h3b⟩
      · intro u' hu'
        rcases List.mem_cons.1 hu' with rfl | hu'
        · exact Rat.le_trans (Rat.not_lt.1 hgt) h2
        · exact h4 u' hu'

theorem bestPred_none (B : Node → Option Rat) (f : Edge → Rat) (v : Node) (l : List Node) (hl : l ≠ []) (a0 : Node) :
    ∃ q, (bestPred B f v l (none, a0)).1 = some q ∧ (bestPred B f v l (none, a0)).2 ∈ l ∧
      q = bmin (B (bestPred B f v l (none, a0)).2) (f ((bestPred B f v l (none, a0)).2, v)) ∧
      ∀ u ∈ l, bmin (B u) (f (u, v)) ≤ q := by
  cases l with
  | nil => exact absurd rfl hl
  | cons u l =>
    obtain ⟨q, h1, h2, h3, h4⟩ := bestPred_some B f v l (bmin (B u) (f (u, v))) u
    have hunf : bestPred B f v (u :: l) (none, a0) = bestPred B f v l (some (bmin (B u) (f (u, v))), u) := by
      unfold bestPred; simp only [List.foldl_cons]
    rw [hunf]
    refine ⟨q, h1, ?_, ?_, ?_⟩
    · rcases h3 with ⟨_, h3b⟩ | ⟨h3a, _⟩
      · rw [h3b]; simp
      · exact List.mem_cons_of_mem _ h3a
    · rcases h3 with ⟨h3a, h3b⟩ | ⟨_, h3b⟩
      · rw [h3b]; exact h3a
      · exact h3b
    · intro u' hu'
      rcases List.mem_cons.1 hu' with rfl | hu'
      · exact h2
      · exact h4 u' hu'

/-! ## the table after the sweep satisfies the local equations -/

/-- local optimality equations of the table at `v` -/
def BLoc (g : Graph) (f : Edge → Rat) (st : BState) (v : Node) : Prop :=
  (g.pred v = [] → st.B v = none) ∧
  (g.pred v ≠ [] → ∃ q, st.B v = some q ∧ (st.arg v, v) ∈ g.edges ∧
      q = bmin (st.B (st.arg v)) (f (st.arg v, v)) ∧ ∀ u, (u, v) ∈ g.edges → bmin (st.B u) (f (u, v)) ≤ q)

/-- `maxBottleneckSink` is the first best among the processed proper sinks -/
def BBest (g : Graph) (st : BState) (pre : List Node) : Prop :=
  match st.best with
  | none => ∀ v ∈ pre, ¬ (g.pred v ≠ [] ∧ g.succ v = [])
  | some m => m ∈ pre ∧ g.pred m ≠ [] ∧ g.succ m = [] ∧
      ∀ v ∈ pre, g.pred v ≠ [] → g.succ v = [] → bgt (st.B v) (st.B m) = false

theorem isEmpty_iff {α} (l : List α) : l.isEmpty = true ↔ l = [] := by cases l <;> simp

theorem bstep_other (g : Graph) (f : Edge → Rat) (st : BState) (c v : Node) (hv : v ≠ c) :
    (bstep g f st c).B v = st.B v ∧ (bstep g f st c).arg v = st.arg v := by
  unfold bstep
  by_cases h1 : (g.pred c).isEmpty = true
  · simp [h1, upd, hv]
  · simp [h1, upd, hv]

theorem bstep_at (g : Graph) (f : Edge → Rat) (st : BState) (c : Node) :
    (g.pred c = [] → (bstep g f st c).B c = none ∧ (bstep g f st c).best = st.best) ∧
    (g.pred c ≠ [] → (bstep g f st c).B c = (bestPred st.B f c (g.pred c) (none, st.arg c)).1 ∧
      (bstep g f st c).arg c = (bestPred st.B f c (g.pred c) (none, st.arg c)).2) := by
  unfold bstep
  constructor
  · intro h
    simp [h, upd]
  · intro h
    have h1 : ¬ (g.pred c).isEmpty = true := fun h' => h ((isEmpty_iff _).1 h')
    simp [h1, upd]

theorem bstep_best (g : Graph) (f : Edge → Rat) (st : BState) (c : Node) (hp : g.pred c ≠ []) :
    (g.succ c ≠ [] → (bstep g f st c).best = st.best) ∧
    (g.succ c = [] → st.best = none → (bstep g f st c).best = some c) ∧
    (g.succ c = [] → ∀ m, st.best = some m →
      (bstep g f st c).best = if bgt ((bstep g f st c).B c) ((bstep g f st c).B m) then some c else some m) := by
  have h1 : ¬ (g.pred c).isEmpty = true := fun h' => hp ((isEmpty_iff _).1 h')
  refine ⟨?_, ?_, ?_⟩
  · intro h
    have h2 : ¬ (g.succ c).isEmpty = true := fun h' => h ((isEmpty_iff _).1 h')
    unfold bstep; simp [h1, h2]
  · intro h hb
    unfold bstep; simp [h1, h, hb, newBest]
  · intro h m hb
    unfold bstep; simp [h1, h, hb, newBest]

theorem bgt_some (a b : Rat) : bgt (some a) (some b) = false ↔ a ≤ b := by
  unfold bgt; simp [Rat.not_lt]

/-- the invariant of the sweep along the topological order -/
theorem bTable_inv (g : Graph) (f : Edge → Rat) (post : List Node) :
    ∀ (pre : List Node) (st : BState), IsTopo g.edges (pre ++ post) →
      (∀ v ∈ pre, BLoc g f st v) → BBest g st pre →
      (∀ v ∈ pre ++ post, BLoc g f (post.foldl (bstep g f) st) v) ∧ BBest g (post.foldl (bstep g f) st) (pre ++ post) := by
  induction post with
  | nil => intro pre st _ h1 h2; simpa using ⟨h1, h2⟩
  | cons c post ih =>
    intro pre st htopo h1 h2
    simp only [List.foldl_cons]
    have hassoc : pre ++ c :: post = (pre ++ [c]) ++ post := by simp
    have hcpre : c ∉ pre := by
      intro h
      exact (List.nodup_append.1 htopo.nodup).2.2 c h c (by simp) rfl
    -- every predecessor of `c` has been processed
    have hpredc : ∀ u, (u, c) ∈ g.edges → u ∈ pre := by
      intro u hu
      have hmem : u ∈ pre ++ c :: post := (htopo.cover (u, c) hu).1
      rcases List.mem_append.1 hmem with h | h
      · exact h
      · rcases List.mem_cons.1 h with h | h
        · rw [h] at hu; exact absurd hu (htopo.noloop _)
        · have hq := (List.pairwise_append.1 htopo.fwd).2.1
          exact absurd hu ((List.pairwise_cons.1 hq).1 u h)
    -- no processed node has `c` as predecessor
    have hnotpred : ∀ v ∈ pre, (c, v) ∉ g.edges := by
      intro v hv
      exact (List.pairwise_append.1 htopo.fwd).2.2 v hv c (by simp)
    rw [hassoc] at htopo ⊢
    apply ih (pre ++ [c]) _ htopo
    · intro v hv
      rcases List.mem_append.1 hv with hv | hv
      · -- an already processed node keeps its equations
        have hvc : v ≠ c := fun h => hcpre (h ▸ hv)
        obtain ⟨l1, l2⟩ := h1 v hv
        have hBv := (bstep_other g f st c v hvc)
        constructor
        · intro hp; rw [hBv.1]; exact l1 hp
        · intro hp
          obtain ⟨q, e1, e2, e3, e4⟩ := l2 hp
          have hac : st.arg v ≠ c := fun h => hnotpred v hv (h ▸ e2)
          refine ⟨q, by rw [hBv.1]; exact e1, by rw [hBv.2]; exact e2, ?_, ?_⟩
          · rw [hBv.2, (bstep_other g f st c _ hac).1]; exact e3
          · intro u hu
            have huc : u ≠ c := fun h => hnotpred v hv (h ▸ hu)
            rw [(bstep_other g f st c u huc).1]; exact e4 u hu
      · have : v = c := by simpa using hv
        subst this
        obtain ⟨a1, a2⟩ := bstep_at g f st v
        constructor
        · intro hp; exact (a1 hp).1
        · intro hp
          obtain ⟨b1, b2⟩ := a2 hp
          obtain ⟨q, r1, r2, r3, r4⟩ := bestPred_none st.B f v (g.pred v) hp (st.arg v)
          have hargpred : (bestPred st.B f v (g.pred v) (none, st.arg v)).2 ≠ v := by
            intro h
            rw [h] at r2
            exact htopo.noloop v (mem_pred.1 r2)
          refine ⟨q, by rw [b1]; exact r1, by rw [b2]; exact mem_pred.1 r2, ?_, ?_⟩
          · rw [b2, (bstep_other g f st v _ hargpred).1]; exact r3
          · intro u hu
            have huv : u ≠ v := fun h => htopo.noloop v (h ▸ hu)
            rw [(bstep_other g f st v u huv).1]
            exact r4 u (mem_pred.2 hu)
    · -- the best sink
      by_cases hp : g.pred c = []
      · have hb := ((bstep_at g f st c).1 hp).2
        unfold BBest at h2 ⊢
        rw [hb]
        cases hbest : st.best with
        | none =>
          rw [hbest] at h2
          intro v hv
          rcases List.mem_append.1 hv with hv | hv
          · exact h2 v hv
          · have : v = c := by simpa using hv
            subst this; exact fun h => h.1 hp
        | some m =>
          rw [hbest] at h2
          obtain ⟨m1, m2, m3, m4⟩ := h2
          have hmc : m ≠ c := fun h => hcpre (h ▸ m1)
          refine ⟨by simp [m1], m2, m3, ?_⟩
          intro v hv hpv hsv
          rcases List.mem_append.1 hv with hv | hv
          · have hvc : v ≠ c := fun h => hcpre (h ▸ hv)
            rw [(bstep_other g f st c v hvc).1, (bstep_other g f st c m hmc).1]
            exact m4 v hv hpv hsv
          · have : v = c := by simpa using hv
            subst this; exact absurd hp hpv
      · obtain ⟨s1, s2, s3⟩ := bstep_best g f st c hp
        by_cases hs : g.succ c = []
        · cases hbest : st.best with
          | none =>
            unfold BBest at h2 ⊢
            rw [hbest] at h2
            rw [s2 hs hbest]
            refine ⟨by simp, hp, hs, ?_⟩
            intro v hv hpv hsv
            rcases List.mem_append.1 hv with hv | hv
            · exact absurd ⟨hpv, hsv⟩ (h2 v hv)
            · have : v = c := by simpa using hv
              subst this
              cases (bstep g f st v).B v <;> simp [bgt]
          | some m =>
            unfold BBest at h2 ⊢
            rw [hbest] at h2
            obtain ⟨m1, m2, m3, m4⟩ := h2
            have hmc : m ≠ c := fun h => hcpre (h ▸ m1)
            rw [s3 hs m hbest]
            -- values of proper sinks are finite
            obtain ⟨qc, hqc, _⟩ := bestPred_none st.B f c (g.pred c) hp (st.arg c)
            have hBc : (bstep g f st c).B c = some qc := by rw [((bstep_at g f st c).2 hp).1]; exact hqc
            obtain ⟨qm, hqm, _⟩ := (h1 m m1).2 m2
            have hBm : (bstep g f st c).B m = some qm := by rw [(bstep_other g f st c m hmc).1]; exact hqm
            by_cases hgt : bgt ((bstep g f st c).B c) ((bstep g f st c).B m) = true
            · simp only [hgt, if_true]
              refine ⟨by simp, hp, hs, ?_⟩
              intro v hv hpv hsv
              rcases List.mem_append.1 hv with hv | hv
              · have hvc : v ≠ c := fun h => hcpre (h ▸ hv)
                have hvm := m4 v hv hpv hsv
                obtain ⟨qv, hqv, _⟩ := (h1 v hv).2 hpv
                rw [(bstep_other g f st c v hvc).1, hqv, hBc]
                rw [hqv, hqm] at hvm
                rw [hBc, hBm] at hgt
                have h1' := (bgt_some qv qm).1 hvm
                have h2' : qm < qc := by simpa [bgt] using hgt
                exact (bgt_some qv qc).2 (Rat.le_trans h1' (Rat.le_of_lt h2'))
              · have : v = c := by simpa using hv
                subst this
                rw [hBc]; exact (bgt_some qc qc).2 Rat.le_refl
            · simp only [hgt]
              refine ⟨by simp [m1], m2, m3, ?_⟩
              intro v hv hpv hsv
              rcases List.mem_append.1 hv with hv | hv
              · have hvc : v ≠ c := fun h => hcpre (h ▸ hv)
                rw [(bstep_other g f st c v hvc).1, (bstep_other g f st c m hmc).1]
                exact m4 v hv hpv hsv
              · have : v = c := by simpa using hv
                subst this
                simpa using hgt
        · unfold BBest at h2 ⊢
          rw [s1 hs]
          cases hbest : st.best with
          | none =>
            rw [hbest] at h2
            intro v hv
            rcases List.mem_append.1 hv with hv | hv
            · exact h2 v hv
            · have : v = c := by simpa using hv
              subst this; exact fun h => hs h.2
          | some m =>
            rw [hbest] at h2
            obtain ⟨m1, m2, m3, m4⟩ := h2
            have hmc : m ≠ c := fun h => hcpre (h ▸ m1)
            refine ⟨by simp [m1], m2, m3, ?_⟩
            intro v hv hpv hsv
            rcases List.mem_append.1 hv with hv | hv
            · have hvc : v ≠ c := fun h => hcpre (h ▸ hv)
              rw [(bstep_other g f st c v hvc).1, (bstep_other g f st c m hmc).1]
              exact m4 v hv hpv hsv
            · have : v = c := by simpa using hv
              subst this; exact absurd hsv hs

theorem bTable_spec (g : Graph) (f : Edge → Rat) (topo : List Node) (h : IsTopo g.edges topo) :
    (∀ v ∈ topo, BLoc g f (bTable g f topo) v) ∧ BBest g (bTable g f topo) topo := by
  have := bTable_inv g f topo [] bInit (by simpa using h) (by simp) (by simp [BBest, bInit])
  simpa [bTable] using this

end FP
