import FP.Proofs.Decomp
/-!
# FP.Proofs.FlowDecompExists — the flow decomposition theorem on s-t DAGs

A non-negative flow on a well-formed s-t DAG that is conserved at every inner node is a sum of at most
`#inner edges with positive flow` weighted source-to-sink paths with positive weights (integers when
the flow is integral). "Inner" = neither leaving the synthetic source nor entering the synthetic sink;
the bound in terms of inner edges needs the shape `augment` produces without additional starts/ends:
a node fed by the source has no other in-edge, a node feeding the sink no other out-edge, and isolated
nodes carry no flow.
-/
namespace FP
open FP.Spec

/-- the shape of `augment base [] []` -/
structure Thin (s : STGraph) : Prop where
  s1 : ∀ v, (s.source, v) ∈ s.g.edges → ∀ u, (u, v) ∈ s.g.edges → u = s.source
  s2 : ∀ v, (v, s.sink) ∈ s.g.edges → ∀ x, (v, x) ∈ s.g.edges → x = s.sink

structure FlowOn (s : STGraph) (φ : Edge → Rat) : Prop where
  nonneg : ∀ e ∈ s.g.edges, 0 ≤ φ e
  cons : ∀ v ∈ s.g.nodes, v ≠ s.source → v ≠ s.sink → inflow s.g φ v = outflow s.g φ v
  s3 : ∀ v, (s.source, v) ∈ s.g.edges → (v, s.sink) ∈ s.g.edges → φ (s.source, v) = 0

def isInner (s : STGraph) (e : Edge) : Bool := decide (e.1 ≠ s.source) && decide (e.2 ≠ s.sink)

/-- number of inner edges carrying positive flow -/
def posInner (s : STGraph) (φ : Edge → Rat) : Nat :=
  s.g.edges.countP (fun e => decide (0 < φ e) && isInner s e)

/-- the weighted paths `D` add up to `φ` on every edge of the augmented graph -/
def ExplainsL (s : STGraph) (D : List (List Node × Rat)) (φ : Edge → Rat) : Prop :=
  ∀ e ∈ s.g.edges,
    (D.map fun d => d.2 * ((traversals (s.source :: d.1 ++ [s.sink]) e : Nat) : Rat)).sum = φ e

/-! ## small list facts -/

theorem exists_min {α} (l : List α) (f : α → Rat) (hne : l ≠ []) : ∃ a ∈ l, ∀ b ∈ l, f a ≤ f b := by
  induction l with
  | nil => exact absurd rfl hne
  | cons x xs ih =>
    by_cases hxs : xs = []
    · subst hxs
      exact ⟨x, by simp, fun b hb => by
        have : b = x := by simpa using hb
        rw [this]; exact Rat.le_refl⟩
    · obtain ⟨a, ha, hmin⟩ := ih hxs
      by_cases hxa : f x ≤ f a
      · refine ⟨x, by simp, fun b hb => ?_⟩
        rcases List.mem_cons.1 hb with rfl | hb
        · exact Rat.le_refl
        · exact Rat.le_trans hxa (hmin b hb)
      · refine ⟨a, by simp [ha], fun b hb => ?_⟩
        rcases List.mem_cons.1 hb with rfl | hb
        · grind
        · exact hmin b hb

theorem sum_le_of_all_eq {α} (l : List α) (hnd : l.Nodup) (f : α → Rat) (a : α) (hfa : 0 ≤ f a)
    (hall : ∀ x ∈ l, x = a) : (l.map f).sum ≤ f a := by
  cases l with
  | nil => simpa using hfa
  | cons x xs =>
    have hx : x = a := hall x (by simp)
    cases xs with
    | nil => subst hx; simp [Rat.add_zero]
    | cons y ys =>
      have hy : y = a := hall y (by simp)
      have := (List.nodup_cons.1 hnd).1
      rw [hx, hy] at this
      exact absurd (by simp) this

theorem sum_map_mul_left_p03 {α} (l : List α) (f : α → Rat) (k : Rat) :
    (l.map (fun i => k * f i)).sum = k * (l.map f).sum := by
  induction l with
  | nil => simp [Rat.mul_zero]
  | cons x xs ih => simp only [List.map_cons, List.sum_cons, ih]; grind

theorem exists_walkEdge_from_p03 (l : List Node) (v : Node) (hv : v ∈ l.dropLast) :
    ∃ x, (v, x) ∈ walkEdges l := by
  rw [← walkEdges_map_fst] at hv
  obtain ⟨e, he, rfl⟩ := List.mem_map.1 hv
  exact ⟨e.2, he⟩

theorem mem_dropLast_of_ne_last (l : List Node) (v t : Node) (hv : v ∈ l) (hl : l.getLast? = some t)
    (hne : v ≠ t) : v ∈ l.dropLast := by
  have := split_last l t hl
  rw [this] at hv
  rcases List.mem_append.1 hv with h | h
  · exact h
  · exact absurd (by simpa using h) hne

/-! ## a walk along positive edges -/

section PosWalk
variable {s : STGraph} {φ : Edge → Rat}

theorem pos_out_edge (hf : FlowOn s φ) (v : Node) (h : 0 < outflow s.g φ v) :
    ∃ x, (v, x) ∈ s.g.edges ∧ 0 < φ (v, x) := by
  have hne : outflow s.g φ v ≠ 0 := by intro h0; rw [h0] at h; exact absurd h (by decide)
  obtain ⟨e, he, hpos⟩ := exists_ne_zero_of_sum_ne_zero _ _ hne
  have hm := List.mem_filter.1 he
  have h1 : e.1 = v := by simpa using hm.2
  have hnn := hf.nonneg e hm.1
  refine ⟨e.2, ?_, ?_⟩
  · rw [← h1]; exact hm.1
  · rw [← h1]
    show 0 < φ e
    grind

theorem outflow_pos_of_in_edge (hwf : STWF s) (hf : FlowOn s φ) {v x : Node} (he : (v, x) ∈ s.g.edges)
    (hpos : 0 < φ (v, x)) (hx : x ≠ s.sink) : 0 < outflow s.g φ x := by
  have hsrc : x ≠ s.source := hwf.srcNoIn _ he
  rw [← hf.cons x (hwf.closed _ he).2 hsrc hx]
  have hle := le_sum_of_mem (s.g.edges.filter (fun e : Edge => e.2 = x)) φ
    (fun e he' => hf.nonneg e (List.mem_filter.1 he').1) (v, x) (List.mem_filter.2 ⟨he, by simp⟩)
  unfold inflow
  grind

theorem pos_walk (hwf : STWF s) (hf : FlowOn s φ) (rank : Node → Nat)
    (hr : ∀ e ∈ s.g.edges, rank e.1 < rank e.2) (n : Nat) :
    ∀ v, (v = s.sink ∨ 0 < outflow s.g φ v) → above s rank v < n →
      ∃ t, (∀ e ∈ walkEdges (v :: t), e ∈ s.g.edges ∧ 0 < φ e) ∧ (v :: t).getLast? = some s.sink := by
  induction n with
  | zero => intro v _ h; omega
  | succ n ih =>
    intro v hv hlt
    by_cases hvs : v = s.sink
    · exact ⟨[], by simp [walkEdges_single], by simp [hvs]⟩
    · obtain ⟨x, he, hpos⟩ := pos_out_edge hf v (hv.resolve_left hvs)
      have hlt' := above_lt hwf rank hr he
      have hx : x = s.sink ∨ 0 < outflow s.g φ x := by
        by_cases hxs : x = s.sink
        · exact Or.inl hxs
        · exact Or.inr (outflow_pos_of_in_edge hwf hf he hpos hxs)
      obtain ⟨t, hch, hlast⟩ := ih x hx (by omega)
      refine ⟨x :: t, ?_, ?_⟩
      · intro e hmem
        rw [walkEdges_cons_cons] at hmem
        rcases List.mem_cons.1 hmem with rfl | hmem
        · exact ⟨he, hpos⟩
        · exact hch e hmem
      · rw [List.getLast?_cons_cons]; exact hlast

end PosWalk

/-! ## peeling one path -/

/-- `φ` minus `m` times the indicator of the walk `l` -/
def peel (φ : Edge → Rat) (m : Rat) (l : List Node) : Edge → Rat :=
  fun e => φ e - m * cntR (walkEdges l) e

section Peel
variable {s : STGraph} {φ : Edge → Rat}

/-- on a positive walk every non-inner edge dominates some inner edge of the walk -/
theorem inner_below (hwf : STWF s) (hth : Thin s) (hf : FlowOn s φ) (p : List Node)
    (hw : ∀ e ∈ walkEdges (s.source :: p ++ [s.sink]), e ∈ s.g.edges ∧ 0 < φ e)
    (e : Edge) (he : e ∈ walkEdges (s.source :: p ++ [s.sink])) (hni : isInner s e = false) :
    ∃ e' ∈ walkEdges (s.source :: p ++ [s.sink]), isInner s e' = true ∧ φ e' ≤ φ e := by
  have hwalk : IsWalkIn s.g (s.source :: p ++ [s.sink]) := fun e he => (hw e he).1
  have hlast : (s.source :: p ++ [s.sink]).getLast? = some s.sink := by
    rw [show s.source :: p ++ [s.sink] = (s.source :: p) ++ [s.sink] from rfl]
    exact List.getLast?_concat
  have hhead : (s.source :: p ++ [s.sink]).head? = some s.source := rfl
  have hee := (hw e he).1
  have hpos := (hw e he).2
  by_cases h1 : e.1 = s.source
  · -- first edge (source, v): the next edge (v, x) is inner and carries at most as much
    have hv2 : e.2 ∈ (s.source :: p ++ [s.sink]) :=
      List.mem_of_mem_tail (snd_mem_of_mem_walkEdges _ e he)
    have hvne : e.2 ≠ s.sink := by
      intro h2
      apply hwf.noDirect
      have : e = (s.source, s.sink) := by rw [← h1, ← h2]
      rw [← this]; exact hee
    obtain ⟨x, hx⟩ := exists_walkEdge_from_p03 _ e.2 (mem_dropLast_of_ne_last _ _ _ hv2 hlast hvne)
    have hxe := (hw _ hx).1
    have hsv : (s.source, e.2) ∈ s.g.edges := by
      have : e = (s.source, e.2) := by rw [← h1]
      rw [← this]; exact hee
    have hφe : φ e = φ (s.source, e.2) := by
      have : e = (s.source, e.2) := by rw [← h1]
      rw [← this]
    refine ⟨(e.2, x), hx, ?_, ?_⟩
    · have hxs : x ≠ s.sink := by
        intro hxs
        rw [hxs] at hxe
        have := hf.s3 e.2 hsv hxe
        rw [← hφe] at this
        rw [this] at hpos
        exact absurd hpos (by decide)
      have hvs : e.2 ≠ s.source := hwf.srcNoIn _ hee
      simp [isInner, hvs, hxs]
    · -- φ (v,x) ≤ outflow v = inflow v ≤ φ (source, v)
      have hout := le_sum_of_mem (s.g.edges.filter (fun e' : Edge => e'.1 = e.2)) φ
        (fun e' he' => hf.nonneg e' (List.mem_filter.1 he').1) (e.2, x) (List.mem_filter.2 ⟨hxe, by simp⟩)
      have hin := sum_le_of_all_eq (s.g.edges.filter (fun e' : Edge => e'.2 = e.2))
        (hwf.edgesNodup.sublist List.filter_sublist) φ (s.source, e.2) (hf.nonneg _ hsv)
        (fun e' he' => by
          have hm := List.mem_filter.1 he'
          have h2 : e'.2 = e.2 := by simpa using hm.2
          have hm1 : (e'.1, e.2) ∈ s.g.edges := by rw [← h2]; exact hm.1
          have := hth.s1 e.2 hsv e'.1 hm1
          rw [← this, ← h2])
      have hc := hf.cons e.2 (hwf.closed _ hee).2 (hwf.srcNoIn _ hee) hvne
      unfold inflow outflow at hc
      rw [hφe]
      grind
  · -- then e.2 = sink: last edge (z, sink); the previous edge (y, z) is inner
    have h2 : e.2 = s.sink := by
      simp [isInner, h1] at hni
      exact hni
    have hz : e.1 ∈ (s.source :: p ++ [s.sink]).tail := by
      have hmem : e.1 ∈ (s.source :: p ++ [s.sink]) :=
        List.dropLast_subset _ (fst_mem_of_mem_walkEdges _ e he)
      rcases List.mem_cons.1 (by simpa using hmem : e.1 ∈ s.source :: (p ++ [s.sink])) with h | h
      · exact absurd h h1
      · exact h
    obtain ⟨y, hy⟩ := exists_walkEdge_into _ e.1 hz
    have hye := (hw _ hy).1
    have hzs : (e.1, s.sink) ∈ s.g.edges := by
      have : e = (e.1, s.sink) := by rw [← h2]
      rw [← this]; exact hee
    have hφe : φ e = φ (e.1, s.sink) := by
      have : e = (e.1, s.sink) := by rw [← h2]
      rw [← this]
    have hzne : e.1 ≠ s.sink := hwf.snkNoOut _ hee
    refine ⟨(y, e.1), hy, ?_, ?_⟩
    · have hys : y ≠ s.source := by
        intro hys
        rw [hys] at hye
        have h0 := hf.s3 e.1 hye hzs
        have hp := (hw _ hy).2
        rw [hys, h0] at hp
        exact absurd hp (by decide)
      simp [isInner, hys, hzne]
    · have hin := le_sum_of_mem (s.g.edges.filter (fun e' : Edge => e'.2 = e.1)) φ
        (fun e' he' => hf.nonneg e' (List.mem_filter.1 he').1) (y, e.1) (List.mem_filter.2 ⟨hye, by simp⟩)
      have hout := sum_le_of_all_eq (s.g.edges.filter (fun e' : Edge => e'.1 = e.1))
        (hwf.edgesNodup.sublist List.filter_sublist) φ (e.1, s.sink) (hf.nonneg _ hzs)
        (fun e' he' => by
          have hm := List.mem_filter.1 he'
          have h1' : e'.1 = e.1 := by simpa using hm.2
          have hm1 : (e.1, e'.2) ∈ s.g.edges := by rw [← h1']; exact hm.1
          have := hth.s2 e.1 hzs e'.2 hm1
          rw [← this, ← h1'])
      have hc := hf.cons e.1 (hwf.closed _ hee).1 h1 hzne
      unfold inflow outflow at hc
      rw [hφe]
      grind

theorem peel_flowOn (hwf : STWF s) (hf : FlowOn s φ) (p : List Node) (m : Rat) (hm0 : 0 ≤ m)
    (hw : IsWalkIn s.g (s.source :: p ++ [s.sink]))
    (hmin : ∀ e ∈ walkEdges (s.source :: p ++ [s.sink]), m ≤ φ e) :
    FlowOn s (peel φ m (s.source :: p ++ [s.sink])) := by
  have hnd := stwalk_nodup_p03 hwf hw
  have hPnd := walkEdges_nodup _ hnd
  have hnn : ∀ e ∈ s.g.edges, 0 ≤ peel φ m (s.source :: p ++ [s.sink]) e := by
    intro e he
    unfold peel
    by_cases hmem : e ∈ walkEdges (s.source :: p ++ [s.sink])
    · rw [cntR_mem _ hPnd e hmem]; have := hmin e hmem; grind
    · rw [cntR_not_mem _ e hmem]; have := hf.nonneg e he; grind
  have hle : ∀ e, peel φ m (s.source :: p ++ [s.sink]) e ≤ φ e := by
    intro e
    unfold peel
    by_cases hmem : e ∈ walkEdges (s.source :: p ++ [s.sink])
    · rw [cntR_mem _ hPnd e hmem]; grind
    · rw [cntR_not_mem _ e hmem]; grind
  refine ⟨hnn, ?_, ?_⟩
  · intro v hv h1 h2
    have hfun : peel φ m (s.source :: p ++ [s.sink])
        = fun e => φ e - m * cntR (walkEdges (s.source :: p ++ [s.sink])) e := rfl
    unfold inflow outflow
    rw [hfun, sum_map_sub, sum_map_sub, sum_map_mul_left_p03, sum_map_mul_left_p03]
    have hc := hf.cons v hv h1 h2
    unfold inflow outflow at hc
    rw [hc]
    have h2' := inflow_cntR s.g hwf.edgesNodup _ hw v
    have h3' := outflow_cntR s.g hwf.edgesNodup _ hw v
    unfold inflow at h2'
    unfold outflow at h3'
    rw [h2', h3', heads_walkEdges, tails_walkEdges, occR_inner p _ _ _ h1 h2]
  · intro v hsv hvs
    have h0 := hf.s3 v hsv hvs
    have h1 := hnn _ hsv
    have h2 := hle (s.source, v)
    grind

end Peel

/-! ## the decomposition theorem -/

theorem flow_decomp_general (s : STGraph) (hwf : STWF s) (hth : Thin s) (isInt : Bool) :
    ∀ (n : Nat) (φ : Edge → Rat), posInner s φ ≤ n → FlowOn s φ →
      (isInt = true → ∀ e ∈ s.g.edges, ∃ z : Int, φ e = z) →
      ∃ D : List (List Node × Rat), D.length ≤ posInner s φ ∧
        (∀ d ∈ D, IsWalkIn s.g (s.source :: d.1 ++ [s.sink]) ∧ 0 < d.2 ∧
          (isInt = true → ∃ z : Int, d.2 = z)) ∧
        ExplainsL s D φ := by
  obtain ⟨rank, hr⟩ := hwf.acyclic
  intro n
  induction n with
  | zero =>
    intro φ hn hf _
    -- no inner edge is positive: then nothing flows at all
    by_cases hsrc : 0 < outflow s.g φ s.source
    · exfalso
      have hfuel : above s rank s.source < s.g.nodes.length + 1 := by
        have : above s rank s.source ≤ s.g.nodes.length := List.countP_le_length
        omega
      obtain ⟨t, hch, hlast⟩ := pos_walk hwf hf rank hr _ s.source (Or.inr hsrc) hfuel
      have htne : t ≠ [] := by
        intro h; rw [h] at hlast; simp at hlast; exact hwf.ne hlast
      have hlast' : t.getLast? = some s.sink := by
        cases t with
        | nil => exact absurd rfl htne
        | cons b t' => rwa [List.getLast?_cons_cons] at hlast
      have hsplit := split_last t s.sink hlast'
      have hL : s.source :: t.dropLast ++ [s.sink] = s.source :: t := by
        rw [List.cons_append, ← hsplit]
      rw [← hL] at hch
      -- the first edge of the walk
      have hne1 : walkEdges (s.source :: t.dropLast ++ [s.sink]) ≠ [] := by
        cases hd : t.dropLast with
        | nil => simp [walkEdges]
        | cons a r => simp [walkEdges]
      obtain ⟨e0, he0⟩ := List.exists_mem_of_ne_nil _ hne1
      have hin : ∃ e' ∈ walkEdges (s.source :: t.dropLast ++ [s.sink]), isInner s e' = true := by
        by_cases hi : isInner s e0 = true
        · exact ⟨e0, he0, hi⟩
        · obtain ⟨e', he', hi', _⟩ := inner_below hwf hth hf _ hch e0 he0 (by simpa using hi)
          exact ⟨e', he', hi'⟩
      obtain ⟨e', he', hi'⟩ := hin
      have hpos : 0 < posInner s φ := by
        unfold posInner
        apply List.countP_pos_iff.2
        exact ⟨e', (hch e' he').1, by simp [hi', (hch e' he').2]⟩
      omega
    · have hzero : outflow s.g φ s.source = 0 := by
        have hnn := sum_map_nonneg (s.g.edges.filter (fun e : Edge => e.1 = s.source)) φ
          (fun e he => hf.nonneg e (List.mem_filter.1 he).1)
        unfold outflow at hsrc ⊢
        grind
      have hall := flow_zero s.g rank hr s.source φ hf.nonneg
        (fun e he hs => hf.cons e.1 (hwf.closed e he).1 hs (hwf.snkNoOut e he)) hzero
      refine ⟨[], Nat.zero_le _, fun d hd => (by cases hd), fun e he => ?_⟩
      simp [hall e he]
  | succ n ih =>
    intro φ hn hf hint
    by_cases hsrc : 0 < outflow s.g φ s.source
    · have hfuel : above s rank s.source < s.g.nodes.length + 1 := by
        have : above s rank s.source ≤ s.g.nodes.length := List.countP_le_length
        omega
      obtain ⟨t, hch, hlast⟩ := pos_walk hwf hf rank hr _ s.source (Or.inr hsrc) hfuel
      have htne : t ≠ [] := by
        intro h; rw [h] at hlast; simp at hlast; exact hwf.ne hlast
      have hlast' : t.getLast? = some s.sink := by
        cases t with
        | nil => exact absurd rfl htne
        | cons b t' => rwa [List.getLast?_cons_cons] at hlast
      have hsplit := split_last t s.sink hlast'
      have hL : s.source :: t.dropLast ++ [s.sink] = s.source :: t := by
        rw [List.cons_append, ← hsplit]
      rw [← hL] at hch
      generalize t.dropLast = p at hch
      have hw : IsWalkIn s.g (s.source :: p ++ [s.sink]) := fun e he => (hch e he).1
      have hnd := stwalk_nodup_p03 hwf hw
      have hPnd := walkEdges_nodup _ hnd
      -- the cheapest inner edge of the walk
      have hne1 : walkEdges (s.source :: p ++ [s.sink]) ≠ [] := by
        cases p with
        | nil => simp [walkEdges]
        | cons a r => simp [walkEdges]
      obtain ⟨e0, he0⟩ := List.exists_mem_of_ne_nil _ hne1
      have hinne : (walkEdges (s.source :: p ++ [s.sink])).filter (isInner s) ≠ [] := by
        by_cases hi : isInner s e0 = true
        · exact List.ne_nil_of_mem (List.mem_filter.2 ⟨he0, hi⟩)
        · obtain ⟨e', he', hi', _⟩ := inner_below hwf hth hf _ hch e0 he0 (by simpa using hi)
          exact List.ne_nil_of_mem (List.mem_filter.2 ⟨he', hi'⟩)
      obtain ⟨em, hem, hmin⟩ := exists_min _ φ hinne
      have hemw := (List.mem_filter.1 hem).1
      have hemi := (List.mem_filter.1 hem).2
      have hmpos : 0 < φ em := (hch em hemw).2
      have hminall : ∀ e ∈ walkEdges (s.source :: p ++ [s.sink]), φ em ≤ φ e := by
        intro e he
        by_cases hi : isInner s e = true
        · exact hmin e (List.mem_filter.2 ⟨he, hi⟩)
        · obtain ⟨e', he', hi', hle⟩ := inner_below hwf hth hf _ hch e he (by simpa using hi)
          exact Rat.le_trans (hmin e' (List.mem_filter.2 ⟨he', hi'⟩)) hle
      have hf' := peel_flowOn hwf hf p (φ em) (by grind) hw hminall
      -- fewer positive inner edges
      have hlt : posInner s (peel φ (φ em) (s.source :: p ++ [s.sink])) < posInner s φ := by
        unfold posInner
        apply countP_lt _ _ _ _ em (hch em hemw).1
        · simp [hemi, hmpos]
        · have h0 : peel φ (φ em) (s.source :: p ++ [s.sink]) em = 0 := by
            unfold peel; rw [cntR_mem _ hPnd em hemw]; grind
          intro hb
          simp only [Bool.and_eq_true, decide_eq_true_eq] at hb
          have := hb.1
          rw [h0] at this
          exact absurd this (by decide)
        · intro e _ he
          have hb : (decide (0 < peel φ (φ em) (s.source :: p ++ [s.sink]) e) && isInner s e) = true := he
          simp only [Bool.and_eq_true, decide_eq_true_eq] at hb
          have h1 : 0 < peel φ (φ em) (s.source :: p ++ [s.sink]) e := hb.1
          have h2 : isInner s e = true := hb.2
          have hle : peel φ (φ em) (s.source :: p ++ [s.sink]) e ≤ φ e := by
            unfold peel
            by_cases hmem : e ∈ walkEdges (s.source :: p ++ [s.sink])
            · rw [cntR_mem _ hPnd e hmem]; grind
            · rw [cntR_not_mem _ e hmem]; grind
          have : 0 < φ e := by grind
          simp [this, h2]
      have hint' : isInt = true → ∀ e ∈ s.g.edges, ∃ z : Int, peel φ (φ em) (s.source :: p ++ [s.sink]) e = z := by
        intro hI e he
        obtain ⟨z1, hz1⟩ := hint hI e he
        obtain ⟨z2, hz2⟩ := hint hI em (hch em hemw).1
        unfold peel
        by_cases hmem : e ∈ walkEdges (s.source :: p ++ [s.sink])
        · rw [cntR_mem _ hPnd e hmem, hz1, hz2]
          exact ⟨z1 - z2, by simp [Rat.intCast_sub]⟩
        · rw [cntR_not_mem _ e hmem, hz1]
          exact ⟨z1, by simp [Rat.mul_zero, Rat.sub_eq_add_neg, Rat.add_zero]⟩
      obtain ⟨D', hlen, hD', hex⟩ := ih _ (by omega) hf' hint'
      refine ⟨(p, φ em) :: D', by simp only [List.length_cons]; omega, ?_, ?_⟩
      · intro d hd
        rcases List.mem_cons.1 hd with rfl | hd
        · exact ⟨hw, hmpos, fun hI => hint hI em (hch em hemw).1⟩
        · exact hD' d hd
      · intro e he
        simp only [List.map_cons, List.sum_cons]
        rw [hex e he, trav_eq_cntR_p03]
        unfold peel
        grind
    · have hzero : outflow s.g φ s.source = 0 := by
        have hnn := sum_map_nonneg (s.g.edges.filter (fun e : Edge => e.1 = s.source)) φ
          (fun e he => hf.nonneg e (List.mem_filter.1 he).1)
        unfold outflow at hsrc ⊢
        grind
      have hall := flow_zero s.g rank hr s.source φ hf.nonneg
        (fun e he hs => hf.cons e.1 (hwf.closed e he).1 hs (hwf.snkNoOut e he)) hzero
      refine ⟨[], Nat.zero_le _, fun d hd => (by cases hd), fun e he => ?_⟩
      simp [hall e he]

/-! ## from weighted path lists to `HasDecomp` -/

theorem map_range_getD {α β} (l : List α) (d : α) (g : α → β) :
    (List.range l.length).map (fun i => g (l.getD i d)) = l.map g := by
  apply List.ext_getElem
  · simp
  · intro i h1 h2
    have hi : i < l.length := by simpa using h1
    simp [List.getD_eq_getElem?_getD, List.getElem?_eq_getElem hi]

theorem posInner_le (s : STGraph) (φ : Edge → Rat) :
    posInner s φ ≤ (s.g.edges.filter (isInner s)).length := by
  unfold posInner
  rw [← List.countP_eq_length_filter]
  apply List.countP_mono_left
  intro e _ h
  simp only [Bool.and_eq_true] at h
  exact h.2

/-- **flow decomposition, specification level.** If the flow values of `inp` extend to a non-negative
flow on the augmented DAG that is conserved at every node of the user's graph (isolated nodes carrying
nothing), then a decomposition into at most `|E|` weighted paths exists (no subpath constraints; ignored
edges allowed — the extension fixes some value on them). -/
theorem hasDecomp_of_flow (inp : FlowInput) (h : BaseWF inp.base) (hac : Acyclic inp.base)
    (hth : Thin inp.st) (hnocons : inp.cfg.constraints = [])
    (φ : Edge → Rat) (hf : FlowOn inp.st φ) (hagree : ∀ e ∈ inp.activeEdges, φ e = inp.f e)
    (hint : inp.weightInt = true → ∀ e ∈ inp.st.g.edges, ∃ z : Int, φ e = z)
    (hinner : ∀ e ∈ inp.st.g.edges, isInner inp.st e = true → e ∈ inp.base.edges) :
    ∃ k, k ≤ inp.base.edges.length ∧ HasDecomp inp k := by
  have hwf : STWF inp.st := augment_wf inp.base inp.starts inp.ends h hac
  obtain ⟨D, hlen, hD, hex⟩ := flow_decomp_general inp.st hwf hth inp.weightInt _ φ (Nat.le_refl _) hf hint
  have hbound : D.length ≤ inp.base.edges.length := by
    have h1 := posInner_le inp.st φ
    have h2 : (inp.st.g.edges.filter (isInner inp.st)).length ≤ inp.base.edges.length := by
      apply (hwf.edgesNodup.sublist List.filter_sublist).length_le_of_subset
      intro e he
      have hm := List.mem_filter.1 he
      exact hinner e hm.1 hm.2
    omega
  refine ⟨D.length, hbound, ?_⟩
  apply decomp_bound_wlog_proof
  refine ⟨fun i => (D.getD i ([], 0)).1, fun i => (D.getD i ([], 0)).2, ⟨?_, ?_, ?_, ?_, ?_⟩⟩
  · intro i hi
    have hmem : D.getD i ([], 0) ∈ D := by
      rw [List.getD_eq_getElem?_getD, List.getElem?_eq_getElem hi]; simp
    exact (hD _ hmem).1
  · intro i hi
    have hmem : D.getD i ([], 0) ∈ D := by
      rw [List.getD_eq_getElem?_getD, List.getElem?_eq_getElem hi]; simp
    have := (hD _ hmem).2.1
    grind
  · intro hI i hi
    have hmem : D.getD i ([], 0) ∈ D := by
      rw [List.getD_eq_getElem?_getD, List.getElem?_eq_getElem hi]; simp
    exact (hD _ hmem).2.2 hI
  · intro e he
    rw [← hagree e he, ← hex e (mem_activeEdges inp e he)]
    exact congrArg List.sum (map_range_getD D ([], 0)
      (fun d => d.2 * ((traversals (inp.st.source :: d.1 ++ [inp.st.sink]) e : Nat) : Rat)))
  · intro con hcon
    rw [hnocons] at hcon; cases hcon

/-- a least element below a witness -/
theorem exists_least (Q : Nat → Prop) : ∀ k, Q k → ∃ m, m ≤ k ∧ Q m ∧ ∀ j, j < m → ¬ Q j := by
  intro k
  induction k using Nat.strongRecOn with
  | _ k ih =>
    intro hk
    by_cases hall : ∀ j, j < k → ¬ Q j
    · exact ⟨k, Nat.le_refl _, hk, hall⟩
    · have : ∃ j, j < k ∧ Q j := by
        apply Classical.byContradiction
        intro hn
        apply hall
        intro j hj hq
        exact hn ⟨j, hj, hq⟩
      obtain ⟨j, hj, hq⟩ := this
      obtain ⟨m, hm, hqm, hmin⟩ := ih j hj hq
      exact ⟨m, by omega, hqm, hmin⟩

/-! ## the user's flow on the augmented graph -/

theorem perm_sum {l1 l2 : List Rat} (h : l1.Perm l2) : l1.sum = l2.sum := by
  induction h with
  | nil => rfl
  | cons x _ ih => simp [ih]
  | swap x y l => simp only [List.sum_cons]; grind
  | trans _ _ ih1 ih2 => exact ih1.trans ih2

theorem sum_filter_split_p03 {α} (l : List α) (y : α → Rat) (c : α → Bool) :
    (l.map y).sum = ((l.filter c).map y).sum + ((l.filter (fun e => !c e)).map y).sum := by
  induction l with
  | nil => simp [Rat.add_zero]
  | cons x xs ih =>
    by_cases hc : c x = true
    · simp only [List.map_cons, List.sum_cons, List.filter_cons, hc, if_true, Bool.not_true,
        Bool.false_eq_true, if_false, ih]; grind
    · have hc' : c x = false := by simpa using hc
      simp only [List.map_cons, List.sum_cons, List.filter_cons, hc', Bool.false_eq_true, if_false,
        Bool.not_false, if_true, ih]; grind

theorem sum_of_all_eq {α} [DecidableEq α] (l : List α) (hnd : l.Nodup) (f : α → Rat) (a : α)
    (hall : ∀ x ∈ l, x = a) : (l.map f).sum = if a ∈ l then f a else 0 := by
  cases l with
  | nil => simp
  | cons x xs =>
    have hx : x = a := hall x (by simp)
    cases xs with
    | nil => subst hx; simp [Rat.add_zero]
    | cons y ys =>
      have hy : y = a := hall y (by simp)
      have := (List.nodup_cons.1 hnd).1
      rw [hx, hy] at this
      exact absurd (by simp) this

/-- the user's flow extended to the synthetic edges: what leaves a source node enters it from the
synthetic source, what enters a sink node leaves it to the synthetic sink -/
def extFlow (inp : FlowInput) : Edge → Rat := fun e =>
  if e.1 = srcName then outflow inp.base inp.f e.2
  else if e.2 = snkName then inflow inp.base inp.f e.1
  else inp.f e

/-- a non-negative flow on the user's DAG, conserved at every node that has both in- and out-edges;
no additional starts/ends (the edge-weighted `MinFlowDecomp`) -/
structure ConservingInput (inp : FlowInput) : Prop where
  noStarts : inp.starts = []
  noEnds : inp.ends = []
  nonneg : ∀ e ∈ inp.base.edges, 0 ≤ inp.f e
  cons : ∀ v ∈ inp.base.nodes, inp.base.pred v ≠ [] → inp.base.succ v ≠ [] →
    inflow inp.base inp.f v = outflow inp.base inp.f v

section Ext
variable {inp : FlowInput} (h : BaseWF inp.base)
include h

theorem st_mem_edges (e : Edge) :
    e ∈ inp.st.g.edges ↔ e ∈ inp.base.edges ∨
      (e.1 = srcName ∧ e.2 ∈ inp.base.nodes ∧ (inp.base.pred e.2 = [] ∨ e.2 ∈ inp.starts)) ∨
      (e.2 = snkName ∧ e.1 ∈ inp.base.nodes ∧ (inp.base.succ e.1 = [] ∨ e.1 ∈ inp.ends)) :=
  aug_mem_edges' h.closed

theorem base_edge_plain (e : Edge) (he : e ∈ inp.base.edges) : e.1 ≠ srcName ∧ e.2 ≠ snkName :=
  ⟨fun h1 => h.freshSrc (h1 ▸ (h.closed e he).1), fun h2 => h.freshSnk (h2 ▸ (h.closed e he).2)⟩

theorem extFlow_base (e : Edge) (he : e ∈ inp.base.edges) : extFlow inp e = inp.f e := by
  have := base_edge_plain h e he
  simp [extFlow, this.1, this.2]

theorem inner_is_base (e : Edge) (he : e ∈ inp.st.g.edges) (hi : isInner inp.st e = true) :
    e ∈ inp.base.edges := by
  have hs : inp.st.source = srcName := rfl
  have ht : inp.st.sink = snkName := rfl
  simp only [isInner, hs, ht, Bool.and_eq_true, decide_eq_true_eq] at hi
  rcases (st_mem_edges h e).1 he with hb | ⟨h1, _⟩ | ⟨h2, _⟩
  · exact hb
  · exact absurd h1 hi.1
  · exact absurd h2 hi.2

theorem thin_st (hs : inp.starts = []) (hen : inp.ends = []) : Thin inp.st := by
  have hsrc : inp.st.source = srcName := rfl
  have hsnk : inp.st.sink = snkName := rfl
  constructor
  · intro v hsv u huv
    rw [hsrc] at hsv ⊢
    rcases (st_mem_edges h _).1 hsv with hb | ⟨_, _, hp⟩ | ⟨h2, h1, _⟩
    · exact absurd (h.closed _ hb).1 h.freshSrc
    · have hpred : inp.base.pred v = [] := by
        rcases hp with hp | hp
        · exact hp
        · rw [hs] at hp; cases hp
      rcases (st_mem_edges h _).1 huv with hb | ⟨h1, _⟩ | ⟨h2, h1, _⟩
      · have : u ∈ inp.base.pred v := mem_pred.2 hb
        rw [hpred] at this; cases this
      · exact h1
      · have hv : v = snkName := h2
        exact absurd (hv ▸ (by assumption : v ∈ inp.base.nodes)) h.freshSnk
    · exact absurd h1 h.freshSrc
  · intro v hvs x hvx
    rw [hsnk] at hvs ⊢
    rcases (st_mem_edges h _).1 hvs with hb | ⟨h1, h2, _⟩ | ⟨_, _, hp⟩
    · exact absurd (h.closed _ hb).2 h.freshSnk
    · exact absurd h2 h.freshSnk
    · have hsucc : inp.base.succ v = [] := by
        rcases hp with hp | hp
        · exact hp
        · rw [hen] at hp; cases hp
      rcases (st_mem_edges h _).1 hvx with hb | ⟨h1, h2, _⟩ | ⟨h2, _⟩
      · have : x ∈ inp.base.succ v := mem_succ.2 hb
        rw [hsucc] at this; cases this
      · have hv : v = srcName := h1
        have hvn : v ∈ inp.base.nodes := by
          rcases (st_mem_edges h _).1 hvs with hb | ⟨h1', h2', _⟩ | ⟨_, h1', _⟩
          · exact (h.closed _ hb).1
          · exact absurd h2' h.freshSnk
          · exact h1'
        exact absurd (hv ▸ hvn) h.freshSrc
      · exact h2

/-- in-flow at a node of the user's graph, in the augmented graph -/
theorem inflow_ext (hac : Acyclic inp.base) (hs : inp.starts = []) (v : Node) (hv : v ∈ inp.base.nodes) :
    inflow inp.st.g (extFlow inp) v
      = inflow inp.base inp.f v + (if inp.base.pred v = [] then outflow inp.base inp.f v else 0) := by
  have hwf : STWF inp.st := augment_wf inp.base inp.starts inp.ends h hac
  unfold inflow
  rw [sum_filter_split_p03 (inp.st.g.edges.filter (fun e : Edge => e.2 = v)) (extFlow inp)
    (fun e => decide (e ∈ inp.base.edges))]
  congr 1
  · -- the part made of edges of the user's graph
    have hnd1 : ((inp.st.g.edges.filter (fun e : Edge => e.2 = v)).filter
        (fun e => decide (e ∈ inp.base.edges))).Nodup :=
      (hwf.edgesNodup.sublist List.filter_sublist).sublist List.filter_sublist
    have hnd2 : (inp.base.edges.filter (fun e : Edge => e.2 = v)).Nodup :=
      h.edgesNodup.sublist List.filter_sublist
    have hperm := (List.perm_ext_iff_of_nodup hnd1 hnd2).2 (by
      intro e
      simp only [List.mem_filter, decide_eq_true_eq]
      constructor
      · rintro ⟨⟨_, h2⟩, hb⟩; exact ⟨hb, h2⟩
      · rintro ⟨hb, h2⟩; exact ⟨⟨(st_mem_edges h e).2 (Or.inl hb), h2⟩, hb⟩)
    rw [perm_sum (hperm.map (extFlow inp))]
    apply sum_map_congr
    intro e he
    exact extFlow_base h e (List.mem_filter.1 he).1
  · -- the synthetic part: at most the edge from the source
    have hnd1 : ((inp.st.g.edges.filter (fun e : Edge => e.2 = v)).filter
        (fun e => !decide (e ∈ inp.base.edges))).Nodup :=
      (hwf.edgesNodup.sublist List.filter_sublist).sublist List.filter_sublist
    have hvs : v ≠ snkName := fun hv' => h.freshSnk (hv' ▸ hv)
    rw [sum_of_all_eq _ hnd1 (extFlow inp) (srcName, v) (by
      intro e he
      simp only [List.mem_filter, decide_eq_true_eq, Bool.not_eq_eq_eq_not, Bool.not_true,
        decide_eq_false_iff_not] at he
      obtain ⟨⟨hm, h2⟩, hnb⟩ := he
      rcases (st_mem_edges h e).1 hm with hb | ⟨h1, _⟩ | ⟨h2', _⟩
      · exact absurd hb hnb
      · rw [← h1, ← h2]
      · exact absurd (h2 ▸ h2') hvs)]
    have hiff : (srcName, v) ∈ (inp.st.g.edges.filter (fun e : Edge => e.2 = v)).filter
        (fun e => !decide (e ∈ inp.base.edges)) ↔ inp.base.pred v = [] := by
      simp only [List.mem_filter, decide_eq_true_eq, Bool.not_eq_eq_eq_not, Bool.not_true,
        decide_eq_false_iff_not]
      constructor
      · rintro ⟨⟨hm, _⟩, _⟩
        rcases (st_mem_edges h _).1 hm with hb | ⟨_, _, hp⟩ | ⟨h2', _⟩
        · exact absurd (h.closed _ hb).1 h.freshSrc
        · rcases hp with hp | hp
          · exact hp
          · rw [hs] at hp; cases hp
        · exact absurd h2' hvs
      · intro hp
        refine ⟨⟨(st_mem_edges h _).2 (Or.inr (Or.inl ⟨rfl, hv, Or.inl hp⟩)), trivial⟩, ?_⟩
        intro hb
        exact h.freshSrc (h.closed _ hb).1
    by_cases hp : inp.base.pred v = []
    · simp only [hiff.2 hp, hp, if_true]
      simp [extFlow]
    · have : ¬ (srcName, v) ∈ (inp.st.g.edges.filter (fun e : Edge => e.2 = v)).filter
          (fun e => !decide (e ∈ inp.base.edges)) := fun hm => hp (hiff.1 hm)
      simp only [this, hp, if_false]

/-- out-flow at a node of the user's graph, in the augmented graph -/
theorem outflow_ext (hac : Acyclic inp.base) (hen : inp.ends = []) (v : Node) (hv : v ∈ inp.base.nodes) :
    outflow inp.st.g (extFlow inp) v
      = outflow inp.base inp.f v + (if inp.base.succ v = [] then inflow inp.base inp.f v else 0) := by
  have hwf : STWF inp.st := augment_wf inp.base inp.starts inp.ends h hac
  unfold outflow
  rw [sum_filter_split_p03 (inp.st.g.edges.filter (fun e : Edge => e.1 = v)) (extFlow inp)
    (fun e => decide (e ∈ inp.base.edges))]
  congr 1
  · have hnd1 : ((inp.st.g.edges.filter (fun e : Edge => e.1 = v)).filter
        (fun e => decide (e ∈ inp.base.edges))).Nodup :=
      (hwf.edgesNodup.sublist List.filter_sublist).sublist List.filter_sublist
    have hnd2 : (inp.base.edges.filter (fun e : Edge => e.1 = v)).Nodup :=
      h.edgesNodup.sublist List.filter_sublist
    have hperm := (List.perm_ext_iff_of_nodup hnd1 hnd2).2 (by
      intro e
      simp only [List.mem_filter, decide_eq_true_eq]
      constructor
      · rintro ⟨⟨_, h2⟩, hb⟩; exact ⟨hb, h2⟩
      · rintro ⟨hb, h2⟩; exact ⟨⟨(st_mem_edges h e).2 (Or.inl hb), h2⟩, hb⟩)
    rw [perm_sum (hperm.map (extFlow inp))]
    apply sum_map_congr
    intro e he
    exact extFlow_base h e (List.mem_filter.1 he).1
  · have hnd1 : ((inp.st.g.edges.filter (fun e : Edge => e.1 = v)).filter
        (fun e => !decide (e ∈ inp.base.edges))).Nodup :=
      (hwf.edgesNodup.sublist List.filter_sublist).sublist List.filter_sublist
    have hvs : v ≠ srcName := fun hv' => h.freshSrc (hv' ▸ hv)
    rw [sum_of_all_eq _ hnd1 (extFlow inp) (v, snkName) (by
      intro e he
      simp only [List.mem_filter, decide_eq_true_eq, Bool.not_eq_eq_eq_not, Bool.not_true,
        decide_eq_false_iff_not] at he
      obtain ⟨⟨hm, h1⟩, hnb⟩ := he
      rcases (st_mem_edges h e).1 hm with hb | ⟨h1', _⟩ | ⟨h2, _⟩
      · exact absurd hb hnb
      · exact absurd (h1 ▸ h1') hvs
      · rw [← h1, ← h2])]
    have hiff : (v, snkName) ∈ (inp.st.g.edges.filter (fun e : Edge => e.1 = v)).filter
        (fun e => !decide (e ∈ inp.base.edges)) ↔ inp.base.succ v = [] := by
      simp only [List.mem_filter, decide_eq_true_eq, Bool.not_eq_eq_eq_not, Bool.not_true,
        decide_eq_false_iff_not]
      constructor
      · rintro ⟨⟨hm, _⟩, _⟩
        rcases (st_mem_edges h _).1 hm with hb | ⟨h1', _⟩ | ⟨_, _, hp⟩
        · exact absurd (h.closed _ hb).2 h.freshSnk
        · exact absurd h1' hvs
        · rcases hp with hp | hp
          · exact hp
          · rw [hen] at hp; cases hp
      · intro hp
        refine ⟨⟨(st_mem_edges h _).2 (Or.inr (Or.inr ⟨rfl, hv, Or.inl hp⟩)), trivial⟩, ?_⟩
        intro hb
        exact h.freshSnk (h.closed _ hb).2
    by_cases hp : inp.base.succ v = []
    · simp only [hiff.2 hp, hp, if_true]
      simp [extFlow, hvs]
    · have : ¬ (v, snkName) ∈ (inp.st.g.edges.filter (fun e : Edge => e.1 = v)).filter
          (fun e => !decide (e ∈ inp.base.edges)) := fun hm => hp (hiff.1 hm)
      simp only [this, hp, if_false]

theorem inflow_zero_of_no_pred (v : Node) (hp : inp.base.pred v = []) : inflow inp.base inp.f v = 0 := by
  have _ := h
  apply sum_map_zero
  intro e he
  have hm := List.mem_filter.1 he
  have h2 : e.2 = v := by simpa using hm.2
  have : e.1 ∈ inp.base.pred v := mem_pred.2 (by rw [← h2]; exact hm.1)
  rw [hp] at this; cases this

theorem outflow_zero_of_no_succ (v : Node) (hp : inp.base.succ v = []) : outflow inp.base inp.f v = 0 := by
  have _ := h
  apply sum_map_zero
  intro e he
  have hm := List.mem_filter.1 he
  have h1 : e.1 = v := by simpa using hm.2
  have : e.2 ∈ inp.base.succ v := mem_succ.2 (by rw [← h1]; exact hm.1)
  rw [hp] at this; cases this

theorem flowOn_ext (hac : Acyclic inp.base) (hci : ConservingInput inp) : FlowOn inp.st (extFlow inp) := by
  have hsrc : inp.st.source = srcName := rfl
  have hsnk : inp.st.sink = snkName := rfl
  have hin_nn : ∀ v, 0 ≤ inflow inp.base inp.f v := fun v =>
    sum_map_nonneg _ _ (fun e he => hci.nonneg e (List.mem_filter.1 he).1)
  have hout_nn : ∀ v, 0 ≤ outflow inp.base inp.f v := fun v =>
    sum_map_nonneg _ _ (fun e he => hci.nonneg e (List.mem_filter.1 he).1)
  refine ⟨?_, ?_, ?_⟩
  · intro e he
    rcases (st_mem_edges h e).1 he with hb | ⟨h1, _⟩ | ⟨h2, h1, _⟩
    · rw [extFlow_base h e hb]; exact hci.nonneg e hb
    · simp only [extFlow, h1, if_true]; exact hout_nn _
    · have hne : e.1 ≠ srcName := fun h' => h.freshSrc (h' ▸ h1)
      simp only [extFlow, hne, h2, if_true, if_false]; exact hin_nn _
  · intro v hv h1 h2
    rw [hsrc] at h1
    rw [hsnk] at h2
    have hvb : v ∈ inp.base.nodes := by
      rcases (aug_mem_nodes (b := inp.base) (st := inp.starts) (en := inp.ends)).1 hv with hb | ⟨hb, _⟩ | ⟨hb, _⟩
      · exact hb
      · exact absurd hb h1
      · exact absurd hb h2
    rw [inflow_ext h hac hci.noStarts v hvb, outflow_ext h hac hci.noEnds v hvb]
    by_cases hp : inp.base.pred v = [] <;> by_cases hs : inp.base.succ v = []
    · simp only [hp, hs, if_true]
      rw [inflow_zero_of_no_pred h v hp, outflow_zero_of_no_succ h v hs]
    · simp only [hp, hs, if_true, if_false]
      rw [inflow_zero_of_no_pred h v hp]; grind
    · simp only [hp, hs, if_true, if_false]
      rw [outflow_zero_of_no_succ h v hs]; grind
    · simp only [hp, hs, if_false]
      rw [hci.cons v hvb hp hs]
  · intro v _ hvs
    rw [hsrc]
    rw [hsnk] at hvs
    have hsucc : inp.base.succ v = [] := by
      rcases (st_mem_edges h _).1 hvs with hb | ⟨_, h2, _⟩ | ⟨_, _, hp⟩
      · exact absurd (h.closed _ hb).2 h.freshSnk
      · exact absurd h2 h.freshSnk
      · rcases hp with hp | hp
        · exact hp
        · rw [hci.noEnds] at hp; cases hp
    simp only [extFlow, if_true]
    exact outflow_zero_of_no_succ h v hsucc

end Ext

theorem sum_int_p03 {α} (l : List α) (f : α → Rat) (hz : ∀ e ∈ l, ∃ z : Int, f e = z) :
    ∃ z : Int, (l.map f).sum = z := by
  induction l with
  | nil => exact ⟨0, by simp⟩
  | cons x xs ih =>
    obtain ⟨z1, h1⟩ := hz x (by simp)
    obtain ⟨z2, h2⟩ := ih (fun e he => hz e (by simp [he]))
    exact ⟨z1 + z2, by simp only [List.map_cons, List.sum_cons, h1, h2, Rat.intCast_add]⟩

/-- **the flow decomposition theorem for the input of `MinFlowDecomp` (edge weights).** A non-negative
conserving flow on a well-formed user DAG (no additional starts/ends, no subpath constraints) has a
decomposition into at most `|E|` weighted paths of the requested type, hence a minimum number of paths
`m ≤ |E|` exists — inside the search range `range(lb, |E| + 1)` whenever `lb ≤ m`. -/
theorem mfd_total_proof (inp : FlowInput) (h : BaseWF inp.base) (hac : Acyclic inp.base)
    (hci : ConservingInput inp) (hnocons : inp.cfg.constraints = [])
    (hint : inp.weightInt = true → ∀ e ∈ inp.base.edges, ∃ z : Int, inp.f e = z) :
    ∃ m, m ≤ inp.base.edges.length ∧ IsMinDecomp inp m := by
  have hf := flowOn_ext h hac hci
  have hth := thin_st h hci.noStarts hci.noEnds
  have hagree : ∀ e ∈ inp.activeEdges, extFlow inp e = inp.f e := by
    intro e he
    apply extFlow_base h
    have hm := List.mem_filter.1 he
    apply inner_is_base h e hm.1
    have hign : inp.ignored e = false := by simpa using hm.2
    unfold FlowInput.ignored at hign
    have hss : ¬ e ∈ inp.st.sourceSinkEdges := by
      intro hmem
      have : inp.st.sourceSinkEdges.contains e = true := by simpa using hmem
      rw [this] at hign; simp at hign
    unfold STGraph.sourceSinkEdges STGraph.sourceEdges STGraph.sinkEdges Graph.outEdges Graph.inEdges at hss
    simp only [isInner, Bool.and_eq_true, decide_eq_true_eq]
    constructor
    · intro h1
      exact hss (List.mem_append_left _ (List.mem_filter.2 ⟨hm.1, by simpa using h1⟩))
    · intro h2
      exact hss (List.mem_append_right _ (List.mem_filter.2 ⟨hm.1, by simpa using h2⟩))
  have hint' : inp.weightInt = true → ∀ e ∈ inp.st.g.edges, ∃ z : Int, extFlow inp e = z := by
    intro hI e he
    rcases (st_mem_edges h e).1 he with hb | ⟨h1, _⟩ | ⟨h2, h1, _⟩
    · rw [extFlow_base h e hb]; exact hint hI e hb
    · simp only [extFlow, h1, if_true]
      exact sum_int_p03 _ _ (fun e' he' => hint hI e' (List.mem_filter.1 he').1)
    · have hne : e.1 ≠ srcName := fun h' => h.freshSrc (h' ▸ h1)
      simp only [extFlow, hne, h2, if_true, if_false]
      exact sum_int_p03 _ _ (fun e' he' => hint hI e' (List.mem_filter.1 he').1)
  obtain ⟨k, hk, hd⟩ := hasDecomp_of_flow inp h hac hth hnocons (extFlow inp) hf hagree hint'
    (inner_is_base h)
  obtain ⟨m, hm, hqm, hmin⟩ := exists_least (HasDecomp inp) k hd
  exact ⟨m, by omega, hqm, hmin⟩

end FP
