import FP.Proofs.SafetyFlow
/-!
# FP.Proofs.SafetyExcess — the excess-flow lemma

In a flow decomposition (weighted walks that end in a node without out-edges and whose superposition is `f`)
the total weight of the walks that run through a window `W = v₁ … v_k`, counted with the number of times they
do so, is at least the excess flow of `W`: it is `f(v₁,v₂)` for `k = 2`, and extending the window by `y`
loses at most the weight that leaves its last node `u` through the other out-edges, `outflow(u) − f(u,y)`.
A window of positive excess flow is therefore traversed by some walk of every decomposition.

Occurrences are counted on the *reversed* walk (`occ`), so that an occurrence of the window is charged to the
edge that follows it.
-/
namespace FP.Safety
open FP FP.Spec

/-- number of positions at which `P` starts in `l` -/
def occ {V : Type} [DecidableEq V] (P : List V) : List V → Nat
  | [] => 0
  | x :: l => (if P <+: x :: l then 1 else 0) + occ P l

theorem occ_pos_infix {V : Type} [DecidableEq V] (P : List V) : ∀ l : List V, 0 < occ P l → P <:+: l := by
  intro l
  induction l with
  | nil => intro h; simp [occ] at h
  | cons x l ih =>
    intro h
    unfold occ at h
    by_cases hp : P <+: x :: l
    · exact hp.isInfix
    · rw [if_neg hp] at h
      exact (ih (by omega)).trans (List.suffix_cons x l).isInfix

theorem sum_indicator_ge {V : Type} [DecidableEq V] (L : List V) (c : V → Prop) [DecidablePred c] (z0 : V)
    (h0 : z0 ∈ L) (hc : c z0) : 1 ≤ (L.map fun z => if c z then 1 else 0).sum := by
  induction L with
  | nil => simp at h0
  | cons a L ih =>
    simp only [List.map_cons, List.sum_cons]
    rcases List.mem_cons.1 h0 with rfl | h0
    · rw [if_pos hc]; omega
    · have := ih h0; omega

theorem sum_map_add_nat {V : Type} (L : List V) (A B : V → Nat) :
    (L.map fun z => A z + B z).sum = (L.map A).sum + (L.map B).sum := by
  induction L with
  | nil => simp
  | cons a L ih => simp only [List.map_cons, List.sum_cons, ih]; omega

/-- the per-walk inequality on the reversed walk `x :: r` -/
theorem occ_step {V : Type} [DecidableEq V] (succs : List V) (u y : V) (Qr : List V) : ∀ (r : List V) (x : V),
    (∀ z, (z, u) ∈ walkEdges (x :: r) → z ∈ succs) →
    occ (u :: Qr) r ≤ occ (y :: u :: Qr) (x :: r) +
      ((succs.erase y).map fun z => (walkEdges (x :: r)).count (z, u)).sum := by
  intro r
  induction r with
  | nil => intro x _; simp [occ]
  | cons a l ih =>
    intro x hx
    have ih' := ih a (fun z hz => hx z (by rw [we_cons_cons]; exact List.mem_cons_of_mem _ hz))
    have hcount : ∀ z, (walkEdges (x :: a :: l)).count (z, u) =
        (if (x, a) = (z, u) then 1 else 0) + (walkEdges (a :: l)).count (z, u) := by
      intro z
      rw [we_cons_cons, List.count_cons]
      by_cases hq : (x, a) = (z, u)
      · simp [hq]; omega
      · have : ((x, a) == (z, u)) = false := by simpa using hq
        simp [this, hq]
    have hsum : ((succs.erase y).map fun z => (walkEdges (x :: a :: l)).count (z, u)).sum =
        ((succs.erase y).map fun z => if (x, a) = (z, u) then 1 else 0).sum +
        ((succs.erase y).map fun z => (walkEdges (a :: l)).count (z, u)).sum := by
      rw [← sum_map_add_nat]
      congr 1
      apply List.map_congr_left
      intro z _; exact hcount z
    have hhead : (if u :: Qr <+: a :: l then 1 else 0) ≤
        (if y :: u :: Qr <+: x :: a :: l then 1 else 0) +
        ((succs.erase y).map fun z => if (x, a) = (z, u) then 1 else 0).sum := by
      by_cases hp : u :: Qr <+: a :: l
      · rw [if_pos hp]
        have hau : a = u := by
          obtain ⟨t, ht⟩ := hp
          simp at ht; exact ht.1.symm
        subst hau
        have hxs : x ∈ succs := hx x (by rw [we_cons_cons]; simp)
        by_cases hxy : x = y
        · subst hxy
          have : x :: a :: Qr <+: x :: a :: l := by
            obtain ⟨t, ht⟩ := hp
            exact ⟨t, by simp at ht ⊢; exact ht⟩
          rw [if_pos this]; omega
        · have hmem : x ∈ succs.erase y := (List.mem_erase_of_ne hxy).2 hxs
          have := sum_indicator_ge (succs.erase y) (fun z => (x, a) = (z, a)) x hmem rfl
          omega
      · rw [if_neg hp]; omega
    show (if u :: Qr <+: a :: l then 1 else 0) + occ (u :: Qr) l ≤
      ((if y :: u :: Qr <+: x :: a :: l then 1 else 0) + occ (y :: u :: Qr) (a :: l)) + _
    rw [hsum]
    omega

theorem count_we_reverse {V : Type} [DecidableEq V] (p : List V) (z u : V) :
    (walkEdges p.reverse).count (z, u) = (walkEdges p).count (u, z) := by
  rw [we_reverse, List.count_reverse]
  generalize walkEdges p = es
  induction es with
  | nil => rfl
  | cons e es ih =>
    rw [List.map_cons, List.count_cons, List.count_cons, ih]
    congr 1
    by_cases h : e = (u, z)
    · subst h; simp
    · have h1 : (e == (u, z)) = false := by simpa using h
      have h2 : (((e.2, e.1) : V × V) == (z, u)) = false := by
        simp only [beq_eq_false_iff_ne, ne_eq, Prod.mk.injEq, not_and]
        intro h3 h4; apply h; ext <;> simp [h3, h4]
      rw [h1, h2]

theorem sum_erase_rat {V : Type} [DecidableEq V] (F : V → Rat) : ∀ (l : List V) (y : V), y ∈ l →
    (l.map F).sum = F y + ((l.erase y).map F).sum := by
  intro l
  induction l with
  | nil => intro y h; simp at h
  | cons a l ih =>
    intro y h
    by_cases ha : a = y
    · subst ha; simp
    · have hy : y ∈ l := by
        rcases List.mem_cons.1 h with h | h
        · exact absurd h.symm ha
        · exact h
      have : (a :: l).erase y = a :: l.erase y := by
        rw [List.erase_cons]; simp [ha]
      rw [this]
      simp only [List.map_cons, List.sum_cons, ih y hy]
      grind

section decomp
variable (g : Graph) (f : Edge → Rat) (D : List (List Node × Rat))

/-- weighted number of traversals of the window `P` -/
def thr (P : List Node) : Rat := (D.map fun pw => (occ P.reverse pw.1.reverse : Rat) * pw.2).sum

def outflowOf (v : Node) : Rat := ((g.outEdges v).map f).sum

theorem outflow_succ (v : Node) : outflowOf g f v = ((g.succ v).map fun z => f (v, z)).sum := by
  unfold outflowOf Graph.outEdges Graph.succ
  rw [List.map_map]
  congr 1
  apply List.map_congr_left
  intro e he
  have := (List.mem_filter.1 he).2
  have h1 : e.1 = v := by simpa using this
  simp only [Function.comp]
  rw [← h1]

theorem sum_le_sum_weighted (A B : List Node × Rat → Rat) (h : ∀ pw ∈ D, A pw ≤ B pw) :
    (D.map A).sum ≤ (D.map B).sum := by
  induction D with
  | nil => simp
  | cons d D ih =>
    simp only [List.map_cons, List.sum_cons]
    have h1 := h d (by simp)
    have h2 := ih (fun pw hpw => h pw (List.mem_cons_of_mem _ hpw))
    grind

theorem sum_zero_map (c : Rat) (hc : c = 0) : (D.map fun _ => c).sum = 0 := by
  subst hc
  induction D with
  | nil => rfl
  | cons d D ih => simp only [List.map_cons, List.sum_cons, ih]; grind

theorem sum_map_add_rat (A B : List Node × Rat → Rat) :
    (D.map fun pw => A pw + B pw).sum = (D.map A).sum + (D.map B).sum := by
  induction D with
  | nil => simp only [List.map_nil, List.sum_nil]; grind
  | cons d D ih => simp only [List.map_cons, List.sum_cons, ih]; grind

theorem sum_swap (L : List Node) (c : Node → List Node × Rat → Rat) :
    (D.map fun pw => (L.map fun z => c z pw).sum).sum = (L.map fun z => (D.map fun pw => c z pw).sum).sum := by
  induction L with
  | nil => simp only [List.map_nil, List.sum_nil]; exact sum_zero_map D 0 rfl
  | cons a L ih =>
    simp only [List.map_cons, List.sum_cons]
    rw [← ih, ← sum_map_add_rat]

theorem natCast_sum (L : List Node) (c : Node → Nat) : (((L.map c).sum : Nat) : Rat) = (L.map fun z => (c z : Rat)).sum := by
  induction L with
  | nil => simp
  | cons a L ih => simp only [List.map_cons, List.sum_cons, Rat.natCast_add, ih]

variable (hD : ∀ pw ∈ D, IsWalkIn g pw.1 ∧ 0 < pw.2 ∧ ∃ t, pw.1.getLast? = some t ∧ g.succ t = [])
variable (hf : ∀ e ∈ g.edges, f e = (D.map fun pw => ((walkEdges pw.1).count e : Rat) * pw.2).sum)
include hD hf

omit hD in
/-- the weight through an edge is its flow -/
theorem thr_edge (a b : Node) (hab : (a, b) ∈ g.edges) : thr D [a, b] = f (a, b) := by
  rw [hf _ hab]
  unfold thr
  congr 1
  apply List.map_congr_left
  intro pw _
  congr 2
  -- occurrences of [b, a] in the reversed walk = traversals of (a, b)
  have : ∀ r : List Node, occ [b, a] r = (walkEdges r).count (b, a) := by
    intro r
    induction r with
    | nil => rfl
    | cons x r ih =>
      cases r with
      | nil => simp [occ, we_single]
      | cons z r =>
        rw [we_cons_cons, List.count_cons, occ, ih]
        by_cases hq : (x, z) = (b, a)
        · injection hq with h1 h2; subst h1; subst h2; simp; omega
        · have h1 : ((x, z) == (b, a)) = false := by simpa using hq
          have h2 : ¬ [b, a] <+: x :: z :: r := by
            rintro ⟨t, ht⟩
            simp at ht
            exact hq (by rw [ht.1, ht.2.1])
          rw [h1, if_neg h2]; simp
  show occ [b, a] pw.1.reverse = _
  rw [this, count_we_reverse]

omit hf in
theorem walk_nonempty_last (pw : List Node × Rat) (hpw : pw ∈ D) :
    ∃ t r', pw.1.reverse = t :: r' ∧ g.succ t = [] := by
  obtain ⟨_, _, t, ht, hts⟩ := hD pw hpw
  obtain ⟨l, hl⟩ := List.getLast?_eq_some_iff.1 ht
  exact ⟨t, l.reverse, by rw [hl]; simp, hts⟩

/-- extending the window by `y` loses at most what leaves `u` through the other out-edges -/
theorem thr_extend (Q : List Node) (u y : Node) (huy : (u, y) ∈ g.edges) :
    thr D (Q ++ [u]) - (outflowOf g f u - f (u, y)) ≤ thr D (Q ++ [u, y]) := by
  have hys : y ∈ g.succ u := mem_succ.2 huy
  -- per walk
  have hper : ∀ pw ∈ D, (occ (Q ++ [u]).reverse pw.1.reverse : Rat) * pw.2 ≤
      (occ (Q ++ [u, y]).reverse pw.1.reverse : Rat) * pw.2 +
      (((g.succ u).erase y).map fun z => ((walkEdges pw.1).count (u, z) : Rat) * pw.2).sum := by
    intro pw hpw
    obtain ⟨hwalk, hpos, _⟩ := hD pw hpw
    obtain ⟨t, r', hr, hts⟩ := walk_nonempty_last g D hD pw hpw
    have hrev1 : (Q ++ [u]).reverse = u :: Q.reverse := by simp
    have hrev2 : (Q ++ [u, y]).reverse = y :: u :: Q.reverse := by simp
    rw [hrev1, hrev2, hr]
    have htu : ¬ u :: Q.reverse <+: t :: r' := by
      rintro ⟨x, hx⟩
      simp at hx
      rw [hx.1, hts] at hys; simp at hys
    have hstep := occ_step (g.succ u) u y Q.reverse r' t (by
      intro z hz
      rw [← hr, we_reverse] at hz
      simp only [List.mem_reverse, List.mem_map] at hz
      obtain ⟨e, he, heq⟩ := hz
      injection heq with h1 h2
      have : e = (u, z) := by ext <;> simp [h1, h2]
      rw [this] at he
      exact mem_succ.2 (hwalk _ he))
    have hocc : occ (u :: Q.reverse) (t :: r') = occ (u :: Q.reverse) r' := by
      rw [occ, if_neg htu]; simp
    have hcnt : (((g.succ u).erase y).map fun z => (walkEdges (t :: r')).count (z, u)) =
        (((g.succ u).erase y).map fun z => (walkEdges pw.1).count (u, z)) := by
      apply List.map_congr_left
      intro z _
      rw [← hr, count_we_reverse]
    rw [hcnt] at hstep
    have hnat : occ (u :: Q.reverse) (t :: r') ≤ occ (y :: u :: Q.reverse) (t :: r') +
        (((g.succ u).erase y).map fun z => (walkEdges pw.1).count (u, z)).sum := by rw [hocc]; exact hstep
    have hq : (occ (u :: Q.reverse) (t :: r') : Rat) ≤ ((occ (y :: u :: Q.reverse) (t :: r') +
        (((g.succ u).erase y).map fun z => (walkEdges pw.1).count (u, z)).sum : Nat) : Rat) :=
      Rat.natCast_le_natCast.mpr hnat
    rw [Rat.natCast_add, natCast_sum] at hq
    have hmul := Rat.mul_le_mul_of_nonneg_right hq (Rat.le_of_lt hpos)
    rw [Rat.add_mul] at hmul
    have hsm : ((((g.succ u).erase y).map fun z => ((walkEdges pw.1).count (u, z) : Rat))).sum * pw.2 =
        (((g.succ u).erase y).map fun z => ((walkEdges pw.1).count (u, z) : Rat) * pw.2).sum := by
      generalize (g.succ u).erase y = L
      induction L with
      | nil => simp
      | cons a L ih => simp only [List.map_cons, List.sum_cons, Rat.add_mul, ih]
    rw [hsm] at hmul
    exact hmul
  have hsum := sum_le_sum_weighted D _ _ hper
  rw [sum_map_add_rat, sum_swap] at hsum
  -- the inner sums are flows
  have hflows : (((g.succ u).erase y).map fun z => (D.map fun pw => ((walkEdges pw.1).count (u, z) : Rat) * pw.2).sum) =
      (((g.succ u).erase y).map fun z => f (u, z)) := by
    apply List.map_congr_left
    intro z hz
    have hzs : z ∈ g.succ u := List.mem_of_mem_erase hz
    rw [hf (u, z) (mem_succ.1 hzs)]
  rw [hflows] at hsum
  have hout : outflowOf g f u = f (u, y) + (((g.succ u).erase y).map fun z => f (u, z)).sum := by
    rw [outflow_succ]; exact sum_erase_rat (fun z => f (u, z)) (g.succ u) y hys
  unfold thr
  rw [hout]
  grind

/-- the weight through a window is at least its excess flow -/
theorem thr_ge_excess : ∀ (mr : List Node) (a x : Node), IsWalkIn g (a :: (mr.reverse ++ [x])) →
    excessOf f (outflowOf g f) (a :: (mr.reverse ++ [x])) ≤ thr D (a :: (mr.reverse ++ [x])) := by
  intro mr
  induction mr with
  | nil =>
    intro a x hw
    have hax : (a, x) ∈ g.edges := hw _ (by simp [we_cons_cons])
    simp only [List.reverse_nil, List.nil_append]
    rw [thr_edge g f D hf a x hax]
    simp [excessOf, leakSum]; grind
  | cons x' mr ih =>
    intro a x hw
    have hshape : a :: ((x' :: mr).reverse ++ [x]) = a :: (mr.reverse ++ [x', x]) := by simp
    rw [hshape] at hw ⊢
    have hedge : (x', x) ∈ g.edges := hw _ (by
      have : a :: (mr.reverse ++ [x', x]) = (a :: mr.reverse) ++ x' :: x :: [] := by simp
      rw [this]; exact mem_we_mid _ _ _ _)
    have hw' : IsWalkIn g (a :: (mr.reverse ++ [x'])) := by
      intro e he; apply hw
      have : a :: (mr.reverse ++ [x', x]) = (a :: (mr.reverse ++ [x'])) ++ [x] := by simp
      rw [this]; exact we_sub_append_right _ _ e he
    have h1 := ih a x' hw'
    have h2 := thr_extend g f D hD hf (a :: mr.reverse) x' x hedge
    rw [excessOf_snoc]
    simp only [List.cons_append] at h2
    grind

/-- **the excess-flow lemma** -/
theorem excess_positive_in_decomposition (W : List Node) (hW : IsWalkIn g W) (hlen : 2 ≤ W.length)
    (hpos : 0 < excessOf f (outflowOf g f) W) : ∃ pw ∈ D, walkEdges W <:+: walkEdges pw.1 := by
  -- shape of W
  obtain ⟨a, mr, x, rfl⟩ : ∃ (a : Node) (mr : List Node) (x : Node), W = a :: (mr.reverse ++ [x]) := by
    cases W with
    | nil => simp at hlen
    | cons a l =>
      have hl : l ≠ [] := by intro h; subst h; simp at hlen
      refine ⟨a, l.dropLast.reverse, l.getLast hl, ?_⟩
      rw [List.reverse_reverse, List.dropLast_concat_getLast]
  have hthr := thr_ge_excess g f D hD hf mr a x hW
  have hthrpos : 0 < thr D (a :: (mr.reverse ++ [x])) := by grind
  -- some walk has an occurrence
  have : ∃ pw ∈ D, 0 < occ (a :: (mr.reverse ++ [x])).reverse pw.1.reverse := by
    by_cases h : ∃ pw ∈ D, 0 < occ (a :: (mr.reverse ++ [x])).reverse pw.1.reverse
    · exact h
    · exfalso
      have hz : ∀ pw ∈ D, (occ (a :: (mr.reverse ++ [x])).reverse pw.1.reverse : Rat) * pw.2 = 0 := by
        intro pw hpw
        have : occ (a :: (mr.reverse ++ [x])).reverse pw.1.reverse = 0 := by
          rcases Nat.eq_zero_or_pos (occ (a :: (mr.reverse ++ [x])).reverse pw.1.reverse) with h0 | h0
          · exact h0
          · exact absurd ⟨pw, hpw, h0⟩ h
        rw [this]; simp
      have : thr D (a :: (mr.reverse ++ [x])) = 0 := by
        unfold thr
        have hcongr : (D.map fun pw => (occ (a :: (mr.reverse ++ [x])).reverse pw.1.reverse : Rat) * pw.2) =
            D.map fun _ => (0 : Rat) := List.map_congr_left hz
        rw [hcongr]; exact sum_zero_map D 0 rfl
      rw [this] at hthrpos
      exact absurd hthrpos (by decide)
  obtain ⟨pw, hpw, hocc⟩ := this
  refine ⟨pw, hpw, ?_⟩
  have hinf := occ_pos_infix _ _ hocc
  rw [List.reverse_infix] at hinf
  obtain ⟨s1, s2, hs⟩ := hinf
  rw [← hs]
  exact we_infix _ _ _

end decomp

/-- `flowSafePaths` accepts only decomposition paths whose edges carry positive flow -/
theorem flowSafePaths_edges (g : Graph) (flow : List (Edge × Rat)) (paths : List (List Node))
    (out : List (List Edge)) (h : flowSafePaths g flow paths = .ok out) :
    ∀ path ∈ paths, ∀ e ∈ walkEdges path, ∃ q, flow.lookup e = some q ∧ 0 < q := by
  unfold flowSafePaths at h
  simp only at h
  split at h
  · cases h
  · rename_i hbad
    intro path hpath e he
    simp only [Bool.not_eq_true, List.any_eq_false] at hbad
    have := hbad path hpath e he
    cases hq : flow.lookup e with
    | none => rw [hq] at this; simp at this
    | some q =>
      rw [hq] at this
      simp only [decide_eq_false_iff_not, Rat.not_le] at this
      exact ⟨q, rfl, this⟩

/-- **T4.** every reported flow-safe path is in every flow decomposition -/
theorem flowSafePaths_safe (g : Graph) (flow : List (Edge × Rat))
    (hkeys : ∀ e q, flow.lookup e = some q → e ∈ g.edges)
    (paths : List (List Node)) (out : List (List Edge)) (h : flowSafePaths g flow paths = .ok out)
    (D : List (List Node × Rat))
    (hD : ∀ pw ∈ D, IsWalkIn g pw.1 ∧ 0 < pw.2 ∧ ∃ t, pw.1.getLast? = some t ∧ g.succ t = [])
    (hf : ∀ e ∈ g.edges, lookupD flow e 0 = (D.map fun pw => ((walkEdges pw.1).count e : Rat) * pw.2).sum) :
    ∀ P ∈ out, ∃ pw ∈ D, P <:+: walkEdges pw.1 := by
  intro P hP
  obtain ⟨path, hpath, W, rfl, hlen, hinf, hpos⟩ := flowSafePaths_windows g flow paths out h P hP
  have hedges := flowSafePaths_edges g flow paths out h path hpath
  have hW : IsWalkIn g W := by
    intro e he
    obtain ⟨s1, s2, hs⟩ := hinf
    have : e ∈ walkEdges path := by
      rw [← hs]
      exact we_sub_append_right _ _ e (we_sub_append_left _ _ e he)
    obtain ⟨q, hq, _⟩ := hedges e this
    exact hkeys e q hq
  exact excess_positive_in_decomposition g (fun e => lookupD flow e 0) D hD hf W hW hlen hpos

end FP.Safety
