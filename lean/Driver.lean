import FP.Model.Json
import FP.Model.Euler
import FP.Model.Search
import FP.Model.Wrapper
import FP.Model.Enc.Parse
import FP.Model.Enc.Handlers
/-!
# Line-protocol driver: one JSON request per line on stdin, one JSON answer per line on stdout.
-/
open Lean FP

def parseStatus (s : String) : Search.Status :=
  if s = "kOptimal" then .optimal else if s = "kInfeasible" then .infeasible else .other

def statusStr : Search.Status → String
  | .optimal => "optimal" | .infeasible => "infeasible" | .other => "other"

def triedJson (l : List (Nat × Search.Status)) : Json :=
  Json.arr (l.map (fun p => Json.arr #[Json.num p.1, Json.str (statusStr p.2)])).toArray

def optNat : Option Nat → Json
  | some n => Json.num n
  | none => Json.null

def scriptFn {α} [Inhabited α] (lo : Nat) (l : List α) (dflt : α) : Nat → α :=
  fun k => if k < lo then dflt else (l[k - lo]?).getD dflt

def asVarName (j : Json) : Except String Var := do
  let s ← j.getStr?
  return .nm s ""

def asRatPair (j : Json) : Except String (Rat × Rat) := do
  let a ← j.getArr?
  match a.toList with
  | [x, y] => return (← asRat x, ← asRat y)
  | _ => .error "pair expected"

def asNatRat (j : Json) : Except String (Nat × Rat) := do
  let a ← j.getArr?
  match a.toList with
  | [x, y] => return (← x.getNat?, ← asRat y)
  | _ => .error "pair expected"

def asWOp (j : Json) : Except String WOp := do
  let op ← jStr j "op"
  match op with
  | "addVars" => return .addVars (← jList asRatPair j "bounds")
  | "queueFix" => return .queueFix (← jNat j "idx") (← jRat j "v")
  | "queueLb" => return .queueLb (← jNat j "idx") (← jRat j "v")
  | "setObjective" =>
    -- optional "const" (the expression's constant term; absent/null = no constant term) and "sense"
    let const ← match j.getObjVal? "const" with
      | .ok .null => pure none
      | .ok v => (asRat v).map some
      | .error _ => pure none
    let mx ← match j.getObjVal? "sense" with
      | .ok (.str "maximize") | .ok (.str "max") => pure true
      | .ok (.str "minimize") | .ok (.str "min") | .ok .null | .error _ => pure false
      | .ok v => .error s!"objective sense {v} is not supported"
    return .setObjective (← jList asNatRat j "terms") const mx
  | "optimize" => return .optimize
  | _ => .error s!"unknown wrapper op {op}"

def optRatJson : Option Rat → Json
  | some q => Json.str (ratStr q)
  | none => Json.null

/-- handles returned by every `addVars` of a history -/
def wrapperHandles (f : GetColsField) : WState → List WOp → List (List Nat)
  | _, [] => []
  | s, o :: rest =>
    match o with
    | .addVars bs => addVarsHandles s bs :: wrapperHandles f (wstep f s o) rest
    | _ => wrapperHandles f (wstep f s o) rest

/-- what is read back in the state right after an `optimize`; `ask` = column indices handed to `get_values`
(keys = positions in the list; absent = all columns) -/
def readJson (sn : WState) (ask : Option (List Nat)) : Json :=
  let asked : List (Nat × Nat) := match ask with
    | some l => (List.range l.length).zip l
    | none => (List.range sn.cols.length).zip (List.range sn.cols.length)
  let det : Nat → Bool := fun i => match sn.cols[i]? with
    | some c => colDetermined c
    | none => false
  let got : Json := match getValues sn asked with
    | some r => Json.arr ((asked.zip r).map (fun (a, kr) =>
        Json.arr #[Json.num kr.1, if det a.2 then Json.str (ratStr kr.2) else Json.null])).toArray
    | none => Json.null
  let feasible := boxFeasible sn.cols
  Json.mkObj [("feasible", Json.bool feasible),
    ("values", if feasible then Json.arr ((expectedValues sn.maximize sn.cols).map optRatJson).toArray else Json.null),
    ("obj", optRatJson (getObjectiveValue sn)),
    ("got", got),
    ("nSolves", Json.num sn.nSolves)]

/-- handlers of the encoder modules (`FP/Model/Enc/*.lean`), tried in order for ops not handled below -/
def encHandlers : List (String → Json → Option (Except String Json)) := encHandlersAll

def handle (j : Json) : Except String Json := do
  let op ← jStr j "op"
  match op with
  | "ping" => return Json.str "pong"
  | "euler" =>
    -- {"adj": [[v, [w, ...]], ...], "source": s, "sink": t}
    let adjJ ← jArr j "adj"
    let adj : Euler.Adj String ← adjJ.toList.mapM fun e => do
      let a ← e.getArr?
      match a.toList with
      | [v, ws] => return (← v.getStr?, ← asList (·.getStr?) ws)
      | _ => .error "adj entry"
    let s ← jStr j "source"
    let t ← jStr j "sink"
    return Json.mkObj [("walk", strArr (Euler.reconstruct adj s t)),
                       ("remaining", Json.num (Euler.remaining adj s))]
  | "search" =>
    -- {"kind": "stop"|"timed"|"skip", "lo":, "hi":, "script": [status...], "late": [bool...]}
    let kind ← jStr j "kind"
    let lo ← jNat j "lo"
    let hi ← jNat j "hi"
    let script ← jList (·.getStr?) j "script"
    let σ := scriptFn lo (script.map parseStatus) Search.Status.other
    let o ← match kind with
      | "stop" => pure (Search.stopSearch σ lo hi)
      | "skip" => pure (Search.skipSearch σ lo hi)
      | "given" => pure (Search.givenSearch σ ((jNat j "given").toOption) lo hi)
      | "timed" => do
        let late ← jList (·.getBool?) j "late"
        pure (Search.stopSearchTimed σ (scriptFn lo late true) lo hi)
      | _ => .error "unknown search kind"
    return Json.mkObj [("tried", triedJson o.tried), ("solved", optNat o.solved)]
  | "npo" =>
    let lo ← jNat j "lo"
    let hi ← jNat j "hi"
    let script ← jList (·.getStr?) j "script"
    let objs ← jList asRat j "obj"
    let late ← jList (·.getBool?) j "late"
    let first ← jBool j "first"
    let dA := (jRat j "deltaAbs").toOption
    let dR := (jRat j "deltaRel").toOption
    let o := Search.npo ⟨first, dA, dR⟩ (scriptFn lo (script.map parseStatus) .other)
      (scriptFn lo objs 0) (scriptFn lo late true) lo hi
    let st := match o.status with
      | .solved => "solved" | .timeout => "timeout" | .unbounded => "unbounded"
      | .infeasible => "infeasible" | .zeroDivision => "zeroDivision"
    return Json.mkObj [("tried", triedJson o.tried), ("status", Json.str st),
                       ("answer", optNat o.answer)]
  | "lp.binprod" =>
    let lb ← jRat j "lb"; let ub ← jRat j "ub"
    let lp : LP := { rows := binProd (.ix "b" 0) (.ix "c" 0) (.ix "p" 0) lb ub }
    return strArr lp.dump
  | "lp.intprod" =>
    let lb ← jRat j "lb"; let ub ← jNat j "ub"; let name ← jStr j "name"
    return strArr (intProd (.ix "n" 0) (.ix "c" 0) (.ix "p" 0) lb ub name).dump
  | "lp.piecewise" =>
    let ranges ← jList asRatPair j "ranges"
    let consts ← jList asRat j "constants"
    let name ← jStr j "name"
    return strArr (piecewise (.ix "x" 0) (.ix "y" 0) ranges consts name).dump
  | "wrapper.ops" =>
    let ops ← jList asWOp j "ops"
    let f ← jStr j "field"
    let fld := if f = "lower" then GetColsField.lower else if f = "cost" then .cost else .upper
    let s := wrun fld ops
    let cols := Json.arr (s.cols.map (fun c => strArr [ratStr c.lb, ratStr c.ub, ratStr c.cost])).toArray
    -- without "full": the column triples only (the original answer format)
    if (jBool j "full").toOption != some true then return cols
    let opsJ ← jArr j "ops"
    let asks : List (Option (List Nat)) := (opsJ.toList.zip ops).filterMap fun (oj, o) =>
      if o.isOptimize then some ((jList (·.getNat?) oj "ask").toOption) else none
    return Json.mkObj [("cols", cols), ("offset", Json.str (ratStr s.offset)),
      ("maximize", Json.bool s.maximize), ("nSolves", Json.num s.nSolves),
      ("handles", Json.arr ((wrapperHandles fld {} ops).map
          (fun h => Json.arr (h.map (fun (n : Nat) => Json.num n)).toArray)).toArray),
      ("reads", Json.arr (((wsnaps fld ops).zip asks).map (fun (sn, a) => readJson sn a)).toArray)]
  | "augment" =>
    let g ← parseGraph j
    let starts := (jList (·.getStr?) j "starts").toOption.getD []
    let ends := (jList (·.getStr?) j "ends").toOption.getD []
    return graphJson (augment g starts ends).g
  | "decode.paths" =>
    -- {"nodes","edges","starts","ends","k", "values": [[u,v,i,val],...]}  (values default 0)
    let g ← parseGraph j
    let starts := (jList (·.getStr?) j "starts").toOption.getD []
    let ends := (jList (·.getStr?) j "ends").toOption.getD []
    let k ← jNat j "k"
    let vals ← jArr j "values"
    let tbl : List ((Edge × Nat) × Rat) ← vals.toList.mapM fun v => do
      let a ← v.getArr?
      match a.toList with
      | [u, w, i, q] => return (((← u.getStr?, ← w.getStr?), ← i.getNat?), ← asRat q)
      | _ => .error "value quadruple expected"
    let s := augment g starts ends
    let x : Edge → Nat → Rat := fun e i => lookupD tbl (e, i) 0
    match decodePaths s x k with
    | none => return Json.null
    | some ps => return Json.arr (ps.map strArr).toArray
  | "lp.kfd" =>
    let inp ← parseFlowInput j
    match ← optField j "given_weights" (asList asRat) with
    | none => return strArr (kfdLP inp).dump
    | some ws =>
      let ok ← jNat j "original_k"
      return strArr (kfdGivenLP { inp with cfg := { inp.cfg with k := ws.length, allowEmpty := true } } ws ok).dump
  | _ =>
    match encHandlers.findSome? (fun h => h op j) with
    | some r => r
    | none => .error s!"unknown op {op}"

partial def loop (h : IO.FS.Stream) (out : IO.FS.Stream) : IO Unit := do
  let line ← h.getLine
  if line.isEmpty then return ()
  let ans := match Json.parse line with
    | .ok j => match handle j with
      | .ok r => Json.mkObj [("ok", r)]
      | .error e => Json.mkObj [("error", Json.str e)]
    | .error e => Json.mkObj [("error", Json.str s!"parse: {e}")]
  out.putStrLn ans.compress
  out.flush
  loop h out

def main : IO Unit := do loop (← IO.getStdin) (← IO.getStdout)
