"""./check <property> [--tier quick|thorough] [--replay file]

Runs, for one property: Lean build + hygiene + axiom audit of its theorems (the proof part),
then the correspondence suites that tie the Lean model to /repo's current source, then the
failing-input search when a tie or obligation breaks, then writes evidence/<id>.json.

exit 0: held on everything explored (KNOWN-FINDING lines possible)
exit 1: `VIOLATION property=<id> replay=<path>[ no-failing-input-found]` printed
exit 2: infrastructure failure
"""
import argparse, importlib, json, os, sys, time, traceback
from pathlib import Path

sys.path.insert(0, str(Path(__file__).resolve().parent))
from fpv import common
from fpv.common import Infra


def main():
    ap = argparse.ArgumentParser()
    ap.add_argument("prop")
    ap.add_argument("--tier", default=os.environ.get("VERIF_TIER", "quick"), choices=["quick", "thorough"])
    ap.add_argument("--replay", default=None)
    a = ap.parse_args()
    pid = a.prop.upper()
    try:
        mod = importlib.import_module(f"props.{pid.lower()}")
    except ModuleNotFoundError as e:
        print(f"no check for {pid}: {e}")
        return 2
    from fpv import engine
    try:
        return engine.run_property(pid, mod, a.tier, a.replay)
    except Infra as e:
        print(f"INFRASTRUCTURE FAILURE: {e}")
        return 2
    except Exception:
        traceback.print_exc()
        print("INFRASTRUCTURE FAILURE: unexpected exception in the harness")
        return 2


if __name__ == "__main__":
    sys.exit(main())
