"""regenerates /verif/MANIFEST.json from the table below (run by hand after adding a check)"""
import json
from pathlib import Path
V = Path(__file__).resolve().parents[1]
props = [json.loads(l) for l in open(V / "properties.jsonl")]

CLAIMED = {
 "C05": dict(text="Lean theorems (FP/Props/C05.lean): optimum preservation under added constraints that every feasible point can be mapped into at equal objective; "
   "feasible set of base++extra is the intersection; fixing through bounds is equivalent to fixing through rows (with C12's exact batch update); search shortcuts "
   "(greedy, given/guessed weights, accepted only when their route count equals the k under test) leave the search answer unchanged. PARTIAL: that the concrete safe "
   "sequences/zero-fixes satisfy the preservation hypothesis is C06's safety+incompatibility statement and is not yet proven; it is covered by the metamorphic "
   "end-to-end oracle (same input, sampled subsets / full cross product of all documented flags, every class: equal solved status and objective vs the all-off baseline).",
   note="HiGHS optimality/infeasibility proofs trusted on the small metamorphic instances; option conflicts documented as ValueError are skipped.",
   tech="Lean 4 generic optimum-preservation theorems + metamorphic end-to-end oracle over option subsets", ref="7/C05"),
 "C01": dict(text="Lean theorems (FP/Props/C01.lean) for every satisfying assignment of the DAG path encoding on every well-formed user DAG, any k, any "
   "additional starts/ends: each layer decodes (the successor-following loop terminates within its fuel) to the empty path (only if allowed) or to a simple "
   "route of the user's graph from a source/declared start to a sink/declared end, the layer's variables being exactly the path's indicator; the augmentation "
   "is a well-formed s-t DAG; k layers are returned. Tied to the code by exact-output differential testing of the augmentation order and of get_solution_paths "
   "on injected assignments (K1), LP-dump equality of the DAG encoders (K2), and an end-to-end route-validity oracle on get_solution() of all 12 exported "
   "decomposition/cover classes (K5). Walk models: reconstruction proven in C14; walk-encoding soundness is covered by the end-to-end oracle only (partial).",
   note="HiGHS returns LP-feasible assignments when it reports kOptimal; walk-encoding connectivity argument not yet a theorem; Min* wrappers' forwarding is "
   "checked by the oracle, not proven.",
   tech="Lean 4 refinement theorem (LP assignment -> valid route) + differential testing + end-to-end oracle", ref="7/C01"),
 "C02": dict(text="Lean theorems (FP/Props/C02.lean: kfd_exact, kfd_given_exact): every satisfying assignment of the kFlowDecomp LPs (plain and given-weights) on every "
   "well-formed user DAG decodes to paths and weights with sum_i w_i*[e in p_i] = f(e) on every non-ignored edge, weights within [0, w_max]; built on the path-encoding "
   "and product-encoding theorems. Tied to the code by LP-dump equality of kFlowDecomp (K2) and an end-to-end exactness oracle (Fractions for ints, 1e-6 for floats, "
   "weight types) on the four flow-decomposition classes over the MILP, greedy, given-weights and guessed-weights routes (K5). Cyclic and greedy routes: oracle + K2 only (partial).",
   note="exactness for float weights is in exact arithmetic; cyclic encoder and greedy peeling not yet proven (C17 covers peeling).",
   tech="Lean 4 refinement theorem on the LP generator + LP-dump equality + end-to-end oracle", ref="7/C02"),
 "C12": dict(text="Lean theorems (FP/Props/C12.lean): exactness of the binary*continuous and integer*continuous product encodings "
   "(sound and complete, all bounds incl. ub=0 and non powers of two), soundness of the piecewise-constant encoding and its completeness "
   "under the big-M hypothesis (with the negative witness), exact effect of queued bound updates, objective replacement. The model is tied "
   "to solverwrapper.py by LP-dump equality of each helper (K2) and by differential runs of random add_variables/queue_*/set_objective/optimize "
   "histories with column bounds/costs read back from HiGHS (K1).",
   note="HiGHS/highspy calls (changeColsBounds, getCols, changeColsCost, addVariables) behave as observed in the differential runs; float "
   "arithmetic of ceil(log2(ub+1)) for huge ub not modelled; Gurobi branch not executable here.",
   tech="Lean 4 theorems on an executable model + LP-dump equality and op-sequence differential testing", ref="7/C12"),
 "C13": dict(text="Lean theorems (FP/Props/C13.lean) over all status scripts, ranges and clocks: a minimum search returns k only if k was proven optimal "
   "and every smaller tried k proven infeasible; any inconclusive status (or elapsed-time hit) before the first optimal k ends the search unsolved; "
   "NumPathsOptimization only returns a model proven optimal for its k; solved flag iff kOptimal without custom timeout. Tied to the code by fault injection "
   "at every solver-invocation position (K3): observed (k,status) traces and answers must equal the Lean machines' runs.",
   note="forced statuses stand for real time-outs; real clock and SIGALRM delivery are scripted, not executed; HiGHS's own status reporting trusted.",
   tech="Lean 4 induction over search state machines + exhaustive single-position fault injection on the real code", ref="7/C13"),
 "C14": dict(text="Full-strength Lean theorem (FP/Props/C14.lean: reconstruct_euler, reconstruct_zero): for every adjacency structure that is balanced, "
   "leaves the source once and is connected, the model of _reconstruct_eulerian_walk returns one walk whose consecutive pairs are a permutation of the edge "
   "multiset (fuel proven sufficient). Tied to the code by exact-output differential testing (K1) of the real functions driven through a stub object on generated "
   "Eulerian multigraphs, malformed multigraphs and injected solver values.",
   note="python list semantics as transcribed; round() of solver values exercised but not modelled.",
   tech="Lean 4 proof (Hierholzer invariants, List.Perm) + exact-output differential testing", ref="7/C14"),
}

checks = []
for p in props:
    pid = p["id"]
    if pid not in CLAIMED:
        continue
    c = CLAIMED[pid]
    checks.append({"property_id": pid, "quick_cmd": f"./check {pid} --tier quick",
                   "thorough_cmd": f"./check {pid} --tier thorough",
                   "evidence_file": f"evidence/{pid}.json",
                   "replay_cmd_template": f"./check {pid} --replay {{path}}",
                   "engine": "lean-model",
                   "level_claimed": {"category": "proof", "text": c["text"], "design_ref": "DESIGN.md section " + c["ref"]},
                   "level_note": c["note"], "technique": c["tech"]})
ids = [p["id"] for p in props]
m = {"version": 1,
     "setup_cmd": "cd lean && lake build FP fpdriver",
     "hooks": {"guard": "FLOWPATHS_VERIF",
               "enable": "no source hooks: the harness wraps attributes of the imported package from outside (FLOWPATHS_VERIF=1 is exported for any future add-only trace point)",
               "baseline_off_cmd": "cd /repo && env -u FLOWPATHS_VERIF /venv/bin/python -m pytest -ra -q -p no:cacheprovider --timeout=900 --continue-on-collection-errors",
               "source_commits": [], "add_only": True},
     "engines": [{"name": "lean-model", "path": "lean/", "serves_properties": ids,
                  "kind_free_text": "Lean 4 executable model + theorems (lake project FP), compiled line-protocol driver fpdriver"},
                 {"name": "harness", "path": "harness/", "serves_properties": ids,
                  "kind_free_text": "Python correspondence harness (K1-K5) driving the real package and the Lean driver"}],
     "checks": checks,
     "not_applicable": [{"property_id": i, "reason": "check under construction in this round; not claimed yet"}
                        for i in ids if i not in CLAIMED],
     "notes": "see DESIGN.md; ./check <id> --tier quick|thorough; VERIF_SEED seeds all generators; FLOWPATHS_REPO selects the tree (default /repo)"}
json.dump(m, open(V / "MANIFEST.json", "w"), indent=1)
print("claimed:", [c["property_id"] for c in checks])
