"""regenerates /verif/MANIFEST.json from harness/claimed.json (per-property texts) and harness/registered.json
(the list of properties whose check is registered); run by hand after adding a check"""
import json
from pathlib import Path
V = Path(__file__).resolve().parents[1]
props = [json.loads(l) for l in open(V / "properties.jsonl")]
CLAIMED = json.load(open(V / "harness" / "claimed.json"))
REGISTERED = json.load(open(V / "harness" / "registered.json"))

checks = []
for p in props:
    pid = p["id"]
    if pid not in REGISTERED:
        continue
    c = CLAIMED[pid]
    checks.append({"property_id": pid, "quick_cmd": f"./check {pid} --tier quick",
                   "thorough_cmd": f"./check {pid} --tier thorough",
                   "evidence_file": f"evidence/{pid}.json",
                   "replay_cmd_template": f"./check {pid} --replay {{path}}",
                   "engine": "lean-model",
                   "level_claimed": {"category": "proof", "text": c["text"], "design_ref": "DESIGN.md section " + c["ref"]},
                   "level_note": c["note"], "technique": c["tech"]})
ids = [p["id"] for p in props]
m = {"version": 1,
     "setup_cmd": "cd lean && lake build FP fpdriver",
     "hooks": {"guard": "FLOWPATHS_VERIF",
               "enable": "no source hooks: the harness wraps attributes of the imported package from outside (FLOWPATHS_VERIF=1 is exported for any future add-only trace point)",
               "baseline_off_cmd": "cd /repo && env -u FLOWPATHS_VERIF /venv/bin/python -m pytest -ra -q -p no:cacheprovider --timeout=900 --continue-on-collection-errors",
               "source_commits": [], "add_only": True},
     "engines": [{"name": "lean-model", "path": "lean/", "serves_properties": ids,
                  "kind_free_text": "Lean 4 executable model + theorems (lake project FP), compiled line-protocol driver fpdriver"},
                 {"name": "harness", "path": "harness/", "serves_properties": ids,
                  "kind_free_text": "Python correspondence harness (K1-K5) driving the real package and the Lean driver"}],
     "checks": checks,
     "not_applicable": [{"property_id": i, "reason": "check under construction in this round; not claimed yet"}
                        for i in ids if i not in REGISTERED],
     "notes": "see DESIGN.md; ./check <id> --tier quick|thorough; VERIF_SEED seeds all generators; FLOWPATHS_REPO selects the tree (default /repo)"}
json.dump(m, open(V / "MANIFEST.json", "w"), indent=1)
print("registered:", [c["property_id"] for c in checks])
