#!/bin/bash
# ingest_round6.sh Cxx : archive the two changes of /tmp/seed6-Cxx/out as seeded/Cxx-11, Cxx-12; confirm them
P=$1
cd /verif
for n in 1 2; do
  m=$((n+10)); d=seeded/$P-$m; mkdir -p $d
  cp /tmp/seed6-$P/out/$n/patch.diff /tmp/seed6-$P/out/$n/demo.py /tmp/seed6-$P/out/$n/meta.json $d/ || exit 1
  git -C /repo apply --check /verif/$d/patch.diff || echo "$P-$m: patch does not apply to /repo HEAD"
done
for m in 11 12; do /venv/bin/python harness/tools/confirm_seed.py /verif/seeded/$P-$m /tmp/confirm-$P-$m.json > /tmp/confirm-$P-$m.log 2>&1 & done
wait
for m in 11 12; do python3 -c "
import json; r=json.load(open('/tmp/confirm-$P-$m.json')); print('$P-$m confirmed=',r.get('confirmed'), r.get('tests_summary'), r.get('demo_with_change'), r.get('demo_without_change'))"; done
