#!/bin/bash
# ingest_benign.sh <Ax> : archive /tmp/benign-<Ax>/out/<n> as benign/<Ax>-<n>; re-run the agent's equivalence program on the
# unchanged tree and with the change (scratch worktree), compare the printed summaries
A=$1
cd /verif
for n in 1 2 3 4; do
  src=/tmp/benign-$A/out/$n; [ -f $src/patch.diff ] || continue
  d=benign/$A-$n; mkdir -p $d
  cp $src/patch.diff $src/meta.json $d/; cp $src/equiv_check.py $d/ 2>/dev/null
  git -C /repo apply --check /verif/$d/patch.diff || { echo "$A-$n: patch does not apply"; continue; }
  wt=$(mktemp -d /tmp/fp-benign-XXXX); rmdir $wt
  git -C /repo worktree add -q --detach $wt HEAD
  (cd $wt && PYTHONPATH=$wt timeout 900 /venv/bin/python /verif/$d/equiv_check.py > /tmp/eq-$A-$n.base 2>/dev/null; echo "exit=$?" >> /tmp/eq-$A-$n.base)
  git -C $wt apply /verif/$d/patch.diff
  (cd $wt && PYTHONPATH=$wt timeout 900 /venv/bin/python /verif/$d/equiv_check.py > /tmp/eq-$A-$n.new 2>/dev/null; echo "exit=$?" >> /tmp/eq-$A-$n.new)
  git -C /repo worktree remove --force $wt; rm -rf $wt
  if cmp -s /tmp/eq-$A-$n.base /tmp/eq-$A-$n.new; then echo "$A-$n: equiv_check identical ($(wc -l < /tmp/eq-$A-$n.base) lines)"; else echo "$A-$n: equiv_check DIFFERS"; fi
done
git -C /repo worktree prune
