#!/bin/bash
# ingest_round4.sh Cxx : archive the two changes of /tmp/seed4-Cxx/out as seeded/Cxx-7, Cxx-8; confirm them; try them
P=$1
cd /verif
for n in 1 2; do
  m=$((n+6)); d=seeded/$P-$m; mkdir -p $d
  cp /tmp/seed4-$P/out/$n/patch.diff /tmp/seed4-$P/out/$n/demo.py /tmp/seed4-$P/out/$n/meta.json $d/ || exit 1
  git -C /repo apply --check /verif/$d/patch.diff || echo "$P-$m: patch does not apply to /repo HEAD"
done
for m in 7 8; do /venv/bin/python harness/tools/confirm_seed.py /verif/seeded/$P-$m /tmp/confirm-$P-$m.json > /tmp/confirm-$P-$m.log 2>&1 & done
for m in 7 8; do /venv/bin/python harness/tools/try_seed.py seeded/$P-$m --seeds 0,1; done
wait
for m in 7 8; do python3 -c "
import json; r=json.load(open('/tmp/confirm-$P-$m.json')); print('$P-$m confirmed=',r.get('confirmed'), r.get('tests_summary'), r.get('demo_with_change'), r.get('demo_without_change'))"; done
