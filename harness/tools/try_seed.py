#!/usr/bin/env python3
"""Run the quick check(s) of a property against a seeded change without touching /repo.

    try_seed.py <seed-dir> [--props C05,C10] [--seeds 0,1]

A scratch worktree of /repo's HEAD is created under /tmp, the seed's patch.diff is applied there, the checks run with
FLOWPATHS_REPO pointing at it, and the worktree is removed. Afterwards the checks are re-run on /repo itself so that the
generated tables, evidence and replay files in /verif describe the unchanged tree again.
Prints one line per run: caught (failing input) / caught (broken tie only) / MISSED / infrastructure failure.
"""
import json, os, subprocess, sys, tempfile, shutil, argparse
from pathlib import Path

VERIF = Path(__file__).resolve().parents[2]


def sh(cmd, env=None, cwd=None, timeout=3600):
    p = subprocess.run(cmd, shell=isinstance(cmd, str), env=env, cwd=cwd, stdout=subprocess.PIPE, stderr=subprocess.STDOUT,
                       text=True, timeout=timeout)
    return p.returncode, p.stdout


def main():
    ap = argparse.ArgumentParser()
    ap.add_argument("seed")
    ap.add_argument("--props")
    ap.add_argument("--seeds", default="0,1")
    ap.add_argument("--no-restore", action="store_true", help="do not re-run the checks on /repo afterwards (private copies of /verif)")
    a = ap.parse_args()
    sd = Path(a.seed).resolve()
    meta = json.load(open(sd / "meta.json"))
    props = a.props.split(",") if a.props else [meta["property"]]
    wt = tempfile.mkdtemp(prefix="fp-try-")
    os.rmdir(wt)
    rc, out = sh(["git", "-C", "/repo", "worktree", "add", "-q", "--detach", wt, "HEAD"])
    if rc:
        print("worktree failed", out); return 2
    results = []
    try:
        rc, out = sh(["git", "-C", wt, "apply", str(sd / "patch.diff")])
        if rc:
            print(f"{sd.name}: patch does not apply: {out[:300]}"); return 2
        for p in props:
            for s in a.seeds.split(","):
                env = dict(os.environ, FLOWPATHS_REPO=wt, VERIF_SEED=s)
                rc, out = sh([str(VERIF / "check"), p], env=env, cwd=str(VERIF))
                lines = [l for l in out.split("\n") if l.startswith("VIOLATION")]
                detail = ""
                if lines:
                    i = out.split("\n").index(lines[0])
                    detail = out.split("\n")[i + 1].strip()[:200] if i + 1 < len(out.split("\n")) else ""
                if rc == 1 and lines:
                    verdict = "caught (broken tie/obligation only)" if "no-failing-input-found" in lines[0] else "caught (failing input)"
                elif rc == 0:
                    verdict = "MISSED"
                else:
                    verdict = f"infrastructure failure (exit {rc})"
                    detail = out.strip().split("\n")[-1][:200]
                print(f"{sd.name} {p} seed={s}: {verdict} | {detail}", flush=True)
                results.append({"property": p, "seed": int(s), "verdict": verdict, "detail": detail})
    finally:
        sh(["git", "-C", "/repo", "worktree", "remove", "--force", wt])
        shutil.rmtree(wt, ignore_errors=True)
        sh(["git", "-C", "/repo", "worktree", "prune"])
        if not a.no_restore:
            for p in props:       # leave /verif describing the unchanged tree
                sh([str(VERIF / "check"), p], cwd=str(VERIF))
    (sd / "try.json").write_text(json.dumps(results, indent=1))
    return 0


if __name__ == "__main__":
    sys.exit(main())
