"""confirm a seeded change independently:  confirm_seed.py <seed dir with patch.diff, demo.py, meta.json> <out json>
creates a scratch worktree of /repo under /tmp, checks: patch applies; demo passes without the change and fails with
it; the baseline test suite result (50 stable tests) is unchanged with the change applied. Removes the worktree."""
import json, os, subprocess, sys, tempfile, shutil, re
seed, out = sys.argv[1], sys.argv[2]
wt = tempfile.mkdtemp(prefix="fp-confirm-", dir="/tmp")
os.rmdir(wt)
def sh(cmd, **kw):
    return subprocess.run(cmd, shell=True, text=True, stdout=subprocess.PIPE, stderr=subprocess.STDOUT, **kw)
res = {"seed": seed}
try:
    sh(f"git -C /repo worktree add -q {wt} HEAD")
    env = dict(os.environ, PYTHONPATH=wt)
    r0 = sh(f"cd {wt} && /venv/bin/python {seed}/demo.py", env=env, timeout=1800)
    res["demo_without_change"] = r0.returncode
    a = sh(f"git -C {wt} apply {seed}/patch.diff")
    res["patch_applies"] = a.returncode == 0
    r1 = sh(f"cd {wt} && /venv/bin/python {seed}/demo.py", env=env, timeout=1800)
    res["demo_with_change"] = r1.returncode
    res["demo_with_change_tail"] = r1.stdout[-600:]
    t = sh(f"cd {wt} && /venv/bin/python -m pytest -q -p no:cacheprovider --timeout=900 --continue-on-collection-errors 2>&1 | tail -15", env=env, timeout=3600)
    tail = t.stdout
    res["tests_tail"] = tail[-900:]
    m = re.search(r"(\d+) failed, (\d+) passed", tail) or re.search(r"(\d+) passed", tail)
    res["tests_summary"] = m.group(0) if m else None
    failed = set(re.findall(r"FAILED (\S+)", tail))
    allowed = {"tests/test_examples.py::test_example[least_abs_errors.py]", "tests/test_examples.py::test_example[mfd_cycles.py]",
               "tests/test_examples.py::test_example[min_path_error_extension.py]", "tests/test_examples.py::test_example[safe_seq_cycles.py]"}
    res["unexpected_test_failures"] = sorted(failed - allowed)
    res["confirmed"] = bool(res["patch_applies"] and r0.returncode == 0 and r1.returncode != 0 and not res["unexpected_test_failures"]
                            and m is not None and "50 passed" in (res["tests_summary"] or ""))
finally:
    sh(f"git -C /repo worktree remove --force {wt}")
    shutil.rmtree(wt, ignore_errors=True)
json.dump(res, open(out, "w"), indent=1)
print(json.dumps({k: res.get(k) for k in ("seed", "confirmed", "tests_summary", "demo_with_change", "demo_without_change")}))
