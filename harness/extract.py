"""K4 translator: Python AST of /repo/flowpaths/*.py  ->  Lean tables (regenerated on every run).

  lean/FP/Model/Generated/Aliasing.lean   def aliasTable : List ClassAlias   (property C18)
  lean/FP/Model/Generated/Guards.lean     def guardTable : List ClassGuards  (property C19)

and the same facts as a python dict (`extract(repo)`), which the observation suites of
props/c18.py / props/c19.py validate against the behaviour of the real code.

What is read off the source (nothing is executed):

* C18, per class: how every caller-supplied mutable parameter (dict / list / graph) is STORED
  (`alias`, `copy`, `deepcopy`, `alias_or_empty` = `p or {}`, `copy_or_empty`, `not_stored`) and every WRITE
  (`x[k] = ..`, `x += ..`, `.update/.append/.extend/..`, graph mutators) through a reference that may still
  be the caller's object (or the shared default object of a `= {}` / `= []` parameter), in the constructor
  and in every method, following `super().__init__`, `self.method(..)` and constructions of other package
  classes (`kFlowDecomp(..., optimization_options=self.optimization_options)` in `MinFlowDecomp.solve`).
  The analysis is a small flow-sensitive may-alias analysis: locals and `self.<attr>` map to sets of
  (origin, kind); branches are merged by union.
* C18 getters: does `get_solution` fall off its end on the computing call, does it cache.
* C19, per class: the `raise ValueError` sites reachable from `__init__` (phase `construct`) and from
  `solve()` (phase `solve`), in source order, each identified by the text of its guarding condition and
  classified through the hand-maintained `guards_map.json`; unknown text -> `unmapped`.

Deterministic: the output only depends on the source text (and guards_map.json).
"""
import ast, json, os, sys
from pathlib import Path

HERE = Path(__file__).resolve().parent
VERIF = HERE.parent
GEN = VERIF / "lean" / "FP" / "Model" / "Generated"
MAP_FILE = HERE / "guards_map.json"

MODEL_CLASSES = ["kFlowDecomp", "MinFlowDecomp", "kLeastAbsErrors", "kMinPathError", "kPathCover", "MinPathCover",
                 "kFlowDecompCycles", "MinFlowDecompCycles", "kLeastAbsErrorsCycles", "kMinPathErrorCycles",
                 "kPathCoverCycles", "MinPathCoverCycles", "MinErrorFlow", "MinGenSet", "MinSetCover",
                 "NumPathsOptimization"]
SUPPORT_CLASSES = ["NodeExpandedDiGraph", "stDAG", "stDiGraph", "AbstractSourceSinkGraph",
                   "AbstractPathModelDAG", "AbstractWalkModelDiGraph"]
ALL = MODEL_CLASSES + SUPPORT_CLASSES
GRAPH_CLASSES = ["NodeExpandedDiGraph", "stDAG", "stDiGraph", "AbstractSourceSinkGraph"]

SIMPLE_FLAGS = ["coverageLengthWithoutLengthAttr", "coverageLengthWithCoverage", "nonStringNode", "cyclicForDag", "noSourceOrSink", "missingWeight", "negativeWeight",
                "nonConservingFlow", "constraintNotListOfLists", "constraintEmpty", "constraintEdgeAbsent",
                "constraintNotTuples", "coverageOutOfRange", "coverageLengthOutOfRange", "kNonPositive", "kNotInt",
                "badWeightType", "badOrigin", "unknownStart", "unknownEnd", "scalingOutOfRange", "ignoreWrongShape",
                "emptyGraph"]

LIST_MUT = {"append", "extend", "insert", "remove", "pop", "clear", "sort", "reverse"}
DICT_MUT = {"update", "setdefault", "pop", "popitem", "clear"}
SET_MUT = {"add", "discard", "update", "difference_update", "intersection_update", "symmetric_difference_update"}
GRAPH_MUT = {"add_edge", "add_node", "add_edges_from", "add_nodes_from", "add_weighted_edges_from", "remove_edge",
             "remove_node", "remove_edges_from", "remove_nodes_from", "clear", "clear_edges", "update"}
MUT_METHODS = LIST_MUT | DICT_MUT | SET_MUT | GRAPH_MUT
NX_MUT_FUNCS = {"freeze", "set_edge_attributes", "set_node_attributes", "relabel_nodes"}
GRAPH_VIEWS = {"nodes", "edges", "graph", "adj", "succ", "pred", "_node", "_adj", "_succ", "_pred"}
COPY_FUNCS = {"dict", "list", "set", "sorted", "tuple", "frozenset"}
LIVE = ("alias", "alias_or_empty")
ENTRY = ["__init__", "solve", "get_solution", "get_objective_value", "is_solved", "check_is_solved", "get_lowerbound_k",
         "is_valid_solution", "set_solved"]


# ------------------------------------------------------------------------------------------ source index

class Index:
    def __init__(self, repo):
        self.repo = Path(repo)
        self.classes = {}        # name -> (ClassDef, module path relative)
        self.files = {}
        pk = self.repo / "flowpaths"
        for p in sorted(list(pk.glob("*.py")) + list((pk / "utils").glob("*.py"))):
            try:
                import warnings
                with warnings.catch_warnings():
                    warnings.simplefilter("ignore")
                    tree = ast.parse(p.read_text())
            except SyntaxError as e:
                raise SystemExit(f"extract: cannot parse {p}: {e}")
            rel = str(p.relative_to(self.repo))
            self.files[rel] = tree
            for n in tree.body:
                if isinstance(n, ast.ClassDef):
                    self.classes.setdefault(n.name, (n, rel))

    def bases(self, cls):
        node, _ = self.classes[cls]
        out = []
        for b in node.bases:
            nm = b.attr if isinstance(b, ast.Attribute) else b.id if isinstance(b, ast.Name) else None
            if nm in self.classes:
                out.append(nm)
        return out

    def mro(self, cls):
        out, todo = [], [cls]
        while todo:
            c = todo.pop(0)
            if c in out or c not in self.classes:
                continue
            out.append(c)
            todo += self.bases(c)
        return out

    def own_methods(self, cls):
        node, _ = self.classes[cls]
        return {f.name: f for f in node.body if isinstance(f, ast.FunctionDef)}

    def method(self, cls, name):
        """(owner, FunctionDef) resolved along the MRO of `cls`"""
        for c in self.mro(cls):
            m = self.own_methods(c)
            if name in m:
                return c, m[name]
        return None, None

    def is_property(self, cls, name):
        o, f = self.method(cls, name)
        return f is not None and any(isinstance(d, ast.Name) and d.id == "property" for d in f.decorator_list)

    def graph_method(self, name):
        """a method name that is defined by exactly one of the package's graph classes"""
        owners = [c for c in GRAPH_CLASSES if c in self.classes and name in self.own_methods(c)]
        return owners[0] if len(owners) == 1 else None


def unparse(n):
    return " ".join(ast.unparse(n).split())


def called_class(idx, call):
    f = call.func
    nm = f.attr if isinstance(f, ast.Attribute) else f.id if isinstance(f, ast.Name) else None
    if nm in idx.classes and nm[0].isupper() or nm in ALL:
        return nm if nm in idx.classes else None
    return None


def is_super_init(call):
    f = call.func
    return (isinstance(f, ast.Attribute) and f.attr == "__init__" and isinstance(f.value, ast.Call)
            and isinstance(f.value.func, ast.Name) and f.value.func.id == "super")


def is_empty_literal(e):
    if isinstance(e, ast.Dict) and not e.keys:
        return True
    if isinstance(e, (ast.List, ast.Tuple, ast.Set)) and not e.elts:
        return True
    if isinstance(e, ast.Call) and isinstance(e.func, ast.Name) and e.func.id in ("dict", "list", "set") and not e.args and not e.keywords:
        return True
    return False


def mutable_default(e):
    if isinstance(e, ast.Dict) and not e.keys:
        return "{}"
    if isinstance(e, ast.List) and not e.elts:
        return "[]"
    if isinstance(e, ast.Call) and isinstance(e.func, ast.Name) and e.func.id in ("dict", "list", "set") and not e.args:
        return e.func.id + "()"
    if isinstance(e, (ast.Dict, ast.List, ast.Set)):
        return unparse(e)
    return None


def params_of(fn):
    """[(name, annotation text, default node or None)] without self"""
    a = fn.args
    pos = a.posonlyargs + a.args
    defaults = [None] * (len(pos) - len(a.defaults)) + list(a.defaults)
    out = [(p.arg, unparse(p.annotation) if p.annotation else "", d) for p, d in zip(pos, defaults)]
    out += [(p.arg, unparse(p.annotation) if p.annotation else "", d) for p, d in zip(a.kwonlyargs, a.kw_defaults)]
    if out and out[0][0] in ("self", "cls"):
        out = out[1:]
    return out


def is_mutable_param(name, ann, default):
    a = ann.lower()
    if any(t in a for t in ("dict", "list", "digraph", "stdag", "set")):
        return True
    if default is not None and mutable_default(default):
        return True
    return name in ("G", "base_graph")


# ------------------------------------------------------------------------------------------ C18: aliasing

class Env:
    def __init__(self, loc=None, attrs=None):
        self.loc = {k: set(v) for k, v in (loc or {}).items()}
        self.attrs = {k: set(v) for k, v in (attrs or {}).items()}

    def copy(self):
        return Env(self.loc, self.attrs)

    def merge(self, other):
        for d, o in ((self.loc, other.loc), (self.attrs, other.attrs)):
            for k in set(d) | set(o):
                d[k] = set(d.get(k, set())) | set(o.get(k, set()))


class Alias:
    """may-alias analysis of one class as constructed by a caller"""

    def __init__(self, idx, cls):
        self.idx, self.cls = idx, cls
        self.stores = set()      # (param, attr, kind)
        self.writes = set()      # (func, target, origin, key, op)
        self.delegates = set()
        self.dynamic = set()
        self.depth = 0
        self.seen_calls = set()
        self.param_attrs = set()
        self.prefix = ""

    # -- expressions ---------------------------------------------------------------------------
    def ev(self, e, env, dyn):
        """set of (origin, kind): objects `e` may evaluate to that stem from caller data"""
        if e is None:
            return set()
        if isinstance(e, ast.Name):
            return set(env.loc.get(e.id, set()))
        if isinstance(e, ast.Attribute):
            if isinstance(e.value, ast.Name) and e.value.id == "self":
                if e.attr in env.attrs:
                    return set(env.attrs[e.attr])
                if dyn and self.idx.is_property(dyn, e.attr):
                    return self.ev_property(dyn, e.attr, env)
                return set()
            # <obj>.edges_to_ignore : a property of a package graph class returning one of its own lists
            owner = self.idx.graph_method(e.attr)
            if owner and self.idx.is_property(owner, e.attr):
                _, f = self.idx.method(owner, e.attr)
                rets = [s for s in ast.walk(f) if isinstance(s, ast.Return)]
                if len(rets) == 1 and isinstance(rets[0].value, ast.Attribute) and isinstance(rets[0].value.value, ast.Name) \
                        and rets[0].value.value.id == "self":
                    return {((f"internal", f"{owner}.{rets[0].value.attr}"), "alias")}
            return set()
        if isinstance(e, ast.BoolOp) and isinstance(e.op, ast.Or):
            out = set()
            tail_empty = is_empty_literal(e.values[-1])
            for v in e.values:
                for (o, k) in self.ev(v, env, dyn):
                    if tail_empty:
                        k = {"alias": "alias_or_empty", "copy": "copy_or_empty"}.get(k, k)
                    out.add((o, k))
            return out
        if isinstance(e, ast.BoolOp):
            out = set()
            for v in e.values:
                out |= self.ev(v, env, dyn)
            return out
        if isinstance(e, ast.IfExp):
            b, o = self.ev(e.body, env, dyn), self.ev(e.orelse, env, dyn)
            if is_empty_literal(e.orelse):
                b = {(x, {"alias": "alias_or_empty", "copy": "copy_or_empty"}.get(k, k)) for x, k in b}
            if is_empty_literal(e.body):
                o = {(x, {"alias": "alias_or_empty", "copy": "copy_or_empty"}.get(k, k)) for x, k in o}
            return b | o
        if isinstance(e, ast.Call):
            f = e.func
            if isinstance(f, ast.Attribute) and f.attr == "copy" and not e.args:
                return {(o, "copy" if k in ("alias", "copy") else "copy_or_empty" if k.endswith("or_empty") else k)
                        for o, k in self.ev(f.value, env, dyn)}
            if isinstance(f, ast.Name) and f.id in COPY_FUNCS and len(e.args) == 1:
                return {(o, "copy" if k in ("alias", "copy") else "copy_or_empty" if k.endswith("or_empty") else k)
                        for o, k in self.ev(e.args[0], env, dyn)}
            nm = f.attr if isinstance(f, ast.Attribute) else f.id if isinstance(f, ast.Name) else ""
            if nm == "deepcopy" and e.args:
                return {(o, "deepcopy") for o, k in self.ev(e.args[0], env, dyn)}
            return set()
        return set()

    def ev_property(self, cls, name, env):
        _, f = self.idx.method(cls, name)
        out = set()
        for s in ast.walk(f):
            if isinstance(s, ast.Return):
                out |= self.ev(s.value, env, cls)
        return out

    @staticmethod
    def live(pairs):
        return {o for o, k in pairs if k in LIVE}

    @staticmethod
    def root_and_key(t):
        """strip subscripts / graph views: returns (root expr, first literal key or '*', depth)"""
        keys = []
        while True:
            if isinstance(t, ast.Subscript):
                s = t.slice
                keys.append(s.value if isinstance(s, ast.Constant) and isinstance(s.value, str) else "*")
                t = t.value
            elif isinstance(t, ast.Attribute) and t.attr in GRAPH_VIEWS and not (isinstance(t.value, ast.Name) and t.value.id == "self" and False):
                keys.append("." + t.attr)
                t = t.value
            else:
                break
        keys.reverse()
        return t, keys

    def record_write(self, func, target_expr, env, dyn, key, op):
        for o, k in self.ev(target_expr, env, dyn):
            if k in LIVE:
                self.writes.add((func, unparse(target_expr), o, key, op, k == "alias_or_empty"))

    # -- calls ---------------------------------------------------------------------------------
    def bind(self, fn, call, env, dyn, drop_first=0):
        """origins of the callee's parameters for this call (only live aliases travel)"""
        ps = params_of(fn)
        names = [p[0] for p in ps]
        out = {}
        pos = list(call.args)[drop_first:]
        for i, a in enumerate(pos):
            if isinstance(a, ast.Starred):
                continue
            if i < len(names):
                out[names[i]] = {(o, k) for o, k in self.ev(a, env, dyn) if k in LIVE}
        for kw in call.keywords:
            if kw.arg is None:
                continue
            if kw.arg in names:
                out[kw.arg] = {(o, k) for o, k in self.ev(kw.value, env, dyn) if k in LIVE}
        return out, ps

    def follow(self, owner, fn, call, env, dyn, label, self_env=None, new_object=None):
        """analyse the body of a called function with the argument origins of this call"""
        bound, ps = self.bind(fn, call, env, dyn)
        key = (owner, fn.name, tuple(sorted((k, tuple(sorted(map(str, v)))) for k, v in bound.items())),
               tuple(sorted((k, tuple(sorted(map(str, v)))) for k, v in (self_env.attrs if self_env else {}).items())) if new_object is None else "new")
        if key in self.seen_calls or self.depth > 5:
            return
        self.seen_calls.add(key)
        loc = {}
        for name, ann, default in ps:
            if name in bound:
                loc[name] = bound[name]
            elif default is not None and mutable_default(default):
                # omitted argument: the callee sees the shared default object
                loc[name] = {(("default", f"{owner}.{fn.name}", name), "alias")}
        if not any(loc.values()) and new_object is not None:
            return
        callee_env = Env(loc, self_env.attrs if self_env is not None else {})
        self.depth += 1
        self.block(fn.body, callee_env, f"{label}{owner}.{fn.name}", new_object or dyn)
        self.depth -= 1
        if self_env is not None:
            self_env.attrs = callee_env.attrs
        return callee_env

    def construct(self, cls, call, env, dyn, label):
        """a package class is instantiated with (possibly) caller data: analyse it as a nested object"""
        o, init = self.idx.method(cls, "__init__")
        if init is None:
            return
        if cls in MODEL_CLASSES:
            self.delegates.add(cls)
        inner = Env({}, {})
        saved_prefix, self.prefix = self.prefix, self.prefix + cls + "."
        r = self.follow(o, init, call, env, dyn, label, self_env=inner, new_object=cls)
        self.prefix = saved_prefix
        if r is None:
            return
        # the other methods of the nested object may write through what it stored
        if any(self.live(v) for v in inner.attrs.values()):
            self.methods(cls, inner, label, skip={"__init__"})

    def visit_call(self, call, env, dyn, func):
        f = call.func
        label = func + "→" if self.depth == 0 else func + "→"
        if is_super_init(call):
            bases = self.idx.mro(self.cur_owner)[1:]
            for b in bases:
                m = self.idx.own_methods(b).get("__init__")
                if m is not None:
                    saved = self.cur_owner
                    self.cur_owner = b
                    self.follow(b, m, call, env, dyn, label, self_env=env)
                    self.cur_owner = saved
                    break
            return
        cc = called_class(self.idx, call)
        if cc:
            saved = self.cur_owner
            self.cur_owner = cc
            self.construct(cc, call, env, dyn, label)
            self.cur_owner = saved
            return
        if isinstance(f, ast.Attribute):
            # self.model_type(**self.kwargs): class chosen at run time
            if isinstance(f.value, ast.Name) and f.value.id == "self" and f.attr in env.attrs and False:
                pass
            if isinstance(f.value, ast.Name) and f.value.id == "self":
                o, m = self.idx.method(dyn, f.attr)
                if m is not None:
                    bound, _ = self.bind(m, call, env, dyn)
                    if any(bound.values()):
                        saved = self.cur_owner
                        self.cur_owner = o
                        self.follow(o, m, call, env, dyn, label, self_env=env)
                        self.cur_owner = saved
                    return
                if f.attr in self.param_attrs and any(kw.arg is None for kw in call.keywords):
                    self.dynamic.add(f.attr)      # class chosen at run time: self.model_type(**self.kwargs)
                return
            # mutators
            if f.attr in MUT_METHODS:
                root, keys = self.root_and_key(f.value)
                tgt = {(o, k) for o, k in self.ev(root, env, dyn) if k in LIVE}
                if tgt:
                    key = "".join(k if k.startswith(".") else f"[{k}]" for k in keys)
                    for o, k in tgt:
                        self.writes.add((func, unparse(root), o, key or "*", "." + f.attr, k == "alias_or_empty"))
                return
            # nx.freeze(G) and friends
            if isinstance(f.value, ast.Name) and f.value.id in ("nx", "networkx") and f.attr in NX_MUT_FUNCS and call.args:
                self.record_write(func, call.args[0], env, dyn, "*", "nx." + f.attr)
                return
            # methods of the package's graph classes called on some object, utils functions
            owner = self.idx.graph_method(f.attr)
            if owner:
                _, m = self.idx.method(owner, f.attr)
                bound, _ = self.bind(m, call, env, dyn)
                if any(bound.values()):
                    saved = self.cur_owner
                    self.cur_owner = owner
                    self.follow(owner, m, call, env, owner, label, self_env=Env({}, {}))
                    self.cur_owner = saved
                return
            fn = self.util_function(f.attr)
            if fn is not None:
                bound, _ = self.bind(fn[1], call, env, dyn)
                if any(bound.values()):
                    self.follow(fn[0], fn[1], call, env, None, label, self_env=Env({}, {}))
        elif isinstance(f, ast.Name):
            fn = self.util_function(f.id)
            if fn is not None:
                bound, _ = self.bind(fn[1], call, env, dyn)
                if any(bound.values()):
                    self.follow(fn[0], fn[1], call, env, None, label, self_env=Env({}, {}))

    def util_function(self, name):
        hits = []
        for rel, tree in self.idx.files.items():
            if "/utils/" not in rel:
                continue
            for n in tree.body:
                if isinstance(n, ast.FunctionDef) and n.name == name:
                    hits.append((Path(rel).stem, n))
        return hits[0] if len(hits) == 1 else None

    # -- statements ----------------------------------------------------------------------------
    def calls_in(self, node):
        """calls of an expression / simple statement in evaluation-ish (source) order, inner first"""
        out = []

        def rec(n):
            for c in ast.iter_child_nodes(n):
                if isinstance(c, (ast.FunctionDef, ast.Lambda, ast.ClassDef)):
                    continue
                rec(c)
            if isinstance(n, ast.Call):
                out.append(n)
        rec(node)
        return out

    def assign(self, target, pairs, env, dyn, func, value=None):
        if isinstance(target, ast.Name):
            env.loc[target.id] = set(pairs)
        elif isinstance(target, ast.Attribute) and isinstance(target.value, ast.Name) and target.value.id == "self":
            env.attrs[target.attr] = set(pairs)
            if self.depth == 0 or self.in_init_chain:
                for o, k in pairs:
                    if o[0] == "param":
                        self.stores.add((o[1], self.prefix + target.attr, k))
        elif isinstance(target, (ast.Tuple, ast.List)):
            for t in target.elts:
                self.assign(t, set(), env, dyn, func)
        elif isinstance(target, ast.Subscript) or isinstance(target, ast.Attribute):
            root, keys = self.root_and_key(target)
            if keys:
                key = "".join(k if k.startswith(".") else f"[{k}]" for k in keys)
                self.record_write(func, root, env, dyn, key, "[]=")

    def stmt(self, s, env, func, dyn):
        if isinstance(s, (ast.FunctionDef, ast.ClassDef, ast.Import, ast.ImportFrom, ast.Pass, ast.Global, ast.Nonlocal)):
            return
        if isinstance(s, ast.If):
            for c in self.calls_in(s.test):
                self.visit_call(c, env, dyn, func)
            a, b = env.copy(), env.copy()
            self.block(s.body, a, func, dyn)
            self.block(s.orelse, b, func, dyn)
            env.loc, env.attrs = a.loc, a.attrs
            env.merge(b)
            return
        if isinstance(s, (ast.For, ast.While)):
            hdr = s.iter if isinstance(s, ast.For) else s.test
            for c in self.calls_in(hdr):
                self.visit_call(c, env, dyn, func)
            if isinstance(s, ast.For):
                self.assign(s.target, set(), env, dyn, func)
            b = env.copy()
            self.block(s.body, b, func, dyn)
            self.block(s.body, b, func, dyn)      # second pass: loop-carried aliases
            self.block(s.orelse, b, func, dyn)
            env.merge(b)
            return
        if isinstance(s, ast.With):
            for it in s.items:
                for c in self.calls_in(it.context_expr):
                    self.visit_call(c, env, dyn, func)
            self.block(s.body, env, func, dyn)
            return
        if isinstance(s, ast.Try):
            b = env.copy()
            self.block(s.body, b, func, dyn)
            env.merge(b)
            for h in s.handlers:
                hb = env.copy()
                self.block(h.body, hb, func, dyn)
                env.merge(hb)
            self.block(s.orelse, env, func, dyn)
            self.block(s.finalbody, env, func, dyn)
            return
        # simple statements: calls first (arguments may be mutated by the callee), then the binding
        for c in self.calls_in(s):
            self.visit_call(c, env, dyn, func)
        if isinstance(s, ast.Assign):
            pairs = self.ev(s.value, env, dyn)
            for t in s.targets:
                self.assign(t, pairs, env, dyn, func)
        elif isinstance(s, ast.AnnAssign) and s.value is not None:
            self.assign(s.target, self.ev(s.value, env, dyn), env, dyn, func)
        elif isinstance(s, ast.AugAssign):
            t = s.target
            opname = {ast.Add: "+=", ast.BitOr: "|=", ast.Sub: "-=", ast.BitAnd: "&=", ast.BitXor: "^=", ast.Mult: "*="}.get(type(s.op), "op=")
            if isinstance(t, (ast.Name,)) or (isinstance(t, ast.Attribute) and isinstance(t.value, ast.Name) and t.value.id == "self"):
                # in-place for list / dict / set
                self.record_write(func, t, env, dyn, "*", opname)
            else:
                root, keys = self.root_and_key(t)
                if keys:
                    key = "".join(k if k.startswith(".") else f"[{k}]" for k in keys)
                    self.record_write(func, root, env, dyn, key, "[]" + opname)
        elif isinstance(s, ast.Delete):
            for t in s.targets:
                root, keys = self.root_and_key(t)
                if keys:
                    self.record_write(func, root, env, dyn, "".join(k if k.startswith(".") else f"[{k}]" for k in keys), "del")

    def block(self, stmts, env, func, dyn):
        for s in stmts:
            self.stmt(s, env, func, dyn)

    def reachable(self, cls):
        """methods reachable from the public entry points through `self.m(..)` calls / property reads"""
        todo = [e for e in ENTRY]
        todo += [n for c in self.idx.mro(cls) for n, f in self.idx.own_methods(c).items()
                 if not n.startswith("_") and c == cls]
        seen = set()
        while todo:
            n = todo.pop()
            if n in seen:
                continue
            o, f = self.idx.method(cls, n)
            if f is None:
                continue
            seen.add(n)
            for x in ast.walk(f):
                if isinstance(x, ast.Attribute) and isinstance(x.value, ast.Name) and x.value.id == "self":
                    todo.append(x.attr)
        return seen

    def methods(self, cls, env, label, skip):
        """every reachable other method of the object, with the attribute state left by the constructor"""
        done = set(skip)
        reach = self.reachable(cls)
        for c in self.idx.mro(cls):
            for name, fn in self.idx.own_methods(c).items():
                if name in done or name not in reach:
                    continue
                done.add(name)
                e = Env({}, env.attrs)
                saved, self.cur_owner = self.cur_owner, c
                saved_chain, self.in_init_chain = self.in_init_chain, False
                self.depth += 1
                self.block(fn.body, e, f"{label}{c}.{name}", cls)
                self.depth -= 1
                self.cur_owner, self.in_init_chain = saved, saved_chain

    # -- driver --------------------------------------------------------------------------------
    def run(self):
        idx, cls = self.idx, self.cls
        owner, init = idx.method(cls, "__init__")
        self.cur_owner = owner
        self.in_init_chain = True
        ps = params_of(init) if init else []
        pnames = {n for n, a, d in ps}
        for st in ast.walk(init):
            if isinstance(st, ast.Assign) and isinstance(st.value, ast.Name) and st.value.id in pnames:
                for t in st.targets:
                    if isinstance(t, ast.Attribute) and isinstance(t.value, ast.Name) and t.value.id == "self":
                        self.param_attrs.add(t.attr)
        env = Env({n: {(("param", n), "alias")} for n, a, d in ps if is_mutable_param(n, a, d)}, {})
        if init.args.kwarg:
            env.loc[init.args.kwarg.arg] = {(("param", "**" + init.args.kwarg.arg), "alias")}
        self.block(init.body, env, f"{owner}.__init__", cls)
        self.in_init_chain = False
        self.methods(cls, env, "", skip={"__init__"})
        self.params = [(n, a, d) for n, a, d in ps if is_mutable_param(n, a, d)]
        if init.args.kwarg:
            self.params.append(("**" + init.args.kwarg.arg, "dict", None))
        self.all_params = ps
        return self


def getter_facts(idx, cls):
    o, f = idx.method(cls, "get_solution")
    if f is None or o in ("AbstractPathModelDAG", "AbstractWalkModelDiGraph") and cls != o:
        if f is None:
            return {"has": False, "fallsOff": False, "caches": False, "owner": ""}
    if any((isinstance(d, ast.Name) and d.id == "abstractmethod") or (isinstance(d, ast.Attribute) and d.attr == "abstractmethod")
           for d in f.decorator_list):
        return {"has": False, "fallsOff": False, "caches": False, "owner": o}
    body = [s for s in f.body if not (isinstance(s, ast.Expr) and isinstance(s.value, ast.Constant))]
    last = body[-1] if body else None
    falls = not isinstance(last, (ast.Return, ast.Raise))
    if isinstance(last, ast.Pass):
        falls = True
    caches = any(isinstance(s, ast.Assign) and any(isinstance(t, ast.Attribute) and t.attr == "_solution" for t in s.targets)
                 for s in ast.walk(f))
    reads_cache = any(isinstance(s, ast.Attribute) and s.attr == "_solution" for s in ast.walk(f))
    # only a function that computes (and stores) the solution itself has a "computing call"; a getter that merely
    # hands out what solve() stored (MinSetCover) cannot be observed falling off its end on a solved model
    return {"has": True, "fallsOff": bool(falls and caches), "caches": bool(caches), "readsCache": bool(reads_cache), "owner": o,
            "endsWithoutReturn": bool(falls)}


def key_leaf(key):
    """first literal key of a write path like "['trusted_edges_for_safety']" -> trusted_edges_for_safety"""
    if key.startswith("[") and "]" in key:
        return key[1:key.index("]")]
    return key


def aliasing(idx):
    table = []
    for cls in ALL:
        if cls not in idx.classes:
            continue
        a = Alias(idx, cls).run()
        params = [p[0] for p in a.params]
        stores = {}
        for (p, attr, kind) in a.stores:
            stores.setdefault(p, set()).add((attr, kind))
        store_rows = []
        for p in params:
            if p in stores:
                for attr, kind in sorted(stores[p]):
                    store_rows.append({"cls": cls, "param": p, "attr": attr, "kind": kind})
            else:
                store_rows.append({"cls": cls, "param": p, "attr": "", "kind": "not_stored"})
        writes = []
        for (func, target, origin, key, op, ne) in a.writes:
            if origin[0] == "param":
                writes.append({"cls": cls, "func": func, "target": target, "param": origin[1], "key": key, "op": op,
                               "viaCaller": True, "viaDefault": False, "owner": "", "whenNonEmpty": ne})
            elif origin[0] == "default":
                writes.append({"cls": cls, "func": func, "target": target, "param": origin[2], "key": key, "op": op,
                               "viaCaller": False, "viaDefault": True, "owner": origin[1], "whenNonEmpty": ne})
            else:
                writes.append({"cls": cls, "func": func, "target": target, "param": origin[1], "key": key, "op": op,
                               "viaCaller": False, "viaDefault": False, "owner": "internal", "whenNonEmpty": ne})
        writes.sort(key=lambda w: (w["param"], w["func"], w["target"], w["key"], w["op"], w["owner"]))
        # mutable defaults of every public signature of the class (own methods)
        defaults = []
        for name, fn in sorted(idx.own_methods(cls).items()):
            if name.startswith("_") and name != "__init__":
                continue
            for pn, ann, d in params_of(fn):
                lit = mutable_default(d) if d is not None else None
                if lit is None:
                    continue
                if name == "__init__":
                    # a write that needs a non-empty (truthy) object (`p or {}`) never reaches an empty default
                    written = any(w["param"] == pn and w["viaCaller"] and not w["whenNonEmpty"] for w in writes)
                else:
                    written = False
                defaults.append({"cls": cls, "func": name, "param": pn, "literal": lit, "written": bool(written)})
        table.append({"cls": cls, "params": params, "stores": store_rows, "writes": writes, "defaults": defaults,
                      "delegates": sorted(a.delegates), "dynamic": sorted(a.dynamic), "getter": getter_facts(idx, cls),
                      "signature": [p[0] for p in a.all_params]})
    return table


# ------------------------------------------------------------------------------------------ C19: guards

class Guards:
    def __init__(self, idx, cls, gmap):
        self.idx, self.cls, self.gmap = idx, cls, gmap
        self.rows = []
        self.seen_sites = set()
        self.collect = None      # maintenance mode (--record-paths): gather the enclosing conditions instead of checking them

    def is_value_error(self, r):
        e = r.exc
        if e is None:
            return False
        if isinstance(e, ast.Call):
            e = e.func
        return isinstance(e, ast.Name) and e.id == "ValueError"

    def walk_fn(self, owner, fn, dyn, phase, stack, prefix=()):
        """`prefix`: the path condition of the call site (enclosing tests in the callers, outermost first)"""
        key = (owner, fn.name, dyn)
        if key in stack or len(stack) > 7:
            return
        stack = stack + [key]
        saved = getattr(self, "local_from", 0)
        self.local_from = len(prefix)
        self.block(fn.body, owner, fn, dyn, phase, stack, list(prefix))
        self.local_from = saved

    def module_function(self, name):
        """the unique module-level function of the package with this name, if its body can raise ValueError (a validation
        helper that constructors call instead of carrying the test themselves)"""
        hits = []
        for rel, tree in self.idx.files.items():
            for n in tree.body:
                if isinstance(n, ast.FunctionDef) and n.name == name:
                    hits.append((Path(rel).stem, n))
        if len(hits) != 1:
            return None
        raises = [r for r in ast.walk(hits[0][1]) if isinstance(r, ast.Raise) and self.is_value_error(r)]
        return hits[0] if raises else None

    @staticmethod
    def instantiate(fn, call):
        """a copy of `fn` in which the parameters are replaced by the argument expressions of `call` (so that the tests read
        like the tests the caller would have written itself)"""
        import copy
        params = [a.arg for a in fn.args.posonlyargs + fn.args.args]
        m = {}
        for p_, a in zip(params, call.args):
            if isinstance(a, ast.Starred):
                return fn
            m[p_] = a
        for kw in call.keywords:
            if kw.arg is None:
                return fn
            m[kw.arg] = kw.value
        defaults = fn.args.defaults
        for p_, d in zip(params[len(params) - len(defaults):], defaults):
            m.setdefault(p_, d)
        assigned = {t.id for n in ast.walk(fn) for t in ast.walk(n) if isinstance(t, ast.Name) and isinstance(t.ctx, ast.Store)}

        class Sub(ast.NodeTransformer):
            def visit_Name(self, node):
                if isinstance(node.ctx, ast.Load) and node.id in m and node.id not in assigned:
                    return copy.deepcopy(m[node.id])
                return node
        fn2 = copy.deepcopy(fn)
        fn2.body = [Sub().visit(st) for st in fn2.body]
        ast.fix_missing_locations(fn2)
        return fn2

    def emit(self, owner, fn, conds, phase, lineno):
        site = (owner, fn.name, lineno, getattr(self, "site_tag", None))
        if site in self.seen_sites:
            return
        self.seen_sites.add(site)
        # the guarding condition is the innermost test of the function containing the raise; the tests enclosing it in that
        # function (outermost first, `else: a | b` for else-branches of an if/elif chain, `except T` for handlers) are its
        # path condition. Conditions around the *call sites* leading to the function are not part of it: which call site
        # reaches a shared helper first is an artefact of the traversal order.
        local = conds[self.local_from:]
        cond = local[-1] if local else "<unconditional>"
        path = " && ".join(local[:-1])
        func = f"{owner}.{fn.name}"
        entry = self.gmap.get(func + "|" + cond, self.gmap.get(cond))
        why = ""
        if entry is None:
            flags, why = ["unmapped"], cond
        else:
            if isinstance(entry, dict):
                flags, within = entry.get("flag"), entry.get("within")
            else:
                flags, within = entry, None
            flags = [flags] if isinstance(flags, str) else list(flags)
            if self.collect is not None:
                key = func + "|" + cond if func + "|" + cond in self.gmap else cond
                self.collect.setdefault(key, set()).add(path)
            elif within is None or path not in within:
                # the guard is known, but not under these enclosing conditions: someone has to look at it again
                flags, why = ["unmapped"], f"{cond} -- enclosing conditions not recorded in guards_map.json: [{path}]"
        for fl in flags:
            self.rows.append({"cls": self.cls, "func": func, "cond": cond, "path": path, "why": why,
                              "flag": fl, "phase": phase, "line": lineno})

    def calls(self, node, owner, fn, dyn, phase, stack, conds=()):
        for c in Alias.calls_in(None, node):
            self.call(c, owner, dyn, phase, stack, conds)

    def call(self, c, owner, dyn, phase, stack, conds=()):
        idx = self.idx
        f = c.func
        if is_super_init(c):
            for b in idx.mro(owner)[1:]:
                m = idx.own_methods(b).get("__init__")
                if m is not None:
                    self.walk_fn(b, m, dyn, phase, stack, conds)
                    break
            return
        cc = called_class(idx, c)
        if cc:
            o, m = idx.method(cc, "__init__")
            if m is not None:
                self.walk_fn(o, m, cc, phase, stack, conds)
            return
        if isinstance(f, ast.Attribute):
            if isinstance(f.value, ast.Name) and f.value.id == "self":
                o, m = idx.method(dyn, f.attr)
                if m is not None:
                    self.walk_fn(o, m, dyn, phase, stack, conds)
                return
            g = idx.graph_method(f.attr)
            if g:
                o, m = idx.method(g, f.attr)
                self.walk_fn(o, m, g, phase, stack, conds)
                return
        # a module-level validation helper (gu.check_x(...), check_x(...)): its tests count as tests of the caller
        name = f.id if isinstance(f, ast.Name) else f.attr if isinstance(f, ast.Attribute) else None
        hit = self.module_function(name) if name else None
        if hit:
            mod, fn0 = hit
            saved = getattr(self, "site_tag", None)
            self.site_tag = (saved, c.lineno, unparse(c)[:80])
            self.walk_fn("module:" + mod, self.instantiate(fn0, c), dyn, phase, stack, conds)
            self.site_tag = saved

    def block(self, stmts, owner, fn, dyn, phase, stack, conds):
        for s in stmts:
            if isinstance(s, (ast.FunctionDef, ast.ClassDef)):
                continue
            if isinstance(s, ast.If):
                self.calls(s.test, owner, fn, dyn, phase, stack, conds)
                t = unparse(s.test)
                self.block(s.body, owner, fn, dyn, phase, stack, conds + [t])
                neg = [t]
                rest = s.orelse
                while len(rest) == 1 and isinstance(rest[0], ast.If):
                    e = rest[0]
                    self.calls(e.test, owner, fn, dyn, phase, stack, conds + ["else: " + " | ".join(neg)])
                    t2 = unparse(e.test)
                    self.block(e.body, owner, fn, dyn, phase, stack, conds + [t2])
                    neg.append(t2)
                    rest = e.orelse
                if rest:
                    self.block(rest, owner, fn, dyn, phase, stack, conds + ["else: " + " | ".join(neg)])
                continue
            if isinstance(s, (ast.For, ast.While)):
                self.calls(s.iter if isinstance(s, ast.For) else s.test, owner, fn, dyn, phase, stack, conds)
                self.block(s.body, owner, fn, dyn, phase, stack, conds)
                self.block(s.orelse, owner, fn, dyn, phase, stack, conds)
                continue
            if isinstance(s, ast.With):
                self.block(s.body, owner, fn, dyn, phase, stack, conds)
                continue
            if isinstance(s, ast.Try):
                self.block(s.body, owner, fn, dyn, phase, stack, conds)
                for h in s.handlers:
                    self.block(h.body, owner, fn, dyn, phase, stack, conds + ["except " + (unparse(h.type) if h.type else "")])
                self.block(s.orelse, owner, fn, dyn, phase, stack, conds)
                self.block(s.finalbody, owner, fn, dyn, phase, stack, conds)
                continue
            if isinstance(s, ast.Raise):
                if self.is_value_error(s):
                    self.emit(owner, fn, conds, phase, s.lineno)
                continue
            self.calls(s, owner, fn, dyn, phase, stack, conds)

    def run(self):
        o, init = self.idx.method(self.cls, "__init__")
        if init is not None:
            self.walk_fn(o, init, self.cls, "construct", [])
        o, solve = self.idx.method(self.cls, "solve")
        if solve is not None:
            self.walk_fn(o, solve, self.cls, "solve", [])
        return self.rows


def guards(idx, gmap):
    out = []
    for cls in ALL:
        if cls in idx.classes:
            out.append({"cls": cls, "guards": Guards(idx, cls, gmap).run()})
    return out


# ------------------------------------------------------------------------------------------ Lean output

def lstr(s):
    return '"' + s.replace("\\", "\\\\").replace('"', '\\"').replace("\n", "\\n") + '"'


def lbool(b):
    return "true" if b else "false"


KIND_LEAN = {"alias": ".alias", "copy": ".copy", "deepcopy": ".deepcopy", "alias_or_empty": ".aliasOrEmpty",
             "copy_or_empty": ".copyOrEmpty", "not_stored": ".notStored"}


def flag_lean(f):
    if f in SIMPLE_FLAGS:
        return "." + f
    if f.startswith("optionConflict:"):
        return f"(.optionConflict {lstr(f.split(':', 1)[1])})"
    if f.startswith("other:"):
        return f"(.other {lstr(f.split(':', 1)[1])})"
    if f == "unmapped":
        return None
    return f"(.other {lstr(f)})"


def llist(items, indent="    "):
    if not items:
        return "[]"
    return "[\n" + ",\n".join(indent + i for i in items) + "]"


def lean_aliasing(table):
    out = ["import FP.Model.Tables",
           "/-! GENERATED by harness/extract.py from the source of flowpaths — do not edit; regenerated on every `./check C18`. -/",
           "namespace FP.Generated", "open FP.Tables", ""]
    names = []
    for c in table:
        nm = "alias_" + c["cls"]
        names.append(nm)
        stores = [f"⟨{lstr(s['cls'])}, {lstr(s['param'])}, {lstr(s['attr'])}, {KIND_LEAN[s['kind']]}⟩" for s in c["stores"]]
        writes = [f"⟨{lstr(w['cls'])}, {lstr(w['func'])}, {lstr(w['target'])}, {lstr(w['param'])}, {lstr(w['key'])}, {lstr(w['op'])}, "
                  f"{lbool(w['viaCaller'])}, {lbool(w['viaDefault'])}, {lbool(w['whenNonEmpty'])}⟩" for w in c["writes"]]
        defaults = [f"⟨{lstr(d['cls'])}, {lstr(d['func'])}, {lstr(d['param'])}, {lstr(d['literal'])}, {lbool(d['written'])}⟩" for d in c["defaults"]]
        g = c["getter"]
        out.append(f"def {nm} : ClassAlias where")
        out.append(f"  cls := {lstr(c['cls'])}")
        out.append(f"  stores := {llist(stores)}")
        out.append(f"  writes := {llist(writes)}")
        out.append(f"  defaults := {llist(defaults)}")
        out.append(f"  delegates := [{', '.join(lstr(d) for d in c['delegates'] + ['*' + d for d in c['dynamic']])}]")
        out.append(f"  getter := ⟨{lstr(c['cls'])}, {lbool(g['has'])}, {lbool(g['fallsOff'])}, {lbool(g['caches'])}⟩")
        out.append("")
    out.append("def aliasTable : List ClassAlias :=\n  [" + ",\n   ".join(names) + "]")
    out += ["", "end FP.Generated", ""]
    return "\n".join(out)


def lean_guards(table):
    out = ["import FP.Model.Tables",
           "/-! GENERATED by harness/extract.py from the source of flowpaths — do not edit; regenerated on every `./check C19`. -/",
           "namespace FP.Generated", "open FP.Tables", ""]
    names = []
    for c in table:
        nm = "guards_" + c["cls"]
        names.append(nm)
        rows = []
        for g in c["guards"]:
            fl = flag_lean(g["flag"])
            if fl is None:
                fl = f"(.unmapped {lstr(g['why'] or g['cond'])})"
            ph = ".construct" if g["phase"] == "construct" else ".solve"
            rows.append(f"⟨{lstr(g['cls'])}, {lstr(g['func'])}, {lstr(g['cond'])}, {lstr(g['path'])}, {fl}, {ph}⟩")
        out.append(f"def {nm} : ClassGuards where")
        out.append(f"  cls := {lstr(c['cls'])}")
        out.append(f"  guards := {llist(rows)}")
        out.append("")
    out.append("def guardTable : List ClassGuards :=\n  [" + ",\n   ".join(names) + "]")
    out += ["", "end FP.Generated", ""]
    return "\n".join(out)


# ------------------------------------------------------------------------------------------ entry points

_cache = {}


def extract(repo):
    """the extracted facts as a dict: {'aliasing': [...], 'guards': [...]}"""
    repo = str(Path(repo).resolve())
    if repo in _cache:
        return _cache[repo]
    idx = Index(repo)
    gmap = json.loads(MAP_FILE.read_text()) if MAP_FILE.exists() else {}
    gmap = {k: v for k, v in gmap.items() if not k.startswith("_")}
    res = {"aliasing": aliasing(idx), "guards": guards(idx, gmap)}
    _cache[repo] = res
    return res


def write_if_changed(path, text):
    path.parent.mkdir(parents=True, exist_ok=True)
    if path.exists() and path.read_text() == text:
        return False
    path.write_text(text)
    return True


def regenerate(repo, which=("aliasing", "guards")):
    res = extract(repo)
    changed = []
    if "aliasing" in which and write_if_changed(GEN / "Aliasing.lean", lean_aliasing(res["aliasing"])):
        changed.append("Aliasing.lean")
    if "guards" in which and write_if_changed(GEN / "Guards.lean", lean_guards(res["guards"])):
        changed.append("Guards.lean")
    return res, changed


def explain_broken(ctx, prop_file):
    """printed by the checks' `search` when the Lean build broke: which obligation of `prop_file` failed and which
    table rows are responsible (read from the regenerated tables and the literal exception lists)"""
    import re
    pid = ctx.pid
    for b in ctx.broken_obligations:
        log = b.get("log_tail", "")
        for m in re.finditer(r"error: (FP/[\w/]+\.lean):(\d+):\d+: ([^\n]*)", log):
            src = (VERIF / "lean" / m.group(1))
            name = ""
            if src.exists():
                lines = src.read_text().split("\n")
                for i in range(int(m.group(2)) - 1, -1, -1):
                    mm = re.match(r"\s*(theorem|example|def)\s+([\w.]*)", lines[i])
                    if mm:
                        name = mm.group(2) or "example"
                        break
            print(f"[{pid}] broken obligation {m.group(1)}:{m.group(2)} {name}")
    res = getattr(ctx, "k4", None) or extract(os.environ.get("FLOWPATHS_REPO", "/repo"))
    text = (VERIF / "lean" / prop_file).read_text() if (VERIF / "lean" / prop_file).exists() else ""
    spec = (VERIF / "lean" / "FP" / "Spec" / "Rejections.lean").read_text()
    if pid == "C19":
        shown = set()
        for c in res["guards"]:
            for g in c["guards"]:
                if g["flag"] == "unmapped" and (g["func"], g["cond"], g["path"]) not in shown:
                    shown.add((g["func"], g["cond"], g["path"]))
                    print(f"[{pid}]   unclassified guard (first reached from {c['cls']}): {g['func']} | {g['cond']}   enclosing conditions: [{g['path']}]"
                          f"   -> classify it in harness/guards_map.json (flag + `within`)")
    if pid == "C18":
        m = re.search(r"def knownBad.*?:=\s*\[(.*?)\]\s*\n\n", text, re.S)
        known = set(re.findall(r'\("(\w+)",\s*"(\w+)"\)', m.group(1))) if m else set()
        for c in res["aliasing"]:
            for w in c["writes"]:
                if w["viaCaller"] and w["param"] != "solve_statistics" and (w["cls"], w["param"]) not in known:
                    print(f"[{pid}]   new write through the caller's object: {w['cls']}({w['param']}) in {w['func']}: {w['target']}{w['key']} {w['op']}")
            for d in c["defaults"]:
                if d["written"] and d["param"] != "solve_statistics":
                    print(f"[{pid}]   written default object: {d['cls']}.{d['func']}({d['param']}={d['literal']})")


def main():
    repo = os.environ.get("FLOWPATHS_REPO", "/repo")
    if len(sys.argv) > 1 and sys.argv[1] == "--json":
        print(json.dumps(extract(repo), indent=1, default=str))
        return
    if len(sys.argv) > 1 and sys.argv[1] == "--record-paths":
        # maintenance, after a human looked at the guards reported as unmapped: record the enclosing conditions under which
        # every classified guard is reached in the current tree as its accepted `within` list
        raw = json.loads(MAP_FILE.read_text())
        gmap = {k: v for k, v in raw.items() if not k.startswith("_")}
        idx = Index(repo)
        seen = {}
        for cls in ALL:
            if cls in idx.classes:
                g = Guards(idx, cls, gmap)
                g.collect = seen
                g.run()
        for k, v in gmap.items():
            flag = v.get("flag") if isinstance(v, dict) else v
            raw[k] = {"flag": flag, "within": sorted(seen.get(k, []))}
        lines = ["{"]
        items = list(raw.items())
        for i, (k, v) in enumerate(items):
            lines.append(" " + json.dumps(k) + ": " + json.dumps(v) + ("," if i + 1 < len(items) else ""))
        lines.append("}")
        MAP_FILE.write_text("\n".join(lines) + "\n")
        print(f"recorded the enclosing conditions of {len(seen)} guard conditions in {MAP_FILE}")
        return
    if len(sys.argv) > 1 and sys.argv[1] == "--unused":
        gmap = {k: v for k, v in json.loads(MAP_FILE.read_text()).items() if not k.startswith("_")}
        used = set()
        for c in extract(repo)["guards"]:
            for g in c["guards"]:
                k1 = g["func"] + "|" + g["cond"]
                used.add(k1 if k1 in gmap else g["cond"])
        for k in gmap:
            if k not in used:
                print("unused guards_map.json key:", json.dumps(k))
        return
    if len(sys.argv) > 1 and sys.argv[1] == "--conds":
        seen = {}
        for c in extract(repo)["guards"]:
            for g in c["guards"]:
                seen.setdefault(g["cond"], set()).add(g["func"])
        for k in sorted(seen):
            print(json.dumps(k), "   #", ", ".join(sorted(seen[k]))[:150])
        return
    res, changed = regenerate(repo)
    print("extract: regenerated " + (", ".join(changed) if changed else "nothing (tables unchanged)"))


if __name__ == "__main__":
    main()
