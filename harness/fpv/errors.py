"""Independent oracles for the two error models (properties C07 / C08), written against the property
texts — never against the Lean model or the code's encoders.

An instance is the JSON-able dict of fpv.models (cls, nodes, edges, flow, weight_type, k, ignore, starts, ends,
scaling, given_weights, options) plus, for kMinPathError, path_length_ranges / path_length_factors.

Brute force
-----------
* routes: every admissible source-to-sink route of the *user's* graph (start: no in-edge or declared additional
  start; end: no out-edge or declared additional end). DAG classes: all simple paths. Cyclic classes: all walks
  using every edge at most MULT (=2) times (so for the cyclic classes the brute-force optimum is an *upper* bound
  of the optimum over all walks, exact only when no better walk needs an edge three times).
  Routes with the same edge-multiplicity vector are merged (only the vector enters the error).
* weights: grid {0, step, 2 step, ..., max f} with step 1 for weight_type=int and 1/2 for float.
  Why this is exact on DAGs with integer flow values:
    - weights above max f never help: clamping every weight to max f does not increase |f(e) - sum| on any edge
      (if no clamped weight runs through e nothing changes; otherwise the new sum is still >= max f >= f(e) and
      smaller than before) — this is theorem FP.Props.C07.wmax_adequate;
    - for fixed routes the objective is convex piecewise linear in the weights, so some optimum is a vertex of
      {w_i = 0} / {sum_{i through e} w_i = f(e)} systems; for k <= 3 routes the 0/1 coefficient matrices have
      determinant in {+-1, +-2}, hence the vertex is integral or half-integral: integers are exact for int
      weights (the type forces them), half-integers for float weights.
* slacks (k-Min-Path-Error, int): for fixed routes and weights the least total slack is found by enumerating all
  but the last slack on 0..ceil(max requirement) and computing the last one.
"""
import inspect, itertools, math
from collections import Counter
from fractions import Fraction
import networkx as nx
from . import models, gen
from .common import frac, qstr

MULT = 2            # per-edge multiplicity bound of the enumerated walks (cyclic classes)
MAX_ROUTES = 40     # distinct edge-multiplicity vectors; instances with more are not brute-forced


# --------------------------------------------------------------------------- building the real model

def build(fp, inst, k="inst"):
    cls = getattr(fp, inst["cls"])
    G = models.graph_of(inst)
    wint = inst.get("weight_type", "int") == "int"
    kw = {"G": G, "flow_attr": "flow", "k": inst.get("k") if k == "inst" else k,
          "flow_attr_origin": "edge", "weight_type": int if wint else float,
          "elements_to_ignore": [tuple(e) for e in inst.get("ignore", [])],
          "optimization_options": dict(inst.get("options", {})),
          "solver_options": dict(inst.get("solver_options", {"time_limit": 60}))}
    if inst.get("starts") or inst.get("ends"):
        kw["additional_starts"] = list(inst.get("starts", []))
        kw["additional_ends"] = list(inst.get("ends", []))
    if inst.get("scaling"):
        kw["error_scaling"] = {(x[0], x[1]): float(frac(x[2])) for x in inst["scaling"]}
    if inst.get("given_weights") is not None:
        kw["solution_weights_superset"] = [models.num(q, wint) for q in inst["given_weights"]]
    if inst.get("path_length_factors"):
        kw["path_length_ranges"] = [list(r) for r in inst["path_length_ranges"]]
        kw["path_length_factors"] = [(int(frac(q)) if frac(q).denominator == 1 else float(frac(q)))
                                     for q in inst["path_length_factors"]]
    sig = inspect.signature(cls.__init__).parameters
    return cls(**{a: b for a, b in kw.items() if a in sig})


# --------------------------------------------------------------------------- the user's graph

class UG:
    """the user's graph with everything the property text talks about"""

    def __init__(self, inst):
        self.inst = inst
        self.cyc = models.is_cyc(inst["cls"])
        self.nodes = list(inst["nodes"])
        self.edges = [tuple(e) for e in inst["edges"]]
        self.f = {(u, v): frac(q) for u, v, q in inst["flow"]}
        self.scale = {(u, v): frac(q) for u, v, q in inst.get("scaling", [])}
        ign = {tuple(e) for e in inst.get("ignore", [])}
        # "non-ignored": not listed in elements_to_ignore and not scaled by 0
        self.basic = [e for e in self.edges if e not in ign and self.scale.get(e, Fraction(1)) != 0]
        self.sc = {e: self.scale.get(e, Fraction(1)) for e in self.basic}
        self.succ = {v: [] for v in self.nodes}
        indeg = {v: 0 for v in self.nodes}
        for u, v in self.edges:
            self.succ[u].append(v); indeg[v] += 1
        self.starts = [v for v in self.nodes if indeg[v] == 0 or v in set(inst.get("starts", []))]
        self.ends = {v for v in self.nodes if not self.succ[v] or v in set(inst.get("ends", []))}
        self.maxf = max([self.f[e] for e in self.basic], default=Fraction(0))
        self._routes = None

    def routes(self, caps=None):
        """distinct edge-multiplicity vectors (as dicts edge->count) of the admissible routes, or None if too many;
        `caps` (diagnosis only): per-edge multiplicity bounds replacing MULT"""
        if caps is None and self._routes is not None:
            return self._routes or None
        seen, out = set(), []
        cap = 1 if not self.cyc else MULT
        limit = len(self.edges) * cap + 1
        overflow = [False]

        def rec(v, used, nodes_seen):
            if overflow[0]:
                return
            if v in self.ends:
                key = tuple(sorted(used.items()))
                if key not in seen:
                    seen.add(key); out.append(dict(used))
                    if len(out) > MAX_ROUTES:
                        overflow[0] = True; return
            if sum(used.values()) >= limit:
                return
            for w in self.succ[v]:
                e = (v, w)
                if used.get(e, 0) >= (cap if caps is None else min(cap, caps.get(e, cap))):
                    continue
                if not self.cyc and w in nodes_seen:
                    continue
                used[e] = used.get(e, 0) + 1
                rec(w, used, nodes_seen | {w})
                used[e] -= 1
                if used[e] == 0:
                    del used[e]
        for s in self.starts:
            rec(s, {}, {s})
        if caps is not None:
            return None if overflow[0] else out
        self._routes = [] if overflow[0] else out
        return self._routes or None

    # ---- quantities of the property texts on a returned solution -----------------------------------------

    def explained(self, routes, weights):
        got = Counter()
        for r, w in zip(routes, weights):
            for e in zip(r[:-1], r[1:]):
                got[e] += frac(w)
        return got

    def abs_errors(self, routes, weights):
        got = self.explained(routes, weights)
        return {e: abs(self.f[e] - got.get(e, 0)) for e in self.basic}

    def total_scaled(self, errs):
        return sum((self.sc[e] * errs[e] for e in self.basic), Fraction(0))

    def min_cover(self, kmax=6, caps=None):
        """least number of admissible routes covering every non-ignored edge (None: no cover / too many routes)"""
        rs = self.routes(caps)
        if rs is None:
            return None
        need = set(self.basic)
        if not need:
            return 0
        sets = [frozenset(e for e in r if e in need) for r in rs]
        sets = [s for s in set(sets) if s]
        for c in range(1, kmax + 1):
            for comb in itertools.combinations(sets, c):
                if set().union(*comb) >= need:
                    return c
        return None


# --------------------------------------------------------------------------- brute-force optima

def _grid(ug, wint):
    step = Fraction(1) if wint else Fraction(1, 2)
    n = int(ug.maxf / step)
    return [step * i for i in range(n + 1)]


def _route_vectors(ug, allow_empty):
    rs = ug.routes()
    if rs is None:
        return None
    idx = {e: i for i, e in enumerate(ug.basic)}
    vecs = []
    for r in rs:
        v = [0] * len(ug.basic)
        for e, c in r.items():
            if e in idx:
                v[idx[e]] = c
        vecs.append(tuple(v))
    vecs = sorted(set(vecs))
    zero = tuple([0] * len(ug.basic))
    if allow_empty and zero not in vecs:
        vecs.append(zero)
    return vecs


WITNESS = {}     # last argmin of lae_optimum / mpe_optimum (edge-multiplicity vectors over ug.basic, weights[, slack sum])


def lae_optimum(ug, k, wint, allow_empty=False, given=None, k_user=None, budget=3_000_000, cap=None):
    """least total scaled absolute error over all choices of k routes and weights on the grid; None if not computed.
    `cap` (diagnosis only): additionally require weight * multiplicity <= cap and every error <= cap (given weights:
    every error <= cap)."""
    vecs = _route_vectors(ug, allow_empty or given is not None)
    if vecs is None or not vecs:
        return None
    f = [ug.f[e] for e in ug.basic]
    sc = [ug.sc[e] for e in ug.basic]
    m = len(f)
    best = None
    if given is not None:
        zero = tuple([0] * m)
        W = [frac(x) for x in given]
        if (len(vecs)) ** len(W) > budget:
            return None
        for choice in itertools.product(vecs, repeat=len(W)):
            if sum(1 for c in choice if c != zero) > k_user:
                # an unused layer is the empty path; a one-node route also has the zero vector but counts as used:
                # counting it as unused only enlarges the admissible set by choices of equal value
                continue
            tot = Fraction(0)
            for j in range(m):
                s = sum(W[i] * choice[i][j] for i in range(len(W)))
                if cap is not None and abs(f[j] - s) > cap:
                    tot = None; break
                tot += sc[j] * abs(f[j] - s)
            if tot is not None and (best is None or tot < best):
                best = tot
                WITNESS["lae"] = {"basic": ug.basic, "routes": choice, "weights": W}
        return best
    grid = _grid(ug, wint)
    combos = list(itertools.combinations_with_replacement(range(len(vecs)), k))
    if len(combos) * len(grid) ** k > budget:
        return None
    for combo in combos:
        rows = [vecs[i] for i in combo]
        for ws in itertools.product(grid, repeat=k):
            tot = Fraction(0)
            for j in range(m):
                s = 0
                for i in range(k):
                    if rows[i][j]:
                        s += ws[i] * rows[i][j]
                        if cap is not None and ws[i] * rows[i][j] > cap:
                            tot = None; break
                if tot is None or (cap is not None and abs(f[j] - s) > cap):
                    tot = None; break
                tot += sc[j] * abs(f[j] - s)
                if best is not None and tot >= best:
                    break
            else:
                if tot is not None and (best is None or tot < best):
                    best = tot
                    WITNESS["lae"] = {"basic": ug.basic, "routes": rows, "weights": ws}
    return best


def _min_slack(rows, req, phi, best, cap=None):
    """least sum of non-negative integer slacks with phi * sum_{i through e} mult * s_i >= req[e]; None if impossible"""
    k = len(rows)
    m = len(req)
    for j in range(m):
        if req[j] > 0 and not any(rows[i][j] for i in range(k)):
            return None
    smax = max([math.ceil(r / phi) for r in req], default=0)
    out = None
    for head in itertools.product(range(smax + 1), repeat=k - 1):
        part = sum(head)
        if (out is not None and part >= out) or (best is not None and part > best):
            continue
        last = 0
        ok = True
        for j in range(m):
            have = sum(head[i] * rows[i][j] for i in range(k - 1))
            lack = req[j] / phi - have
            if lack > 0:
                if rows[k - 1][j] == 0:
                    ok = False; break
                last = max(last, math.ceil(lack / rows[k - 1][j]))
        if ok and cap is not None:
            sl = list(head) + [last]
            ok = all(sl[i] * rows[i][j] <= cap for i in range(k) for j in range(m))
        if ok and (out is None or part + last < out):
            out = part + last
    return out


def mpe_optimum(ug, k, phi=Fraction(1), allow_empty=False, given=None, k_user=None, budget=400_000, cap=None):
    """least total slack (weight_type=int) over k routes, integer weights 0..max f and integer slacks"""
    vecs = _route_vectors(ug, allow_empty or given is not None)
    if vecs is None or not vecs:
        return None
    f = [ug.f[e] for e in ug.basic]
    sc = [ug.sc[e] for e in ug.basic]
    m = len(f)
    best = None
    if given is not None:
        zero = tuple([0] * m)
        W = [frac(x) for x in given]
        if len(vecs) ** len(W) * 20 > budget:
            return None
        for choice in itertools.product(vecs, repeat=len(W)):
            if sum(1 for c in choice if c != zero) > k_user:
                continue
            req = [abs(f[j] - sum(W[i] * choice[i][j] for i in range(len(W)))) * sc[j] for j in range(m)]
            s = _min_slack(list(choice), req, phi, best, cap)
            if s is not None and (best is None or s < best):
                best = s
                WITNESS["mpe"] = {"basic": ug.basic, "routes": choice, "weights": W, "total_slack": s}
        return best
    grid = _grid(ug, True)
    combos = list(itertools.combinations_with_replacement(range(len(vecs)), k))
    if len(combos) * len(grid) ** k * (int(ug.maxf) * k + 2) ** max(0, k - 1) > budget * 30:
        return None
    for combo in combos:
        rows = [vecs[i] for i in combo]
        for ws in itertools.product(grid, repeat=k):
            if cap is not None and any(ws[i] * rows[i][j] > cap for i in range(k) for j in range(m)):
                continue
            req = [abs(f[j] - sum(ws[i] * rows[i][j] for i in range(k))) * sc[j] for j in range(m)]
            s = _min_slack(rows, req, phi, best, cap)
            if s is not None and (best is None or s < best):
                best = s
                WITNESS["mpe"] = {"basic": ug.basic, "routes": rows, "weights": ws, "total_slack": s}
                if best == 0:
                    return best
    return best


# --------------------------------------------------------------------------- instance generator

def small_cyclic_graph(rng, max_edges=5):
    """random digraph with a cycle, <= max_edges edges, every edge on some walk from a node without in-edges to a node
    without out-edges (self-loops allowed)"""
    for _ in range(2000):
        n = rng.choice([3, 3, 4, 4, 5])
        names = gen.node_names(rng, n)
        pairs = [(a, b) for a in names for b in names]
        edges = rng.sample(pairs, rng.randint(3, max_edges))
        G = nx.DiGraph(); G.add_nodes_from(names); G.add_edges_from(edges)
        if nx.is_directed_acyclic_graph(G) or any(G.degree(v) == 0 for v in G):
            continue
        srcs = [v for v in G if G.in_degree(v) == 0]; snks = [v for v in G if G.out_degree(v) == 0]
        if not srcs or not snks:
            continue
        fw = set().union(*[nx.descendants(G, x) | {x} for x in srcs])
        bw = set().union(*[nx.ancestors(G, x) | {x} for x in snks])
        if all(u in fw and v in bw for u, v in edges):
            order = list(names); rng.shuffle(order)
            return order, edges
    return ["s", "a", "b", "t"], [("s", "a"), ("a", "b"), ("b", "a"), ("a", "t")]


def small_instance(rng, cls, max_edges=None, maxf=4):
    """random small instance of an error model: arbitrary (non-conserving) non-negative integer values"""
    cyc = models.is_cyc(cls)
    max_edges = max_edges or (5 if cyc else 6)
    for _ in range(500):
        if cyc:
            nodes, edges = small_cyclic_graph(rng, max_edges)
        else:
            nodes, edges = gen.dag(rng, n=rng.randint(2, 5), min_edges=rng.choice([1, 2, 3]))
            touched = {x for e in edges for x in e}
            nodes = [v for v in nodes if v in touched]
        if len(edges) <= max_edges:
            break
    else:
        nodes, edges = ["a", "b", "c"], [("a", "b"), ("b", "c")]
    wint = rng.random() < 0.75
    if rng.random() < 0.5:
        if cyc:
            fl, _, _ = models.walk_flow(rng, nodes, edges, weights=(1, 2))
        else:
            fl, _, _ = gen.flow_from_paths(rng, nodes, edges, weights=(1, 2), npaths=rng.randint(0, 1))
        for e in list(fl):
            if rng.random() < 0.3:
                fl[e] = max(0, fl[e] + rng.choice([-1, 1, 2]))
        fl = {e: min(v, maxf) for e, v in fl.items()}
    else:
        fl = {e: (0 if rng.random() < 0.15 else rng.randint(1, maxf)) for e in edges}
    if all(v == 0 for v in fl.values()):
        fl[edges[0]] = 1
    inst = {"cls": cls, "nodes": list(nodes), "edges": [list(e) for e in edges], "origin": "edge",
            "weight_type": "int" if wint else "float", "ignore": [], "starts": [], "ends": [], "scaling": [],
            "options": {}, "flow": [[u, v, qstr(fl[(u, v)])] for (u, v) in edges], "k": rng.choice([1, 1, 2, 2, 3])}
    if rng.random() < 0.45:
        inst["scaling"] = [[u, v, rng.choice(["0", "1/4", "1/2", "1"])] for (u, v) in edges if rng.random() < 0.5]
    if rng.random() < 0.25 and len(edges) > 1:
        inst["ignore"] = [list(e) for e in rng.sample(edges, rng.randint(1, max(1, len(edges) // 3)))]
    if rng.random() < 0.25:
        inst["starts"] = rng.sample(nodes, 1)
        inst["ends"] = rng.sample(nodes, 1)
    # the properties are about inputs with some non-ignored edge of positive value
    dead = {tuple(e) for e in inst["ignore"]} | {(u, v) for u, v, q in inst["scaling"] if q == "0"}
    if all(e in dead or fl[e] == 0 for e in edges):
        e = edges[0]
        inst["ignore"] = [x for x in inst["ignore"] if tuple(x) != e]
        inst["scaling"] = [x for x in inst["scaling"] if (x[0], x[1]) != e]
        inst["flow"] = [[u, v, ("1" if (u, v) == e and fl[e] == 0 else q)] for u, v, q in inst["flow"]]
    return inst
