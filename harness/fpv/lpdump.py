"""Canonical text form of an LP, from a real highspy model and from the Lean driver's dump.
Both go through the same canonicaliser: merge duplicate terms, drop zero coefficients, sort terms by
variable name, normalise the sign (first coefficient positive), sort rows; synthetic node ids renamed."""
import re
from fractions import Fraction
from .common import frac, qstr

INF = float("inf")
_src = re.compile(r"source_\d+")
_snk = re.compile(r"sink_\d+")


def rename(name: str) -> str:
    return _snk.sub("sink", _src.sub("source", name))


def _b(x, neg):
    if x is None or x == (-INF if neg else INF) or (isinstance(x, float) and abs(x) >= 1e300):
        return None
    return frac(x)


def _bs(x, neg):
    return ("-inf" if neg else "inf") if x is None else qstr(x)


def canon_row(terms, lo, hi):
    """terms: list of (Fraction, name); lo/hi Fraction or None"""
    acc = {}
    for c, n in terms:
        acc[n] = acc.get(n, Fraction(0)) + c
    items = sorted((n, c) for n, c in acc.items() if c != 0)
    if not items:
        # a row without variables says lo <= 0 <= hi: only whether that holds matters (0 >= 0 and 0 <= 0 are the same row)
        if (lo is None or lo <= 0) and (hi is None or hi >= 0):
            return "row <empty> satisfied"
        return f"row {_bs(lo, True)} {_bs(hi, False)} <empty>"
    if items[0][1] < 0:
        items = [(n, -c) for n, c in items]
        lo, hi = (None if hi is None else -hi), (None if lo is None else -lo)
    return f"row {_bs(lo, True)} {_bs(hi, False)} " + " ".join(f"{qstr(c)}*{n}" for n, c in items)


def canon_obj(sense, const, terms):
    acc = {}
    for c, n in terms:
        acc[n] = acc.get(n, Fraction(0)) + c
    items = sorted((n, c) for n, c in acc.items() if c != 0)
    if not items:
        sense = "min"   # an all-zero objective: the sense is immaterial
    return f"obj {sense} {qstr(const)} " + " ".join(f"{qstr(c)}*{n}" for n, c in items)


def from_highs(h):
    """h: highspy.Highs (flush queued bound updates before calling)"""
    lp = h.getLp()
    names = [rename(n) for n in lp.col_names_]
    if len(set(names)) != len(names):
        raise ValueError("duplicate column names in the real LP")
    out = []
    integ = list(lp.integrality_)
    for j, n in enumerate(names):
        isint = (len(integ) > j and int(integ[j]) == 1)
        out.append(f"col {n} {_bs(_b(lp.col_lower_[j], True), True)} {_bs(_b(lp.col_upper_[j], False), False)} "
                   + ("int" if isint else "cont"))
    A = lp.a_matrix_
    start, index, value = list(A.start_), list(A.index_), list(A.value_)
    if str(A.format_).endswith("kRowwise"):
        for r in range(lp.num_row_):
            terms = [(frac(value[p]), names[index[p]]) for p in range(start[r], start[r + 1])]
            out.append(canon_row(terms, _b(lp.row_lower_[r], True), _b(lp.row_upper_[r], False)))
    else:
        rows = [[] for _ in range(lp.num_row_)]
        for j in range(lp.num_col_):
            for p in range(start[j], start[j + 1]):
                rows[index[p]].append((frac(value[p]), names[j]))
        for r in range(lp.num_row_):
            out.append(canon_row(rows[r], _b(lp.row_lower_[r], True), _b(lp.row_upper_[r], False)))
    sense = "max" if str(lp.sense_).endswith("kMaximize") else "min"
    out.append(canon_obj(sense, frac(lp.offset_), [(frac(c), names[j]) for j, c in enumerate(lp.col_cost_)]))
    return sorted(out)


def _terms(parts):
    ts = []
    for t in parts:
        if not t:
            continue
        c, n = t.split("*", 1)
        ts.append((Fraction(c), n))
    return ts


def from_driver(items):
    out = []
    for it in items:
        f = it.split("\t")
        if f[0] == "col":
            lb = None if f[2] == "-inf" else Fraction(f[2])
            ub = None if f[3] == "inf" else Fraction(f[3])
            out.append(f"col {f[1]} {_bs(lb, True)} {_bs(ub, False)} {f[4]}")
        elif f[0] == "row":
            lo = None if f[1] == "-inf" else Fraction(f[1])
            hi = None if f[2] == "inf" else Fraction(f[2])
            out.append(canon_row(_terms(f[3:]), lo, hi))
        elif f[0] == "obj":
            out.append(canon_obj(f[1], Fraction(f[2]), _terms(f[3:])))
    return sorted(out)


def diff(a, b, limit=12):
    sa, sb = set(a), set(b)
    from collections import Counter
    ca, cb = Counter(a), Counter(b)
    only_a = sorted((ca - cb).elements())
    only_b = sorted((cb - ca).elements())
    return {"only_impl": only_a[:limit], "only_model": only_b[:limit],
            "n_only_impl": len(only_a), "n_only_model": len(only_b)}
