"""Generic life cycle of a property check (see run.py)."""
import json, os, sys, time, traceback
from . import common
from .common import Report, Infra, write_replay, load_known

TRUSTED_COMMON = [
    "Lean 4.33.0 kernel; axioms limited to propext, Classical.choice, Quot.sound (audited per theorem on every run)",
    "the hand-written Lean model is the same function as the Python code: checked on every run by the correspondence suites listed under coverage.suites (differential testing strength)",
    "CPython 3.12 / networkx 3.6.1 / highspy 1.15.1 behave as documented",
]


class Ctx:
    def __init__(self, pid, tier, report):
        self.pid, self.tier, self.rep = pid, tier, report
        self.rng = __import__("random").Random(common.seed() * 1000003 + sum(map(ord, pid)))
        self.driver = None
        self.fp = None
        self.disagreements = []   # [{'suite':..., 'input':..., 'impl':..., 'model':...}]
        self.violations = []      # [{'what':..., 'input':..., 'site':...}]
        self.broken_obligations = []

    def quick(self):
        return self.tier == "quick"

    def n(self, q, t):
        return q if self.tier == "quick" else t

    # ---- the search ranges of the Min* wrappers as the model has them (mirrors the code) --------
    def model_hi(self, cls, m):
        """exclusive upper end of `range(lb, hi)` in the wrapper's solve()"""
        from . import searchmodel
        return searchmodel.hi(cls, m)

    def model_kind(self, cls):
        from . import searchmodel
        return searchmodel.kind(cls)

    def disagree(self, suite, inp, impl, model, note=""):
        self.rep.suite(suite)["disagreements"] += 1
        self.rep.cov["disagreements_checked"] += 1
        if len(self.disagreements) < 50:
            self.disagreements.append({"suite": suite, "input": inp, "impl": impl, "model": model, "note": note})

    def violation(self, what, inp, site=""):
        # manifestations of a listed finding must not crowd out a different violation: at most 3 are kept per finding,
        # 50 of the others
        v = {"what": what, "input": inp, "site": site}
        if not hasattr(self, "_known"):
            self._known = common.load_known()
            self._known_kept = {}
            self._new_kept = 0
        f = matches_known(self.pid, v, self._known)
        if f:
            self._known_kept[f["id"]] = self._known_kept.get(f["id"], 0) + 1
            if self._known_kept[f["id"]] <= 3:
                self.violations.append(v)
        elif self._new_kept < 50:
            self._new_kept += 1
            self.violations.append(v)


def matches_known(pid, v, known):
    """a violation is known iff a listed finding of this property names its site and its matcher holds"""
    for f in known.get("findings", []):
        if f.get("property") != pid:
            continue
        if f.get("site") and f["site"] != v.get("site"):
            continue
        m = f.get("match")
        if m is None:
            return f
        try:
            env = {"__builtins__": {"len": len, "any": any, "all": all, "max": max, "min": min, "set": set,
                                    "str": str, "int": int, "float": float, "abs": abs, "sum": sum,
                                    "isinstance": isinstance, "list": list, "dict": dict, "sorted": sorted},
                   "v": v, "input": v.get("input"), "what": v.get("what", "")}
            if eval(m, env):
                return f
        except Exception:
            continue
    return None


def run_property(pid, mod, tier, replay):
    rep = Report(pid, tier)
    ctx = Ctx(pid, tier, rep)
    t0 = time.time()
    # ---------------------------------------------------------------- proof part
    pre = getattr(mod, "pre_build", None)
    if pre:                       # K4 translators regenerate Lean tables from /repo's source here
        pre(ctx)
    else:                         # every run leaves the generated tables in step with /repo's current source
        import extract
        extract.regenerate(common.REPO)
    theorems = list(getattr(mod, "THEOREMS", []))
    imports = list(getattr(mod, "IMPORTS", []))
    # the executable model (driver) and the modules holding this property's theorems are built separately: an obligation
    # of another property that no longer checks is that property's business
    ok_driver, log = common.lean_build(("fpdriver",))
    ok = ok_driver
    if ok_driver and imports:
        ok, log = common.lean_build(tuple("+" + m for m in imports))
    discharged = 0
    audit_detail = {}
    if not ok:
        ctx.broken_obligations.append({"kind": "lake build failed", "log_tail": log[-3000:],
                                       "what": "the executable model (fpdriver)" if not ok_driver else
                                               "the modules of this property's theorems: " + ", ".join(imports)})
    else:
        hits = common.hygiene()
        if hits:
            print("\n".join(hits))
            raise Infra("forbidden construct (sorry/axiom/native_decide/...) in the Lean sources")
        res, out = common.audit(theorems, imports)
        for t, ax in res.items():
            if ax is None:
                ctx.broken_obligations.append({"kind": "theorem missing or failing", "theorem": t})
                audit_detail[t] = "FAILED"
            elif not ax <= common.ALLOWED_AXIOMS:
                ctx.broken_obligations.append({"kind": "disallowed axioms", "theorem": t, "axioms": sorted(ax)})
                audit_detail[t] = sorted(ax)
            else:
                discharged += 1
                audit_detail[t] = sorted(ax)
        if tier == "thorough" and imports:
            lc_ok, lc_out, lc_n = common.leanchecker(imports)
            rep.cov["leanchecker"] = {"modules_replayed": lc_n, "ok": lc_ok}
            if not lc_ok:
                ctx.broken_obligations.append({"kind": "leanchecker rejected a compiled module", "log_tail": lc_out})
    rep.cov["theorems"] = audit_detail
    # ---------------------------------------------------------------- correspondence + oracles
    ctx.fp = common.import_flowpaths()
    if ok_driver:
        ctx.driver = common.Driver()
    try:
        if replay:
            mod.replay(ctx, json.load(open(replay)))
        elif ok_driver:
            # (also when a proof obligation broke: the ties and oracles are the first place to look for a failing input)
            # listed findings are replayed first from their stored minimal inputs: a finding that no longer
            # fails simply produces no KNOWN-FINDING line
            fc = getattr(mod, "finding_case", None)
            if fc:
                for f in load_known().get("findings", []):
                    if f.get("property") == pid and f.get("minimal_input") is not None:
                        fc(ctx, f["minimal_input"])
            try:
                mod.run(ctx)
            except Infra:
                raise
            except Exception as e:
                # an exception that escapes from /repo's code while the harness drives it (a call the unchanged tree answers)
                # is the implementation's behaviour, not a harness error: record it as a broken tie and go on to the search
                tb = traceback.extract_tb(e.__traceback__)
                inrepo = [fr for fr in tb if str(common.REPO) in fr.filename]
                if not inrepo:
                    raise
                where = f"{os.path.relpath(inrepo[-1].filename, common.REPO)}:{inrepo[-1].lineno} ({inrepo[-1].name})"
                print(f"[{pid}] the real code raised {type(e).__name__}: {str(e)[:200]} at {where} while the harness was driving it")
                ctx.disagree("harness.call_into_repo", {"where": where, "harness_frame": f"{tb[-len(inrepo)-1].name if len(tb) > len(inrepo) else '?'}"},
                             f"{type(e).__name__}: {str(e)[:300]}", "the unchanged tree answers this call", note="unexpected exception from /repo")
        # ------------------------------------------------------------ failing-input search
        _kn = load_known()
        if (ctx.disagreements or ctx.broken_obligations) and not [v for v in ctx.violations if not matches_known(pid, v, _kn)]:
            search = getattr(mod, "search", None)
            if search:
                try:
                    search(ctx)
                except AttributeError as e:
                    if ctx.driver is not None or "NoneType" not in str(e):
                        raise
                    print(f"[{pid}] failing-input search stopped: the executable model did not build")
    finally:
        if ctx.driver:
            ctx.driver.close()
    # ---------------------------------------------------------------- classification
    known = load_known()
    new_violations = []
    seen_known = {}
    for v in ctx.violations:
        f = matches_known(pid, v, known)
        if f:
            seen_known.setdefault(f["id"], (f, v))
        else:
            new_violations.append(v)
    for fid, (f, v) in seen_known.items():
        line = f"KNOWN-FINDING: property={pid} {f['what']} [{fid}]"
        print(line)
        rep.cov["known_findings"].append(line)
    rc = 0
    if new_violations:
        v = new_violations[0]
        path = write_replay(pid, "violation", {"property": pid, "kind": "failing input on the real code",
                                              "what": v["what"], "site": v.get("site"), "input": v["input"],
                                              "all": new_violations[:10]})
        rep.violations = new_violations
        print(f"VIOLATION property={pid} replay={path}")
        print("  " + v["what"][:400])
        rc = 1
    elif ctx.disagreements or ctx.broken_obligations:
        # the tie between model and code (or a proof obligation) no longer checks and no failing
        # input was found: the property is no longer shown to hold
        unexplained_d = [d for d in ctx.disagreements if not d.get("explained_by_known")]
        if unexplained_d or ctx.broken_obligations:
            path = write_replay(pid, "broken_tie", {"property": pid,
                                                   "kind": "proof obligation or correspondence no longer checks",
                                                   "broken_obligations": ctx.broken_obligations,
                                                   "disagreements": unexplained_d[:10]})
            rep.violations = [{"what": "tie broken"}]
            names = [b.get("theorem", b["kind"]) for b in ctx.broken_obligations] + sorted({d["suite"] for d in unexplained_d})
            print(f"VIOLATION property={pid} replay={path} no-failing-input-found")
            print("  no longer checks: " + ", ".join(names)[:400])
            rc = 1
    rep.assumptions = list(getattr(mod, "ASSUMPTIONS", []))
    rep.cov["rule"] = getattr(mod, "RULE", "")
    rep.cov["model_scope"] = getattr(mod, "MODEL_SCOPE", "")
    rep.write(obligations=max(1, len(theorems)), discharged=discharged,
              trusted=TRUSTED_COMMON + list(getattr(mod, "TRUSTED", [])),
              checker_cmd="cd lean && lake build FP fpdriver && lake env lean <generated #print axioms file for: "
                          + ", ".join(theorems[:40]) + ">")
    print(f"[{pid}] tier={tier} seed={common.seed()} theorems={discharged}/{len(theorems)} "
          f"cases={rep.cov['evaluations']} nontrivial={rep.cov['distinct_nontrivial']} "
          f"disagreements={len(ctx.disagreements)} violations={len(new_violations)} "
          f"known={len(seen_known)} wall={time.time()-t0:.1f}s")
    return rc
