"""K2 suite runner shared by the property checks: LP-dump equality for a list of encoder adapters."""
import importlib, json
from . import lpdump
from .common import Infra

EXPECTED_CTOR_ERRORS = ("ValueError",)


def run_k2(ctx, adapters, n_each, suite_prefix="K2"):
    """for each adapter module name run n_each generated configurations; records disagreements"""
    for name in adapters:
        mod = importlib.import_module("enc." + name)
        suite = f"{suite_prefix}.{name}"
        done = tries = 0
        while done < n_each and tries < 4 * n_each:
            tries += 1
            cfg = mod.gen_cfg(ctx.rng)
            try:
                m = mod.build_real(ctx.fp, cfg)
            except Infra:
                raise
            except Exception as e:     # rejected configuration (option conflicts etc.); judged by C19, not here
                key = "ctor " + type(e).__name__
                ctx.rep.suite(suite)["histogram"][key] = ctx.rep.suite(suite)["histogram"].get(key, 0) + 1
                continue
            sw = mod.solver_of(m) if hasattr(mod, "solver_of") else getattr(m, "solver", None)
            if sw is None:
                continue
            sw._apply_pending_bound_updates()
            a = lpdump.from_highs(sw.solver)
            try:
                b = lpdump.from_driver(ctx.driver.call(mod.to_request(cfg)))
            except Infra as e:
                if "driver error:" not in str(e):
                    raise
                # the model refuses a configuration the real constructor accepted (e.g. the data captured from the real run
                # - trusted set, safe lists - is not what the model computes itself): model and code disagree
                done += 1
                ctx.rep.count(suite, cfg, nontrivial=True, hist=[name, "model refuses"])
                ctx.disagree(suite, cfg, {"lp_lines": len(a)}, {"model_error": str(e)[:400]},
                             note="the Lean model refuses a configuration the real constructor accepts")
                continue
            done += 1
            feats = mod.features(cfg) if hasattr(mod, "features") else []
            ctx.rep.count(suite, cfg, nontrivial=len(a) > 8, hist=[name] + feats)
            if done == 1:
                ctx.rep.sample({"suite": suite, "config": cfg, "lp_lines": len(a), "first_rows": [l for l in a if l.startswith("row")][:3]})
            if a != b:
                ctx.disagree(suite, cfg, lpdump.diff(a, b), None, note="LP of the real constructor differs from the Lean generator")
