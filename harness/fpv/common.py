"""Shared plumbing of the flowpaths verification harness.

* locating /repo (FLOWPATHS_REPO) and importing the real package from it
* building the Lean project, hygiene grep, `#print axioms` audit
* the line-protocol client of the Lean driver
* evidence files, violation / known-finding reporting
"""
import json, os, re, subprocess, sys, time, random, hashlib, shutil
from fractions import Fraction
from pathlib import Path

VERIF = Path(__file__).resolve().parents[2]
LEAN = VERIF / "lean"
REPO = Path(os.environ.get("FLOWPATHS_REPO", "/repo")).resolve()
EVID = VERIF / "evidence"
REPLAYS = VERIF / "replays"
CORPUS = VERIF / "corpus"
ALLOWED_AXIOMS = {"propext", "Classical.choice", "Quot.sound"}
FORBIDDEN = re.compile(r"\b(sorry|admit|native_decide|bv_decide|implemented_by)\b|^\s*axiom\s|unsafe\s|maxHeartbeats\s+0\b")

os.environ.setdefault("FLOWPATHS_VERIF", "1")


class Infra(Exception):
    """infrastructure failure: exit code 2, never a violation"""


def seed() -> int:
    try:
        return int(os.environ.get("VERIF_SEED", "0"))
    except ValueError:
        return 0


def import_flowpaths():
    """import the package from the tree under test and make sure that is what we got"""
    sys.path.insert(0, str(REPO))
    import warnings
    warnings.filterwarnings("ignore")
    import logging
    import flowpaths
    here = Path(flowpaths.__file__).resolve()
    if REPO not in here.parents:
        raise Infra(f"flowpaths imported from {here}, not from {REPO}")
    set_package_logging(flowpaths, os.environ.get("VERIF_LOGGING", "debug") == "debug")
    return flowpaths


def set_package_logging(flowpaths, debug):
    """the package logger at DEBUG level with every record going to a NullHandler (default of all checks: code behind
    `isEnabledFor(DEBUG)` / inside debug messages runs, nothing is printed), or silenced altogether. What a model
    returns must not depend on it; C20 alternates between the two, VERIF_LOGGING=off silences everything."""
    import logging
    lg = getattr(getattr(flowpaths, "utils", None), "logger", None)
    if lg is None:
        logging.disable(logging.CRITICAL)
        return
    if debug:
        logging.disable(logging.NOTSET)
        for h in lg.handlers[:]:
            lg.removeHandler(h)
        lg.addHandler(logging.NullHandler())
        lg.propagate = False
        lg.setLevel(logging.DEBUG)
    else:
        lg.setLevel(logging.CRITICAL)
        logging.disable(logging.CRITICAL)


# ----------------------------------------------------------------------------- Lean side

def run(cmd, cwd=None, timeout=3600, env=None):
    p = subprocess.run(cmd, cwd=cwd, stdout=subprocess.PIPE, stderr=subprocess.STDOUT, text=True,
                       timeout=timeout, env=env)
    return p.returncode, p.stdout


_built = {}


def lean_build(targets=("FP", "fpdriver")):
    """incremental `lake build`; returns (ok, log)"""
    key = tuple(targets)
    if key in _built:
        return _built[key]
    rc, out = run(["lake", "build", *targets], cwd=LEAN, timeout=3000)
    _built[key] = (rc == 0, out)
    return _built[key]


def fp_closure(mods):
    """the modules of this project that `mods` import, transitively (read off the `import` lines)"""
    seen, todo = [], list(mods)
    while todo:
        m = todo.pop()
        if m in seen or not m.startswith("FP"):
            continue
        f = LEAN / (m.replace(".", "/") + ".lean")
        if not f.exists():
            continue
        seen.append(m)
        for line in f.read_text().split("\n"):
            mm = re.match(r"\s*import\s+(FP[\w.]*)", line)
            if mm:
                todo.append(mm.group(1))
    return sorted(seen)


def leanchecker(mods):
    """independent replay of the compiled declarations of `mods` (and what they import inside this project) through the
    kernel by the toolchain's `leanchecker`; returns (ok, output tail, number of modules)"""
    cl = fp_closure(mods)
    rc, out = run(["lake", "env", "leanchecker", *cl], cwd=LEAN, timeout=3000)
    return rc == 0, out[-2000:], len(cl)


def lean_sources():
    return sorted(p for p in (LEAN / "FP").rglob("*.lean")) + [LEAN / "Driver.lean"]


def strip_comments(text: str) -> str:
    # remove /- ... -/ (nested) and -- comments
    out, i, depth = [], 0, 0
    while i < len(text):
        if text.startswith("/-", i):
            depth += 1; i += 2; continue
        if depth and text.startswith("-/", i):
            depth -= 1; i += 2; continue
        if depth:
            if text[i] == "\n":
                out.append("\n")
            i += 1; continue
        if text.startswith("--", i):
            while i < len(text) and text[i] != "\n":
                i += 1
            continue
        out.append(text[i]); i += 1
    return "".join(out)


def hygiene():
    """forbidden constructs outside comments; list of 'file:line: text'"""
    hits = []
    for p in lean_sources():
        body = strip_comments(p.read_text())
        for n, line in enumerate(body.split("\n"), 1):
            if FORBIDDEN.search(line):
                hits.append(f"{p.relative_to(LEAN)}:{n}: {line.strip()[:100]}")
    return hits


def audit(theorems, imports):
    """`#print axioms` for every theorem; returns {name: set(axioms) | None if it failed}"""
    src = "".join(f"import {m}\n" for m in imports) + "".join(f"#print axioms {t}\n" for t in theorems)
    tmp = LEAN / ".lake" / f"audit_{os.getpid()}.lean"
    tmp.parent.mkdir(exist_ok=True)
    tmp.write_text(src)
    try:
        rc, out = run(["lake", "env", "lean", str(tmp)], cwd=LEAN, timeout=1800)
    finally:
        try:
            tmp.unlink()
        except OSError:
            pass
    res = {t: None for t in theorems}
    # messages: "'name' depends on axioms: [a, b]"  or "'name' does not depend on any axioms"
    flat = re.sub(r"\s+", " ", out)
    for t in theorems:
        m = re.search(r"'" + re.escape(t) + r"' depends on axioms: \[([^\]]*)\]", flat)
        if m:
            res[t] = {a.strip() for a in m.group(1).split(",") if a.strip()}
        elif re.search(r"'" + re.escape(t) + r"' does not depend on any axioms", flat):
            res[t] = set()
    return res, out


class Driver:
    """client of the compiled Lean driver (lean/.lake/build/bin/fpdriver)"""

    def __init__(self):
        exe = LEAN / ".lake" / "build" / "bin" / "fpdriver"
        if not exe.exists():
            raise Infra("driver executable missing (lake build fpdriver)")
        self.p = subprocess.Popen([str(exe)], stdin=subprocess.PIPE, stdout=subprocess.PIPE, text=True, bufsize=1)
        self.calls = 0

    def call(self, req: dict):
        self.p.stdin.write(json.dumps(req) + "\n")
        self.p.stdin.flush()
        line = self.p.stdout.readline()
        if not line:
            raise Infra("driver died on " + json.dumps(req)[:300])
        self.calls += 1
        ans = json.loads(line)
        if "error" in ans:
            raise Infra("driver error: " + ans["error"] + " on " + json.dumps(req)[:300])
        return ans["ok"]

    def close(self):
        try:
            self.p.stdin.close(); self.p.wait(timeout=5)
        except Exception:
            self.p.kill()


# ----------------------------------------------------------------------------- numbers

def frac(x) -> Fraction:
    if isinstance(x, Fraction):
        return x
    if isinstance(x, bool):
        return Fraction(int(x))
    if isinstance(x, int):
        return Fraction(x)
    if isinstance(x, float):
        return Fraction(x)  # exact binary value
    if isinstance(x, str):
        return Fraction(x)
    try:
        import numpy as np
        if isinstance(x, np.generic):
            return frac(x.item())
    except ImportError:
        pass
    raise TypeError(f"cannot convert {x!r}")


def qstr(x) -> str:
    f = frac(x)
    return str(f.numerator) if f.denominator == 1 else f"{f.numerator}/{f.denominator}"


# ----------------------------------------------------------------------------- reporting

class Report:
    """collects what a check did and writes evidence/<id>.json"""

    def __init__(self, pid: str, tier: str):
        self.pid, self.tier = pid, tier
        self.t0 = time.time()
        self.cov = {"evaluations": 0, "distinct_nontrivial": 0, "rule": "", "samples": [],
                    "traces_validated_against_impl": 0, "disagreements_checked": 0,
                    "oracle_evaluations": 0, "suites": {}, "known_findings": []}
        self.assumptions = []
        self.violations = []      # list of dict(kind, what, replay)
        self.known_lines = []
        self._distinct = set()
        self._last = time.time()
        self._slow = []           # (seconds, suite, key) of the slowest cases, for the evidence file

    # suites ---------------------------------------------------------------
    def suite(self, name):
        return self.cov["suites"].setdefault(name, {"cases": 0, "nontrivial": 0, "disagreements": 0, "histogram": {}})

    def count(self, suite, key, nontrivial=False, hist=None):
        s = self.suite(suite)
        s["cases"] += 1
        self.cov["evaluations"] += 1
        now = time.time()
        dt, self._last = now - self._last, now
        if dt > 3 and (len(self._slow) < 8 or dt > self._slow[-1][0]):
            self._slow.append((round(dt, 1), suite, json.dumps(key, default=str)[:600]))
            self._slow.sort(key=lambda x: -x[0]); del self._slow[8:]
        h = hashlib.sha1(json.dumps([suite, key], sort_keys=True, default=str).encode()).hexdigest()
        if nontrivial and h not in self._distinct:
            self._distinct.add(h)
            s["nontrivial"] += 1
            self.cov["distinct_nontrivial"] += 1
        for k in (hist or []):
            s["histogram"][k] = s["histogram"].get(k, 0) + 1

    def sample(self, obj, limit=6):
        if len(self.cov["samples"]) < limit:
            self.cov["samples"].append(obj)

    # outcome --------------------------------------------------------------
    def write(self, obligations=None, discharged=None, trusted=None, level="proof", checker_cmd=None):
        EVID.mkdir(exist_ok=True)
        cov = dict(self.cov)
        if obligations is not None:
            cov["obligations"] = obligations
            cov["discharged"] = discharged
            cov["checker_cmd"] = checker_cmd or "cd lean && lake build FP && lake env lean <audit file with #print axioms>"
            cov["trusted_base"] = trusted or []
        if self._slow:
            cov["slowest_cases_s"] = [list(x) for x in self._slow]
        if not cov["samples"]:
            cov["samples"] = ["(no case executed)"]
        ev = {"property_id": self.pid, "tier": self.tier, "seed": seed(), "level": level,
              "coverage": cov, "assumptions": self.assumptions,
              "wall_s": round(time.time() - self.t0, 2), "violations": len(self.violations)}
        (EVID / f"{self.pid}.json").write_text(json.dumps(ev, indent=1, default=str))
        return ev


def write_replay(pid: str, name: str, payload: dict) -> Path:
    d = REPLAYS / pid
    d.mkdir(parents=True, exist_ok=True)
    p = d / f"{name}.json"
    p.write_text(json.dumps(payload, indent=1, default=str))
    return p


def load_known():
    p = VERIF / "known_findings.json"
    if not p.exists():
        return {"findings": [], "fixed": []}
    return json.loads(p.read_text())
