"""Generators: DAGs, digraphs built from SCC shapes, flows as superpositions of weighted routes."""
import random
from fractions import Fraction

NAMES = ["a", "b", "c", "d", "e", "f", "g", "h", "x.0", "7", "y.1.0", "n1", "n2", "q", "t", "s", "z1", "z2", "z3", "0", "a_b", "c_d", "b_d"]   # (z<n>, 0: names that look like the helper nodes the library creates itself)


def node_names(rng, n, hostile=True):
    pool = list(NAMES) if hostile else [f"v{i}" for i in range(40)]
    pool += [f"u{i}" for i in range(n)]
    rng.shuffle(pool)
    out = []
    for x in pool:
        if x not in out:
            out.append(x)
        if len(out) == n:
            break
    return out


def dag(rng, n=None, p=None, max_nodes=7, min_edges=1):
    """random DAG on n nodes: returns (nodes, edges) in networkx insertion order (no isolated nodes
    unless n == 1 is impossible: at least one edge)"""
    n = n or rng.randint(2, max_nodes)
    p = p if p is not None else rng.choice([0.25, 0.4, 0.6])
    names = node_names(rng, n)
    order = list(range(n))
    edges = []
    for i in range(n):
        for j in range(i + 1, n):
            if rng.random() < p:
                edges.append((names[order[i]], names[order[j]]))
    if not edges:
        edges.append((names[0], names[1]))
    guard = 0
    while len(edges) < min_edges and guard < 200:
        guard += 1
        i, j = sorted(rng.sample(range(n), 2))
        if (names[i], names[j]) not in edges:
            edges.append((names[i], names[j]))
    rng.shuffle(edges)
    node_order = list(names)
    rng.shuffle(node_order)
    # networkx: nodes as first inserted; we add nodes explicitly first
    return node_order, edges


def st_paths(nodes, edges, limit=200):
    """all source-to-sink paths (sources: indeg 0, sinks: outdeg 0) up to `limit`"""
    succ = {v: [] for v in nodes}
    indeg = {v: 0 for v in nodes}
    for u, v in edges:
        succ[u].append(v); indeg[v] += 1
    srcs = [v for v in nodes if indeg[v] == 0]
    out = []

    def rec(p):
        if len(out) >= limit:
            return
        v = p[-1]
        if not succ[v]:
            out.append(list(p)); return
        for w in succ[v]:
            rec(p + [w])
    for s in srcs:
        rec([s])
    return out


def random_path(rng, nodes, edges, start=None):
    succ = {v: [] for v in nodes}
    indeg = {v: 0 for v in nodes}
    for u, v in edges:
        succ[u].append(v); indeg[v] += 1
    srcs = [v for v in nodes if indeg[v] == 0]
    v = start or rng.choice(srcs)
    p = [v]
    while succ[v]:
        v = rng.choice(succ[v]); p.append(v)
    return p


def flow_from_paths(rng, nodes, edges, npaths=None, weights=(1, 2, 3, 5, 8), cover=True, wtype=int):
    """conserving flow as a superposition of weighted source-to-sink paths; covers every edge when
    `cover` (so the flow is strictly positive)"""
    paths = []
    if cover:
        left = set(edges)
        guard = 0
        while left and guard < 200:
            guard += 1
            p = random_path(rng, nodes, edges)
            pe = set(zip(p[:-1], p[1:]))
            if pe & left or not paths:
                paths.append(p); left -= pe
        # isolated nodes contribute nothing
    for _ in range(npaths if npaths is not None else rng.randint(0, 2)):
        paths.append(random_path(rng, nodes, edges))
    ws = [wtype(rng.choice(weights)) for _ in paths]
    f = {e: wtype(0) for e in edges}
    for p, w in zip(paths, ws):
        for e in zip(p[:-1], p[1:]):
            f[e] += w
    return f, paths, ws


def subpaths(rng, nodes, edges, n=None, maxlen=3, contiguous=True):
    """random subpath constraints taken from real source-sink paths"""
    out = []
    for _ in range(n if n is not None else rng.randint(1, 2)):
        p = random_path(rng, nodes, edges)
        es = list(zip(p[:-1], p[1:]))
        if not es:
            continue
        if contiguous:
            i = rng.randrange(len(es)); j = min(len(es), i + rng.randint(1, maxlen))
            out.append(es[i:j])
        else:
            m = rng.randint(1, min(maxlen, len(es)))
            idx = sorted(rng.sample(range(len(es)), m))
            out.append([es[t] for t in idx])
    return out


def digraph_scc(rng, max_nodes=6):
    """digraph with cycles: a random DAG skeleton whose nodes are replaced by small SCC shapes;
    guarantees at least one source-like and one sink-like node after construction is NOT enforced here
    (callers check)"""
    nodes, edges = dag(rng, n=rng.randint(2, max(2, max_nodes - 2)))
    edges = list(edges)
    extra_nodes = []
    for v in list(nodes):
        r = rng.random()
        if r < 0.25:
            edges.append((v, v))                       # self loop
        elif r < 0.5:
            w = f"{v}_c"; extra_nodes.append(w)
            edges += [(v, w), (w, v)]                  # 2-cycle
        elif r < 0.6:
            w1, w2 = f"{v}_c1", f"{v}_c2"; extra_nodes += [w1, w2]
            edges += [(v, w1), (w1, w2), (w2, v), (w1, v)]   # nested cycles
    # occasionally a back edge between skeleton nodes
    if rng.random() < 0.3 and len(nodes) >= 3:
        u, v = rng.sample(nodes, 2)
        if (u, v) not in edges:
            edges.append((u, v))
    nodes = nodes + extra_nodes
    seen = set(); e2 = []
    for e in edges:
        if e not in seen:
            seen.add(e); e2.append(e)
    return nodes, e2


def arbitrary_flow(rng, edges, values=(1, 2, 3, 5, 8), p_zero=0.2, wtype=int):
    """non-conserving edge values (for the error models): every edge draws independently from `values`,
    or 0 with probability `p_zero`"""
    return {e: (wtype(0) if rng.random() < p_zero else wtype(rng.choice(values))) for e in edges}


def length_ranges(rng, top=100, max_pieces=3, factors=(1, 2, 0.5, 1.5, 1.25, 3)):
    """consecutive integer ranges [0,a],[a+1,b],...,[.., top] with one factor per range
    (`path_length_ranges` / `path_length_factors` of kMinPathError)"""
    pieces = rng.randint(1, max_pieces)
    cuts = sorted(rng.sample(range(1, 8), pieces - 1))
    lo, ranges = 0, []
    for c in cuts:
        ranges.append([lo, c]); lo = c + 1
    ranges.append([lo, top])
    return ranges, [rng.choice(factors) for _ in ranges]


def digraph_cyc(rng, max_nodes=6, valid=True):
    """digraph with cycles for the walk models: `digraph_scc` plus parallel exits out of / entries into
    the SCC shapes, extra sources and sinks, and additional starts / ends.

    returns (nodes, edges, starts, ends, tags); when `valid`, `starts` / `ends` are completed so that the
    requirement of `stDiGraph._post_build` holds (at least one node without in-edges or an additional
    start, and at least one node without out-edges or an additional end; note that a self-loop counts
    as an in-edge and as an out-edge)."""
    nodes, edges = digraph_scc(rng, max_nodes=max_nodes)
    nodes, edges = list(nodes), list(edges)
    tags = set()
    es = set(edges)

    def add(u, v):
        if (u, v) not in es:
            es.add((u, v)); edges.append((u, v))
            for x in (u, v):
                if x not in nodes:
                    nodes.append(x)
            return True
        return False

    cyc_nodes = [v for v in nodes if v.endswith("_c") or v.endswith("_c1") or v.endswith("_c2")]
    if any((v, v) in es for v in nodes):
        tags.add("self_loop")
    if any(v.endswith("_c") for v in nodes):
        tags.add("two_cycle")
    if any(v.endswith("_c1") for v in nodes):
        tags.add("nested_cycles")
    # parallel exits / entries of an SCC shape: the satellite node of a cycle gets its own edge to a
    # successor (from a predecessor) of the cycle's skeleton node, or to (from) a fresh sink (source)
    for w in cyc_nodes:
        v = w.rsplit("_", 1)[0]
        r = rng.random()
        if r < 0.3:
            outs = [y for (x, y) in edges if x == v and y != v and not y.startswith(v + "_c")]
            if outs and rng.random() < 0.7:
                if add(w, rng.choice(outs)):
                    tags.add("parallel_scc_exit")
            else:
                if add(w, w + "_out"):
                    tags.add("scc_exit_to_new_sink")
        elif r < 0.45:
            ins = [x for (x, y) in edges if y == v and x != v and not x.startswith(v + "_c")]
            if ins:
                if add(rng.choice(ins), w):
                    tags.add("parallel_scc_entry")
            else:
                if add(w + "_in", w):
                    tags.add("scc_entry_from_new_source")
    # several sources / sinks
    if rng.random() < 0.3:
        add("src2", rng.choice(nodes)); tags.add("extra_source")
    if rng.random() < 0.3:
        add(rng.choice([x for x in nodes if x != "src2"]), "snk2"); tags.add("extra_sink")
    indeg = {v: 0 for v in nodes}; outdeg = {v: 0 for v in nodes}
    for u, v in edges:
        outdeg[u] += 1; indeg[v] += 1
    starts, ends = [], []
    if rng.random() < 0.3:
        starts = rng.sample(nodes, rng.randint(1, min(2, len(nodes))))
    if rng.random() < 0.3:
        ends = rng.sample(nodes, rng.randint(1, min(2, len(nodes))))
    if valid:
        if not starts and not any(indeg[v] == 0 for v in nodes):
            starts = [rng.choice(nodes)]; tags.add("start_required")
        if not ends and not any(outdeg[v] == 0 for v in nodes):
            ends = [rng.choice(nodes)]; tags.add("end_required")
    if valid and rng.random() < 0.85:
        # connect: every node reachable from a start and reaching an end (greedy additions)
        def closure(seed, fwd):
            seen = set(seed); stack = list(seed)
            while stack:
                x = stack.pop()
                for (a, b) in edges:
                    y = b if fwd and a == x else (a if (not fwd) and b == x else None)
                    if y is not None and y not in seen:
                        seen.add(y); stack.append(y)
            return seen
        for fwd in (True, False):
            lst = starts if fwd else ends
            deg = indeg if fwd else outdeg
            guard = 0
            while guard < 10:
                guard += 1
                R = closure([v for v in nodes if deg[v] == 0 or v in lst], fwd)
                miss = [v for v in nodes if v not in R]
                if not miss:
                    break
                best = max(miss, key=lambda v: len(closure([v], fwd) - R))
                lst.append(best)
                tags.add("start_added_for_reachability" if fwd else "end_added_for_reachability")
    if starts:
        tags.add("additional_starts")
    if ends:
        tags.add("additional_ends")
    if sum(1 for v in nodes if indeg[v] == 0 or v in starts) > 1:
        tags.add("several_sources")
    if sum(1 for v in nodes if outdeg[v] == 0 or v in ends) > 1:
        tags.add("several_sinks")
    order = list(nodes)
    rng.shuffle(order)
    return order, edges, starts, ends, sorted(tags)


def walk_flow_cyc(rng, nodes, edges, starts, ends, weights=(1, 2, 3), wtype=int, nwalks=None, cover=True):
    """conserving flow (w.r.t. the augmented graph) as a superposition of weighted random walks from a
    start (node without in-edges or additional start) to an end (node without out-edges or additional
    end); edges on no such walk keep flow 0. returns (flow dict, walks, weights)"""
    succ = {v: [] for v in nodes}
    indeg = {v: 0 for v in nodes}
    for u, v in edges:
        succ[u].append(v); indeg[v] += 1
    E = {v for v in nodes if not succ[v] or v in ends}
    # distance to the nearest end (reverse BFS); walks start only where an end is reachable
    dist = {v: 0 for v in E}
    frontier = list(E)
    while frontier:
        nxt = []
        for y in frontier:
            for (a, b) in edges:
                if b == y and a not in dist:
                    dist[a] = dist[y] + 1; nxt.append(a)
        frontier = nxt
    S = [v for v in nodes if (indeg[v] == 0 or v in starts) and v in dist]
    f = {e: wtype(0) for e in edges}
    left = set(edges)
    walks, ws = [], []
    target = nwalks if nwalks is not None else rng.randint(1, 4)
    tries = 0
    while S and tries < 60 and (len(walks) < target or (cover and left and len(walks) < 7)):
        tries += 1
        v = rng.choice(S); used = []; steps = 0
        while steps < 24:
            if v in E and (not succ[v] or rng.random() < 0.35):
                break
            cand = [x for x in succ[v] if x in dist]
            if not cand:
                break
            if steps >= 8:                              # head for the nearest end
                x = min(cand, key=lambda y: dist[y])
            else:
                pref = [x for x in cand if (v, x) in left]
                x = rng.choice(pref) if pref and rng.random() < 0.8 else rng.choice(cand)
            used.append((v, x)); v = x; steps += 1
        if v in E and used:
            w = wtype(rng.choice(weights))
            for e in used:
                f[e] += w
            left -= set(used)
            walks.append(used); ws.append(w)
    return f, walks, ws


def subset_constraints_cyc(rng, edges, walks=(), n=None):
    """subset constraints for the walk models: lists of edges (sets semantically) with duplicates inside a
    constraint and overlaps between constraints"""
    out = []
    for _ in range(n if n is not None else rng.randint(1, 3)):
        if walks and rng.random() < 0.5:
            pool = list(rng.choice(list(walks)))
        else:
            pool = list(edges)
        m = rng.randint(1, min(3, len(pool)))
        c = [rng.choice(pool) for _ in range(m)]       # sampling with replacement: duplicates happen
        if rng.random() < 0.25:
            c.append(c[0])
        if out and rng.random() < 0.4:
            c.append(rng.choice(out[-1]))              # overlap with the previous constraint
        out.append(c)
    return out
