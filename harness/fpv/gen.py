"""Generators: DAGs, digraphs built from SCC shapes, flows as superpositions of weighted routes."""
import random
from fractions import Fraction

NAMES = ["a", "b", "c", "d", "e", "f", "g", "h", "x.0", "7", "y.1.0", "n1", "n2", "q", "t", "s"]


def node_names(rng, n, hostile=True):
    pool = list(NAMES) if hostile else [f"v{i}" for i in range(40)]
    pool += [f"u{i}" for i in range(n)]
    rng.shuffle(pool)
    out = []
    for x in pool:
        if x not in out:
            out.append(x)
        if len(out) == n:
            break
    return out


def dag(rng, n=None, p=None, max_nodes=7, min_edges=1):
    """random DAG on n nodes: returns (nodes, edges) in networkx insertion order (no isolated nodes
    unless n == 1 is impossible: at least one edge)"""
    n = n or rng.randint(2, max_nodes)
    p = p if p is not None else rng.choice([0.25, 0.4, 0.6])
    names = node_names(rng, n)
    order = list(range(n))
    edges = []
    for i in range(n):
        for j in range(i + 1, n):
            if rng.random() < p:
                edges.append((names[order[i]], names[order[j]]))
    if not edges:
        edges.append((names[0], names[1]))
    guard = 0
    while len(edges) < min_edges and guard < 200:
        guard += 1
        i, j = sorted(rng.sample(range(n), 2))
        if (names[i], names[j]) not in edges:
            edges.append((names[i], names[j]))
    rng.shuffle(edges)
    node_order = list(names)
    rng.shuffle(node_order)
    # networkx: nodes as first inserted; we add nodes explicitly first
    return node_order, edges


def st_paths(nodes, edges, limit=200):
    """all source-to-sink paths (sources: indeg 0, sinks: outdeg 0) up to `limit`"""
    succ = {v: [] for v in nodes}
    indeg = {v: 0 for v in nodes}
    for u, v in edges:
        succ[u].append(v); indeg[v] += 1
    srcs = [v for v in nodes if indeg[v] == 0]
    out = []

    def rec(p):
        if len(out) >= limit:
            return
        v = p[-1]
        if not succ[v]:
            out.append(list(p)); return
        for w in succ[v]:
            rec(p + [w])
    for s in srcs:
        rec([s])
    return out


def random_path(rng, nodes, edges, start=None):
    succ = {v: [] for v in nodes}
    indeg = {v: 0 for v in nodes}
    for u, v in edges:
        succ[u].append(v); indeg[v] += 1
    srcs = [v for v in nodes if indeg[v] == 0]
    v = start or rng.choice(srcs)
    p = [v]
    while succ[v]:
        v = rng.choice(succ[v]); p.append(v)
    return p


def flow_from_paths(rng, nodes, edges, npaths=None, weights=(1, 2, 3, 5, 8), cover=True, wtype=int):
    """conserving flow as a superposition of weighted source-to-sink paths; covers every edge when
    `cover` (so the flow is strictly positive)"""
    paths = []
    if cover:
        left = set(edges)
        guard = 0
        while left and guard < 200:
            guard += 1
            p = random_path(rng, nodes, edges)
            pe = set(zip(p[:-1], p[1:]))
            if pe & left or not paths:
                paths.append(p); left -= pe
        # isolated nodes contribute nothing
    for _ in range(npaths if npaths is not None else rng.randint(0, 2)):
        paths.append(random_path(rng, nodes, edges))
    ws = [wtype(rng.choice(weights)) for _ in paths]
    f = {e: wtype(0) for e in edges}
    for p, w in zip(paths, ws):
        for e in zip(p[:-1], p[1:]):
            f[e] += w
    return f, paths, ws


def subpaths(rng, nodes, edges, n=None, maxlen=3, contiguous=True):
    """random subpath constraints taken from real source-sink paths"""
    out = []
    for _ in range(n if n is not None else rng.randint(1, 2)):
        p = random_path(rng, nodes, edges)
        es = list(zip(p[:-1], p[1:]))
        if not es:
            continue
        if contiguous:
            i = rng.randrange(len(es)); j = min(len(es), i + rng.randint(1, maxlen))
            out.append(es[i:j])
        else:
            m = rng.randint(1, min(maxlen, len(es)))
            idx = sorted(rng.sample(range(len(es)), m))
            out.append([es[t] for t in idx])
    return out


def digraph_scc(rng, max_nodes=6):
    """digraph with cycles: a random DAG skeleton whose nodes are replaced by small SCC shapes;
    guarantees at least one source-like and one sink-like node after construction is NOT enforced here
    (callers check)"""
    nodes, edges = dag(rng, n=rng.randint(2, max(2, max_nodes - 2)))
    edges = list(edges)
    extra_nodes = []
    for v in list(nodes):
        r = rng.random()
        if r < 0.25:
            edges.append((v, v))                       # self loop
        elif r < 0.5:
            w = f"{v}_c"; extra_nodes.append(w)
            edges += [(v, w), (w, v)]                  # 2-cycle
        elif r < 0.6:
            w1, w2 = f"{v}_c1", f"{v}_c2"; extra_nodes += [w1, w2]
            edges += [(v, w1), (w1, w2), (w2, v), (w1, v)]   # nested cycles
    # occasionally a back edge between skeleton nodes
    if rng.random() < 0.3 and len(nodes) >= 3:
        u, v = rng.sample(nodes, 2)
        if (u, v) not in edges:
            edges.append((u, v))
    nodes = nodes + extra_nodes
    seen = set(); e2 = []
    for e in edges:
        if e not in seen:
            seen.add(e); e2.append(e)
    return nodes, e2


def arbitrary_flow(rng, edges, values=(1, 2, 3, 5, 8), p_zero=0.2, wtype=int):
    """non-conserving edge values (for the error models): every edge draws independently from `values`,
    or 0 with probability `p_zero`"""
    return {e: (wtype(0) if rng.random() < p_zero else wtype(rng.choice(values))) for e in edges}


def length_ranges(rng, top=100, max_pieces=3, factors=(1, 2, 0.5, 1.5, 1.25, 3)):
    """consecutive integer ranges [0,a],[a+1,b],...,[.., top] with one factor per range
    (`path_length_ranges` / `path_length_factors` of kMinPathError)"""
    pieces = rng.randint(1, max_pieces)
    cuts = sorted(rng.sample(range(1, 8), pieces - 1))
    lo, ranges = 0, []
    for c in cuts:
        ranges.append([lo, c]); lo = c + 1
    ranges.append([lo, top])
    return ranges, [rng.choice(factors) for _ in ranges]
