"""Fault injection and tracing, done by wrapping attributes of the imported package from outside
(no source hook): the j-th solver invocation can be forced to end with any status."""
import contextlib

SKIP = {"kTimeLimit", "kInterrupt", "kUnknown", "kIterationLimit", "kSolutionLimit", "kInfeasible",
        "kUnboundedOrInfeasible", "kMemoryLimit"}


class SolverFaults:
    """with SolverFaults(fp, {2: 'kTimeLimit'}) as sf: ...   sf.log = [(index, status), ...]"""

    def __init__(self, fp, plan=None):
        self.fp = fp
        self.plan = dict(plan or {})
        self.log = []
        self.count = 0
        self.alarms = []     # invocation indices at which a real SIGALRM was delivered

    def __enter__(self):
        SW = self.fp.utils.solverwrapper.SolverWrapper
        self._orig_opt, self._orig_status = SW.optimize, SW.get_model_status
        me = self

        def optimize(sw):
            idx = me.count
            me.count += 1
            forced = me.plan.get(idx)
            sw._fpv_forced = None
            if forced in SKIP:
                sw.did_timeout = False
                sw._apply_pending_bound_updates()
                sw._fpv_forced = forced
                me.log.append((idx, forced))
                return
            if forced == "sigalrm":
                # exercise the real custom-timeout path: the alarm really fires while the backend runs
                import os, signal
                sw.use_also_custom_timeout = True
                if sw.time_limit == float("inf"):
                    sw.time_limit = 3600.0
                backend = sw.solver.optimize

                def overrunning_backend(*a, **k):
                    os.kill(os.getpid(), signal.SIGALRM)
                    return backend(*a, **k)
                sw.solver.optimize = overrunning_backend
                try:
                    me._orig_opt(sw)
                finally:
                    try:
                        del sw.solver.optimize
                    except AttributeError:
                        pass
                me.alarms.append(idx)
                me.log.append((idx, me._orig_status(sw)))
                return
            me._orig_opt(sw)
            if forced == "custom_timeout":
                sw.did_timeout = True
            me.log.append((idx, me._orig_status(sw)))

        def get_model_status(sw, raw=False):
            f = getattr(sw, "_fpv_forced", None)
            if f is not None:
                return f
            return me._orig_status(sw, raw)

        SW.optimize, SW.get_model_status = optimize, get_model_status
        return self

    def __exit__(self, *a):
        SW = self.fp.utils.solverwrapper.SolverWrapper
        SW.optimize, SW.get_model_status = self._orig_opt, self._orig_status
        return False


class SolveTrace:
    """records (k, status, solved) for every `solve()` of the given k-model classes"""

    def __init__(self, classes):
        self.classes = classes
        self.log = []

    def __enter__(self):
        self._orig = {}
        me = self
        for cls in self.classes:
            orig = cls.__dict__.get("solve")
            if orig is None:      # inherited: wrap on the subclass without touching the base
                base_solve = cls.solve

                def mk(base_solve):
                    def solve(obj, *a, **k):
                        r = base_solve(obj, *a, **k)
                        me._record(obj)
                        return r
                    return solve
                self._orig[cls] = None
                cls.solve = mk(base_solve)
            else:
                def mk2(orig):
                    def solve(obj, *a, **k):
                        r = orig(obj, *a, **k)
                        me._record(obj)
                        return r
                    return solve
                self._orig[cls] = orig
                cls.solve = mk2(orig)
        return self

    def _record(self, obj):
        st = None
        if getattr(obj, "external_solution_paths", None) is not None:
            st = "kOptimal"      # greedy / external solution: no solver run, reported solved
        else:
            try:
                st = obj.solver.get_model_status()
            except Exception as e:
                st = f"<no status: {e!r}>"
        given = getattr(obj, "solution_weights_superset", None) is not None or \
            bool(getattr(obj, "optimization_options", {}) and obj.optimization_options.get("given_weights") is not None)
        self.log.append((getattr(obj, "k", None), st, bool(obj.is_solved()), given))

    def __exit__(self, *a):
        for cls, orig in self._orig.items():
            if orig is None:
                try:
                    del cls.solve
                except AttributeError:
                    pass
            else:
                cls.solve = orig
        return False


# --------------------------------------------------------------------------- status log (harness-side wrapper)

STATUS_LOG = []


def instrument_statuses(fp):
    """record the solver's model status after every SolverWrapper.optimize() (/repo is not touched): an inconclusive
    run (time limit, solve error) must not be mistaken for a verdict by an oracle that compares solved / unsolved.
    Returns the shared list; callers clear it before a run and read it afterwards."""
    SW = fp.utils.solverwrapper.SolverWrapper
    if getattr(SW, "_fpv_status_wrapped", False):
        return STATUS_LOG
    orig = SW.optimize

    def optimize(self, *a, **k):
        r = orig(self, *a, **k)
        try:
            STATUS_LOG.append(str(self.get_model_status()))
        except Exception:
            STATUS_LOG.append("?")
        return r
    SW.optimize = optimize
    SW._fpv_status_wrapped = True
    return STATUS_LOG
