"""Which range and which loop shape each minimum search uses — the harness-side part of the search
model (the loop itself is FP/Model/Search.lean). Mirrors the code as it is on the tree under test."""


def hi(cls, m):
    if cls in ("MinFlowDecomp", "MinFlowDecompCycles", "MinPathCoverCycles"):
        return m.G.number_of_edges() + 1        # range(lb, |E(G_internal)| + 1)  (since fix 2d6e71b)
    if cls == "MinPathCover":
        return m.G.number_of_edges()            # m.G is the (already augmented) stDAG
    if cls == "MinGenSet":
        return max(m.lowerbound + 1, len(m.initial_numbers))
    raise KeyError(cls)


def kind(cls):
    if cls == "MinGenSet":
        return "stop"                           # since fix c8f5b23 (the pinned tree skipped: FP.Search.skipSearch)
    if cls == "MinFlowDecompCycles":
        return "timed"
    return "stop"
