"""Which range and which loop shape each minimum search uses — the harness-side part of the search
model (the loop itself is FP/Model/Search.lean). Mirrors the code as it is on the tree under test."""


def hi(cls, m):
    if cls == "MinFlowDecomp":
        # range(lb, |E| + #subpath constraints + 1)   (fixes 2d6e71b, e0ac661)
        return m.G.number_of_edges() + len(m.subpath_constraints) + 1
    if cls == "MinFlowDecompCycles":
        # range(lb, |E(G_internal)| + #subset constraints + 1)  (fixes 2d6e71b, 26b11a1)
        return m.G.number_of_edges() + len(m.subset_constraints or []) + 1
    if cls == "MinPathCoverCycles":
        return m.G.number_of_edges() + 1        # range(lb, |E(G_internal)| + 1)  (since fix 2d6e71b)
    if cls == "MinPathCover":
        return m.G.number_of_edges()            # m.G is the (already augmented) stDAG
    if cls == "MinGenSet":
        # range(lb, max(lb, upper) + 1), upper = #distinct numbers + 1 + sum(parts - 1)   (fix 6c30e65)
        upper = len(set(m.numbers)) + 1 + sum(max(len(c) - 1, 0) for c in (m.partition_constraints or []))
        return max(max(m.lowerbound, 1), upper) + 1      # the loop starts at max(lowerbound, 1)
    raise KeyError(cls)


def kind(cls):
    if cls == "MinGenSet":
        return "stop"                           # since fix c8f5b23 (the pinned tree skipped: FP.Search.skipSearch)
    if cls == "MinFlowDecompCycles":
        return "timed"
    return "stop"
