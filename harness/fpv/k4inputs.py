"""Base inputs and input variants for the K4 observation suites (C18 aliasing, C19 guards).

Everything is rebuilt from plain descriptions on every call, so that sharing / mutation of argument
objects is fully under the control of the caller of these helpers.
"""
import copy, inspect
import networkx as nx

DAG = ["kFlowDecomp", "MinFlowDecomp", "kLeastAbsErrors", "kMinPathError", "kPathCover", "MinPathCover"]
CYC = ["kFlowDecompCycles", "MinFlowDecompCycles", "kLeastAbsErrorsCycles", "kMinPathErrorCycles",
       "kPathCoverCycles", "MinPathCoverCycles"]
GRAPH_MODELS = DAG + CYC + ["MinErrorFlow"]
MISC = ["MinGenSet", "MinSetCover", "NumPathsOptimization"]
ALL_MODELS = DAG + CYC + ["MinErrorFlow"] + MISC
FLOW_DECOMP = {"kFlowDecomp", "MinFlowDecomp", "kFlowDecompCycles", "MinFlowDecompCycles"}
COVER = {"kPathCover", "MinPathCover", "kPathCoverCycles", "MinPathCoverCycles"}
ERROR = {"kLeastAbsErrors", "kMinPathError", "kLeastAbsErrorsCycles", "kMinPathErrorCycles"}
HAS_K = {"kFlowDecomp", "kLeastAbsErrors", "kMinPathError", "kPathCover", "kFlowDecompCycles",
         "kLeastAbsErrorsCycles", "kMinPathErrorCycles", "kPathCoverCycles"}

DAG_EDGES = [("s", "a", 5), ("s", "b", 3), ("a", "b", 2), ("a", "t", 3), ("b", "t", 5)]
DAG_NODE_FLOW = {"s": 8, "a": 5, "b": 5, "t": 8}
CYC_EDGES = [("s", "a", 3), ("a", "b", 5), ("b", "a", 2), ("b", "t", 3)]
CYC_NODE_FLOW = {"s": 3, "a": 5, "b": 5, "t": 3}


def is_cyc(cls):
    return cls in CYC


def base_graph(cls, node_mode=False, gid="g"):
    edges = CYC_EDGES if is_cyc(cls) else DAG_EDGES
    G = nx.DiGraph()
    G.graph["id"] = gid
    for u, v, f in edges:
        G.add_edge(u, v, flow=f, length=1)
    if node_mode:
        for v, f in (CYC_NODE_FLOW if is_cyc(cls) else DAG_NODE_FLOW).items():
            G.nodes[v]["flow"] = f
    return G


def base_k(cls):
    return 2 if is_cyc(cls) else 3


def constraint_key(cls):
    return "subset_constraints" if is_cyc(cls) else "subpath_constraints"


def coverage_key(cls):
    return "subset_constraints_coverage" if is_cyc(cls) else "subpath_constraints_coverage"


def origin_key(cls):
    return "cover_type" if cls in COVER else "flow_attr_origin"


def signature(fp, cls):
    return inspect.signature(getattr(fp, cls).__init__).parameters


def base_kwargs(fp, cls, node_mode=False):
    """a valid input of class `cls` (fresh objects)"""
    if cls == "MinGenSet":
        return {"numbers": [2, 3, 5], "total": 5, "weight_type": int}
    if cls == "MinSetCover":
        return {"universe": [1, 2, 3], "subsets": [[1, 2], [2, 3], [3]], "subset_weights": [1, 1, 1]}
    if cls == "NumPathsOptimization":
        return {"model_type": fp.kMinPathError, "stop_on_first_feasible": True, "max_num_paths": 6,
                "G": base_graph("kMinPathError"), "flow_attr": "flow", "weight_type": int}
    kw = {"G": base_graph(cls, node_mode)}
    if cls not in COVER:
        kw["flow_attr"] = "flow"
        kw["weight_type"] = int
    if cls in HAS_K:
        kw["k"] = base_k(cls)
    if node_mode:
        kw[origin_key(cls)] = "node"
    return kw


def build(fp, cls, kw):
    return getattr(fp, cls)(**kw)


def graph_dump(G):
    """everything a caller can see of a graph"""
    return {"nodes": [(n, dict(d)) for n, d in G.nodes(data=True)],
            "edges": [(u, v, dict(d)) for u, v, d in G.edges(data=True)],
            "graph": dict(G.graph), "frozen": nx.is_frozen(G), "type": type(G).__name__}


def snapshot(x):
    if isinstance(x, nx.Graph):
        return ("graph", copy.deepcopy(graph_dump(x)))
    return ("value", copy.deepcopy(x))


def differs(x, snap):
    """None if `x` still equals its snapshot, else a short description of the difference"""
    kind, old = snap
    if kind == "graph":
        new = graph_dump(x)
        if new == old:
            return None
        for k in ("nodes", "edges", "graph", "frozen", "type"):
            if new[k] != old[k]:
                return f"graph {k} changed: {str(old[k])[:120]} -> {str(new[k])[:120]}"
    if x == old and type(x) == type(old):
        return None
    if isinstance(old, dict) and isinstance(x, dict):
        added = sorted(map(str, set(x) - set(old)))
        changed = sorted(str(k) for k in old if k in x and x[k] != old[k])
        removed = sorted(map(str, set(old) - set(x)))
        return f"dict changed: added keys {added}, changed {changed}, removed {removed}"
    return f"changed: {str(old)[:120]} -> {str(x)[:120]}"


def changed_keys(x, snap):
    kind, old = snap
    if kind == "value" and isinstance(old, dict) and isinstance(x, dict):
        return sorted(str(k) for k in (set(x) | set(old)) if k not in old or k not in x or x[k] != old[k])
    return ["*"]


def result_summary(cls, m):
    """(solved, objective, number of routes) of a solved-or-not model; exceptions are part of the result"""
    try:
        solved = bool(m.is_solved())
    except Exception as e:
        return {"solved": f"{type(e).__name__}"}
    if not solved:
        return {"solved": False}
    out = {"solved": True}
    try:
        obj = m.get_objective_value()
        out["objective"] = round(float(obj), 6) if isinstance(obj, (int, float)) else str(obj)
    except Exception as e:
        out["objective"] = type(e).__name__
    try:
        sol = m.get_solution()
        if isinstance(sol, dict):
            for key in ("paths", "walks"):
                if key in sol:
                    out["routes"] = len(sol[key])
            if "graph" in sol:
                out["routes"] = sorted((u, v, d.get("flow")) for u, v, d in sol["graph"].edges(data=True))
        elif isinstance(sol, list):
            out["routes"] = len(sol)
        else:
            out["routes"] = repr(sol)
    except Exception as e:
        out["routes"] = type(e).__name__
    return out


def comparable(x):
    """get_solution() results as plain data (graphs dumped)"""
    if isinstance(x, dict):
        return {str(k): comparable(v) for k, v in x.items()}
    if isinstance(x, (list, tuple)):
        return [comparable(v) for v in x]
    if isinstance(x, nx.Graph):
        return graph_dump(x)
    return x


# --------------------------------------------------------------------------------------------- C19 variants

def _cons(cls, kw, value):
    kw[constraint_key(cls)] = value


def _valid_constraint(cls):
    return [[("a", "b")]] if is_cyc(cls) else [[("s", "a"), ("a", "t")]]


def variants(fp, cls):
    """[(flag, variant name, function kwargs -> None, features touched)] : the single violations applicable to
    the signature of `cls`; two variants can be combined iff their feature sets are disjoint"""
    sig = signature(fp, cls)
    out = []

    def add(flag, name, fn, feats):
        out.append((flag, name, fn, frozenset(feats)))

    if cls == "MinGenSet":
        add("badWeightType", "weight_type=str", lambda kw: kw.update(weight_type=str), {"wtype"})
        add("constraintNotListOfLists", "partition_constraints=[(2,3)]", lambda kw: kw.update(partition_constraints=[(2, 3)]), {"cons"})
        return out
    if cls in ("MinSetCover", "NumPathsOptimization"):
        return out
    g = "G"

    def relabel(kw):
        kw[g] = nx.relabel_nodes(kw[g], {"a": 1})
    add("nonStringNode", "node a -> 1", relabel, {"graph", "w:ab"})
    add("emptyGraph", "empty graph", lambda kw: kw.update(G=nx.DiGraph()), {"graph", "w:ab", "w:sa", "edge"})
    if cls in DAG:
        add("cyclicForDag", "edge t->s", lambda kw: kw[g].add_edge("t", "s", flow=8, length=1), {"edge"})
    if cls in CYC:
        def pure_cycle(kw):
            G = nx.DiGraph()
            for u, v in (("a", "b"), ("b", "c"), ("c", "a")):
                G.add_edge(u, v, flow=1)
            kw[g] = G
        add("noSourceOrSink", "pure cycle a->b->c->a", pure_cycle, {"graph", "w:ab", "w:sa", "edge"})
    if "flow_attr" in sig:
        if cls != "MinErrorFlow":      # MinErrorFlow corrects arbitrary weights; its documentation excludes no sign
            add("negativeWeight", "flow(a,b) = -1", lambda kw: kw[g]["a"]["b"].__setitem__("flow", -1), {"w:ab"})
            # ... and a negative value that keeps conservation: a whole extra source-to-sink route carrying -3
            def neg_route(kw):
                kw[g].add_edge("s", "neg", flow=-3, length=1); kw[g].add_edge("neg", "t", flow=-3, length=1)
            add("negativeWeight", "extra route s->neg->t with flow -3 (conservation holds)", neg_route, {"negroute"})
            # ... and a negative value that an int() conversion would truncate to 0
            def neg_small(kw):
                kw[g].add_edge("s", "neg", flow=-0.5, length=1); kw[g].add_edge("neg", "t", flow=-0.5, length=1)
                kw["weight_type"] = int
            if "weight_type" in sig:
                add("negativeWeight", "extra route s->neg->t with flow -0.5, weight_type=int", neg_small, {"negroute", "wtype"})
        add("missingWeight", "flow(a,b) missing", lambda kw: kw[g]["a"]["b"].pop("flow"), {"w:ab"})
        add("badWeightType", "weight_type=str", lambda kw: kw.update(weight_type=str), {"wtype"})
        # ... a subclass of int is not one of the two documented types either
        add("badWeightType", "weight_type=bool", lambda kw: kw.update(weight_type=bool), {"wtype"})
    if cls in FLOW_DECOMP:
        add("nonConservingFlow", "flow(s,a) = 7", lambda kw: kw[g]["s"]["a"].__setitem__("flow", 7), {"w:sa"})
        if cls in DAG:
            # ... and an imbalance that is tiny relative to the values (a tolerance-based comparison would let it through)
            def huge_off_by_one(kw):
                for _, _, d in kw[g].edges(data=True):
                    d["flow"] = d["flow"] * 10 ** 9
                kw[g]["s"]["a"]["flow"] += 1
            add("nonConservingFlow", "all flows * 10^9, then flow(s,a) += 1", huge_off_by_one, {"w:sa", "w:ab", "scale"})
    if constraint_key(cls) in sig:
        add("constraintNotListOfLists", "constraints=[(s,a)]", lambda kw: _cons(cls, kw, [("s", "a")]), {"cons"})
        add("constraintEmpty", "constraints=[[]]", lambda kw: _cons(cls, kw, [[]]), {"cons"})
        add("constraintEdgeAbsent", "constraints=[[(s,zz)]]", lambda kw: _cons(cls, kw, [[("s", "zz")]]), {"cons"})
        add("constraintNotTuples", "constraints=[[[s,a]]]", lambda kw: _cons(cls, kw, [[["s", "a"]]]), {"cons"})
        for c in (0, 1.5, -1):
            add("coverageOutOfRange", f"coverage={c}",
                lambda kw, c=c: (_cons(cls, kw, _valid_constraint(cls)), kw.__setitem__(coverage_key(cls), c)), {"cons", "cov"})
    if "subpath_constraints_coverage_length" in sig:
        # documented: in (0, 1]; needs length_attr; cannot be combined with subpath_constraints_coverage < 1
        for c in (0, 0.0, -0.5, 1.5):
            add("coverageLengthOutOfRange", f"subpath_constraints_coverage_length={c!r}",
                lambda kw, c=c: (_cons(cls, kw, _valid_constraint(cls)), kw.update(subpath_constraints_coverage_length=c, length_attr="length")),
                {"cons", "cov"})
        add("coverageLengthWithoutLengthAttr", "subpath_constraints_coverage_length=0.5 without length_attr",
            lambda kw: (_cons(cls, kw, _valid_constraint(cls)), kw.update(subpath_constraints_coverage_length=0.5)), {"cons", "cov"})
        add("coverageLengthWithCoverage", "subpath_constraints_coverage_length=0.5 with subpath_constraints_coverage=0.5",
            lambda kw: (_cons(cls, kw, _valid_constraint(cls)),
                        kw.update(subpath_constraints_coverage_length=0.5, length_attr="length", subpath_constraints_coverage=0.5)),
            {"cons", "cov"})
    if cls in HAS_K:
        for k in (0, -1):
            add("kNonPositive", f"k={k}", lambda kw, k=k: kw.update(k=k), {"k"})
        for k in (2.5, "2"):
            add("kNotInt", f"k={k!r}", lambda kw, k=k: kw.update(k=k), {"k"})
    add("badOrigin", f"{origin_key(cls)}='vertex'", lambda kw: kw.__setitem__(origin_key(cls), "vertex"), {"origin"})
    if "additional_starts" in sig:
        add("unknownStart", "additional_starts=['zz']", lambda kw: kw.update(additional_starts=["zz"]), {"starts"})
        add("unknownEnd", "additional_ends=['zz']", lambda kw: kw.update(additional_ends=["zz"]), {"ends"})
        # ... unknown and not even a string
        add("unknownStart", "additional_starts=[7]", lambda kw: kw.update(additional_starts=[7]), {"starts"})
        add("unknownEnd", "additional_ends=[None]", lambda kw: kw.update(additional_ends=[None]), {"ends"})
    if "error_scaling" in sig:
        for x in (1.5, -0.1):
            add("scalingOutOfRange", f"error_scaling={{(s,a): {x}}}", lambda kw, x=x: kw.update(error_scaling={("s", "a"): x}), {"scaling"})
    if "elements_to_ignore" in sig:
        add("ignoreWrongShape", "elements_to_ignore=['s']", lambda kw: kw.update(elements_to_ignore=["s"]), {"ignore"})
        add("ignoreWrongShape", "elements_to_ignore=[(s,a,b)]", lambda kw: kw.update(elements_to_ignore=[("s", "a", "b")]), {"ignore"})
    return out


def describe(kw):
    """JSON-able description of constructor arguments (for replay files)"""
    out = {}
    for k, v in kw.items():
        if isinstance(v, nx.Graph):
            out[k] = {"nodes": [[repr(n), dict(d)] for n, d in v.nodes(data=True)],
                      "edges": [[repr(a), repr(b), dict(d)] for a, b, d in v.edges(data=True)]}
        elif isinstance(v, type):
            out[k] = v.__name__
        else:
            out[k] = repr(v)
    return out


def observe(fp, cls, kw):
    """run the real code: returns {'stage':, 'exc':, 'msg':, 'solved':}"""
    try:
        m = build(fp, cls, kw)
    except Exception as e:
        return {"stage": "construct", "exc": type(e).__name__, "msg": str(e)[:160]}
    try:
        r = m.solve()
    except Exception as e:
        return {"stage": "solve", "exc": type(e).__name__, "msg": str(e)[:160]}
    try:
        solved = bool(m.is_solved())
    except Exception as e:
        return {"stage": "is_solved", "exc": type(e).__name__, "msg": str(e)[:160]}
    return {"stage": "done", "exc": None, "solved": solved, "returned": bool(r)}
